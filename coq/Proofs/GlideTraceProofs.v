(** * GlideTraceProofs: the glide properties C13 / C14 on real histories

    The approach / settling / step-response theorems of Props/C13.v and Props/C14.v speak about
    an abstract filter record [d : df1] with hypotheses [good (d_c d)], [df1_bounded d B] and
    (for the step response) a filter exactly at rest.  This file discharges those hypotheses
    for every state a processor can actually reach and restates the theorems on
    [glide_outputs] of real histories:

    - [reachable_bounded]: every reachable state has a [good] coefficient set in force, of
      speed at least [0.6 / fs], and memories inside the hull of the inputs (so
      [df1_bounded] with [B = (1 + resolution (0.6 / fs)) * M]);
    - [C13_trace_approach], [C13_trace_approach_gen], [C13_trace_settles],
      [C13_trace_settles_gen]: the constant-input clause of C13 after ANY history (set_time
      calls in the middle of a glide included), with the resolution of the coefficient set IN
      FORCE;
    - [step_tracks_near_rest], [C14_trace_step_tracks], [second_glide]: the step response
      from a level that is only approximately settled (any offset, any history before);
    - [speed_of_time], [first_glide_end_to_end_sharp], [any_glide_end_to_end],
      [percent_of_tolerance], [end_to_end_percent]: the end-to-end tolerance with the
      resolution of the time in effect ([speed >= 6 / N], [N = t * fs] samples per [t])
      instead of the slowest setting of the sample rate. *)

From Coq Require Import ZArith Reals Lia Lra Bool List.
From Flocq Require Import Core IEEE754.BinarySingleNaN.
From Interval Require Import Tactic.
From SU Require Import F32 F32Lemmas.
From SU.gen Require Import Consts.
From SU.Model Require Import Utils Tanf Glide.
From SU.Spec Require Import GlideSpec RunSpec.
From SU.Proofs Require Import LfoProofs GlideCoeffProofs GlideFilterProofs GlideTimeProofs
  GlideExtraProofs GlideKillers.
Import ListNotations.
Open Scope R_scope.

Notation u24 := (/ 16777216).

(** ** list plumbing: runs over concatenated histories *)

Lemma glide_run_app : forall a b og, glide_run og (a ++ b) = glide_run (glide_run og a) b.
Proof.
  induction a as [|o a IH]; intros b og; [reflexivity|].
  cbn [app glide_run]. destruct og as [g|].
  - apply IH.
  - now rewrite glide_run_none.
Qed.

Lemma glide_after_app : forall a b g g', glide_after g a = Some g' ->
  glide_after g (a ++ b) = glide_after g' b.
Proof.
  induction a as [|o a IH]; intros b g g' H; cbn [app glide_after] in *.
  - injection H as <-. reflexivity.
  - destruct (glide_step g o) as [g1|]; [|discriminate]. now apply IH.
Qed.

Lemma outputs_app : forall a b g g' ya,
  glide_after g a = Some g' -> glide_outputs g a = Some ya ->
  glide_outputs g (a ++ b) = option_map (app ya) (glide_outputs g' b).
Proof.
  induction a as [|o a IH]; intros b g g' ya Ha Ho.
  - cbn [glide_after glide_outputs app] in *. injection Ha as <-. injection Ho as <-.
    destruct (glide_outputs g b); reflexivity.
  - destruct o as [t|x]; cbn [app glide_after glide_step glide_outputs] in *.
    + destruct (glide_set_time g t) as [g1|]; [|discriminate]. now apply IH.
    + rewrite glide_process_eq in *. cbv beta iota zeta in *. cbn [fst] in Ha.
      match type of Ho with
      | match glide_outputs ?g1 a with _ => _ end = _ =>
          destruct (glide_outputs g1 a) as [ys'|] eqn:Eo; [|discriminate];
          injection Ho as <-; rewrite (IH b g1 g' ys' Ha Eo)
      end.
      destruct (glide_outputs g' b); reflexivity.
Qed.

Lemma outputs_of_after : forall ops g g', glide_after g ops = Some g' ->
  exists ys, glide_outputs g ops = Some ys.
Proof.
  intros ops g g' H.
  destruct (glide_outputs g ops) as [ys|] eqn:E; [now exists ys|].
  destruct (outputs_defined_iff_after ops g) as [[D _] _]. rewrite (D E) in H. discriminate.
Qed.

(** the coefficient set in force after a run is one of the sets used *)
Lemma coeffs_used_after : forall ops g g', glide_after g ops = Some g' ->
  In (d_c (g_lpf g')) (coeffs_used g ops).
Proof.
  induction ops as [|o r IH]; intros g g' H; cbn [glide_after coeffs_used] in *.
  - injection H as <-. now left.
  - destruct (glide_step g o) as [g1|]; [|discriminate]. right. now apply IH.
Qed.

(** a stretch of [process x] calls is [run_const] on the filter *)
Lemma after_repeat : forall x n g,
  glide_after g (repeat (GProcess x) n) =
  Some (mkGlide (g_min_fc g) (g_max_fc g) (g_fs g) (fst (run_const (g_lpf g) x n)) (g_cached_t g)).
Proof.
  intros x. induction n as [|n IH]; intros g.
  - cbn [repeat glide_after run_const fst]. destruct g; reflexivity.
  - cbn [repeat glide_after glide_step]. rewrite glide_process_eq. cbn [fst].
    rewrite IH. cbn [g_min_fc g_max_fc g_fs g_lpf g_cached_t].
    rewrite run_const_S. cbn [fst]. reflexivity.
Qed.

(** [run_const] extended by one sample at the end *)
Lemma run_const_snoc : forall n d x,
  fst (run_const d x (S n)) = df1_next (fst (run_const d x n)) x /\
  snd (run_const d x (S n)) = snd (run_const d x n) ++ [snd (df1_run (fst (run_const d x n)) x)].
Proof.
  induction n as [|n IH]; intros d x.
  - rewrite run_const_S. cbn [run_const fst snd app]. split; reflexivity.
  - rewrite (run_const_S d x (S n)). cbn [fst snd].
    destruct (IH (df1_next d x) x) as [E1 E2]. rewrite E1, E2.
    rewrite (run_const_S d x n). cbn [fst snd app]. split; reflexivity.
Qed.

Lemma run_const_x1 : forall n d x, d_x1 (fst (run_const d x (S n))) = x.
Proof. intros n d x. destruct (run_const_snoc n d x) as [E _]. rewrite E. reflexivity. Qed.

Lemma run_const_nth : forall n d x j dflt, (j < n)%nat ->
  nth j (snd (run_const d x n)) dflt = d_y1 (fst (run_const d x (S j))).
Proof.
  induction n as [|n IH]; intros d x j dflt Hj; [lia|].
  rewrite run_const_S. cbn [snd].
  destruct j as [|j].
  - cbn [nth]. rewrite run_const_S. cbn [run_const fst]. reflexivity.
  - cbn [nth]. rewrite IH by lia. rewrite (run_const_S d x (S j)). cbn [fst]. reflexivity.
Qed.

(** a stretch of [set_time] calls keeps the four memories *)
Lemma set_times_mem : forall ts g g', glide_after g (map GSetTime ts) = Some g' ->
  d_y1 (g_lpf g') = d_y1 (g_lpf g) /\ d_y2 (g_lpf g') = d_y2 (g_lpf g) /\
  d_x1 (g_lpf g') = d_x1 (g_lpf g) /\ d_x2 (g_lpf g') = d_x2 (g_lpf g).
Proof.
  induction ts as [|t ts IH]; intros g g' H; cbn [map glide_after glide_step] in H.
  - injection H as <-. repeat split.
  - destruct (glide_set_time g t) as [g1|] eqn:Es; [|discriminate].
    destruct (set_time_mem g t g1 Es) as (E1 & E2 & E3 & E4).
    destruct (IH g1 g' H) as (I1 & I2 & I3 & I4).
    rewrite I1, I2, I3, I4. auto.
Qed.

Lemma set_times_outputs : forall ts g g' r, glide_after g (map GSetTime ts) = Some g' ->
  glide_outputs g (map GSetTime ts ++ r) = glide_outputs g' r.
Proof.
  induction ts as [|t ts IH]; intros g g' r H; cbn [map app glide_after glide_step glide_outputs] in *.
  - injection H as <-. reflexivity.
  - destruct (glide_set_time g t) as [g1|]; [|discriminate]. now apply IH.
Qed.

Lemma Forall_time_ok_map : forall ts, Forall glide_time_ok ts -> Forall op_time_ok (map GSetTime ts).
Proof. intros ts H. induction H; cbn [map]; constructor; assumption. Qed.

Lemma Forall_input_map : forall lo hi ts, Forall (op_input_in lo hi) (map GSetTime ts).
Proof. intros lo hi ts. induction ts; cbn [map]; constructor; [exact I|assumption]. Qed.

Lemma Forall_time_ok_repeat : forall x n, Forall op_time_ok (repeat (GProcess x) n).
Proof. intros x n. induction n; cbn [repeat]; constructor; [exact I|assumption]. Qed.

Lemma Forall_input_repeat : forall lo hi x n, fin x -> lo <= R32 x <= hi ->
  Forall (op_input_in lo hi) (repeat (GProcess x) n).
Proof. intros lo hi x n F H. induction n; cbn [repeat]; constructor; [split; assumption|assumption]. Qed.

(** ** (1) every reachable state is bounded by the hull of its inputs *)

Lemma res_nonneg : forall kappa, 0 < kappa -> 0 <= resolution kappa.
Proof.
  intros kappa H. unfold resolution.
  apply Rmult_le_pos; [lra|]. apply Rlt_le, Rinv_0_lt_compat, H.
Qed.

(** [hull_inv] (Proofs/GlideFilterProofs.v) is an invariant of the state run *)
Lemma hull_after : forall kappa lo hi,
  / 100000 <= kappa -> lo <= 0 <= hi ->
  bpow radix2 (-100) <= Rmax (- lo) hi -> Rmax (- lo) hi <= bpow radix2 64 ->
  let E := resolution kappa * Rmax (- lo) hi in
  forall ops g g',
  hull_inv lo hi E (g_lpf g) ->
  Forall (fun c => good c /\ kappa <= speed c) (coeffs_used g ops) ->
  Forall (op_input_in lo hi) ops ->
  glide_after g ops = Some g' -> hull_inv lo hi E (g_lpf g').
Proof.
  intros kappa lo hi Hk5 Hlh HMlo HMhi E.
  induction ops as [|o r IH]; intros g g' Hinv Hc Hin Ha.
  - cbn [glide_after] in Ha. injection Ha as <-. exact Hinv.
  - cbn [coeffs_used] in Hc. inversion Hc as [|c0 l0 [Hg Hk] Hc']. subst c0 l0.
    inversion Hin as [|o0 r0 Ho Hin']. subst o0 r0.
    cbn [glide_after] in Ha.
    destruct (glide_step g o) as [g1|] eqn:Es; [|discriminate].
    apply (IH g1 g'); try assumption.
    destruct o as [t|x]; cbn [glide_step] in Es.
    + destruct (set_time_mem g t g1 Es) as (E1 & E2 & E3 & E4).
      destruct Hinv as ((F1 & F2 & F3 & F4) & I1 & I2 & I3 & I4).
      unfold hull_inv, df1_fin. rewrite E1, E2, E3, E4. repeat split; assumption || lra.
    + rewrite glide_process_eq in Es. cbn [fst] in Es. injection Es as <-. cbn [g_lpf].
      cbn [op_input_in] in Ho. destruct Ho as [Fx Ix].
      destruct (hull_process (g_lpf g) x kappa lo hi Hg Hk Hk5 Hlh HMlo HMhi Hinv Fx Ix)
        as (_ & _ & Hinv').
      exact Hinv'.
Qed.

(** the degenerate range [lo = hi = 0]: all four memories stay zeros *)
Definition zero_inv (d : df1) : Prop :=
  df1_fin d /\ R32 (d_y1 d) = 0 /\ R32 (d_y2 d) = 0 /\ R32 (d_x1 d) = 0 /\ R32 (d_x2 d) = 0.

Lemma zero_after : forall kappa ops g g',
  zero_inv (g_lpf g) ->
  Forall (fun c => good c /\ kappa <= speed c) (coeffs_used g ops) ->
  Forall (op_input_in 0 0) ops ->
  glide_after g ops = Some g' -> zero_inv (g_lpf g').
Proof.
  intros kappa. induction ops as [|o r IH]; intros g g' Hinv Hc Hin Ha.
  - cbn [glide_after] in Ha. injection Ha as <-. exact Hinv.
  - cbn [coeffs_used] in Hc. inversion Hc as [|c0 l0 [Hg Hk] Hc']. subst c0 l0.
    inversion Hin as [|o0 r0 Ho Hin']. subst o0 r0.
    cbn [glide_after] in Ha.
    destruct (glide_step g o) as [g1|] eqn:Es; [|discriminate].
    apply (IH g1 g'); try assumption.
    destruct Hinv as (Hf & Z1 & Z2 & Z3 & Z4).
    destruct o as [t|x]; cbn [glide_step] in Es.
    + destruct (set_time_mem g t g1 Es) as (E1 & E2 & E3 & E4).
      destruct Hf as (F1 & F2 & F3 & F4).
      unfold zero_inv, df1_fin. rewrite E1, E2, E3, E4. repeat split; assumption.
    + rewrite glide_process_eq in Es. cbn [fst] in Es. injection Es as <-. cbn [g_lpf].
      cbn [op_input_in] in Ho. destruct Ho as [Fx Ix].
      assert (Hx : R32 x = 0) by lra.
      destruct (run_zero (g_lpf g) x Hg Hf Fx Hx Z3 Z1) as [Fy Vy].
      destruct Hf as (F1 & F2 & F3 & F4).
      unfold zero_inv, df1_fin. cbn [d_y1 d_y2 d_x1 d_x2]. repeat split; assumption.
Qed.

Lemma hull_inv_bounded : forall lo hi E d, lo <= 0 <= hi -> 0 <= E ->
  hull_inv lo hi E d -> df1_bounded d (Rmax (- lo) hi + E).
Proof.
  intros lo hi E d Hlh HE ((F1 & F2 & F3 & F4) & I1 & I2 & I3 & I4).
  pose proof (Rmax_l (- lo) hi). pose proof (Rmax_r (- lo) hi).
  unfold df1_bounded. repeat split; try assumption; apply Rabs_le; lra.
Qed.

(** every processor reachable through documented calls: nothing panicked, the coefficient set
    in force is well behaved and at least as fast as the slowest setting, and the filter
    memories lie in the hull of the inputs (widened by the resolution for the two outputs).
    Same predicates on the inputs as [C13_hull]. *)
Theorem reachable_bounded : forall fs ops lo hi g,
  glide_fs_ok fs -> Forall op_time_ok ops -> Forall (op_input_in lo hi) ops ->
  lo <= 0 <= hi ->
  (Rmax (- lo) hi = 0 \/ bpow radix2 (-100) <= Rmax (- lo) hi) ->
  Rmax (- lo) hi <= bpow radix2 64 ->
  glide_run (glide_new fs) ops = Some g ->
  good (d_c (g_lpf g)) /\ 0.6 / R32 fs <= speed (d_c (g_lpf g)) /\
  hull_inv lo hi (resolution (0.6 / R32 fs) * Rmax (- lo) hi) (g_lpf g) /\
  df1_bounded (g_lpf g) ((1 + resolution (0.6 / R32 fs)) * Rmax (- lo) hi).
Proof.
  intros fs ops lo hi g Hfs Ht Hin Hlh HM HMhi Hrun.
  destruct (coeffs_good fs ops Hfs Ht) as (g0 & E0 & _ & HF).
  rewrite E0, glide_run_after in Hrun.
  pose proof (slowest_speed_ok fs Hfs) as Hk5.
  set (kappa := 0.6 / R32 fs) in *.
  assert (Hres : 0 <= resolution kappa) by (apply res_nonneg; lra).
  assert (HM0 : 0 <= Rmax (- lo) hi) by (pose proof (Rmax_r (- lo) hi); lra).
  pose proof (proj1 (Forall_forall _ _) HF _ (coeffs_used_after ops g0 g Hrun)) as [Hg Hs].
  split; [exact Hg|]. split; [exact Hs|].
  destruct (glide_new_lpf fs g0 E0) as [c Ec].
  assert (Hinv : hull_inv lo hi (resolution kappa * Rmax (- lo) hi) (g_lpf g)).
  { destruct HM as [HMz|HMlo].
    - assert (Hl : lo = 0) by (pose proof (Rmax_l (- lo) hi); lra).
      assert (Hh : hi = 0) by (pose proof (Rmax_r (- lo) hi); lra).
      rewrite HMz, Rmult_0_r. subst lo hi.
      assert (Z : zero_inv (g_lpf g)).
      { apply (zero_after kappa ops g0 g); try assumption.
        rewrite Ec. unfold zero_inv, df1_fin, df1_new. cbn [d_y1 d_y2 d_x1 d_x2].
        rewrite R32_f_0. repeat split; exact fin_f_0. }
      destruct Z as (Hf & Z1 & Z2 & Z3 & Z4).
      unfold hull_inv. rewrite Z1, Z2, Z3, Z4. split; [exact Hf|]. repeat split; lra.
    - apply (hull_after kappa lo hi Hk5 Hlh HMlo HMhi ops g0 g); try assumption.
      rewrite Ec. unfold hull_inv, df1_fin, df1_new. cbn [d_y1 d_y2 d_x1 d_x2].
      rewrite R32_f_0.
      assert (0 <= resolution kappa * Rmax (- lo) hi) by (apply Rmult_le_pos; assumption).
      repeat split; try exact fin_f_0; lra. }
  split; [exact Hinv|].
  replace ((1 + resolution kappa) * Rmax (- lo) hi)
    with (Rmax (- lo) hi + resolution kappa * Rmax (- lo) hi) by ring.
  apply hull_inv_bounded; [exact Hlh| |exact Hinv].
  apply Rmult_le_pos; assumption.
Qed.

(** the same history does not panic (from [C13_coeffs_good]) *)
Lemma reachable_exists : forall fs ops, glide_fs_ok fs -> Forall op_time_ok ops ->
  exists g0 g, glide_new fs = Some g0 /\ glide_after g0 ops = Some g /\
    glide_run (glide_new fs) ops = Some g.
Proof.
  intros fs ops Hfs Ht.
  destruct (coeffs_good fs ops Hfs Ht) as (g0 & E0 & (g & Ea) & _).
  exists g0, g. split; [exact E0|]. split; [exact Ea|].
  rewrite E0, glide_run_after. exact Ea.
Qed.

(** ** (3) the step response from an approximately settled level *)

Lemma convex3_abs : forall q s a b c B, 0 <= s <= q -> q <= 1 ->
  Rabs a <= B -> Rabs b <= B -> Rabs c <= B ->
  Rabs ((1 - q) * a + (q - s) * b + s * c) <= B.
Proof.
  intros q s a b c B Hs Hq Ha Hb Hc. apply Rabs_le_inv in Ha, Hb, Hc. apply Rabs_le.
  assert (A1 : (1 - q) * (- B) <= (1 - q) * a) by (apply Rmult_le_compat_l; lra).
  assert (A2 : (1 - q) * a <= (1 - q) * B) by (apply Rmult_le_compat_l; lra).
  assert (A3 : (q - s) * (- B) <= (q - s) * b) by (apply Rmult_le_compat_l; lra).
  assert (A4 : (q - s) * b <= (q - s) * B) by (apply Rmult_le_compat_l; lra).
  assert (A5 : s * (- B) <= s * c) by (apply Rmult_le_compat_l; lra).
  assert (A6 : s * c <= s * B) by (apply Rmult_le_compat_l; lra).
  split; lra.
Qed.

Lemma resolution_antitone : forall k1 k2, 0 < k1 <= k2 -> resolution k2 <= resolution k1.
Proof.
  intros k1 k2 H. unfold resolution, Rdiv.
  apply Rmult_le_compat_l; [lra|]. apply Rinv_le_contravar; lra.
Qed.

(** [C14_step_tracks] asks for a filter exactly at rest on [lo] ([d_y1 d = lo]); a real glide
    stalls slightly short of its target.  Here the previous output is only within [delta] of
    [lo]: the offset decays with the pole like everything else, so sample [n] of the response
    is the ideal one up to [p^(n+1) * delta] plus the resolution (no factor 2). *)
Lemma step_tracks_near_rest_state : forall d hi n kappa B delta,
  good (d_c d) -> kappa <= speed (d_c d) -> / 100000 <= kappa ->
  df1_bounded d B -> fin hi -> Rabs (R32 hi) <= B ->
  bpow radix2 (-100) <= B -> B <= bpow radix2 64 ->
  Rabs (R32 (d_y1 d) - R32 (d_x1 d)) <= delta ->
  let lo := d_x1 d in
  let y := d_y1 (fst (run_const d hi (S n))) in
  let p := pole (d_c d) in
  Rabs (R32 y - (R32 lo + (R32 hi - R32 lo) * step_response p n))
    <= Rmax 0 p ^ S n * delta + resolution kappa * B /\
  (0 <= p ->
   Rabs (R32 y - (R32 lo + (R32 hi - R32 lo) * step_response p n))
    <= p ^ S n * delta + resolution kappa / 2 * B).
Proof.
  intros d hi n kappa B delta Hg Hk Hk5 Hb Fhi Bhi HBlo HBhi Hd lo y p.
  pose proof (good_pole _ Hg) as Hp. fold p in Hp.
  assert (HBlo' := HBlo). assert (HBhi' := HBhi).
  rewrite bpow_m100 in HBlo'. rewrite bpow_64 in HBhi'.
  assert (Hsp : speed (d_c d) = 1 - p) by (unfold speed, p, pole; ring).
  pose proof Hb as (Fy1 & Fy2 & Fx1 & Fx2 & By1 & By2 & Bx1 & Bx2).
  fold lo in Bx1, Hd.
  destruct (one_step_sharp d hi B Hg Hb Fhi Bhi HBlo ltac:(rewrite bpow_100; lra)) as (Fz & _ & Hz).
  fold p lo in Hz.
  set (z := snd (df1_run d hi)) in *.
  set (e0 := R32 (d_y1 d) - R32 lo) in *.
  set (r := - ((R32 hi - R32 lo) * ((1 + p) / 2)) + p * e0).
  assert (He0 : Rabs e0 <= 2 * B).
  { unfold e0. apply Rabs_le. apply Rabs_le_inv in By1, Bx1. lra. }
  assert (Hw0 : Rabs (R32 z - R32 hi - r) <= 15 / 2 * u24 * B).
  { replace (R32 z - R32 hi - r)
      with (R32 z - ((1 - p) / 2 * (R32 hi + R32 lo) + p * R32 (d_y1 d))) by (unfold r, e0; field).
    exact Hz. }
  (* Tl = resolution kappa / 2 * B *)
  set (Tl := resolution kappa / 2 * B).
  assert (HS : Tl * kappa = 8 * u24 * B) by (unfold Tl, resolution; field; lra).
  assert (HS0 : 0 <= Tl).
  { unfold Tl, resolution. apply Rmult_le_pos; [|lra].
    apply Rmult_le_pos; [|lra]. apply Rmult_le_pos; [lra|].
    apply Rlt_le, Rinv_0_lt_compat. lra. }
  assert (H1 : Tl * kappa <= Tl * (1 + 4 * u24)) by (apply Rmult_le_compat_l; lra).
  assert (H2 : Tl * / 100000 <= Tl * kappa) by (apply Rmult_le_compat_l; lra).
  assert (Hres : resolution kappa * B = 2 * Tl) by (unfold Tl; field).
  (* the quantity to bound, in terms of the tracked error *)
  assert (Ey : y = d_y1 (fst (run_const (df1_next d hi) hi n))).
  { unfold y. rewrite run_const_S. reflexivity. }
  assert (Eid : R32 y - (R32 lo + (R32 hi - R32 lo) * step_response p n)
                = (R32 y - R32 hi - p ^ n * r) + p ^ S n * e0).
  { unfold r, step_response. simpl pow. field. }
  assert (Pos : 0 <= p ->
    Rabs (R32 y - (R32 lo + (R32 hi - R32 lo) * step_response p n)) <= p ^ S n * delta + Tl).
  { intros Hpos.
    assert (H3 : 0 <= (1 - p - kappa) * Tl) by (apply Rmult_le_pos; lra).
    assert (Hk' : forall k, Rabs (R32 hi + p ^ k * r) <= B).
    { intros k.
      assert (Hpk : 0 <= p ^ k <= 1).
      { split; [apply pow_le; exact Hpos|]. rewrite <- (pow1 k). apply pow_incr. lra. }
      replace (R32 hi + p ^ k * r)
        with ((1 - p ^ k * ((1 + p) / 2)) * R32 hi
              + (p ^ k * ((1 + p) / 2) - p ^ k * p) * R32 lo
              + p ^ k * p * R32 (d_y1 d)) by (unfold r, e0; field).
      apply convex3_abs; try assumption.
      - split; [apply Rmult_le_pos; lra|].
        assert (0 <= p ^ k * ((1 - p) / 2)) by (apply Rmult_le_pos; lra). lra.
      - assert (p ^ k * ((1 + p) / 2) <= 1 * 1) by (apply Rmult_le_compat; lra). lra. }
    pose proof (track_hull (d_c d) hi B (B + Tl) Tl Hg Fhi ltac:(lra)) as T.
    specialize (T ltac:(rewrite bpow_m100; lra) ltac:(rewrite bpow_100; lra) ltac:(lra)).
    fold p in T.
    specialize (T ltac:(rewrite Rabs_pos_eq by exact Hpos; lra) n (df1_next d hi) r eq_refl eq_refl).
    assert (Hb1 : df1_bounded (df1_next d hi) (B + Tl)).
    { apply next_bounded; try assumption.
      - apply df1_bounded_mono with B; [exact Hb|lra].
      - lra.
      - fold z. pose proof (Hk' 0%nat) as K0. simpl pow in K0. rewrite Rmult_1_l in K0.
        apply Rabs_le. apply Rabs_le_inv in K0, Hw0. lra. }
    specialize (T Hb1 Hk').
    specialize (T ltac:(unfold df1_next; cbn [d_y1]; fold z; lra)).
    rewrite <- Ey in T. rewrite Eid.
    eapply Rle_trans; [apply Rabs_triang|].
    rewrite Rabs_mult, (Rabs_pos_eq (p ^ S n)) by (apply pow_le; exact Hpos).
    assert (p ^ S n * Rabs e0 <= p ^ S n * delta)
      by (apply Rmult_le_compat_l; [apply pow_le; exact Hpos|exact Hd]).
    lra. }
  split; [|intros Hpos; specialize (Pos Hpos); unfold Tl in Pos; exact Pos].
  rewrite Hres.
  destruct (Rle_dec 0 p) as [Hpos|Hneg].
  { specialize (Pos Hpos). rewrite Rmax_right by exact Hpos. lra. }
  apply Rnot_le_lt in Hneg.
  rewrite Rmax_left by lra. rewrite pow_i by lia. rewrite Rmult_0_l, Rplus_0_l.
  (* a negative pole, at least -2^-22 *)
  assert (Hpa : Rabs p <= 4 * u24) by (apply Rabs_le; lra).
  assert (Hpe : Rabs (p * e0) <= 4 * u24 * (2 * B)) by (apply Rabs_mult_le; assumption).
  assert (Hhl : Rabs ((R32 hi - R32 lo) * ((1 + p) / 2)) <= (2 * B) * / 2).
  { apply Rabs_mult_le; apply Rabs_le; [apply Rabs_le_inv in Bhi, Bx1|]; lra. }
  assert (Hr : Rabs r <= (1 + 8 * u24) * B).
  { unfold r. apply Rabs_le. apply Rabs_le_inv in Hhl, Hpe. lra. }
  assert (Hpk : forall k x X, Rabs x <= X -> Rabs (p ^ S k * x) <= 4 * u24 * X).
  { intros k x X Hx. apply Rabs_mult_le; [|exact Hx]. simpl pow. rewrite Rabs_mult.
    apply Rle_trans with (Rabs p * 1); [|lra].
    apply Rmult_le_compat_l; [apply Rabs_pos|]. apply pow_abs_le_1. apply Rabs_le; lra. }
  set (W := 76 / 10 * u24 * B).
  set (B' := (1 + 8 * u24) * B).
  assert (Hk' : forall k, Rabs (R32 hi + p ^ k * r) <= B').
  { intros [|k].
    - replace (R32 hi + p ^ 0 * r)
        with (((1 - (1 + p) / 2) * R32 hi + ((1 + p) / 2 - 0) * R32 lo + 0 * R32 lo) + p * e0)
        by (unfold r; simpl pow; field).
      assert (K : Rabs ((1 - (1 + p) / 2) * R32 hi + ((1 + p) / 2 - 0) * R32 lo + 0 * R32 lo) <= B)
        by (apply convex3_abs; try assumption; lra).
      apply Rabs_le. apply Rabs_le_inv in K, Hpe. unfold B'. lra.
    - specialize (Hpk k r _ Hr). apply Rabs_le. apply Rabs_le_inv in Hpk, Bhi. unfold B'. lra. }
  pose proof (track_hull (d_c d) hi B' (B' + W) W Hg Fhi ltac:(unfold B', W; lra)) as T.
  specialize (T ltac:(rewrite bpow_m100; unfold B', W; lra) ltac:(rewrite bpow_100; unfold B', W; lra)
                ltac:(lra)).
  fold p in T.
  assert (Hst : Rabs p * W + 15 / 2 * u24 * (B' + W) <= W).
  { assert (Rabs p * W <= 4 * u24 * W) by (apply Rmult_le_compat_r; [unfold W; lra|exact Hpa]).
    unfold B', W in *. lra. }
  specialize (T Hst n (df1_next d hi) r eq_refl eq_refl).
  assert (Hb1 : df1_bounded (df1_next d hi) (B' + W)).
  { apply next_bounded; try assumption.
    - apply df1_bounded_mono with B; [exact Hb|unfold B', W; lra].
    - unfold B', W; lra.
    - fold z. pose proof (Hk' 0%nat) as K0. simpl pow in K0. rewrite Rmult_1_l in K0.
      apply Rabs_le. apply Rabs_le_inv in K0, Hw0. unfold W. lra. }
  specialize (T Hb1 Hk').
  specialize (T ltac:(unfold df1_next; cbn [d_y1]; fold z; unfold W; lra)).
  rewrite <- Ey in T. rewrite Eid.
  specialize (Hpk n e0 _ He0).
  apply Rabs_le. apply Rabs_le_inv in T, Hpk. unfold W in T. lra.
Qed.

Theorem step_tracks_near_rest : forall d lo hi n kappa B delta,
  good (d_c d) -> kappa <= speed (d_c d) -> / 100000 <= kappa ->
  df1_bounded d B -> fin hi -> Rabs (R32 hi) <= B ->
  bpow radix2 (-100) <= B -> B <= bpow radix2 64 ->
  d_x1 d = lo -> Rabs (R32 (d_y1 d) - R32 lo) <= delta ->
  let y := last (snd (run_const d hi (S n))) lo in
  let p := pole (d_c d) in
  Rabs (R32 y - (R32 lo + (R32 hi - R32 lo) * step_response p n))
    <= Rmax 0 p ^ S n * delta + resolution kappa * B /\
  (0 <= p ->
   Rabs (R32 y - (R32 lo + (R32 hi - R32 lo) * step_response p n))
    <= p ^ S n * delta + resolution kappa / 2 * B).
Proof.
  intros d lo hi n kappa B delta Hg Hk Hk5 Hb Fhi Bhi HBlo HBhi Ex Hd y p.
  subst lo.
  assert (Ey : y = d_y1 (fst (run_const d hi (S n)))).
  { unfold y. rewrite <- run_const_last'. apply last_indep.
    intros E. pose proof (run_const_length (S n) d hi) as L. rewrite E in L. discriminate. }
  rewrite Ey.
  exact (step_tracks_near_rest_state d hi n kappa B delta Hg Hk Hk5 Hb Fhi Bhi HBlo HBhi Hd).
Qed.

(** ** (2) the constant-input clause of C13 on real histories *)

Lemma glide_after_app_inv : forall a b g g', glide_after g (a ++ b) = Some g' ->
  exists g1, glide_after g a = Some g1 /\ glide_after g1 b = Some g'.
Proof.
  induction a as [|o a IH]; intros b g g' H; cbn [app glide_after] in *.
  - exists g. split; [reflexivity|exact H].
  - destruct (glide_step g o) as [g1|]; [|discriminate]. now apply IH.
Qed.

(** a history ending with [process x] followed by [set_time] calls only: the filter remembers
    [x] and the output of that [process x] call *)
Lemma held_prefix : forall g0 ops x ts g,
  glide_after g0 (ops ++ GProcess x :: map GSetTime ts) = Some g ->
  exists ga ys, glide_after g0 ops = Some ga /\ glide_outputs g0 ops = Some ys /\
    d_x1 (g_lpf g) = x /\ d_y1 (g_lpf g) = snd (df1_run (g_lpf ga) x) /\
    (ts = [] -> d_c (g_lpf g) = d_c (g_lpf ga)) /\
    forall r, glide_outputs g0 (ops ++ GProcess x :: map GSetTime ts ++ r)
              = option_map (fun zs => ys ++ snd (df1_run (g_lpf ga) x) :: zs) (glide_outputs g r).
Proof.
  intros g0 ops x ts g H.
  destruct (glide_after_app_inv _ _ _ _ H) as (ga & Ha & Hb).
  destruct (outputs_of_after ops g0 ga Ha) as [ys Hy].
  exists ga, ys. split; [exact Ha|]. split; [exact Hy|].
  cbn [glide_after glide_step] in Hb. rewrite glide_process_eq in Hb. cbn [fst] in Hb.
  match type of Hb with glide_after ?gb0 _ = _ => set (gb := gb0) in * end.
  destruct (set_times_mem ts gb g Hb) as (M1 & _ & M3 & _).
  split; [rewrite M3; reflexivity|]. split; [rewrite M1; reflexivity|].
  split.
  { intros ->. cbn [map glide_after] in Hb. injection Hb as <-. reflexivity. }
  intros r. rewrite (outputs_app ops _ g0 ga ys Ha Hy).
  cbn [glide_outputs]. rewrite glide_process_eq. cbv beta iota zeta. fold gb.
  rewrite (set_times_outputs ts gb g r Hb).
  destruct (glide_outputs g r); reflexivity.
Qed.

Lemma run_const_x1_held : forall n d x, d_x1 d = x -> d_x1 (fst (run_const d x n)) = x.
Proof. intros [|n] d x H; [exact H|apply run_const_x1]. Qed.

Lemma last_run_const : forall n d x dflt,
  last (snd (run_const d x (S n))) dflt = d_y1 (fst (run_const d x (S n))).
Proof.
  intros n d x dflt. rewrite <- run_const_last'. apply last_indep.
  intros E. pose proof (run_const_length (S n) d x) as L. rewrite E in L. discriminate.
Qed.

(** ** (4) the speed of the coefficient set of a time setting *)

(** real-number core: a pole within the accuracy of [C14_pole_accuracy] of the ideal pole for
    [N] samples per [t] has speed [1 - p >= 6 / N] (the least value of [N (1 - p)] over
    [100 <= N <= 480000] is 6.09, at [N = 100]; [2 pi] would be the limit for an exact
    exponential), and is positive *)
Lemma speed_real : forall N p, 100 <= N <= 480000 ->
  Rabs (p - ideal_pole N) <= / 65536 * (1 - ideal_pole N) + 4 * / 16777216 ->
  6 / N <= 1 - p /\ 0 <= p.
Proof.
  intros N p HN Hp. unfold ideal_pole in Hp.
  set (p0 := (1 - tan (PI / N)) / (1 + tan (PI / N))) in Hp.
  assert (G : 0 <= (1 - p0) * (1 - / 65536) - 6 / N - 4 * / 16777216)
    by (unfold p0; interval with (i_bisect N, i_depth 40, i_prec 60)).
  assert (G0 : 0.93 <= p0 <= 1) by (unfold p0; split; interval).
  apply Rabs_le_bounds in Hp. split; lra.
Qed.

(** for every reachable (or new: [ops = []]) processor and every documented time with at least
    100 samples per [t]: the coefficient set [set_time t] installs has speed at least
    [6 / (t * fs)] and a non-negative pole *)
Theorem speed_of_time : forall fs ops g t c,
  glide_fs_ok fs -> glide_run (glide_new fs) ops = Some g ->
  glide_time_ok t -> 100 <= R32 t * R32 fs -> coeffs_for g t = Some c ->
  good c /\ 6 / (R32 t * R32 fs) <= speed c /\ 0 <= pole c /\
  / 100000 <= 6 / (R32 t * R32 fs).
Proof.
  intros fs ops g t c Hfs Hrun Ht HN Ec.
  destruct (C14_pole_accuracy_reachable fs ops g t c Hfs Hrun Ht HN Ec) as [Hg Hp].
  cbv zeta in Hp.
  assert (HN2 : R32 t * R32 fs <= 480000).
  { destruct Ht as [_ [T0 T1]]. destruct Hfs as [_ [S0 S1]].
    replace 480000 with (10 * 48000) by ring.
    apply Rmult_le_compat; lra. }
  destruct (speed_real (R32 t * R32 fs) (pole c) (conj HN HN2) Hp) as [H1 H2].
  split; [exact Hg|]. split; [unfold speed; unfold pole in H1; lra|]. split; [exact H2|].
  assert (/ (R32 t * R32 fs) >= / 480000) by (apply Rle_ge, Rinv_le_contravar; lra).
  unfold Rdiv. lra.
Qed.

(** the cached time of a reachable processor is the marker or a documented time *)
Lemma cached_time_documented : forall ops g g', Forall op_time_ok ops ->
  (g_cached_t g = GL_T0 \/ glide_time_ok (g_cached_t g)) ->
  glide_after g ops = Some g' ->
  g_cached_t g' = GL_T0 \/ glide_time_ok (g_cached_t g').
Proof.
  induction ops as [|o r IH]; intros g g' Ht Hc Ha; cbn [glide_after] in Ha.
  - injection Ha as <-. exact Hc.
  - inversion Ht as [|o0 r0 Ho Ht']. subst o0 r0.
    destruct (glide_step g o) as [g1|] eqn:Es; [|discriminate].
    apply (IH g1 g' Ht'); [|exact Ha].
    destruct o as [t|x]; cbn [glide_step] in Es.
    + destruct (is_almost t (g_cached_t g) GL_EPS) eqn:Ea.
      * destruct (dead_band g t) as [D _]. rewrite (D Ea) in Es. injection Es as <-. exact Hc.
      * destruct (dead_band g t) as [_ D]. destruct (D Ea g1 Es) as (D1 & _).
        right. rewrite D1. exact Ho.
    + rewrite glide_process_eq in Es. cbn [fst] in Es. injection Es as <-.
      cbn [g_cached_t]. exact Hc.
Qed.

(** turning the absolute tolerance into the percentages of the property text *)
Lemma percent_of_tolerance : forall y lo hi s tol,
  hi <> lo -> Rabs (y - (lo + (hi - lo) * s)) <= tol -> tol <= 0.001 * Rabs (hi - lo) ->
  s - 0.001 <= (y - lo) / (hi - lo) <= s + 0.001.
Proof.
  intros y lo hi s tol Hne Hy Htol.
  assert (HD : hi - lo <> 0) by lra.
  assert (HDp : 0 < Rabs (hi - lo)) by (apply Rabs_pos_lt; exact HD).
  assert (E : (y - lo) / (hi - lo) - s = (y - (lo + (hi - lo) * s)) / (hi - lo)) by (field; exact HD).
  assert (A : Rabs ((y - lo) / (hi - lo) - s) <= 0.001).
  { rewrite E. unfold Rdiv. rewrite Rabs_mult, Rabs_inv.
    apply Rmult_le_reg_r with (Rabs (hi - lo)); [exact HDp|].
    rewrite Rmult_assoc, Rinv_l by lra. lra. }
  apply Rabs_le_inv in A. lra.
Qed.

Section Trace.

(** a processor created for a documented sample rate; the inputs of the whole history lie in
    [rlo, rhi] (which contains the initial output 0); [B] is any bound of at least
    [(1 + resolution (0.6 / fs)) * M], [M = max (-rlo) rhi] -- the bound [reachable_bounded]
    gives for the filter memories -- inside [2^-100, 2^64] *)
Variables (fs : f32) (g0 : glide) (rlo rhi B : R).
Hypothesis Hfs : glide_fs_ok fs.
Hypothesis Hnew : glide_new fs = Some g0.
Hypothesis Hlh : rlo <= 0 <= rhi.
Hypothesis HM : Rmax (- rlo) rhi = 0 \/ bpow radix2 (-100) <= Rmax (- rlo) rhi.
Hypothesis HMB : (1 + resolution (0.6 / R32 fs)) * Rmax (- rlo) rhi <= B.
Hypothesis HBlo : bpow radix2 (-100) <= B.
Hypothesis HBhi : B <= bpow radix2 64.

Lemma trace_M : 0 <= Rmax (- rlo) rhi <= B.
Proof.
  pose proof (slowest_speed_ok fs Hfs) as Hk5.
  assert (Hres : 0 <= resolution (0.6 / R32 fs)) by (apply res_nonneg; lra).
  assert (HM0 : 0 <= Rmax (- rlo) rhi) by (pose proof (Rmax_r (- rlo) rhi); lra).
  assert (0 <= resolution (0.6 / R32 fs) * Rmax (- rlo) rhi) by (apply Rmult_le_pos; assumption).
  lra.
Qed.

Lemma in_range_B : forall x : f32, rlo <= R32 x <= rhi -> Rabs (R32 x) <= B.
Proof.
  intros x Hx. pose proof trace_M. pose proof (Rmax_l (- rlo) rhi). pose proof (Rmax_r (- rlo) rhi).
  apply Rabs_le. lra.
Qed.

Lemma HBhi100 : B <= bpow radix2 100.
Proof. rewrite bpow_100. rewrite bpow_64 in HBhi. lra. Qed.

Lemma trace_after : forall H, Forall op_time_ok H -> exists g, glide_after g0 H = Some g.
Proof.
  intros H Ht. destruct (coeffs_good fs H Hfs Ht) as (g0' & E0 & Hex & _).
  rewrite Hnew in E0. injection E0 as <-. exact Hex.
Qed.

Lemma trace_facts : forall H g, Forall op_time_ok H -> Forall (op_input_in rlo rhi) H ->
  glide_after g0 H = Some g ->
  good (d_c (g_lpf g)) /\ / 100000 <= speed (d_c (g_lpf g)) /\ df1_bounded (g_lpf g) B.
Proof.
  intros H g Ht Hin Ha.
  assert (Hrun : glide_run (glide_new fs) H = Some g) by (rewrite Hnew, glide_run_after; exact Ha).
  assert (HMhi : Rmax (- rlo) rhi <= bpow radix2 64) by (pose proof trace_M; lra).
  destruct (reachable_bounded fs H rlo rhi g Hfs Ht Hin Hlh HM HMhi Hrun) as (Hg & Hs & _ & Hb).
  split; [exact Hg|]. split; [pose proof (slowest_speed_ok fs Hfs); lra|].
  exact (df1_bounded_mono _ _ _ Hb HMB).
Qed.

Lemma held_core : forall ops x ts,
  Forall op_time_ok ops -> Forall (op_input_in rlo rhi) ops -> fin x -> rlo <= R32 x <= rhi ->
  Forall glide_time_ok ts ->
  exists g ga ys,
    glide_after g0 (ops ++ GProcess x :: map GSetTime ts) = Some g /\
    glide_after g0 ops = Some ga /\ glide_outputs g0 ops = Some ys /\
    good (d_c (g_lpf g)) /\ / 100000 <= speed (d_c (g_lpf g)) /\ df1_bounded (g_lpf g) B /\
    d_x1 (g_lpf g) = x /\ d_y1 (g_lpf g) = snd (df1_run (g_lpf ga) x) /\
    (ts = [] -> d_c (g_lpf g) = d_c (g_lpf ga)) /\
    (forall r, glide_outputs g0 (ops ++ GProcess x :: map GSetTime ts ++ r)
               = option_map (fun zs => ys ++ snd (df1_run (g_lpf ga) x) :: zs) (glide_outputs g r)) /\
    Forall op_time_ok (ops ++ GProcess x :: map GSetTime ts) /\
    Forall (op_input_in rlo rhi) (ops ++ GProcess x :: map GSetTime ts).
Proof.
  intros ops x ts Ht Hin Fx Ix Hts.
  assert (Ht1 : Forall op_time_ok (ops ++ GProcess x :: map GSetTime ts)).
  { apply Forall_app. split; [exact Ht|]. constructor; [exact I|]. now apply Forall_time_ok_map. }
  assert (Hin1 : Forall (op_input_in rlo rhi) (ops ++ GProcess x :: map GSetTime ts)).
  { apply Forall_app. split; [exact Hin|]. constructor; [split; assumption|]. apply Forall_input_map. }
  destruct (trace_after _ Ht1) as [g Ha].
  destruct (held_prefix g0 ops x ts g Ha) as (ga & ys & Hga & Hys & X1 & Y1 & Hc & Hout).
  destruct (trace_facts _ g Ht1 Hin1 Ha) as (Hg & Hk5 & Hb).
  exists g, ga, ys. repeat (split; [assumption|]). assumption.
Qed.

(** C13, constant input, one sample: the history is ANY documented history [ops]; the input
    [x] is processed (output [y1]), any number of [set_time] calls may follow, and [x] is
    processed again (output [y2]).  The distance to [x] is multiplied by the pole [p] of the
    coefficient set in force for that second sample, up to [7.5 * 2^-24 * B] (so also up to
    the [20 * 2^-24 * B] of [C13_approach]): same sign, smaller -- no oscillation. *)
Theorem C13_trace_approach_gen : forall ops x ts,
  Forall op_time_ok ops -> Forall (op_input_in rlo rhi) ops -> fin x -> rlo <= R32 x <= rhi ->
  Forall glide_time_ok ts ->
  exists g ys y1 y2,
    glide_after g0 (ops ++ GProcess x :: map GSetTime ts) = Some g /\
    glide_outputs g0 ops = Some ys /\
    glide_outputs g0 (ops ++ GProcess x :: map GSetTime ts ++ [GProcess x]) = Some (ys ++ [y1; y2]) /\
    fin y2 /\
    Rabs ((R32 y2 - R32 x) - pole (d_c (g_lpf g)) * (R32 y1 - R32 x)) <= 15 / 2 * u24 * B.
Proof.
  intros ops x ts Ht Hin Fx Ix Hts.
  destruct (held_core ops x ts Ht Hin Fx Ix Hts)
    as (g & ga & ys & Ha & Hga & Hys & Hg & Hk5 & Hb & X1 & Y1 & _ & Hout & _).
  exists g, ys, (snd (df1_run (g_lpf ga) x)), (snd (df1_run (g_lpf g) x)).
  split; [exact Ha|]. split; [exact Hys|].
  split.
  { rewrite Hout. cbn [glide_outputs]. rewrite glide_process_eq. reflexivity. }
  destruct (approach_sharp (g_lpf g) x B Hg Hb Fx (in_range_B x Ix) HBlo HBhi100 X1) as (Fy & _ & Hy).
  split; [exact Fy|]. rewrite <- Y1. exact Hy.
Qed.

(** the same along an uninterrupted stretch: after ANY documented history the input is held at
    [x] for [k+2] samples; from the first output of the stretch on, consecutive outputs obey
    the contraction with the pole of the coefficient set in force *)
Theorem C13_trace_approach : forall ops x k,
  Forall op_time_ok ops -> Forall (op_input_in rlo rhi) ops -> fin x -> rlo <= R32 x <= rhi ->
  exists g ys zs,
    glide_after g0 ops = Some g /\ glide_outputs g0 ops = Some ys /\
    glide_outputs g0 (ops ++ repeat (GProcess x) (S (S k))) = Some (ys ++ zs) /\
    length zs = S (S k) /\
    forall j, (j <= k)%nat ->
      Rabs ((R32 (nth (S j) zs f_0) - R32 x) - pole (d_c (g_lpf g)) * (R32 (nth j zs f_0) - R32 x))
        <= 15 / 2 * u24 * B.
Proof.
  intros ops x k Ht Hin Fx Ix.
  destruct (trace_after ops Ht) as [g Ha].
  destruct (outputs_of_after ops g0 g Ha) as [ys Hys].
  exists g, ys, (snd (run_const (g_lpf g) x (S (S k)))).
  split; [exact Ha|]. split; [exact Hys|].
  split. { rewrite (outputs_app ops _ g0 g ys Ha Hys), process_repeat_outputs. reflexivity. }
  split; [apply run_const_length|].
  intros j Hj.
  rewrite !run_const_nth by lia.
  set (dj := fst (run_const (g_lpf g) x (S j))).
  destruct (run_const_snoc (S j) (g_lpf g) x) as [E _]. rewrite E. fold dj.
  unfold df1_next. cbn [d_y1].
  (* the state after [ops] and [S j] more samples is reachable *)
  assert (Ht1 : Forall op_time_ok (ops ++ repeat (GProcess x) (S j))).
  { apply Forall_app. split; [exact Ht|apply Forall_time_ok_repeat]. }
  assert (Hin1 : Forall (op_input_in rlo rhi) (ops ++ repeat (GProcess x) (S j))).
  { apply Forall_app. split; [exact Hin|now apply Forall_input_repeat]. }
  pose proof (glide_after_app ops (repeat (GProcess x) (S j)) g0 g Ha) as Ha1.
  rewrite after_repeat in Ha1.
  destruct (trace_facts _ _ Ht1 Hin1 Ha1) as (Hg & _ & Hb). cbn [g_lpf] in Hg, Hb. fold dj in Hg, Hb.
  destruct (approach_sharp dj x B Hg Hb Fx (in_range_B x Ix) HBlo HBhi100) as (_ & _ & Hy).
  { unfold dj. apply run_const_x1. }
  unfold dj in Hy at 2. rewrite run_const_coeffs in Hy. exact Hy.
Qed.

(** C13, constant input, settling: ANY documented history, then [process x] (output [y1]),
    any number of [set_time] calls, then [n] more samples of [x].  The last output is within
    [max(0,p)^n |y1 - x| + resolution kappa * B] of [x], where [p] and [kappa = 1 - p] are
    the pole and the speed of the coefficient set IN FORCE during those [n] samples (not of
    the slowest set ever used), and within half that resolution for [p >= 0]. *)
Theorem C13_trace_settles_gen : forall ops x ts n,
  Forall op_time_ok ops -> Forall (op_input_in rlo rhi) ops -> fin x -> rlo <= R32 x <= rhi ->
  Forall glide_time_ok ts ->
  exists g ys y1 zs,
    glide_after g0 (ops ++ GProcess x :: map GSetTime ts) = Some g /\
    glide_outputs g0 ops = Some ys /\
    glide_outputs g0 (ops ++ GProcess x :: map GSetTime ts ++ repeat (GProcess x) n)
      = Some (ys ++ y1 :: zs) /\
    length zs = n /\
    let c := d_c (g_lpf g) in
    let p := Rmax 0 (pole c) in
    Rabs (R32 (last zs y1) - R32 x) <= p ^ n * Rabs (R32 y1 - R32 x) + resolution (speed c) * B /\
    (0 <= pole c ->
     Rabs (R32 (last zs y1) - R32 x) <= p ^ n * Rabs (R32 y1 - R32 x) + resolution (speed c) / 2 * B).
Proof.
  intros ops x ts n Ht Hin Fx Ix Hts.
  destruct (held_core ops x ts Ht Hin Fx Ix Hts)
    as (g & ga & ys & Ha & Hga & Hys & Hg & Hk5 & Hb & X1 & Y1 & _ & Hout & _).
  exists g, ys, (snd (df1_run (g_lpf ga) x)), (snd (run_const (g_lpf g) x n)).
  split; [exact Ha|]. split; [exact Hys|].
  split. { rewrite Hout, process_repeat_outputs. reflexivity. }
  split; [apply run_const_length|].
  cbv zeta. rewrite <- Y1, run_const_last'.
  exact (settles_sharp (g_lpf g) x B n (speed (d_c (g_lpf g))) Hg (Rle_refl _) Hk5 Hb Fx
           (in_range_B x Ix) HBlo HBhi X1).
Qed.

(** the uninterrupted stretch: ANY documented history, then [n+1] samples of [x]; [y1] is the
    first output of the stretch, the coefficient set is the one in force after [ops] *)
Theorem C13_trace_settles : forall ops x n,
  Forall op_time_ok ops -> Forall (op_input_in rlo rhi) ops -> fin x -> rlo <= R32 x <= rhi ->
  exists g ys zs,
    glide_after g0 ops = Some g /\ glide_outputs g0 ops = Some ys /\
    glide_outputs g0 (ops ++ repeat (GProcess x) (S n)) = Some (ys ++ zs) /\
    length zs = S n /\
    let c := d_c (g_lpf g) in
    let p := Rmax 0 (pole c) in
    let y1 := hd f_0 zs in
    let y := last zs f_0 in
    Rabs (R32 y - R32 x) <= p ^ n * Rabs (R32 y1 - R32 x) + resolution (speed c) * B /\
    (0 <= pole c ->
     Rabs (R32 y - R32 x) <= p ^ n * Rabs (R32 y1 - R32 x) + resolution (speed c) / 2 * B).
Proof.
  intros ops x n Ht Hin Fx Ix.
  destruct (held_core ops x [] Ht Hin Fx Ix ltac:(constructor))
    as (g & ga & ys & Ha & Hga & Hys & Hg & Hk5 & Hb & X1 & Y1 & Hc & Hout & _).
  specialize (Hc eq_refl).
  exists ga, ys, (snd (df1_run (g_lpf ga) x) :: snd (run_const (g_lpf g) x n)).
  split; [exact Hga|]. split; [exact Hys|].
  split.
  { specialize (Hout (repeat (GProcess x) n)). cbn [map app] in Hout. cbn [repeat].
    rewrite Hout, process_repeat_outputs. reflexivity. }
  split; [cbn [length]; now rewrite run_const_length|].
  cbv zeta. cbn [hd]. rewrite last_cons', <- Y1, run_const_last', <- Hc.
  exact (settles_sharp (g_lpf g) x B n (speed (d_c (g_lpf g))) Hg (Rle_refl _) Hk5 Hb Fx
           (in_range_B x Ix) HBlo HBhi X1).
Qed.

(** C14, step response after ANY documented history: [process lo] (output [y0]; the filter
    need not be settled on [lo]), any number of [set_time] calls, then [n+1] samples of [hi].
    Sample [n] of the response is [lo + (hi - lo) * step_response p n] up to
    [p^(n+1) |y0 - lo|] (what was left of the previous glide, decaying with the same pole)
    plus the resolution of the coefficient set in force. *)
Theorem C14_trace_step_tracks : forall ops (lo hi : f32) ts n,
  Forall op_time_ok ops -> Forall (op_input_in rlo rhi) ops ->
  fin lo -> rlo <= R32 lo <= rhi -> fin hi -> rlo <= R32 hi <= rhi ->
  Forall glide_time_ok ts ->
  exists g ys y0 ws,
    glide_after g0 (ops ++ GProcess lo :: map GSetTime ts) = Some g /\
    glide_outputs g0 ops = Some ys /\
    glide_outputs g0 (ops ++ GProcess lo :: map GSetTime ts ++ repeat (GProcess hi) (S n))
      = Some (ys ++ y0 :: ws) /\
    length ws = S n /\
    let c := d_c (g_lpf g) in
    let p := pole c in
    let ideal := R32 lo + (R32 hi - R32 lo) * step_response p n in
    Rabs (R32 (last ws f_0) - ideal)
      <= Rmax 0 p ^ S n * Rabs (R32 y0 - R32 lo) + resolution (speed c) * B /\
    (0 <= p ->
     Rabs (R32 (last ws f_0) - ideal)
      <= p ^ S n * Rabs (R32 y0 - R32 lo) + resolution (speed c) / 2 * B).
Proof.
  intros ops lo hi ts n Ht Hin Flo Ilo Fhi Ihi Hts.
  destruct (held_core ops lo ts Ht Hin Flo Ilo Hts)
    as (g & ga & ys & Ha & Hga & Hys & Hg & Hk5 & Hb & X1 & Y1 & _ & Hout & _).
  exists g, ys, (snd (df1_run (g_lpf ga) lo)), (snd (run_const (g_lpf g) hi (S n))).
  split; [exact Ha|]. split; [exact Hys|].
  split. { rewrite Hout, process_repeat_outputs. reflexivity. }
  split; [apply run_const_length|].
  cbv zeta. rewrite last_run_const, <- Y1.
  pose proof (step_tracks_near_rest_state (g_lpf g) hi n (speed (d_c (g_lpf g))) B
                (Rabs (R32 (d_y1 (g_lpf g)) - R32 lo)) Hg (Rle_refl _) Hk5 Hb Fhi
                (in_range_B hi Ihi) HBlo HBhi) as T.
  rewrite X1 in T. exact (T (Rle_refl _)).
Qed.

(** the chained corollary: ANY documented history, then the level [lo] is held for [m+1]
    samples (with [set_time] calls allowed after the first of them), then a step to [hi].
    [delta0] is what [C13_trace_settles_gen] leaves of the previous glide; the response to the
    step is the ideal one from [lo] up to [p^(n+1) delta0] plus the resolution. *)
Theorem second_glide : forall ops (lo hi : f32) ts m n,
  Forall op_time_ok ops -> Forall (op_input_in rlo rhi) ops ->
  fin lo -> rlo <= R32 lo <= rhi -> fin hi -> rlo <= R32 hi <= rhi ->
  Forall glide_time_ok ts ->
  exists g ys y1 zs ws,
    glide_after g0 (ops ++ GProcess lo :: map GSetTime ts) = Some g /\
    glide_outputs g0 ops = Some ys /\
    glide_outputs g0 (ops ++ GProcess lo :: map GSetTime ts
                          ++ repeat (GProcess lo) m ++ repeat (GProcess hi) (S n))
      = Some (ys ++ y1 :: zs ++ ws) /\
    length zs = m /\ length ws = S n /\
    let c := d_c (g_lpf g) in
    let p := pole c in
    let pm := Rmax 0 p in
    let ideal := R32 lo + (R32 hi - R32 lo) * step_response p n in
    let delta0 := pm ^ m * Rabs (R32 y1 - R32 lo) + resolution (speed c) * B in
    Rabs (R32 (last zs y1) - R32 lo) <= delta0 /\
    Rabs (R32 (last ws f_0) - ideal) <= pm ^ S n * delta0 + resolution (speed c) * B /\
    (0 <= p ->
     Rabs (R32 (last ws f_0) - ideal)
       <= p ^ S n * (p ^ m * Rabs (R32 y1 - R32 lo) + resolution (speed c) / 2 * B)
          + resolution (speed c) / 2 * B).
Proof.
  intros ops lo hi ts m n Ht Hin Flo Ilo Fhi Ihi Hts.
  destruct (held_core ops lo ts Ht Hin Flo Ilo Hts)
    as (g & ga & ys & Ha & Hga & Hys & Hg & Hk5 & Hb & X1 & Y1 & _ & Hout & Ht1 & Hin1).
  set (d := g_lpf g) in *.
  set (dm := fst (run_const d lo m)).
  exists g, ys, (snd (df1_run (g_lpf ga) lo)), (snd (run_const d lo m)),
         (snd (run_const dm hi (S n))).
  split; [exact Ha|]. split; [exact Hys|].
  split.
  { rewrite Hout.
    rewrite (outputs_app (repeat (GProcess lo) m) (repeat (GProcess hi) (S n)) g _ _
               (after_repeat lo m g) (process_repeat_outputs lo m g)).
    rewrite process_repeat_outputs. cbn [g_lpf option_map]. reflexivity. }
  split; [apply run_const_length|]. split; [apply run_const_length|].
  cbv zeta. rewrite last_run_const, <- Y1. fold d. rewrite run_const_last'. fold dm.
  (* settling on [lo] *)
  destruct (settles_sharp d lo B m (speed (d_c d)) Hg (Rle_refl _) Hk5 Hb Flo
              (in_range_B lo Ilo) HBlo HBhi X1) as (S1 & S2).
  fold dm in S1, S2.
  (* the state after the held stretch is reachable *)
  assert (Ht2 : Forall op_time_ok ((ops ++ GProcess lo :: map GSetTime ts) ++ repeat (GProcess lo) m)).
  { apply Forall_app. split; [exact Ht1|apply Forall_time_ok_repeat]. }
  assert (Hin2 : Forall (op_input_in rlo rhi)
                   ((ops ++ GProcess lo :: map GSetTime ts) ++ repeat (GProcess lo) m)).
  { apply Forall_app. split; [exact Hin1|now apply Forall_input_repeat]. }
  pose proof (glide_after_app _ (repeat (GProcess lo) m) g0 g Ha) as Ha2.
  rewrite after_repeat in Ha2.
  destruct (trace_facts _ _ Ht2 Hin2 Ha2) as (Hgm & Hk5m & Hbm).
  cbn [g_lpf] in Hgm, Hk5m, Hbm. fold d dm in Hgm, Hk5m, Hbm.
  assert (Ec : d_c dm = d_c d) by apply run_const_coeffs.
  assert (Exm : d_x1 dm = lo) by (apply run_const_x1_held; exact X1).
  split; [exact S1|].
  pose proof (step_tracks_near_rest_state dm hi n (speed (d_c dm)) B) as T.
  split.
  - specialize (T _ Hgm (Rle_refl _) Hk5m Hbm Fhi (in_range_B hi Ihi) HBlo HBhi
                  ltac:(rewrite Exm; exact S1)).
    rewrite Exm, Ec in T. exact (proj1 T).
  - intros Hpos. specialize (S2 Hpos). rewrite Rmax_right in S2 by exact Hpos.
    specialize (T _ Hgm (Rle_refl _) Hk5m Hbm Fhi (in_range_B hi Ihi) HBlo HBhi
                  ltac:(rewrite Exm; exact S2)).
    rewrite Exm, Ec in T. exact (proj2 T Hpos).
Qed.

(** C14 end to end for EVERY glide, not only the first: ANY documented history, then
    [process lo] (output [y0]), any [set_time] calls; let [t] be the time then in effect (the
    cached time of the state reached) with [N = t * fs >= 100] samples per [t].  A step to
    [hi] held for [n >= N] (resp. [n10 >= N / 10]) samples has covered [s >= 99.6 %] (resp.
    [41 % <= s10 <= 54 %]) of the way from [lo] to [hi], up to what was left of the previous
    glide ([p^(n+1) |y0 - lo|]) and half the resolution of the time in effect,
    [8 * 2^-24 * N / 6 * B]. *)
Theorem any_glide_end_to_end : forall ops (lo hi : f32) ts g (n n10 : nat),
  Forall op_time_ok ops -> Forall (op_input_in rlo rhi) ops ->
  fin lo -> rlo <= R32 lo <= rhi -> fin hi -> rlo <= R32 hi <= rhi ->
  Forall glide_time_ok ts ->
  glide_after g0 (ops ++ GProcess lo :: map GSetTime ts) = Some g ->
  let N := R32 (g_cached_t g) * R32 fs in
  100 <= N -> N <= INR n < N + 1 -> N / 10 <= INR n10 < N / 10 + 1 ->
  exists ys y0 ws ws10,
    glide_outputs g0 ops = Some ys /\
    glide_outputs g0 (ops ++ GProcess lo :: map GSetTime ts ++ repeat (GProcess hi) (S n))
      = Some (ys ++ y0 :: ws) /\
    glide_outputs g0 (ops ++ GProcess lo :: map GSetTime ts ++ repeat (GProcess hi) (S n10))
      = Some (ys ++ y0 :: ws10) /\
    length ws = S n /\ length ws10 = S n10 /\
    let p := pole (d_c (g_lpf g)) in
    let s := step_response p n in
    let s10 := step_response p n10 in
    glide_time_ok (g_cached_t g) /\ Some (d_c (g_lpf g)) = coeffs_for g (g_cached_t g) /\
    0 <= p < 1 /\ 0.996 <= s /\ 0.41 <= s10 <= 0.54 /\
    Rabs (R32 (last ws f_0) - (R32 lo + (R32 hi - R32 lo) * s))
      <= p ^ S n * Rabs (R32 y0 - R32 lo) + resolution (6 / N) / 2 * B /\
    Rabs (R32 (last ws10 f_0) - (R32 lo + (R32 hi - R32 lo) * s10))
      <= p ^ S n10 * Rabs (R32 y0 - R32 lo) + resolution (6 / N) / 2 * B.
Proof.
  intros ops lo hi ts g n n10 Ht Hin Flo Ilo Fhi Ihi Hts Hag N HN Hn Hn10.
  destruct (held_core ops lo ts Ht Hin Flo Ilo Hts)
    as (g' & ga & ys & Ha & Hga & Hys & Hg & _ & Hb & X1 & Y1 & _ & Hout & Ht1 & Hin1).
  rewrite Hag in Ha. injection Ha as <-.
  assert (Hrun : glide_run (glide_new fs) (ops ++ GProcess lo :: map GSetTime ts) = Some g)
    by (rewrite Hnew, glide_run_after; exact Hag).
  pose proof Hfs as [_ [Hfs1 Hfs2]].
  assert (Hne : g_cached_t g <> GL_T0).
  { intros E. unfold N in HN. rewrite E, R32_T0 in HN. lra. }
  destruct (new_cached_marker fs g0 Hnew) as (K0 & _).
  destruct (cached_time_documented _ g0 g Ht1 (or_introl K0) Hag) as [E|Hok]; [contradiction|].
  destruct (cached_t_in_effect fs _ g Hrun) as [[E _]|Hc]; [contradiction|].
  destruct (speed_of_time fs _ g (g_cached_t g) _ Hfs Hrun Hok HN (eq_sym Hc))
    as (_ & Hk & Hpos & Hk5).
  destruct (C14_pole_accuracy_reachable fs _ g (g_cached_t g) _ Hfs Hrun Hok HN (eq_sym Hc))
    as [_ Hp].
  cbv zeta in Hp. fold N in Hp, Hk, Hk5.
  assert (HN2 : N <= 480000).
  { destruct Hok as [_ [T0 T1]]. unfold N.
    replace 480000 with (10 * 48000) by ring.
    apply Rmult_le_compat; lra. }
  destruct (time_constant_real N (pole (d_c (g_lpf g))) n n10 (conj HN HN2) Hp Hn Hn10)
    as (T1 & T2).
  pose proof (good_pole _ Hg) as Hp1.
  exists ys, (snd (df1_run (g_lpf ga) lo)),
         (snd (run_const (g_lpf g) hi (S n))), (snd (run_const (g_lpf g) hi (S n10))).
  split; [exact Hys|].
  split. { rewrite Hout, process_repeat_outputs. reflexivity. }
  split. { rewrite Hout, process_repeat_outputs. reflexivity. }
  split; [apply run_const_length|]. split; [apply run_const_length|].
  cbv zeta. split; [exact Hok|]. split; [exact Hc|]. split; [lra|].
  split; [exact T1|]. split; [exact T2|].
  rewrite !last_run_const, <- Y1.
  assert (K : forall m,
    Rabs (R32 (d_y1 (fst (run_const (g_lpf g) hi (S m))))
          - (R32 lo + (R32 hi - R32 lo) * step_response (pole (d_c (g_lpf g))) m))
    <= pole (d_c (g_lpf g)) ^ S m * Rabs (R32 (d_y1 (g_lpf g)) - R32 lo)
       + resolution (6 / N) / 2 * B).
  { intros m.
    pose proof (step_tracks_near_rest_state (g_lpf g) hi m (6 / N) B
                  (Rabs (R32 (d_y1 (g_lpf g)) - R32 lo)) Hg Hk Hk5 Hb Fhi
                  (in_range_B hi Ihi) HBlo HBhi) as T.
    rewrite X1 in T. exact (proj2 (T (Rle_refl _)) Hpos). }
  split; apply K.
Qed.

(** ... and in the figures of the property text: if what is left of the previous glide plus
    the resolution of the time in effect is at most 0.1 % of the step, then at least 99.5 % of
    the step is covered [t] seconds later and between 40 % and 55 % after [t/10] seconds *)
Theorem any_glide_percent : forall ops (lo hi : f32) ts g (n n10 : nat),
  Forall op_time_ok ops -> Forall (op_input_in rlo rhi) ops ->
  fin lo -> rlo <= R32 lo <= rhi -> fin hi -> rlo <= R32 hi <= rhi ->
  Forall glide_time_ok ts ->
  glide_after g0 (ops ++ GProcess lo :: map GSetTime ts) = Some g ->
  let N := R32 (g_cached_t g) * R32 fs in
  100 <= N -> N <= INR n < N + 1 -> N / 10 <= INR n10 < N / 10 + 1 ->
  R32 hi <> R32 lo ->
  exists ys y0 ws ws10,
    glide_outputs g0 ops = Some ys /\
    glide_outputs g0 (ops ++ GProcess lo :: map GSetTime ts ++ repeat (GProcess hi) (S n))
      = Some (ys ++ y0 :: ws) /\
    glide_outputs g0 (ops ++ GProcess lo :: map GSetTime ts ++ repeat (GProcess hi) (S n10))
      = Some (ys ++ y0 :: ws10) /\
    length ws = S n /\ length ws10 = S n10 /\
    (Rabs (R32 y0 - R32 lo) + resolution (6 / N) / 2 * B <= 0.001 * Rabs (R32 hi - R32 lo) ->
     0.995 <= (R32 (last ws f_0) - R32 lo) / (R32 hi - R32 lo) /\
     0.40 <= (R32 (last ws10 f_0) - R32 lo) / (R32 hi - R32 lo) <= 0.55).
Proof.
  intros ops lo hi ts g n n10 Ht Hin Flo Ilo Fhi Ihi Hts Hag N HN Hn Hn10 Hne.
  destruct (any_glide_end_to_end ops lo hi ts g n n10 Ht Hin Flo Ilo Fhi Ihi Hts Hag HN Hn Hn10)
    as (ys & y0 & ws & ws10 & O1 & O2 & O3 & L1 & L2 & _ & _ & Hp & S1 & S2 & A1 & A2).
  fold N in A1, A2.
  exists ys, y0, ws, ws10. repeat (split; [assumption|]).
  intros Htol.
  set (p := pole (d_c (g_lpf g))) in *.
  set (e := Rabs (R32 y0 - R32 lo)) in *.
  assert (He : 0 <= e) by apply Rabs_pos.
  assert (Hpk : forall k, p ^ k * e <= e).
  { intros k. rewrite <- (Rmult_1_l e) at 2. apply Rmult_le_compat_r; [exact He|].
    rewrite <- (pow1 k). apply pow_incr. lra. }
  pose proof (Hpk (S n)) as P1. pose proof (Hpk (S n10)) as P2.
  destruct (percent_of_tolerance _ _ _ _ _ Hne A1 ltac:(lra)) as [Q1 _].
  destruct (percent_of_tolerance _ _ _ _ _ Hne A2 ltac:(lra)) as [Q2 Q3].
  split; [lra|split; lra].
Qed.

End Trace.

(** ** (4) the first glide with the resolution of the requested time *)

(** [C14_first_glide_end_to_end] with the tolerance [resolution (6 / N) / 2 * B]
    [= 8 * 2^-24 * N / 6 * B], [N = t * fs], instead of [2 * resolution (0.6 / fs) * B]
    (which is the resolution of the 10 s setting, whatever [t]) *)
Theorem first_glide_end_to_end_sharp : forall fs g0 t hi B (n n10 : nat),
  glide_fs_ok fs -> glide_new fs = Some g0 -> glide_time_ok t ->
  100 <= R32 t * R32 fs ->
  fin hi -> Rabs (R32 hi) <= B -> bpow radix2 (-100) <= B -> B <= bpow radix2 64 ->
  R32 t * R32 fs <= INR n < R32 t * R32 fs + 1 ->
  R32 t * R32 fs / 10 <= INR n10 < R32 t * R32 fs / 10 + 1 ->
  exists ys ys10 s s10,
    glide_outputs g0 (GSetTime t :: repeat (GProcess hi) (S n)) = Some ys /\
    glide_outputs g0 (GSetTime t :: repeat (GProcess hi) (S n10)) = Some ys10 /\
    length ys = S n /\ length ys10 = S n10 /\
    Rabs (R32 (last ys f_0) - R32 hi * s) <= resolution (6 / (R32 t * R32 fs)) / 2 * B /\
    Rabs (R32 (last ys10 f_0) - R32 hi * s10) <= resolution (6 / (R32 t * R32 fs)) / 2 * B /\
    0.996 <= s /\ 0.41 <= s10 <= 0.54.
Proof.
  intros fs g0 t hi B n n10 Hfs E0 Ht HN Fh Bh HBlo HBhi Hn Hn10.
  destruct (first_set_time_from_new fs g0 t Hfs E0 Ht)
    as (g' & Es & _ & C2 & Hg & _ & Y1 & Y2 & X1 & X2).
  assert (Hrun : glide_run (glide_new fs) [] = Some g0) by (cbn [glide_run]; exact E0).
  destruct (speed_of_time fs [] g0 t _ Hfs Hrun Ht HN (eq_sym C2)) as (_ & Hk & Hpos & Hk5).
  destruct (pole_accuracy fs g0 t (d_c (g_lpf g')) Hfs E0 Ht HN (eq_sym C2)) as [_ Hp].
  cbv zeta in Hp.
  assert (HN2 : R32 t * R32 fs <= 480000).
  { destruct Ht as [_ [T0 T1]]. destruct Hfs as [_ [S0 S1]].
    replace 480000 with (10 * 48000) by ring.
    apply Rmult_le_compat; lra. }
  destruct (time_constant_real (R32 t * R32 fs) (pole (d_c (g_lpf g'))) n n10
              (conj HN HN2) Hp Hn Hn10) as (T1 & T2).
  assert (HB0 : 0 <= B) by (pose proof (bpow_ge_0 radix2 (-100)); lra).
  assert (Hb : df1_bounded (g_lpf g') B).
  { unfold df1_bounded. rewrite Y1, Y2, X1, X2, R32_f_0, Rabs_R0.
    repeat split; try exact fin_f_0; exact HB0. }
  assert (Hd : Rabs (R32 (d_y1 (g_lpf g')) - R32 (d_x1 (g_lpf g'))) <= 0).
  { rewrite Y1, X1, Rminus_diag_eq by reflexivity. rewrite Rabs_R0. lra. }
  assert (K : forall m,
    Rabs (R32 (last (snd (run_const (g_lpf g') hi (S m))) f_0)
          - R32 hi * step_response (pole (d_c (g_lpf g'))) m)
    <= resolution (6 / (R32 t * R32 fs)) / 2 * B).
  { intros m. rewrite last_run_const.
    destruct (step_tracks_near_rest_state (g_lpf g') hi m _ B 0 Hg Hk Hk5 Hb Fh Bh HBlo HBhi Hd)
      as [_ T].
    specialize (T Hpos). rewrite X1, R32_f_0 in T.
    replace (R32 hi * step_response (pole (d_c (g_lpf g'))) m)
      with (0 + (R32 hi - 0) * step_response (pole (d_c (g_lpf g'))) m) by ring.
    eapply Rle_trans; [exact T|]. rewrite Rmult_0_r. lra. }
  exists (snd (run_const (g_lpf g') hi (S n))), (snd (run_const (g_lpf g') hi (S n10))),
         (step_response (pole (d_c (g_lpf g'))) n), (step_response (pole (d_c (g_lpf g'))) n10).
  split; [exact (outputs_set_time_repeat g0 t g' hi (S n) Es)|].
  split; [exact (outputs_set_time_repeat g0 t g' hi (S n10) Es)|].
  split; [apply run_const_length|]. split; [apply run_const_length|].
  split; [apply K|]. split; [apply K|].
  split; [exact T1|exact T2].
Qed.

(** the range of [N] for which this yields the property's own figures: up to 12582 samples
    per [t] (0.26 s at 48 kHz) a step from rest at 0 to any [hi] with [2^-100 <= |hi| <= 2^64]
    has covered at least 99.5 % of the step after [t] seconds and between 40 % and 55 % after
    [t/10] seconds.  Beyond that the f32 resolution of the filter itself, [8 * 2^-24 * N / 6]
    of the step, exceeds the 0.1 % margin between 99.6 % and 99.5 %. *)
Corollary end_to_end_percent : forall fs g0 t hi (n n10 : nat),
  glide_fs_ok fs -> glide_new fs = Some g0 -> glide_time_ok t ->
  100 <= R32 t * R32 fs <= 12582 ->
  fin hi -> bpow radix2 (-100) <= Rabs (R32 hi) <= bpow radix2 64 ->
  R32 t * R32 fs <= INR n < R32 t * R32 fs + 1 ->
  R32 t * R32 fs / 10 <= INR n10 < R32 t * R32 fs / 10 + 1 ->
  exists ys ys10,
    glide_outputs g0 (GSetTime t :: repeat (GProcess hi) (S n)) = Some ys /\
    glide_outputs g0 (GSetTime t :: repeat (GProcess hi) (S n10)) = Some ys10 /\
    length ys = S n /\ length ys10 = S n10 /\
    0.995 <= R32 (last ys f_0) / R32 hi /\
    0.40 <= R32 (last ys10 f_0) / R32 hi <= 0.55.
Proof.
  intros fs g0 t hi n n10 Hfs E0 Ht [HN HN3] Fh [HBlo HBhi] Hn Hn10.
  destruct (first_glide_end_to_end_sharp fs g0 t hi (Rabs (R32 hi)) n n10 Hfs E0 Ht HN Fh
              (Rle_refl _) HBlo HBhi Hn Hn10)
    as (ys & ys10 & s & s10 & O1 & O2 & L1 & L2 & A1 & A2 & S1 & S2).
  exists ys, ys10. repeat (split; [assumption|]).
  set (N := R32 t * R32 fs) in *.
  assert (Hres : resolution (6 / N) / 2 <= 0.001).
  { unfold resolution. replace (16 * u24 / (6 / N) / 2) with (N * (8 * u24 / 6)) by (field; lra).
    lra. }
  assert (Hh0 : 0 < Rabs (R32 hi)) by (pose proof (bpow_gt_0 radix2 (-100)); lra).
  assert (Hne : R32 hi <> 0) by (intros E; rewrite E, Rabs_R0 in Hh0; lra).
  assert (Htol : resolution (6 / N) / 2 * Rabs (R32 hi) <= 0.001 * Rabs (R32 hi - 0)).
  { rewrite Rminus_0_r. apply Rmult_le_compat_r; lra. }
  assert (A1' : Rabs (R32 (last ys f_0) - (0 + (R32 hi - 0) * s))
                <= resolution (6 / N) / 2 * Rabs (R32 hi)).
  { replace (0 + (R32 hi - 0) * s) with (R32 hi * s) by ring. exact A1. }
  assert (A2' : Rabs (R32 (last ys10 f_0) - (0 + (R32 hi - 0) * s10))
                <= resolution (6 / N) / 2 * Rabs (R32 hi)).
  { replace (0 + (R32 hi - 0) * s10) with (R32 hi * s10) by ring. exact A2. }
  destruct (percent_of_tolerance _ 0 _ _ _ Hne A1' Htol) as [Q1 _].
  destruct (percent_of_tolerance _ 0 _ _ _ Hne A2' Htol) as [Q2 Q3].
  rewrite !Rminus_0_r in Q1, Q2, Q3.
  split; [lra|split; lra].
Qed.
