(** * GlideCoeffProofs: which coefficient sets the glide processor can install (C13, C14)

    Instantiation of Proofs/GlideCoeffGeneric.v with the facts about the executable [tanf]
    port proved in Proofs/TanfProofs.v.

    The arguments of [tanf] reached by [from_params] are at most
    [pi_f32/4 * (1+2^-24)^2 <= X_GL = 0.78539828]; there [tan x <= 1 + 2.3321e-7], so the
    2^-23 relative accuracy of [tanf] gives [tanf x < 1 + 3 * 2^-23] and hence, [tanf x] being
    a float, [tanf x <= 1 + 2^-22].  With that range constant the sharp bounds of
    GlideCoeffGeneric ([b <= rnd ((1 + 2^-22)/2) = 1/2 + 2^-23], [a1 <= rnd (2^-23)]) are
    exactly the ones [good] of Spec/GlideSpec.v asks for. *)

From Coq Require Import ZArith Bool List Reals Lia Lra.
From Flocq Require Import Core IEEE754.BinarySingleNaN.
From Interval Require Import Tactic.
From SU Require Import F32 F32Lemmas.
From SU.Model Require Import Utils Tanf Glide.
From SU.Spec Require Import GlideSpec.
From SU.Proofs Require Import LfoProofs TanfProofs.
From SU.Proofs Require Export GlideCoeffGeneric.
Import ListNotations.
Open Scope R_scope.

Definition X_GL : R := 0.78539828.
Definition W_GL : R := / 4194304.   (* range: tanf x <= 1 + 2^-22 on (0, X_GL] *)
Definition T_GL : R := / 8388608.   (* relative accuracy 2^-23 *)

Lemma X_GL_lb : 0.78539828 <= X_GL.
Proof. unfold X_GL. lra. Qed.

Lemma W_GL_range : 0 <= W_GL <= / 1048576.
Proof. unfold W_GL. lra. Qed.

Lemma T_GL_le : T_GL <= / 131072.
Proof. unfold T_GL. lra. Qed.

Lemma T_GL_le20 : T_GL <= / 1048576.
Proof. unfold T_GL. lra. Qed.

Lemma tan_X_GL : forall x, 0 < x <= X_GL -> tan x <= 1 + 2.3321 / 10000000.
Proof. unfold X_GL. intros x H. interval. Qed.

Lemma tanf_range_glide : forall x : f32, fin x -> 0 < R32 x <= X_GL ->
  fin (tanf x) /\ 0 < R32 (tanf x) <= 1 + W_GL.
Proof.
  intros x Fx Hx.
  assert (Hx' : 0 < R32 x <= X_TOP) by (unfold X_GL in Hx; unfold X_TOP; lra).
  destruct (tanf_all x Fx Hx') as (F & Tp & A & _).
  apply Rabs_le_inv in A.
  assert (Ht := tan_X_GL (R32 x) Hx).
  split; [exact F|]. split; [lra|].
  unfold W_GL. apply fmt_le_1p22; [apply fmt_R32|]. lra.
Qed.

Lemma tanf_accuracy_glide : forall x : f32, fin x -> 0 < R32 x <= X_GL ->
  Rabs (R32 (tanf x) - tan (R32 x)) <= T_GL * tan (R32 x).
Proof.
  intros x Fx Hx. unfold T_GL. apply tanf_accuracy_sharp; [exact Fx|].
  unfold X_GL in Hx; unfold X_TOP; lra.
Qed.

(** with [W_GL = 2^-22] the sharp bounds are those of [good] *)
Lemma sharp_good : forall c, good' c -> R32 (k_b0 c) <= rnd ((1 + W_GL) / 2) ->
  R32 (k_a1 c) <= rnd (W_GL / 2) -> good c.
Proof.
  intros c (H1 & H2 & H3 & H4 & H5 & [H6 _] & [H7 _] & H8) Hb Ha.
  assert (Eb : rnd ((1 + W_GL) / 2) = / 2 + / 8388608).
  { unfold W_GL. replace ((1 + / 4194304) / 2) with (IZR 4194305 / IZR 8388608) by lra.
    rewrite rnd_id by (apply (fmt_div_pow2 4194305 23); [lia|lia|reflexivity]). lra. }
  assert (Ea : rnd (W_GL / 2) = / 8388608).
  { unfold W_GL. replace (/ 4194304 / 2) with (IZR 1 / IZR 8388608) by lra.
    rewrite rnd_id by (apply (fmt_div_pow2 1 23); [lia|lia|reflexivity]). lra. }
  rewrite Eb in Hb. rewrite Ea in Ha.
  unfold good. repeat split; auto; lra.
Qed.

(** ** the statements of Props/C13.v and Props/C14.v *)

(** C13_coeffs_good *)
Theorem coeffs_good : forall fs ops, glide_fs_ok fs -> Forall op_time_ok ops ->
  exists g0, glide_new fs = Some g0 /\
    (exists g, glide_after g0 ops = Some g) /\
    Forall (fun c => good c /\ 0.6 / R32 fs <= speed c) (coeffs_used g0 ops).
Proof.
  exact (coeffs_good_if X_GL W_GL T_GL X_GL_lb W_GL_range T_GL_le
           tanf_range_glide tanf_accuracy_glide sharp_good).
Qed.

(** C14_pole_accuracy *)
Theorem pole_accuracy : forall fs g0 t c,
  glide_fs_ok fs -> glide_new fs = Some g0 -> glide_time_ok t -> 100 <= R32 t * R32 fs ->
  coeffs_for g0 t = Some c ->
  let p0 := ideal_pole (R32 t * R32 fs) in
  good c /\ Rabs (pole c - p0) <= / 65536 * (1 - p0) + 4 * / 16777216.
Proof.
  exact (pole_accuracy_if X_GL W_GL T_GL X_GL_lb W_GL_range T_GL_le
           tanf_range_glide tanf_accuracy_glide sharp_good).
Qed.

(** C14_fastest.  (With the original [glide_f0], which took the reciprocal of [t] itself, this
    was false for [t = -0.0]: [1 / -0.0 = -infinity] clamps to the minimum cutoff.  The code
    and the model now replace both zeros by [+0.0] first.) *)
Theorem fastest : forall fs g0 g t,
  glide_fs_ok fs -> glide_new fs = Some g0 ->
  (exists ops, Forall op_time_ok ops /\ glide_after g0 ops = Some g) ->
  fin t -> 0 <= R32 t < 2 / R32 fs ->
  coeffs_for g t = Some (d_c (g_lpf g0)) /\
  Rabs (pole (d_c (g_lpf g0))) <= / 1048576.
Proof.
  exact (fastest_gen X_GL W_GL T_GL X_GL_lb W_GL_range T_GL_le
           tanf_range_glide tanf_accuracy_glide T_GL_le20).
Qed.

(** C14_slowest *)
Theorem slowest : forall fs g0 g t,
  glide_fs_ok fs -> glide_new fs = Some g0 ->
  (exists ops, Forall op_time_ok ops /\ glide_after g0 ops = Some g) ->
  (fin t /\ 10 <= R32 t) \/ t = B754_infinity false ->
  glide_f0 g t = glide_f0 g (of_Z 10) /\ glide_f0 g t = g_min_fc g.
Proof.
  exact (slowest_gen X_GL W_GL T_GL X_GL_lb W_GL_range T_GL_le
           tanf_range_glide tanf_accuracy_glide).
Qed.

(** C14_dead_band and C14_dead_band_test are [dead_band] and [dead_band_test] of
    GlideCoeffGeneric (re-exported). *)
