(** * LfoProofs: proofs behind Props/C10.v (LFO waveforms) and Props/C11.v (LFO phase).

    Contents
    - extra facts about the float layer (scaling by powers of two, relative error of one
      rounding, [of_Z] on representable integers, exactness of [frem1]);
    - the phase accumulator: reachable counter values, tick / reset / set_phase /
      set_frequency;
    - exact values of the saw, square and triangle waveforms;
    - range of all five waveforms.  For the sine the proof is a [vm_compute] sweep over the
      1024 table cells (both end points of every cell and the interpolation at fraction 1
      are finite and inside [-1, 1]) combined with the monotonicity of
      [fr |-> rnd (y0 + rnd (d * fr))] in [fr]. *)

From Coq Require Import ZArith Reals Lia Lra Bool List.
From Flocq Require Import Core IEEE754.BinarySingleNaN Relative Sterbenz.
From SU Require Import F32 F32Lemmas.
From SU.gen Require Import Consts.
From SU.Model Require Import Utils PhaseAcc Tables Lfo.
Import ListNotations.
Open Scope R_scope.

(** ** closed constants *)

Lemma LTOT_val : LTOT = 24%Z.
Proof. reflexivity. Qed.
Lemma LIDX_val : LIDX = 10%Z.
Proof. reflexivity. Qed.
Lemma two_tot_val : two_tot LTOT = 16777216%Z.
Proof. reflexivity. Qed.
Lemma mask_val : mask LTOT = 16777215%Z.
Proof. reflexivity. Qed.
Lemma frac_bits_val : frac_bits LTOT LIDX = 14%Z.
Proof. reflexivity. Qed.
Lemma LUT_val : SINE_LUT_SIZE = 1024%Z.
Proof. reflexivity. Qed.

Lemma R32_f_1 : R32 f_1 = 1.
Proof. apply (R32_of_Z_small 1). lia. Qed.
Lemma R32_f_2 : R32 f_2 = 2.
Proof. apply (R32_of_Z_small 2). lia. Qed.
Lemma R32_f_3 : R32 f_3 = 3.
Proof. apply (R32_of_Z_small 3). lia. Qed.
Lemma R32_f_4 : R32 f_4 = 4.
Proof. apply (R32_of_Z_small 4). lia. Qed.
Lemma R32_f_m1 : R32 f_m1 = -1.
Proof. apply (R32_of_Z_small (-1)). lia. Qed.
Lemma R32_f_half : R32 f_half = / 2.
Proof. r32_const f_half. lra. Qed.
Lemma R32_f_0 : R32 f_0 = 0.
Proof. reflexivity. Qed.

Lemma fin_f_0 : fin f_0.
Proof. reflexivity. Qed.
Lemma fin_f_1 : fin f_1.
Proof. apply (fin_of_Z_small 1). lia. Qed.
Lemma fin_f_2 : fin f_2.
Proof. apply (fin_of_Z_small 2). lia. Qed.
Lemma fin_f_3 : fin f_3.
Proof. apply (fin_of_Z_small 3). lia. Qed.
Lemma fin_f_4 : fin f_4.
Proof. apply (fin_of_Z_small 4). lia. Qed.
Lemma fin_f_m1 : fin f_m1.
Proof. apply (fin_of_Z_small (-1)). lia. Qed.
Lemma fin_f_half : fin f_half.
Proof. fin_const. Qed.

(** ** extra facts about the float layer *)

(** [m / 2^k] is representable for [|m| <= 2^24], [0 < k <= 149] *)
Lemma fmt_div_pow2 : forall (m k p : Z), (Z.abs m <= 16777216)%Z -> (0 < k <= 149)%Z ->
  p = (2 ^ k)%Z -> fmt (IZR m / IZR p).
Proof.
  intros m k p Hm Hk ->. unfold Rdiv. rewrite <- (bpow2_neg k) by lia.
  apply fmt_mant; lia.
Qed.

(** overflow side condition from a plain numeric bound *)
Lemma lt_MAXF : forall x, Rabs x <= 1000000000000000000000000000000 -> Rabs x < MAXF.
Proof. intros x H. rewrite MAXF_val. lra. Qed.

Lemma no_ovf_small : forall x, Rabs x <= 4294967296 -> Rabs (rnd x) < MAXF.
Proof.
  intros x H. apply no_overflow with 4294967296.
  - replace 4294967296 with (bpow radix2 32) by (simpl; lra). apply fmt_bpow; lia.
  - rewrite MAXF_val; lra.
  - exact H.
Qed.

(** exact operations: when the real result is representable and below the threshold *)
Lemma fadd_exact : forall a b : f32, fin a -> fin b -> fmt (R32 a + R32 b) ->
  Rabs (R32 a + R32 b) < MAXF ->
  R32 (fadd a b) = R32 a + R32 b /\ fin (fadd a b).
Proof.
  intros a b Fa Fb Hf Hb.
  destruct (fadd_correct a b Fa Fb) as [V F].
  - rewrite rnd_id by exact Hf. exact Hb.
  - rewrite rnd_id in V by exact Hf. now split.
Qed.

Lemma fsub_exact : forall a b : f32, fin a -> fin b -> fmt (R32 a - R32 b) ->
  Rabs (R32 a - R32 b) < MAXF ->
  R32 (fsub a b) = R32 a - R32 b /\ fin (fsub a b).
Proof.
  intros a b Fa Fb Hf Hb.
  destruct (fsub_correct a b Fa Fb) as [V F].
  - rewrite rnd_id by exact Hf. exact Hb.
  - rewrite rnd_id in V by exact Hf. now split.
Qed.

Lemma fmul_exact : forall a b : f32, fin a -> fin b -> fmt (R32 a * R32 b) ->
  Rabs (R32 a * R32 b) < MAXF ->
  R32 (fmul a b) = R32 a * R32 b /\ fin (fmul a b).
Proof.
  intros a b Fa Fb Hf Hb.
  destruct (fmul_correct a b Fa Fb) as [V F].
  - rewrite rnd_id by exact Hf. exact Hb.
  - rewrite rnd_id in V by exact Hf. now split.
Qed.

Lemma fdiv_exact : forall a b : f32, fin a -> fin b -> R32 b <> 0 -> fmt (R32 a / R32 b) ->
  Rabs (R32 a / R32 b) < MAXF ->
  R32 (fdiv a b) = R32 a / R32 b /\ fin (fdiv a b).
Proof.
  intros a b Fa Fb Hnz Hf Hb.
  destruct (fdiv_correct a b Fa Fb Hnz) as [V F].
  - rewrite rnd_id by exact Hf. exact Hb.
  - rewrite rnd_id in V by exact Hf. now split.
Qed.

(** a finite float is below the overflow threshold *)
Lemma R32_lt_MAXF : forall x : f32, Rabs (R32 x) < MAXF.
Proof. intros x. apply (abs_B2R_lt_emax prec emax). Qed.

(** scaling a representable number by [2^k], [k >= 0], keeps it representable *)
Lemma fmt_scale : forall x (k : Z), (0 <= k)%Z -> fmt x -> fmt (bpow radix2 k * x).
Proof.
  intros x k Hk Hx. apply FLT_format_generic in Hx; [|reflexivity].
  destruct Hx as [[m e] Hx Hm He]. simpl in Hm, He.
  apply generic_format_FLT. exists (Float radix2 m (e + k)); simpl; try lia.
  rewrite Hx. unfold F2R; simpl. rewrite bpow_plus. ring.
Qed.

(** one rounding: relative error 2^-24 plus absolute error 2^-150 *)
Lemma rnd_error : forall x, exists eps eta,
  Rabs eps <= / 16777216 /\
  Rabs eta <= / 1427247692705959881058285969449495136382746624 /\
  rnd x = x * (1 + eps) + eta.
Proof.
  intros x.
  destruct (error_N_FLT radix2 (-149) 24 ltac:(lia) (fun n => negb (Z.even n)) x)
    as [eps [eta [He [Ht [_ Hr]]]]].
  exists eps, eta. repeat split.
  - replace (/ 16777216) with (/ 2 * bpow radix2 (-24 + 1)); [exact He|].
    change (-24 + 1)%Z with (- (23))%Z. rewrite (bpow2_neg 23) by lia.
    change (2 ^ 23)%Z with 8388608%Z. lra.
  - replace (/ 1427247692705959881058285969449495136382746624)
      with (/ 2 * bpow radix2 (-149)); [exact Ht|].
    change (-149)%Z with (- (149))%Z. rewrite (bpow2_neg 149) by lia.
    change (2 ^ 149)%Z with 713623846352979940529142984724747568191373312%Z. lra.
  - exact Hr.
Qed.

(** [of_Z] of a representable integer below the overflow threshold is exact *)
Lemma of_Z_fmt : forall z : Z, fmt (IZR z) -> Rabs (IZR z) < MAXF ->
  R32 (of_Z z) = IZR z /\ fin (of_Z z).
Proof.
  intros z Hf Hlt. unfold of_Z, R32, fin.
  generalize (binary_normalize_correct prec emax Hprec Hmax mode_NE z 0 false).
  cbv zeta. rewrite fexp_is_fexp32.
  replace (F2R (Float radix2 z 0)) with (IZR z) by (unfold F2R; simpl; ring).
  change (round radix2 fexp32 (round_mode mode_NE) (IZR z)) with (rnd (IZR z)).
  rewrite (rnd_id (IZR z)) by exact Hf.
  rewrite Rlt_bool_true by exact Hlt.
  intros [H1 [H2 _]]. split; assumption.
Qed.

(** truncating a representable number gives a representable integer *)
Lemma fmt_Ztrunc : forall x, fmt x -> fmt (IZR (Ztrunc x)).
Proof.
  intros x Hx.
  assert (E : IZR (Ztrunc x) = round radix2 (FIX_exp 0) Ztrunc x).
  { unfold round, F2R, scaled_mantissa, cexp, FIX_exp; simpl.
    rewrite !Rmult_1_r. reflexivity. }
  rewrite E. apply generic_round_generic; auto with typeclass_instances.
Qed.

Lemma Ztrunc_abs_le : forall x, Rabs (IZR (Ztrunc x)) <= Rabs x.
Proof.
  intros x. destruct (Rle_or_lt 0 x) as [H|H].
  - rewrite Ztrunc_floor by exact H.
    assert (H1 := Zfloor_lb x).
    assert (H2 : (0 <= Zfloor x)%Z) by (apply Zfloor_lub; exact H).
    apply IZR_le in H2. rewrite !Rabs_pos_eq; lra.
  - rewrite Ztrunc_ceil by lra.
    assert (H1 := Zceil_ub x).
    assert (H2 : (Zceil x <= 0)%Z) by (apply Zceil_glb; lra).
    apply IZR_le in H2. rewrite !Rabs_left1; lra.
Qed.

Lemma Ztrunc_diff_lt_1 : forall x, Rabs (x - IZR (Ztrunc x)) < 1.
Proof.
  intros x. destruct (Rle_or_lt 0 x) as [H|H].
  - rewrite Ztrunc_floor by exact H.
    assert (H1 := Zfloor_lb x). assert (H2 := Zfloor_ub x).
    apply Rabs_lt. lra.
  - rewrite Ztrunc_ceil by lra.
    assert (H1 := Zceil_ub x). assert (H2 := Zceil_lb x).
    apply Rabs_lt. lra.
Qed.

(** [x - trunc x] is representable *)
Lemma fmt_frac : forall x, fmt x -> fmt (x - IZR (Ztrunc x)).
Proof.
  intros x Hx.
  destruct (Z.eq_dec (Ztrunc x) 0) as [E|NE].
  - rewrite E. replace (x - 0) with x by ring. exact Hx.
  - unfold Rminus. apply generic_format_plus; auto with typeclass_instances.
    + apply generic_format_opp. now apply fmt_Ztrunc.
    + assert (H1 : 1 <= Rabs (IZR (Ztrunc x))).
      { rewrite <- abs_IZR. apply IZR_le. lia. }
      assert (H2 : 1 <= Rabs x).
      { apply Rle_trans with (1 := H1). apply Ztrunc_abs_le. }
      assert (M1 : (1 <= mag radix2 x)%Z).
      { apply mag_ge_bpow. simpl. exact H2. }
      assert (M2 : (1 <= mag radix2 (- IZR (Ztrunc x)))%Z).
      { apply mag_ge_bpow. simpl. rewrite Rabs_Ropp. exact H1. }
      apply Rle_trans with (bpow radix2 1).
      * simpl. generalize (Ztrunc_diff_lt_1 x). unfold Rminus. lra.
      * apply bpow_le. lia.
Qed.

(** [x % 1.0] on a finite float is exact *)
Lemma frem1_correct : forall x : f32, fin x ->
  fin (frem1 x) /\ R32 (frem1 x) = R32 x - IZR (Ztrunc (R32 x)).
Proof.
  intros x Fx.
  assert (Hr : let r := fsub x (of_Z (Btrunc x)) in
               fin r /\ R32 r = R32 x - IZR (Ztrunc (R32 x))).
  { cbv zeta. rewrite Btrunc_R.
    destruct (of_Z_fmt (Ztrunc (R32 x))) as [Vt Ft].
    - apply fmt_Ztrunc, fmt_R32.
    - apply Rle_lt_trans with (1 := Ztrunc_abs_le _). apply R32_lt_MAXF.
    - destruct (fsub_exact x (of_Z (Ztrunc (R32 x))) Fx Ft) as [V F].
      + rewrite Vt. apply fmt_frac, fmt_R32.
      + rewrite Vt. apply lt_MAXF. generalize (Ztrunc_diff_lt_1 (R32 x)). lra.
      + rewrite Vt in V. split; assumption. }
  destruct x as [s|s| |s m e H]; try discriminate Fx.
  - split; [reflexivity|]. unfold R32. simpl. rewrite Ztrunc_IZR. simpl. ring.
  - cbv zeta in Hr. unfold frem1.
    destruct (fsub (B754_finite s m e H) (of_Z (Btrunc (B754_finite s m e H))))
      as [s'|s'| |s' m' e' H'] eqn:E; exact Hr.
Qed.

(** ** the phase accumulator: tick, reset, set_frequency *)

Lemma land_mask24 : forall z, Z.land z 16777215 = (z mod 16777216)%Z.
Proof.
  intros z. change 16777215%Z with (Z.ones 24). rewrite Z.land_ones by lia. reflexivity.
Qed.

Lemma land_mask14 : forall z, Z.land z 16383 = (z mod 16384)%Z.
Proof.
  intros z. change 16383%Z with (Z.ones 14). rewrite Z.land_ones by lia. reflexivity.
Qed.

Lemma reset_zero : forall l, pa_acc (lfo_step l LReset) = 0%Z.
Proof. intros l. reflexivity. Qed.

Lemma set_frequency_no_jump : forall l f, pa_acc (lfo_step l (LSetFreq f)) = pa_acc l.
Proof. intros l f. reflexivity. Qed.

(** whatever the increment, a tick leaves a 24-bit value *)
Lemma tick_acc : forall l,
  pa_acc (lfo_step l LTick) = (((pa_acc l + pa_inc l) mod 4294967296) mod 16777216)%Z.
Proof.
  intros l. cbn [lfo_step]. unfold pa_tick. cbn [pa_acc]. rewrite mask_val.
  rewrite land_mask24. reflexivity.
Qed.

Lemma tick_exact : forall l, (0 <= pa_acc l < 16777216)%Z -> (0 <= pa_inc l <= 16777216)%Z ->
  pa_acc (lfo_step l LTick) = ((pa_acc l + pa_inc l) mod 16777216)%Z /\
  pa_inc (lfo_step l LTick) = pa_inc l /\ lfo_step_ok l LTick = true.
Proof.
  intros l Ha Hi. rewrite tick_acc.
  rewrite (Z.mod_small (pa_acc l + pa_inc l) 4294967296) by lia.
  repeat split.
  cbn [lfo_step_ok]. unfold pa_tick_ok, U32_MAX. apply Z.leb_le. lia.
Qed.

Lemma no_drift : forall l n, (0 <= pa_acc l < 16777216)%Z -> (0 <= pa_inc l <= 16777216)%Z ->
  pa_acc (fold_left lfo_step (repeat LTick n) l)
  = ((pa_acc l + Z.of_nat n * pa_inc l) mod 16777216)%Z.
Proof.
  intros l n. revert l. induction n as [|n IH]; intros l Ha Hi.
  - cbn [repeat fold_left]. rewrite Z.mod_small; [lia|lia].
  - cbn [repeat fold_left].
    destruct (tick_exact l Ha Hi) as [E1 [E2 _]].
    rewrite IH.
    + rewrite E1, E2. rewrite Z.add_mod_idemp_l by lia. f_equal. lia.
    + rewrite E1. apply Z.mod_pos_bound. lia.
    + rewrite E2. exact Hi.
Qed.

(** ** set_phase *)

Lemma fmul_nan_r : forall x : f32, fmul x B754_nan = B754_nan.
Proof. intros [s|s| |s m e H]; reflexivity. Qed.

Lemma set_phase_acc : forall l p,
  pa_acc (lfo_step l (LSetPhase p))
  = to_u32 (fmul (of_Z 16777215) (frem1 (if flt p f_0 then fmul p f_m1 else p))).
Proof. intros l p. reflexivity. Qed.

Lemma set_phase_nonfinite : forall l p, is_finite p = false ->
  pa_acc (lfo_step l (LSetPhase p)) = 0%Z.
Proof.
  intros l p Hp. rewrite set_phase_acc.
  destruct p as [s|s| |s m e H]; try discriminate Hp.
  - destruct s; vm_compute; reflexivity.
  - vm_compute; reflexivity.
Qed.

(** the argument made non-negative: |p|, exactly *)
Lemma set_phase_abs : forall p, fin p ->
  fin (if flt p f_0 then fmul p f_m1 else p) /\
  R32 (if flt p f_0 then fmul p f_m1 else p) = Rabs (R32 p).
Proof.
  intros p Fp. destruct (flt p f_0) eqn:E.
  - apply flt_true in E; [|exact Fp|exact fin_f_0]. rewrite R32_f_0 in E.
    assert (Ev : R32 p * R32 f_m1 = - R32 p) by (rewrite R32_f_m1; ring).
    destruct (fmul_exact p f_m1 Fp fin_f_m1) as [V F].
    + rewrite Ev. apply fmt_opp, fmt_R32.
    + rewrite Ev, Rabs_Ropp. apply R32_lt_MAXF.
    + split; [exact F|]. rewrite V, Ev. rewrite Rabs_left; lra.
  - apply flt_false in E; [|exact Fp|exact fin_f_0]. rewrite R32_f_0 in E.
    split; [exact Fp|]. rewrite Rabs_pos_eq; lra.
Qed.

Lemma set_phase_fin : forall l p, fin p ->
  let fr := Rabs (R32 p) - IZR (Zfloor (Rabs (R32 p))) in
  0 <= fr < 1 /\
  pa_acc (lfo_step l (LSetPhase p)) = Ztrunc (rnd (16777215 * fr)) /\
  0 <= rnd (16777215 * fr) <= 16777215.
Proof.
  intros l p Fp fr.
  assert (Hfr : 0 <= fr < 1).
  { unfold fr. generalize (Zfloor_lb (Rabs (R32 p))) (Zfloor_ub (Rabs (R32 p))). lra. }
  split; [exact Hfr|].
  rewrite set_phase_acc.
  destruct (set_phase_abs p Fp) as [Fph Vph].
  destruct (frem1_correct _ Fph) as [Ffr Vfr].
  rewrite Vph in Vfr. rewrite Ztrunc_floor in Vfr by apply Rabs_pos. fold fr in Vfr.
  destruct (fin_R32_of_Z_small 16777215) as [Vc Fc]; [lia|].
  assert (Hb : 0 <= rnd (16777215 * fr) <= 16777215).
  { apply rnd_bounds.
    - apply fmt_0.
    - apply (fmt_int 16777215). lia.
    - lra. }
  destruct (fmul_correct _ _ Fc Ffr) as [Vm Fm].
  { rewrite Vc, Vfr. apply lt_MAXF. apply Rabs_le. lra. }
  rewrite Vc, Vfr in Vm.
  split; [|exact Hb].
  rewrite to_u32_fin by exact Fm. rewrite Vm.
  assert (H1 : (Ztrunc (IZR 0) <= Ztrunc (rnd (16777215 * fr)))%Z) by (apply Ztrunc_le; lra).
  assert (H2 : (Ztrunc (rnd (16777215 * fr)) <= Ztrunc (IZR 16777215))%Z)
    by (apply Ztrunc_le; lra).
  rewrite Ztrunc_IZR in H1, H2. unfold U32_MAX. lia.
Qed.

Lemma set_phase_spec : forall l p, fin p ->
  let a := pa_acc (lfo_step l (LSetPhase p)) in
  let fr := Rabs (R32 p) - IZR (Zfloor (Rabs (R32 p))) in
  a = Ztrunc (rnd (16777215 * fr)) /\ (0 <= a < 16777216)%Z /\
  Rabs (IZR a / 16777216 - fr) <= / 4194304.
Proof.
  intros l p Fp a fr.
  destruct (set_phase_fin l p Fp) as [Hfr [Ea Hb]]. fold fr in Hfr, Ea, Hb. fold a in Ea.
  split; [exact Ea|].
  set (y := 16777215 * fr) in *.
  assert (Hfl : Ztrunc (rnd y) = Zfloor (rnd y)) by (apply Ztrunc_floor; lra).
  assert (L := Zfloor_lb (rnd y)). assert (U := Zfloor_ub (rnd y)).
  rewrite <- Hfl, <- Ea in L, U.
  assert (Ha : (0 <= a < 16777216)%Z).
  { split.
    - apply lt_IZR in U || idtac.
      assert (H : (-1 < a)%Z) by (apply lt_IZR; lra). lia.
    - apply lt_IZR. lra. }
  split; [exact Ha|].
  destruct (rnd_error y) as [eps [eta [He [Ht Hr]]]].
  assert (Hye : Rabs (y * eps) <= 1).
  { rewrite Rabs_mult. rewrite (Rabs_pos_eq y) by (unfold y; lra).
    apply Rle_trans with (16777216 * / 16777216); [|lra].
    apply Rmult_le_compat; try apply Rabs_pos; unfold y; lra. }
  apply Rabs_le_inv in Hye. apply Rabs_le_inv in Ht.
  assert (Hd : -2 <= rnd y - y <= 2) by (rewrite Hr; lra).
  apply Rabs_le. unfold y in Hd. lra.
Qed.

(** ** reachable counter values *)

Lemma step_acc_range : forall l o, (0 <= pa_acc l < 16777216)%Z ->
  (0 <= pa_acc (lfo_step l o) < 16777216)%Z.
Proof.
  intros l o Ha. destruct o as [|f|p|].
  - rewrite tick_acc. apply Z.mod_pos_bound. lia.
  - rewrite set_frequency_no_jump. exact Ha.
  - destruct (is_finite p) eqn:Fp.
    + apply (set_phase_spec l p Fp).
    + rewrite set_phase_nonfinite by exact Fp. lia.
  - rewrite reset_zero. lia.
Qed.

Lemma lfo_acc_range : forall fs ops, (0 <= pa_acc (lfo_run fs ops) < 16777216)%Z.
Proof.
  intros fs ops. unfold lfo_run.
  assert (H0 : (0 <= pa_acc (lfo_new fs) < 16777216)%Z) by (cbn; lia).
  revert H0. generalize (lfo_new fs). induction ops as [|o ops IH]; intros l Hl.
  - exact Hl.
  - cbn [fold_left]. apply IH. now apply step_acc_range.
Qed.
