(** * LfoProofs: proofs behind Props/C10.v (LFO waveforms) and Props/C11.v (LFO phase).

    Contents
    - extra facts about the float layer (scaling by powers of two, relative error of one
      rounding, [of_Z] on representable integers, exactness of [frem1]);
    - the phase accumulator: reachable counter values, tick / reset / set_phase /
      set_frequency;
    - exact values of the saw, square and triangle waveforms;
    - range of all five waveforms.  For the sine the proof is a [vm_compute] sweep over the
      1024 table cells (both end points of every cell and the interpolation at fraction 1
      are finite and inside [-1, 1]) combined with the monotonicity of
      [fr |-> rnd (y0 + rnd (d * fr))] in [fr]. *)

From Coq Require Import ZArith Reals Lia Lra Bool List.
From Flocq Require Import Core IEEE754.BinarySingleNaN Relative Sterbenz.
From SU Require Import F32 F32Lemmas.
From SU.gen Require Import Consts.
From SU.Model Require Import Utils PhaseAcc Tables Lfo.
Import ListNotations.
Open Scope R_scope.

(** ** closed constants *)

Lemma LTOT_val : LTOT = 24%Z.
Proof. reflexivity. Qed.
Lemma LIDX_val : LIDX = 10%Z.
Proof. reflexivity. Qed.
Lemma two_tot_val : two_tot LTOT = 16777216%Z.
Proof. reflexivity. Qed.
Lemma mask_val : mask LTOT = 16777215%Z.
Proof. reflexivity. Qed.
Lemma frac_bits_val : frac_bits LTOT LIDX = 14%Z.
Proof. reflexivity. Qed.
Lemma LUT_val : SINE_LUT_SIZE = 1024%Z.
Proof. reflexivity. Qed.

Lemma R32_f_1 : R32 f_1 = 1.
Proof. apply (R32_of_Z_small 1). lia. Qed.
Lemma R32_f_2 : R32 f_2 = 2.
Proof. apply (R32_of_Z_small 2). lia. Qed.
Lemma R32_f_3 : R32 f_3 = 3.
Proof. apply (R32_of_Z_small 3). lia. Qed.
Lemma R32_f_4 : R32 f_4 = 4.
Proof. apply (R32_of_Z_small 4). lia. Qed.
Lemma R32_f_m1 : R32 f_m1 = -1.
Proof. apply (R32_of_Z_small (-1)). lia. Qed.
Lemma R32_f_half : R32 f_half = / 2.
Proof. r32_const f_half. lra. Qed.
Lemma R32_f_0 : R32 f_0 = 0.
Proof. reflexivity. Qed.

Lemma fin_f_0 : fin f_0.
Proof. reflexivity. Qed.
Lemma fin_f_1 : fin f_1.
Proof. apply (fin_of_Z_small 1). lia. Qed.
Lemma fin_f_2 : fin f_2.
Proof. apply (fin_of_Z_small 2). lia. Qed.
Lemma fin_f_3 : fin f_3.
Proof. apply (fin_of_Z_small 3). lia. Qed.
Lemma fin_f_4 : fin f_4.
Proof. apply (fin_of_Z_small 4). lia. Qed.
Lemma fin_f_m1 : fin f_m1.
Proof. apply (fin_of_Z_small (-1)). lia. Qed.
Lemma fin_f_half : fin f_half.
Proof. fin_const. Qed.

(** ** extra facts about the float layer *)

(** [m / 2^k] is representable for [|m| <= 2^24], [0 < k <= 149] *)
Lemma fmt_div_pow2 : forall (m k p : Z), (Z.abs m <= 16777216)%Z -> (0 < k <= 149)%Z ->
  p = (2 ^ k)%Z -> fmt (IZR m / IZR p).
Proof.
  intros m k p Hm Hk ->. unfold Rdiv. rewrite <- (bpow2_neg k) by lia.
  apply fmt_mant; lia.
Qed.

(** overflow side condition from a plain numeric bound *)
Lemma lt_MAXF : forall x, Rabs x <= 1000000000000000000000000000000 -> Rabs x < MAXF.
Proof. intros x H. rewrite MAXF_val. lra. Qed.

(** exact operations: when the real result is representable and below the threshold *)
Lemma fadd_exact : forall a b : f32, fin a -> fin b -> fmt (R32 a + R32 b) ->
  Rabs (R32 a + R32 b) < MAXF ->
  R32 (fadd a b) = R32 a + R32 b /\ fin (fadd a b).
Proof.
  intros a b Fa Fb Hf Hb.
  destruct (fadd_correct a b Fa Fb) as [V F].
  - rewrite rnd_id by exact Hf. exact Hb.
  - rewrite rnd_id in V by exact Hf. now split.
Qed.

Lemma fsub_exact : forall a b : f32, fin a -> fin b -> fmt (R32 a - R32 b) ->
  Rabs (R32 a - R32 b) < MAXF ->
  R32 (fsub a b) = R32 a - R32 b /\ fin (fsub a b).
Proof.
  intros a b Fa Fb Hf Hb.
  destruct (fsub_correct a b Fa Fb) as [V F].
  - rewrite rnd_id by exact Hf. exact Hb.
  - rewrite rnd_id in V by exact Hf. now split.
Qed.

Lemma fmul_exact : forall a b : f32, fin a -> fin b -> fmt (R32 a * R32 b) ->
  Rabs (R32 a * R32 b) < MAXF ->
  R32 (fmul a b) = R32 a * R32 b /\ fin (fmul a b).
Proof.
  intros a b Fa Fb Hf Hb.
  destruct (fmul_correct a b Fa Fb) as [V F].
  - rewrite rnd_id by exact Hf. exact Hb.
  - rewrite rnd_id in V by exact Hf. now split.
Qed.

Lemma fdiv_exact : forall a b : f32, fin a -> fin b -> R32 b <> 0 -> fmt (R32 a / R32 b) ->
  Rabs (R32 a / R32 b) < MAXF ->
  R32 (fdiv a b) = R32 a / R32 b /\ fin (fdiv a b).
Proof.
  intros a b Fa Fb Hnz Hf Hb.
  destruct (fdiv_correct a b Fa Fb Hnz) as [V F].
  - rewrite rnd_id by exact Hf. exact Hb.
  - rewrite rnd_id in V by exact Hf. now split.
Qed.

(** a finite float is below the overflow threshold *)
Lemma R32_lt_MAXF : forall x : f32, Rabs (R32 x) < MAXF.
Proof. intros x. apply (abs_B2R_lt_emax prec emax). Qed.

(** scaling a representable number by [2^k], [k >= 0], keeps it representable *)
Lemma fmt_scale : forall x (k : Z), (0 <= k)%Z -> fmt x -> fmt (bpow radix2 k * x).
Proof.
  intros x k Hk Hx. apply FLT_format_generic in Hx; [|reflexivity].
  destruct Hx as [[m e] Hx Hm He]. simpl in Hm, He.
  apply generic_format_FLT. exists (Float radix2 m (e + k)); simpl; try lia.
  rewrite Hx. unfold F2R; simpl. rewrite bpow_plus. ring.
Qed.

(** one rounding: relative error 2^-24 plus absolute error 2^-150 *)
Lemma rnd_error : forall x, exists eps eta,
  Rabs eps <= / 16777216 /\
  Rabs eta <= / 1427247692705959881058285969449495136382746624 /\
  rnd x = x * (1 + eps) + eta.
Proof.
  intros x.
  destruct (error_N_FLT radix2 (-149) 24 ltac:(lia) (fun n => negb (Z.even n)) x)
    as [eps [eta [He [Ht [_ Hr]]]]].
  exists eps, eta. repeat split.
  - replace (/ 16777216) with (/ 2 * bpow radix2 (-24 + 1)); [exact He|].
    change (-24 + 1)%Z with (- (23))%Z. rewrite (bpow2_neg 23) by lia.
    change (2 ^ 23)%Z with 8388608%Z. lra.
  - replace (/ 1427247692705959881058285969449495136382746624)
      with (/ 2 * bpow radix2 (-149)); [exact Ht|].
    change (-149)%Z with (- (149))%Z. rewrite (bpow2_neg 149) by lia.
    change (2 ^ 149)%Z with 713623846352979940529142984724747568191373312%Z. lra.
  - exact Hr.
Qed.

(** [of_Z] of a representable integer below the overflow threshold is exact *)
Lemma of_Z_fmt : forall z : Z, fmt (IZR z) -> Rabs (IZR z) < MAXF ->
  R32 (of_Z z) = IZR z /\ fin (of_Z z).
Proof.
  intros z Hf Hlt. unfold of_Z, R32, fin.
  generalize (binary_normalize_correct prec emax Hprec Hmax mode_NE z 0 false).
  cbv zeta. rewrite fexp_is_fexp32.
  replace (F2R (Float radix2 z 0)) with (IZR z) by (unfold F2R; simpl; ring).
  change (round radix2 fexp32 (round_mode mode_NE) (IZR z)) with (rnd (IZR z)).
  rewrite (rnd_id (IZR z)) by exact Hf.
  rewrite Rlt_bool_true by exact Hlt.
  intros [H1 [H2 _]]. split; assumption.
Qed.

(** truncating a representable number gives a representable integer *)
Lemma fmt_Ztrunc : forall x, fmt x -> fmt (IZR (Ztrunc x)).
Proof.
  intros x Hx.
  assert (E : IZR (Ztrunc x) = round radix2 (FIX_exp 0) Ztrunc x).
  { unfold round, F2R, scaled_mantissa, cexp, FIX_exp; simpl.
    rewrite !Rmult_1_r. reflexivity. }
  rewrite E. apply generic_round_generic; auto with typeclass_instances.
Qed.

Lemma Ztrunc_abs_le : forall x, Rabs (IZR (Ztrunc x)) <= Rabs x.
Proof.
  intros x. destruct (Rle_or_lt 0 x) as [H|H].
  - rewrite Ztrunc_floor by exact H.
    assert (H1 := Zfloor_lb x).
    assert (H2 : (0 <= Zfloor x)%Z) by (apply Zfloor_lub; exact H).
    apply IZR_le in H2. rewrite !Rabs_pos_eq; lra.
  - rewrite Ztrunc_ceil by lra.
    assert (H1 := Zceil_ub x).
    assert (H2 : (Zceil x <= 0)%Z) by (apply Zceil_glb; lra).
    apply IZR_le in H2. rewrite !Rabs_left1; lra.
Qed.

Lemma Ztrunc_diff_lt_1 : forall x, Rabs (x - IZR (Ztrunc x)) < 1.
Proof.
  intros x. destruct (Rle_or_lt 0 x) as [H|H].
  - rewrite Ztrunc_floor by exact H.
    assert (H1 := Zfloor_lb x). assert (H2 := Zfloor_ub x).
    apply Rabs_lt. lra.
  - rewrite Ztrunc_ceil by lra.
    assert (H1 := Zceil_ub x). assert (H2 := Zceil_lb x).
    apply Rabs_lt. lra.
Qed.

(** [x - trunc x] is representable *)
Lemma fmt_frac : forall x, fmt x -> fmt (x - IZR (Ztrunc x)).
Proof.
  intros x Hx.
  destruct (Z.eq_dec (Ztrunc x) 0) as [E|NE].
  - rewrite E. replace (x - 0) with x by ring. exact Hx.
  - unfold Rminus. apply generic_format_plus; auto with typeclass_instances.
    + apply generic_format_opp. now apply fmt_Ztrunc.
    + assert (H1 : 1 <= Rabs (IZR (Ztrunc x))).
      { rewrite <- abs_IZR. apply IZR_le. lia. }
      assert (H2 : 1 <= Rabs x).
      { apply Rle_trans with (1 := H1). apply Ztrunc_abs_le. }
      assert (M1 : (1 <= mag radix2 x)%Z).
      { apply mag_ge_bpow. simpl. exact H2. }
      assert (M2 : (1 <= mag radix2 (- IZR (Ztrunc x)))%Z).
      { apply mag_ge_bpow. simpl. rewrite Rabs_Ropp. exact H1. }
      apply Rle_trans with (bpow radix2 1).
      * simpl. generalize (Ztrunc_diff_lt_1 x). unfold Rminus. lra.
      * apply bpow_le. lia.
Qed.

(** [x % 1.0] on a finite float is exact *)
Lemma frem1_correct : forall x : f32, fin x ->
  fin (frem1 x) /\ R32 (frem1 x) = R32 x - IZR (Ztrunc (R32 x)).
Proof.
  intros x Fx.
  assert (Hr : let r := fsub x (of_Z (Btrunc x)) in
               fin r /\ R32 r = R32 x - IZR (Ztrunc (R32 x))).
  { cbv zeta. rewrite Btrunc_R.
    destruct (of_Z_fmt (Ztrunc (R32 x))) as [Vt Ft].
    - apply fmt_Ztrunc, fmt_R32.
    - apply Rle_lt_trans with (1 := Ztrunc_abs_le _). apply R32_lt_MAXF.
    - destruct (fsub_exact x (of_Z (Ztrunc (R32 x))) Fx Ft) as [V F].
      + rewrite Vt. apply fmt_frac, fmt_R32.
      + rewrite Vt. apply lt_MAXF. generalize (Ztrunc_diff_lt_1 (R32 x)). lra.
      + rewrite Vt in V. split; assumption. }
  destruct x as [s|s| |s m e H]; try discriminate Fx.
  - split; [reflexivity|]. unfold R32. simpl. rewrite Ztrunc_IZR. simpl. ring.
  - cbv zeta in Hr. unfold frem1.
    destruct (fsub (B754_finite s m e H) (of_Z (Btrunc (B754_finite s m e H))))
      as [s'|s'| |s' m' e' H'] eqn:E; exact Hr.
Qed.

(** ** the phase accumulator: tick, reset, set_frequency *)

Lemma land_mask24 : forall z, Z.land z 16777215 = (z mod 16777216)%Z.
Proof.
  intros z. change 16777215%Z with (Z.ones 24). rewrite Z.land_ones by lia. reflexivity.
Qed.

Lemma land_mask14 : forall z, Z.land z 16383 = (z mod 16384)%Z.
Proof.
  intros z. change 16383%Z with (Z.ones 14). rewrite Z.land_ones by lia. reflexivity.
Qed.

Lemma reset_zero : forall l, pa_acc (lfo_step l LReset) = 0%Z.
Proof. intros l. reflexivity. Qed.

Lemma set_frequency_no_jump : forall l f, pa_acc (lfo_step l (LSetFreq f)) = pa_acc l.
Proof. intros l f. reflexivity. Qed.

(** whatever the increment, a tick leaves a 24-bit value *)
Lemma tick_acc : forall l,
  pa_acc (lfo_step l LTick) = (((pa_acc l + pa_inc l) mod 4294967296) mod 16777216)%Z.
Proof.
  intros l. cbn [lfo_step]. unfold pa_tick. cbn [pa_acc]. rewrite mask_val.
  rewrite land_mask24. reflexivity.
Qed.

Lemma tick_exact : forall l, (0 <= pa_acc l < 16777216)%Z -> (0 <= pa_inc l <= 16777216)%Z ->
  pa_acc (lfo_step l LTick) = ((pa_acc l + pa_inc l) mod 16777216)%Z /\
  pa_inc (lfo_step l LTick) = pa_inc l /\ lfo_step_ok l LTick = true.
Proof.
  intros l Ha Hi. rewrite tick_acc.
  rewrite (Z.mod_small (pa_acc l + pa_inc l) 4294967296) by lia.
  repeat split.
  cbn [lfo_step_ok]. unfold pa_tick_ok, U32_MAX. apply Z.leb_le. lia.
Qed.

Lemma no_drift : forall l n, (0 <= pa_acc l < 16777216)%Z -> (0 <= pa_inc l <= 16777216)%Z ->
  pa_acc (fold_left lfo_step (repeat LTick n) l)
  = ((pa_acc l + Z.of_nat n * pa_inc l) mod 16777216)%Z.
Proof.
  intros l n. revert l. induction n as [|n IH]; intros l Ha Hi.
  - cbn [repeat fold_left]. rewrite Z.mod_small; [lia|lia].
  - cbn [repeat fold_left].
    destruct (tick_exact l Ha Hi) as [E1 [E2 _]].
    rewrite IH.
    + rewrite E1, E2. rewrite Z.add_mod_idemp_l by lia. f_equal. lia.
    + rewrite E1. apply Z.mod_pos_bound. lia.
    + rewrite E2. exact Hi.
Qed.

(** ** set_phase *)

Lemma fmul_nan_r : forall x : f32, fmul x B754_nan = B754_nan.
Proof. intros [s|s| |s m e H]; reflexivity. Qed.

Lemma set_phase_acc : forall l p,
  pa_acc (lfo_step l (LSetPhase p))
  = to_u32 (fmul (of_Z 16777215) (frem1 (if flt p f_0 then fmul p f_m1 else p))).
Proof. intros l p. reflexivity. Qed.

Lemma set_phase_nonfinite : forall l p, is_finite p = false ->
  pa_acc (lfo_step l (LSetPhase p)) = 0%Z.
Proof.
  intros l p Hp. rewrite set_phase_acc.
  destruct p as [s|s| |s m e H]; try discriminate Hp.
  - destruct s; vm_compute; reflexivity.
  - vm_compute; reflexivity.
Qed.

(** the argument made non-negative: |p|, exactly *)
Lemma set_phase_abs : forall p, fin p ->
  fin (if flt p f_0 then fmul p f_m1 else p) /\
  R32 (if flt p f_0 then fmul p f_m1 else p) = Rabs (R32 p).
Proof.
  intros p Fp. destruct (flt p f_0) eqn:E.
  - apply flt_true in E; [|exact Fp|exact fin_f_0]. rewrite R32_f_0 in E.
    assert (Ev : R32 p * R32 f_m1 = - R32 p) by (rewrite R32_f_m1; ring).
    destruct (fmul_exact p f_m1 Fp fin_f_m1) as [V F].
    + rewrite Ev. apply fmt_opp, fmt_R32.
    + rewrite Ev, Rabs_Ropp. apply R32_lt_MAXF.
    + split; [exact F|]. rewrite V, Ev. rewrite Rabs_left; lra.
  - apply flt_false in E; [|exact Fp|exact fin_f_0]. rewrite R32_f_0 in E.
    split; [exact Fp|]. rewrite Rabs_pos_eq; lra.
Qed.

Lemma set_phase_fin : forall l p, fin p ->
  let fr := Rabs (R32 p) - IZR (Zfloor (Rabs (R32 p))) in
  0 <= fr < 1 /\
  pa_acc (lfo_step l (LSetPhase p)) = Ztrunc (rnd (16777215 * fr)) /\
  0 <= rnd (16777215 * fr) <= 16777215.
Proof.
  intros l p Fp fr.
  assert (Hfr : 0 <= fr < 1).
  { unfold fr. generalize (Zfloor_lb (Rabs (R32 p))) (Zfloor_ub (Rabs (R32 p))). lra. }
  split; [exact Hfr|].
  rewrite set_phase_acc.
  destruct (set_phase_abs p Fp) as [Fph Vph].
  destruct (frem1_correct _ Fph) as [Ffr Vfr].
  rewrite Vph in Vfr. rewrite Ztrunc_floor in Vfr by apply Rabs_pos. fold fr in Vfr.
  destruct (fin_R32_of_Z_small 16777215) as [Vc Fc]; [lia|].
  assert (Hb : 0 <= rnd (16777215 * fr) <= 16777215).
  { apply rnd_bounds.
    - apply fmt_0.
    - apply (fmt_int 16777215). lia.
    - lra. }
  destruct (fmul_correct _ _ Fc Ffr) as [Vm Fm].
  { rewrite Vc, Vfr. apply lt_MAXF. apply Rabs_le. lra. }
  rewrite Vc, Vfr in Vm.
  split; [|exact Hb].
  rewrite to_u32_fin by exact Fm. rewrite Vm.
  assert (H1 : (Ztrunc (IZR 0) <= Ztrunc (rnd (16777215 * fr)))%Z) by (apply Ztrunc_le; lra).
  assert (H2 : (Ztrunc (rnd (16777215 * fr)) <= Ztrunc (IZR 16777215))%Z)
    by (apply Ztrunc_le; lra).
  rewrite Ztrunc_IZR in H1, H2. unfold U32_MAX. lia.
Qed.

Lemma set_phase_spec : forall l p, fin p ->
  let a := pa_acc (lfo_step l (LSetPhase p)) in
  let fr := Rabs (R32 p) - IZR (Zfloor (Rabs (R32 p))) in
  a = Ztrunc (rnd (16777215 * fr)) /\ (0 <= a < 16777216)%Z /\
  Rabs (IZR a / 16777216 - fr) <= / 4194304.
Proof.
  intros l p Fp a fr.
  destruct (set_phase_fin l p Fp) as [Hfr [Ea Hb]]. fold fr in Hfr, Ea, Hb. fold a in Ea.
  split; [exact Ea|].
  set (y := 16777215 * fr) in *.
  assert (Hfl : Ztrunc (rnd y) = Zfloor (rnd y)) by (apply Ztrunc_floor; lra).
  assert (L := Zfloor_lb (rnd y)). assert (U := Zfloor_ub (rnd y)).
  rewrite <- Hfl, <- Ea in L, U.
  assert (Ha : (0 <= a < 16777216)%Z).
  { split.
    - assert (H : (-1 < a)%Z) by (apply lt_IZR; lra). lia.
    - apply lt_IZR. lra. }
  split; [exact Ha|].
  destruct (rnd_error y) as [eps [eta [He [Ht Hr]]]].
  assert (Hye : Rabs (y * eps) <= 1).
  { rewrite Rabs_mult. rewrite (Rabs_pos_eq y) by (unfold y; lra).
    apply Rle_trans with (16777216 * / 16777216); [|lra].
    apply Rmult_le_compat; try apply Rabs_pos; unfold y; lra. }
  apply Rabs_le_inv in Hye. apply Rabs_le_inv in Ht.
  assert (Hd : -2 <= rnd y - y <= 2) by (rewrite Hr; lra).
  apply Rabs_le. unfold y in *. lra.
Qed.

(** ** reachable counter values *)

Lemma step_acc_range : forall l o, (0 <= pa_acc l < 16777216)%Z ->
  (0 <= pa_acc (lfo_step l o) < 16777216)%Z.
Proof.
  intros l o Ha. destruct o as [|f|p|].
  - rewrite tick_acc. apply Z.mod_pos_bound. lia.
  - rewrite set_frequency_no_jump. exact Ha.
  - destruct (is_finite p) eqn:Fp.
    + apply (set_phase_spec l p Fp).
    + rewrite set_phase_nonfinite by exact Fp. lia.
  - rewrite reset_zero. lia.
Qed.

Lemma lfo_acc_range : forall fs ops, (0 <= pa_acc (lfo_run fs ops) < 16777216)%Z.
Proof.
  intros fs ops. unfold lfo_run.
  assert (H0 : (0 <= pa_acc (lfo_new fs) < 16777216)%Z) by (cbn; lia).
  revert H0. generalize (lfo_new fs). induction ops as [|o ops IH]; intros l Hl.
  - exact Hl.
  - cbn [fold_left]. apply IH. now apply step_acc_range.
Qed.

(** ** exact waveforms *)

Lemma acc_R : forall a : Z, (0 <= a < 16777216)%Z -> 0 <= IZR a < 16777216.
Proof. intros a [H1 H2]. split; [apply (IZR_le 0)|apply (IZR_lt a 16777216)]; assumption. Qed.

(** ramp = acc / 2^24, exactly *)
Lemma ramp_exact : forall l, (0 <= pa_acc l < 16777216)%Z ->
  fin (pa_ramp LTOT l) /\ R32 (pa_ramp LTOT l) = IZR (pa_acc l) / 16777216.
Proof.
  intros l Ha. assert (Hr := acc_R _ Ha).
  unfold pa_ramp. rewrite two_tot_val.
  destruct (fin_R32_of_Z_small (pa_acc l)) as [Va Fa]; [lia|].
  destruct (fin_R32_of_Z_small 16777216) as [Vc Fc]; [lia|].
  destruct (fdiv_exact _ _ Fa Fc) as [V F].
  - rewrite Vc. lra.
  - rewrite Va, Vc. apply (fmt_div_pow2 _ 24); [lia|lia|reflexivity].
  - rewrite Va, Vc. apply lt_MAXF, Rabs_le. lra.
  - rewrite Va, Vc in V. split; assumption.
Qed.

Lemma upsaw_exact : forall l, (0 <= pa_acc l < 16777216)%Z ->
  fin (lfo_get l UpSaw) /\ R32 (lfo_get l UpSaw) = 2 * (IZR (pa_acc l) / 16777216) - 1.
Proof.
  intros l Ha. assert (Hr := acc_R _ Ha).
  destruct (ramp_exact l Ha) as [Fr Vr].
  cbn [lfo_get]. unfold lfo_upsaw.
  destruct (fmul_exact _ _ Fr fin_f_2) as [Vm Fm].
  - rewrite Vr, R32_f_2.
    replace (IZR (pa_acc l) / 16777216 * 2) with (IZR (pa_acc l) / IZR 8388608) by lra.
    apply (fmt_div_pow2 _ 23); [lia|lia|reflexivity].
  - rewrite Vr, R32_f_2. apply lt_MAXF, Rabs_le. lra.
  - rewrite Vr, R32_f_2 in Vm.
    destruct (fsub_exact _ _ Fm fin_f_1) as [Vs Fs].
    + rewrite Vm, R32_f_1.
      replace (IZR (pa_acc l) / 16777216 * 2 - 1)
        with (IZR (pa_acc l - 8388608) / IZR 8388608) by (rewrite minus_IZR; lra).
      apply (fmt_div_pow2 _ 23); [lia|lia|reflexivity].
    + rewrite Vm, R32_f_1. apply lt_MAXF, Rabs_le. lra.
    + split; [exact Fs|]. rewrite Vs, Vm, R32_f_1. lra.
Qed.

Lemma downsaw_exact : forall l, (0 <= pa_acc l < 16777216)%Z ->
  lfo_get l DownSaw = fneg (lfo_get l UpSaw) /\
  R32 (lfo_get l DownSaw) = 1 - 2 * (IZR (pa_acc l) / 16777216).
Proof.
  intros l Ha. split; [reflexivity|].
  destruct (upsaw_exact l Ha) as [_ V].
  change (lfo_get l DownSaw) with (fneg (lfo_get l UpSaw)).
  rewrite R32_fneg, V. lra.
Qed.

Lemma square_exact : forall l, (0 <= pa_acc l < 16777216)%Z ->
  lfo_get l Square = if (pa_acc l <? 8388608)%Z then f_1 else f_m1.
Proof.
  intros l Ha. assert (Hr := acc_R _ Ha).
  destruct (ramp_exact l Ha) as [Fr Vr].
  cbn [lfo_get].
  destruct (Z.ltb_spec (pa_acc l) 8388608) as [H|H].
  - apply IZR_lt in H.
    assert (E : flt (pa_ramp LTOT l) f_half = true).
    { apply flt_true; [exact Fr|exact fin_f_half|]. rewrite Vr, R32_f_half. lra. }
    rewrite E. reflexivity.
  - apply IZR_le in H.
    assert (E : flt (pa_ramp LTOT l) f_half = false).
    { apply flt_false; [exact Fr|exact fin_f_half|]. rewrite Vr, R32_f_half. lra. }
    rewrite E. reflexivity.
Qed.

Lemma triangle_exact : forall l, (0 <= pa_acc l < 16777216)%Z ->
  fin (lfo_get l Triangle) /\
  R32 (lfo_get l Triangle) =
    if (pa_acc l <? 4194304)%Z then 4 * (IZR (pa_acc l) / 16777216)
    else if (pa_acc l <? 12582912)%Z then 2 - 4 * (IZR (pa_acc l) / 16777216)
    else 4 * (IZR (pa_acc l) / 16777216) - 4.
Proof.
  intros l Ha. assert (Hr := acc_R _ Ha).
  destruct (ramp_exact l Ha) as [Fr Vr].
  cbn [lfo_get].
  destruct (fmul_exact _ _ Fr fin_f_4) as [Vm Fm].
  { rewrite Vr, R32_f_4.
    replace (IZR (pa_acc l) / 16777216 * 4) with (IZR (pa_acc l) / IZR 4194304) by lra.
    apply (fmt_div_pow2 _ 22); [lia|lia|reflexivity]. }
  { rewrite Vr, R32_f_4. apply lt_MAXF, Rabs_le. lra. }
  rewrite Vr, R32_f_4 in Vm.
  set (raw := fmul (pa_ramp LTOT l) f_4) in *.
  destruct (Z.ltb_spec (pa_acc l) 4194304) as [H1|H1].
  - apply IZR_lt in H1.
    assert (E : flt raw f_1 = true).
    { apply flt_true; [exact Fm|exact fin_f_1|]. rewrite Vm, R32_f_1. lra. }
    rewrite E. split; [exact Fm|]. rewrite Vm. lra.
  - apply IZR_le in H1.
    assert (E : flt raw f_1 = false).
    { apply flt_false; [exact Fm|exact fin_f_1|]. rewrite Vm, R32_f_1. lra. }
    rewrite E.
    destruct (Z.ltb_spec (pa_acc l) 12582912) as [H2|H2].
    + apply IZR_lt in H2.
      assert (E3 : flt raw f_3 = true).
      { apply flt_true; [exact Fm|exact fin_f_3|]. rewrite Vm, R32_f_3. lra. }
      rewrite E3.
      destruct (fsub_exact _ _ fin_f_2 Fm) as [Vs Fs].
      * rewrite Vm, R32_f_2.
        replace (2 - IZR (pa_acc l) / 16777216 * 4)
          with (IZR (8388608 - pa_acc l) / IZR 4194304) by (rewrite minus_IZR; lra).
        apply (fmt_div_pow2 _ 22); [lia|lia|reflexivity].
      * rewrite Vm, R32_f_2. apply lt_MAXF, Rabs_le. lra.
      * split; [exact Fs|]. rewrite Vs, Vm, R32_f_2. lra.
    + apply IZR_le in H2.
      assert (E3 : flt raw f_3 = false).
      { apply flt_false; [exact Fm|exact fin_f_3|]. rewrite Vm, R32_f_3. lra. }
      rewrite E3.
      destruct (fsub_exact _ _ Fm fin_f_4) as [Vs Fs].
      * rewrite Vm, R32_f_4.
        replace (IZR (pa_acc l) / 16777216 * 4 - 4)
          with (IZR (pa_acc l - 16777216) / IZR 4194304) by (rewrite minus_IZR; lra).
        apply (fmt_div_pow2 _ 22); [lia|lia|reflexivity].
      * rewrite Vm, R32_f_4. apply lt_MAXF, Rabs_le. lra.
      * split; [exact Fs|]. rewrite Vs, Vm, R32_f_4. lra.
Qed.

(** ** table indexing *)

Lemma sine_table_length : length sine_table = 1024%nat.
Proof. vm_compute; reflexivity. Qed.

Lemma index_range : forall l, (0 <= pa_acc l < 16777216)%Z ->
  pa_index LTOT LIDX l = (pa_acc l / 16384)%Z /\ (0 <= pa_index LTOT LIDX l < 1024)%Z.
Proof.
  intros l Ha. unfold pa_index. rewrite frac_bits_val.
  rewrite Z.shiftr_div_pow2 by lia. change (2 ^ 14)%Z with 16384%Z.
  split; [reflexivity|]. split.
  - apply Z.div_pos; lia.
  - apply Z.div_lt_upper_bound; lia.
Qed.

Lemma lfo_get_no_panic : forall l, (0 <= pa_acc l < 16777216)%Z -> lfo_get_ok l = true.
Proof.
  intros l Ha. destruct (index_range l Ha) as [_ Hi].
  unfold lfo_get_ok, tbl_ok. rewrite sine_table_length, LUT_val.
  set (i := pa_index LTOT LIDX l) in *.
  assert (Hj := Z.mod_pos_bound (i + 1) 1024 ltac:(lia)).
  change (Z.of_nat 1024) with 1024%Z.
  rewrite !andb_true_iff. repeat split;
    try (apply Z.leb_le; lia); apply Z.ltb_lt; lia.
Qed.

(** fraction = (acc mod 2^14) / 2^14, exactly, in [0, 1) *)
Lemma fraction_exact : forall l, (0 <= pa_acc l < 16777216)%Z ->
  fin (pa_fraction LTOT LIDX l) /\ 0 <= R32 (pa_fraction LTOT LIDX l) < 1.
Proof.
  intros l Ha. unfold pa_fraction. rewrite frac_bits_val.
  change (2 ^ 14)%Z with 16384%Z. change (16384 - 1)%Z with 16383%Z.
  rewrite land_mask14.
  assert (Hm := Z.mod_pos_bound (pa_acc l) 16384 ltac:(lia)).
  set (m := (pa_acc l mod 16384)%Z) in *.
  assert (Hr : 0 <= IZR m < 16384).
  { split; [apply (IZR_le 0)|apply (IZR_lt m 16384)]; lia. }
  destruct (fin_R32_of_Z_small m) as [Va Fa]; [lia|].
  destruct (fin_R32_of_Z_small 16384) as [Vc Fc]; [lia|].
  destruct (fdiv_exact _ _ Fa Fc) as [V F].
  - rewrite Vc. lra.
  - rewrite Va, Vc. apply (fmt_div_pow2 _ 14); [lia|lia|reflexivity].
  - rewrite Va, Vc. apply lt_MAXF, Rabs_le. lra.
  - rewrite Va, Vc in V. split; [exact F|]. rewrite V. lra.
Qed.

(** ** range of the interpolated sine *)

(** one f32 interpolation [y0 + (y1 - y0) * t] between table values in [-1, 1], for a
    fraction [t] in [0, 1]: no overflow, and the real value is three nested roundings *)
Lemma interp_value : forall y0 y1 t : f32, fin y0 -> fin y1 -> fin t ->
  -1 <= R32 y0 <= 1 -> -1 <= R32 y1 <= 1 -> 0 <= R32 t <= 1 ->
  fin (linear_interp y0 y1 t) /\
  R32 (linear_interp y0 y1 t) = rnd (R32 y0 + rnd (rnd (R32 y1 - R32 y0) * R32 t)).
Proof.
  intros y0 y1 t F0 F1 Ft B0 B1 Bt. unfold linear_interp.
  assert (f2 : fmt 2) by (apply (fmt_int 2); lia).
  assert (fm2 : fmt (-2)) by (apply (fmt_int (-2)); lia).
  assert (HD : -2 <= rnd (R32 y1 - R32 y0) <= 2) by (apply rnd_bounds; auto; lra).
  destruct (fsub_correct y1 y0 F1 F0) as [Vd Fd].
  { apply lt_MAXF, Rabs_le. lra. }
  set (D := rnd (R32 y1 - R32 y0)) in *.
  assert (HP : -2 <= rnd (D * R32 t) <= 2).
  { apply rnd_bounds; auto. split; nra. }
  destruct (fmul_correct _ t Fd Ft) as [Vp Fp].
  { rewrite Vd. apply lt_MAXF, Rabs_le. lra. }
  rewrite Vd in Vp.
  assert (f3 : fmt 3) by (apply (fmt_int 3); lia).
  assert (fm3 : fmt (-3)) by (apply (fmt_int (-3)); lia).
  assert (HS : -3 <= rnd (R32 y0 + rnd (D * R32 t)) <= 3) by (apply rnd_bounds; auto; lra).
  destruct (fadd_correct y0 _ F0 Fp) as [Vs Fs].
  { rewrite Vp. apply lt_MAXF, Rabs_le. lra. }
  rewrite Vp in Vs. split; assumption.
Qed.

(** monotonicity in the fraction: the value at [t] lies between the value at 0 (which is
    [y0]) and the value at 1 *)
Lemma interp_between : forall y0 y1 t : f32, fin y0 -> fin y1 -> fin t ->
  -1 <= R32 y0 <= 1 -> -1 <= R32 y1 <= 1 -> 0 <= R32 t <= 1 ->
  fin (linear_interp y0 y1 t) /\
  Rmin (R32 y0) (R32 (linear_interp y0 y1 f_1)) <= R32 (linear_interp y0 y1 t)
    <= Rmax (R32 y0) (R32 (linear_interp y0 y1 f_1)).
Proof.
  intros y0 y1 t F0 F1 Ft B0 B1 Bt.
  destruct (interp_value y0 y1 t F0 F1 Ft B0 B1 Bt) as [Fr Vr].
  destruct (interp_value y0 y1 f_1 F0 F1 fin_f_1 B0 B1) as [_ Ve].
  { rewrite R32_f_1. lra. }
  rewrite R32_f_1 in Ve.
  split; [exact Fr|]. rewrite Vr, Ve.
  set (D := rnd (R32 y1 - R32 y0)).
  set (F := fun s => rnd (R32 y0 + rnd (D * s))).
  assert (Hmono : forall u v, D * u <= D * v -> F u <= F v).
  { intros u v H. unfold F. apply rnd_le. apply Rplus_le_compat_l. now apply rnd_le. }
  assert (HF0 : F 0 = R32 y0).
  { unfold F. rewrite Rmult_0_r, rnd_0, Rplus_0_r. apply rnd_id, fmt_R32. }
  change (Rmin (R32 y0) (F 1) <= F (R32 t) <= Rmax (R32 y0) (F 1)).
  rewrite <- HF0.
  destruct (Rle_or_lt 0 D) as [HD|HD].
  - assert (H1 : F 0 <= F (R32 t)) by (apply Hmono; nra).
    assert (H2 : F (R32 t) <= F 1) by (apply Hmono; nra).
    generalize (Rmin_l (F 0) (F 1)) (Rmax_r (F 0) (F 1)). lra.
  - assert (H1 : F (R32 t) <= F 0) by (apply Hmono; nra).
    assert (H2 : F 1 <= F (R32 t)) by (apply Hmono; nra).
    generalize (Rmin_r (F 0) (F 1)) (Rmax_l (F 0) (F 1)). lra.
Qed.

(** the sweep: in every cell both end points and the interpolation at fraction 1 are
    finite and inside [-1, 1] *)
Definition in_unit (x : f32) : bool := is_finite x && fle f_m1 x && fle x f_1.

Definition cell_ok (t : list f32) (i : nat) : bool :=
  let y0 := nth i t f_0 in
  let y1 := nth (Z.to_nat ((Z.of_nat i + 1) mod 1024)) t f_0 in
  in_unit y0 && in_unit y1 && in_unit (linear_interp y0 y1 f_1).

Lemma sine_cells_ok : forallb (cell_ok sine_table) (seq 0 1024) = true.
Proof. vm_compute; reflexivity. Qed.

Lemma in_unit_spec : forall x, in_unit x = true -> fin x /\ -1 <= R32 x <= 1.
Proof.
  intros x H. unfold in_unit in H. rewrite !andb_true_iff in H.
  destruct H as [[Fx H1] H2]. split; [exact Fx|].
  apply fle_true in H1; [|exact fin_f_m1|exact Fx].
  apply fle_true in H2; [|exact Fx|exact fin_f_1].
  rewrite R32_f_m1 in H1. rewrite R32_f_1 in H2. lra.
Qed.

Lemma sine_range : forall l, (0 <= pa_acc l < 16777216)%Z ->
  fin (lfo_get l Sine) /\ -1 <= R32 (lfo_get l Sine) <= 1.
Proof.
  intros l Ha. destruct (index_range l Ha) as [_ Hi].
  destruct (fraction_exact l Ha) as [Ft Bt].
  cbn [lfo_get]. rewrite LUT_val.
  set (i := pa_index LTOT LIDX l) in *.
  assert (Hc : cell_ok sine_table (Z.to_nat i) = true).
  { apply (proj1 (forallb_forall _ _) sine_cells_ok). apply in_seq. lia. }
  unfold cell_ok in Hc. rewrite Z2Nat.id in Hc by lia.
  fold (tbl sine_table i) in Hc. fold (tbl sine_table ((i + 1) mod 1024)) in Hc.
  cbv zeta in Hc. rewrite !andb_true_iff in Hc. destruct Hc as [[H0 H1] He].
  apply in_unit_spec in H0, H1, He.
  destruct H0 as [F0 B0]. destruct H1 as [F1 B1]. destruct He as [_ Be].
  destruct (interp_between _ _ _ F0 F1 Ft B0 B1) as [Fr Br]; [lra|].
  split; [exact Fr|].
  set (y0 := tbl sine_table i) in *. set (y1 := tbl sine_table ((i + 1) mod 1024)) in *.
  revert Br. unfold Rmin, Rmax.
  destruct (Rle_dec (R32 y0) (R32 (linear_interp y0 y1 f_1))); lra.
Qed.

Lemma lfo_range : forall l w, (0 <= pa_acc l < 16777216)%Z ->
  fin (lfo_get l w) /\ -1 <= R32 (lfo_get l w) <= 1.
Proof.
  intros l w Ha. assert (Hr := acc_R _ Ha). destruct w.
  - now apply sine_range.
  - destruct (triangle_exact l Ha) as [F V]. split; [exact F|]. rewrite V.
    destruct (Z.ltb_spec (pa_acc l) 4194304) as [H1|H1].
    + apply IZR_lt in H1. lra.
    + apply IZR_le in H1. destruct (Z.ltb_spec (pa_acc l) 12582912) as [H2|H2].
      * apply IZR_lt in H2. lra.
      * apply IZR_le in H2. lra.
  - destruct (upsaw_exact l Ha) as [F V]. split; [exact F|]. rewrite V. lra.
  - destruct (upsaw_exact l Ha) as [F V]. destruct (downsaw_exact l Ha) as [E V'].
    split; [rewrite E; now apply fin_fneg|]. rewrite V'. lra.
  - rewrite (square_exact l Ha). destruct (pa_acc l <? 8388608)%Z.
    + split; [exact fin_f_1|]. rewrite R32_f_1. lra.
    + split; [exact fin_f_m1|]. rewrite R32_f_m1. lra.
Qed.

(** ** set_frequency: the increment *)

(** the increment is the truncation of the once-rounded quotient [2^24 f / fs] (the product
    [2^24 * f] is exact) *)
Lemma increment_value : forall l f, fin f -> fin (pa_fs l) ->
  100 <= R32 (pa_fs l) <= 192000 -> 0 <= R32 f <= R32 (pa_fs l) ->
  let X := 16777216 * R32 f / R32 (pa_fs l) in
  0 <= X <= 16777216 /\ 0 <= rnd X <= 16777216 /\
  pa_inc (lfo_step l (LSetFreq f)) = Zfloor (rnd X).
Proof.
  intros l f Ff Ffs Hfs Hf X.
  cbn [lfo_step]. unfold pa_set_frequency. cbn [pa_inc]. rewrite two_tot_val.
  set (fs := pa_fs l) in *.
  destruct (fin_R32_of_Z_small 16777216) as [Vc Fc]; [lia|].
  destruct (fmul_exact (of_Z 16777216) f Fc Ff) as [Vm Fm].
  { rewrite Vc. replace 16777216 with (bpow radix2 24) by (simpl; lra).
    apply fmt_scale; [lia|apply fmt_R32]. }
  { rewrite Vc. apply lt_MAXF, Rabs_le. lra. }
  rewrite Vc in Vm.
  assert (Hq : 0 <= R32 f / R32 fs <= 1).
  { split.
    - apply Rmult_le_reg_r with (R32 fs); [lra|].
      replace (R32 f / R32 fs * R32 fs) with (R32 f) by (field; lra). lra.
    - apply Rmult_le_reg_r with (R32 fs); [lra|].
      replace (R32 f / R32 fs * R32 fs) with (R32 f) by (field; lra). lra. }
  assert (EX : X = 16777216 * (R32 f / R32 fs)) by (unfold X; field; lra).
  assert (HX : 0 <= X <= 16777216) by (rewrite EX; lra).
  assert (HR : 0 <= rnd X <= 16777216).
  { apply rnd_bounds; [apply fmt_0|apply (fmt_int 16777216); lia|exact HX]. }
  destruct (fdiv_correct _ fs Fm Ffs) as [Vd Fd].
  { lra. }
  { rewrite Vm. fold X. apply lt_MAXF, Rabs_le. lra. }
  rewrite Vm in Vd. fold X in Vd.
  split; [exact HX|]. split; [exact HR|].
  rewrite to_u32_fin by exact Fd. rewrite Vd.
  assert (H1 : (Ztrunc (IZR 0) <= Ztrunc (rnd X))%Z) by (apply Ztrunc_le; lra).
  assert (H2 : (Ztrunc (rnd X) <= Ztrunc (IZR 16777216))%Z) by (apply Ztrunc_le; lra).
  rewrite Ztrunc_IZR in H1, H2.
  rewrite <- (Ztrunc_floor (rnd X)) by lra. unfold U32_MAX. lia.
Qed.

Lemma increment_bounds : forall l f, fin f -> fin (pa_fs l) ->
  100 <= R32 (pa_fs l) <= 192000 -> 0 <= R32 f <= R32 (pa_fs l) ->
  let inc := pa_inc (lfo_step l (LSetFreq f)) in
  let X := 16777216 * R32 f / R32 (pa_fs l) in
  (0 <= inc <= 16777216)%Z /\
  X * (1 - / 8388608) - 1 < IZR inc <= X * (1 + / 8388608).
Proof.
  intros l f Ff Ffs Hfs Hf inc X.
  destruct (increment_value l f Ff Ffs Hfs Hf) as [HX [HR Ei]].
  fold X in HX, HR, Ei. fold inc in Ei.
  assert (L := Zfloor_lb (rnd X)). assert (U := Zfloor_ub (rnd X)). rewrite <- Ei in L, U.
  split.
  - split.
    + assert (H : (-1 < inc)%Z) by (apply lt_IZR; lra). lia.
    + apply le_IZR. lra.
  - destruct (Rlt_or_le X (/ 2)) as [Hs|Hb].
    + (* below one half the increment is 0 *)
      assert (Hh : rnd X <= / 2).
      { rewrite <- (rnd_id (/ 2)).
        - apply rnd_le. lra.
        - replace (/ 2) with (bpow radix2 (-1)) by (simpl; lra). apply fmt_bpow. lia. }
      assert (E0 : inc = 0%Z).
      { rewrite Ei. apply Zfloor_imp. simpl. lra. }
      rewrite E0. lra.
    + (* otherwise the absolute error term is dominated by the relative one *)
      destruct (rnd_error X) as [eps [eta [He [Ht Hr]]]].
      assert (Hxe : Rabs (X * eps) <= X * / 16777216).
      { rewrite Rabs_mult. rewrite (Rabs_pos_eq X) by lra.
        apply Rmult_le_compat_l; lra. }
      apply Rabs_le_inv in Hxe. apply Rabs_le_inv in Ht.
      assert (Hd : - (X * / 8388608) <= rnd X - X <= X * / 8388608) by (rewrite Hr; lra).
      lra.
Qed.

Lemma realised_frequency : forall l f, fin f -> fin (pa_fs l) ->
  100 <= R32 (pa_fs l) <= 192000 -> 0 <= R32 f <= R32 (pa_fs l) ->
  let inc := pa_inc (lfo_step l (LSetFreq f)) in
  Rabs (IZR inc * R32 (pa_fs l) / 16777216 - R32 f)
    <= R32 (pa_fs l) / 16777216 + R32 f / 8388608.
Proof.
  intros l f Ff Ffs Hfs Hf inc.
  destruct (increment_bounds l f Ff Ffs Hfs Hf) as [_ HB]. fold inc in HB.
  set (fs := R32 (pa_fs l)) in *.
  set (X := 16777216 * R32 f / fs) in *.
  set (k := fs / 16777216).
  assert (Hk : 0 < k) by (unfold k; lra).
  assert (Ef : R32 f = k * X) by (unfold k, X; field; lra).
  replace (IZR inc * fs / 16777216) with (k * IZR inc) by (unfold k; field).
  replace (fs / 16777216) with k by reflexivity.
  rewrite Ef.
  assert (H1 : k * (X * (1 - / 8388608) - 1) <= k * IZR inc)
    by (apply Rmult_le_compat_l; lra).
  assert (H2 : k * IZR inc <= k * (X * (1 + / 8388608)))
    by (apply Rmult_le_compat_l; lra).
  apply Rabs_le. lra.
Qed.
