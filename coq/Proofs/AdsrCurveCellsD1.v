(** Curve bound for the decay table, cells 0 .. 255 (see AdsrCurveBase.v). *)
From Coq Require Import ZArith Reals List.
From SU Require Import F32.
From SU.gen Require Import Tables.
From SU.Spec Require Import AdsrSpec.
From SU.Proofs Require Import AdsrCurveBase.

Lemma decay_cells_0 : cells decay_cell 0 256.
Proof. unfold decay_cell. solve_cells. Qed.
