(** Byte-level histories (bytes, polls and mode changes in any order) are
    message-level histories: [lift] replaces every byte by the message it completes
    (if any) and keeps every other operation in place.  The byte-level run and the
    message-level run over the lifted history agree on every field except [r_parser]
    and return the same poll values, so the theorems of Props/C04.v and Props/C05.v
    (stated for message-level histories) apply to real byte-level histories. *)
From Coq Require Import ZArith Bool List Lia.
Import ListNotations.
From SU Require Import F32.
From SU.Model Require Import Midi.
From SU.Spec Require Import MidiSpec.
From SU.Proofs Require Import MidiParserProofs.
Open Scope Z_scope.

Fixpoint lift (st : pstate) (ops : list rx_op) : list mop :=
  match ops with
  | [] => []
  | RByte b :: r => let '(st', m) := parse_byte st b in
                    (match m with Some m => [OMsg m] | None => [] end) ++ lift st' r
  | RPollRise :: r => OPollRise :: lift st r
  | RPollFall :: r => OPollFall :: lift st r
  | RSetPrio p :: r => OSetPrio p :: lift st r
  | RSetRetrig b :: r => OSetRetrig b :: lift st r
  end.

(** the values returned by the polls of a run, in order *)
Fixpoint rx_polls (r : rx) (ops : list rx_op) : list bool :=
  match ops with
  | [] => []
  | o :: rest =>
      let '(r', out) := rx_step r o in
      (match out with Some b => [b] | None => [] end) ++ rx_polls r' rest
  end.

Fixpoint m_polls (r : rx) (h : list mop) : list bool :=
  match h with
  | [] => []
  | o :: rest =>
      let '(r', out) := mstep r o in
      (match out with Some b => [b] | None => [] end) ++ m_polls r' rest
  end.

Definition rx_run (r : rx) (ops : list rx_op) : rx := fold_left (fun r o => fst (rx_step r o)) ops r.

(** ** Unfolding lemmas *)

Definition obool (o : option bool) : list bool := match o with Some b => [b] | None => [] end.

Lemma rx_run_cons : forall r o ops, rx_run r (o :: ops) = rx_run (fst (rx_step r o)) ops.
Proof. reflexivity. Qed.

Lemma mrun_from_cons : forall r o h, mrun_from r (o :: h) = mrun_from (fst (mstep r o)) h.
Proof. reflexivity. Qed.

Lemma rx_polls_cons : forall r o ops,
  rx_polls r (o :: ops) = obool (snd (rx_step r o)) ++ rx_polls (fst (rx_step r o)) ops.
Proof. intros r o ops. cbn [rx_polls]. destruct (rx_step r o) as [r' out]. reflexivity. Qed.

Lemma m_polls_cons : forall r o h,
  m_polls r (o :: h) = obool (snd (mstep r o)) ++ m_polls (fst (mstep r o)) h.
Proof. intros r o h. cbn [m_polls]. destruct (mstep r o) as [r' out]. reflexivity. Qed.

(** ** Equality up to [r_parser] *)

Definition eqp (r r' : rx) : Prop := with_parser r Idle = with_parser r' Idle.

Lemma eqp_refl : forall r, eqp r r.
Proof. intro r. reflexivity. Qed.

Lemma eqp_with_parser : forall r r' p, eqp r r' -> eqp (with_parser r p) r'.
Proof. intros r r' p H. unfold eqp. rewrite with_parser_twice. exact H. Qed.

Lemma eqp_apply : forall r r' m, eqp r r' -> eqp (apply_msg r m) (apply_msg r' m).
Proof.
  intros r r' m H. unfold eqp in *. rewrite <- !apply_with_parser, H. reflexivity.
Qed.

Lemma eqp_rising : forall r r', eqp r r' -> r_rising r = r_rising r'.
Proof. intros r r' H. exact (f_equal r_rising H). Qed.

Lemma eqp_falling : forall r r', eqp r r' -> r_falling r = r_falling r'.
Proof. intros r r' H. exact (f_equal r_falling H). Qed.

Lemma eqp_held : forall r r', eqp r r' -> r_held r = r_held r'.
Proof. intros r r' H. exact (f_equal r_held H). Qed.

Lemma eqp_observe : forall r r', eqp r r' -> observe r = observe r'.
Proof.
  intros r r' H.
  rewrite <- (observe_with_parser r Idle), <- (observe_with_parser r' Idle), H. reflexivity.
Qed.

Lemma eqp_poll_rise : forall r r', eqp r r' ->
  eqp (snd (rx_rising_gate r)) (snd (rx_rising_gate r')).
Proof. intros r r' H. exact (f_equal (fun x => snd (rx_rising_gate x)) H). Qed.

Lemma eqp_poll_fall : forall r r', eqp r r' ->
  eqp (snd (rx_falling_gate r)) (snd (rx_falling_gate r')).
Proof. intros r r' H. exact (f_equal (fun x => snd (rx_falling_gate x)) H). Qed.

Lemma eqp_set_prio : forall r r' p, eqp r r' -> eqp (rx_set_prio r p) (rx_set_prio r' p).
Proof. intros r r' p H. exact (f_equal (fun x => rx_set_prio x p) H). Qed.

Lemma eqp_set_retrig : forall r r' b, eqp r r' -> eqp (rx_set_retrig r b) (rx_set_retrig r' b).
Proof. intros r r' b H. exact (f_equal (fun x => rx_set_retrig x b) H). Qed.

(** one byte: the parser state advances as in [parse_byte]; everything else moves as
    under the completed message, if any *)
Lemma rx_parse_parser : forall r b, r_parser (rx_parse r b) = fst (parse_byte (r_parser r) b).
Proof.
  intros r b. unfold rx_parse.
  destruct (parse_byte (r_parser r) b) as [p [m|]]; cbn [fst].
  - rewrite apply_with_parser. apply parser_with_parser.
  - apply parser_with_parser.
Qed.

Lemma rx_parse_eqp : forall r r' b, eqp r r' ->
  eqp (rx_parse r b)
      (match snd (parse_byte (r_parser r) b) with Some m => apply_msg r' m | None => r' end).
Proof.
  intros r r' b H. unfold rx_parse.
  destruct (parse_byte (r_parser r) b) as [p [m|]]; cbn [snd].
  - apply eqp_apply. apply eqp_with_parser. exact H.
  - apply eqp_with_parser. exact H.
Qed.

Lemma rx_poll_rise : forall r,
  rx_step r RPollRise = (snd (rx_rising_gate r), Some (r_rising r)).
Proof. reflexivity. Qed.

Lemma rx_poll_fall : forall r,
  rx_step r RPollFall = (snd (rx_falling_gate r), Some (r_falling r)).
Proof. reflexivity. Qed.

Lemma m_poll_rise : forall r,
  mstep r OPollRise = (snd (rx_rising_gate r), Some (r_rising r)).
Proof. reflexivity. Qed.

Lemma m_poll_fall : forall r,
  mstep r OPollFall = (snd (rx_falling_gate r), Some (r_falling r)).
Proof. reflexivity. Qed.

(** ** The lifting theorem *)

Lemma lift_gen : forall ops st r r', r_parser r = st -> eqp r r' ->
  eqp (rx_run r ops) (mrun_from r' (lift st ops))
  /\ rx_polls r ops = m_polls r' (lift st ops).
Proof.
  induction ops as [| o ops IH]; intros st r r' Hp He.
  - split; [ exact He | reflexivity ].
  - rewrite rx_run_cons, rx_polls_cons.
    destruct o as [b | | | p | b]; cbn [lift];
      [ cbn [rx_step fst snd obool app] | | | cbn [rx_step fst snd obool app] .. ].
    + (* a byte *)
      pose proof (rx_parse_parser r b) as Hp'.
      pose proof (rx_parse_eqp r r' b He) as He'.
      rewrite Hp in Hp', He'.
      destruct (parse_byte st b) as [st' [m|]]; cbn [fst snd app] in *.
      * rewrite mrun_from_cons, m_polls_cons. cbn [mstep fst snd obool app].
        apply IH; assumption.
      * apply IH; assumption.
    + (* rising_gate() *)
      rewrite mrun_from_cons, m_polls_cons, rx_poll_rise, m_poll_rise.
      cbn [fst snd obool app].
      rewrite (eqp_rising r r' He).
      destruct (IH st (snd (rx_rising_gate r)) (snd (rx_rising_gate r'))) as [H1 H2].
      * rewrite <- Hp. reflexivity.
      * apply eqp_poll_rise. exact He.
      * split; [ exact H1 | ]. f_equal. exact H2.
    + (* falling_gate() *)
      rewrite mrun_from_cons, m_polls_cons, rx_poll_fall, m_poll_fall.
      cbn [fst snd obool app].
      rewrite (eqp_falling r r' He).
      destruct (IH st (snd (rx_falling_gate r)) (snd (rx_falling_gate r'))) as [H1 H2].
      * rewrite <- Hp. reflexivity.
      * apply eqp_poll_fall. exact He.
      * split; [ exact H1 | ]. f_equal. exact H2.
    + (* set_note_priority *)
      rewrite mrun_from_cons, m_polls_cons. cbn [mstep fst snd obool app].
      apply IH; [ rewrite <- Hp; reflexivity | apply eqp_set_prio; exact He ].
    + (* set_retrigger_mode *)
      rewrite mrun_from_cons, m_polls_cons. cbn [mstep fst snd obool app].
      apply IH; [ rewrite <- Hp; reflexivity | apply eqp_set_retrig; exact He ].
Qed.

(** from any receiver state: the two runs agree on every field except [r_parser] *)
Theorem ops_lift_from : forall r ops,
  with_parser (rx_run r ops) Idle = with_parser (mrun_from r (lift (r_parser r) ops)) Idle
  /\ rx_polls r ops = m_polls r (lift (r_parser r) ops).
Proof. intros r ops. apply lift_gen; [ reflexivity | apply eqp_refl ]. Qed.

Theorem ops_lift : forall ch ops,
  observe (rx_run (rx_new ch) ops) = observe (mrun ch (lift Idle ops)) /\
  r_held (rx_run (rx_new ch) ops) = r_held (mrun ch (lift Idle ops)) /\
  rx_polls (rx_new ch) ops = m_polls (rx_new ch) (lift Idle ops).
Proof.
  intros ch ops. unfold mrun.
  destruct (lift_gen ops Idle (rx_new ch) (rx_new ch) eq_refl (eqp_refl _)) as [H1 H2].
  split; [ apply eqp_observe; exact H1 | ].
  split; [ apply eqp_held; exact H1 | exact H2 ].
Qed.

(** the remaining mode fields agree as well *)
Corollary ops_lift_modes : forall ch ops,
  r_channel (rx_run (rx_new ch) ops) = r_channel (mrun ch (lift Idle ops)) /\
  r_retrig (rx_run (rx_new ch) ops) = r_retrig (mrun ch (lift Idle ops)) /\
  r_prio (rx_run (rx_new ch) ops) = r_prio (mrun ch (lift Idle ops)).
Proof.
  intros ch ops. unfold mrun.
  destruct (lift_gen ops Idle (rx_new ch) (rx_new ch) eq_refl (eqp_refl _)) as [H1 _].
  split; [ exact (f_equal r_channel H1) | ].
  split; [ exact (f_equal r_retrig H1) | exact (f_equal r_prio H1) ].
Qed.

(** a history of bytes only lifts to the messages the parser completes *)
Lemma lift_bytes : forall bytes st,
  lift st (map RByte bytes) = map OMsg (parser_msgs st bytes).
Proof.
  induction bytes as [| b bs IH]; intro st; [ reflexivity | ].
  cbn [map lift parser_msgs].
  destruct (parse_byte st b) as [st' [m|]]; cbn [app map]; rewrite IH; reflexivity.
Qed.

Print Assumptions ops_lift.
Print Assumptions ops_lift_from.
