(** * AdsrTraceProofs: trace-level form of C01 (envelope shape and curve fidelity).

    Closes the gaps between the one-step lemmas of Props/C01.v and the property as it is
    quantified ("all sample rates x all parameter settings x all gate on/off schedules,
    including parameter changes at arbitrary tick offsets"):

    - Part 1: what parameter changes do to [synced] (time changes never break it; a
      sustain change breaks it exactly in Decay and Sustain, where the next tick repairs
      it; a RAISED sustain level during Decay makes the next output jump UP -- concrete
      witness [decay_sustain_raise_jumps_up]);
    - Part 2: which reachable states are synced (all of them outside Decay/Sustain; in
      Decay/Sustain unless the sustain level was changed since the last tick);
    - Part 3: [decay_above_sustain] and companions;
    - Part 4: the trace theorems [C01_trace_shape], [C01_trace_decay_monotone],
      [C01_trace_fidelity], [C01_trace_fidelity_span], whose only hypothesis is the
      property's own quantifier (a legal sample rate; any operation history with any
      f32 arguments);
    - Part 5: non-vacuity -- concrete reachable states in every phase. *)
From Coq Require Import ZArith Reals Lia Lra Psatz Bool List.
Import ListNotations.
From Flocq Require Import Core IEEE754.BinarySingleNaN.
From SU Require Import F32 F32Lemmas.
From SU.gen Require Import Consts.
From SU.Model Require Import Utils PhaseAcc Tables Adsr.
From SU.Spec Require Import AdsrSpec RunSpec.
From SU.Proofs Require Import ClampProofs AdsrClockProofs AdsrLevelProofs NoPanicProofs
  AdsrContinuityProofs.
From SU.Proofs Require AdsrCurveBase AdsrCurveProofs.
From Interval Require Import Tactic.
Open Scope R_scope.

(** * Part 0: reachable states satisfy the invariant and the increment bound *)

Lemma Inv_new : forall fs, Inv (adsr_new fs).
Proof. intros fs. split; [apply InvC_new | apply (RI_new fs)]. Qed.

Lemma Inv_run : forall fs ops, Inv (adsr_run fs ops).
Proof. intros fs ops. split; [apply adsr_inv_clock | apply adsr_inv_level]. Qed.

Lemma Inv_fold : forall ops s, Inv s -> Inv (fold_left adsr_step ops s).
Proof.
  induction ops as [|o ops IH]; intros s HI; cbn [fold_left].
  - exact HI.
  - apply IH, Inv_step, HI.
Qed.

Lemma inc_run : forall fs ops, fs_ok fs ->
  (4 <= adsr_inc (adsr_run fs ops) <= 4278190080)%Z.
Proof.
  intros fs ops Hfs. apply adsr_inc_bounds.
  - apply adsr_inv_clock.
  - rewrite run_fs. exact Hfs.
Qed.

Lemma run_snoc : forall fs ops o, adsr_run fs (ops ++ [o]) = adsr_step (adsr_run fs ops) o.
Proof. intros fs ops o. unfold adsr_run. rewrite fold_left_app. reflexivity. Qed.

Lemma run_app : forall fs pre post,
  adsr_run fs (pre ++ post) = fold_left adsr_step post (adsr_run fs pre).
Proof. intros fs pre post. unfold adsr_run. apply fold_left_app. Qed.

(** in Sustain and AtRest the counter is 0 (there is no "mid-cell" position there) *)
Lemma untimed_acc_zero : forall fs ops,
  let s := adsr_run fs ops in
  a_state s = Sustain \/ a_state s = AtRest -> pa_acc (a_pa s) = 0%Z.
Proof.
  intros fs ops s H. apply (inv_untimed_acc s (adsr_inv_clock fs ops)).
  destruct H as [H|H]; rewrite H; reflexivity.
Qed.

(** * Part 1: parameter changes and [synced] *)

(** the initial state is in sync *)
Lemma synced_new : forall fs, synced (adsr_new fs).
Proof.
  intros fs. unfold synced.
  destruct (RI_new fs) as [HV Ha].
  destruct (calc_R (adsr_new fs) HV Ha) as [_ V]. rewrite V.
  unfold calcR, adsr_new. cbn [a_state a_value]. exact R32_f0.
Qed.

(** a change of the attack, decay or release time never touches the output formula *)
Lemma synced_set_time : forall s t, synced s ->
  synced (adsr_step s (ASetAttack t)) /\
  synced (adsr_step s (ASetDecay t)) /\
  synced (adsr_step s (ASetRelease t)).
Proof. intros s t H. repeat split; exact H. Qed.

(** a change of the sustain level keeps the output in sync in every phase whose output
    formula does not mention it *)
Lemma synced_set_sustain : forall s x, synced s ->
  a_state s <> Decay -> a_state s <> Sustain ->
  synced (adsr_step s (ASetSustain x)).
Proof.
  intros s x H Hd Hs. unfold synced in *.
  unfold adsr_step, adsr_set, calc_value in *.
  cbn [a_state a_value a_von a_voff a_pa a_sustain].
  destruct (a_state s); try exact H; congruence.
Qed.

(** gate events that start a new segment re-establish sync whatever the state before *)
Lemma synced_fresh_attack : forall s, InvV s ->
  synced (mkAdsr (a_attack s) (a_decay s) (a_sustain s) (a_release s)
                 (pa_reset (a_pa s)) Attack (a_value s) (a_voff s) (a_value s)).
Proof.
  intros s [H1 H2 H3 H4].
  set (s2 := mkAdsr _ _ _ _ _ _ _ _ _).
  assert (HV2 : InvV s2) by (constructor; assumption).
  assert (Ha2 : acc_ok s2) by apply acc_ok_reset.
  destruct (calc_R s2 HV2 Ha2) as [_ V].
  unfold synced. rewrite V. unfold calcR, s2. cbn [a_state a_pa a_von a_value pa_reset pa_acc].
  cbv zeta. rewrite SA_0. symmetry. apply outR_zero, fmt_R32.
Qed.

Lemma synced_fresh_release : forall s, InvV s ->
  synced (mkAdsr (a_attack s) (a_decay s) (a_sustain s) (a_release s)
                 (pa_reset (a_pa s)) Release (a_von s) (a_value s) (a_value s)).
Proof.
  intros s [H1 H2 H3 H4].
  set (s2 := mkAdsr _ _ _ _ _ _ _ _ _).
  assert (HV2 : InvV s2) by (constructor; assumption).
  assert (Ha2 : acc_ok s2) by apply acc_ok_reset.
  destruct (calc_R s2 HV2 Ha2) as [_ V].
  unfold synced. rewrite V. unfold calcR, s2. cbn [a_state a_pa a_voff a_value pa_reset pa_acc].
  cbv zeta. rewrite SD_0. symmetry. apply outR_times_one, fmt_R32.
Qed.

Lemma synced_gate_on : forall s, Inv s -> (a_state s = Attack -> synced s) ->
  synced (adsr_step s AGateOn).
Proof.
  intros s [_ HV] H. unfold adsr_step, adsr_gate_on.
  destruct (a_state s) eqn:E; try (apply synced_fresh_attack, HV).
  apply H. reflexivity.
Qed.

Lemma synced_gate_off : forall s, Inv s ->
  (a_state s = Release \/ a_state s = AtRest -> synced s) ->
  synced (adsr_step s AGateOff).
Proof.
  intros s [_ HV] H. unfold adsr_step, adsr_gate_off.
  destruct (a_state s) eqn:E; try (apply synced_fresh_release, HV).
  - apply H. right. reflexivity.
  - apply H. left. reflexivity.
Qed.

Lemma synced_tick : forall s, synced (adsr_step s ATick).
Proof.
  intros s. unfold synced, adsr_step, adsr_tick. cbv zeta.
  rewrite a_value_wv, calc_value_wv. reflexivity.
Qed.

(** every operation except a sustain change keeps a synced state synced *)
Definition no_sustain_change (o : adsr_op) : Prop :=
  match o with ASetSustain _ => False | _ => True end.

Lemma synced_step_any : forall s o, Inv s -> synced s -> no_sustain_change o ->
  synced (adsr_step s o).
Proof.
  intros s o HI Hs Ho. destruct o; try contradiction.
  - apply synced_tick.
  - apply synced_gate_on; [exact HI | intros _; exact Hs].
  - apply synced_gate_off; [exact HI | intros _; exact Hs].
  - apply (synced_set_time s x Hs).
  - apply (synced_set_time s x Hs).
  - apply (synced_set_time s x Hs).
Qed.

Lemma synced_fold : forall ops s, Inv s -> synced s -> Forall no_sustain_change ops ->
  synced (fold_left adsr_step ops s).
Proof.
  induction ops as [|o ops IH]; intros s HI Hs Hf; cbn [fold_left].
  - exact Hs.
  - inversion Hf as [|o' l' Ho Hl]; subst.
    apply IH; [apply Inv_step, HI | apply synced_step_any; assumption | exact Hl].
Qed.

(** ** what a tick does in Decay, synced or not (used after a sustain change) *)

Lemma decay_tick_range : forall s, Inv s -> a_state s = Decay ->
  let s' := adsr_step s ATick in
  (a_state s' = Decay -> R32 (a_sustain s) <= R32 (a_value s') <= 1) /\
  (a_state s' <> Decay -> a_state s' = Sustain /\ R32 (a_value s') = R32 (a_sustain s)).
Proof.
  intros s HI Hst s'. subst s'.
  destruct (tick_view s HI) as (Est & Ev & Hsl & Ha1 & Hcase).
  rewrite Est, Ev.
  destruct HI as [HC HV]. destruct HV as [[_ Bs] _ _ _].
  destruct Hsl as (Es & _ & _ & _).
  destruct Hcase as [[E Hacc]|[E Hacc]]; try (rewrite Hst; reflexivity); rewrite Hst in E.
  - split; intros H; [|congruence].
    unfold calcR. rewrite E. cbv beta iota zeta. rewrite Es.
    apply (outR_range _ _ (fmt_R32 (a_sustain s)) Bs). apply (SD_in _ Ha1).
  - cbn [next_phase] in E. split; intros H; [congruence|].
    split; [exact E|]. unfold calcR. rewrite E. cbv beta iota zeta. rewrite Es. reflexivity.
Qed.

(** ** a sustain change during Sustain: the output keeps the OLD level until the next
    tick (so [synced] is lost whenever the level really changes), and the next tick
    outputs exactly the new level and is in sync again *)
Lemma sustain_change_in_sustain : forall s x, Inv s -> a_state s = Sustain ->
  let s1 := adsr_step s (ASetSustain x) in
  let s2 := adsr_step s1 ATick in
  a_state s1 = Sustain /\ a_value s1 = a_value s /\ a_sustain s1 = sustain_from x /\
  (synced s1 <-> R32 (a_value s) = R32 (sustain_from x)) /\
  a_state s2 = Sustain /\ R32 (a_value s2) = R32 (sustain_from x) /\ synced s2.
Proof.
  intros s x HI Hst s1 s2.
  assert (HI1 : Inv s1) by (apply Inv_step, HI).
  assert (Hst1 : a_state s1 = Sustain) by exact Hst.
  split; [exact Hst1|]. split; [reflexivity|]. split; [reflexivity|].
  split.
  - unfold synced.
    destruct (calc_R s1 (proj2 HI1) (inv_acc s1 (proj1 HI1))) as [_ V].
    rewrite V. unfold calcR. rewrite Hst1. reflexivity.
  - destruct (sustain_shape s1 HI1 Hst1) as [A B].
    split; [exact A|]. split; [exact B | apply synced_tick].
Qed.

(** ** a sustain change during Decay: the output keeps its value until the next tick;
    that tick is in sync again, lies between the NEW sustain level and 1, and equals the
    new level exactly if it ends the phase.  Nothing relates it to the previous output
    except the continuity bound of C03 (the change of the level is allowed as a jump). *)
Lemma sustain_change_in_decay : forall s x, Inv s -> a_state s = Decay ->
  let s1 := adsr_step s (ASetSustain x) in
  let s2 := adsr_step s1 ATick in
  a_state s1 = Decay /\ a_value s1 = a_value s /\ a_sustain s1 = sustain_from x /\
  synced s2 /\
  (a_state s2 = Decay -> R32 (sustain_from x) <= R32 (a_value s2) <= 1) /\
  (a_state s2 <> Decay -> a_state s2 = Sustain /\ R32 (a_value s2) = R32 (sustain_from x)).
Proof.
  intros s x HI Hst s1 s2.
  assert (HI1 : Inv s1) by (apply Inv_step, HI).
  assert (Hst1 : a_state s1 = Decay) by exact Hst.
  split; [exact Hst1|]. split; [reflexivity|]. split; [reflexivity|].
  split; [apply synced_tick|].
  exact (decay_tick_range s1 HI1 Hst1).
Qed.

(** ... and the size of that jump (C03 applied to the single event) *)
Lemma sustain_change_in_decay_step : forall s x, Inv s -> synced s -> a_state s = Decay ->
  fs_ok (pa_fs (a_pa s)) ->
  let s1 := adsr_step s (ASetSustain x) in
  let s2 := adsr_step s1 ATick in
  Rabs (R32 (a_value s2) - R32 (a_value s))
    <= 4.08 * Rmin 1 (IZR (adsr_inc s1) / 16777216)
       + Rabs (R32 (sustain_from x) - R32 (a_sustain s)) + 8 * / 16777216.
Proof.
  intros s x HI Hsy Hst Hfs s1 s2.
  assert (Hev : Forall is_event' [ASetSustain x]).
  { constructor; [discriminate | constructor]. }
  pose proof (step_bound s [ASetSustain x] HI Hsy Hev) as H.
  cbn [fold_left] in H. fold s1 in H.
  assert (Hinc : (adsr_inc s1 <= 4278190080)%Z).
  { apply adsr_inc_bounds; [apply InvC_step, HI | exact Hfs]. }
  specialize (H Hinc). fold s2 in H.
  assert (Hst1 : a_state s1 = Decay) by exact Hst.
  rewrite Hst1 in H. exact H.
Qed.

(** * Part 2: which reachable states are in sync *)

(** a state can be out of sync only in Decay or Sustain *)
Definition sync_or_ds (s : adsr) : Prop :=
  synced s \/ a_state s = Decay \/ a_state s = Sustain.

Lemma sync_or_ds_step : forall s o, Inv s -> sync_or_ds s -> sync_or_ds (adsr_step s o).
Proof.
  intros s o HI H. destruct o.
  - left. apply synced_tick.
  - left. apply synced_gate_on; [exact HI|]. intros E.
    destruct H as [H|[H|H]]; [exact H | congruence | congruence].
  - left. apply synced_gate_off; [exact HI|]. intros E.
    destruct H as [H|[H|H]]; [exact H | |]; destruct E; congruence.
  - destruct H as [H|H]; [left; apply (synced_set_time s x H) | right; exact H].
  - destruct H as [H|H]; [left; apply (synced_set_time s x H) | right; exact H].
  - destruct (a_state s) eqn:E.
    + left. destruct H as [H|[H|H]]; try congruence.
      apply synced_set_sustain; [exact H | congruence | congruence].
    + left. destruct H as [H|[H|H]]; try congruence.
      apply synced_set_sustain; [exact H | congruence | congruence].
    + right. left. exact E.
    + right. right. exact E.
    + left. destruct H as [H|[H|H]]; try congruence.
      apply synced_set_sustain; [exact H | congruence | congruence].
  - destruct H as [H|H]; [left; apply (synced_set_time s x H) | right; exact H].
Qed.

Lemma sync_or_ds_fold : forall ops s, Inv s -> sync_or_ds s ->
  sync_or_ds (fold_left adsr_step ops s).
Proof.
  induction ops as [|o ops IH]; intros s HI H; cbn [fold_left].
  - exact H.
  - apply IH; [apply Inv_step, HI | apply sync_or_ds_step; assumption].
Qed.

(** every reachable state outside Decay and Sustain is in sync -- whatever the history *)
Theorem synced_reachable : forall fs ops,
  let s := adsr_run fs ops in
  a_state s <> Decay -> a_state s <> Sustain -> synced s.
Proof.
  intros fs ops s Hd Hs.
  assert (H : sync_or_ds s).
  { apply sync_or_ds_fold; [apply Inv_new | left; apply synced_new]. }
  destruct H as [H|[H|H]]; [exact H | congruence | congruence].
Qed.

(** the state after the last operation [o] of a history is in sync if [o] is a tick or a
    gate event (always), a time change (if it was in sync before), or a sustain change
    outside Decay/Sustain *)
Theorem synced_run_last : forall fs ops o,
  match o with
  | ATick | AGateOn | AGateOff => True
  | ASetAttack _ | ASetDecay _ | ASetRelease _ => synced (adsr_run fs ops)
  | ASetSustain _ =>
      a_state (adsr_run fs ops) <> Decay /\ a_state (adsr_run fs ops) <> Sustain
  end -> synced (adsr_run fs (ops ++ [o])).
Proof.
  intros fs ops o H. rewrite run_snoc.
  pose proof (Inv_run fs ops) as HI.
  destruct o.
  - apply synced_tick.
  - apply synced_gate_on; [exact HI|]. intros E.
    apply synced_reachable; congruence.
  - apply synced_gate_off; [exact HI|]. intros E.
    apply synced_reachable; destruct E; congruence.
  - apply (synced_set_time _ x H).
  - apply (synced_set_time _ x H).
  - destruct H as [Hd Hs].
    apply synced_set_sustain; [apply synced_reachable; assumption | exact Hd | exact Hs].
  - apply (synced_set_time _ x H).
Qed.

(** in sync (in every phase) whenever the sustain level was not changed since the last
    tick -- or never *)
Theorem synced_run_after_tick : forall fs pre post, Forall no_sustain_change post ->
  synced (adsr_run fs (pre ++ ATick :: post)).
Proof.
  intros fs pre post Hf.
  replace (pre ++ ATick :: post) with ((pre ++ [ATick]) ++ post)
    by (rewrite <- app_assoc; reflexivity).
  rewrite run_app. apply synced_fold.
  - apply Inv_run.
  - rewrite run_snoc. apply synced_tick.
  - exact Hf.
Qed.

Theorem synced_run_from_new : forall fs ops, Forall no_sustain_change ops ->
  synced (adsr_run fs ops).
Proof.
  intros fs ops Hf. unfold adsr_run. apply synced_fold.
  - apply Inv_new.
  - apply synced_new.
  - exact Hf.
Qed.

(** * Part 3: where the output lies inside each phase *)

(** throughout Decay the output is at or above the sustain level (and at most 1); so the
    last decay tick, which outputs exactly the sustain level, is non-increasing too *)
Theorem decay_above_sustain : forall s, Inv s -> a_state s = Decay -> synced s ->
  R32 (a_sustain s) <= R32 (a_value s) <= 1.
Proof.
  intros s HI Hst Hsy. rewrite (synced_R s HI Hsy).
  destruct HI as [HC HV]. destruct (inv_sustain s HV) as [_ Bs].
  unfold calcR. rewrite Hst. cbv beta iota zeta.
  apply (outR_range _ _ (fmt_R32 (a_sustain s)) Bs).
  apply (SD_in _ (inv_acc s HC)).
Qed.

(** throughout Attack the output is at or above the level the attack started from *)
Theorem attack_above_start : forall s, Inv s -> a_state s = Attack -> synced s ->
  R32 (a_von s) <= R32 (a_value s) <= 1.
Proof.
  intros s HI Hst Hsy. rewrite (synced_R s HI Hsy).
  destruct HI as [HC HV]. destruct (inv_von s HV) as [_ Bs].
  unfold calcR. rewrite Hst. cbv beta iota zeta.
  apply (outR_range _ _ (fmt_R32 (a_von s)) Bs).
  apply (SA_in _ (inv_acc s HC)).
Qed.

(** throughout Release the output is at or below the level the release started from *)
Theorem release_below_start : forall s, Inv s -> a_state s = Release -> synced s ->
  0 <= R32 (a_value s) <= R32 (a_voff s).
Proof.
  intros s HI Hst Hsy. rewrite (synced_R s HI Hsy).
  destruct HI as [HC HV]. destruct (inv_voff s HV) as [_ Bs].
  unfold calcR. rewrite Hst. cbv beta iota zeta.
  apply (outR_rel _ _ (fmt_R32 (a_voff s)) Bs).
  apply (SD_in _ (inv_acc s HC)).
Qed.

(** * Part 4: the trace theorems *)

Lemma phase_eq_dec : forall a b : phase, {a = b} + {a <> b}.
Proof. decide equality. Qed.

(** For every legal sample rate and EVERY history of ticks, gate events and parameter
    changes (any f32 arguments, at any tick offsets): the next tick's output is a finite
    number in [0, 1], and
    - Attack: it does not decrease; the phase continues or ends in Decay at exactly 1.0;
    - Decay: it is at or above the current sustain level; it does not increase provided
      the state is in sync (see [synced_run_last], [synced_run_after_tick]: always, unless
      the sustain level was changed since the last tick); the phase continues or ends in
      Sustain at exactly the sustain level;
    - Sustain: exactly the sustain level;
    - Release: it does not increase; the phase continues or ends at rest at exactly 0.0;
    - at rest: exactly 0.0. *)
Theorem C01_trace_shape : forall fs ops, fs_ok fs ->
  let s := adsr_run fs ops in
  let s' := adsr_step s ATick in
  (fin (a_value s') /\ 0 <= R32 (a_value s') <= 1) /\
  (a_state s = Attack ->
     R32 (a_value s) <= R32 (a_value s') /\
     (a_state s' = Attack \/ (a_state s' = Decay /\ R32 (a_value s') = 1))) /\
  (a_state s = Decay ->
     R32 (a_sustain s) <= R32 (a_value s') /\
     (synced s -> R32 (a_value s') <= R32 (a_value s)) /\
     (a_state s' = Decay \/
      (a_state s' = Sustain /\ R32 (a_value s') = R32 (a_sustain s)))) /\
  (a_state s = Sustain ->
     a_state s' = Sustain /\ R32 (a_value s') = R32 (a_sustain s)) /\
  (a_state s = Release ->
     R32 (a_value s') <= R32 (a_value s) /\
     (a_state s' = Release \/ (a_state s' = AtRest /\ R32 (a_value s') = 0))) /\
  (a_state s = AtRest ->
     a_state s' = AtRest /\ R32 (a_value s') = 0).
Proof.
  intros fs ops Hfs s s'.
  pose proof (Inv_run fs ops) as HI. fold s in HI.
  pose proof (proj2 (inc_run fs ops Hfs)) as Hinc. fold s in Hinc.
  assert (HI' : Inv s') by (apply Inv_step, HI).
  destruct (inv_value s (proj2 HI)) as [_ Bv].
  destruct (inv_value s' (proj2 HI')) as [Fv' Bv'].
  split; [split; assumption|].
  split; [|split; [|split; [|split]]]; intros Hst.
  - (* Attack *)
    assert (Hsy : synced s) by (apply synced_reachable; fold s; congruence).
    destruct (attack_shape s HI Hinc Hst Hsy) as [A B]. fold s' in A, B.
    destruct (phase_eq_dec (a_state s') Attack) as [E|N].
    + split; [apply A, E | left; exact E].
    + destruct (B N) as [B1 B2]. split; [rewrite B2; lra | right; split; assumption].
  - (* Decay *)
    destruct (decay_tick_range s HI Hst) as [A B]. fold s' in A, B.
    destruct (phase_eq_dec (a_state s') Decay) as [E|N].
    + split; [apply A, E|]. split; [|left; exact E].
      intros Hsy. destruct (decay_shape s HI Hinc Hst Hsy) as [A2 _]. apply A2, E.
    + destruct (B N) as [B1 B2]. split; [rewrite B2; lra|].
      split; [|right; split; assumption].
      intros Hsy. rewrite B2. apply (decay_above_sustain s HI Hst Hsy).
  - (* Sustain *)
    exact (sustain_shape s HI Hst).
  - (* Release *)
    assert (Hsy : synced s) by (apply synced_reachable; fold s; congruence).
    destruct (release_shape s HI Hinc Hst Hsy) as [A B]. fold s' in A, B.
    destruct (phase_eq_dec (a_state s') Release) as [E|N].
    + split; [apply A, E | left; exact E].
    + destruct (B N) as [B1 B2]. split; [rewrite B2; lra | right; split; assumption].
  - (* AtRest *)
    exact (rest_shape s HI Hst).
Qed.

(** Decay is non-increasing from tick to tick, including the tick that ends it, for any
    history in which the sustain level is not changed between the two ticks (the other
    parameters, and the sustain level before the earlier tick, may change freely) *)
Theorem C01_trace_decay_monotone : forall fs pre post, fs_ok fs ->
  Forall no_sustain_change post ->
  let s := adsr_run fs (pre ++ ATick :: post) in
  let s' := adsr_step s ATick in
  a_state s = Decay ->
  R32 (a_sustain s) <= R32 (a_value s') <= R32 (a_value s).
Proof.
  intros fs pre post Hfs Hf s s' Hst.
  destruct (C01_trace_shape fs (pre ++ ATick :: post) Hfs) as (_ & _ & D & _).
  fold s in D. fold s' in D. destruct (D Hst) as (D1 & D2 & _).
  split; [exact D1|]. apply D2. apply synced_run_after_tick, Hf.
Qed.

(** ** fidelity to the documented RC curves *)

(** the span of the segment being traversed *)
Definition span (s : adsr) : R :=
  match a_state s with
  | Attack => 1 - R32 (a_von s)
  | Decay => 1 - R32 (a_sustain s)
  | Release => R32 (a_voff s)
  | Sustain | AtRest => 0
  end.

(** [AdsrCurveProofs.final_err] with the table error scaled by the span: the table is
    within 0.45 % of the curve, six roundings add at most [6 * 2^-21] ABSOLUTE *)
Lemma final_err_span : forall (c S v : f32) (a L rc : R), fin c -> fin S -> fin v ->
  0 <= a <= 1 -> 0 <= R32 c <= 1 -> Rabs (R32 c - a) <= AdsrCurveProofs.EPS ->
  0 <= L <= 1 -> Rabs (R32 S - L) <= 3 * AdsrCurveProofs.EPS ->
  Rabs (L - rc) <= AdsrCurveBase.CELL_TOL ->
  0 <= R32 v <= 1 ->
  Rabs (R32 (fadd (fmul c S) v) - (R32 v + a * rc)) <= 45 / 10000 * a + 6 / 2097152.
Proof.
  intros c S v a L rc Fc FS Fv Ha Bc Eca HL ESL ELr Bv.
  assert (He : 0 < AdsrCurveProofs.EPS <= / 1000) by (unfold AdsrCurveProofs.EPS; lra).
  assert (BS : -1 <= R32 S <= 2) by (apply Rabs_le_inv in ESL; lra).
  rewrite (AdsrCurveProofs.mac_val c S v Fc FS Fv Bc BS Bv).
  assert (E1 := AdsrCurveProofs.out_err a (R32 c) L (R32 S) (R32 v) Ha Bc Eca HL ESL Bv).
  apply Rabs_le_inv in E1, ELr. unfold AdsrCurveBase.CELL_TOL in ELr.
  assert (B : - (45 / 10000 * a) <= a * (L - rc) <= 45 / 10000 * a) by (split; nra).
  replace (rnd (rnd (R32 c * R32 S) + R32 v) - (R32 v + a * rc))
    with ((rnd (rnd (R32 c * R32 S) + R32 v) - (R32 v + a * L)) + a * (L - rc)) by ring.
  apply Rabs_le. unfold AdsrCurveProofs.EPS in *. lra.
Qed.

(** within a timed phase the output is within 0.45 % OF THE SEGMENT SPAN plus
    [6 * 2^-21 < 2.9e-6] (float rounding, independent of the span) of the documented curve *)
Lemma curve_fidelity_span : forall s, Inv s -> timed (a_state s) = true -> synced s ->
  Rabs (R32 (a_value s) - ideal s) <= 45 / 10000 * span s + 6 / 2097152.
Proof.
  intros s [HC HV] Ht Hs. unfold synced in Hs. rewrite Hs. clear Hs.
  assert (Ha := inv_acc s HC).
  destruct (inv_sustain s HV) as [Fsu Bsu].
  destruct (inv_von s HV) as [Fvo Bvo].
  destruct (inv_voff s HV) as [Fvf Bvf].
  unfold calc_value, ideal, pos, span.
  destruct (a_state s); try discriminate Ht.
  - (* Attack *)
    destruct (AdsrCurveProofs.sample_spec attack_table RC_attack (a_pa s)
                AdsrCurveProofs.attack_in01 AdsrCurveProofs.attack_length
                AdsrCurveProofs.attack_cells_all Ha) as [L [HL [ELr [FS ESL]]]].
    destruct (AdsrCurveProofs.coef_val (a_von s) Fvo Bvo) as [Fc [Bc Ec]].
    exact (final_err_span _ _ _ (1 - R32 (a_von s)) L _ Fc FS Fvo ltac:(lra) Bc Ec HL ESL ELr Bvo).
  - (* Decay *)
    destruct (AdsrCurveProofs.sample_spec decay_table RC_decay (a_pa s)
                AdsrCurveProofs.decay_in01 AdsrCurveProofs.decay_length
                AdsrCurveProofs.decay_cells_all Ha) as [L [HL [ELr [FS ESL]]]].
    destruct (AdsrCurveProofs.coef_val (a_sustain s) Fsu Bsu) as [Fc [Bc Ec]].
    exact (final_err_span _ _ _ (1 - R32 (a_sustain s)) L _ Fc FS Fsu ltac:(lra) Bc Ec HL ESL ELr Bsu).
  - (* Release *)
    destruct (AdsrCurveProofs.sample_spec decay_table RC_decay (a_pa s)
                AdsrCurveProofs.decay_in01 AdsrCurveProofs.decay_length
                AdsrCurveProofs.decay_cells_all Ha) as [L [HL [ELr [FS ESL]]]].
    replace (R32 (a_voff s) * RC_decay (IZR (pa_acc (a_pa s)) / 16777216))
      with (R32 f_0 + R32 (a_voff s) * RC_decay (IZR (pa_acc (a_pa s)) / 16777216))
      by (rewrite R32_f0; ring).
    apply (final_err_span (a_voff s) _ f_0 (R32 (a_voff s)) L _ Fvf FS fin_f0 Bvf Bvf);
      [ |exact HL|exact ESL|exact ELr| ].
    + replace (R32 (a_voff s) - R32 (a_voff s)) with 0 by ring.
      rewrite Rabs_R0. unfold AdsrCurveProofs.EPS. lra.
    + rewrite R32_f0. lra.
Qed.

(** For EVERY history and every sample rate: in a timed phase, the output of any reachable
    state that is in sync -- i.e. ALL reachable Attack and Release states, and the Decay
    states whose sustain level was not changed since the last tick -- is within 0.005
    (0.5 % of full scale) of the documented RC curve stretched over the segment, and
    within 0.45 % of the segment span + 2.9e-6 *)
Theorem C01_trace_fidelity_any : forall fs ops,
  let s := adsr_run fs ops in
  timed (a_state s) = true -> (a_state s = Decay -> synced s) ->
  Rabs (R32 (a_value s) - ideal s) <= 0.005 /\
  Rabs (R32 (a_value s) - ideal s) <= 45 / 10000 * span s + 6 / 2097152.
Proof.
  intros fs ops s Ht Hd.
  pose proof (Inv_run fs ops) as HI. fold s in HI.
  assert (Hsy : synced s).
  { destruct (phase_eq_dec (a_state s) Decay) as [E|N]; [exact (Hd E)|].
    apply synced_reachable; fold s; [exact N|].
    intros E. rewrite E in Ht. discriminate Ht. }
  split.
  - exact (AdsrCurveProofs.curve_fidelity s HI Ht Hsy).
  - exact (curve_fidelity_span s HI Ht Hsy).
Qed.

(** in particular right after every tick, in all three timed phases *)
Theorem C01_trace_fidelity : forall fs ops,
  let s := adsr_run fs (ops ++ [ATick]) in
  timed (a_state s) = true ->
  Rabs (R32 (a_value s) - ideal s) <= 0.005 /\
  Rabs (R32 (a_value s) - ideal s) <= 45 / 10000 * span s + 6 / 2097152.
Proof.
  intros fs ops s Ht. apply C01_trace_fidelity_any; [exact Ht|].
  intros _. apply (synced_run_last fs ops ATick I).
Qed.

(** "within 0.5 % of the segment span" holds literally for every segment whose span is at
    least 0.006 *)
Corollary C01_trace_fidelity_rel : forall fs ops,
  let s := adsr_run fs (ops ++ [ATick]) in
  timed (a_state s) = true -> 0.006 <= span s ->
  Rabs (R32 (a_value s) - ideal s) <= 0.005 * span s.
Proof.
  intros fs ops s Ht Hsp.
  destruct (C01_trace_fidelity fs ops Ht) as [_ H]. fold s in H. lra.
Qed.

(** * Part 5: non-vacuity -- concrete reachable states, and the two limits of the property *)

Definition FS1k : f32 := of_Z 1000.                     (* 1 kHz *)
Definition T100ms : f32 := of_bits 1036831949.          (* 0.1 s *)
Definition F025 : f32 := of_bits 1048576000.            (* 0.25 *)
Definition ALMOST1 : f32 := of_bits 1065353215.         (* 1 - 2^-24 *)

Lemma fs_ok_FS1k : fs_ok FS1k.
Proof.
  split; [apply fin_of_Z_small; lia|].
  unfold FS1k. rewrite R32_of_Z_small by lia. lra.
Qed.

Lemma flt_R : forall a b : f32, fin a -> fin b -> flt a b = true -> R32 a < R32 b.
Proof. intros a b Fa Fb H. apply (flt_true a b Fa Fb), H. Qed.

(** the facts every example shares: reachable => invariant and increment bound *)
Lemma ex_common : forall ops,
  Inv (adsr_run FS1k ops) /\ (adsr_inc (adsr_run FS1k ops) <= 4278190080)%Z.
Proof. intros ops. split; [apply Inv_run | apply (inc_run FS1k ops fs_ok_FS1k)]. Qed.

(** Attack, 3 ticks in: counter 503316 = 30 * 2^14 + 11796 (mid-cell); the next tick
    strictly raises the output *)
Example ex_attack_state :
  let s := adsr_run FS1k [ASetAttack T100ms; AGateOn; ATick; ATick; ATick] in
  a_state s = Attack /\ pa_acc (a_pa s) = 503316%Z /\
  Z.land (pa_acc (a_pa s)) 16383 = 11796%Z /\ adsr_inc s = 167772%Z /\
  to_bits (a_value s) = Some 1029328322%Z /\
  Inv s /\ synced s /\ (adsr_inc s <= 4278190080)%Z /\
  a_state (adsr_step s ATick) = Attack /\
  R32 (a_value s) < R32 (a_value (adsr_step s ATick)).
Proof.
  cbv zeta.
  set (ops := [ASetAttack T100ms; AGateOn; ATick; ATick; ATick]).
  destruct (ex_common ops) as [HI Hinc].
  split; [vm_compute; reflexivity|]. split; [vm_compute; reflexivity|].
  split; [vm_compute; reflexivity|]. split; [vm_compute; reflexivity|].
  split; [vm_compute; reflexivity|]. split; [exact HI|].
  split; [apply synced_reachable; vm_compute; discriminate|].
  split; [exact Hinc|]. split; [vm_compute; reflexivity|].
  apply flt_R.
  - apply (inv_value _ (proj2 HI)).
  - apply (inv_value _ (proj2 (Inv_step _ ATick HI))).
  - vm_compute. reflexivity.
Qed.

(** Decay towards 0.5, 3 ticks in (two ticks of the 1 ms attack first) *)
Example ex_decay_state :
  let s := adsr_run FS1k [ASetDecay T100ms; ASetSustain f_half; AGateOn;
                          ATick; ATick; ATick; ATick; ATick] in
  a_state s = Decay /\ pa_acc (a_pa s) = 503316%Z /\
  Z.land (pa_acc (a_pa s)) 16383 = 11796%Z /\ adsr_inc s = 167772%Z /\
  to_bits (a_value s) = Some 1064386062%Z /\ to_bits (a_sustain s) = Some 1056964608%Z /\
  Inv s /\ synced s /\ (adsr_inc s <= 4278190080)%Z /\
  a_state (adsr_step s ATick) = Decay /\
  R32 (a_value (adsr_step s ATick)) < R32 (a_value s).
Proof.
  cbv zeta.
  set (pre := [ASetDecay T100ms; ASetSustain f_half; AGateOn; ATick; ATick; ATick; ATick]).
  change [ASetDecay T100ms; ASetSustain f_half; AGateOn; ATick; ATick; ATick; ATick; ATick]
    with (pre ++ [ATick]).
  destruct (ex_common (pre ++ [ATick])) as [HI Hinc].
  split; [vm_compute; reflexivity|]. split; [vm_compute; reflexivity|].
  split; [vm_compute; reflexivity|]. split; [vm_compute; reflexivity|].
  split; [vm_compute; reflexivity|]. split; [vm_compute; reflexivity|].
  split; [exact HI|].
  split; [apply (synced_run_last FS1k pre ATick I)|].
  split; [exact Hinc|]. split; [vm_compute; reflexivity|].
  apply flt_R.
  - apply (inv_value _ (proj2 (Inv_step _ ATick HI))).
  - apply (inv_value _ (proj2 HI)).
  - vm_compute. reflexivity.
Qed.

(** Sustain at 0.5 (the counter is 0 in every reachable Sustain state, see
    [untimed_acc_zero]: there is no mid-cell position in this phase) *)
Example ex_sustain_state :
  let s := adsr_run FS1k [ASetSustain f_half; AGateOn; ATick; ATick; ATick; ATick; ATick] in
  a_state s = Sustain /\ pa_acc (a_pa s) = 0%Z /\
  to_bits (a_value s) = Some 1056964608%Z /\ to_bits (a_sustain s) = Some 1056964608%Z /\
  Inv s /\ synced s /\ (adsr_inc s <= 4278190080)%Z /\
  a_state (adsr_step s ATick) = Sustain /\
  R32 (a_value (adsr_step s ATick)) = R32 (a_sustain s).
Proof.
  cbv zeta.
  set (pre := [ASetSustain f_half; AGateOn; ATick; ATick; ATick; ATick]).
  change [ASetSustain f_half; AGateOn; ATick; ATick; ATick; ATick; ATick]
    with (pre ++ [ATick]).
  destruct (ex_common (pre ++ [ATick])) as [HI Hinc].
  split; [vm_compute; reflexivity|]. split; [vm_compute; reflexivity|].
  split; [vm_compute; reflexivity|]. split; [vm_compute; reflexivity|].
  split; [exact HI|].
  split; [apply (synced_run_last FS1k pre ATick I)|].
  split; [exact Hinc|].
  apply (sustain_shape _ HI). vm_compute. reflexivity.
Qed.

(** Release from 0.5, 3 ticks in *)
Example ex_release_state :
  let s := adsr_run FS1k [ASetRelease T100ms; ASetSustain f_half; AGateOn;
                          ATick; ATick; ATick; AGateOff; ATick; ATick; ATick] in
  a_state s = Release /\ pa_acc (a_pa s) = 503316%Z /\
  Z.land (pa_acc (a_pa s)) 16383 = 11796%Z /\ adsr_inc s = 167772%Z /\
  to_bits (a_value s) = Some 1055030299%Z /\ to_bits (a_voff s) = Some 1056964608%Z /\
  Inv s /\ synced s /\ (adsr_inc s <= 4278190080)%Z /\
  a_state (adsr_step s ATick) = Release /\
  R32 (a_value (adsr_step s ATick)) < R32 (a_value s).
Proof.
  cbv zeta.
  set (ops := [ASetRelease T100ms; ASetSustain f_half; AGateOn;
               ATick; ATick; ATick; AGateOff; ATick; ATick; ATick]).
  destruct (ex_common ops) as [HI Hinc].
  split; [vm_compute; reflexivity|]. split; [vm_compute; reflexivity|].
  split; [vm_compute; reflexivity|]. split; [vm_compute; reflexivity|].
  split; [vm_compute; reflexivity|]. split; [vm_compute; reflexivity|].
  split; [exact HI|].
  split; [apply synced_reachable; vm_compute; discriminate|].
  split; [exact Hinc|]. split; [vm_compute; reflexivity|].
  apply flt_R.
  - apply (inv_value _ (proj2 (Inv_step _ ATick HI))).
  - apply (inv_value _ (proj2 HI)).
  - vm_compute. reflexivity.
Qed.

(** ** Limit 1: "non-increasing during decay" is a statement about a FIXED sustain level.
    Witness: 50 ticks into a 0.1 s decay towards 0.25 (output 0.339..., in sync), the
    caller raises the sustain level to 1.0.  Until the next tick the output (0.339) is
    BELOW the new sustain level and out of sync; the next tick -- still in Decay -- outputs
    exactly 1.0: the output jumps UP by 0.66 (which C03's bound allows: it contains the
    change of the sustain level). *)
Definition raise_pre : list adsr_op :=
  [ASetDecay T100ms; ASetSustain F025; AGateOn; ATick; ATick] ++ repeat ATick 49.

Example decay_sustain_raise_jumps_up :
  let s := adsr_run FS1k (raise_pre ++ [ATick]) in
  let s1 := adsr_step s (ASetSustain f_1) in
  let s2 := adsr_step s1 ATick in
  a_state s = Decay /\ Inv s /\ synced s /\
  a_state s1 = Decay /\ ~ synced s1 /\ R32 (a_value s1) < R32 (a_sustain s1) /\
  a_state s2 = Decay /\
  R32 (a_value s) < 0.34 /\ R32 (a_value s2) = 1 /\ R32 (a_value s) < R32 (a_value s2).
Proof.
  cbv zeta.
  assert (HI : Inv (adsr_run FS1k (raise_pre ++ [ATick]))) by apply Inv_run.
  assert (Hsy : synced (adsr_run FS1k (raise_pre ++ [ATick])))
    by apply (synced_run_last FS1k raise_pre ATick I).
  assert (H0 : a_state (adsr_run FS1k (raise_pre ++ [ATick])) = Decay)
    by (vm_compute; reflexivity).
  assert (H2 : a_state (adsr_step (adsr_step (adsr_run FS1k (raise_pre ++ [ATick]))
                                             (ASetSustain f_1)) ATick) = Decay)
    by (vm_compute; reflexivity).
  assert (Ev : R32 (a_value (adsr_run FS1k (raise_pre ++ [ATick]))) < 0.34).
  { r32_const (a_value (adsr_run FS1k (raise_pre ++ [ATick]))). lra. }
  assert (Ev2 : R32 (a_value (adsr_step (adsr_step (adsr_run FS1k (raise_pre ++ [ATick]))
                                                   (ASetSustain f_1)) ATick)) = 1).
  { r32_const (a_value (adsr_step (adsr_step (adsr_run FS1k (raise_pre ++ [ATick]))
                                             (ASetSustain f_1)) ATick)). lra. }
  assert (Es1 : R32 (sustain_from f_1) = 1).
  { r32_const (sustain_from f_1). lra. }
  assert (Ec1 : R32 (calc_value (adsr_step (adsr_run FS1k (raise_pre ++ [ATick]))
                                           (ASetSustain f_1))) = 1).
  { r32_const (calc_value (adsr_step (adsr_run FS1k (raise_pre ++ [ATick]))
                                     (ASetSustain f_1))). lra. }
  (* from here on the state is abstract: no tactic may start evaluating it *)
  generalize dependent (adsr_run FS1k (raise_pre ++ [ATick])). intros s HI Hsy H0 H2 Ev Ev2 Ec1.
  assert (Ea : a_value (adsr_step s (ASetSustain f_1)) = a_value s) by reflexivity.
  assert (Eb : a_sustain (adsr_step s (ASetSustain f_1)) = sustain_from f_1) by reflexivity.
  assert (Ec : a_state (adsr_step s (ASetSustain f_1)) = a_state s) by reflexivity.
  split; [exact H0|]. split; [exact HI|]. split; [exact Hsy|].
  split; [rewrite Ec; exact H0|].
  split; [unfold synced; rewrite Ec1, Ea; lra|].
  split; [rewrite Ea, Eb, Es1; lra|].
  split; [exact H2|].
  split; [exact Ev|]. split; [exact Ev2|]. rewrite Ev2. lra.
Qed.

(** ** Limit 2: "within 0.5 % of the segment span" cannot hold for segments much shorter
    than the f32 resolution of the output.  Witness: decay from 1.0 towards the sustain
    level 1 - 2^-24 (span 2^-24, one ulp): half-way through the phase the output still
    equals the sustain level while the ideal curve is 11.9 % of the span above it.  The
    error is > 10 % of the span -- and 7e-9 in absolute terms, far inside both bounds of
    [C01_trace_fidelity]. *)
Definition tiny_pre : list adsr_op :=
  [ASetDecay T100ms; ASetSustain ALMOST1; AGateOn; ATick; ATick] ++ repeat ATick 49.

Example span_relative_fidelity_fails :
  let s := adsr_run FS1k (tiny_pre ++ [ATick]) in
  a_state s = Decay /\ Inv s /\ synced s /\ span s = / 16777216 /\
  0.1 * span s <= Rabs (R32 (a_value s) - ideal s).
Proof.
  cbv zeta.
  assert (HI : Inv (adsr_run FS1k (tiny_pre ++ [ATick]))) by apply Inv_run.
  assert (Hsy : synced (adsr_run FS1k (tiny_pre ++ [ATick])))
    by apply (synced_run_last FS1k tiny_pre ATick I).
  assert (Hst : a_state (adsr_run FS1k (tiny_pre ++ [ATick])) = Decay)
    by (vm_compute; reflexivity).
  assert (Hacc : pa_acc (a_pa (adsr_run FS1k (tiny_pre ++ [ATick]))) = 8388600%Z)
    by (vm_compute; reflexivity).
  assert (Ev : R32 (a_value (adsr_run FS1k (tiny_pre ++ [ATick]))) = 1 - / 16777216).
  { r32_const (a_value (adsr_run FS1k (tiny_pre ++ [ATick]))). lra. }
  assert (Es : R32 (a_sustain (adsr_run FS1k (tiny_pre ++ [ATick]))) = 1 - / 16777216).
  { r32_const (a_sustain (adsr_run FS1k (tiny_pre ++ [ATick]))). lra. }
  generalize dependent (adsr_run FS1k (tiny_pre ++ [ATick])). intros s HI Hsy Hst Hacc Ev Es.
  assert (Hrc : 0.1 <= RC_decay (8388600 / 16777216)).
  { unfold RC_decay. interval with (i_prec 40). }
  split; [exact Hst|]. split; [exact HI|]. split; [exact Hsy|].
  unfold span, ideal, pos. rewrite Hst, Hacc, Ev, Es.
  set (r := RC_decay (8388600 / 16777216)) in *.
  split; [lra|].
  replace (1 - / 16777216 - (1 - / 16777216 + (1 - (1 - / 16777216)) * r))
    with (- (/ 16777216 * r)) by ring.
  rewrite Rabs_Ropp, Rabs_pos_eq by nra. nra.
Qed.
