(** AdsrKillers: theorems closing the gaps found by mutation testing of Model/Adsr.v.

    The specifications of C02 ([adsr_inc], [C02_tick]) are phrased with the model's own
    [period_of], [timed] and [next_phase], and no theorem said which stored parameter an
    operation writes; so a model that times a phase with the wrong parameter, or in which
    an operation clobbers a parameter it should leave alone, was noticed (if at all) only
    by the concrete examples.  The theorems below state these facts with explicit
    right-hand sides. *)
From Coq Require Import ZArith Reals Lia Lra Bool List.
Import ListNotations.
From SU Require Import F32 F32Lemmas.
From SU.gen Require Import Consts.
From SU.Model Require Import Utils PhaseAcc Tables Adsr.
From SU.Spec Require Import AdsrSpec.
From SU.Proofs Require Import ClampProofs AdsrClockProofs.
Open Scope R_scope.

(** * 1. Frame: what every operation does to the four parameters and the sample rate *)

(** the configured time of each parameter / the sustain level is written by exactly one
    operation (with the clamped value) and left untouched by every other operation,
    including ticks and gate events *)
Theorem adsr_params_frame : forall s o,
  let s' := adsr_step s o in
  a_attack s' = match o with ASetAttack x => time_from x | _ => a_attack s end /\
  a_decay s' = match o with ASetDecay x => time_from x | _ => a_decay s end /\
  a_sustain s' = match o with ASetSustain x => sustain_from x | _ => a_sustain s end /\
  a_release s' = match o with ASetRelease x => time_from x | _ => a_release s end /\
  pa_fs (a_pa s') = pa_fs (a_pa s).
Proof.
  intros s o s'. subst s'. destruct o.
  - (* tick *)
    unfold adsr_step, adsr_tick. cbv zeta.
    destruct (timed (a_state s)) eqn:T.
    + rewrite (tick_advance_timed s T). cbv zeta.
      destruct (pa_rolled _); repeat split; reflexivity.
    + rewrite (tick_advance_untimed s T). repeat split; reflexivity.
  - unfold adsr_step, adsr_gate_on. destruct (a_state s); repeat split; reflexivity.
  - unfold adsr_step, adsr_gate_off. destruct (a_state s); repeat split; reflexivity.
  - repeat split; reflexivity.
  - repeat split; reflexivity.
  - repeat split; reflexivity.
  - repeat split; reflexivity.
Qed.

(** parameter changes touch nothing but their own parameter: the latched start levels and
    the output are kept as well (phase and counter: [set_input_spec]) *)
Theorem adsr_set_levels_frame : forall s o,
  match o with ATick | AGateOn | AGateOff => False | _ => True end ->
  let s' := adsr_step s o in
  a_von s' = a_von s /\ a_voff s' = a_voff s /\ a_value s' = a_value s.
Proof.
  intros s o H s'. subst s'. destruct o; try contradiction; repeat split; reflexivity.
Qed.

(** a parameter set with [set_input] is still in force at any later time unless it is set
    again: trace form of the frame theorem *)
Definition sets_attack (o : adsr_op) := match o with ASetAttack _ => True | _ => False end.
Definition sets_decay (o : adsr_op) := match o with ASetDecay _ => True | _ => False end.
Definition sets_sustain (o : adsr_op) := match o with ASetSustain _ => True | _ => False end.
Definition sets_release (o : adsr_op) := match o with ASetRelease _ => True | _ => False end.

Theorem adsr_params_persist : forall ops s,
  let s' := fold_left adsr_step ops s in
  (Forall (fun o => ~ sets_attack o) ops -> a_attack s' = a_attack s) /\
  (Forall (fun o => ~ sets_decay o) ops -> a_decay s' = a_decay s) /\
  (Forall (fun o => ~ sets_sustain o) ops -> a_sustain s' = a_sustain s) /\
  (Forall (fun o => ~ sets_release o) ops -> a_release s' = a_release s).
Proof.
  induction ops as [|o ops IH]; intros s s'; subst s'.
  - repeat split; reflexivity.
  - cbn [fold_left]. destruct (IH (adsr_step s o)) as (Ha & Hd & Hs & Hr).
    destruct (adsr_params_frame s o) as (Fa & Fd & Fs & Fr & _).
    repeat split; intros HF; inversion HF as [|? ? Ho Hrest]; subst.
    + rewrite (Ha Hrest), Fa. destruct o; try reflexivity. exfalso; apply Ho; exact I.
    + rewrite (Hd Hrest), Fd. destruct o; try reflexivity. exfalso; apply Ho; exact I.
    + rewrite (Hs Hrest), Fs. destruct o; try reflexivity. exfalso; apply Ho; exact I.
    + rewrite (Hr Hrest), Fr. destruct o; try reflexivity. exfalso; apply Ho; exact I.
Qed.

(** * 2. Each timed phase is clocked by its OWN configured time *)

(** the time in force in a phase, written out (not via the model's [period_of]) *)
Definition phase_time (s : adsr) : f32 :=
  match a_state s with
  | Attack => a_attack s
  | Decay => a_decay s
  | Release => a_release s
  | Sustain | AtRest => MIN_TIME
  end.

Theorem period_of_is_phase_time : forall s, period_of s = phase_time s.
Proof. intros s. reflexivity. Qed.

Theorem adsr_inc_is_phase_time : forall s,
  adsr_inc s = inc_of (pa_fs (a_pa s)) (phase_time s).
Proof. intros s. reflexivity. Qed.

(** a tick, with every model helper ([timed], [period_of], [next_phase]) written out:
    in attack / decay / release the counter advances by the increment of the attack /
    decay / release time in force now, and the phase moves on to decay / sustain / rest
    (counter reset) exactly when the sum reaches 2^24; sustain and rest persist *)
Theorem tick_explicit : forall s, InvC s -> fs_ok (pa_fs (a_pa s)) ->
  let s' := adsr_step s ATick in
  let fs := pa_fs (a_pa s) in
  let adv (t : f32) (nxt : phase) :=
    if (pa_acc (a_pa s) + inc_of fs t <? 16777216)%Z
    then a_state s' = a_state s /\ pa_acc (a_pa s') = (pa_acc (a_pa s) + inc_of fs t)%Z
    else a_state s' = nxt /\ pa_acc (a_pa s') = 0%Z in
  match a_state s with
  | Attack => adv (a_attack s) Decay
  | Decay => adv (a_decay s) Sustain
  | Release => adv (a_release s) AtRest
  | Sustain => a_state s' = Sustain /\ pa_acc (a_pa s') = 0%Z
  | AtRest => a_state s' = AtRest /\ pa_acc (a_pa s') = 0%Z
  end.
Proof.
  intros s I Hfs s' fs adv. subst s' fs adv.
  assert (Hinc : (adsr_inc s <= 4278190080)%Z).
  { destruct (increment_bounds (pa_fs (a_pa s)) (period_of s) Hfs (period_in s I)) as (_ & _ & H).
    exact H. }
  assert (T := tick_spec s I Hinc). cbv zeta in T.
  unfold adsr_inc, period_of in T.
  destruct (a_state s) eqn:E; cbn [timed next_phase] in T; cbv beta; exact T.
Qed.

(** * 3. A new envelope is at rest, and stays at rest with output 0.0 until the first gate-on *)

Theorem new_at_rest : forall fs,
  a_state (adsr_new fs) = AtRest /\ a_value (adsr_new fs) = f_0 /\
  pa_acc (a_pa (adsr_new fs)) = 0%Z /\ pa_fs (a_pa (adsr_new fs)) = fs.
Proof. intros fs. repeat split; reflexivity. Qed.

(** the documented defaults: "very fast times and 100% on sustain" *)
Theorem new_defaults : forall fs,
  a_attack (adsr_new fs) = MIN_TIME /\ a_decay (adsr_new fs) = MIN_TIME /\
  a_release (adsr_new fs) = MIN_TIME /\ a_sustain (adsr_new fs) = f_1 /\
  a_von (adsr_new fs) = f_0 /\ a_voff (adsr_new fs) = f_0.
Proof.
  intros fs. unfold adsr_new. cbn [a_attack a_decay a_release a_sustain a_von a_voff].
  assert (ET : time_from MIN_TIME = MIN_TIME).
  { destruct (time_clamp MIN_TIME) as (_ & _ & H & _). apply H; [exact fin_MIN_TIME|].
    split; [lra|exact MIN_le_MAX]. }
  assert (ES : sustain_from f_1 = f_1).
  { destruct (sustain_clamp f_1) as (_ & _ & H & _). apply H; [exact fin_f1|].
    rewrite R32_f1. lra. }
  rewrite ET, ES. repeat split; reflexivity.
Qed.

Lemma rest_step : forall s o, o <> AGateOn ->
  a_state s = AtRest -> R32 (a_value s) = 0 ->
  a_state (adsr_step s o) = AtRest /\ R32 (a_value (adsr_step s o)) = 0.
Proof.
  intros s o Ho E V. destruct o; try (split; [exact E | exact V]).
  - (* tick *)
    unfold adsr_step, adsr_tick.
    assert (T : timed (a_state s) = false) by (rewrite E; reflexivity).
    rewrite (tick_advance_untimed s T). cbv zeta.
    unfold with_value, calc_value. cbn [a_state a_value]. rewrite E.
    split; [reflexivity|]. vm_compute. reflexivity.
  - contradiction Ho; reflexivity.
  - unfold adsr_step, adsr_gate_off. rewrite E. split; [exact E|exact V].
Qed.

Theorem rest_until_gate_on : forall fs ops, ~ In AGateOn ops ->
  a_state (adsr_run fs ops) = AtRest /\ R32 (a_value (adsr_run fs ops)) = 0.
Proof.
  intros fs ops. unfold adsr_run.
  assert (H0 : a_state (adsr_new fs) = AtRest /\ R32 (a_value (adsr_new fs)) = 0).
  { split; [reflexivity|]. cbn [adsr_new a_value]. exact R32_f0. }
  revert H0. generalize (adsr_new fs). induction ops as [|o ops IH]; intros s (E & V) Hn.
  - split; assumption.
  - cbn [fold_left]. apply IH.
    + apply rest_step; [|exact E|exact V]. intros ->. apply Hn. left; reflexivity.
    + intros Hin. apply Hn. right; exact Hin.
Qed.
