(** Proofs of the quantizer properties C07 and C08 (statements in Props/C07.v, Props/C08.v).
    The integer search is in Proofs/QuantScan.v, the input path in Proofs/QuantFloat.v. *)
From Coq Require Import ZArith Bool List Reals Lra.
(* exported: the Example in Props/C08.v closes [valid_mask 8] with [lia] *)
From Coq Require Export Lia.
Import ListNotations.
From Flocq Require Import Core IEEE754.BinarySingleNaN.
From SU Require Import F32 F32Lemmas.
From SU.gen Require Import Consts.
From SU.Model Require Import Quantizer.
From SU.Spec Require Import QuantSpec.
From SU.Proofs Require Import QuantFloat QuantScan.
Open Scope Z_scope.

(** * Scale masks *)

Lemma note_new_range : forall n, 0 <= n -> 0 <= note_new n <= 11.
Proof. intros n H. unfold note_new. destruct (Z.leb_spec n 11); lia. Qed.

Lemma shiftl1_range : forall k, 0 <= k <= 11 -> 0 < Z.shiftl 1 k < 4096.
Proof.
  intros k Hk. rewrite Z.shiftl_1_l. split.
  - apply Z.pow_pos_nonneg; lia.
  - change 4096 with (2 ^ 12). apply Z.pow_lt_mono_r; lia.
Qed.

Lemma log2_lt_12 : forall a, 0 <= a < 4096 -> Z.log2 a < 12.
Proof.
  intros a Ha. destruct (Z.eq_dec a 0) as [->|Hne]; [reflexivity|].
  apply Z.log2_lt_pow2; [lia|]. change (2 ^ 12) with 4096. lia.
Qed.

Lemma lt_4096_of_log2 : forall a, 0 <= a -> Z.log2 a < 12 -> a < 4096.
Proof.
  intros a Ha Hl. destruct (Z.eq_dec a 0) as [->|Hne]; [lia|].
  change 4096 with (2 ^ 12). apply Z.log2_lt_pow2; lia.
Qed.

Lemma lor_valid : forall a b, valid_mask a -> 0 <= b < 4096 -> valid_mask (Z.lor a b).
Proof.
  intros a b [Ha0 Ha1] Hb. unfold valid_mask.
  assert (Hnn : 0 <= Z.lor a b) by (apply Z.lor_nonneg; lia).
  assert (Hnz : Z.lor a b <> 0) by (rewrite Z.lor_eq_0_iff; lia).
  split; [lia|]. apply lt_4096_of_log2; [exact Hnn|].
  rewrite Z.log2_lor by lia.
  pose proof (log2_lt_12 a ltac:(lia)). pose proof (log2_lt_12 b Hb). lia.
Qed.

Lemma land_range : forall a b, 0 <= a < 4096 -> 0 <= b -> 0 <= Z.land a b < 4096.
Proof.
  intros a b Ha Hb.
  assert (Hnn : 0 <= Z.land a b) by (apply Z.land_nonneg; lia).
  split; [exact Hnn|]. apply lt_4096_of_log2; [exact Hnn|].
  pose proof (Z.log2_land a b ltac:(lia) Hb). pose proof (log2_lt_12 a Ha). lia.
Qed.

Lemma allow_bits_valid : forall ns a,
  Forall (fun n => 0 <= n < 256) ns -> valid_mask a -> valid_mask (allow_bits a ns).
Proof.
  intros ns. unfold allow_bits. induction ns as [|n ns IH]; intros a Hns Ha.
  - exact Ha.
  - cbn [fold_left]. inversion Hns as [|? ? Hn Hns']; subst. apply IH; [exact Hns'|].
    apply lor_valid; [exact Ha|].
    pose proof (shiftl1_range (note_new n) (note_new_range n ltac:(lia))). lia.
Qed.

Lemma forbid_bits_range : forall ns a, 0 <= a < 4096 -> 0 <= forbid_bits a ns < 4096.
Proof.
  intros ns. unfold forbid_bits. induction ns as [|n ns IH]; intros a Ha.
  - exact Ha.
  - cbn [fold_left]. apply IH. apply land_range; [exact Ha|].
    apply Z.mod_pos_bound. reflexivity.
Qed.

Lemma skipn_last : forall (ns : list Z) d,
  ns <> [] -> skipn (length ns - 1) ns = [last ns d].
Proof.
  intros ns d. induction ns as [|x l IH]; intros Hne; [congruence|].
  destruct l as [|y l'].
  - reflexivity.
  - replace (length (x :: y :: l') - 1)%nat with (S (length (y :: l') - 1))%nat
      by (cbn [length]; lia).
    cbn [skipn]. rewrite IH by congruence. reflexivity.
Qed.

Lemma last_Forall : forall (P : Z -> Prop) ns d, Forall P ns -> P d -> P (last ns d).
Proof.
  intros P ns d H Hd. induction H as [|x l Hx Hl IH]; [exact Hd|].
  destruct l; [exact Hx|exact IH].
Qed.

Lemma forbid_nonempty : forall a ns, valid_mask a -> forbid_bits a ns = 0 -> ns <> [].
Proof. intros a ns [Ha _] H E. subst ns. unfold forbid_bits in H. cbn [fold_left] in H. lia. Qed.

Lemma forbid_keeps_last_gen : forall q ns,
  valid_mask (q_allowed q) -> forbid_bits (q_allowed q) ns = 0 ->
  q_allowed (quant_forbid q ns) = Z.shiftl 1 (note_new (last ns 0)).
Proof.
  intros q ns Hq H0. unfold quant_forbid. rewrite H0. cbn [Z.eqb q_allowed].
  rewrite (skipn_last ns 0) by (eapply forbid_nonempty; eassumption).
  unfold allow_bits. cbn [fold_left]. apply Z.lor_0_l.
Qed.

Lemma convert_keeps_mask : forall q v, q_allowed (fst (convert q v)) = q_allowed q.
Proof. intros q v. unfold convert. cbv zeta. destruct (_ && _); reflexivity. Qed.

Lemma step_valid : forall q o,
  wf_op o -> valid_mask (q_allowed q) -> valid_mask (q_allowed (quant_step q o)).
Proof.
  intros q [ns|ns|v] Hwf Hq; cbn [quant_step wf_op] in *.
  - unfold quant_allow. cbn [q_allowed]. now apply allow_bits_valid.
  - destruct (Z.eq_dec (forbid_bits (q_allowed q) ns) 0) as [E|E].
    + rewrite (forbid_keeps_last_gen q ns Hq E).
      assert (Hl : 0 <= last ns 0 < 256) by (apply last_Forall; [exact Hwf|lia]).
      pose proof (shiftl1_range _ (note_new_range (last ns 0) ltac:(lia))).
      unfold valid_mask. lia.
    + unfold quant_forbid. destruct (Z.eqb_spec (forbid_bits (q_allowed q) ns) 0) as [E'|_];
        [contradiction|]. cbn [q_allowed].
      pose proof (forbid_bits_range ns (q_allowed q)) as Hr. unfold valid_mask in *. lia.
  - rewrite convert_keeps_mask. exact Hq.
Qed.

Lemma run_valid : forall ops q,
  wf_ops ops -> valid_mask (q_allowed q) -> valid_mask (q_allowed (fold_left quant_step ops q)).
Proof.
  intros ops. induction ops as [|o ops IH]; intros q Hwf Hq.
  - exact Hq.
  - inversion Hwf as [|? ? Ho Hops]; subst. cbn [fold_left]. apply IH; [exact Hops|].
    now apply step_valid.
Qed.

Lemma mask_invariant : forall ops, wf_ops ops -> valid_mask (q_allowed (qrun ops)).
Proof.
  intros ops Hwf. unfold qrun. apply run_valid; [exact Hwf|].
  unfold valid_mask. cbn [quant_new q_allowed]. lia.
Qed.

Lemma forbid_keeps_last : forall ops ns,
  wf_ops ops -> u8_notes ns ->
  let q := qrun ops in
  forbid_bits (q_allowed q) ns = 0 ->
  q_allowed (quant_forbid q ns) = Z.shiftl 1 (note_new (last ns 0)).
Proof.
  intros ops ns Hwf _ q H0. apply forbid_keeps_last_gen; [|exact H0].
  now apply mask_invariant.
Qed.

Lemma quant_no_panic : forall ops o, wf_ops ops -> wf_op o -> quant_step_ok (qrun ops) o = true.
Proof.
  intros ops [ns|ns|v] Hwf _; cbn [quant_step_ok]; try reflexivity.
  unfold quant_forbid_ok.
  destruct (Z.eqb_spec (forbid_bits (q_allowed (qrun ops)) ns) 0) as [E|_]; [|reflexivity].
  pose proof (forbid_nonempty _ ns (mask_invariant ops Hwf) E) as Hne.
  destruct ns; [congruence|reflexivity].
Qed.

(** * The search (C08) *)

Lemma nearest_correct : forall a v,
  valid_mask a ->
  let vin := vin_microvolts (clamp_vin v) in
  let uv := find_nearest_uv a vin in
  0 <= vin <= 10000000 /\
  nearest_spec a vin (uv / HALF) /\ uv = cand (uv / HALF) /\
  find_nearest_note a (clamp_vin v) = uv / HALF.
Proof.
  intros a v Ha vin uv.
  assert (Hv : 0 <= vin <= 10000000) by apply vin_range.
  destruct (search_correct a vin Ha Hv) as [S [E R]]. fold uv in S, E, R.
  split; [exact Hv|]. split; [exact S|]. split; [exact E|].
  unfold find_nearest_note. fold vin. fold uv. apply Z.mod_small. lia.
Qed.

(** ** lifting monotonicity through the float input path *)

Lemma fle_nan_l : forall y : f32, fle B754_nan y = false.
Proof. intros y. reflexivity. Qed.

Lemma fle_nan_r : forall x : f32, fle x B754_nan = false.
Proof. intros [s|s| |s m e h]; reflexivity. Qed.

Lemma fle_pinf_l : forall y : f32, fle (B754_infinity false) y = true -> y = B754_infinity false.
Proof. intros [[|]|[|]| |s m e h] H; try reflexivity; discriminate H. Qed.

Lemma fle_fin_ninf : forall x : f32, fin x -> fle x (B754_infinity true) = false.
Proof. intros [s|s| |s m e h] F; try discriminate F; reflexivity. Qed.

Lemma V_le : (R32 f_0 <= R32 V_MAX)%R.
Proof. rewrite R32_f_0, R32_V_MAX. lra. Qed.

Lemma clamp_vin_fin : forall x : f32, fin x ->
  R32 (clamp_vin x) = Rmin (Rmax (R32 x) 0) 10.
Proof.
  intros x Fx. unfold clamp_vin.
  destruct (fmax_fin x f_0 Fx fin_f_0) as [F1 V1].
  destruct (fmin_fin (fmax x f_0) V_MAX F1 fin_V_MAX) as [_ V2].
  rewrite V2, V1, R32_f_0, R32_V_MAX. reflexivity.
Qed.

Lemma clamp_vin_mono : forall x y : f32, fle x y = true ->
  (R32 (clamp_vin x) <= R32 (clamp_vin y))%R.
Proof.
  intros x y Hle.
  destruct (clamp_vin_range x) as [_ Bx]. destruct (clamp_vin_range y) as [_ By].
  destruct (clamp_maxmin x f_0 V_MAX fin_f_0 fin_V_MAX V_le) as [_ [_ [_ [_ [_ [_ [Xn Xp]]]]]]].
  destruct (clamp_maxmin y f_0 V_MAX fin_f_0 fin_V_MAX V_le) as [_ [_ [_ [_ [_ [_ [Yn Yp]]]]]]].
  fold (clamp_vin x) in Xn, Xp. fold (clamp_vin y) in Yn, Yp.
  destruct (f32_cases x) as [Ex|[[sx Ex]|Fx]].
  - subst x. rewrite fle_nan_l in Hle. discriminate Hle.
  - destruct sx.
    + rewrite (Xn Ex), R32_f_0. lra.
    + subst x. apply fle_pinf_l in Hle. subst y. lra.
  - destruct (f32_cases y) as [Ey|[[sy Ey]|Fy]].
    + subst y. rewrite fle_nan_r in Hle. discriminate Hle.
    + destruct sy.
      * subst y. rewrite (fle_fin_ninf x Fx) in Hle. discriminate Hle.
      * rewrite (Yp Ey), R32_V_MAX. lra.
    + apply fle_true in Hle; try assumption.
      rewrite (clamp_vin_fin x Fx), (clamp_vin_fin y Fy).
      unfold Rmin, Rmax.
      destruct (Rle_dec (R32 x) 0), (Rle_dec (R32 y) 0);
        repeat match goal with |- context [Rle_dec ?a ?b] => destruct (Rle_dec a b) end; lra.
Qed.

Lemma nearest_note_mono : forall a x y,
  valid_mask a -> fle x y = true ->
  find_nearest_note a (clamp_vin x) <= find_nearest_note a (clamp_vin y).
Proof.
  intros a x y Ha Hle.
  destruct (nearest_correct a x Ha) as [Hx [_ [_ Ex]]].
  destruct (nearest_correct a y Ha) as [Hy [_ [_ Ey]]].
  cbv zeta in Ex, Ey, Hx, Hy. rewrite Ex, Ey.
  apply find_nearest_mono; try lia; try exact Ha.
  destruct (clamp_vin_range x) as [Fx Bx]. destruct (clamp_vin_range y) as [Fy By].
  apply vin_microvolts_mono; try assumption. now apply clamp_vin_mono.
Qed.

(** ** a fresh quantizer has no hysteresis window *)

Lemma flt_asym : forall a b : f32, flt a b && flt b a = false.
Proof.
  intros a b.
  destruct (f32_cases a) as [Ea|[[sa Ea]|Fa]].
  - subst a. rewrite flt_nan_l. reflexivity.
  - destruct (f32_cases b) as [Eb|[[sb Eb]|Fb]].
    + subst b. rewrite flt_nan_l. apply andb_false_r.
    + subst a b. destruct sa, sb; reflexivity.
    + subst a. rewrite flt_inf_l, flt_inf_r by assumption. destruct sa; reflexivity.
  - destruct (f32_cases b) as [Eb|[[sb Eb]|Fb]].
    + subst b. rewrite flt_nan_l. apply andb_false_r.
    + subst b. rewrite flt_inf_l, flt_inf_r by assumption. destruct sb; reflexivity.
    + destruct (flt a b) eqn:E1; [|reflexivity]. destruct (flt b a) eqn:E2; [|reflexivity].
      apply flt_true in E1; try assumption. apply flt_true in E2; try assumption. lra.
Qed.

Lemma flt_B2SF_r : forall a b c : f32, B2SF b = B2SF c -> flt a b = flt a c.
Proof. intros a b c H. unfold flt, Bltb. rewrite H. reflexivity. Qed.

Lemma in_window_fresh : forall v, in_window conv_new v = false.
Proof.
  intros v.
  change (in_window conv_new v)
    with (flt (fsub f_MIN HYST) v && flt v (fadd (fadd f_MIN SEMITONE) HYST)).
  rewrite (flt_B2SF_r v (fadd (fadd f_MIN SEMITONE) HYST) (fsub f_MIN HYST))
    by (vm_compute; reflexivity).
  apply flt_asym.
Qed.

Lemma fresh_is_memoryless : forall a v,
  let c := snd (convert (mkQuant conv_new a) v) in
  c_note c = find_nearest_note a (clamp_vin v).
Proof.
  intros a v c. subst c. unfold convert. cbn [q_cached q_allowed].
  rewrite in_window_fresh, andb_false_r. reflexivity.
Qed.

(** * No forbidden note (C07) *)

Lemma convert_note_allowed_gen : forall q v,
  valid_mask (q_allowed q) ->
  note_allowed (q_allowed q) (c_note (snd (convert q v))) = true.
Proof.
  intros q v Hq. unfold convert. cbv zeta.
  destruct (bit_allowed (q_allowed q) (note_new (c_note (q_cached q) mod 12))
            && in_window (q_cached q) (clamp_vin v)) eqn:G; cbn [snd c_note].
  - apply andb_prop in G. destruct G as [G _]. unfold note_allowed.
    unfold note_new in G.
    destruct (Z.leb_spec (c_note (q_cached q) mod 12) 11) as [_|Hgt]; [exact G|].
    exfalso. pose proof (Z.mod_pos_bound (c_note (q_cached q)) 12 ltac:(lia)). lia.
  - destruct (nearest_correct (q_allowed q) v Hq) as [_ [[_ [Hal _]] [_ E]]].
    cbv zeta in E, Hal. rewrite E. exact Hal.
Qed.

Lemma convert_note_allowed : forall ops v,
  wf_ops ops ->
  let q := qrun ops in
  note_allowed (q_allowed q) (c_note (snd (convert q v))) = true.
Proof.
  intros ops v Hwf q. apply convert_note_allowed_gen. now apply mask_invariant.
Qed.
