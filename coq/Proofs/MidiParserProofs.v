(** Proofs for property C06 (MIDI byte stream framing): the byte-at-a-time parser
    of Model/Midi.v against the reference decoder of Spec/MidiSpec.v. *)
From Coq Require Import ZArith Bool List Lia.
Import ListNotations.
From SU Require Import F32.
From SU.Model Require Import Midi.
From SU.Spec Require Import MidiSpec.
Open Scope Z_scope.

(** ** Exhaustive case analysis over the 256 byte values *)

Definition bytes256 : list Z := Eval vm_compute in map Z.of_nat (seq 0 256).

Lemma bytes256_eq : bytes256 = map Z.of_nat (seq 0 256).
Proof. vm_compute. reflexivity. Qed.

Lemma byte_cases (P : Z -> Prop) : Forall P bytes256 -> forall b, is_byte b -> P b.
Proof.
  intros H b [H0 H1]. rewrite Forall_forall in H. apply H.
  rewrite bytes256_eq.
  replace b with (Z.of_nat (Z.to_nat b)) by lia.
  apply in_map. apply in_seq. lia.
Qed.

(** solve [Forall P bytes256] by running [tac] on each of the 256 instances *)
Ltac sweep tac :=
  unfold bytes256;
  repeat (apply Forall_cons; [ cbv beta; tac | ]);
  apply Forall_nil.

(** ** Byte classes *)

Lemma data_small : forall b, is_byte b -> is_status_byte b = false -> b <= 127.
Proof.
  apply (byte_cases (fun b => is_status_byte b = false -> b <= 127)).
  sweep ltac:(intros Hs;
              first [ (vm_compute in Hs; discriminate Hs)
                    | (vm_compute; discriminate) ]).
Qed.

Definition omsg (o : option msg) : list msg :=
  match o with Some m => [m] | None => [] end.

Lemma parser_msgs_cons : forall st b r,
  parser_msgs st (b :: r)
  = omsg (snd (parse_byte st b)) ++ parser_msgs (fst (parse_byte st b)) r.
Proof.
  intros st b r. cbn [parser_msgs].
  destruct (parse_byte st b) as [st' [m|]]; reflexivity.
Qed.

(** what the open group of a parser state contributes once the data bytes [d]
    (up to the next status byte) have arrived *)
Definition sem (st : pstate) (d : list Z) : list msg :=
  match st with
  | NoteOnRecvd ch => map (fun '(a, b) => MNoteOn ch a b) (pairs d)
  | NoteOnNoteRecvd ch n => map (fun '(a, b) => MNoteOn ch a b) (pairs (n :: d))
  | NoteOffRecvd ch => map (fun '(a, b) => MNoteOff ch a b) (pairs d)
  | NoteOffNoteRecvd ch n => map (fun '(a, b) => MNoteOff ch a b) (pairs (n :: d))
  | ControlChangeRecvd ch => map (fun '(a, b) => MControlChange ch a b) (pairs d)
  | ControlChangeControlRecvd ch c =>
      map (fun '(a, b) => MControlChange ch a b) (pairs (c :: d))
  | PitchBendRecvd ch => map (fun '(a, b) => MPitchBend ch b a) (pairs d)
  | PitchBendLsbRecvd ch lsb => map (fun '(a, b) => MPitchBend ch b a) (pairs (lsb :: d))
  | _ => []
  end.

Definition wf (st : pstate) : Prop :=
  match st with
  | PitchBendLsbRecvd _ lsb => lsb <= 127
  | _ => True
  end.

Lemma sem_nil : forall st, sem st [] = [].
Proof. destruct st; reflexivity. Qed.

(** real-time bytes: state unchanged, nothing visible *)
Lemma step_rt : forall b, is_byte b -> is_realtime b = true -> forall st,
  fst (parse_byte st b) = st /\ filter visible (omsg (snd (parse_byte st b))) = [].
Proof.
  apply (byte_cases (fun b => is_realtime b = true -> forall st,
    fst (parse_byte st b) = st /\ filter visible (omsg (snd (parse_byte st b))) = [])).
  sweep ltac:(intros Hr st;
              first [ (vm_compute in Hr; discriminate Hr)
                    | (split; reflexivity) ]).
Qed.

(** other status bytes: nothing visible, a fresh state that stands for this status *)
Lemma step_status : forall b, is_byte b ->
  is_status_byte b = true -> is_realtime b = false -> forall st,
  filter visible (omsg (snd (parse_byte st b))) = []
  /\ wf (fst (parse_byte st b))
  /\ forall d, sem (fst (parse_byte st b)) d = segment_msgs (b, d).
Proof.
  apply (byte_cases (fun b => is_status_byte b = true -> is_realtime b = false -> forall st,
    filter visible (omsg (snd (parse_byte st b))) = []
    /\ wf (fst (parse_byte st b))
    /\ forall d, sem (fst (parse_byte st b)) d = segment_msgs (b, d))).
  sweep ltac:(intros Hs Hr st;
              first [ (vm_compute in Hs; discriminate Hs)
                    | (vm_compute in Hr; discriminate Hr)
                    | (split; [ reflexivity | split; [ exact I | intro d; reflexivity ] ]) ]).
Qed.

(** data bytes *)
Lemma step_data : forall b st, is_status_byte b = false -> b <= 127 -> wf st ->
  wf (fst (parse_byte st b))
  /\ forall d, filter visible (omsg (snd (parse_byte st b))) ++ sem (fst (parse_byte st b)) d
               = sem st (b :: d).
Proof.
  intros b st Hs Hb Hwf. unfold parse_byte. rewrite Hs.
  assert (Hu : u7 b = b).
  { unfold u7. destruct (Z.ltb_spec 127 b); [ lia | reflexivity ]. }
  assert (Hm : Z.min b 127 = b) by lia.
  destruct st; cbn [fst snd omsg filter visible sem app wf pairs map] in *;
    rewrite ?Hu, ?Hm; try (split; [ first [ exact I | exact Hb ] | intro d; reflexivity ]).
  (* PitchBendLsbRecvd *)
  split; [ exact I | intro d ].
  rewrite (Z.min_l lsb 127) by exact Hwf. reflexivity.
Qed.

(** ** The parser against the decoder *)

Definition nonrt (b : Z) : bool := negb (is_realtime b).

Lemma split_cons_status : forall b l, is_status_byte b = true ->
  split_segments (b :: l)
  = ([], (b, fst (split_segments l)) :: snd (split_segments l)).
Proof.
  intros b l H. cbn [split_segments]. destruct (split_segments l) as [d segs].
  rewrite H. reflexivity.
Qed.

Lemma split_cons_data : forall b l, is_status_byte b = false ->
  split_segments (b :: l)
  = (b :: fst (split_segments l), snd (split_segments l)).
Proof.
  intros b l H. cbn [split_segments]. destruct (split_segments l) as [d segs].
  rewrite H. reflexivity.
Qed.

Lemma parser_decodes_gen : forall bytes, Forall is_byte bytes -> forall st, wf st ->
  filter visible (parser_msgs st bytes)
  = sem st (fst (split_segments (filter nonrt bytes)))
    ++ flat_map segment_msgs (snd (split_segments (filter nonrt bytes))).
Proof.
  induction 1 as [| b rest Hb Hrest IH]; intros st Hwf.
  - cbn [parser_msgs filter split_segments fst snd flat_map]. rewrite sem_nil. reflexivity.
  - rewrite parser_msgs_cons, filter_app.
    destruct (is_realtime b) eqn:Hrt.
    + destruct (step_rt b Hb Hrt st) as [Hst Hv].
      assert (Hn : nonrt b = false) by (unfold nonrt; rewrite Hrt; reflexivity).
      rewrite Hv, Hst. cbn [app filter]. rewrite Hn.
      apply IH. exact Hwf.
    + assert (Hn : nonrt b = true) by (unfold nonrt; rewrite Hrt; reflexivity).
      cbn [filter]. rewrite Hn.
      destruct (is_status_byte b) eqn:Hs.
      * destruct (step_status b Hb Hs Hrt st) as (Hv & Hwf' & Hsem).
        rewrite Hv, split_cons_status by exact Hs.
        cbn [app fst snd flat_map]. rewrite sem_nil. cbn [app].
        rewrite (IH _ Hwf'), Hsem. reflexivity.
      * pose proof (data_small b Hb Hs) as Hsmall.
        destruct (step_data b st Hs Hsmall Hwf) as (Hwf' & Hsem).
        rewrite split_cons_data by exact Hs. cbn [fst snd].
        rewrite (IH _ Hwf'), app_assoc, Hsem. reflexivity.
Qed.

Lemma parser_decodes : forall bytes, Forall is_byte bytes ->
  filter visible (parser_msgs Idle bytes) = decode bytes.
Proof.
  intros bytes H. rewrite (parser_decodes_gen bytes H Idle I).
  cbn [sem app]. reflexivity.
Qed.

(** ** The receiver: only the messages matter *)

Lemma with_parser_twice : forall r p q, with_parser (with_parser r p) q = with_parser r q.
Proof. intros. reflexivity. Qed.

Lemma parser_with_parser : forall r p, r_parser (with_parser r p) = p.
Proof. intros. reflexivity. Qed.

Lemma observe_with_parser : forall r p, observe (with_parser r p) = observe r.
Proof. intros. reflexivity. Qed.

Lemma apply_with_parser : forall r p m,
  apply_msg (with_parser r p) m = with_parser (apply_msg r m) p.
Proof.
  intros r p m.
  destruct r as [x0 x1 x2 x3 x4 x5 x6 x7 x8 x9 x10 x11 x12 x13 x14 x15 x16 x17]; destruct m;
    unfold apply_msg, with_parser, handle_cc, handle_note_on, handle_note_off, set_notes, set_ctrl;
    cbn [r_parser r_channel r_note r_velocity r_pitch_bend r_mod_wheel r_volume r_cutoff
         r_resonance r_porta_time r_porta_en r_sustain_en r_gate r_rising r_falling r_retrig
         r_prio r_held];
    repeat match goal with
           | |- context [if ?c then _ else _] => destruct c
           | |- context [match ?l with [] => _ | _ :: _ => _ end] => destruct l
           end;
    reflexivity.
Qed.

Lemma apply_other : forall r, apply_msg r MOther = r.
Proof. reflexivity. Qed.

Lemma fold_apply_visible : forall l r,
  fold_left apply_msg l r = fold_left apply_msg (filter visible l) r.
Proof.
  induction l as [| m l IH]; intro r; [ reflexivity | ].
  destruct m; cbn [filter visible fold_left]; try apply IH.
Qed.

Lemma run_same : forall bytes r r',
  with_parser r Idle = with_parser r' Idle ->
  with_parser (fold_left rx_parse bytes r) Idle
  = with_parser (fold_left apply_msg (parser_msgs (r_parser r) bytes) r') Idle.
Proof.
  induction bytes as [| b bs IH]; intros r r' Hrr.
  - cbn [fold_left parser_msgs]. exact Hrr.
  - cbn [fold_left parser_msgs]. unfold rx_parse at 2.
    destruct (parse_byte (r_parser r) b) as [p [m|]].
    + cbn [fold_left].
      assert (Hp : r_parser (apply_msg (with_parser r p) m) = p).
      { rewrite apply_with_parser. apply parser_with_parser. }
      rewrite <- Hp at 2. apply IH.
      rewrite apply_with_parser, with_parser_twice.
      rewrite <- !apply_with_parser. rewrite Hrr. reflexivity.
    + rewrite <- (parser_with_parser r p) at 2. apply IH.
      rewrite with_parser_twice. exact Hrr.
Qed.

Lemma framing : forall ch bytes, Forall is_byte bytes ->
  observe (run_bytes ch bytes) = observe (run_msgs ch (decode bytes)).
Proof.
  intros ch bytes H. unfold run_bytes, run_msgs.
  rewrite <- (observe_with_parser (fold_left rx_parse bytes (rx_new ch)) Idle).
  rewrite (run_same bytes (rx_new ch) (rx_new ch) eq_refl).
  rewrite observe_with_parser.
  rewrite fold_apply_visible.
  change (r_parser (rx_new ch)) with Idle.
  rewrite (parser_decodes bytes H). reflexivity.
Qed.

Lemma decode_realtime : forall l1 l2 b, is_realtime b = true ->
  decode (l1 ++ b :: l2) = decode (l1 ++ l2).
Proof.
  intros l1 l2 b H. unfold decode. rewrite !filter_app. cbn [filter].
  rewrite H. cbn [negb]. reflexivity.
Qed.

Lemma realtime_transparent : forall ch l1 l2 b,
  Forall is_byte (l1 ++ l2) -> is_byte b -> is_realtime b = true ->
  observe (run_bytes ch (l1 ++ b :: l2)) = observe (run_bytes ch (l1 ++ l2)).
Proof.
  intros ch l1 l2 b H Hb Hrt.
  assert (H' : Forall is_byte (l1 ++ b :: l2)).
  { apply Forall_app in H. destruct H as [H1 H2].
    apply Forall_app. split; [ exact H1 | constructor; assumption ]. }
  rewrite (framing ch _ H'), (framing ch _ H), (decode_realtime l1 l2 b Hrt). reflexivity.
Qed.

Lemma foreign_channel_transparent : forall r m,
  match m with
  | MNoteOff c _ _ | MNoteOn c _ _ | MControlChange c _ _ | MPitchBend c _ _ => c <> r_channel r
  | MOther => True
  end -> apply_msg r m = r.
Proof.
  intros r m H. destruct m; unfold apply_msg; try reflexivity;
    apply Z.eqb_neq in H; rewrite H; reflexivity.
Qed.

Lemma bytes_no_panic : forall ch l b, Forall is_byte l -> is_byte b ->
  rx_step_ok (run_bytes ch l) (RByte b) = true.
Proof.
  intros ch l b Hl Hb. unfold rx_step_ok, parse_byte_ok.
  destruct (is_status_byte b) eqn:Hs; [ reflexivity | ].
  apply Z.leb_le. apply data_small; assumption.
Qed.

Print Assumptions parser_decodes.
Print Assumptions framing.
Print Assumptions realtime_transparent.
Print Assumptions foreign_channel_transparent.
Print Assumptions bytes_no_panic.
