(** * TanfPoly: real-analysis facts behind the [tanf] proofs (no floats here).

    [P] is libm's odd polynomial with the exact real values of its six binary64
    coefficients.  All numeric facts are discharged by the [interval] tactic. *)

From Coq Require Import Reals Lra.
From Interval Require Import Tactic.

Open Scope R_scope.

(** exact values of T0 .. T5 (checked against the port in TanfProofs.v) *)
Definition C0 : R := 6004764585806239 / 18014398509481984.
Definition C1 : R := 4805953389698930 / 36028797018963968.
Definition C2 : R := 7693047131691774 / 144115188075855872.
Definition C3 : R := 7069806357132238 / 288230376151711744.
Definition C4 : R := 6858401295168590 / 2305843009213693952.
Definition C5 : R := 5456574480325581 / 576460752303423488.

(** the polynomial, associated exactly as [k_tanf] evaluates it *)
Definition P (x : R) : R :=
  (x + ((x * x) * x) * (C0 + (x * x) * C1))
  + (((x * x) * x) * ((x * x) * (x * x)))
    * ((C2 + (x * x) * C3) + ((x * x) * (x * x)) * (C4 + (x * x) * C5)).

(** ** the polynomial against [tan] on [2^-12, 0.7853982] *)

Lemma tan_even_bounds : forall x, / 4096 <= x <= 0.7853982 ->
  x <= tan x <= 1.0000001.
Proof.
  intros x Hx. split.
  - cut (0 <= tan x - x); [lra|].
    interval with (i_bisect x, i_taylor x, i_degree 6, i_prec 60, i_depth 20).
  - interval with (i_bisect x, i_taylor x, i_degree 6, i_prec 60, i_depth 20).
Qed.

Lemma P_tan : forall x, / 4096 <= x <= 0.7853982 ->
  Rabs (P x - tan x) <= / 33554432 * tan x.
Proof.
  intros x Hx.
  assert (Ht := tan_even_bounds x Hx).
  assert (Hp : 0 < tan x) by lra.
  assert (H : Rabs ((P x - tan x) / tan x) <= / 33554432).
  { unfold P, C0, C1, C2, C3, C4, C5.
    interval with (i_bisect x, i_taylor x, i_degree 14, i_prec 70, i_depth 20). }
  unfold Rdiv in H. rewrite Rabs_mult, Rabs_inv, (Rabs_pos_eq (tan x)) in H by lra.
  apply Rmult_le_compat_r with (r := tan x) in H; [|lra].
  rewrite Rmult_assoc, Rinv_l, Rmult_1_r in H by lra. exact H.
Qed.

(** ** tiny arguments: [tan x] is [x] up to [x^3] *)

Lemma sin_ge_cubic : forall x, 0 <= x <= 1 -> x - x * x * x / 6 <= sin x.
Proof.
  intros x Hx. assert (HPI := PI2_3_2).
  destruct (sin_bound x 0) as [H _]; try lra.
  unfold sin_approx, sin_term in H. simpl in H. lra.
Qed.

Lemma cos_ge_quadratic : forall x, 0 <= x <= 1 -> 1 - x * x / 2 <= cos x.
Proof.
  intros x Hx. assert (HPI := PI2_3_2).
  destruct (cos_bound x 0) as [H _]; try lra.
  unfold cos_approx, cos_term in H. simpl in H. lra.
Qed.

Lemma tan_small : forall x, 0 < x <= / 4096 ->
  x / 2 <= tan x /\ Rabs (x - tan x) <= / 16777216 * x.
Proof.
  intros x Hx.
  assert (Hs1 := sin_ge_cubic x ltac:(lra)).
  assert (Hs2 := sin_lt_x x ltac:(lra)).
  assert (Hc1 := cos_ge_quadratic x ltac:(lra)).
  assert (Hc2 := proj2 (COS_bound x)).
  assert (Hxx : 0 < x * x <= / 16777216).
  { split; [nra|]. replace (/ 16777216) with (/ 4096 * / 4096) by lra.
    apply Rmult_le_compat; lra. }
  assert (Hc0 : / 2 <= cos x) by lra.
  (* x (1 - x^2/6) <= tan x <= x (1 + x^2) *)
  assert (Hlo : x - x * (x * x) / 6 <= tan x).
  { unfold tan. apply Rle_trans with (sin x); [lra|].
    apply Rmult_le_reg_r with (cos x); [lra|].
    unfold Rdiv. rewrite Rmult_assoc, Rinv_l, Rmult_1_r by lra.
    assert (0 <= sin x) by nra.
    rewrite <- (Rmult_1_r (sin x)) at 2. apply Rmult_le_compat_l; lra. }
  assert (Hhi : tan x <= x + x * (x * x)).
  { unfold tan. apply Rmult_le_reg_r with (cos x); [lra|].
    unfold Rdiv. rewrite Rmult_assoc, Rinv_l, Rmult_1_r by lra.
    apply Rle_trans with x; [lra|].
    apply Rle_trans with ((x + x * (x * x)) * (1 - x * x / 2)).
    - assert (0 <= x * (x * x) * (1 - x * x) ) by (apply Rmult_le_pos; nra).
      nra.
    - apply Rmult_le_compat_l; [nra|lra]. }
  assert (Hx3 : x * (x * x) <= x * / 16777216) by (apply Rmult_le_compat_l; lra).
  split; [lra|].
  apply Rabs_le. lra.
Qed.

(** ** the six binary32 arguments above the even/odd switch, up to 0.7853985 *)

Lemma tan_odd_points :
  Rabs (8388608 / 8388608 - tan (13176795 / 16777216)) <= / 8388608 * tan (13176795 / 16777216) /\
  Rabs (8388609 / 8388608 - tan (13176796 / 16777216)) <= / 8388608 * tan (13176796 / 16777216) /\
  Rabs (8388610 / 8388608 - tan (13176797 / 16777216)) <= / 8388608 * tan (13176797 / 16777216) /\
  Rabs (8388611 / 8388608 - tan (13176798 / 16777216)) <= / 8388608 * tan (13176798 / 16777216) /\
  Rabs (8388612 / 8388608 - tan (13176799 / 16777216)) <= / 8388608 * tan (13176799 / 16777216) /\
  Rabs (8388613 / 8388608 - tan (13176800 / 16777216)) <= / 8388608 * tan (13176800 / 16777216).
Proof.
  repeat split;
    match goal with |- ?a <= ?b => cut (0 <= b - a); [lra|] end; interval with (i_prec 80).
Qed.
