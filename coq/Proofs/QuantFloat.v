(** Floating-point facts about the quantizer's input path:
    clamp to [0, V_MAX], scale to microvolts, truncate to u32. *)
From Coq Require Import ZArith Reals Lia Lra Bool List.
From Flocq Require Import Core IEEE754.BinarySingleNaN.
From SU Require Import F32 F32Lemmas.
From SU.gen Require Import Consts.
From SU.Model Require Import Quantizer.
Open Scope R_scope.

Lemma R32_f_0 : R32 f_0 = 0.
Proof. reflexivity. Qed.

Lemma fin_f_0 : fin f_0.
Proof. reflexivity. Qed.

Lemma R32_V_MAX : R32 V_MAX = 10.
Proof. r32_const V_MAX. lra. Qed.

Lemma fin_V_MAX : fin V_MAX.
Proof. fin_const. Qed.

Lemma OCT_val : OCT = 1000000%Z.
Proof. reflexivity. Qed.

(** the clamped input is finite and within [0, 10] for every f32 (NaN, infinities included) *)
Lemma clamp_vin_range : forall v, fin (clamp_vin v) /\ 0 <= R32 (clamp_vin v) <= 10.
Proof.
  intros v. unfold clamp_vin.
  destruct (clamp_maxmin v f_0 V_MAX fin_f_0 fin_V_MAX) as [F [B _]].
  - rewrite R32_f_0, R32_V_MAX. lra.
  - rewrite R32_f_0, R32_V_MAX in B. split; assumption.
Qed.

(** microvolts of a finite value in [0, 10]: between 0 and 10^7 *)
Lemma vin_microvolts_range_fin : forall x : f32, fin x -> 0 <= R32 x <= 10 ->
  (0 <= vin_microvolts x <= 10000000)%Z.
Proof.
  intros x Fx [H0 H10]. unfold vin_microvolts. rewrite OCT_val.
  destruct (fin_R32_of_Z_small 1000000) as [Vc Fc]; [lia|].
  assert (Hb : 0 <= rnd (R32 x * R32 (of_Z 1000000)) <= 10000000).
  { apply rnd_bounds.
    - apply fmt_0.
    - apply (fmt_int 10000000). lia.
    - rewrite Vc. nra. }
  destruct (fmul_correct x (of_Z 1000000) Fx Fc) as [Vm Fm].
  { apply Rle_lt_trans with 10000000.
    - apply Rabs_le. lra.
    - rewrite MAXF_val. lra. }
  rewrite to_u32_fin by exact Fm. rewrite Vm.
  assert (H1 : (Ztrunc 0 <= Ztrunc (rnd (R32 x * R32 (of_Z 1000000))))%Z) by (apply Ztrunc_le; lra).
  assert (H2 : (Ztrunc (rnd (R32 x * R32 (of_Z 1000000))) <= Ztrunc (IZR 10000000))%Z)
    by (apply Ztrunc_le; lra).
  rewrite Ztrunc_IZR in H2. change 0 with (IZR 0) in H1. rewrite Ztrunc_IZR in H1.
  unfold U32_MAX. lia.
Qed.

Lemma vin_range : forall v, (0 <= vin_microvolts (clamp_vin v) <= 10000000)%Z.
Proof.
  intros v. destruct (clamp_vin_range v) as [F B]. now apply vin_microvolts_range_fin.
Qed.

(** monotonicity of the whole input path on finite inputs *)
Lemma vin_microvolts_mono : forall x y : f32, fin x -> fin y ->
  0 <= R32 x <= 10 -> 0 <= R32 y <= 10 -> R32 x <= R32 y ->
  (vin_microvolts x <= vin_microvolts y)%Z.
Proof.
  intros x y Fx Fy Bx By Hle. unfold vin_microvolts. rewrite OCT_val.
  destruct (fin_R32_of_Z_small 1000000) as [Vc Fc]; [lia|].
  assert (Hov : forall z : f32, 0 <= R32 z <= 10 ->
                Rabs (rnd (R32 z * R32 (of_Z 1000000))) < MAXF).
  { intros z Bz. apply no_overflow with 10000000.
    - apply (fmt_int 10000000); lia.
    - rewrite MAXF_val; lra.
    - rewrite Vc. apply Rabs_le. nra. }
  destruct (fmul_correct x _ Fx Fc (Hov x Bx)) as [Vx Fmx].
  destruct (fmul_correct y _ Fy Fc (Hov y By)) as [Vy Fmy].
  apply to_u32_mono; auto. rewrite Vx, Vy. apply rnd_le. rewrite Vc. nra.
Qed.
