(** * LivenessProofs: envelope liveness under arbitrary call orders (C17) and the
    reachable-state invariant of the LFO at property level (C11 / C12).

    Part A.  [C17_reaches_sustain] / [C17_reaches_rest] are stated for pure tick runs
    after the gate event.  Here the ticks may be interleaved with any number of
    ASetAttack / ASetDecay / ASetSustain / ASetRelease calls with ARBITRARY f32 arguments
    (NaN, infinities, negative values ...).  The ingredient is [adsr_inc_bounds]: for a
    legal sample rate the increment of every (clamped) time is at least 4, so every tick
    of a timed phase advances the 24-bit counter by at least 4 whatever the times are
    changed to in between; parameter changes move neither the counter nor the phase.
    The potential [ticks_left] (an upper bound, in ticks, on the time to Sustain / AtRest)
    decreases by at least 1 with every tick and is unchanged by the setters.

    FOUND FALSE: with an ASetSustain AFTER the last tick the literal generalisation of the
    value clause of [C17_reaches_sustain] ("the output equals the sustain level") does not
    hold -- the output is only recomputed by a tick.  Witness:
    [reaches_sustain_interleaved_value_false].  The true statements are
    [reaches_sustain_interleaved] (no sustain change since some tick) and
    [reaches_sustain_interleaved_last_tick] (unconditionally: the output equals the sustain
    level in force at the last tick).

    Part B.  The LFO invariant (counter below 2^24, increment at most 2^24, sample rate
    constant) for every reachable state, and the trace-level forms of [C11_tick],
    [C11_no_drift], [C11_increment], [C12_sine_continuous], [C12_triangle_continuous]
    whose only hypotheses are the property's own quantifier. *)
From Coq Require Import ZArith Reals Lia Lra Bool List.
Import ListNotations.
From Flocq Require Import Core IEEE754.BinarySingleNaN.
From SU Require Import F32 F32Lemmas.
From SU.Model Require Import Utils PhaseAcc Adsr Lfo.
From SU.Spec Require Import AdsrSpec RunSpec.
From SU.Proofs Require Import AdsrClockProofs AdsrLevelProofs NoPanicProofs
  AdsrContinuityProofs AdsrTraceProofs AdsrKillers.
From SU.Proofs Require LfoProofs LfoKillers SineProofs ClampProofs.

(** * Part A: envelope liveness for arbitrary call orders *)

Open Scope Z_scope.

(** every operation except the two gate events *)
Definition no_gate (o : adsr_op) : Prop :=
  match o with AGateOn | AGateOff => False | _ => True end.

(** number of ticks in a list of operations *)
Fixpoint count_ticks (l : list adsr_op) : Z :=
  match l with
  | [] => 0
  | ATick :: r => 1 + count_ticks r
  | _ :: r => count_ticks r
  end.

Definition is_tick (o : adsr_op) : bool := match o with ATick => true | _ => false end.

Lemma count_ticks_nonneg : forall l, 0 <= count_ticks l.
Proof.
  induction l as [|o r IH]; cbn [count_ticks]; [lia|]. destruct o; lia.
Qed.

Lemma count_ticks_app : forall a b, count_ticks (a ++ b) = count_ticks a + count_ticks b.
Proof.
  induction a as [|o r IH]; intros b; cbn [count_ticks app]; [reflexivity|].
  rewrite IH. destruct o; lia.
Qed.

Lemma count_ticks_repeat : forall n, count_ticks (repeat ATick n) = Z.of_nat n.
Proof.
  induction n as [|n IH]; [reflexivity|].
  change (repeat ATick (S n)) with (ATick :: repeat ATick n).
  cbn [count_ticks]. rewrite IH. lia.
Qed.

(** [count_ticks] is the number of elements that are ticks *)
Lemma count_ticks_filter : forall l, count_ticks l = Z.of_nat (length (filter is_tick l)).
Proof.
  induction l as [|o r IH]; [reflexivity|].
  destruct o; cbn [count_ticks filter is_tick length]; rewrite IH; lia.
Qed.

Lemma count_ticks_le_length : forall l, count_ticks l <= Z.of_nat (length l).
Proof.
  induction l as [|o r IH]; cbn [count_ticks length]; [lia|]. destruct o; lia.
Qed.

Lemma no_gate_repeat_tick : forall n, Forall no_gate (repeat ATick n).
Proof.
  intros n. apply Forall_forall. intros o Ho. apply repeat_spec in Ho. subst o. exact I.
Qed.

(** a list with at least one tick splits at its LAST tick *)
Lemma last_tick_split : forall mid, 1 <= count_ticks mid ->
  exists m1 m2, mid = m1 ++ ATick :: m2 /\ count_ticks m2 = 0.
Proof.
  induction mid as [|o r IH]; intros H; cbn [count_ticks] in H; [lia|].
  pose proof (count_ticks_nonneg r) as Hr.
  destruct (Z_le_gt_dec 1 (count_ticks r)) as [H1|H0].
  - destruct (IH H1) as (m1 & m2 & E & E0). exists (o :: m1), m2.
    split; [rewrite E; reflexivity | exact E0].
  - assert (E0 : count_ticks r = 0) by lia.
    destruct o; try lia.
    exists [], r. split; [reflexivity | exact E0].
Qed.

(** ** the potential: an upper bound on the number of ticks still needed *)

(** ticks needed to finish a phase whose counter is at [a], at 4 counter steps per tick *)
Definition phase_left (a : Z) : Z := (16777216 - a + 3) / 4.

Definition ticks_left (s : adsr) : Z :=
  match a_state s with
  | Attack => 4194304 + phase_left (pa_acc (a_pa s))
  | Decay | Release => phase_left (pa_acc (a_pa s))
  | Sustain | AtRest => 0
  end.

(** where a gate-free run ends up: an attack or decay in Sustain, a release at rest *)
Definition final_phase (p : phase) : phase :=
  match p with
  | Attack | Decay | Sustain => Sustain
  | Release | AtRest => AtRest
  end.

Lemma ticks_left_range : forall s, InvC s ->
  0 <= ticks_left s <= 8388608 /\
  (a_state s <> Attack -> ticks_left s <= 4194304) /\
  (a_state s = Attack -> 4194305 <= ticks_left s) /\
  (timed (a_state s) = true -> 1 <= ticks_left s).
Proof.
  intros s HC. pose proof (inv_acc s HC) as Ha.
  unfold ticks_left, phase_left.
  destruct (a_state s); cbn [timed];
    repeat split; intros; try congruence; Z.div_mod_to_equations; lia.
Qed.

Lemma ticks_left_zero : forall s, InvC s -> ticks_left s <= 0 ->
  a_state s = final_phase (a_state s).
Proof.
  intros s HC H0. destruct (ticks_left_range s HC) as (_ & _ & _ & Ht).
  destruct (a_state s) eqn:St; cbn [final_phase]; try reflexivity;
    cbn [timed] in Ht; specialize (Ht eq_refl); lia.
Qed.

(** a tick uses up at least one unit of the potential, whatever the times are *)
Lemma ticks_left_tick : forall s, InvC s -> fs_ok (pa_fs (a_pa s)) ->
  ticks_left (adsr_step s ATick) <= Z.max 0 (ticks_left s - 1).
Proof.
  intros s HC Hfs.
  pose proof (adsr_inc_bounds s HC Hfs) as [Hlo Hhi].
  pose proof (tick_spec s HC Hhi) as H. cbv zeta in H.
  pose proof (inv_acc s HC) as Ha.
  unfold ticks_left, phase_left.
  destruct (a_state s) eqn:St; cbn [timed next_phase] in H.
  - destruct H as [E1 E2]. rewrite E1. lia.
  - destruct (pa_acc (a_pa s) + adsr_inc s <? 16777216) eqn:L;
      destruct H as [E1 E2]; rewrite E1, E2.
    + apply Z.ltb_lt in L. Z.div_mod_to_equations. lia.
    + Z.div_mod_to_equations. lia.
  - destruct (pa_acc (a_pa s) + adsr_inc s <? 16777216) eqn:L;
      destruct H as [E1 E2]; rewrite E1; try rewrite E2.
    + apply Z.ltb_lt in L. Z.div_mod_to_equations. lia.
    + Z.div_mod_to_equations. lia.
  - destruct H as [E1 E2]. rewrite E1. lia.
  - destruct (pa_acc (a_pa s) + adsr_inc s <? 16777216) eqn:L;
      destruct H as [E1 E2]; rewrite E1; try rewrite E2.
    + apply Z.ltb_lt in L. Z.div_mod_to_equations. lia.
    + Z.div_mod_to_equations. lia.
Qed.

(** a tick keeps the envelope on its way to the same final phase *)
Lemma final_phase_tick : forall s, InvC s -> fs_ok (pa_fs (a_pa s)) ->
  final_phase (a_state (adsr_step s ATick)) = final_phase (a_state s).
Proof.
  intros s HC Hfs.
  pose proof (adsr_inc_bounds s HC Hfs) as [Hlo Hhi].
  pose proof (tick_spec s HC Hhi) as H. cbv zeta in H.
  destruct (a_state s) eqn:St; cbn [timed next_phase] in H;
    try (destruct H as [E1 _]; rewrite E1; reflexivity);
    destruct (pa_acc (a_pa s) + adsr_inc s <? 16777216);
    destruct H as [E1 _]; rewrite E1; reflexivity.
Qed.

(** the setters move neither the phase, nor the counter, nor the output *)
Lemma set_frame : forall s o, no_gate o -> o <> ATick ->
  a_state (adsr_step s o) = a_state s /\ a_pa (adsr_step s o) = a_pa s /\
  a_value (adsr_step s o) = a_value s.
Proof.
  intros s o Hg Ht. destruct o; try contradiction; try congruence; repeat split; reflexivity.
Qed.

Lemma ticks_left_set : forall s o, no_gate o -> o <> ATick ->
  ticks_left (adsr_step s o) = ticks_left s.
Proof.
  intros s o Hg Ht. destruct (set_frame s o Hg Ht) as (E1 & E2 & _).
  unfold ticks_left. rewrite E1, E2. reflexivity.
Qed.

(** the potential over a whole gate-free run: it drops by the number of ticks (or to 0) *)
Lemma ticks_left_fold : forall mid s, InvC s -> fs_ok (pa_fs (a_pa s)) -> Forall no_gate mid ->
  ticks_left (fold_left adsr_step mid s) <= Z.max 0 (ticks_left s - count_ticks mid) /\
  final_phase (a_state (fold_left adsr_step mid s)) = final_phase (a_state s).
Proof.
  induction mid as [|o r IH]; intros s HC Hfs Hg; cbn [fold_left count_ticks].
  - split; [lia | reflexivity].
  - inversion Hg as [|o' r' Ho Hr]; subst.
    assert (HC1 : InvC (adsr_step s o)) by (apply InvC_step, HC).
    assert (Hfs1 : fs_ok (pa_fs (a_pa (adsr_step s o)))) by (rewrite step_fs; exact Hfs).
    destruct (IH (adsr_step s o) HC1 Hfs1 Hr) as [IH1 IH2].
    pose proof (count_ticks_nonneg r) as Hn.
    assert (Hcase : o = ATick \/ o <> ATick)
      by (destruct o; try (left; reflexivity); right; discriminate).
    destruct Hcase as [Et|Hnt].
    + subst o. pose proof (ticks_left_tick s HC Hfs) as Ht.
      pose proof (final_phase_tick s HC Hfs) as Hf.
      split; [lia | congruence].
    + pose proof (ticks_left_set s o Ho Hnt) as Et.
      destruct (set_frame s o Ho Hnt) as (Es & _ & _).
      split; [destruct o; try congruence; lia | rewrite IH2, Es; reflexivity].
Qed.

(** ** liveness from any state satisfying the clock invariant *)

(** the general form: enough ticks (interleaved with any setters) finish the envelope *)
Theorem liveness_general : forall s mid, InvC s -> fs_ok (pa_fs (a_pa s)) ->
  Forall no_gate mid -> ticks_left s <= count_ticks mid ->
  a_state (fold_left adsr_step mid s) = final_phase (a_state s).
Proof.
  intros s mid HC Hfs Hg Hn.
  destruct (ticks_left_fold mid s HC Hfs Hg) as [H1 H2].
  rewrite <- H2. apply ticks_left_zero; [apply InvC_fold, HC | lia].
Qed.

(** per phase: 2^22 ticks, interleaved with any setters, always end a timed phase *)
Theorem phase_ends_interleaved : forall s mid, InvC s -> fs_ok (pa_fs (a_pa s)) ->
  Forall no_gate mid -> 4194304 <= count_ticks mid ->
  let s' := fold_left adsr_step mid s in
  match a_state s with
  | Attack => a_state s' = Decay \/ a_state s' = Sustain
  | Decay => a_state s' = Sustain
  | Release => a_state s' = AtRest
  | Sustain => a_state s' = Sustain
  | AtRest => a_state s' = AtRest
  end.
Proof.
  intros s mid HC Hfs Hg Hn s'.
  destruct (ticks_left_fold mid s HC Hfs Hg) as [H1 H2]. fold s' in H1, H2.
  assert (HC' : InvC s') by (apply InvC_fold, HC).
  destruct (ticks_left_range s HC) as (Hr & Hna & _ & _).
  destruct (ticks_left_range s' HC') as (_ & _ & Hat' & _).
  destruct (a_state s) eqn:St; cbn [final_phase] in H2.
  - assert (H0 : ticks_left s' <= 0) by (unfold ticks_left in H1 at 2; rewrite St in H1; lia).
    rewrite (ticks_left_zero s' HC' H0). exact H2.
  - assert (Hn' : a_state s' <> Attack) by (intros E; specialize (Hat' E); lia).
    destruct (a_state s'); cbn [final_phase] in H2; try congruence; auto.
  - assert (H0 : ticks_left s' <= 0) by (specialize (Hna ltac:(discriminate)); lia).
    rewrite (ticks_left_zero s' HC' H0). exact H2.
  - assert (H0 : ticks_left s' <= 0) by (specialize (Hna ltac:(discriminate)); lia).
    rewrite (ticks_left_zero s' HC' H0). exact H2.
  - assert (H0 : ticks_left s' <= 0) by (specialize (Hna ltac:(discriminate)); lia).
    rewrite (ticks_left_zero s' HC' H0). exact H2.
Qed.

(** in words: a timed phase never survives 2^22 ticks *)
Corollary timed_phase_changes : forall s mid, InvC s -> fs_ok (pa_fs (a_pa s)) ->
  Forall no_gate mid -> 4194304 <= count_ticks mid -> timed (a_state s) = true ->
  a_state (fold_left adsr_step mid s) <> a_state s.
Proof.
  intros s mid HC Hfs Hg Hn Ht.
  pose proof (phase_ends_interleaved s mid HC Hfs Hg Hn) as H. cbv zeta in H.
  destruct (a_state s); cbn [timed] in Ht; try discriminate.
  - destruct H as [H|H]; rewrite H; discriminate.
  - rewrite H. discriminate.
  - rewrite H. discriminate.
Qed.

(** setters alone change neither phase nor output *)
Lemma sets_only_frame : forall m s, Forall no_gate m -> count_ticks m = 0 ->
  a_state (fold_left adsr_step m s) = a_state s /\
  a_value (fold_left adsr_step m s) = a_value s.
Proof.
  induction m as [|o r IH]; intros s Hg H0; cbn [fold_left]; [split; reflexivity|].
  inversion Hg as [|o' r' Ho Hr]; subst.
  pose proof (count_ticks_nonneg r) as Hn.
  assert (Hnt : o <> ATick) by (intros E; subst o; cbn [count_ticks] in H0; lia).
  assert (H0r : count_ticks r = 0) by (destruct o; try congruence; exact H0).
  destruct (IH (adsr_step s o) Hr H0r) as [E1 E2].
  destruct (set_frame s o Ho Hnt) as (F1 & _ & F3).
  split; congruence.
Qed.

(** ** the output in the final phase *)

Lemma synced_sustain_value : forall s, Inv s -> synced s -> a_state s = Sustain ->
  (R32 (a_value s) = R32 (a_sustain s))%R.
Proof.
  intros s HI Hs St. rewrite (synced_R s HI Hs). unfold calcR. rewrite St. reflexivity.
Qed.

Lemma synced_rest_value : forall s, Inv s -> synced s -> a_state s = AtRest ->
  (R32 (a_value s) = 0)%R.
Proof.
  intros s HI Hs St. rewrite (synced_R s HI Hs). unfold calcR. rewrite St. reflexivity.
Qed.

(** ** the gate events of a history *)

Lemma gate_on_facts : forall fs ops, fs_ok fs ->
  let s := adsr_step (adsr_run fs ops) AGateOn in
  Inv s /\ fs_ok (pa_fs (a_pa s)) /\ a_state s = Attack /\ ticks_left s <= 8388608.
Proof.
  intros fs ops Hfs s.
  assert (HI : Inv s) by (apply Inv_step, Inv_run).
  split; [exact HI|]. split; [unfold s; rewrite step_fs, run_fs; exact Hfs|].
  split; [apply gate_on_spec|]. apply (ticks_left_range s (proj1 HI)).
Qed.

Lemma gate_off_facts : forall fs ops, fs_ok fs ->
  let s := adsr_step (adsr_run fs ops) AGateOff in
  Inv s /\ fs_ok (pa_fs (a_pa s)) /\ final_phase (a_state s) = AtRest /\
  ticks_left s <= 4194304.
Proof.
  intros fs ops Hfs s.
  assert (HI : Inv s) by (apply Inv_step, Inv_run).
  assert (Hf : final_phase (a_state s) = AtRest).
  { pose proof (gate_off_spec (adsr_run fs ops)) as G. fold s in G.
    destruct (a_state (adsr_run fs ops)) eqn:E.
    - rewrite G, E. reflexivity.
    - destruct G as [G1 _]. rewrite G1. reflexivity.
    - destruct G as [G1 _]. rewrite G1. reflexivity.
    - destruct G as [G1 _]. rewrite G1. reflexivity.
    - rewrite G, E. reflexivity. }
  split; [exact HI|]. split; [unfold s; rewrite step_fs, run_fs; exact Hfs|].
  split; [exact Hf|].
  apply (ticks_left_range s (proj1 HI)).
  intros E. rewrite E in Hf. discriminate.
Qed.

(** ** C17 liveness, interleaved form *)

(** the phase: Sustain after 2^23 ticks interleaved with anything but gate events *)
Theorem reaches_sustain_interleaved_tight : forall fs ops mid, fs_ok fs ->
  Forall no_gate mid -> 8388608 <= count_ticks mid ->
  a_state (fold_left adsr_step mid (adsr_step (adsr_run fs ops) AGateOn)) = Sustain.
Proof.
  intros fs ops mid Hfs Hg Hn.
  destruct (gate_on_facts fs ops Hfs) as (HI & Hfs0 & St & Hb).
  rewrite (liveness_general _ mid (proj1 HI) Hfs0 Hg) by lia.
  rewrite St. reflexivity.
Qed.

(** ... with the tick count of [C17_reaches_sustain] *)
Theorem reaches_sustain_interleaved_state : forall fs ops mid, fs_ok fs ->
  Forall no_gate mid -> 8388610 <= count_ticks mid ->
  a_state (fold_left adsr_step mid (adsr_step (adsr_run fs ops) AGateOn)) = Sustain.
Proof.
  intros fs ops mid Hfs Hg Hn. apply reaches_sustain_interleaved_tight; [assumption..|lia].
Qed.

(** "the sustain level was not changed since some tick of [mid]" *)
Definition sustain_settled (mid : list adsr_op) : Prop :=
  exists m1 m2, mid = m1 ++ ATick :: m2 /\ Forall no_sustain_change m2.

(** phase and output: the output equals the sustain level provided the sustain level was
    not changed after the last tick (the output is only recomputed by a tick) *)
Theorem reaches_sustain_interleaved : forall fs ops mid, fs_ok fs ->
  Forall no_gate mid -> 8388610 <= count_ticks mid -> sustain_settled mid ->
  let s' := fold_left adsr_step mid (adsr_step (adsr_run fs ops) AGateOn) in
  a_state s' = Sustain /\ (R32 (a_value s') = R32 (a_sustain s'))%R.
Proof.
  intros fs ops mid Hfs Hg Hn (m1 & m2 & Emid & Hns) s'.
  assert (St : a_state s' = Sustain)
    by (apply reaches_sustain_interleaved_state; assumption).
  split; [exact St|].
  destruct (gate_on_facts fs ops Hfs) as (HI & _ & _ & _).
  assert (HI' : Inv s') by (apply Inv_fold, HI).
  apply (synced_sustain_value s' HI'); [|exact St].
  unfold s'. rewrite Emid.
  replace (m1 ++ ATick :: m2) with ((m1 ++ [ATick]) ++ m2)
    by (rewrite <- app_assoc; reflexivity).
  rewrite !fold_left_app. cbn [fold_left].
  apply synced_fold; [apply Inv_step, Inv_fold, HI | apply synced_tick | exact Hns].
Qed.

(** in particular when [mid] does not change the sustain level at all *)
Corollary reaches_sustain_interleaved_times : forall fs ops mid, fs_ok fs ->
  Forall no_gate mid -> 8388610 <= count_ticks mid -> Forall no_sustain_change mid ->
  let s' := fold_left adsr_step mid (adsr_step (adsr_run fs ops) AGateOn) in
  a_state s' = Sustain /\ (R32 (a_value s') = R32 (a_sustain s'))%R.
Proof.
  intros fs ops mid Hfs Hg Hn Hns.
  apply reaches_sustain_interleaved; try assumption.
  destruct (last_tick_split mid ltac:(lia)) as (m1 & m2 & E & _).
  exists m1, m2. split; [exact E|].
  rewrite E in Hns. apply Forall_app in Hns. destruct Hns as [_ H2].
  inversion H2; assumption.
Qed.

(** unconditionally: the output is the sustain level in force at the LAST tick; [m2] is
    the (tick-free) tail of setter calls after it *)
Theorem reaches_sustain_interleaved_last_tick : forall fs ops m1 m2, fs_ok fs ->
  Forall no_gate m1 -> Forall no_gate m2 -> count_ticks m2 = 0 ->
  8388610 <= count_ticks (m1 ++ ATick :: m2) ->
  let s1 := fold_left adsr_step (m1 ++ [ATick]) (adsr_step (adsr_run fs ops) AGateOn) in
  let s' := fold_left adsr_step (m1 ++ ATick :: m2) (adsr_step (adsr_run fs ops) AGateOn) in
  s' = fold_left adsr_step m2 s1 /\
  a_state s' = Sustain /\ (R32 (a_value s') = R32 (a_sustain s1))%R.
Proof.
  intros fs ops m1 m2 Hfs Hg1 Hg2 H0 Hn s1 s'.
  assert (E : s' = fold_left adsr_step m2 s1).
  { unfold s', s1. rewrite !fold_left_app. reflexivity. }
  split; [exact E|].
  destruct (gate_on_facts fs ops Hfs) as (HI & _ & _ & _).
  assert (Hg : Forall no_gate (m1 ++ [ATick])).
  { apply Forall_app. split; [exact Hg1 | constructor; [exact I | constructor]]. }
  assert (St1 : a_state s1 = Sustain).
  { apply reaches_sustain_interleaved_state; [exact Hfs | exact Hg |].
    rewrite count_ticks_app in *. cbn [count_ticks] in *. lia. }
  assert (Sy1 : synced s1).
  { unfold s1. rewrite fold_left_app. cbn [fold_left]. apply synced_tick. }
  assert (HI1 : Inv s1) by (apply Inv_fold, HI).
  destruct (sets_only_frame m2 s1 Hg2 H0) as [F1 F2].
  rewrite E, F1, F2. split; [exact St1|].
  apply synced_sustain_value; assumption.
Qed.

(** the literal generalisation of the value clause is FALSE: 8388610 ticks and then a
    sustain change leave the output at the old sustain level (1.0) while the sustain
    level is the new one (0.0) *)
Theorem reaches_sustain_interleaved_value_false :
  exists fs ops mid, fs_ok fs /\ Forall no_gate mid /\ 8388610 <= count_ticks mid /\
    let s' := fold_left adsr_step mid (adsr_step (adsr_run fs ops) AGateOn) in
    a_state s' = Sustain /\ R32 (a_value s') = 1%R /\ R32 (a_sustain s') = 0%R /\
    R32 (a_value s') <> R32 (a_sustain s').
Proof.
  set (n := Z.to_nat 8388609).
  assert (En : Z.of_nat n = 8388609) by (unfold n; apply Z2Nat.id; lia).
  clearbody n.
  set (m1 := repeat ATick n).
  assert (Hg1 : Forall no_gate m1) by apply no_gate_repeat_tick.
  assert (Hc1 : count_ticks m1 = 8388609) by (unfold m1; rewrite count_ticks_repeat; exact En).
  set (m2 := [ASetSustain f_0]).
  assert (Hg2 : Forall no_gate m2) by (constructor; [exact I | constructor]).
  assert (Hc : 8388610 <= count_ticks (m1 ++ ATick :: m2)).
  { rewrite count_ticks_app. cbn [count_ticks m2]. lia. }
  exists FS1k, [], (m1 ++ ATick :: m2).
  split; [exact fs_ok_FS1k|].
  split; [apply Forall_app; split; [exact Hg1 | constructor; [exact I | exact Hg2]]|].
  split; [exact Hc|].
  pose proof (reaches_sustain_interleaved_last_tick FS1k [] m1 m2 fs_ok_FS1k Hg1 Hg2
                eq_refl Hc) as H.
  cbv zeta in H. destruct H as (E & St & V).
  cbv zeta.
  set (s0 := adsr_step (adsr_run FS1k []) AGateOn) in *.
  set (s1 := fold_left adsr_step (m1 ++ [ATick]) s0) in *.
  (* the sustain level after the ticks is still the default 1.0 *)
  assert (Es1 : a_sustain s1 = f_1).
  { unfold s1.
    destruct (adsr_params_persist (m1 ++ [ATick]) s0) as (_ & _ & P & _).
    rewrite P.
    - unfold s0. cbn [adsr_run fold_left adsr_step].
      destruct (new_defaults FS1k) as (_ & _ & _ & D & _).
      unfold adsr_gate_on. change (a_state (adsr_new FS1k)) with AtRest.
      cbn [a_sustain]. exact D.
    - apply Forall_app. split.
      + apply Forall_forall. intros o Ho. apply repeat_spec in Ho. subst o. intros F; exact F.
      + constructor; [intros F; exact F | constructor]. }
  assert (Es' : a_sustain (fold_left adsr_step (m1 ++ ATick :: m2) s0) = sustain_from f_0).
  { rewrite E. reflexivity. }
  assert (E0 : sustain_from f_0 = f_0) by (vm_compute; reflexivity).
  assert (V1 : R32 (a_value (fold_left adsr_step (m1 ++ ATick :: m2) s0)) = 1%R).
  { rewrite V, Es1. exact ClampProofs.R32_f1. }
  assert (V0 : R32 (a_sustain (fold_left adsr_step (m1 ++ ATick :: m2) s0)) = 0%R).
  { rewrite Es', E0. exact ClampProofs.R32_f0. }
  split; [exact St|]. split; [exact V1|]. split; [exact V0|].
  rewrite V1, V0. lra.
Qed.

(** release: at rest at exactly 0.0 after 2^22 ticks interleaved with anything but gate
    events.  No side condition: setters never touch the output, and the output of a tick
    at rest is 0.0.  (Also without the hypothesis [a_state s = Release] of
    [C17_reaches_rest]: a gate-off at rest stays at rest.) *)
Theorem reaches_rest_interleaved_tight : forall fs ops mid, fs_ok fs ->
  Forall no_gate mid -> 4194304 <= count_ticks mid ->
  let s' := fold_left adsr_step mid (adsr_step (adsr_run fs ops) AGateOff) in
  a_state s' = AtRest /\ (R32 (a_value s') = 0)%R.
Proof.
  intros fs ops mid Hfs Hg Hn s'.
  destruct (gate_off_facts fs ops Hfs) as (HI & Hfs0 & Hf & Hb).
  set (s0 := adsr_step (adsr_run fs ops) AGateOff) in *.
  destruct (last_tick_split mid ltac:(lia)) as (m1 & m2 & Emid & H0).
  assert (Hg' : Forall no_gate (m1 ++ [ATick]) /\ Forall no_gate m2).
  { rewrite Emid in Hg. apply Forall_app in Hg. destruct Hg as [G1 G2].
    inversion G2 as [|o r Go Gr]; subst. split; [|exact Gr].
    apply Forall_app. split; [exact G1 | constructor; [exact I | constructor]]. }
  destruct Hg' as [Hg1 Hg2].
  set (s1 := fold_left adsr_step (m1 ++ [ATick]) s0).
  assert (E : s' = fold_left adsr_step m2 s1).
  { unfold s', s1. rewrite Emid, !fold_left_app. reflexivity. }
  assert (St1 : a_state s1 = AtRest).
  { unfold s1. rewrite (liveness_general s0 _ (proj1 HI) Hfs0 Hg1); [exact Hf|].
    rewrite Emid in Hn. rewrite count_ticks_app in *. cbn [count_ticks] in *. lia. }
  assert (Sy1 : synced s1).
  { unfold s1. rewrite fold_left_app. cbn [fold_left]. apply synced_tick. }
  assert (HI1 : Inv s1) by (apply Inv_fold, HI).
  destruct (sets_only_frame m2 s1 Hg2 H0) as [F1 F2].
  rewrite E, F1, F2. split; [exact St1|].
  apply synced_rest_value; assumption.
Qed.

(** ... with the tick count of [C17_reaches_rest] *)
Theorem reaches_rest_interleaved : forall fs ops mid, fs_ok fs ->
  Forall no_gate mid -> 4194305 <= count_ticks mid ->
  let s' := fold_left adsr_step mid (adsr_step (adsr_run fs ops) AGateOff) in
  a_state s' = AtRest /\ (R32 (a_value s') = 0)%R.
Proof.
  intros fs ops mid Hfs Hg Hn. apply reaches_rest_interleaved_tight; [assumption..|lia].
Qed.

(** the existing pure-tick theorems are the instance [mid := repeat ATick n] *)
Corollary reaches_sustain_pure_ticks : forall fs ops n, fs_ok fs -> 8388608 <= Z.of_nat n ->
  let s' := fold_left adsr_step (repeat ATick n) (adsr_step (adsr_run fs ops) AGateOn) in
  a_state s' = Sustain /\ (R32 (a_value s') = R32 (a_sustain s'))%R.
Proof.
  intros fs ops n Hfs Hn s'.
  assert (Hc : count_ticks (repeat ATick n) = Z.of_nat n) by apply count_ticks_repeat.
  assert (St : a_state s' = Sustain).
  { apply reaches_sustain_interleaved_tight;
      [exact Hfs | apply no_gate_repeat_tick | rewrite Hc; exact Hn]. }
  split; [exact St|].
  destruct (gate_on_facts fs ops Hfs) as (HI & _ & _ & _).
  apply synced_sustain_value; [apply Inv_fold, HI | | exact St].
  destruct n as [|n]; [cbn in Hn; lia|].
  unfold s'. change (fold_left adsr_step (repeat ATick (S n)) ?s) with (ticks (S n) s).
  rewrite ticks_snoc. apply synced_tick.
Qed.

Close Scope Z_scope.

(** * Part B: the LFO invariant on reachable states, and trace-level C11 / C12 *)

Open Scope R_scope.

(** the sample rate never changes *)
Lemma lfo_step_fs : forall l o, pa_fs (lfo_step l o) = pa_fs l.
Proof. intros l o. destruct o; reflexivity. Qed.

Lemma lfo_run_fs : forall fs ops, pa_fs (lfo_run fs ops) = fs.
Proof.
  intros fs ops. unfold lfo_run.
  assert (H : forall l, pa_fs (fold_left lfo_step ops l) = pa_fs l).
  { induction ops as [|o r IH]; intros l; cbn [fold_left]; [reflexivity|].
    rewrite IH. apply lfo_step_fs. }
  rewrite H. reflexivity.
Qed.

(** the counter is a 24-bit value after ANY history (any arguments, any sample rate) *)
Theorem lfo_acc_range_any : forall fs ops, (0 <= pa_acc (lfo_run fs ops) < 16777216)%Z.
Proof. exact LfoProofs.lfo_acc_range. Qed.

(** every reachable state of an LFO with a legal sample rate and legal frequencies: the
    counter is below 2^24, the increment at most 2^24, the sample rate the constructor's *)
Theorem lfo_reachable_invariant : forall fs ops, fs_ok fs -> Forall (lfo_op_ok fs) ops ->
  let l := lfo_run fs ops in
  (0 <= pa_acc l < 16777216)%Z /\ (0 <= pa_inc l <= 16777216)%Z /\ pa_fs l = fs.
Proof.
  intros fs ops Hfs Hops l. subst l. unfold lfo_run.
  assert (H0 : linv fs (lfo_new fs)).
  { unfold linv, lfo_new, pa_new. cbn [pa_acc pa_inc pa_fs]. repeat split; lia. }
  revert H0. generalize (lfo_new fs).
  induction ops as [|o r IH]; intros l0 Hl; cbn [fold_left].
  - exact Hl.
  - inversion Hops as [|o' r' Ho Hr]; subst.
    apply (IH Hr). apply linv_step; assumption.
Qed.

(** the invariant holds after every prefix too, hence for every state visited *)
Corollary lfo_reachable_invariant_prefix : forall fs pre post, fs_ok fs ->
  Forall (lfo_op_ok fs) (pre ++ post) ->
  let l := lfo_run fs pre in
  (0 <= pa_acc l < 16777216)%Z /\ (0 <= pa_inc l <= 16777216)%Z /\ pa_fs l = fs.
Proof.
  intros fs pre post Hfs H. apply Forall_app in H. destruct H as [H _].
  apply lfo_reachable_invariant; assumption.
Qed.

Lemma lfo_run_app : forall fs pre post,
  lfo_run fs (pre ++ post) = fold_left lfo_step post (lfo_run fs pre).
Proof. intros fs pre post. unfold lfo_run. apply fold_left_app. Qed.

(** the increment in force is the one computed by the LAST set_frequency of the history *)
Theorem lfo_last_set_freq : forall fs pre f post, Forall LfoKillers.not_set_freq post ->
  pa_inc (lfo_run fs (pre ++ LSetFreq f :: post))
  = pa_inc (lfo_step (lfo_run fs pre) (LSetFreq f)).
Proof.
  intros fs pre f post H. rewrite lfo_run_app.
  apply LfoKillers.lfo_frequency_after_set, H.
Qed.

(** ... a function of the sample rate and that frequency only (nothing earlier matters) *)
Theorem lfo_last_set_freq_value : forall fs pre f post, Forall LfoKillers.not_set_freq post ->
  pa_inc (lfo_run fs (pre ++ LSetFreq f :: post))
  = to_u32 (fdiv (fmul (of_Z 16777216) f) fs).
Proof.
  intros fs pre f post H. rewrite (lfo_last_set_freq fs pre f post H).
  cbn [lfo_step]. unfold pa_set_frequency. cbn [pa_inc].
  rewrite lfo_run_fs, LfoProofs.two_tot_val. reflexivity.
Qed.

(** ... and therefore within the bounds of [C11_increment] of 2^24 f / fs, for a legal
    sample rate and a legal frequency, whatever came before *)
Theorem lfo_increment_trace : forall fs pre f post, fs_ok fs ->
  fin f -> 0 <= R32 f <= R32 fs -> Forall LfoKillers.not_set_freq post ->
  let inc := pa_inc (lfo_run fs (pre ++ LSetFreq f :: post)) in
  let X := 16777216 * R32 f / R32 fs in
  (0 <= inc <= 16777216)%Z /\
  X * (1 - / 8388608) - 1 < IZR inc <= X * (1 + / 8388608).
Proof.
  intros fs pre f post [Ffs Bfs] Ff Bf Hpost inc X. subst inc X.
  rewrite (lfo_last_set_freq fs pre f post Hpost).
  pose proof (LfoProofs.increment_bounds (lfo_run fs pre) f Ff) as H.
  rewrite lfo_run_fs in H. cbv zeta in H. apply H; assumption.
Qed.

(** the realised frequency, at trace level *)
Theorem lfo_realised_frequency_trace : forall fs pre f post, fs_ok fs ->
  fin f -> 0 <= R32 f <= R32 fs -> Forall LfoKillers.not_set_freq post ->
  let inc := pa_inc (lfo_run fs (pre ++ LSetFreq f :: post)) in
  Rabs (IZR inc * R32 fs / 16777216 - R32 f) <= R32 fs / 16777216 + R32 f / 8388608.
Proof.
  intros fs pre f post [Ffs Bfs] Ff Bf Hpost inc. subst inc.
  rewrite (lfo_last_set_freq fs pre f post Hpost).
  pose proof (LfoProofs.realised_frequency (lfo_run fs pre) f Ff) as H.
  rewrite lfo_run_fs in H. cbv zeta in H. apply H; assumption.
Qed.

(** [C11_tick] on reachable states: only the property's quantifier is assumed *)
Theorem C11_tick_trace : forall fs ops, fs_ok fs -> Forall (lfo_op_ok fs) ops ->
  let l := lfo_run fs ops in
  pa_acc (lfo_step l LTick) = ((pa_acc l + pa_inc l) mod 16777216)%Z /\
  pa_inc (lfo_step l LTick) = pa_inc l /\ lfo_step_ok l LTick = true.
Proof.
  intros fs ops Hfs Hops l.
  destruct (lfo_reachable_invariant fs ops Hfs Hops) as (Ha & Hi & _).
  apply LfoProofs.tick_exact; assumption.
Qed.

(** [C11_no_drift] on reachable states *)
Theorem C11_no_drift_trace : forall fs ops n, fs_ok fs -> Forall (lfo_op_ok fs) ops ->
  let l := lfo_run fs ops in
  pa_acc (lfo_run fs (ops ++ repeat LTick n))
  = ((pa_acc l + Z.of_nat n * pa_inc l) mod 16777216)%Z.
Proof.
  intros fs ops n Hfs Hops l.
  destruct (lfo_reachable_invariant fs ops Hfs Hops) as (Ha & Hi & _).
  rewrite lfo_run_app. apply LfoProofs.no_drift; assumption.
Qed.

(** [C12_sine_continuous] on reachable states *)
Theorem C12_sine_trace : forall fs ops, fs_ok fs -> Forall (lfo_op_ok fs) ops ->
  let l := lfo_run fs ops in
  let l' := lfo_step l LTick in
  Rabs (R32 (lfo_get l' Sine) - R32 (lfo_get l Sine))
    <= 2 * PI * 1.002 * (IZR (pa_inc l) / 16777216) + 2 * / 16777216.
Proof.
  intros fs ops Hfs Hops l.
  destruct (lfo_reachable_invariant fs ops Hfs Hops) as (Ha & Hi & _).
  apply SineProofs.sine_continuous; assumption.
Qed.

(** [C12_triangle_continuous] on reachable states *)
Theorem C12_triangle_trace : forall fs ops, fs_ok fs -> Forall (lfo_op_ok fs) ops ->
  let l := lfo_run fs ops in
  let l' := lfo_step l LTick in
  Rabs (R32 (lfo_get l' Triangle) - R32 (lfo_get l Triangle))
    <= 4 * (IZR (pa_inc l) / 16777216).
Proof.
  intros fs ops Hfs Hops l.
  destruct (lfo_reachable_invariant fs ops Hfs Hops) as (Ha & Hi & _).
  apply SineProofs.triangle_continuous; assumption.
Qed.

(** with the frequency spelled out: between two consecutive outputs after the last
    [LSetFreq f] the sine moves by at most 2 pi 1.002 (f / fs)(1 + 2^-23) + 2^-23 *)
Theorem C12_sine_trace_freq : forall fs pre f post, fs_ok fs ->
  Forall (lfo_op_ok fs) (pre ++ LSetFreq f :: post) -> Forall LfoKillers.not_set_freq post ->
  let l := lfo_run fs (pre ++ LSetFreq f :: post) in
  let l' := lfo_step l LTick in
  Rabs (R32 (lfo_get l' Sine) - R32 (lfo_get l Sine))
    <= 2 * PI * 1.002 * (R32 f / R32 fs * (1 + / 8388608)) + 2 * / 16777216.
Proof.
  intros fs pre f post Hfs Hops Hpost l l'.
  pose proof (C12_sine_trace fs _ Hfs Hops) as H. cbv zeta in H. fold l in H. fold l' in H.
  assert (Hf : lfo_op_ok fs (LSetFreq f)).
  { apply Forall_app in Hops. destruct Hops as [_ H2]. inversion H2; assumption. }
  cbn [lfo_op_ok] in Hf. destruct Hf as [Ff Bf].
  destruct (lfo_increment_trace fs pre f post Hfs Ff Bf Hpost) as [_ [_ Hu]].
  fold l in Hu.
  destruct Hfs as [Ffs Bfs].
  assert (Hq : IZR (pa_inc l) / 16777216 <= R32 f / R32 fs * (1 + / 8388608)).
  { apply Rle_trans with (16777216 * R32 f / R32 fs * (1 + / 8388608) / 16777216).
    - unfold Rdiv at 1 3. apply Rmult_le_compat_r; [lra | exact Hu].
    - right. field. lra. }
  pose proof PI_RGT_0 as Hpi.
  assert (Hm : 2 * PI * 1.002 * (IZR (pa_inc l) / 16777216)
               <= 2 * PI * 1.002 * (R32 f / R32 fs * (1 + / 8388608))).
  { apply Rmult_le_compat_l; [nra | exact Hq]. }
  lra.
Qed.
