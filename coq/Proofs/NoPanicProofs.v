(** Proofs for Props/C17.v: no operation panics, overflows or hangs for any in-range
    argument; liveness of the envelope. *)
From Coq Require Import ZArith Reals Lia Lra Psatz Bool List.
Import ListNotations.
From Flocq Require Import Core IEEE754.BinarySingleNaN.
From SU Require Import F32 F32Lemmas.
From SU.gen Require Import Consts.
From SU.Model Require Import Utils PhaseAcc Tables Adsr Lfo Quantizer Midi Glide Ribbon.
From SU.Spec Require Import AdsrSpec QuantSpec MidiSpec RibbonSpec RunSpec.
From SU.Proofs Require Import ClampProofs AdsrClockProofs AdsrLevelProofs.
From SU.Proofs Require LfoProofs QuantProofs.
Open Scope R_scope.

(** * A generic invariant argument for [steps_ok] *)

Section Generic.
Context {S O : Type}.
Variables (ok : S -> O -> bool) (step : S -> O -> S).
Variables (I : S -> Prop) (A : O -> Prop).
Hypothesis Hstep : forall s o, I s -> A o -> I (step s o).
Hypothesis Hok : forall s o, I s -> A o -> ok s o = true.

Lemma steps_ok_inv : forall ops s, I s -> Forall A ops -> steps_ok ok step s ops = true.
Proof.
  induction ops as [|o ops IH]; intros s Hs Hops; cbn [steps_ok].
  - reflexivity.
  - inversion Hops as [|? ? Ho Hr]; subst.
    rewrite (Hok s o Hs Ho). cbn [andb]. apply IH; [apply Hstep; assumption | exact Hr].
Qed.
End Generic.

Lemma Forall_True : forall {O : Type} (l : list O), Forall (fun _ => True) l.
Proof. intros O l. apply Forall_forall. intros; exact Logic.I. Qed.

(** * Envelope *)

Lemma attack_table_length : length attack_table = 1024%nat.
Proof. vm_compute. reflexivity. Qed.

Lemma decay_table_length : length decay_table = 1024%nat.
Proof. vm_compute. reflexivity. Qed.

Lemma step_fs : forall s o, pa_fs (a_pa (adsr_step s o)) = pa_fs (a_pa s).
Proof.
  intros s o. destruct o; try reflexivity.
  - apply (tick_params s).
  - unfold adsr_step, adsr_gate_on. destruct (a_state s); reflexivity.
  - unfold adsr_step, adsr_gate_off. destruct (a_state s); reflexivity.
Qed.

Lemma fold_fs : forall ops s, pa_fs (a_pa (fold_left adsr_step ops s)) = pa_fs (a_pa s).
Proof.
  induction ops as [|o ops IH]; intros s; cbn [fold_left].
  - reflexivity.
  - rewrite IH. apply step_fs.
Qed.

Lemma run_fs : forall fs ops, pa_fs (a_pa (adsr_run fs ops)) = fs.
Proof. intros fs ops. unfold adsr_run. rewrite fold_fs. reflexivity. Qed.

Lemma frac_bits_adsr : frac_bits TOT IDX = 14%Z.
Proof. reflexivity. Qed.

Lemma adsr_tick_no_panic : forall s, InvC s -> fs_ok (pa_fs (a_pa s)) -> adsr_tick_ok s = true.
Proof.
  intros s I Hfs. unfold adsr_tick_ok. apply andb_true_intro. split.
  - destruct (timed (a_state s)) eqn:T; [|reflexivity].
    unfold pa_tick_ok. rewrite set_period_inc.
    change (pa_acc (pa_set_period TOT (a_pa s) (period_of s))) with (pa_acc (a_pa s)).
    pose proof (adsr_inc_bounds s I Hfs) as Hi. pose proof (inv_acc s I) as Ha.
    apply Z.leb_le. unfold U32_MAX. lia.
  - cbv zeta.
    destruct (tick_advance_weak s (inv_acc s I)) as [_ Ha1]. unfold acc_ok in Ha1.
    set (s1 := tick_advance s) in *.
    unfold pa_index. rewrite frac_bits_adsr.
    destruct (idx_frac _ Ha1) as (E1 & _ & Hi & _). rewrite E1.
    set (i := (pa_acc (a_pa s1) / 16384)%Z) in *.
    pose proof (next_idx_range i Hi) as Hn.
    destruct (timed (a_state s1)).
    + unfold tbl_ok. rewrite attack_table_length, decay_table_length.
      change (Z.of_nat 1024) with 1024%Z.
      rewrite !andb_true_iff. repeat split;
        try (apply Z.leb_le; lia); apply Z.ltb_lt; lia.
    + apply Z.leb_le. lia.
Qed.

Lemma adsr_no_panic : forall fs ops, fs_ok fs ->
  steps_ok adsr_step_ok adsr_step (adsr_new fs) ops = true.
Proof.
  intros fs ops Hfs.
  apply (steps_ok_inv adsr_step_ok adsr_step
           (fun s => InvC s /\ pa_fs (a_pa s) = fs) (fun _ => True)).
  - intros s o [I E] _. split; [apply InvC_step, I | rewrite step_fs; exact E].
  - intros s o [I E] _. destruct o; try reflexivity.
    cbn [adsr_step_ok]. apply adsr_tick_no_panic; [exact I | rewrite E; exact Hfs].
  - split; [apply InvC_new | reflexivity].
  - apply Forall_True.
Qed.

(** * LFO *)

Definition linv (fs : f32) (l : lfo) : Prop :=
  (0 <= pa_acc l < 16777216)%Z /\ (0 <= pa_inc l <= 16777216)%Z /\ pa_fs l = fs.

Lemma linv_step : forall fs l o, fs_ok fs -> linv fs l -> lfo_op_ok fs o -> linv fs (lfo_step l o).
Proof.
  intros fs l o [Ffs Bfs] (Ha & Hi & Ef) Ho.
  split; [apply LfoProofs.step_acc_range; exact Ha|].
  destruct o as [|f|p|].
  - destruct (LfoProofs.tick_exact l Ha Hi) as (_ & E & _). rewrite E.
    split; [exact Hi | exact Ef].
  - cbn [lfo_op_ok] in Ho. destruct Ho as [Ff Hf].
    split; [|exact Ef].
    apply (LfoProofs.increment_bounds l f Ff); rewrite Ef; assumption.
  - split; [exact Hi | exact Ef].
  - split; [exact Hi | exact Ef].
Qed.

Lemma lfo_no_panic : forall fs ops, fs_ok fs -> Forall (lfo_op_ok fs) ops ->
  steps_ok lfo_step_ok lfo_step (lfo_new fs) ops = true /\
  lfo_get_ok (lfo_run fs ops) = true.
Proof.
  intros fs ops Hfs Hops. split.
  - apply (steps_ok_inv lfo_step_ok lfo_step (linv fs) (lfo_op_ok fs)).
    + intros s o Hs Ho. apply linv_step; assumption.
    + intros s o (Ha & Hi & _) _. destruct o; try reflexivity.
      apply (LfoProofs.tick_exact s Ha Hi).
    + unfold linv, lfo_new, pa_new. cbn [pa_acc pa_inc pa_fs]. repeat split; lia.
    + exact Hops.
  - apply LfoProofs.lfo_get_no_panic, LfoProofs.lfo_acc_range.
Qed.

(** * Quantizer *)

Lemma quant_run_gen : forall rest pre, wf_ops (pre ++ rest) ->
  steps_ok quant_step_ok quant_step (qrun pre) rest = true.
Proof.
  induction rest as [|o r IH]; intros pre Hwf; cbn [steps_ok].
  - reflexivity.
  - assert (Hpre : wf_ops pre /\ wf_op o).
    { unfold wf_ops in *. apply Forall_app in Hwf. destruct Hwf as [H1 H2].
      inversion H2; subst. split; assumption. }
    destruct Hpre as [Hpre Ho].
    rewrite (QuantProofs.quant_no_panic pre o Hpre Ho). cbn [andb].
    replace (quant_step (qrun pre) o) with (qrun (pre ++ [o])).
    + apply IH. rewrite <- app_assoc. exact Hwf.
    + unfold qrun. rewrite fold_left_app. reflexivity.
Qed.

Lemma quant_run_no_panic : forall ops, wf_ops ops ->
  steps_ok quant_step_ok quant_step quant_new ops = true.
Proof. intros ops H. apply (quant_run_gen ops []). exact H. Qed.

(** * MIDI *)

Lemma data_sweep :
  forallb (fun n => let b := Z.of_nat n in is_status_byte b || (b <=? 127)%Z) (seq 0 256) = true.
Proof. vm_compute. reflexivity. Qed.

Lemma data_small : forall b, is_byte b -> is_status_byte b = false -> (b <= 127)%Z.
Proof.
  intros b [H0 H1] Hs.
  pose proof (proj1 (forallb_forall _ _) data_sweep (Z.to_nat b)) as H.
  cbv beta zeta in H. rewrite Z2Nat.id in H by lia.
  rewrite Hs in H. cbn [orb] in H. apply Z.leb_le. apply H. apply in_seq. lia.
Qed.

Lemma midi_no_panic : forall ch ops, Forall rx_op_ok ops ->
  steps_ok rx_step_ok (fun r o => fst (rx_step r o)) (rx_new ch) ops = true.
Proof.
  intros ch ops Hops.
  apply (steps_ok_inv rx_step_ok (fun r o => fst (rx_step r o)) (fun _ => True) rx_op_ok).
  - intros; exact Logic.I.
  - intros r o _ Ho. destruct o as [b| | |p|b]; try reflexivity.
    cbn [rx_op_ok] in Ho. unfold rx_step_ok, parse_byte_ok.
    destruct (is_status_byte b) eqn:Hs; [reflexivity|].
    apply Z.leb_le. apply data_small; assumption.
  - exact Logic.I.
  - exact Hops.
Qed.

(** * Ribbon *)

Lemma to_u32_of_Z : forall z : Z, (0 <= z <= 16777216)%Z -> to_u32 (of_Z z) = z.
Proof.
  intros z Hz. destruct (fin_R32_of_Z_small z) as [V F]; [lia|].
  rewrite to_u32_fin by exact F. rewrite V, Ztrunc_IZR. unfold U32_MAX. lia.
Qed.

Lemma poll_consts : forall r x,
  rb_cap (ribbon_poll r x) = rb_cap r /\ rb_discard (ribbon_poll r x) = rb_discard r.
Proof.
  intros r x. unfold ribbon_poll. cbv zeta.
  destruct (flt x (rb_boundary r)); [|split; reflexivity].
  destruct (rb_ignore r <=? _)%Z; [|split; reflexivity].
  destruct (_ =? _)%Z; split; reflexivity.
Qed.

Lemma rstep_consts : forall r o,
  rb_cap (fst (ribbon_step r o)) = rb_cap r /\
  rb_discard (fst (ribbon_step r o)) = rb_discard r.
Proof.
  intros r o. destruct o as [x| |].
  - apply poll_consts.
  - split; reflexivity.
  - split; reflexivity.
Qed.

Lemma poll_ok_of : forall r x, (rb_discard r <= Z.of_nat (rb_cap r))%Z -> ribbon_poll_ok r x = true.
Proof.
  intros r x H. unfold ribbon_poll_ok. cbv zeta.
  destruct (flt x (rb_boundary r)); [|reflexivity].
  destruct (rb_ignore r <=? _)%Z; [|reflexivity].
  destruct (_ =? _)%Z; [|reflexivity].
  apply Z.leb_le. exact H.
Qed.

Lemma capacity_facts : forall fs : Z, (100 <= fs <= 192000)%Z ->
  (1 <= sample_rate_to_capacity fs)%Z /\
  (usec_to_samples fs RIBBON_RISE_TIME_USEC <= sample_rate_to_capacity fs)%Z.
Proof.
  intros fs Hfs. unfold sample_rate_to_capacity, usec_to_samples,
    MIN_CAPTURE_TIME_USEC, RIBBON_RISE_TIME_USEC.
  assert (H1 : (0 <= fs * 15000 / 1000000)%Z) by (apply Z.div_pos; lia).
  assert (H2 : (0 <= fs * 2000 / 1000000)%Z) by (apply Z.div_pos; lia).
  lia.
Qed.

Lemma ribbon_no_panic : forall (fs : Z) sp dr pu h,
  (100 <= fs <= 192000)%Z ->
  sample_rate_to_capacity_ok fs = true /\
  let cap := Z.to_nat (sample_rate_to_capacity fs) in
  ribbon_new_ok cap (of_Z fs) = true /\
  steps_ok ribbon_step_ok (fun r o => fst (ribbon_step r o)) (ribbon_new cap (of_Z fs) sp dr pu) h = true.
Proof.
  intros fs sp dr pu h Hfs.
  destruct (capacity_facts fs Hfs) as [Hc1 Hc2].
  assert (Eu : to_u32 (of_Z fs) = fs) by (apply to_u32_of_Z; lia).
  split.
  { unfold sample_rate_to_capacity_ok, MIN_CAPTURE_TIME_USEC, RIBBON_RISE_TIME_USEC, U32_MAX.
    apply andb_true_intro. split; apply Z.leb_le; lia. }
  set (c := sample_rate_to_capacity fs) in *.
  intros cap.
  assert (Ecap : Z.of_nat cap = c) by (unfold cap; apply Z2Nat.id; lia).
  split.
  { unfold ribbon_new_ok. cbv zeta. rewrite Eu.
    unfold usec_to_samples_ok, RIBBON_FALL_TIME_USEC, RIBBON_RISE_TIME_USEC, U32_MAX.
    rewrite !andb_true_iff. repeat split.
    - apply negb_true_iff. apply Nat.eqb_neq. intros E. rewrite E in Ecap.
      change (Z.of_nat 0) with 0%Z in Ecap. lia.
    - apply Z.leb_le. lia.
    - apply Z.leb_le. lia. }
  apply (steps_ok_inv ribbon_step_ok (fun r o => fst (ribbon_step r o))
           (fun r => rb_cap r = cap /\ rb_discard r = usec_to_samples fs RIBBON_RISE_TIME_USEC)
           (fun _ => True)).
  - intros r o [E1 E2] _. destruct (rstep_consts r o) as [F1 F2].
    rewrite F1, F2. split; assumption.
  - intros r o [E1 E2] _. destruct o as [x| |]; try reflexivity.
    cbn [ribbon_step_ok]. apply poll_ok_of. rewrite E1, E2, Ecap. exact Hc2.
  - unfold ribbon_new. cbv zeta. cbn [rb_cap rb_discard]. rewrite Eu. split; reflexivity.
  - apply Forall_True.
Qed.

(** * Glide *)

(** halving is exact away from the subnormal range *)
Lemma fmt_half : forall x, fmt x -> 1 <= Rabs x -> fmt (x / 2).
Proof.
  intros x Hx H1. unfold fmt in *.
  apply FLT_format_generic in Hx; [|exact Hprec].
  destruct Hx as [f Hf Hm He].
  assert (Hm' : (Z.abs (Fnum f) < 16777216)%Z) by exact Hm.
  destruct (Z.eq_dec (Fexp f) (-149)) as [E|E].
  - exfalso.
    assert (Hlt : Rabs x < 1).
    { rewrite Hf. unfold F2R. rewrite E. rewrite Rabs_mult, <- abs_IZR.
      rewrite (Rabs_pos_eq (bpow radix2 (-149))) by apply bpow_ge_0.
      assert (Ha : IZR (Z.abs (Fnum f)) < 16777216) by (apply (IZR_lt _ 16777216); exact Hm').
      assert (Ha0 : 0 <= IZR (Z.abs (Fnum f))) by (apply (IZR_le 0); apply Z.abs_nonneg).
      assert (Hb : bpow radix2 (-149) <= / 16777216).
      { assert (E24 : bpow radix2 (-24) = / 16777216) by exact (bpow2_neg 24 eq_refl).
        rewrite <- E24. apply bpow_le. lia. }
      assert (Hb0 : 0 <= bpow radix2 (-149)) by apply bpow_ge_0.
      apply Rle_lt_trans with (IZR (Z.abs (Fnum f)) * / 16777216).
      - apply Rmult_le_compat_l; assumption.
      - lra. }
    lra.
  - apply generic_format_FLT.
    exists (Float radix2 (Fnum f) (Fexp f + -1)).
    + rewrite Hf. unfold F2R. cbn [Fnum Fexp]. rewrite bpow_plus.
      assert (E1 : bpow radix2 (-1) = / 2) by exact (bpow2_neg 1 eq_refl).
      rewrite E1. unfold Rdiv. ring.
    + exact Hm.
    + cbn [Fexp]. lia.
Qed.

Lemma fin_GL_DIV : fin GL_DIV.
Proof. fin_const. Qed.

Lemma R32_GL_DIV : R32 GL_DIV = 4.
Proof. r32_const GL_DIV. lra. Qed.

Lemma fin_GL_MIN_FC : fin GL_MIN_FC.
Proof. fin_const. Qed.

Lemma GL_MIN_FC_bounds : / 16 <= R32 GL_MIN_FC <= 1.
Proof. r32_const GL_MIN_FC. lra. Qed.

Lemma R32_f2 : R32 f_2 = 2.
Proof. apply (R32_of_Z_small 2). lia. Qed.

Lemma fin_f2 : fin f_2.
Proof. apply (fin_of_Z_small 2). lia. Qed.

(** [max_fc = fs / 4], exactly *)
Lemma max_fc_val : forall fs, fs_ok fs ->
  fin (fdiv fs GL_DIV) /\ R32 (fdiv fs GL_DIV) = R32 fs / 4.
Proof.
  intros fs [F B].
  assert (Hfmt : fmt (R32 fs / 4)).
  { replace (R32 fs / 4) with (R32 fs / 2 / 2) by field.
    apply fmt_half; [apply fmt_half|].
    - apply fmt_R32.
    - rewrite Rabs_pos_eq; lra.
    - rewrite Rabs_pos_eq; lra. }
  destruct (fdiv_correct fs GL_DIV F fin_GL_DIV) as [V Ff].
  - rewrite R32_GL_DIV. lra.
  - rewrite R32_GL_DIV, (rnd_id _ Hfmt), MAXF_val. apply Rabs_lt. lra.
  - rewrite R32_GL_DIV, (rnd_id _ Hfmt) in V. split; assumption.
Qed.

Lemma from_params_some : forall fs f0,
  flt fs (fmul f_2 f0) = false -> exists c, from_params fs f0 = Some c.
Proof. intros fs f0 H. unfold from_params. rewrite H. eexists. reflexivity. Qed.

(** Nyquist check of [from_params]: passes for every cutoff up to [fs / 2] *)
Lemma from_params_ok : forall fs f0, fs_ok fs -> fin f0 -> 0 <= R32 f0 <= R32 fs / 2 ->
  exists c, from_params fs f0 = Some c.
Proof.
  intros fs f0 [F B] F0 H0. apply from_params_some.
  assert (Hb : 0 <= rnd (R32 f_2 * R32 f0) <= R32 fs).
  { rewrite R32_f2. apply rnd_bounds; [apply fmt_0 | apply fmt_R32 | lra]. }
  destruct (fmul_correct f_2 f0 fin_f2 F0) as [V Fm].
  { rewrite MAXF_val. apply Rabs_lt. lra. }
  apply (proj2 (flt_false fs (fmul f_2 f0) F Fm)). rewrite V. lra.
Qed.

Definition ginv (fs : f32) (g : glide) : Prop :=
  g_fs g = fs /\ g_max_fc g = fdiv fs GL_DIV /\ g_min_fc g = GL_MIN_FC.

Lemma glide_new_some : forall fs, fs_ok fs -> exists g, glide_new fs = Some g /\ ginv fs g.
Proof.
  intros fs Hfs. destruct (max_fc_val fs Hfs) as [Fm Vm]. pose proof Hfs as [F B].
  unfold glide_new. cbv zeta.
  assert (H1 : hz_ok fs = true).
  { unfold hz_ok. apply (proj2 (flt_true f_0 fs fin_f0 F)). rewrite R32_f0. lra. }
  assert (H2 : hz_ok (fdiv fs GL_DIV) = true).
  { unfold hz_ok. apply (proj2 (flt_true f_0 _ fin_f0 Fm)). rewrite R32_f0, Vm. lra. }
  rewrite H1, H2. cbn [andb].
  destruct (from_params_ok fs (fdiv fs GL_DIV) Hfs Fm) as [c Hc]; [rewrite Vm; lra|].
  rewrite Hc. eexists. split; [reflexivity|].
  unfold ginv. cbn [g_fs g_max_fc g_min_fc]. repeat split; reflexivity.
Qed.

(** [set_time] succeeds for EVERY argument: the clamp to [min_fc, max_fc] absorbs NaN,
    infinities and out-of-range values *)
Lemma set_time_some : forall fs g t, fs_ok fs -> ginv fs g ->
  exists g', glide_set_time g t = Some g' /\ ginv fs g'.
Proof.
  intros fs g t Hfs (E1 & E2 & E3).
  unfold glide_set_time. destruct (is_almost t (g_cached_t g) GL_EPS).
  - exists g. split; [reflexivity | repeat split; assumption].
  - cbv zeta. unfold glide_f0. cbv zeta. rewrite E1, E2, E3.
    set (x := fdiv f_1 (if feq t f_0 then f_0 else t)).
    destruct (max_fc_val fs Hfs) as [Fm Vm]. pose proof Hfs as [F B].
    pose proof GL_MIN_FC_bounds as Hmin.
    pose proof (clamp_maxmin x GL_MIN_FC (fdiv fs GL_DIV) fin_GL_MIN_FC Fm) as Hc.
    cbv zeta in Hc. destruct Hc as (Fr & Br & _); [rewrite Vm; lra|].
    set (f0 := fmin (fmax x GL_MIN_FC) (fdiv fs GL_DIV)) in *.
    assert (H1 : hz_ok f0 = true).
    { unfold hz_ok. apply (proj2 (flt_true f_0 f0 fin_f0 Fr)). rewrite R32_f0. lra. }
    rewrite H1.
    destruct (from_params_ok fs f0 Hfs Fr) as [c Hc]; [rewrite Vm in Br; lra|].
    rewrite Hc. eexists. split; [reflexivity|].
    unfold ginv. cbn [g_fs g_max_fc g_min_fc]. repeat split; reflexivity.
Qed.

Lemma glide_run_some : forall fs ops g, fs_ok fs -> ginv fs g ->
  exists g', glide_run (Some g) ops = Some g'.
Proof.
  intros fs ops. induction ops as [|o r IH]; intros g Hfs Hg; cbn [glide_run].
  - exists g. reflexivity.
  - destruct o as [t|x]; cbn [glide_step].
    + destruct (set_time_some fs g t Hfs Hg) as (g' & E & Hg'). rewrite E.
      apply IH; assumption.
    + apply IH; [exact Hfs|].
      destruct Hg as (E1 & E2 & E3). unfold glide_process.
      destruct (df1_run (g_lpf g) x) as [d y].
      unfold ginv. cbn [fst g_fs g_max_fc g_min_fc]. repeat split; assumption.
Qed.

Lemma glide_no_panic : forall fs ops, fs_ok fs -> Forall glide_op_ok ops ->
  exists g, glide_run (glide_new fs) ops = Some g.
Proof.
  intros fs ops Hfs _.
  destruct (glide_new_some fs Hfs) as (g0 & E & Hg0). rewrite E.
  apply (glide_run_some fs ops g0 Hfs Hg0).
Qed.

(** * Liveness with the final levels *)

Lemma tick_sustain_same : forall s, InvC s -> a_sustain (adsr_step s ATick) = a_sustain s.
Proof.
  intros s I. unfold adsr_step, adsr_tick. cbv zeta. rewrite a_sustain_wv.
  destruct (tick_advance_weak s (inv_acc s I)) as [(E & _) _]. exact E.
Qed.

Lemma RI_gate_run : forall fs ops o, RI (adsr_step (adsr_run fs ops) o).
Proof.
  intros fs ops o. apply RI_step. split.
  - apply adsr_inv_level.
  - apply (inv_acc _ (adsr_inv_clock fs ops)).
Qed.

Lemma envelope_reaches_sustain : forall fs ops, fs_ok fs ->
  let s := adsr_step (adsr_run fs ops) AGateOn in
  exists n, (Z.of_nat n <= 8388610)%Z /\
    let s' := fold_left adsr_step (repeat ATick n) s in
    a_state s' = Sustain /\ R32 (a_value s') = R32 (a_sustain s').
Proof.
  intros fs ops Hfs s.
  assert (I0 : InvC s) by (apply InvC_step, adsr_inv_clock).
  assert (R0 : RI s) by apply RI_gate_run.
  assert (Ef : pa_fs (a_pa s) = fs) by (unfold s; rewrite step_fs; apply run_fs).
  assert (St : a_state s = Attack) by apply gate_on_spec.
  destruct (finish_phase s I0) as (n1 & Hn1 & I1 & St1 & Ef1);
    [rewrite Ef; exact Hfs | rewrite St; reflexivity|].
  rewrite St in St1. cbn [next_phase] in St1.
  destruct (finish_phase (ticks n1 s) I1) as (n2 & Hn2 & I2 & St2 & Ef2);
    [rewrite Ef1, Ef; exact Hfs | rewrite St1; reflexivity|].
  rewrite St1 in St2. cbn [next_phase] in St2.
  assert (R2 : RI (ticks n2 (ticks n1 s))) by (unfold ticks; apply RI_run, RI_run, R0).
  exists (n1 + n2 + 1)%nat. split; [lia|].
  cbv zeta.
  change (fold_left adsr_step (repeat ATick (n1 + n2 + 1)) s) with (ticks (n1 + n2 + 1) s).
  rewrite !ticks_add.
  set (s2 := ticks n2 (ticks n1 s)) in *.
  change (ticks 1 s2) with (adsr_step s2 ATick).
  pose proof (sustain_shape s2 (conj I2 (proj1 R2)) St2) as H. cbv zeta in H.
  destruct H as [A B]. split; [exact A|].
  rewrite B, (tick_sustain_same s2 I2). reflexivity.
Qed.

Lemma envelope_reaches_rest : forall fs ops, fs_ok fs ->
  let s := adsr_step (adsr_run fs ops) AGateOff in
  a_state s = Release ->
  exists n, (Z.of_nat n <= 4194305)%Z /\
    let s' := fold_left adsr_step (repeat ATick n) s in
    a_state s' = AtRest /\ R32 (a_value s') = 0.
Proof.
  intros fs ops Hfs s St.
  assert (I0 : InvC s) by (apply InvC_step, adsr_inv_clock).
  assert (R0 : RI s) by apply RI_gate_run.
  assert (Ef : pa_fs (a_pa s) = fs) by (unfold s; rewrite step_fs; apply run_fs).
  destruct (finish_phase s I0) as (n1 & Hn1 & I1 & St1 & Ef1);
    [rewrite Ef; exact Hfs | rewrite St; reflexivity|].
  rewrite St in St1. cbn [next_phase] in St1.
  assert (R1 : RI (ticks n1 s)) by (unfold ticks; apply RI_run, R0).
  exists (n1 + 1)%nat. split; [lia|].
  cbv zeta.
  change (fold_left adsr_step (repeat ATick (n1 + 1)) s) with (ticks (n1 + 1) s).
  rewrite ticks_add.
  set (s1 := ticks n1 s) in *.
  change (ticks 1 s1) with (adsr_step s1 ATick).
  pose proof (rest_shape s1 (conj I1 (proj1 R1)) St1) as H. cbv zeta in H.
  exact H.
Qed.
