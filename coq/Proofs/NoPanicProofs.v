(** Proofs for Props/C17.v: no operation panics, overflows or hangs for any in-range
    argument; liveness of the envelope. *)
From Coq Require Import ZArith Reals Lia Lra Psatz Bool List.
Import ListNotations.
From Flocq Require Import Core IEEE754.BinarySingleNaN.
From SU Require Import F32 F32Lemmas.
From SU.gen Require Import Consts.
From SU.Model Require Import Utils PhaseAcc Tables Adsr Lfo Quantizer Midi Glide Ribbon.
From SU.Spec Require Import AdsrSpec QuantSpec MidiSpec RibbonSpec RunSpec.
From SU.Proofs Require Import ClampProofs AdsrClockProofs AdsrLevelProofs.
From SU.Proofs Require LfoProofs QuantProofs MidiParserProofs.
Open Scope R_scope.

(** * A generic invariant argument for [steps_ok] *)

Section Generic.
Context {S O : Type}.
Variables (ok : S -> O -> bool) (step : S -> O -> S).
Variables (I : S -> Prop) (A : O -> Prop).
Hypothesis Hstep : forall s o, I s -> A o -> I (step s o).
Hypothesis Hok : forall s o, I s -> A o -> ok s o = true.

Lemma steps_ok_inv : forall ops s, I s -> Forall A ops -> steps_ok ok step s ops = true.
Proof.
  induction ops as [|o ops IH]; intros s Hs Hops; cbn [steps_ok].
  - reflexivity.
  - inversion Hops as [|? ? Ho Hr]; subst.
    rewrite (Hok s o Hs Ho). cbn [andb]. apply IH; [apply Hstep; assumption | exact Hr].
Qed.
End Generic.

Lemma Forall_True : forall {O : Type} (l : list O), Forall (fun _ => True) l.
Proof. intros O l. apply Forall_forall. intros; exact Logic.I. Qed.

(** * Envelope *)

Lemma attack_table_length : length attack_table = 1024%nat.
Proof. vm_compute. reflexivity. Qed.

Lemma decay_table_length : length decay_table = 1024%nat.
Proof. vm_compute. reflexivity. Qed.

Lemma step_fs : forall s o, pa_fs (a_pa (adsr_step s o)) = pa_fs (a_pa s).
Proof.
  intros s o. destruct o; try reflexivity.
  - apply (tick_params s).
  - unfold adsr_step, adsr_gate_on. destruct (a_state s); reflexivity.
  - unfold adsr_step, adsr_gate_off. destruct (a_state s); reflexivity.
Qed.

Lemma fold_fs : forall ops s, pa_fs (a_pa (fold_left adsr_step ops s)) = pa_fs (a_pa s).
Proof.
  induction ops as [|o ops IH]; intros s; cbn [fold_left].
  - reflexivity.
  - rewrite IH. apply step_fs.
Qed.

Lemma run_fs : forall fs ops, pa_fs (a_pa (adsr_run fs ops)) = fs.
Proof. intros fs ops. unfold adsr_run. rewrite fold_fs. reflexivity. Qed.

Lemma frac_bits_adsr : frac_bits TOT IDX = 14%Z.
Proof. reflexivity. Qed.

Lemma adsr_tick_no_panic : forall s, InvC s -> fs_ok (pa_fs (a_pa s)) -> adsr_tick_ok s = true.
Proof.
  intros s I Hfs. unfold adsr_tick_ok. apply andb_true_intro. split.
  - destruct (timed (a_state s)) eqn:T; [|reflexivity].
    unfold pa_tick_ok. rewrite set_period_inc.
    change (pa_acc (pa_set_period TOT (a_pa s) (period_of s))) with (pa_acc (a_pa s)).
    pose proof (adsr_inc_bounds s I Hfs) as Hi. pose proof (inv_acc s I) as Ha.
    apply Z.leb_le. unfold U32_MAX. lia.
  - cbv zeta.
    destruct (tick_advance_weak s (inv_acc s I)) as [_ Ha1]. unfold acc_ok in Ha1.
    set (s1 := tick_advance s) in *.
    unfold pa_index. rewrite frac_bits_adsr.
    destruct (idx_frac _ Ha1) as (E1 & _ & Hi & _). rewrite E1.
    set (i := (pa_acc (a_pa s1) / 16384)%Z) in *.
    pose proof (next_idx_range i Hi) as Hn.
    destruct (timed (a_state s1)).
    + unfold tbl_ok. rewrite attack_table_length, decay_table_length.
      change (Z.of_nat 1024) with 1024%Z.
      rewrite !andb_true_iff. repeat split;
        try (apply Z.leb_le; lia); apply Z.ltb_lt; lia.
    + apply Z.leb_le. lia.
Qed.

Lemma adsr_no_panic : forall fs ops, fs_ok fs ->
  steps_ok adsr_step_ok adsr_step (adsr_new fs) ops = true.
Proof.
  intros fs ops Hfs.
  apply (steps_ok_inv adsr_step_ok adsr_step
           (fun s => InvC s /\ pa_fs (a_pa s) = fs) (fun _ => True)).
  - intros s o [I E] _. split; [apply InvC_step, I | rewrite step_fs; exact E].
  - intros s o [I E] _. destruct o; try reflexivity.
    cbn [adsr_step_ok]. apply adsr_tick_no_panic; [exact I | rewrite E; exact Hfs].
  - split; [apply InvC_new | reflexivity].
  - apply Forall_True.
Qed.

(** * LFO *)

Definition linv (fs : f32) (l : lfo) : Prop :=
  (0 <= pa_acc l < 16777216)%Z /\ (0 <= pa_inc l <= 16777216)%Z /\ pa_fs l = fs.

Lemma linv_step : forall fs l o, fs_ok fs -> linv fs l -> lfo_op_ok fs o -> linv fs (lfo_step l o).
Proof.
  intros fs l o [Ffs Bfs] (Ha & Hi & Ef) Ho.
  split; [apply LfoProofs.step_acc_range; exact Ha|].
  destruct o as [|f|p|].
  - destruct (LfoProofs.tick_exact l Ha Hi) as (_ & E & _). rewrite E.
    split; [exact Hi | exact Ef].
  - cbn [lfo_op_ok] in Ho. destruct Ho as [Ff Hf].
    split; [|exact Ef].
    apply (LfoProofs.increment_bounds l f Ff); rewrite Ef; assumption.
  - split; [exact Hi | exact Ef].
  - split; [exact Hi | exact Ef].
Qed.

Lemma lfo_no_panic : forall fs ops, fs_ok fs -> Forall (lfo_op_ok fs) ops ->
  steps_ok lfo_step_ok lfo_step (lfo_new fs) ops = true /\
  lfo_get_ok (lfo_run fs ops) = true.
Proof.
  intros fs ops Hfs Hops. split.
  - apply (steps_ok_inv lfo_step_ok lfo_step (linv fs) (lfo_op_ok fs)).
    + intros s o Hs Ho. apply linv_step; assumption.
    + intros s o (Ha & Hi & _) _. destruct o; try reflexivity.
      apply (LfoProofs.tick_exact s Ha Hi).
    + unfold linv, lfo_new, pa_new. cbn [pa_acc pa_inc pa_fs]. repeat split; lia.
    + exact Hops.
  - apply LfoProofs.lfo_get_no_panic, LfoProofs.lfo_acc_range.
Qed.

(** * Quantizer *)

Lemma quant_run_gen : forall rest pre, wf_ops (pre ++ rest) ->
  steps_ok quant_step_ok quant_step (qrun pre) rest = true.
Proof.
  induction rest as [|o r IH]; intros pre Hwf; cbn [steps_ok].
  - reflexivity.
  - assert (Hpre : wf_ops pre /\ wf_op o).
    { unfold wf_ops in *. apply Forall_app in Hwf. destruct Hwf as [H1 H2].
      inversion H2; subst. split; assumption. }
    destruct Hpre as [Hpre Ho].
    rewrite (QuantProofs.quant_no_panic pre o Hpre Ho). cbn [andb].
    replace (quant_step (qrun pre) o) with (qrun (pre ++ [o])).
    + apply IH. rewrite <- app_assoc. exact Hwf.
    + unfold qrun. rewrite fold_left_app. reflexivity.
Qed.

Lemma quant_run_no_panic : forall ops, wf_ops ops ->
  steps_ok quant_step_ok quant_step quant_new ops = true.
Proof. intros ops H. apply (quant_run_gen ops []). exact H. Qed.

(** * MIDI *)

Lemma midi_no_panic : forall ch ops, Forall rx_op_ok ops ->
  steps_ok rx_step_ok (fun r o => fst (rx_step r o)) (rx_new ch) ops = true.
Proof.
  intros ch ops Hops.
  apply (steps_ok_inv rx_step_ok (fun r o => fst (rx_step r o)) (fun _ => True) rx_op_ok).
  - intros; exact Logic.I.
  - intros r o _ Ho. destruct o as [b| | |p|b]; try reflexivity.
    cbn [rx_op_ok] in Ho. unfold rx_step_ok, parse_byte_ok.
    destruct (is_status_byte b) eqn:Hs; [reflexivity|].
    apply Z.leb_le. apply MidiParserProofs.data_small; assumption.
  - exact Logic.I.
  - exact Hops.
Qed.
