(** C09 restated without the model's own branch condition.

    [C09_keep] / [C09_memoryless] (Props/C09.v) carry the hypothesis [keeps q v = true / false],
    and [keeps] (Spec/QuantSpec.v) is literally the condition of the [if] in [convert].
    This file gives, for every REACHABLE quantizer,
    1. [keeps_iff]: an independent, real-valued characterisation of that condition
       (a conversion happened, the cached note is allowed, the clamped input is strictly
       between the two f32 window bounds), the real values of those bounds ([win_bounds]),
       and the initial state ([keeps_initial], [cache_initial_iff]);
    2. [C09_keep_real] / [C09_memoryless_real]: the two clauses of the property with the
       bucket [n/12, (n+1)/12] widened by 1/120 V written out over the reals
       (up to the f32 rounding of the bounds, 2^-19 V), no reference to [keeps];
    3. closed examples instantiating both. *)
From Coq Require Import ZArith Bool List Reals Lia Lra.
Import ListNotations.
From Flocq Require Import Core IEEE754.BinarySingleNaN.
From SU Require Import F32 F32Lemmas.
From SU.gen Require Import Consts.
From SU.Model Require Import Quantizer.
From SU.Spec Require Import QuantSpec.
From SU.Proofs Require Import QuantFloat QuantScan QuantProofs QuantHystProofs
  QuantRecordProofs QuantExtraProofs QuantKillers.
Open Scope Z_scope.

(** * 0. "the quantizer has converted at least once" *)

Definition is_convert (o : quant_op) : bool :=
  match o with QConvert _ => true | _ => false end.

(** does the call history contain a [convert] call? *)
Definition has_convert (ops : list quant_op) : bool := existsb is_convert ops.

Lemma has_convert_iff : forall ops,
  has_convert ops = true <-> exists v, In (QConvert v) ops.
Proof.
  intros ops. unfold has_convert. rewrite existsb_exists. split.
  - intros [o [Hin Ho]]. destruct o as [ns|ns|v]; cbn [is_convert] in Ho; try discriminate Ho.
    exists v. exact Hin.
  - intros [v Hin]. exists (QConvert v). split; [exact Hin|reflexivity].
Qed.

(** the stairstep of a real note is never the sentinel [f32::MIN] of [Conversion::default] *)
Lemma stair_not_sentinel : forall N, 0 <= N <= 131 -> stair_of N <> f_MIN.
Proof.
  intros N HN E.
  destruct (window_ineq N HN) as [[Hlo _] _].
  assert (HN0 : (0 <= IZR N)%R) by (apply IZR_le; lia).
  unfold win_lo in Hlo. rewrite E in Hlo.
  assert (Hs : (R32 (fsub f_MIN HYST) < -1)%R) by (r32_const (fsub f_MIN HYST); lra).
  lra.
Qed.

Lemma convert_not_sentinel : forall q v,
  valid_mask (q_allowed q) -> cached_ok (q_cached q) ->
  q_cached (fst (convert q v)) <> conv_new.
Proof.
  intros q v Ha Hc E.
  destruct (convert_shape q v Ha Hc) as [N [HN [E1 [E2 _]]]].
  rewrite E2 in E. cbn [q_cached] in E. rewrite E1 in E.
  apply (f_equal c_stair) in E. unfold conv_new in E. cbn [c_stair] in E.
  exact (stair_not_sentinel N HN E).
Qed.

Lemma run_sentinel_iff : forall ops q,
  wf_ops ops -> valid_mask (q_allowed q) -> cached_ok (q_cached q) ->
  (q_cached (fold_left quant_step ops q) = conv_new <->
   (q_cached q = conv_new /\ has_convert ops = false)).
Proof.
  intros ops. induction ops as [|o ops IH]; intros q Hwf Ha Hc.
  - cbn [fold_left]. unfold has_convert. cbn [existsb]. tauto.
  - inversion Hwf as [|? ? Ho Hops]; subst.
    cbn [fold_left].
    pose proof (step_valid q o Ho Ha) as Ha'.
    pose proof (step_cached_ok q o Ha Hc) as Hc'.
    rewrite (IH (quant_step q o) Hops Ha' Hc').
    change (has_convert (o :: ops)) with (is_convert o || has_convert ops).
    pose proof (KQ_edit_keeps_cache q o) as Hk.
    destruct o as [ns|ns|v]; cbn [is_convert orb].
    + rewrite Hk. tauto.
    + rewrite Hk. tauto.
    + cbn [quant_step]. split.
      * intros [E _]. exfalso. exact (convert_not_sentinel q v Ha Hc E).
      * intros [_ E]. discriminate E.
Qed.

(** the cache of a reachable quantizer is the initial record exactly when no [convert]
    call has happened yet *)
Theorem cache_initial_iff : forall ops, wf_ops ops ->
  (q_cached (qrun ops) = conv_new <-> has_convert ops = false).
Proof.
  intros ops Hwf. unfold qrun.
  rewrite (run_sentinel_iff ops quant_new Hwf).
  - cbn [quant_new q_cached]. tauto.
  - unfold valid_mask. cbn [quant_new q_allowed]. lia.
  - left. reflexivity.
Qed.

Corollary cache_converted_iff : forall ops, wf_ops ops ->
  (q_cached (qrun ops) <> conv_new <-> has_convert ops = true).
Proof.
  intros ops Hwf. rewrite (cache_initial_iff ops Hwf).
  destruct (has_convert ops); split; intros H.
  - reflexivity.
  - intros H'. discriminate H'.
  - exfalso. apply H. reflexivity.
  - discriminate H.
Qed.

(** after at least one conversion the cached record is a real one *)
Lemma converted_cached : forall ops, wf_ops ops -> has_convert ops = true ->
  let c := q_cached (qrun ops) in
  0 <= c_note c <= 131 /\ c_stair c = stair_of (c_note c).
Proof.
  intros ops Hwf Hh c. subst c.
  destruct (cached_invariant ops Hwf) as [Hc|Hc]; [|exact Hc].
  apply (cache_initial_iff ops Hwf) in Hc. rewrite Hc in Hh. discriminate Hh.
Qed.

(** * 1. The branch condition, independently *)

(** nothing converted yet: the sentinel stairstep makes the window empty, for every mask
    and every input (finite or not) *)
Theorem keeps_initial : forall q v, q_cached q = conv_new -> keeps q v = false.
Proof.
  intros q v Hc. unfold keeps. rewrite Hc, in_window_fresh. apply andb_false_r.
Qed.

Corollary keeps_initial_run : forall ops v, wf_ops ops -> has_convert ops = false ->
  keeps (qrun ops) v = false.
Proof.
  intros ops v Hwf Hh. apply keeps_initial. apply (cache_initial_iff ops Hwf). exact Hh.
Qed.

(** reachable quantizer, stated on the cache *)
Theorem keeps_iff_cache : forall ops v, wf_ops ops ->
  let q := qrun ops in
  let n := c_note (q_cached q) in
  keeps q v = true <->
  (q_cached q <> conv_new /\ note_allowed (q_allowed q) n = true /\
   (R32 (win_lo n) < R32 (clamp_vin v) < R32 (win_hi n))%R).
Proof.
  intros ops v Hwf q n. subst q n.
  pose proof (cached_invariant ops Hwf) as Hc.
  split.
  - intros K.
    destruct (keeps_cached (qrun ops) v Hc K) as [HN [Hst [Al W]]]. cbv zeta in HN, Hst, Al, W.
    split; [|split; [exact Al|exact W]].
    intros E. rewrite (keeps_initial (qrun ops) v E) in K. discriminate K.
  - intros [Hne [Al W]].
    destruct Hc as [Hc|[HN Hst]]; [contradiction|].
    apply keeps_intro; [exact Al|].
    apply (in_window_iff (q_cached (qrun ops)) _ (clamp_vin v) HN Hst).
    split; [exact (proj1 (clamp_vin_range v))|exact W].
Qed.

(** reachable quantizer, stated on the call history *)
Theorem keeps_iff : forall ops v, wf_ops ops ->
  let q := qrun ops in
  let n := c_note (q_cached q) in
  keeps q v = true <->
  (has_convert ops = true /\ note_allowed (q_allowed q) n = true /\
   (R32 (win_lo n) < R32 (clamp_vin v) < R32 (win_hi n))%R).
Proof.
  intros ops v Hwf q n. subst q n.
  rewrite (keeps_iff_cache ops v Hwf). cbv zeta.
  rewrite (cache_converted_iff ops Hwf). tauto.
Qed.

(** the real values of the two f32 bounds: the semitone bucket [n/12, (n+1)/12] widened by
    1/120 V (a tenth of a semitone) on each side, up to 2^-19 V of f32 rounding *)
Theorem win_bounds : forall n, 0 <= n <= 131 ->
  (Rabs (R32 (win_lo n) - (IZR n / 12 - / 120)) <= / 524288 /\
   Rabs (R32 (win_hi n) - (IZR (n + 1) / 12 + / 120)) <= / 524288)%R.
Proof. exact window_bounds. Qed.

(** the clamped input of the statements above, over the reals: finite inputs *)
Lemma clamp_real : forall v : f32, fin v -> R32 (clamp_vin v) = Rmin (Rmax (R32 v) 0) 10.
Proof. exact clamp_vin_fin. Qed.

(** * 2. The two clauses of C09 without [keeps] *)

(** reachable quantizer that has converted, cached note [n] still allowed, clamped input
    strictly inside the widened bucket shrunk by the rounding margin: the note (and the
    stairstep) is unchanged *)
Theorem C09_keep_real : forall ops v, wf_ops ops ->
  let q := qrun ops in
  let n := c_note (q_cached q) in
  has_convert ops = true ->
  note_allowed (q_allowed q) n = true ->
  (IZR n / 12 - / 120 + / 524288 < R32 (clamp_vin v)
     < IZR (n + 1) / 12 + / 120 - / 524288)%R ->
  c_note (snd (convert q v)) = n /\
  c_stair (snd (convert q v)) = c_stair (q_cached q) /\
  q_cached (fst (convert q v)) = snd (convert q v) /\
  q_allowed (fst (convert q v)) = q_allowed q.
Proof.
  intros ops v Hwf q n Hh Al Hv. subst q n.
  destruct (converted_cached ops Hwf Hh) as [HN _]. cbv zeta in HN.
  destruct (win_bounds _ HN) as [Blo Bhi].
  apply Rabs_le_inv in Blo. apply Rabs_le_inv in Bhi.
  assert (K : keeps (qrun ops) v = true).
  { apply (keeps_iff ops v Hwf). split; [exact Hh|]. split; [exact Al|]. lra. }
  exact (keep_spec (qrun ops) v K).
Qed.

(** reachable quantizer; nothing converted yet, OR the cached note is no longer allowed, OR
    the clamped input is at or beyond the widened bucket grown by the rounding margin: the
    returned record is exactly the one a history-free quantizer with the same scale returns *)
Theorem C09_memoryless_real : forall ops v, wf_ops ops ->
  let q := qrun ops in
  let n := c_note (q_cached q) in
  (has_convert ops = false \/
   note_allowed (q_allowed q) n = false \/
   (R32 (clamp_vin v) <= IZR n / 12 - / 120 - / 524288)%R \/
   (IZR (n + 1) / 12 + / 120 + / 524288 <= R32 (clamp_vin v))%R) ->
  snd (convert q v) = snd (convert (mkQuant conv_new (q_allowed q)) v) /\
  q_cached (fst (convert q v)) = snd (convert q v) /\
  q_allowed (fst (convert q v)) = q_allowed q.
Proof.
  intros ops v Hwf q n Hcase. subst q n.
  apply memoryless_spec.
  destruct (keeps (qrun ops) v) eqn:K; [exfalso|reflexivity].
  pose proof (proj1 (keeps_iff ops v Hwf) K) as [Hh [Al W]]. cbv zeta in Al, W.
  destruct (converted_cached ops Hwf Hh) as [HN _]. cbv zeta in HN.
  destruct (win_bounds _ HN) as [Blo Bhi].
  apply Rabs_le_inv in Blo. apply Rabs_le_inv in Bhi.
  destruct Hcase as [H|[H|[H|H]]].
  - rewrite H in Hh. discriminate Hh.
  - rewrite H in Al. discriminate Al.
  - lra.
  - lra.
Qed.

(** the same two clauses for finite inputs with the clamp written out:
    [min (max v 0) 10] over the reals *)
Corollary C09_keep_real_fin : forall ops v, wf_ops ops -> fin v ->
  let q := qrun ops in
  let n := c_note (q_cached q) in
  has_convert ops = true ->
  note_allowed (q_allowed q) n = true ->
  (IZR n / 12 - / 120 + / 524288 < Rmin (Rmax (R32 v) 0) 10
     < IZR (n + 1) / 12 + / 120 - / 524288)%R ->
  c_note (snd (convert q v)) = n.
Proof.
  intros ops v Hwf Fv q n Hh Al Hv. subst q n.
  rewrite <- (clamp_real v Fv) in Hv.
  exact (proj1 (C09_keep_real ops v Hwf Hh Al Hv)).
Qed.

Corollary C09_memoryless_real_fin : forall ops v, wf_ops ops -> fin v ->
  let q := qrun ops in
  let n := c_note (q_cached q) in
  (has_convert ops = false \/
   note_allowed (q_allowed q) n = false \/
   (Rmin (Rmax (R32 v) 0) 10 <= IZR n / 12 - / 120 - / 524288)%R \/
   (IZR (n + 1) / 12 + / 120 + / 524288 <= Rmin (Rmax (R32 v) 0) 10)%R) ->
  snd (convert q v) = snd (convert (mkQuant conv_new (q_allowed q)) v).
Proof.
  intros ops v Hwf Fv q n Hcase. subst q n.
  rewrite <- (clamp_real v Fv) in Hcase.
  exact (proj1 (C09_memoryless_real ops v Hwf Hcase)).
Qed.

(** non-finite inputs: NaN and -inf clamp to +0.0, +inf to 10.0 (see [clamp_vin_spec]) *)
Lemma clamp_nonfinite :
  clamp_vin B754_nan = f_0 /\ clamp_vin (B754_infinity true) = f_0 /\
  clamp_vin (B754_infinity false) = V_MAX /\ R32 f_0 = 0%R /\ R32 V_MAX = 10%R.
Proof.
  split; [exact clamp_vin_nan|]. split; [exact clamp_vin_ninf|].
  split; [exact clamp_vin_pinf|]. split; [exact R32_f_0|exact R32_V_MAX].
Qed.

(** * 3. Examples *)

Lemma wf_one_forbid : forall v ns, u8_notes ns -> wf_ops [QConvert v; QForbid ns].
Proof.
  intros v ns H. unfold wf_ops. constructor; [exact I|]. constructor; [exact H|constructor].
Qed.

(** closes [lo < R32 (clamp_vin x) < hi] / one-sided variants for a closed float [x] *)
Ltac clamp_const x := r32_const (clamp_vin x); simpl IZR; lra.

(** [C09_keep_real] instantiated: 0.5 V was converted (note 6), then 0.496 V arrives.
    0.496 lies below the bucket [0.5, 0.5833] but inside the widened one, every premise
    holds, so the theorem gives note 6; a history-free quantizer reports 5 *)
Example ex_keep_real :
  let ops := [QConvert v_0_5] in
  let q := qrun ops in
  wf_ops ops /\ has_convert ops = true /\ c_note (q_cached q) = 6 /\
  note_allowed (q_allowed q) 6 = true /\
  (IZR 6 / 12 - / 120 + / 524288 < R32 (clamp_vin v_0_496)
     < IZR (6 + 1) / 12 + / 120 - / 524288)%R /\
  c_note (snd (convert q v_0_496)) = 6 /\
  c_note (snd (convert (mkQuant conv_new (q_allowed q)) v_0_496)) = 5 /\
  keeps q v_0_496 = true.
Proof.
  cbv zeta.
  assert (Hwf : wf_ops [QConvert v_0_5]) by exact (wf_convert_only [v_0_5]).
  assert (Hh : has_convert [QConvert v_0_5] = true) by reflexivity.
  assert (Hn : c_note (q_cached (qrun [QConvert v_0_5])) = 6) by (vm_compute; reflexivity).
  assert (Al : note_allowed (q_allowed (qrun [QConvert v_0_5])) 6 = true)
    by (vm_compute; reflexivity).
  assert (Hv : (IZR 6 / 12 - / 120 + / 524288 < R32 (clamp_vin v_0_496)
                  < IZR (6 + 1) / 12 + / 120 - / 524288)%R) by clamp_const v_0_496.
  split; [exact Hwf|]. split; [exact Hh|]. split; [exact Hn|]. split; [exact Al|].
  split; [exact Hv|]. split.
  - pose proof (C09_keep_real [QConvert v_0_5] v_0_496 Hwf) as T. cbv zeta in T.
    rewrite Hn in T. exact (proj1 (T Hh Al Hv)).
  - split; vm_compute; reflexivity.
Qed.

(** [C09_memoryless_real], input beyond the widened bucket: after 0.5 V (note 6), 0.7 V is
    above 7/12 + 1/120 + 2^-19; the record equals the history-free one (note 8) *)
Example ex_memoryless_real_above :
  let ops := [QConvert v_0_5] in
  let q := qrun ops in
  wf_ops ops /\ c_note (q_cached q) = 6 /\
  (IZR (6 + 1) / 12 + / 120 + / 524288 <= R32 (clamp_vin v_0_7))%R /\
  snd (convert q v_0_7) = snd (convert (mkQuant conv_new (q_allowed q)) v_0_7) /\
  c_note (snd (convert q v_0_7)) = 8 /\ keeps q v_0_7 = false.
Proof.
  cbv zeta.
  assert (Hwf : wf_ops [QConvert v_0_5]) by exact (wf_convert_only [v_0_5]).
  assert (Hn : c_note (q_cached (qrun [QConvert v_0_5])) = 6) by (vm_compute; reflexivity).
  assert (Hv : (IZR (6 + 1) / 12 + / 120 + / 524288 <= R32 (clamp_vin v_0_7))%R)
    by clamp_const v_0_7.
  split; [exact Hwf|]. split; [exact Hn|]. split; [exact Hv|]. split.
  - pose proof (C09_memoryless_real [QConvert v_0_5] v_0_7 Hwf) as T. cbv zeta in T.
    rewrite Hn in T. apply T. right. right. right. exact Hv.
  - split; vm_compute; reflexivity.
Qed.

(** ... and below it: 0.25 V is under 6/12 - 1/120 - 2^-19 (note 3) *)
Example ex_memoryless_real_below :
  let ops := [QConvert v_0_5] in
  let q := qrun ops in
  wf_ops ops /\ c_note (q_cached q) = 6 /\
  (R32 (clamp_vin v_0_25) <= IZR 6 / 12 - / 120 - / 524288)%R /\
  snd (convert q v_0_25) = snd (convert (mkQuant conv_new (q_allowed q)) v_0_25) /\
  c_note (snd (convert q v_0_25)) = 3.
Proof.
  cbv zeta.
  assert (Hwf : wf_ops [QConvert v_0_5]) by exact (wf_convert_only [v_0_5]).
  assert (Hn : c_note (q_cached (qrun [QConvert v_0_5])) = 6) by (vm_compute; reflexivity).
  assert (Hv : (R32 (clamp_vin v_0_25) <= IZR 6 / 12 - / 120 - / 524288)%R)
    by clamp_const v_0_25.
  split; [exact Hwf|]. split; [exact Hn|]. split; [exact Hv|]. split.
  - pose proof (C09_memoryless_real [QConvert v_0_5] v_0_25 Hwf) as T. cbv zeta in T.
    rewrite Hn in T. apply T. right. right. left. exact Hv.
  - vm_compute; reflexivity.
Qed.

(** [C09_memoryless_real], cached note no longer allowed: 0.5 V (note 6), then F# is
    forbidden, then 0.50417 V -- well inside the window of note 6 -- arrives: the record is
    the history-free one (note 7) *)
Example ex_memoryless_real_forbidden :
  let ops := [QConvert v_0_5; QForbid [6]] in
  let q := qrun ops in
  wf_ops ops /\ has_convert ops = true /\ c_note (q_cached q) = 6 /\
  note_allowed (q_allowed q) 6 = false /\
  (IZR 6 / 12 - / 120 + / 524288 < R32 (clamp_vin v_0_5042)
     < IZR (6 + 1) / 12 + / 120 - / 524288)%R /\
  snd (convert q v_0_5042) = snd (convert (mkQuant conv_new (q_allowed q)) v_0_5042) /\
  c_note (snd (convert q v_0_5042)) = 7 /\ keeps q v_0_5042 = false.
Proof.
  cbv zeta.
  assert (Hwf : wf_ops [QConvert v_0_5; QForbid [6]]).
  { apply wf_one_forbid. unfold u8_notes. repeat constructor; lia. }
  assert (Hn : c_note (q_cached (qrun [QConvert v_0_5; QForbid [6]])) = 6)
    by (vm_compute; reflexivity).
  assert (Al : note_allowed (q_allowed (qrun [QConvert v_0_5; QForbid [6]])) 6 = false)
    by (vm_compute; reflexivity).
  split; [exact Hwf|]. split; [reflexivity|]. split; [exact Hn|]. split; [exact Al|].
  split; [clamp_const v_0_5042|]. split.
  - pose proof (C09_memoryless_real [QConvert v_0_5; QForbid [6]] v_0_5042 Hwf) as T.
    cbv zeta in T. rewrite Hn in T. apply T. right. left. exact Al.
  - split; vm_compute; reflexivity.
Qed.

(** [C09_memoryless_real], nothing converted yet (only a scale edit so far) *)
Example ex_memoryless_real_initial :
  let ops := [QAllow [3]] in
  let q := qrun ops in
  wf_ops ops /\ has_convert ops = false /\ q_cached q = conv_new /\
  snd (convert q v_0_0834) = snd (convert (mkQuant conv_new (q_allowed q)) v_0_0834) /\
  c_note (snd (convert q v_0_0834)) = 1 /\ keeps q v_0_0834 = false.
Proof.
  cbv zeta.
  assert (Hwf : wf_ops [QAllow [3]]).
  { unfold wf_ops. constructor; [|constructor]. cbn [wf_op]. unfold u8_notes.
    repeat constructor; lia. }
  assert (Hh : has_convert [QAllow [3]] = false) by reflexivity.
  split; [exact Hwf|]. split; [exact Hh|]. split; [reflexivity|]. split.
  - pose proof (C09_memoryless_real [QAllow [3]] v_0_0834 Hwf) as T. cbv zeta in T.
    apply T. left. exact Hh.
  - split; [vm_compute; reflexivity|].
    exact (keeps_initial_run [QAllow [3]] v_0_0834 Hwf Hh).
Qed.

(** the hypothesis "has converted at least once" of [C09_keep_real] cannot be dropped: in
    the initial state the cached note number is 0, note 0 is allowed, 0.0834 V lies strictly
    inside the widened bucket of note 0 ((-1/120, 1/12 + 1/120)) -- and the reported note is 1 *)
Example keep_real_needs_conversion :
  let ops := @nil quant_op in
  let q := qrun ops in
  wf_ops ops /\ has_convert ops = false /\ c_note (q_cached q) = 0 /\
  note_allowed (q_allowed q) 0 = true /\
  (IZR 0 / 12 - / 120 + / 524288 < R32 (clamp_vin v_0_0834)
     < IZR (0 + 1) / 12 + / 120 - / 524288)%R /\
  c_note (snd (convert q v_0_0834)) = 1.
Proof.
  cbv zeta. split; [constructor|]. split; [reflexivity|]. split; [reflexivity|].
  split; [vm_compute; reflexivity|]. split; [clamp_const v_0_0834|].
  vm_compute; reflexivity.
Qed.

(** [keeps_iff] read right to left on closed data: the three real-valued / boolean facts
    hold, hence the branch is taken -- and the directly computed branch condition agrees *)
Example ex_keeps_iff :
  let ops := [QConvert v_0_5] in
  let q := qrun ops in
  (R32 (win_lo 6) < R32 (clamp_vin v_0_496) < R32 (win_hi 6))%R /\
  keeps q v_0_496 = true /\
  ~ (R32 (win_lo 6) < R32 (clamp_vin v_0_7) < R32 (win_hi 6))%R /\
  keeps q v_0_7 = false /\
  to_bits (win_lo 6) = Some 1056684988 /\ to_bits (win_hi 6) = Some 1058502519.
Proof.
  cbv zeta.
  assert (Hwf : wf_ops [QConvert v_0_5]) by exact (wf_convert_only [v_0_5]).
  assert (Hn : c_note (q_cached (qrun [QConvert v_0_5])) = 6) by (vm_compute; reflexivity).
  assert (W1 : (R32 (win_lo 6) < R32 (clamp_vin v_0_496) < R32 (win_hi 6))%R).
  { r32_const (win_lo 6). r32_const (win_hi 6). clamp_const v_0_496. }
  assert (W2 : ~ (R32 (win_lo 6) < R32 (clamp_vin v_0_7) < R32 (win_hi 6))%R).
  { r32_const (win_hi 6). r32_const (clamp_vin v_0_7). simpl IZR. lra. }
  split; [exact W1|]. split.
  - apply (keeps_iff [QConvert v_0_5] v_0_496 Hwf). rewrite Hn.
    split; [reflexivity|]. split; [vm_compute; reflexivity|exact W1].
  - split; [exact W2|]. split.
    + destruct (keeps (qrun [QConvert v_0_5]) v_0_7) eqn:K; [exfalso|reflexivity].
      apply (keeps_iff [QConvert v_0_5] v_0_7 Hwf) in K. rewrite Hn in K.
      exact (W2 (proj2 (proj2 K))).
    + split; vm_compute; reflexivity.
Qed.
