(** Ribbon controller: theorems that pin what the C15 / C16 theorems leave symbolic.

    [C15_press_spec] and [C16_value_window] are stated in terms of [rb_ignore r0] and
    [rb_discard r0], i.e. of whatever the constructor put there.  A constructor that
    used the wrong time constant (a settling time of 2 ms instead of 1 ms, say) satisfies
    every one of them.  The theorems below state the counts themselves, in samples, for
    the times the source documents (RIBBON_FALL_TIME_USEC = 1000, RIBBON_RISE_TIME_USEC =
    2000, MIN_CAPTURE_TIME_USEC = 15000), and restate the press rule and the size of the
    contributing window with those numbers over the property's quantifier. *)
From Coq Require Import ZArith Reals Lia Bool List.
From SU Require Import F32 F32Lemmas.
From SU.gen Require Import Consts.
From SU.Model Require Import Ribbon.
From SU.Spec Require Import RibbonSpec.
From SU.Proofs Require Import RibbonProofs NoPanicProofs RibbonExtraProofs.
Import ListNotations.
Open Scope Z_scope.

(** ** the constructor: settling samples, finger-lift allowance, initial state *)

(** settling time 1 ms, finger-lift allowance 2 ms, both rounded down to whole samples *)
Theorem ribbon_new_times : forall cap fs sp dr pu,
  let r0 := ribbon_new cap fs sp dr pu in
  rb_ignore r0 = (to_u32 fs * 1000) / 1000000 /\
  rb_discard r0 = (to_u32 fs * 2000) / 1000000.
Proof. intros. split; reflexivity. Qed.

(** the same against the constants generated from the source *)
Theorem ribbon_new_times_consts : forall cap fs sp dr pu,
  let r0 := ribbon_new cap fs sp dr pu in
  rb_ignore r0 = usec_to_samples (to_u32 fs) RIBBON_FALL_TIME_USEC /\
  rb_discard r0 = usec_to_samples (to_u32 fs) RIBBON_RISE_TIME_USEC /\
  RIBBON_FALL_TIME_USEC = 1000 /\ RIBBON_RISE_TIME_USEC = 2000 /\
  MIN_CAPTURE_TIME_USEC = 15000.
Proof. intros. repeat split; reflexivity. Qed.

(** for an integer sample rate the counts are fs / 1000 and fs / 500 *)
Theorem ribbon_new_times_int : forall cap (fs : Z) sp dr pu,
  100 <= fs <= 192000 ->
  let r0 := ribbon_new cap (of_Z fs) sp dr pu in
  rb_ignore r0 = fs / 1000 /\ rb_discard r0 = fs / 500.
Proof.
  intros cap fs sp dr pu Hfs r0.
  destruct (ribbon_new_times cap (of_Z fs) sp dr pu) as [E1 E2].
  fold r0 in E1, E2. rewrite E1, E2.
  rewrite to_u32_of_Z by lia.
  split.
  - replace (fs * 1000) with (fs * 1000 + 0) by lia.
    replace 1000000 with (1000 * 1000) by reflexivity.
    rewrite Z.add_0_r. rewrite Z.div_mul_cancel_r by lia. reflexivity.
  - replace 1000000 with (500 * 2000) by reflexivity.
    rewrite Z.div_mul_cancel_r by lia. reflexivity.
Qed.

(** the helper: capture time 15 ms plus the finger-lift allowance plus one sample *)
Theorem capacity_value : forall fs : Z,
  sample_rate_to_capacity fs = (fs * 15000) / 1000000 + (fs * 2000) / 1000000 + 1.
Proof. reflexivity. Qed.

(** a fresh controller: nothing pressed, no pending edge, value 0 *)
Theorem ribbon_new_state : forall cap fs sp dr pu,
  let r0 := ribbon_new cap fs sp dr pu in
  rb_cap r0 = cap /\ rb_pressing r0 = false /\
  rb_just_pressed r0 = false /\ rb_just_released r0 = false /\
  rb_val r0 = f_0 /\ ribbon_value r0 = fmin (fdiv f_0 (rb_boundary r0)) f_1 /\
  rb_boundary r0 = fsub f_1 (fdiv dr (fadd dr sp)) /\
  rb_err r0 = fdiv (fadd sp dr) pu.
Proof. intros. repeat split; reflexivity. Qed.

(** ** C15 with the numbers: over the property's quantifier (helper-sized buffer, integer
    rate in [100 Hz, 192 kHz]) a press is reported exactly when the current unbroken run
    of in-range samples is at least
      max (fs/1000 - 1, 0)                      settling samples skipped
      + (15 fs / 1000 + 2 fs / 1000 + 1)        the whole capture buffer
    long. *)
Theorem press_after_capture_time : forall (fs : Z) sp dr pu samples,
  100 <= fs <= 192000 ->
  let cap := Z.to_nat (sample_rate_to_capacity fs) in
  let r0 := ribbon_new cap (of_Z fs) sp dr pu in
  rb_pressing (polls r0 samples)
  = (Z.max (fs / 1000 - 1) 0 + (fs * 15 / 1000 + fs / 500 + 1)
     <=? run_len (in_range r0) samples).
Proof.
  intros fs sp dr pu samples Hfs cap r0.
  destruct (capacity_discard fs Hfs) as [_ Hc].
  assert (Hcap : (0 < cap)%nat).
  { unfold cap. apply Nat2Z.inj_lt. rewrite Z2Nat.id by lia. simpl. lia. }
  unfold r0. rewrite (press_spec cap (of_Z fs) sp dr pu samples Hcap).
  fold r0.
  destruct (ribbon_new_times_int cap fs sp dr pu Hfs) as [E1 _]. fold r0 in E1.
  rewrite E1. unfold skip, cap. rewrite Z2Nat.id by lia.
  rewrite capacity_value.
  replace (fs * 15000 / 1000000) with (fs * 15 / 1000).
  2:{ replace (fs * 15000) with (fs * 15 * 1000) by lia.
      replace 1000000 with (1000 * 1000) by reflexivity.
      rewrite Z.div_mul_cancel_r by lia. reflexivity. }
  replace (fs * 2000 / 1000000) with (fs / 500).
  2:{ replace 1000000 with (500 * 2000) by reflexivity.
      rewrite Z.div_mul_cancel_r by lia. reflexivity. }
  reflexivity.
Qed.

(** the same over arbitrary histories with edge polls *)
Theorem press_after_capture_time_hist : forall (fs : Z) sp dr pu (h : list rop),
  100 <= fs <= 192000 ->
  let cap := Z.to_nat (sample_rate_to_capacity fs) in
  let r0 := ribbon_new cap (of_Z fs) sp dr pu in
  rb_pressing (rrun r0 h)
  = (Z.max (fs / 1000 - 1) 0 + (fs * 15 / 1000 + fs / 500 + 1)
     <=? run_len (in_range r0) (samples_of h)).
Proof.
  intros fs sp dr pu h Hfs cap r0.
  destruct (edge_polls_transparent r0 h) as [E _]. cbv zeta in E. rewrite E.
  apply press_after_capture_time. exact Hfs.
Qed.

(** concrete instance, 10 kHz: 9 settling samples skipped, buffer of 171, so the 180th
    in-range sample in a row reports the press and the 179th does not *)
Theorem press_10kHz : forall sp dr pu samples,
  let r0 := ribbon_new (Z.to_nat (sample_rate_to_capacity 10000)) (of_Z 10000) sp dr pu in
  rb_pressing (polls r0 samples) = (180 <=? run_len (in_range r0) samples).
Proof.
  intros sp dr pu samples r0.
  unfold r0. rewrite press_after_capture_time by lia. reflexivity.
Qed.

(** ** C16 with the numbers: the contributing samples are the oldest 15 fs / 1000 + 1
    samples of the capture window; the newest fs / 500 are excluded *)
Theorem contributing_count : forall (fs : Z) sp dr pu,
  100 <= fs <= 192000 ->
  let cap := Z.to_nat (sample_rate_to_capacity fs) in
  let r0 := ribbon_new cap (of_Z fs) sp dr pu in
  Z.of_nat cap - rb_discard r0 = fs * 15 / 1000 + 1 /\
  rb_discard r0 = fs / 500.
Proof.
  intros fs sp dr pu Hfs cap r0.
  destruct (capacity_discard fs Hfs) as [_ Hc].
  destruct (ribbon_new_times_int cap fs sp dr pu Hfs) as [_ E2]. fold r0 in E2.
  split; [|exact E2].
  rewrite E2. unfold cap. rewrite Z2Nat.id by lia. rewrite capacity_value.
  replace (fs * 15000 / 1000000) with (fs * 15 / 1000).
  2:{ replace (fs * 15000) with (fs * 15 * 1000) by lia.
      replace 1000000 with (1000 * 1000) by reflexivity.
      rewrite Z.div_mul_cancel_r by lia. reflexivity. }
  replace (fs * 2000 / 1000000) with (fs / 500).
  2:{ replace 1000000 with (500 * 2000) by reflexivity.
      rewrite Z.div_mul_cancel_r by lia. reflexivity. }
  lia.
Qed.

(** ** before the first press is reported value() is that of a fresh controller *)
Theorem value_before_first_press : forall cap fs sp dr pu samples,
  (0 < cap)%nat ->
  let r0 := ribbon_new cap fs sp dr pu in
  (forall n, rb_pressing (polls r0 (firstn n samples)) = false) ->
  rb_val (polls r0 samples) = f_0 /\ ribbon_value (polls r0 samples) = ribbon_value r0.
Proof.
  intros cap fs sp dr pu samples Hcap r0 Hnp.
  assert (Hv : rb_val (polls r0 samples) = f_0).
  { revert Hnp. induction samples as [|x samples IH] using rev_ind; intros Hnp.
    - reflexivity.
    - unfold r0. rewrite (value_retained cap fs sp dr pu samples x Hcap).
      + apply IH. intros n.
        destruct (Nat.le_gt_cases n (length samples)) as [Hn|Hn].
        * specialize (Hnp n). rewrite firstn_app in Hnp.
          replace (n - length samples)%nat with 0%nat in Hnp by lia.
          cbn [firstn] in Hnp. rewrite app_nil_r in Hnp. exact Hnp.
        * rewrite firstn_all2 by lia.
          specialize (Hnp (length samples)). rewrite firstn_app in Hnp.
          rewrite Nat.sub_diag in Hnp. cbn [firstn] in Hnp.
          rewrite app_nil_r, firstn_all in Hnp. exact Hnp.
      + specialize (Hnp (length (samples ++ [x]))). rewrite firstn_all in Hnp. exact Hnp. }
  split; [exact Hv|].
  unfold ribbon_value. rewrite Hv.
  assert (Hb : rb_boundary (polls r0 samples) = rb_boundary r0).
  { clear Hnp Hv. induction samples as [|x samples IH] using rev_ind; [reflexivity|].
    rewrite polls_snoc. rewrite <- IH. unfold ribbon_poll. cbv zeta.
    destruct (flt x _); [|reflexivity].
    destruct (_ <=? _); [|reflexivity].
    destruct (_ =? _); reflexivity. }
  rewrite Hb. reflexivity.
Qed.
