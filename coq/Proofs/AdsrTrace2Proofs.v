(** * AdsrTrace2Proofs: the remaining trace-level gaps of C01-C03 (ADSR).

    - Part 1 (C03): the continuity bound [step_bound] of Proofs/AdsrContinuityProofs.v
      (Props/C03.v [C03_step_bound]) at trace level: its three hypotheses [Inv s],
      [synced s] and [adsr_inc s1 <= 4278190080] are discharged for every reachable state
      right after a tick (and for the fresh envelope), so that the only hypotheses left
      are the property's own quantifier: a legal sample rate and any list of non-tick
      operations between the two ticks.  Two concrete instances (non-vacuity).
    - Part 2 (C02): "never earlier".  The integer reading [N - 1 < n] holds; the literal
      reading [N <= n] is false in the model, with a machine-checked witness.
    - Part 3 (C01): which operation latches the start levels [a_von] / [a_voff] of a
      segment, and that nothing else touches them. *)
From Coq Require Import ZArith Reals Lia Lra Psatz Bool List.
Import ListNotations.
From Flocq Require Import Core IEEE754.BinarySingleNaN.
From SU Require Import F32 F32Lemmas.
From SU.gen Require Import Consts.
From SU.Model Require Import Utils PhaseAcc Tables Adsr.
From SU.Spec Require Import AdsrSpec RunSpec.
From SU.Proofs Require Import ClampProofs AdsrClockProofs AdsrLevelProofs NoPanicProofs
  AdsrContinuityProofs AdsrTraceProofs AdsrKillers.
From SU.Proofs Require AdsrCurveBase AdsrCurveProofs.
From Interval Require Import Tactic.
Open Scope R_scope.

(** * Part 1: C03 at trace level *)

(** [slope'] and [is_event'] are the definitions of Proofs/AdsrContinuityProofs.v;
    Props/C03.v repeats them verbatim as [slope] and [is_event] (convertible). *)

(** the general form: ANY reachable state that is in sync (see [synced_reachable],
    [synced_run_last], [synced_run_after_tick], [synced_run_from_new] for which ones are),
    any non-tick operations after it, then a tick *)
Theorem C03_trace_step_bound_synced : forall fs ops evs, fs_ok fs ->
  synced (adsr_run fs ops) -> Forall is_event' evs ->
  let s := adsr_run fs ops in
  let s1 := fold_left adsr_step evs s in
  let s2 := adsr_step s1 ATick in
  Rabs (R32 (a_value s2) - R32 (a_value s))
    <= slope' (a_state s1) * Rmin 1 (IZR (adsr_inc s1) / 16777216)
       + Rabs (R32 (a_sustain s1) - R32 (a_sustain s)) + 8 * / 16777216.
Proof.
  intros fs ops evs Hfs Hsy Hev s s1 s2.
  assert (Hinc : (adsr_inc s1 <= 4278190080)%Z).
  { unfold s1, s. rewrite <- run_app. exact (proj2 (inc_run fs (ops ++ evs) Hfs)). }
  pose proof (step_bound s evs (Inv_run fs ops) Hsy Hev) as H.
  cbv zeta in H. exact (H Hinc).
Qed.

(** from one tick to the next, anywhere in any history: [s] is the state right after a
    tick, [evs] the gate events and parameter changes issued before the next tick.
    Only [synced s] is needed (for the state BEFORE the events): [s1] itself need not be
    in sync (it is not after an [ASetSustain] in Decay or Sustain). *)
Theorem C03_trace_step_bound : forall fs pre evs, fs_ok fs -> Forall is_event' evs ->
  let s := adsr_run fs (pre ++ [ATick]) in
  let s1 := fold_left adsr_step evs s in
  let s2 := adsr_step s1 ATick in
  Rabs (R32 (a_value s2) - R32 (a_value s))
    <= slope' (a_state s1) * Rmin 1 (IZR (adsr_inc s1) / 16777216)
       + Rabs (R32 (a_sustain s1) - R32 (a_sustain s)) + 8 * / 16777216.
Proof.
  intros fs pre evs Hfs Hev.
  apply (C03_trace_step_bound_synced fs (pre ++ [ATick]) evs Hfs); [|exact Hev].
  exact (synced_run_last fs pre ATick I).
Qed.

(** the very first tick of an envelope (output 0.0 before it) *)
Theorem C03_trace_first_step_bound : forall fs evs, fs_ok fs -> Forall is_event' evs ->
  let s := adsr_new fs in
  let s1 := fold_left adsr_step evs s in
  let s2 := adsr_step s1 ATick in
  Rabs (R32 (a_value s2) - R32 (a_value s))
    <= slope' (a_state s1) * Rmin 1 (IZR (adsr_inc s1) / 16777216)
       + Rabs (R32 (a_sustain s1) - R32 (a_sustain s)) + 8 * / 16777216.
Proof.
  intros fs evs Hfs Hev.
  exact (C03_trace_step_bound_synced fs [] evs Hfs (synced_new fs) Hev).
Qed.

(** * Part 2: C02 "never earlier" *)

(** the integer reading: the phase is never a whole tick early.  [N = T * fs] is the
    configured duration in ticks, [n] the number of ticks the phase takes
    ([phase_length_exact]); same names as [phase_duration] (Props/C02.v
    [C02_phase_duration]).  Follows from [N (1 - 2^-22) <= n] since
    [N <= 20 * 192000 < 2^22]. *)
Theorem C02_never_a_tick_early : forall fs t, fs_ok fs ->
  fin_in t (R32 MIN_TIME) (R32 MAX_TIME) ->
  let N := R32 t * R32 fs in
  let n := IZR (ticks_for (inc_of fs t)) in
  N - 1 < n.
Proof.
  intros fs t Hfs Ht N n.
  pose proof (phase_duration fs t Hfs Ht) as HD. cbv zeta in HD.
  fold N in HD. fold n in HD. destruct HD as (_ & HL & _).
  destruct Hfs as [_ Bfs]. destruct Ht as [_ Bt].
  rewrite R32_MIN_TIME, R32_MAX_TIME in Bt.
  assert (HN : 0 <= N <= 3840000).
  { unfold N. split.
    - apply Rmult_le_pos; lra.
    - apply Rle_trans with (20 * 192000); [|lra].
      apply Rmult_le_compat; lra. }
  lra.
Qed.

(** the same in integers: the phase takes at least [floor N] ticks *)
Corollary C02_at_least_floor_N : forall fs t, fs_ok fs ->
  fin_in t (R32 MIN_TIME) (R32 MAX_TIME) ->
  (Zfloor (R32 t * R32 fs) <= ticks_for (inc_of fs t))%Z.
Proof.
  intros fs t Hfs Ht.
  pose proof (C02_never_a_tick_early fs t Hfs Ht) as H. cbv zeta in H.
  pose proof (Zfloor_lb (R32 t * R32 fs)) as HF.
  apply Z.lt_succ_r. apply lt_IZR. rewrite succ_IZR. lra.
Qed.

(** the literal reading "never earlier than N ticks" is FALSE in the model.
    Witness: fs = 105140 Hz, T = 10457596 * 2^-19 s = 19.946... s (a legal time, kept as is
    by the clamp): the increment is [trunc (2^24 * (1/T) / fs) = 8], so the phase takes
    exactly [2^24 / 8 = 2097152] ticks, while [N = T * fs = 2097152.0299...]. *)
Definition FS_W : f32 := of_Z 105140.
Definition T_W : f32 := of_bits 1100976636.

Lemma fs_ok_FS_W : fs_ok FS_W.
Proof.
  split; [apply fin_of_Z_small; lia|].
  unfold FS_W. rewrite R32_of_Z_small by lia. lra.
Qed.

Lemma R32_T_W : R32 T_W = 10457596 / 524288.
Proof. r32_const T_W. lra. Qed.

Lemma T_W_in : fin_in T_W (R32 MIN_TIME) (R32 MAX_TIME).
Proof.
  split; [fin_const|].
  rewrite R32_MIN_TIME, R32_MAX_TIME, R32_T_W. lra.
Qed.

Theorem C02_never_earlier_literal_fails :
  fs_ok FS_W /\ fin_in T_W (R32 MIN_TIME) (R32 MAX_TIME) /\
  to_bits (time_from T_W) = to_bits T_W /\
  inc_of FS_W T_W = 8%Z /\ ticks_for (inc_of FS_W T_W) = 2097152%Z /\
  IZR (ticks_for (inc_of FS_W T_W)) < R32 T_W * R32 FS_W.
Proof.
  assert (Hinc : inc_of FS_W T_W = 8%Z) by (vm_compute; reflexivity).
  split; [exact fs_ok_FS_W|]. split; [exact T_W_in|].
  split; [vm_compute; reflexivity|].
  split; [exact Hinc|].
  rewrite Hinc.
  assert (Ht : ticks_for 8 = 2097152%Z) by (vm_compute; reflexivity).
  split; [exact Ht|].
  rewrite Ht, R32_T_W. unfold FS_W. rewrite R32_of_Z_small by lia. lra.
Qed.

(** ... and on an actual run: with that sample rate and attack time the attack is still
    running after 2097151 ticks and over (in Decay) after the 2097152nd -- strictly fewer
    ticks than [N = T * fs] *)
Theorem C02_never_earlier_literal_fails_run :
  let s0 := adsr_run FS_W [ASetAttack T_W; AGateOn] in
  let k := Z.to_nat 2097151 in
  a_state s0 = Attack /\ pa_acc (a_pa s0) = 0%Z /\
  a_state (fold_left adsr_step (repeat ATick k) s0) = Attack /\
  a_state (adsr_step (fold_left adsr_step (repeat ATick k) s0) ATick) = Decay /\
  IZR (Z.of_nat k + 1) < R32 (a_attack s0) * R32 (pa_fs (a_pa s0)).
Proof.
  cbv zeta.
  set (ops := [ASetAttack T_W; AGateOn]).
  assert (HI : InvC (adsr_run FS_W ops)) by apply adsr_inv_clock.
  assert (Hfs : pa_fs (a_pa (adsr_run FS_W ops)) = FS_W) by apply run_fs.
  assert (Hst : a_state (adsr_run FS_W ops) = Attack) by (vm_compute; reflexivity).
  assert (Hacc : pa_acc (a_pa (adsr_run FS_W ops)) = 0%Z) by (vm_compute; reflexivity).
  assert (Hinc : adsr_inc (adsr_run FS_W ops) = 8%Z) by (vm_compute; reflexivity).
  assert (Hat : to_bits (a_attack (adsr_run FS_W ops)) = to_bits T_W)
    by (vm_compute; reflexivity).
  assert (Hk : Z.of_nat (Z.to_nat 2097151) = 2097151%Z) by (apply Z2Nat.id; lia).
  assert (Ht : ticks_for 8 = 2097152%Z) by (vm_compute; reflexivity).
  assert (HR : R32 (a_attack (adsr_run FS_W ops)) = R32 T_W).
  { r32_const (a_attack (adsr_run FS_W ops)). rewrite R32_T_W. lra. }
  generalize dependent (adsr_run FS_W ops). intros s0 HI Hfs Hst Hacc Hinc _ HR.
  generalize dependent (Z.to_nat 2097151). intros k Hk.
  split; [exact Hst|]. split; [exact Hacc|].
  assert (Hfs' : fs_ok (pa_fs (a_pa s0))) by (rewrite Hfs; exact fs_ok_FS_W).
  assert (Ht' : timed (a_state s0) = true) by (rewrite Hst; reflexivity).
  pose proof (phase_length_exact s0 k HI Hfs' Ht' Hacc) as H. cbv zeta in H.
  rewrite Hinc, Ht, Hk, Hst in H.
  destruct (H ltac:(lia)) as (H1 & _ & H3).
  split; [exact H1|]. split; [apply H3; lia|].
  rewrite Hk, HR, Hfs, R32_T_W. unfold FS_W. rewrite R32_of_Z_small by lia.
  change (2097151 + 1)%Z with 2097152%Z. lra.
Qed.

(** * Part 3: the start levels of a segment *)

(** gate-on: unless an attack is already running (where it changes nothing at all,
    [gate_on_spec]), the level currently being output is latched as the start level
    [a_von] of the new attack; the release level and the output are never touched *)
Theorem gate_on_latches : forall s,
  a_von (adsr_step s AGateOn)
    = match a_state s with Attack => a_von s | _ => a_value s end /\
  a_voff (adsr_step s AGateOn) = a_voff s /\
  a_value (adsr_step s AGateOn) = a_value s.
Proof.
  intros s. unfold adsr_step, adsr_gate_on.
  destruct (a_state s); repeat split; reflexivity.
Qed.

(** gate-off: from attack, decay or sustain the level currently being output is latched as
    the start level [a_voff] of the release; ignored during release and at rest; the
    attack level and the output are never touched *)
Theorem gate_off_latches : forall s,
  a_voff (adsr_step s AGateOff)
    = match a_state s with Release | AtRest => a_voff s | _ => a_value s end /\
  a_von (adsr_step s AGateOff) = a_von s /\
  a_value (adsr_step s AGateOff) = a_value s.
Proof.
  intros s. unfold adsr_step, adsr_gate_off.
  destruct (a_state s); repeat split; reflexivity.
Qed.

(** a tick never changes the latched levels -- not at a phase boundary either *)
Theorem tick_keeps_levels : forall s,
  a_von (adsr_step s ATick) = a_von s /\ a_voff (adsr_step s ATick) = a_voff s.
Proof.
  intros s. destruct (tick_levels s) as (_ & H1 & H2). split; assumption.
Qed.

(** so [a_von] is written by gate-on only and [a_voff] by gate-off only ... *)
Lemma von_step : forall s o, o <> AGateOn -> a_von (adsr_step s o) = a_von s.
Proof.
  intros s o Ho. destruct o; try reflexivity.
  - apply (tick_keeps_levels s).
  - congruence.
  - apply (gate_off_latches s).
Qed.

Lemma voff_step : forall s o, o <> AGateOff -> a_voff (adsr_step s o) = a_voff s.
Proof.
  intros s o Ho. destruct o; try reflexivity.
  - apply (tick_keeps_levels s).
  - apply (gate_on_latches s).
  - congruence.
Qed.

Theorem von_persists : forall ops s, ~ In AGateOn ops ->
  a_von (fold_left adsr_step ops s) = a_von s.
Proof.
  induction ops as [|o ops IH]; intros s Hn; cbn [fold_left].
  - reflexivity.
  - rewrite IH by (intros H; apply Hn; right; exact H).
    apply von_step. intros E. apply Hn. left. exact E.
Qed.

Theorem voff_persists : forall ops s, ~ In AGateOff ops ->
  a_voff (fold_left adsr_step ops s) = a_voff s.
Proof.
  induction ops as [|o ops IH]; intros s Hn; cbn [fold_left].
  - reflexivity.
  - rewrite IH by (intros H; apply Hn; right; exact H).
    apply voff_step. intros E. apply Hn. left. exact E.
Qed.

(** ... and throughout a segment -- whatever ticks, parameter changes and ignored gate
    events follow -- the start level is the output at the moment of the gate event that
    started it *)
Theorem attack_start_level : forall s ops, a_state s <> Attack -> ~ In AGateOn ops ->
  a_von (fold_left adsr_step (AGateOn :: ops) s) = a_value s.
Proof.
  intros s ops Hst Hn. cbn [fold_left]. rewrite (von_persists ops _ Hn).
  destruct (gate_on_latches s) as (H & _). rewrite H.
  destruct (a_state s); try reflexivity. congruence.
Qed.

Theorem release_start_level : forall s ops,
  a_state s <> Release -> a_state s <> AtRest -> ~ In AGateOff ops ->
  a_voff (fold_left adsr_step (AGateOff :: ops) s) = a_value s.
Proof.
  intros s ops Hr Ha Hn. cbn [fold_left]. rewrite (voff_persists ops _ Hn).
  destruct (gate_off_latches s) as (H & _). rewrite H.
  destruct (a_state s); try reflexivity; congruence.
Qed.

(** * Part 4: non-vacuity of the C03 trace theorem -- two concrete instances
    (1 kHz; [T100ms], [F025], [FS1k] as in Proofs/AdsrTraceProofs.v) *)

(** (stated for an abstract state and used by rewriting, so that neither a tactic nor the
    kernel ever has to convert terms containing a concrete state) *)
Lemma fold_one : forall (s : adsr) o, fold_left adsr_step [o] s = adsr_step s o.
Proof. reflexivity. Qed.

Lemma fold_two : forall (s : adsr) o1 o2,
  fold_left adsr_step [o1; o2] s = adsr_step (adsr_step s o1) o2.
Proof. reflexivity. Qed.

(** a gate-on issued in Sustain (level 0.5; attack time 0.1 s): the new attack starts from
    the level being output, the first attack tick moves the output by 0.0090, the bound
    is 0.0182 *)
Definition exA_pre : list adsr_op :=
  [ASetSustain f_half; AGateOn; ATick; ATick; ATick; ATick; ASetAttack T100ms].

Example C03_trace_example_gate_on :
  let s := adsr_run FS1k (exA_pre ++ [ATick]) in
  let s1 := fold_left adsr_step [AGateOn] s in
  let s2 := adsr_step s1 ATick in
  a_state s = Sustain /\ a_state s1 = Attack /\ a_state s2 = Attack /\
  adsr_inc s1 = 167772%Z /\
  to_bits (a_value s) = Some 1056964608%Z /\ to_bits (a_von s1) = Some 1056964608%Z /\
  to_bits (a_value s2) = Some 1057115629%Z /\
  a_sustain s1 = a_sustain s /\
  R32 (a_value s2) - R32 (a_value s) = 151021 / 16777216 /\
  Rabs (R32 (a_value s2) - R32 (a_value s))
    <= 1.82 * (167772 / 16777216) + 8 * / 16777216.
Proof.
  cbv zeta.
  assert (Hev : Forall is_event' [AGateOn]).
  { constructor; [discriminate | constructor]. }
  pose proof (C03_trace_step_bound FS1k exA_pre [AGateOn] fs_ok_FS1k Hev) as HB.
  cbv zeta in HB.
  rewrite fold_one in HB |- *.
  assert (H0 : a_state (adsr_run FS1k (exA_pre ++ [ATick])) = Sustain)
    by (vm_compute; reflexivity).
  assert (H1 : a_state (adsr_step (adsr_run FS1k (exA_pre ++ [ATick])) AGateOn) = Attack)
    by (vm_compute; reflexivity).
  assert (H2 : a_state (adsr_step (adsr_step (adsr_run FS1k (exA_pre ++ [ATick])) AGateOn)
                                  ATick) = Attack)
    by (vm_compute; reflexivity).
  assert (Hi : adsr_inc (adsr_step (adsr_run FS1k (exA_pre ++ [ATick])) AGateOn) = 167772%Z)
    by (vm_compute; reflexivity).
  assert (B0 : to_bits (a_value (adsr_run FS1k (exA_pre ++ [ATick]))) = Some 1056964608%Z)
    by (vm_compute; reflexivity).
  assert (B1 : to_bits (a_von (adsr_step (adsr_run FS1k (exA_pre ++ [ATick])) AGateOn))
               = Some 1056964608%Z)
    by (vm_compute; reflexivity).
  assert (B2 : to_bits (a_value (adsr_step (adsr_step (adsr_run FS1k (exA_pre ++ [ATick]))
                                                      AGateOn) ATick))
               = Some 1057115629%Z)
    by (vm_compute; reflexivity).
  assert (Ed : R32 (a_value (adsr_step (adsr_step (adsr_run FS1k (exA_pre ++ [ATick]))
                                                  AGateOn) ATick))
               - R32 (a_value (adsr_run FS1k (exA_pre ++ [ATick]))) = 151021 / 16777216).
  { r32_const (a_value (adsr_step (adsr_step (adsr_run FS1k (exA_pre ++ [ATick]))
                                             AGateOn) ATick)).
    r32_const (a_value (adsr_run FS1k (exA_pre ++ [ATick]))). lra. }
  (* from here on the state is abstract: no tactic may start evaluating it *)
  generalize dependent (adsr_run FS1k (exA_pre ++ [ATick])).
  intros s HB H0 H1 H2 Hi B0 B1 B2 Ed.
  assert (Es : a_sustain (adsr_step s AGateOn) = a_sustain s)
    by apply (adsr_params_frame s AGateOn).
  split; [exact H0|]. split; [exact H1|]. split; [exact H2|]. split; [exact Hi|].
  split; [exact B0|]. split; [exact B1|]. split; [exact B2|]. split; [exact Es|].
  split; [exact Ed|].
  rewrite H1, Hi, Es in HB. unfold slope' in HB.
  replace (R32 (a_sustain s) - R32 (a_sustain s)) with 0 in HB by ring.
  rewrite Rabs_R0 in HB. rewrite Rmin_right in HB by lra. lra.
Qed.

(** 3 ticks into a 0.1 s decay towards 0.5 (output 0.9423), the caller lowers the sustain
    level to 0.25 -- after which the state is NOT in sync -- and releases the gate: the
    release starts from the level being output, its first tick moves the output by
    -0.0377; the bound is 0.0408 + 0.25 *)
Definition exB_pre : list adsr_op :=
  [ASetDecay T100ms; ASetRelease T100ms; ASetSustain f_half; AGateOn;
   ATick; ATick; ATick; ATick].

Example C03_trace_example_sustain_gate_off :
  let s := adsr_run FS1k (exB_pre ++ [ATick]) in
  let s1 := fold_left adsr_step [ASetSustain F025; AGateOff] s in
  let s2 := adsr_step s1 ATick in
  a_state s = Decay /\ pa_acc (a_pa s) = 503316%Z /\
  ~ synced (adsr_step s (ASetSustain F025)) /\
  a_state s1 = Release /\ a_state s2 = Release /\ adsr_inc s1 = 167772%Z /\
  to_bits (a_value s) = Some 1064386062%Z /\ to_bits (a_voff s1) = Some 1064386062%Z /\
  to_bits (a_value s2) = Some 1063753992%Z /\
  R32 (a_sustain s) = 1 / 2 /\ R32 (a_sustain s1) = 1 / 4 /\
  R32 (a_value s2) - R32 (a_value s) = - (632070 / 16777216) /\
  Rabs (R32 (a_value s2) - R32 (a_value s))
    <= 4.08 * (167772 / 16777216) + 1 / 4 + 8 * / 16777216.
Proof.
  cbv zeta.
  assert (Hev : Forall is_event' [ASetSustain F025; AGateOff]).
  { constructor; [discriminate|]. constructor; [discriminate | constructor]. }
  pose proof (C03_trace_step_bound FS1k exB_pre [ASetSustain F025; AGateOff]
                fs_ok_FS1k Hev) as HB.
  cbv zeta in HB.
  rewrite fold_two in HB |- *.
  assert (H0 : a_state (adsr_run FS1k (exB_pre ++ [ATick])) = Decay)
    by (vm_compute; reflexivity).
  assert (Ha : pa_acc (a_pa (adsr_run FS1k (exB_pre ++ [ATick]))) = 503316%Z)
    by (vm_compute; reflexivity).
  assert (Hns : R32 (calc_value (adsr_step (adsr_run FS1k (exB_pre ++ [ATick]))
                                           (ASetSustain F025)))
                < R32 (a_value (adsr_step (adsr_run FS1k (exB_pre ++ [ATick]))
                                          (ASetSustain F025)))).
  { r32_const (calc_value (adsr_step (adsr_run FS1k (exB_pre ++ [ATick]))
                                     (ASetSustain F025))).
    r32_const (a_value (adsr_step (adsr_run FS1k (exB_pre ++ [ATick]))
                                  (ASetSustain F025))). lra. }
  assert (H1 : a_state (adsr_step (adsr_step (adsr_run FS1k (exB_pre ++ [ATick]))
                                             (ASetSustain F025)) AGateOff) = Release)
    by (vm_compute; reflexivity).
  assert (H2 : a_state (adsr_step (adsr_step (adsr_step (adsr_run FS1k (exB_pre ++ [ATick]))
                                                        (ASetSustain F025)) AGateOff)
                                  ATick) = Release)
    by (vm_compute; reflexivity).
  assert (Hi : adsr_inc (adsr_step (adsr_step (adsr_run FS1k (exB_pre ++ [ATick]))
                                              (ASetSustain F025)) AGateOff) = 167772%Z)
    by (vm_compute; reflexivity).
  assert (B0 : to_bits (a_value (adsr_run FS1k (exB_pre ++ [ATick]))) = Some 1064386062%Z)
    by (vm_compute; reflexivity).
  assert (B1 : to_bits (a_voff (adsr_step (adsr_step (adsr_run FS1k (exB_pre ++ [ATick]))
                                                     (ASetSustain F025)) AGateOff))
               = Some 1064386062%Z)
    by (vm_compute; reflexivity).
  assert (B2 : to_bits (a_value (adsr_step (adsr_step (adsr_step
                  (adsr_run FS1k (exB_pre ++ [ATick])) (ASetSustain F025)) AGateOff) ATick))
               = Some 1063753992%Z)
    by (vm_compute; reflexivity).
  assert (S0 : R32 (a_sustain (adsr_run FS1k (exB_pre ++ [ATick]))) = 1 / 2).
  { r32_const (a_sustain (adsr_run FS1k (exB_pre ++ [ATick]))). lra. }
  assert (S1 : R32 (a_sustain (adsr_step (adsr_step (adsr_run FS1k (exB_pre ++ [ATick]))
                                                    (ASetSustain F025)) AGateOff)) = 1 / 4).
  { r32_const (a_sustain (adsr_step (adsr_step (adsr_run FS1k (exB_pre ++ [ATick]))
                                               (ASetSustain F025)) AGateOff)). lra. }
  assert (Ed : R32 (a_value (adsr_step (adsr_step (adsr_step
                  (adsr_run FS1k (exB_pre ++ [ATick])) (ASetSustain F025)) AGateOff) ATick))
               - R32 (a_value (adsr_run FS1k (exB_pre ++ [ATick])))
               = - (632070 / 16777216)).
  { r32_const (a_value (adsr_step (adsr_step (adsr_step
                  (adsr_run FS1k (exB_pre ++ [ATick])) (ASetSustain F025)) AGateOff) ATick)).
    r32_const (a_value (adsr_run FS1k (exB_pre ++ [ATick]))). lra. }
  (* from here on the state is abstract: no tactic may start evaluating it *)
  generalize dependent (adsr_run FS1k (exB_pre ++ [ATick])).
  intros s HB H0 Ha Hns H1 H2 Hi B0 B1 B2 S0 S1 Ed.
  split; [exact H0|]. split; [exact Ha|].
  split; [unfold synced; lra|].
  split; [exact H1|]. split; [exact H2|]. split; [exact Hi|].
  split; [exact B0|]. split; [exact B1|]. split; [exact B2|].
  split; [exact S0|]. split; [exact S1|]. split; [exact Ed|].
  rewrite H1, Hi, S0, S1 in HB. unfold slope' in HB.
  replace (Rabs (1 / 4 - 1 / 2)) with (1 / 4) in HB.
  2:{ replace (1 / 4 - 1 / 2) with (- (1 / 4)) by lra.
      rewrite Rabs_Ropp, Rabs_pos_eq; lra. }
  rewrite Rmin_right in HB by lra. lra.
Qed.
