(** * GlideRibbonKillers2: second mutation round on Model/Glide.v and Model/Ribbon.v

    About 35 further semantic mutants of the two model files were checked against the
    STATEMENTS of Props/C13.v .. C17.v.  All but one family make some statement false.
    The family that no statement noticed:

    - [ribbon_step], the dispatcher of Model/Ribbon.v.  It is the function the
      correspondence check runs against the Rust crate and the one [C17_ribbon] folds over,
      but every C15 / C16 statement is phrased with the SPECIFICATION's own dispatcher
      [rstep] (Spec/RibbonSpec.v) over [rop].  A [ribbon_step] whose [RbJustPressed] case
      calls [ribbon_just_released] (or that returns the flag without clearing it, or that
      does not poll on [RbPoll]) violates the clause

        "finger_just_pressed() and finger_just_released() each return true exactly once
         per corresponding change of finger_is_pressing()"

      for the model that is actually compared with the crate, and makes [C17_ribbon] speak
      about fewer states, yet all of Props/*.v compile unchanged (only the auxiliary
      lemma [ribbon_step_rstep] of Proofs/RibbonExtraProofs.v, which no Props statement
      uses, stops compiling).  This is the ribbon analogue of the [glide_step] gap closed
      by [C13_after_outputs_process].

    Killers: [model_step_spec], [model_step_is_rstep], [model_run_is_rrun] and the
    C15 / C16 rules transported to the model's own operation type, [model_ribbon_rules].
    Nothing here uses [ribbon_step_rstep] / [model_run_rrun]. *)
From Coq Require Import ZArith Lia Bool List.
From SU Require Import F32 F32Lemmas.
From SU.Model Require Import Ribbon.
From SU.Spec Require Import RibbonSpec RunSpec.
From SU.Proofs Require Import RibbonProofs NoPanicProofs RibbonExtraProofs.
Import ListNotations.
Open Scope Z_scope.

(** ** the dispatcher, case by case: [poll] returns nothing and installs the polled state;
    an edge poll returns the flag of ITS OWN latch and installs the state in which that
    latch (and nothing else) is cleared *)
Theorem model_step_spec : forall r x,
  ribbon_step r (RbPoll x) = (ribbon_poll r x, None) /\
  ribbon_step r RbJustPressed
  = (snd (ribbon_just_pressed r), Some (fst (ribbon_just_pressed r))) /\
  ribbon_step r RbJustReleased
  = (snd (ribbon_just_released r), Some (fst (ribbon_just_released r))) /\
  fst (ribbon_just_pressed r) = rb_just_pressed r /\
  fst (ribbon_just_released r) = rb_just_released r /\
  rb_just_pressed (snd (ribbon_just_pressed r)) = false /\
  rb_just_released (snd (ribbon_just_pressed r)) = rb_just_released r /\
  rb_just_released (snd (ribbon_just_released r)) = false /\
  rb_just_pressed (snd (ribbon_just_released r)) = rb_just_pressed r.
Proof. intros r x. repeat split; reflexivity. Qed.

(** the model's dispatcher is the specification's dispatcher *)
Theorem model_step_is_rstep : forall r o, ribbon_step r o = rstep r (rop_of o).
Proof.
  intros r o. destruct (model_step_spec r f_0) as (_ & E2 & E3 & _).
  destruct o as [x| |].
  - destruct (model_step_spec r x) as (E1 & _). rewrite E1. reflexivity.
  - rewrite E2. cbn [rop_of rstep]. destruct (ribbon_just_pressed r); reflexivity.
  - rewrite E3. cbn [rop_of rstep]. destruct (ribbon_just_released r); reflexivity.
Qed.

(** hence the run [C17_ribbon] and the correspondence check fold over is the run the
    C15 / C16 theorems speak about, with the same polled samples *)
Theorem model_run_is_rrun : forall h r0,
  fold_left (fun r o => fst (ribbon_step r o)) h r0 = rrun r0 (map rop_of h) /\
  samples_of (map rop_of h) = samples_of_ops h.
Proof.
  intros h r0. split; [|apply samples_of_map].
  revert r0. induction h as [|o h IH]; intros r0.
  - reflexivity.
  - cbn [fold_left map]. rewrite rrun_cons, IH, model_step_is_rstep. reflexivity.
Qed.

(** ** the C15 / C16 rules for histories of MODEL operations: after any history [h] of
    [RbPoll] / [RbJustPressed] / [RbJustReleased] run through [ribbon_step]
    - the gate follows the press rule on the polled samples,
    - while a press is reported the stored value is that of the capture window,
    - [value()] is what the polled samples alone produce,
    - a [poll] returns nothing, and an edge poll returns true iff the gate changed in its
      direction since the previous poll of the same flag (or since the start) *)
Theorem model_ribbon_rules : forall cap fs sp dr pu (h : list ribbon_op) x,
  (0 < cap)%nat ->
  let r0 := ribbon_new cap fs sp dr pu in
  let r := fold_left (fun r o => fst (ribbon_step r o)) h r0 in
  let hs := map rop_of h in
  let tail_jp := since_last is_jp hs [] in
  let tail_jr := since_last is_jr hs [] in
  rb_pressing r
  = (skip (rb_ignore r0) + Z.of_nat cap <=? run_len (in_range r0) (samples_of_ops h)) /\
  (rb_pressing r = true -> rb_val r = window_value r0 (window r0 (samples_of_ops h))) /\
  ribbon_value r = ribbon_value (polls r0 (samples_of_ops h)) /\
  snd (ribbon_step r (RbPoll x)) = None /\
  snd (ribbon_step r RbJustPressed)
  = Some (changed false (rrun r0 (firstn (length hs - length tail_jp) hs)) tail_jp) /\
  snd (ribbon_step r RbJustReleased)
  = Some (changed true (rrun r0 (firstn (length hs - length tail_jr) hs)) tail_jr).
Proof.
  intros cap fs sp dr pu h x Hcap r0 r hs tail_jp tail_jr.
  destruct (model_run_is_rrun h r0) as [Er Es]. fold r hs in Er.
  destruct (edge_polls_transparent r0 hs) as (Hp & Hv & Hval & _).
  cbv zeta in Hp, Hv, Hval. unfold hs in Hp, Hv, Hval. rewrite Es in Hp, Hv, Hval.
  fold hs in Hp, Hv, Hval. rewrite <- Er in Hp, Hv, Hval.
  split.
  { rewrite Hp. exact (press_spec cap fs sp dr pu (samples_of_ops h) Hcap). }
  split.
  { intros Hpr. rewrite Hv. rewrite Hp in Hpr.
    exact (value_window cap fs sp dr pu (samples_of_ops h) Hcap Hpr). }
  split; [exact Hval|].
  split.
  { destruct (model_step_spec r x) as (E1 & _). rewrite E1. reflexivity. }
  split.
  - rewrite model_step_is_rstep, Er. cbn [rop_of].
    exact (just_pressed_spec cap fs sp dr pu hs Hcap).
  - rewrite model_step_is_rstep, Er. cbn [rop_of].
    exact (just_released_spec cap fs sp dr pu hs Hcap).
Qed.

(** the no-panic statement of C17 therefore covers exactly the specification's runs *)
Theorem model_no_panic_states : forall (fs : Z) sp dr pu (h : list ribbon_op),
  100 <= fs <= 192000 ->
  let cap := Z.to_nat (sample_rate_to_capacity fs) in
  let r0 := ribbon_new cap (of_Z fs) sp dr pu in
  steps_ok ribbon_step_ok (fun r o => fst (ribbon_step r o)) r0 h = true /\
  fold_left (fun r o => fst (ribbon_step r o)) h r0 = rrun r0 (map rop_of h).
Proof.
  intros fs sp dr pu h Hfs cap r0.
  destruct (ribbon_no_panic fs sp dr pu h Hfs) as (_ & _ & H).
  split; [exact H|]. apply model_run_is_rrun.
Qed.

Print Assumptions model_step_spec.
Print Assumptions model_step_is_rstep.
Print Assumptions model_run_is_rrun.
Print Assumptions model_ribbon_rules.
Print Assumptions model_no_panic_states.
