(** Ribbon controller, two remaining reviewer gaps for C16:

    (1) "the last value is retained unchanged until the next press is reported" for the
        public [value()] ([ribbon_value]), not only for the stored [rb_val]:
        [config_constant], [ribbon_value_retained], [value_retained_after_release],
        [value_retained_between_presses];
    (2) an explicit lower bound on the in-range boundary [rb_boundary] in terms of the
        resistor ratio ([boundary_lower_bound]), and the f32 between / monotone theorems
        with an explicit constant for realistic ribbons with dropper <= softpot
        ([C16_between_f32_realistic], [C16_monotone_f32_realistic]). *)
From Coq Require Import ZArith Reals Lia Lra Psatz Bool List Floats.SpecFloat.
From Flocq Require Import Core IEEE754.BinarySingleNaN.
From SU Require Import F32 F32Lemmas.
From SU.gen Require Import Consts.
From SU.Model Require Import Ribbon.
From SU.Spec Require Import RibbonSpec.
From SU.Proofs Require Import RibbonProofs LfoProofs RibbonValueProofs NoPanicProofs.
From SU.Proofs Require Import RibbonExtraProofs RibbonKillers.
Import ListNotations.
Open Scope R_scope.

(** * (1) value() is retained while no press is reported *)

(** ** the configuration fields never change after construction *)

Lemma poll_config : forall r x,
  rb_boundary (ribbon_poll r x) = rb_boundary r /\ rb_err (ribbon_poll r x) = rb_err r /\
  rb_cap (ribbon_poll r x) = rb_cap r /\ rb_ignore (ribbon_poll r x) = rb_ignore r /\
  rb_discard (ribbon_poll r x) = rb_discard r.
Proof.
  intros r x. unfold ribbon_poll. cbv zeta.
  destruct (flt x (rb_boundary r)); [|repeat split; reflexivity].
  destruct (rb_ignore r <=? _)%Z; [|repeat split; reflexivity].
  destruct (_ =? _)%Z; repeat split; reflexivity.
Qed.

Lemma rstep_config : forall r o,
  rb_boundary (fst (rstep r o)) = rb_boundary r /\ rb_err (fst (rstep r o)) = rb_err r /\
  rb_cap (fst (rstep r o)) = rb_cap r /\ rb_ignore (fst (rstep r o)) = rb_ignore r /\
  rb_discard (fst (rstep r o)) = rb_discard r.
Proof.
  intros r o. destruct o as [x| |].
  - exact (poll_config r x).
  - repeat split; reflexivity.
  - repeat split; reflexivity.
Qed.

(** after any history of polls and edge polls, from any start state, the five
    configuration fields are those of the start state *)
Theorem config_constant : forall (r0 : ribbon) (h : list rop),
  rb_boundary (rrun r0 h) = rb_boundary r0 /\ rb_err (rrun r0 h) = rb_err r0 /\
  rb_cap (rrun r0 h) = rb_cap r0 /\ rb_ignore (rrun r0 h) = rb_ignore r0 /\
  rb_discard (rrun r0 h) = rb_discard r0.
Proof.
  intros r0 h. revert r0. induction h as [|o h IH]; intros r0.
  - repeat split; reflexivity.
  - rewrite rrun_cons.
    destruct (IH (fst (rstep r0 o))) as (Hb & He & Hc & Hi & Hd).
    destruct (rstep_config r0 o) as (Sb & Se & Sc & Si & Sd).
    rewrite Hb, He, Hc, Hi, Hd. repeat split; assumption.
Qed.

(** the same for plain sample histories *)
Lemma polls_rrun : forall (samples : list f32) r,
  polls r samples = rrun r (map RPoll samples).
Proof.
  induction samples as [|x samples IH]; intros r.
  - reflexivity.
  - cbn [map]. rewrite rrun_cons. cbn [rstep fst]. rewrite <- IH. reflexivity.
Qed.

Corollary config_constant_polls : forall (r0 : ribbon) (samples : list f32),
  rb_boundary (polls r0 samples) = rb_boundary r0 /\ rb_err (polls r0 samples) = rb_err r0 /\
  rb_cap (polls r0 samples) = rb_cap r0 /\ rb_ignore (polls r0 samples) = rb_ignore r0 /\
  rb_discard (polls r0 samples) = rb_discard r0.
Proof.
  intros r0 samples. rewrite polls_rrun. apply config_constant.
Qed.

(** ** one operation *)

(** an operation after which no press is reported changes neither the stored value nor
    value() (from any state) *)
Lemma step_retains : forall r o,
  rb_pressing (fst (rstep r o)) = false ->
  rb_val (fst (rstep r o)) = rb_val r /\ ribbon_value (fst (rstep r o)) = ribbon_value r.
Proof.
  intros r o Hnp.
  assert (Hv : rb_val (fst (rstep r o)) = rb_val r).
  { destruct o as [x| |].
    - cbn [rstep fst] in Hnp |- *. exact (poll_retains r x Hnp).
    - reflexivity.
    - reflexivity. }
  split; [exact Hv|].
  destruct (rstep_config r o) as (Hb & _).
  unfold ribbon_value. rewrite Hv, Hb. reflexivity.
Qed.

Lemma rrun_snoc : forall r h o, rrun r (h ++ [o]) = fst (rstep (rrun r h) o).
Proof. intros r h o. rewrite rrun_app. reflexivity. Qed.

(** C16_retained for the public value(), over arbitrary histories of operations: when no
    press is reported after an operation, value() is bit for bit what it was before *)
Theorem ribbon_value_retained : forall cap fs sp dr pu (h : list rop) (o : rop),
  let r0 := ribbon_new cap fs sp dr pu in
  rb_pressing (rrun r0 (h ++ [o])) = false ->
  ribbon_value (rrun r0 (h ++ [o])) = ribbon_value (rrun r0 h).
Proof.
  intros cap fs sp dr pu h o r0 Hnp.
  rewrite rrun_snoc in Hnp |- *.
  exact (proj2 (step_retains (rrun r0 h) o Hnp)).
Qed.

(** literally the shape of [C16_retained] (sample histories, same hypotheses) *)
Theorem ribbon_value_retained_polls : forall cap fs sp dr pu samples x,
  (0 < cap)%nat ->
  let r0 := ribbon_new cap fs sp dr pu in
  rb_pressing (polls r0 (samples ++ [x])) = false ->
  ribbon_value (polls r0 (samples ++ [x])) = ribbon_value (polls r0 samples).
Proof.
  intros cap fs sp dr pu samples x _ r0 Hnp.
  rewrite polls_snoc in Hnp |- *.
  exact (proj2 (step_retains (polls r0 samples) (RPoll x) Hnp)).
Qed.

(** ** traces *)

(** from any state: if no press is reported after any non-empty prefix of [h], the stored
    value and value() at the end of [h] are those of the start *)
Lemma rrun_retains : forall (h : list rop) (r : ribbon),
  (forall n, (0 < n <= length h)%nat -> rb_pressing (rrun r (firstn n h)) = false) ->
  rb_val (rrun r h) = rb_val r /\ ribbon_value (rrun r h) = ribbon_value r.
Proof.
  induction h as [|o h IH] using rev_ind; intros r Hnp.
  - split; reflexivity.
  - assert (Hpre : forall n, (0 < n <= length h)%nat ->
                     rb_pressing (rrun r (firstn n h)) = false).
    { intros n Hn. specialize (Hnp n). rewrite app_length in Hnp. cbn [length] in Hnp.
      rewrite firstn_app in Hnp.
      replace (n - length h)%nat with 0%nat in Hnp by lia.
      cbn [firstn] in Hnp. rewrite app_nil_r in Hnp. apply Hnp. lia. }
    destruct (IH r Hpre) as [Hv Hval].
    assert (Hlast : rb_pressing (rrun r (h ++ [o])) = false).
    { specialize (Hnp (length (h ++ [o]))). rewrite firstn_all in Hnp. apply Hnp.
      rewrite app_length. cbn [length]. lia. }
    rewrite rrun_snoc in Hlast |- *.
    destruct (step_retains (rrun r h) o Hlast) as [Sv Sval].
    rewrite Sv, Sval. split; assumption.
Qed.

(** "when the finger is lifted the last value is retained": whatever the state at the end
    of [h1] (in particular: a press is being reported and value() is the position), as
    long as no press is reported after any further operation of [h2], value() stays bit
    for bit what it was at the end of [h1] *)
Theorem value_retained_after_release : forall cap fs sp dr pu (h1 h2 : list rop),
  let r0 := ribbon_new cap fs sp dr pu in
  (forall n, (0 < n <= length h2)%nat -> rb_pressing (rrun r0 (h1 ++ firstn n h2)) = false) ->
  rb_val (rrun r0 (h1 ++ h2)) = rb_val (rrun r0 h1) /\
  ribbon_value (rrun r0 (h1 ++ h2)) = ribbon_value (rrun r0 h1).
Proof.
  intros cap fs sp dr pu h1 h2 r0 Hnp.
  rewrite rrun_app. apply rrun_retains.
  intros n Hn. rewrite <- rrun_app. exact (Hnp n Hn).
Qed.

(** the form between two presses: released at the end of [h1], no press reported at any
    prefix of [h2] *)
Theorem value_retained_between_presses : forall cap fs sp dr pu (h1 h2 : list rop),
  let r0 := ribbon_new cap fs sp dr pu in
  rb_pressing (rrun r0 h1) = false ->
  (forall n, rb_pressing (rrun r0 (h1 ++ firstn n h2)) = false) ->
  ribbon_value (rrun r0 (h1 ++ h2)) = ribbon_value (rrun r0 h1).
Proof.
  intros cap fs sp dr pu h1 h2 r0 _ Hnp.
  apply (value_retained_after_release cap fs sp dr pu h1 h2).
  intros n _. exact (Hnp n).
Qed.

(** * (2) An explicit lower bound for the boundary *)

(** ** the sum dr + sp overflows: the quotient is 0 and the boundary exactly 1 *)
Lemma boundary_overflow : forall sp dr : f32, fin sp -> fin dr ->
  ~ Rabs (rnd (R32 dr + R32 sp)) < MAXF ->
  fin (fsub f_1 (fdiv dr (fadd dr sp))) /\ R32 (fsub f_1 (fdiv dr (fadd dr sp))) = 1.
Proof.
  intros sp dr Fsp Fdr Hov.
  assert (Einf : fadd dr sp = B754_infinity (Bsign dr)).
  { apply B2SF_inf. unfold fadd, fin, R32 in *.
    generalize (Bplus_correct prec emax Hprec Hmax mode_NE dr sp Fdr Fsp).
    rewrite fexp_is_fexp32. change (round radix2 fexp32 (round_mode mode_NE)) with rnd.
    change (bpow radix2 emax) with MAXF.
    rewrite Rlt_bool_false by lra. intros [H _]. exact H. }
  rewrite Einf.
  assert (Hz : fin (fdiv dr (B754_infinity (Bsign dr))) /\
               R32 (fdiv dr (B754_infinity (Bsign dr))) = 0).
  { destruct dr as [s|s| |s m e Hb]; unfold fin in Fdr; cbn [is_finite] in Fdr;
      try discriminate Fdr; unfold fdiv, fin, R32; cbn [Bdiv is_finite B2R]; split; reflexivity. }
  destruct Hz as [Fz Vz].
  destruct (fsub_correct f_1 _ fin_f_1 Fz) as [Vb Fb].
  { rewrite R32_f_1, Vz. apply no_ovf01. lra. }
  split; [exact Fb|].
  rewrite Vb, R32_f_1, Vz, Rminus_0_r. exact (rnd_id 1 fmt_1).
Qed.

(** ** no overflow: three roundings, each of absolute error at most 2^-24 + 2^-150 *)
Lemma boundary_lower_bound_fin : forall (sp dr : f32) (K : R), fin sp -> fin dr ->
  1 <= R32 sp -> 0 <= R32 dr <= K * R32 sp ->
  Rabs (rnd (R32 dr + R32 sp)) < MAXF ->
  fin (fsub f_1 (fdiv dr (fadd dr sp))) /\
  / (K + 1) - / 4194304 <= R32 (fsub f_1 (fdiv dr (fadd dr sp))) <= 1.
Proof.
  intros sp dr K Fsp Fdr Hsp Hdr Hov.
  assert (HK : 0 <= K).
  { destruct (Rle_or_lt 0 K) as [H|H]; [exact H|exfalso].
    assert (K * R32 sp < 0) by nra. lra. }
  set (c := / (K + 1)).
  assert (Hc0 : 0 < c) by (apply Rinv_0_lt_compat; lra).
  assert (Hc1 : c * (K + 1) = 1) by (unfold c; apply Rinv_l; lra).
  assert (HKc : K * c = 1 - c) by lra.
  destruct (fadd_correct dr sp Fdr Fsp Hov) as [Vs Fs].
  remember (R32 dr + R32 sp) as x eqn:Ex.
  assert (Hx : 1 <= x) by lra.
  (* dr <= (1 - c) x *)
  assert (Hdx : R32 dr <= (1 - c) * x).
  { assert (H1 : R32 dr * (K + 1) <= K * x) by (rewrite Ex; nra).
    assert (H2 : R32 dr * (K + 1) * c <= K * x * c)
      by (apply Rmult_le_compat_r; [lra | exact H1]).
    replace (R32 dr * (K + 1) * c) with (R32 dr * (c * (K + 1))) in H2 by ring.
    rewrite Hc1, Rmult_1_r in H2.
    replace (K * x * c) with (K * c * x) in H2 by ring. rewrite HKc in H2. exact H2. }
  (* the rounded sum *)
  remember (rnd x) as s eqn:Es.
  assert (Hs1 : 1 <= s).
  { rewrite Es. rewrite <- (rnd_id 1 fmt_1). apply rnd_le. exact Hx. }
  assert (Hsd : R32 dr <= s).
  { rewrite Es. rewrite <- (rnd_id (R32 dr) (fmt_R32 dr)). apply rnd_le. lra. }
  pose proof (rnd_err x x ltac:(lra)) as Hse. rewrite <- Es in Hse.
  apply Rabs_le_inv in Hse.
  pose proof u_pos as Hu. pose proof eta_pos as Het0. pose proof eta_le_u as Het.
  assert (Hu' : u24 = / 16777216) by reflexivity.
  assert (Hslow : x * (1 - u24 - eta150) <= s) by nra.
  (* the quotient t = dr / s *)
  assert (Hsi : 0 < / s) by (apply Rinv_0_lt_compat; lra).
  set (t := R32 dr / s).
  assert (Hts : t * s = R32 dr) by (unfold t; field; lra).
  assert (Ht0 : 0 <= t) by (unfold t; apply Rmult_le_pos; lra).
  assert (Ht1 : t <= 1).
  { apply Rmult_le_reg_r with s; [lra|]. rewrite Hts. lra. }
  assert (Htm : t * (1 - u24 - eta150) <= 1 - c).
  { apply Rmult_le_reg_r with x; [lra|].
    apply Rle_trans with (t * s); [|rewrite Hts; lra].
    replace (t * (1 - u24 - eta150) * x) with (t * (x * (1 - u24 - eta150))) by ring.
    apply Rmult_le_compat_l; [exact Ht0 | exact Hslow]. }
  assert (Htu : t * (u24 + eta150) <= u24 + eta150).
  { rewrite <- (Rmult_1_l (u24 + eta150)) at 2. apply Rmult_le_compat_r; lra. }
  assert (Ht : t <= 1 - c + u24 + eta150) by lra.
  destruct (fdiv_correct dr (fadd dr sp) Fdr Fs) as [Vq Fq].
  { rewrite Vs. lra. }
  { rewrite Vs. apply no_ovf01. fold t. lra. }
  rewrite Vs in Vq. fold t in Vq.
  pose proof (rnd_bounds 0 1 t fmt_0 fmt_1 ltac:(lra)) as Hq01.
  pose proof (rnd_err t 1 ltac:(lra)) as Hqe. apply Rabs_le_inv in Hqe.
  (* the difference *)
  destruct (fsub_correct f_1 (fdiv dr (fadd dr sp)) fin_f_1 Fq) as [Vb Fb].
  { rewrite R32_f_1, Vq. apply no_ovf01. lra. }
  rewrite R32_f_1, Vq in Vb.
  split; [exact Fb|]. rewrite Vb.
  pose proof (rnd_bounds 0 1 (1 - rnd t) fmt_0 fmt_1 ltac:(lra)) as Hb01.
  pose proof (rnd_err (1 - rnd t) 1 ltac:(lra)) as Hbe. apply Rabs_le_inv in Hbe.
  split; [|lra].
  assert (Het3 : 3 * eta150 <= u24) by (unfold eta150, u24; lra). lra.
Qed.

(** the boundary [1 - dr / (dr + sp) = sp / (sp + dr)] after its three f32 roundings is
    finite, at most 1, and at least [1 / (K + 1) - 2^-22] whenever the dropper resistor is
    at most [K] times the softpot (softpot at least 1 ohm); no hypothesis on the size of
    [K] or on overflow of the sum *)
Theorem boundary_lower_bound : forall cap fs (sp dr pu : f32) (K : R),
  fin sp -> fin dr -> 1 <= R32 sp -> 0 <= R32 dr <= K * R32 sp ->
  let b := rb_boundary (ribbon_new cap fs sp dr pu) in
  fin b /\ / (K + 1) - / 4194304 <= R32 b <= 1.
Proof.
  intros cap fs sp dr pu K Fsp Fdr Hsp Hdr b.
  change b with (fsub f_1 (fdiv dr (fadd dr sp))).
  destruct (Rlt_dec (Rabs (rnd (R32 dr + R32 sp))) MAXF) as [Hov|Hov].
  - exact (boundary_lower_bound_fin sp dr K Fsp Fdr Hsp Hdr Hov).
  - destruct (boundary_overflow sp dr Fsp Fdr Hov) as [Fb Vb].
    split; [exact Fb|]. rewrite Vb.
    assert (HK : 0 <= K).
    { destruct (Rle_or_lt 0 K) as [H|H]; [exact H|exfalso].
      assert (K * R32 sp < 0) by nra. lra. }
    assert (Hc : / (K + 1) <= 1).
    { rewrite <- Rinv_1 at 2. apply Rinv_le_contravar; lra. }
    lra.
Qed.

(** realistic ribbons, dropper <= softpot: the boundary is at least 0.49999 *)
Corollary boundary_realistic : forall cap fs (sp dr pu : f32),
  fin sp -> fin dr -> 1 <= R32 sp -> 0 <= R32 dr <= R32 sp ->
  let b := rb_boundary (ribbon_new cap fs sp dr pu) in
  fin b /\ 49999 / 100000 <= R32 b <= 1.
Proof.
  intros cap fs sp dr pu Fsp Fdr Hsp Hdr b.
  destruct (boundary_lower_bound cap fs sp dr pu 1 Fsp Fdr Hsp ltac:(lra)) as [Fb Hb].
  fold b in Fb, Hb. split; [exact Fb|].
  replace (/ (1 + 1)) with (/ 2) in Hb by (f_equal; ring). lra.
Qed.

(** dropper <= 9 softpot: the boundary is at least 0.0999 *)
Corollary boundary_ratio9 : forall cap fs (sp dr pu : f32),
  fin sp -> fin dr -> 1 <= R32 sp -> 0 <= R32 dr <= 9 * R32 sp ->
  let b := rb_boundary (ribbon_new cap fs sp dr pu) in
  fin b /\ 999 / 10000 <= R32 b <= 1.
Proof.
  intros cap fs sp dr pu Fsp Fdr Hsp Hdr b.
  destruct (boundary_lower_bound cap fs sp dr pu 9 Fsp Fdr Hsp Hdr) as [Fb Hb].
  fold b in Fb, Hb. split; [exact Fb|].
  replace (/ (9 + 1)) with (/ 10) in Hb by (f_equal; ring). lra.
Qed.

(** the bound has to be absolute: the relative form [1 / (K + 1) * (1 - 2^-22)] is false
    already for K = 9.  Witness: softpot 1 + 2^-23 ohm, dropper 9 + 2^-20 ohm (<= 9 softpot);
    the sum rounds down to 10 + 2^-20, the quotient up to 15099495 * 2^-24, and the boundary
    is 1677721 * 2^-24 = 0.09999996..., below 0.1 * (1 - 2^-22) = 0.09999997... *)
Example boundary_relative_bound_false :
  let sp := of_bits 1065353217 in
  let dr := of_bits 1091567617 in
  fin sp /\ fin dr /\ 1 <= R32 sp /\ 0 <= R32 dr <= 9 * R32 sp /\
  forall cap fs pu,
    R32 (rb_boundary (ribbon_new cap fs sp dr pu)) < / (9 + 1) * (1 - / 4194304).
Proof.
  intros sp dr.
  assert (Vsp : R32 sp = 8388609 * / 8388608)
    by (unfold sp; r32_const (of_bits 1065353217); lra).
  assert (Vdr : R32 dr = 9437185 * / 1048576)
    by (unfold dr; r32_const (of_bits 1091567617); lra).
  split; [vm_compute; reflexivity|]. split; [vm_compute; reflexivity|].
  rewrite Vsp, Vdr. split; [lra|]. split; [lra|].
  intros cap fs pu.
  change (rb_boundary (ribbon_new cap fs sp dr pu)) with (fsub f_1 (fdiv dr (fadd dr sp))).
  unfold sp, dr.
  match goal with |- R32 ?c < _ => r32_const c end.
  lra.
Qed.

(** ** the tolerance [2 tau / b] of the f32 theorems, made explicit *)

(** for any ratio bound [K < 2^22 - 1] *)
Lemma tolerance_of_ratio : forall t b K, 0 <= t -> 0 <= K ->
  / 4194304 < / (K + 1) -> / (K + 1) - / 4194304 <= b ->
  2 * t / b <= 2 * t / (/ (K + 1) - / 4194304).
Proof.
  intros t b K Ht HK Hpos Hb. unfold Rdiv.
  apply Rmult_le_compat_l; [lra|].
  apply Rinv_le_contravar; lra.
Qed.

Lemma tolerance_realistic : forall t b, 0 <= t -> 49999 / 100000 <= b ->
  2 * t / b <= 40001 / 10000 * t.
Proof.
  intros t b Ht Hb.
  assert (Hi : 0 < / b) by (apply Rinv_0_lt_compat; lra).
  apply Rmult_le_reg_r with b; [lra|].
  unfold Rdiv. rewrite Rmult_assoc, Rinv_l, Rmult_1_r by lra.
  nra.
Qed.

(** [C16_between_f32] for realistic ribbons (dropper <= softpot, softpot >= 1 ohm): the
    tolerance [2 tau / boundary] is at most [4.0001 tau] *)
Theorem C16_between_f32_realistic : forall cap fs sp dr pu samples lo hi,
  let r0 := ribbon_new cap fs sp dr pu in
  config_ok r0 ->
  fin sp -> fin dr -> 1 <= R32 sp -> 0 <= R32 dr <= R32 sp ->
  Forall sample_ok samples ->
  rb_pressing (polls r0 samples) = true ->
  (forall x, In x (contributing r0 samples) -> (0 <= lo <= R32 x) /\ (R32 x <= hi <= 1)) ->
  let e := R32 (rb_err r0) in
  let b := R32 (rb_boundary r0) in
  let v := R32 (ribbon_value (polls r0 samples)) in
  49999 / 100000 <= b <= 1 /\
  full_scale b (corr_R e lo) - 40001 / 10000 * tau r0 <= v
    <= full_scale b (corr_R e hi) + 40001 / 10000 * tau r0 /\
  corr_R e lo - 2 * tau r0 <= v.
Proof.
  intros cap fs sp dr pu samples lo hi r0 Hc Fsp Fdr Hsp Hdr HF Hp Hlh e b v.
  destruct (boundary_realistic cap fs sp dr pu Fsp Fdr Hsp Hdr) as [_ Hb].
  fold r0 in Hb. fold b in Hb.
  destruct (C16_between_f32 cap fs sp dr pu samples lo hi Hc HF Hp Hlh) as [[L U] L2].
  fold r0 in L, U, L2. fold e b in L, U, L2. fold v in L, U, L2.
  pose proof (tau_pos r0) as Ht.
  pose proof (tolerance_realistic (tau r0) b ltac:(lra) ltac:(lra)) as Htol.
  split; [exact Hb|]. split; [split; lra | exact L2].
Qed.

(** [C16_monotone_f32] for realistic ribbons: raising a contributing sample lowers value()
    by at most [4.0001 tau + tau / 4] *)
Theorem C16_monotone_f32_realistic : forall cap fs sp dr pu samples1 samples2 W1 W2 x y,
  let r0 := ribbon_new cap fs sp dr pu in
  config_ok r0 ->
  fin sp -> fin dr -> 1 <= R32 sp -> 0 <= R32 dr <= R32 sp ->
  Forall sample_ok samples1 -> Forall sample_ok samples2 ->
  rb_pressing (polls r0 samples1) = true -> rb_pressing (polls r0 samples2) = true ->
  contributing r0 samples1 = W1 ++ x :: W2 ->
  contributing r0 samples2 = W1 ++ y :: W2 ->
  R32 x <= R32 y ->
  R32 (ribbon_value (polls r0 samples1)) - (40001 / 10000 * tau r0 + tau r0 / 4)
  <= R32 (ribbon_value (polls r0 samples2)).
Proof.
  intros cap fs sp dr pu samples1 samples2 W1 W2 x y r0 Hc Fsp Fdr Hsp Hdr
         HF1 HF2 Hp1 Hp2 E1 E2 Hxy.
  destruct (boundary_realistic cap fs sp dr pu Fsp Fdr Hsp Hdr) as [_ Hb].
  fold r0 in Hb.
  pose proof (C16_monotone_f32 cap fs sp dr pu samples1 samples2 W1 W2 x y
                Hc HF1 HF2 Hp1 Hp2 E1 E2 Hxy) as Hm.
  cbv zeta in Hm. fold r0 in Hm.
  pose proof (tau_pos r0) as Ht.
  pose proof (tolerance_realistic (tau r0) (R32 (rb_boundary r0)) ltac:(lra) ltac:(lra)) as Htol.
  lra.
Qed.
