(** C06 (byte level): every status byte the receiver has no use for, inserted inside a
    byte stream together with any number of data bytes (and real-time bytes between them),
    changes no getter.

    [C06_foreign_bytes_transparent] (Proofs/MidiExtraProofs.v) covers a channel-voice status
    byte of ANOTHER channel only.  Here the same statement is proved for the whole set of
    status bytes that MIDI 1.0 and the receiver treat as "not for me":

    - polyphonic key pressure (0xA0), program change (0xC0), channel pressure (0xD0) on ANY
      channel, in particular the listened one;
    - every channel-voice status byte of another channel (the old theorem);
    - all system-common status bytes 0xF0..0xF7: SysEx start (F0), MTC quarter frame (F1),
      song position (F2), song select (F3), the undefined F4 / F5, tune request (F6) and
      end of SysEx (F7).

    In the model ([parse_byte], Model/Midi.v; the same in midi-convert 0.1.3 parse.rs) each of
    these status bytes replaces the parser state (so it cancels running status and aborts a
    partial message), F0 / F4 / F5 / F6 / F7 leave the parser [Idle] (so the SysEx payload and
    any stray data bytes are dropped until the next status byte), F1 / F2 / F3 / 0xA0 / 0xC0 /
    0xD0 open a group whose completed messages are all [MOther].  None had to be excluded.

    Also: two instances of [C04_note_selected] with a non-empty tail (the note number is KEPT
    after every key is released). *)
From Coq Require Import ZArith Bool List Lia.
Import ListNotations.
From SU Require Import F32.
From SU.gen Require Import Consts.
From SU.Model Require Import Midi.
From SU.Spec Require Import MidiSpec.
From SU.Proofs Require Import MidiProofs MidiParserProofs MidiLiftProofs MidiCCProofs.
From SU.Proofs Require Import MidiExtraProofs MidiKillers.
Open Scope Z_scope.

(** * Part 1: the ignored status bytes *)

(** a non-real-time status byte (0x80..0xF7) that is a system-common byte (0xF0..0xF7), or a
    channel-voice byte of another channel, or key pressure / program change / channel
    pressure on any channel *)
Definition ignored_status (ch s : Z) : Prop :=
  128 <= s < 248 /\
  (240 <= s \/ Z.land s 15 <> Z.min ch 15 \/ In (Z.land s 240) [160; 192; 208]).

(** a data byte, or a system real-time byte (0xF8..0xFF).  [is_byte] is needed: the model's
    classifiers look at single bits, so on a non-byte such as 1000 (bit 7 set, high nibble
    0xE) [is_realtime] holds while [parse_byte] opens a pitch-bend group *)
Definition data_or_rt (b : Z) : Prop := data_byte b \/ (is_byte b /\ is_realtime b = true).

Lemma foreign_is_ignored : forall ch s, foreign_status ch s -> ignored_status ch s.
Proof.
  intros ch s [Hs Hc]. split; [lia|]. right. left. exact Hc.
Qed.

Lemma ignored_status_facts : forall ch s, ignored_status ch s ->
  is_byte s /\ is_status_byte s = true /\ is_realtime s = false.
Proof.
  intros ch s [Hs _].
  assert (Hb : is_byte s) by (unfold is_byte; lia).
  split; [exact Hb|]. split.
  - rewrite (is_status_byte_spec s Hb). apply Z.leb_le. lia.
  - unfold is_realtime. apply Z.leb_gt. lia.
Qed.

(** the reference decoder gives such a segment no visible message, or only messages of
    another channel *)
Lemma ignored_segment_ignored : forall r s d,
  128 <= s < 248 ->
  (240 <= s \/ Z.land s 15 <> r_channel r \/ In (Z.land s 240) [160; 192; 208]) ->
  fold_left apply_msg (segment_msgs (s, d)) r = r.
Proof.
  intros r s d Hs Hc.
  assert (Hb : is_byte s) by (unfold is_byte; lia).
  destruct (Z_lt_le_dec s 240) as [Hlt|Hge].
  - destruct Hc as [Hc|[Hc|Hc]].
    + lia.
    + apply foreign_segment_ignored; [lia|exact Hc].
    + unfold segment_msgs. rewrite (is_system_message_spec s Hb).
      replace (240 <=? s) with false by (symmetry; apply Z.leb_gt; lia).
      cbv zeta. cbn [In] in Hc.
      destruct Hc as [E|[E|[E|F]]]; [| | |contradiction F]; rewrite <- E; reflexivity.
  - unfold segment_msgs. rewrite (is_system_message_spec s Hb).
    replace (240 <=? s) with true by (symmetry; apply Z.leb_le; lia).
    reflexivity.
Qed.

(** dropping the real-time bytes of a mixed run leaves data bytes *)
Lemma mixed_run_facts : forall d, Forall data_or_rt d ->
  Forall is_byte d /\ Forall data_byte (filter nonrt d).
Proof.
  induction 1 as [|b d Hb _ [IH1 IH2]]; [split; constructor|].
  destruct Hb as [Hb|[Hb Hrt]].
  - destruct (data_byte_facts b Hb) as (Hbyte & _ & Hn).
    split; [constructor; assumption|].
    cbn [filter]. rewrite Hn. constructor; assumption.
  - split; [constructor; assumption|].
    cbn [filter]. unfold nonrt at 1. rewrite Hrt. cbn [negb]. exact IH2.
Qed.

(** general form (the state after [l1] is arbitrary): the condition is on what the open
    group of that state would make of the data bytes at the head of [l2]; same shape as
    [foreign_insert_gen] *)
Lemma ignored_insert_gen : forall ch l1 s d l2,
  Forall is_byte l1 -> Forall is_byte l2 ->
  ignored_status ch s -> Forall data_or_rt d ->
  fold_left apply_msg
    (sem (r_parser (run_bytes ch l1)) (fst (split_segments (filter nonrt l2))))
    (run_bytes ch l1) = run_bytes ch l1 ->
  observe (run_bytes ch (l1 ++ s :: d ++ l2)) = observe (run_bytes ch (l1 ++ l2)).
Proof.
  intros ch l1 s d l2 H1 H2 Hig Hd Hsem.
  destruct (ignored_status_facts ch s Hig) as (Hsb & Hst & Hrt).
  destruct Hig as [Hs Hc].
  destruct (mixed_run_facts d Hd) as [Hdb Hdd].
  pose proof (wf_run_bytes ch l1 H1) as Hwf.
  assert (Hx : Forall is_byte (s :: d ++ l2)).
  { constructor; [exact Hsb|]. apply Forall_app. split; assumption. }
  rewrite !run_bytes_app.
  rewrite (parser_decodes_gen _ Hx _ Hwf), (parser_decodes_gen _ H2 _ Hwf).
  assert (Hn : nonrt s = true) by (unfold nonrt; rewrite Hrt; reflexivity).
  cbn [filter]. rewrite Hn, filter_app.
  rewrite split_cons_status by exact Hst. rewrite (split_data_app (filter nonrt d) _ Hdd).
  cbn [fst snd flat_map]. rewrite sem_nil. cbn [app].
  rewrite !fold_left_app.
  rewrite ignored_segment_ignored; [|exact Hs|rewrite run_bytes_channel; exact Hc].
  rewrite Hsem. reflexivity.
Qed.

(** (2) an ignored status byte followed by ANY number of data bytes, with real-time bytes
    anywhere between them, inserted before a point where the next non-real-time byte is a
    status byte (or the stream ends), changes no getter after the whole stream *)
Theorem C06_ignored_bytes_rt_transparent : forall ch l1 s d l2,
  Forall is_byte (l1 ++ l2) ->
  ignored_status ch s -> Forall data_or_rt d ->
  at_boundary l2 ->
  observe (run_bytes ch (l1 ++ s :: d ++ l2)) = observe (run_bytes ch (l1 ++ l2)).
Proof.
  intros ch l1 s d l2 H Hs Hd Hb. apply Forall_app in H. destruct H as [H1 H2].
  apply ignored_insert_gen; try assumption.
  rewrite (at_boundary_no_data l2 Hb), sem_nil. reflexivity.
Qed.

(** (1) the same with data bytes only: [C06_foreign_bytes_transparent] with
    [ignored_status] for [foreign_status] *)
Theorem C06_ignored_bytes_transparent : forall ch l1 s d l2,
  Forall is_byte (l1 ++ l2) ->
  ignored_status ch s -> Forall data_byte d ->
  at_boundary l2 ->
  observe (run_bytes ch (l1 ++ s :: d ++ l2)) = observe (run_bytes ch (l1 ++ l2)).
Proof.
  intros ch l1 s d l2 H Hs Hd Hb.
  apply C06_ignored_bytes_rt_transparent; try assumption.
  apply Forall_impl with (2 := Hd). intros b Hdb. left. exact Hdb.
Qed.

(** if the parser is idle after [l1] (no running status), no condition on the rest of the
    stream is needed *)
Theorem C06_ignored_bytes_transparent_idle : forall ch l1 s d l2,
  Forall is_byte (l1 ++ l2) ->
  ignored_status ch s -> Forall data_or_rt d ->
  r_parser (run_bytes ch l1) = Idle ->
  observe (run_bytes ch (l1 ++ s :: d ++ l2)) = observe (run_bytes ch (l1 ++ l2)).
Proof.
  intros ch l1 s d l2 H Hs Hd Hi. apply Forall_app in H. destruct H as [H1 H2].
  apply ignored_insert_gen; try assumption.
  rewrite Hi. reflexivity.
Qed.

(** a complete system-exclusive message F0 <payload> F7, payload arbitrary data bytes with
    real-time bytes interleaved *)
Theorem C06_sysex_transparent : forall ch l1 d l2,
  Forall is_byte (l1 ++ l2) ->
  Forall data_or_rt d ->
  at_boundary l2 ->
  observe (run_bytes ch (l1 ++ 240 :: d ++ 247 :: l2)) = observe (run_bytes ch (l1 ++ l2)).
Proof.
  intros ch l1 d l2 H Hd Hb.
  assert (H247 : is_byte 247) by (unfold is_byte; lia).
  assert (H' : Forall is_byte (l1 ++ 247 :: l2)).
  { apply Forall_app in H. destruct H as [H1 H2]. apply Forall_app.
    split; [exact H1|constructor; assumption]. }
  rewrite (C06_ignored_bytes_rt_transparent ch l1 240 d (247 :: l2) H').
  - apply (C06_ignored_bytes_rt_transparent ch l1 247 [] l2 H).
    + split; [lia|]. left. lia.
    + constructor.
    + exact Hb.
  - split; [lia|]. left. lia.
  - exact Hd.
  - apply at_boundary_status; reflexivity.
Qed.

(** the members of [ignored_status], family by family *)
Lemma ignored_system_common : forall ch s, 240 <= s <= 247 -> ignored_status ch s.
Proof. intros ch s Hs. split; [lia|]. left. lia. Qed.

Lemma ignored_listened_unsupported : forall ch c,
  0 <= c < 16 ->
  ignored_status ch (160 + c) /\ ignored_status ch (192 + c) /\ ignored_status ch (208 + c).
Proof.
  intros ch c Hc.
  assert (H : forall k, In k [160; 192; 208] -> Z.land (k + c) 240 = k).
  { intros k Hk.
    assert (Hc' : c = 0 \/ c = 1 \/ c = 2 \/ c = 3 \/ c = 4 \/ c = 5 \/ c = 6 \/ c = 7 \/
                  c = 8 \/ c = 9 \/ c = 10 \/ c = 11 \/ c = 12 \/ c = 13 \/ c = 14 \/ c = 15)
      by lia.
    cbn [In] in Hk.
    destruct Hk as [E|[E|[E|F]]]; [| | |contradiction F]; subst k;
      repeat (destruct Hc' as [E|Hc']; [subst c; reflexivity|]); subst c; reflexivity. }
  split; [|split]; (split; [lia|]); right; right.
  - rewrite (H 160) by (cbn [In]; tauto). cbn [In]. tauto.
  - rewrite (H 192) by (cbn [In]; tauto). cbn [In]. tauto.
  - rewrite (H 208) by (cbn [In]; tauto). cbn [In]. tauto.
Qed.

(** * Part 2: the boundary condition is needed for these bytes too *)

Definition obs_note {A B C D E F G H I J K L : Type}
  (t : Z * A * B * C * D * E * F * G * H * I * J * K * L) : Z :=
  match t with (n, _, _, _, _, _, _, _, _, _, _, _, _) => n end.

(** key pressure on the listened channel in front of a running-status note-on: the two
    data bytes that would have been a note-on become a key pressure (note 60 stays instead
    of 62).  This is MIDI 1.0 behaviour (the new status byte takes over running status),
    not a defect; it is why [at_boundary l2] is a hypothesis *)
Example ignored_boundary_condition_needed_key_pressure :
  obs_note (observe (run_bytes 0 ([144; 60; 100] ++ 160 :: [60; 50] ++ [62; 100]))) = 60 /\
  obs_note (observe (run_bytes 0 ([144; 60; 100] ++ [62; 100]))) = 62.
Proof. split; vm_compute; reflexivity. Qed.

(** a complete SysEx in front of a running-status note-on: system-common bytes cancel
    running status, the two data bytes are dropped *)
Example ignored_boundary_condition_needed_sysex :
  obs_note (observe (run_bytes 0 ([144; 60; 100] ++ 240 :: [1; 2] ++ 247 :: [62; 100]))) = 60 /\
  obs_note (observe (run_bytes 0 ([144; 60; 100] ++ [62; 100]))) = 62.
Proof. split; vm_compute; reflexivity. Qed.

(** tune request (no data bytes at all) cancels running status as well *)
Example ignored_boundary_condition_needed_tune_request :
  obs_note (observe (run_bytes 0 ([144; 60; 100] ++ 246 :: [] ++ [62; 100]))) = 60 /\
  obs_note (observe (run_bytes 0 ([144; 60; 100] ++ [62; 100]))) = 62.
Proof. split; vm_compute; reflexivity. Qed.

(** * Part 3: one concrete instance per family, by the theorems (nothing is computed on
    the receiver) *)

Ltac bytes_ok :=
  cbn [app]; repeat (apply Forall_cons; [unfold is_byte; lia|]); apply Forall_nil.
Ltac data_ok :=
  repeat (apply Forall_cons; [unfold data_byte; lia|]); apply Forall_nil.
Ltac boundary_ok :=
  first [ exact at_boundary_nil | apply at_boundary_status; reflexivity ].

(** key pressure on the listened channel (0xA0 60 50) after two note-ons sent under one
    running status and before two more *)
Example ex_key_pressure_listened :
  observe (run_bytes 0 ([144; 60; 100; 62; 90] ++ 160 :: [60; 50] ++ [144; 64; 90; 65; 80]))
  = observe (run_bytes 0 ([144; 60; 100; 62; 90] ++ [144; 64; 90; 65; 80])).
Proof.
  apply (C06_ignored_bytes_transparent 0 [144; 60; 100; 62; 90] 160 [60; 50]
           [144; 64; 90; 65; 80]).
  - bytes_ok.
  - split; [lia|]. right. right. left. reflexivity.
  - data_ok.
  - boundary_ok.
Qed.

(** the same with three key pressures under running status and a clock byte in the middle
    of the second one *)
Example ex_key_pressure_running_rt :
  observe (run_bytes 0 ([144; 60; 100; 62; 90]
                          ++ 160 :: [60; 50; 60; 248; 40; 62; 30] ++ [144; 64; 90]))
  = observe (run_bytes 0 ([144; 60; 100; 62; 90] ++ [144; 64; 90])).
Proof.
  apply (C06_ignored_bytes_rt_transparent 0 [144; 60; 100; 62; 90] 160
           [60; 50; 60; 248; 40; 62; 30] [144; 64; 90]).
  - bytes_ok.
  - split; [lia|]. right. right. left. reflexivity.
  - repeat (apply Forall_cons;
            [first [ left; unfold data_byte; lia
                   | right; split; [unfold is_byte; lia|reflexivity] ]|]).
    apply Forall_nil.
  - boundary_ok.
Qed.

(** program change on the listened channel 3 (0xC3 5) between a note-on and its note-off *)
Example ex_program_change_listened :
  observe (run_bytes 3 ([147; 60; 100] ++ 195 :: [5] ++ [131; 60; 0]))
  = observe (run_bytes 3 ([147; 60; 100] ++ [131; 60; 0])).
Proof.
  apply (C06_ignored_bytes_transparent 3 [147; 60; 100] 195 [5] [131; 60; 0]).
  - bytes_ok.
  - split; [lia|]. right. right. right. left. reflexivity.
  - data_ok.
  - boundary_ok.
Qed.

(** channel pressure on the listened channel (0xD0 77) at the end of the stream *)
Example ex_channel_pressure_listened :
  observe (run_bytes 0 ([144; 60; 100] ++ 208 :: [77] ++ []))
  = observe (run_bytes 0 ([144; 60; 100] ++ [])).
Proof.
  apply (C06_ignored_bytes_transparent 0 [144; 60; 100] 208 [77] []).
  - bytes_ok.
  - split; [lia|]. right. right. right. right. left. reflexivity.
  - data_ok.
  - boundary_ok.
Qed.

(** a SysEx with five payload bytes, closed by F7, between a note-on and a control change *)
Example ex_sysex_5 :
  observe (run_bytes 0 ([144; 60; 100] ++ 240 :: [126; 0; 6; 1; 127] ++ 247 :: [176; 7; 90]))
  = observe (run_bytes 0 ([144; 60; 100] ++ [176; 7; 90])).
Proof.
  apply (C06_sysex_transparent 0 [144; 60; 100] [126; 0; 6; 1; 127] [176; 7; 90]).
  - bytes_ok.
  - repeat (apply Forall_cons; [left; unfold data_byte; lia|]). apply Forall_nil.
  - boundary_ok.
Qed.

(** an unterminated SysEx (the next status byte ends it) *)
Example ex_sysex_unterminated :
  observe (run_bytes 0 ([144; 60; 100] ++ 240 :: [126; 0; 6; 1; 127] ++ [176; 7; 90]))
  = observe (run_bytes 0 ([144; 60; 100] ++ [176; 7; 90])).
Proof.
  apply (C06_ignored_bytes_transparent 0 [144; 60; 100] 240 [126; 0; 6; 1; 127] [176; 7; 90]).
  - bytes_ok.
  - apply ignored_system_common. lia.
  - data_ok.
  - boundary_ok.
Qed.

(** song position pointer F2 with its two data bytes *)
Example ex_song_position :
  observe (run_bytes 0 ([144; 60; 100] ++ 242 :: [10; 20] ++ [144; 64; 90]))
  = observe (run_bytes 0 ([144; 60; 100] ++ [144; 64; 90])).
Proof.
  apply (C06_ignored_bytes_transparent 0 [144; 60; 100] 242 [10; 20] [144; 64; 90]).
  - bytes_ok.
  - apply ignored_system_common. lia.
  - data_ok.
  - boundary_ok.
Qed.

(** MTC quarter frame F1 and song select F3, one data byte each *)
Example ex_quarter_frame :
  observe (run_bytes 0 ([144; 60; 100] ++ 241 :: [33] ++ [144; 64; 90]))
  = observe (run_bytes 0 ([144; 60; 100] ++ [144; 64; 90])).
Proof.
  apply (C06_ignored_bytes_transparent 0 [144; 60; 100] 241 [33] [144; 64; 90]).
  - bytes_ok.
  - apply ignored_system_common. lia.
  - data_ok.
  - boundary_ok.
Qed.

Example ex_song_select :
  observe (run_bytes 0 ([144; 60; 100] ++ 243 :: [4] ++ [144; 64; 90]))
  = observe (run_bytes 0 ([144; 60; 100] ++ [144; 64; 90])).
Proof.
  apply (C06_ignored_bytes_transparent 0 [144; 60; 100] 243 [4] [144; 64; 90]).
  - bytes_ok.
  - apply ignored_system_common. lia.
  - data_ok.
  - boundary_ok.
Qed.

(** tune request F6 (no data), here in the middle of a partial note-on that the next
    status byte restarts *)
Example ex_tune_request :
  observe (run_bytes 0 ([144; 60] ++ 246 :: [] ++ [144; 64; 90]))
  = observe (run_bytes 0 ([144; 60] ++ [144; 64; 90])).
Proof.
  apply (C06_ignored_bytes_transparent 0 [144; 60] 246 [] [144; 64; 90]).
  - bytes_ok.
  - apply ignored_system_common. lia.
  - data_ok.
  - boundary_ok.
Qed.

(** the undefined F4 with stray data, the rest of the stream starting with a clock byte and
    then a status byte *)
Example ex_undefined_f4 :
  observe (run_bytes 0 ([144; 60; 100] ++ 244 :: [1; 2; 3] ++ [248; 144; 64; 90]))
  = observe (run_bytes 0 ([144; 60; 100] ++ [248; 144; 64; 90])).
Proof.
  apply (C06_ignored_bytes_transparent 0 [144; 60; 100] 244 [1; 2; 3] [248; 144; 64; 90]).
  - bytes_ok.
  - apply ignored_system_common. lia.
  - data_ok.
  - vm_compute. reflexivity.
Qed.

(** * Part 4 (C04): the note number is kept after every key is released *)

(** [C04_note_selected]'s last premise for a tail of one operation *)
Lemma later_singleton : forall c h1 o a,
  (is_note_msg c a = true -> held_spec c (h1 ++ o :: [a]) = []) ->
  forall h3 o' h4, [a] = h3 ++ o' :: h4 -> is_note_msg c o' = true ->
                   held_spec c (h1 ++ o :: h3 ++ [o']) = [].
Proof.
  intros c h1 o a Ha h3 o' h4 E Ho'.
  destruct h3 as [|x h3].
  - cbn [app] in E. injection E as E1 E2. subst o'. cbn [app]. apply Ha. exact Ho'.
  - cbn [app] in E. injection E as E1 E2. destruct h3; discriminate E2.
Qed.

Lemma selected_singleton : forall p n m, selected p [n] m -> m = n.
Proof.
  intros p n m (Hin & _). cbn [In] in Hin. destruct Hin as [E|F]; [symmetry; exact E|contradiction F].
Qed.

(** note-on 60, note-off 60: computed on the model *)
Example ex_note_kept_after_release :
  let h := [OMsg (MNoteOn 0 60 100); OMsg (MNoteOff 0 60 0)] in
  r_note (mrun 0 h) = 60 /\ r_gate (mrun 0 h) = false /\ r_held (mrun 0 h) = [] /\
  held_spec 0 h = [].
Proof. vm_compute. repeat split; reflexivity. Qed.

(** ... and as an instance of [C04_note_selected] with h1 = [], o = note-on 60,
    h2 = [note-off 60]: the note after the release is the one selected among the notes
    outstanding right after the note-on, [60] *)
Example ex_note_kept_after_release_selected :
  selected PLast [60] (r_note (mrun 0 [OMsg (MNoteOn 0 60 100); OMsg (MNoteOff 0 60 0)])).
Proof.
  pose proof (C04_note_selected 0 [] (OMsg (MNoteOn 0 60 100)) [OMsg (MNoteOff 0 60 0)]) as H.
  cbv zeta in H. change (Z.min 0 15) with 0 in H.
  change (held_spec 0 ([] ++ [OMsg (MNoteOn 0 60 100)])) with [60] in H.
  apply H; clear H.
  - intros k. apply Z.leb_le.
    do 3 (destruct k as [|k]; [vm_compute; reflexivity|]).
    vm_compute. reflexivity.
  - reflexivity.
  - discriminate.
  - apply later_singleton. intros _. vm_compute. reflexivity.
Qed.

Example ex_note_kept_after_release_by_theorem :
  r_note (mrun 0 [OMsg (MNoteOn 0 60 100); OMsg (MNoteOff 0 60 0)]) = 60.
Proof. exact (selected_singleton _ _ _ ex_note_kept_after_release_selected). Qed.

(** note-on 60, note-on 64, note-off 64, note-off 60 with priority Last (the default):
    after the first release the note falls back to 60, and it stays 60 when 60 is released
    too *)
Example ex_note_kept_after_release_long :
  let h := [OMsg (MNoteOn 0 60 100); OMsg (MNoteOn 0 64 90);
            OMsg (MNoteOff 0 64 0); OMsg (MNoteOff 0 60 0)] in
  r_note (mrun 0 (firstn 2 h)) = 64 /\ r_note (mrun 0 (firstn 3 h)) = 60 /\
  r_note (mrun 0 h) = 60 /\ r_gate (mrun 0 (firstn 3 h)) = true /\
  r_gate (mrun 0 h) = false /\ r_held (mrun 0 h) = [] /\ r_prio (mrun 0 h) = PLast.
Proof. vm_compute. repeat split; reflexivity. Qed.

(** instance of [C04_note_selected] with h1 = [on 60; on 64], o = note-off 64,
    h2 = [note-off 60] *)
Example ex_note_kept_after_release_long_selected :
  selected PLast [60]
    (r_note (mrun 0 [OMsg (MNoteOn 0 60 100); OMsg (MNoteOn 0 64 90);
                     OMsg (MNoteOff 0 64 0); OMsg (MNoteOff 0 60 0)])).
Proof.
  pose proof (C04_note_selected 0 [OMsg (MNoteOn 0 60 100); OMsg (MNoteOn 0 64 90)]
                (OMsg (MNoteOff 0 64 0)) [OMsg (MNoteOff 0 60 0)]) as H.
  cbv zeta in H. change (Z.min 0 15) with 0 in H.
  change (held_spec 0 ([OMsg (MNoteOn 0 60 100); OMsg (MNoteOn 0 64 90)]
                         ++ [OMsg (MNoteOff 0 64 0)])) with [60] in H.
  apply H; clear H.
  - intros k. apply Z.leb_le.
    do 5 (destruct k as [|k]; [vm_compute; reflexivity|]).
    vm_compute. reflexivity.
  - reflexivity.
  - discriminate.
  - apply later_singleton. intros _. vm_compute. reflexivity.
Qed.

Example ex_note_kept_after_release_long_by_theorem :
  r_note (mrun 0 [OMsg (MNoteOn 0 60 100); OMsg (MNoteOn 0 64 90);
                  OMsg (MNoteOff 0 64 0); OMsg (MNoteOff 0 60 0)]) = 60.
Proof. exact (selected_singleton _ _ _ ex_note_kept_after_release_long_selected). Qed.

(** the same under priority High with the LOWER note released last: 72 then 60 pressed,
    72 released (note falls back to 60), 60 released (note stays 60, not 72 and not 0) *)
Example ex_note_kept_after_release_high :
  let h := [OSetPrio PHigh; OMsg (MNoteOn 0 72 100); OMsg (MNoteOn 0 60 90);
            OMsg (MNoteOff 0 72 0); OMsg (MNoteOff 0 60 0)] in
  r_note (mrun 0 (firstn 3 h)) = 72 /\ r_note (mrun 0 (firstn 4 h)) = 60 /\
  r_note (mrun 0 h) = 60 /\ r_gate (mrun 0 h) = false.
Proof. vm_compute. repeat split; reflexivity. Qed.
