(** * GlideFilterProofs: the f32 recurrence of the glide filter (Props/C13.v, Props/C14.v).

    Contents
    - [filter_real]: rounding-error analysis of
        rnd (rnd (rnd (b x) + rnd (b x1)) - rnd (a y1))
      against the exact recurrence (1+a)/2 (x + x1) - a y1, constant 7.5 * 2^-24;
    - [run_value]: the value computed by [df1_run] with a [good] coefficient set;
    - [one_step_sharp] (constant 7.5) and from it [one_step_partial], [approach_partial],
      [settles_partial], [hull_partial], [step_tracks_partial];
    - counterexamples showing that the lower bound 2^-100 on the signal bound cannot be
      dropped (products of subnormal numbers underflow). *)

From Coq Require Import ZArith Reals Lia Lra Bool List.
From Flocq Require Import Core IEEE754.BinarySingleNaN.
From SU Require Import F32 F32Lemmas.
From SU.Model Require Import Utils Glide.
From SU.Spec Require Import GlideSpec.
From SU.Proofs Require Import LfoProofs.
Import ListNotations.
Open Scope R_scope.

(** ** constants *)

Notation u24 := (/ 16777216).
Notation t150 := (/ 1427247692705959881058285969449495136382746624).

Lemma bpow_m100 : bpow radix2 (-100) = / 1267650600228229401496703205376.
Proof. change (-100)%Z with (- (100))%Z. rewrite (bpow2_neg 100) by lia. reflexivity. Qed.

Lemma bpow_100 : bpow radix2 100 = 1267650600228229401496703205376.
Proof. rewrite (bpow2_pos 100) by lia. reflexivity. Qed.

Lemma bpow_64 : bpow radix2 64 = 18446744073709551616.
Proof. rewrite (bpow2_pos 64) by lia. reflexivity. Qed.

Lemma bpow_103 : bpow radix2 103 = 10141204801825835211973625643008.
Proof. rewrite (bpow2_pos 103) by lia. reflexivity. Qed.

(** ** one rounding, absolute form *)

Lemma rnd_err : forall x m, Rabs x <= m -> Rabs (rnd x - x) <= u24 * m + t150.
Proof.
  intros x m Hm.
  destruct (rnd_error x) as [e [h [He [Hh Hr]]]].
  rewrite Hr. replace (x * (1 + e) + h - x) with (x * e + h) by ring.
  eapply Rle_trans; [apply Rabs_triang|]. rewrite Rabs_mult.
  assert (Rabs x * Rabs e <= m * u24).
  { apply Rmult_le_compat; auto using Rabs_pos. }
  lra.
Qed.

Lemma rnd_err2 : forall x m, Rabs x <= m ->
  - (u24 * m + t150) <= rnd x - x <= u24 * m + t150.
Proof. intros x m H. apply Rabs_le_inv. now apply rnd_err. Qed.

(** ** the real-number analysis of one filter step *)

Lemma filter_real : forall b a x x1 y1 B,
  0 < b -> -1 < a <= / 4194304 -> Rabs (2 * b - a - 1) <= 4 * u24 ->
  Rabs x <= B -> Rabs x1 <= B -> Rabs y1 <= B ->
  / 1267650600228229401496703205376 <= B ->
  let u1 := rnd (b * x) in
  let u2 := rnd (b * x1) in
  let s := rnd (u1 + u2) in
  let v := rnd (a * y1) in
  let out := rnd (s - v) in
  Rabs u1 <= 4 * B /\ Rabs u2 <= 4 * B /\ Rabs (u1 + u2) <= 4 * B /\ Rabs s <= 4 * B /\
  Rabs v <= 4 * B /\ Rabs (s - v) <= 4 * B /\ Rabs out <= 4 * B /\
  Rabs (out - ((1 + a) / 2 * (x + x1) - a * y1)) <= 15 / 2 * u24 * B.
Proof.
  intros b a x x1 y1 B Hb Ha Hdc Hx Hx1 Hy1 HB u1 u2 s v out.
  assert (HB0 : 0 < B) by lra.
  assert (Ht : t150 <= / 1125899906842624 * B) by lra.
  apply Rabs_le_inv in Hdc.
  set (Q := b * B). set (P := Rabs a * B).
  assert (HQ0 : 0 <= Q) by (unfold Q; apply Rmult_le_pos; lra).
  assert (HP0 : 0 <= P) by (unfold P; apply Rmult_le_pos; [apply Rabs_pos|lra]).
  assert (HPB : P <= B).
  { unfold P. rewrite <- (Rmult_1_l B) at 2. apply Rmult_le_compat_r; [lra|].
    apply Rabs_le. lra. }
  assert (HQP : 6 * Q + 2 * P <= 3 * B + 32 * u24 * B).
  { assert (H1 : 2 * b * B <= (1 + a + 4 * u24) * B) by (apply Rmult_le_compat_r; lra).
    unfold Q, P. destruct (Rle_dec a 0) as [Hn|Hp].
    - rewrite Rabs_left1 by exact Hn.
      assert (0 <= (- a) * B) by (apply Rmult_le_pos; lra). lra.
    - rewrite Rabs_pos_eq by lra.
      assert (a * B <= / 4194304 * B) by (apply Rmult_le_compat_r; lra). lra. }
  assert (Hbx : Rabs (b * x) <= Q).
  { rewrite Rabs_mult, (Rabs_pos_eq b) by lra. unfold Q. apply Rmult_le_compat_l; lra. }
  assert (Hbx1 : Rabs (b * x1) <= Q).
  { rewrite Rabs_mult, (Rabs_pos_eq b) by lra. unfold Q. apply Rmult_le_compat_l; lra. }
  assert (Hay : Rabs (a * y1) <= P).
  { rewrite Rabs_mult. unfold P. apply Rmult_le_compat_l; [apply Rabs_pos|lra]. }
  assert (HQB : Q <= B) by lra.
  (* the five roundings *)
  pose proof (rnd_err2 _ _ Hbx) as E1. fold u1 in E1.
  pose proof (rnd_err2 _ _ Hbx1) as E2. fold u2 in E2.
  pose proof (rnd_err2 _ _ Hay) as E4. fold v in E4.
  apply Rabs_le_inv in Hbx. apply Rabs_le_inv in Hbx1. apply Rabs_le_inv in Hay.
  assert (H3 : Rabs (u1 + u2) <= 2 * Q * (1 + u24) + 2 * t150) by (apply Rabs_le; lra).
  pose proof (rnd_err2 _ _ H3) as E3. fold s in E3.
  apply Rabs_le_inv in H3.
  assert (H5 : Rabs (s - v) <=
               (2 * Q * (1 + u24) + 2 * t150) * (1 + u24) + t150 + (P * (1 + u24) + t150))
    by (apply Rabs_le; lra).
  pose proof (rnd_err2 _ _ H5) as E5. fold out in E5.
  apply Rabs_le_inv in H5.
  (* the DC mismatch *)
  assert (Hmis : Rabs ((2 * b - a - 1) / 2 * (x + x1)) <= 4 * u24 * B).
  { rewrite Rabs_mult.
    replace (4 * u24 * B) with (2 * u24 * (2 * B)) by ring.
    apply Rmult_le_compat; try apply Rabs_pos.
    - apply Rabs_le. lra.
    - eapply Rle_trans; [apply Rabs_triang|]. lra. }
  apply Rabs_le_inv in Hmis.
  assert (Hsplit : (1 + a) / 2 * (x + x1) - a * y1 =
                   b * x + b * x1 - a * y1 - (2 * b - a - 1) / 2 * (x + x1)) by field.
  repeat split; apply Rabs_le; lra.
Qed.

(** ** operations with a zero operand *)

Lemma MAXF_pos : 0 < MAXF.
Proof. rewrite MAXF_val. lra. Qed.

Lemma fmul_zero_l : forall x : f32, fin x -> R32 (fmul f_0 x) = 0 /\ fin (fmul f_0 x).
Proof.
  intros x Fx.
  assert (E : R32 f_0 * R32 x = 0) by (rewrite R32_f_0; ring).
  destruct (fmul_exact f_0 x fin_f_0 Fx) as [V F].
  - rewrite E. apply fmt_0.
  - rewrite E, Rabs_R0. apply MAXF_pos.
  - split; [now rewrite V|exact F].
Qed.

Lemma fadd_zero_r : forall a z : f32, fin a -> fin z -> R32 z = 0 ->
  R32 (fadd a z) = R32 a /\ fin (fadd a z).
Proof.
  intros a z Fa Fz Hz.
  assert (E : R32 a + R32 z = R32 a) by (rewrite Hz; ring).
  destruct (fadd_exact a z Fa Fz) as [V F].
  - rewrite E. apply fmt_R32.
  - rewrite E. apply R32_lt_MAXF.
  - split; [now rewrite V|exact F].
Qed.

Lemma fsub_zero_r : forall a z : f32, fin a -> fin z -> R32 z = 0 ->
  R32 (fsub a z) = R32 a /\ fin (fsub a z).
Proof.
  intros a z Fa Fz Hz.
  assert (E : R32 a - R32 z = R32 a) by (rewrite Hz; ring).
  destruct (fsub_exact a z Fa Fz) as [V F].
  - rewrite E. apply fmt_R32.
  - rewrite E. apply R32_lt_MAXF.
  - split; [now rewrite V|exact F].
Qed.

(** ** one filter step in f32 *)

Lemma df1_run_eq : forall d x,
  df1_run d x = (mkDf1 (snd (df1_run d x)) (d_y1 d) x (d_x1 d) (d_c d), snd (df1_run d x)).
Proof. reflexivity. Qed.

(** the sharp form: constant 7.5 *)
Lemma one_step_sharp : forall d x B,
  good (d_c d) -> df1_bounded d B -> fin x -> Rabs (R32 x) <= B ->
  bpow radix2 (-100) <= B -> B <= bpow radix2 100 ->
  let y := snd (df1_run d x) in
  let p := pole (d_c d) in
  fin y /\ Rabs (R32 y) <= 4 * B /\
  Rabs (R32 y - ((1 - p) / 2 * (R32 x + R32 (d_x1 d)) + p * R32 (d_y1 d))) <= 15 / 2 * u24 * B.
Proof.
  intros d x B (Fa & Fb & Eb1 & Ea2 & Eb2 & Hb & Ha & Hdc)
    (Fy1 & Fy2 & Fx1 & Fx2 & By1 & By2 & Bx1 & Bx2) Fx Bx HBlo HBhi y p.
  rewrite bpow_m100 in HBlo. rewrite bpow_100 in HBhi.
  destruct (filter_real (R32 (k_b0 (d_c d))) (R32 (k_a1 (d_c d))) (R32 x) (R32 (d_x1 d))
              (R32 (d_y1 d)) B) as (H1 & H2 & H3 & H4 & H5 & H6 & H7 & H8); try assumption; try lra.
  assert (LT : forall r, Rabs r <= 4 * B -> Rabs r < MAXF).
  { intros r Hr. rewrite MAXF_val. lra. }
  subst y p. unfold pole, df1_run. cbv zeta. cbn [snd].
  rewrite Eb1, Ea2, Eb2.
  destruct (fmul_correct (k_b0 (d_c d)) x Fb Fx (LT _ H1)) as [V1 F1].
  destruct (fmul_correct (k_b0 (d_c d)) (d_x1 d) Fb Fx1 (LT _ H2)) as [V2 F2].
  destruct (fadd_correct _ _ F1 F2) as [V3 F3].
  { rewrite V1, V2. apply LT, H4. }
  destruct (fmul_zero_l (d_x2 d) Fx2) as [Vz Fz].
  destruct (fadd_zero_r _ _ F3 Fz Vz) as [V4 F4].
  destruct (fmul_correct (k_a1 (d_c d)) (d_y1 d) Fa Fy1 (LT _ H5)) as [V5 F5].
  destruct (fsub_correct _ _ F4 F5) as [V6 F6].
  { rewrite V4, V3, V1, V2, V5. apply LT, H7. }
  destruct (fmul_zero_l (d_y2 d) Fy2) as [Vz2 Fz2].
  destruct (fsub_zero_r _ _ F6 Fz2 Vz2) as [V7 F7].
  split; [exact F7|].
  rewrite V7, V6, V4, V3, V1, V2, V5.
  split; [exact H7|].
  replace ((1 - - R32 (k_a1 (d_c d))) / 2 * (R32 x + R32 (d_x1 d)) + - R32 (k_a1 (d_c d)) * R32 (d_y1 d))
    with ((1 + R32 (k_a1 (d_c d))) / 2 * (R32 x + R32 (d_x1 d)) - R32 (k_a1 (d_c d)) * R32 (d_y1 d))
    by field.
  exact H8.
Qed.

(** the statement of C13_one_step, with the lower bound on B made explicit *)
Lemma one_step_partial : forall d x B,
  good (d_c d) -> df1_bounded d B -> fin x -> Rabs (R32 x) <= B ->
  bpow radix2 (-100) <= B -> B <= bpow radix2 100 ->
  let '(d', y) := df1_run d x in
  let p := pole (d_c d) in
  fin y /\ df1_fin d' /\ d_c d' = d_c d /\
  Rabs (R32 y - ((1 - p) / 2 * (R32 x + R32 (d_x1 d)) + p * R32 (d_y1 d))) <= 16 * / 16777216 * B.
Proof.
  intros d x B Hg Hb Fx Bx HBlo HBhi.
  destruct (one_step_sharp d x B Hg Hb Fx Bx HBlo HBhi) as (Fy & _ & Hy).
  rewrite df1_run_eq. cbv beta iota zeta.
  destruct Hb as (Fy1 & Fy2 & Fx1 & Fx2 & _).
  split; [exact Fy|]. split.
  { unfold df1_fin. cbn [d_y1 d_y2 d_x1 d_x2]. repeat split; assumption. }
  split; [reflexivity|].
  eapply Rle_trans; [exact Hy|].
  rewrite bpow_m100 in HBlo. lra.
Qed.

(** the statement of C13_approach, with the lower bound on B made explicit; the constant
    7.5 is available from [approach_sharp] *)
Lemma approach_sharp : forall d x B,
  good (d_c d) -> df1_bounded d B -> fin x -> Rabs (R32 x) <= B ->
  bpow radix2 (-100) <= B -> B <= bpow radix2 100 -> d_x1 d = x ->
  let y := snd (df1_run d x) in
  fin y /\ Rabs (R32 y) <= 4 * B /\
  Rabs ((R32 y - R32 x) - pole (d_c d) * (R32 (d_y1 d) - R32 x)) <= 15 / 2 * u24 * B.
Proof.
  intros d x B Hg Hb Fx Bx HBlo HBhi Ex y.
  destruct (one_step_sharp d x B Hg Hb Fx Bx HBlo HBhi) as (Fy & By & Hy).
  fold y in Fy, By, Hy. split; [exact Fy|]. split; [exact By|].
  rewrite Ex in Hy.
  replace (R32 y - R32 x - pole (d_c d) * (R32 (d_y1 d) - R32 x))
    with (R32 y - ((1 - pole (d_c d)) / 2 * (R32 x + R32 x) + pole (d_c d) * R32 (d_y1 d)))
    by field.
  exact Hy.
Qed.

Lemma approach_partial : forall d x B,
  good (d_c d) -> df1_bounded d B -> fin x -> Rabs (R32 x) <= B ->
  bpow radix2 (-100) <= B -> B <= bpow radix2 100 ->
  d_x1 d = x ->
  let '(_, y) := df1_run d x in
  Rabs ((R32 y - R32 x) - pole (d_c d) * (R32 (d_y1 d) - R32 x)) <= 20 * / 16777216 * B.
Proof.
  intros d x B Hg Hb Fx Bx HBlo HBhi Ex.
  destruct (approach_sharp d x B Hg Hb Fx Bx HBlo HBhi Ex) as (_ & _ & Hy).
  rewrite df1_run_eq. cbv beta iota zeta.
  eapply Rle_trans; [exact Hy|].
  rewrite bpow_m100 in HBlo. lra.
Qed.

(** ** a constant input: tracking a geometric reference *)

Lemma df1_bounded_mono : forall d B B', df1_bounded d B -> B <= B' -> df1_bounded d B'.
Proof.
  intros d B B' (F1 & F2 & F3 & F4 & H1 & H2 & H3 & H4) H.
  repeat split; try assumption; lra.
Qed.

Lemma pow_abs_le_1 : forall p n, Rabs p <= 1 -> Rabs (p ^ n) <= 1.
Proof.
  intros p n H. rewrite <- RPow_abs. rewrite <- (pow1 n).
  apply pow_incr. split; [apply Rabs_pos|exact H].
Qed.

Lemma good_pole : forall c, good c -> - / 4194304 <= pole c < 1.
Proof. intros c (_ & _ & _ & _ & _ & _ & Ha & _). unfold pole. lra. Qed.

(** [w = y1 - x - r] obeys [w' = p w + delta]: if [|w| <= W] is stable it holds forever, the
    reference [r] being multiplied by [p] at every sample *)
Lemma track : forall c x B Bm R0 W, good c -> fin x -> Rabs (R32 x) <= B ->
  bpow radix2 (-100) <= Bm -> Bm <= bpow radix2 100 -> B <= Bm ->
  B + R0 + W <= Bm ->
  Rabs (pole c) * W + 15 / 2 * u24 * Bm <= W ->
  forall n d r, d_c d = c -> d_x1 d = x -> df1_bounded d Bm -> Rabs r <= R0 ->
  Rabs (R32 (d_y1 d) - R32 x - r) <= W ->
  let '(d', ys) := run_const d x n in
  Rabs (R32 (d_y1 d') - R32 x - pole c ^ n * r) <= W.
Proof.
  intros c x B Bm R0 W Hg Fx Bx HBlo HBhi HBm Hsum Hstab.
  pose proof (good_pole c Hg) as Hp.
  assert (Hp1 : Rabs (pole c) <= 1) by (apply Rabs_le; lra).
  induction n as [|n IH]; intros d r Ec Ex Hb Hr Hw.
  - cbn [run_const]. simpl pow. now rewrite Rmult_1_l.
  - cbn [run_const]. rewrite df1_run_eq. cbv beta iota zeta.
    assert (Bx' : Rabs (R32 x) <= Bm) by lra.
    rewrite <- Ec in Hg.
    destruct (approach_sharp d x Bm Hg Hb Fx Bx' HBlo HBhi Ex) as (Fy & _ & Hy).
    rewrite Ec in Hy.
    set (y := snd (df1_run d x)) in *.
    assert (Hr' : Rabs (pole c * r) <= R0).
    { rewrite Rabs_mult. apply Rle_trans with (1 * Rabs r); [|lra].
      apply Rmult_le_compat_r; [apply Rabs_pos|exact Hp1]. }
    assert (Hw' : Rabs (R32 y - R32 x - pole c * r) <= W).
    { replace (R32 y - R32 x - pole c * r)
        with ((R32 y - R32 x - pole c * (R32 (d_y1 d) - R32 x))
              + pole c * (R32 (d_y1 d) - R32 x - r)) by ring.
      eapply Rle_trans; [apply Rabs_triang|]. rewrite Rabs_mult.
      assert (Rabs (pole c) * Rabs (R32 (d_y1 d) - R32 x - r) <= Rabs (pole c) * W)
        by (apply Rmult_le_compat_l; [apply Rabs_pos|exact Hw]).
      lra. }
    destruct Hb as (Fy1 & Fy2 & Fx1 & Fx2 & By1 & By2 & Bx1 & Bx2).
    specialize (IH (mkDf1 y (d_y1 d) x (d_x1 d) (d_c d)) (pole c * r) Ec eq_refl).
    destruct (run_const (mkDf1 y (d_y1 d) x (d_x1 d) (d_c d)) x n) as [d2 ys].
    replace (pole c ^ S n * r) with (pole c ^ n * (pole c * r)) by (simpl; ring).
    apply IH; [|exact Hr'|exact Hw'].
    unfold df1_bounded. cbn [d_y1 d_y2 d_x1 d_x2].
    repeat split; try assumption.
    apply Rabs_le. apply Rabs_le_inv in Hw', Hr', Bx. lra.
Qed.

(** facts about the accumulated resolution [S = 2 * resolution kappa * B] *)
Lemma res_facts : forall kappa c B, good c -> kappa <= speed c -> / 100000 <= kappa -> 0 <= B ->
  let S := 2 * resolution kappa * B in
  0 <= S /\ 32 * u24 * B <= S * (1 + 4 * u24) /\ S <= / 5 * B /\
  pole c * S <= S - 32 * u24 * B.
Proof.
  intros kappa c B Hg Hk Hk5 HB S.
  pose proof (good_pole c Hg) as Hp.
  assert (Hsp : speed c = 1 - pole c) by (unfold speed, pole; ring).
  assert (HS : S * kappa = 32 * u24 * B) by (unfold S, resolution; field; lra).
  assert (HS0 : 0 <= S).
  { unfold S, resolution. apply Rmult_le_pos; [|exact HB].
    apply Rmult_le_pos; [lra|]. apply Rmult_le_pos; [lra|].
    apply Rlt_le, Rinv_0_lt_compat. lra. }
  assert (H1 : S * kappa <= S * (1 + 4 * u24)) by (apply Rmult_le_compat_l; lra).
  assert (H2 : S * / 100000 <= S * kappa) by (apply Rmult_le_compat_l; lra).
  assert (H3 : 0 <= (1 - pole c - kappa) * S) by (apply Rmult_le_pos; lra).
  repeat split; lra.
Qed.

Lemma settles_partial : forall d x B n kappa,
  good (d_c d) -> kappa <= speed (d_c d) -> / 100000 <= kappa ->
  df1_bounded d B -> fin x -> Rabs (R32 x) <= B ->
  bpow radix2 (-100) <= B -> B <= bpow radix2 64 -> d_x1 d = x ->
  let '(d', ys) := run_const d x n in
  let p := Rmax 0 (pole (d_c d)) in
  Rabs (R32 (d_y1 d') - R32 x) <= p ^ n * Rabs (R32 (d_y1 d) - R32 x) + 2 * resolution kappa * B.
Proof.
  intros d x B n kappa Hg Hk Hk5 Hb Fx Bx HBlo HBhi Ex.
  pose proof (good_pole _ Hg) as Hp.
  rewrite bpow_m100 in HBlo. rewrite bpow_64 in HBhi.
  destruct (res_facts kappa (d_c d) B Hg Hk Hk5 ltac:(lra)) as (HS0 & HS1 & HS2 & HS3).
  set (S := 2 * resolution kappa * B) in *.
  set (r := R32 (d_y1 d) - R32 x).
  assert (Hr : Rabs r <= 2 * B).
  { destruct Hb as (_ & _ & _ & _ & By1 & _). unfold r.
    apply Rabs_le. apply Rabs_le_inv in By1, Bx. lra. }
  assert (Hb' : df1_bounded d (3 * B + S)) by (apply df1_bounded_mono with B; [exact Hb|lra]).
  destruct (Rle_dec 0 (pole (d_c d))) as [Hpos|Hneg].
  - (* 0 <= p < 1 *)
    pose proof (track (d_c d) x B (3 * B + S) (2 * B) S Hg Fx Bx) as T.
    specialize (T ltac:(rewrite bpow_m100; lra) ltac:(rewrite bpow_100; lra) ltac:(lra) ltac:(lra)).
    specialize (T ltac:(rewrite Rabs_pos_eq by exact Hpos; lra) n d r eq_refl Ex Hb' Hr).
    specialize (T ltac:(unfold r; rewrite Rminus_diag_eq by reflexivity; rewrite Rabs_R0; exact HS0)).
    destruct (run_const d x n) as [d' ys]. cbv zeta.
    rewrite Rmax_right by exact Hpos.
    replace (R32 (d_y1 d') - R32 x)
      with ((R32 (d_y1 d') - R32 x - pole (d_c d) ^ n * r) + pole (d_c d) ^ n * r) by ring.
    eapply Rle_trans; [apply Rabs_triang|].
    rewrite Rabs_mult, (Rabs_pos_eq (pole (d_c d) ^ n)) by (apply pow_le; exact Hpos).
    lra.
  - (* -2^-22 <= p < 0 *)
    apply Rnot_le_lt in Hneg.
    destruct n as [|n].
    + cbn [run_const]. cbv zeta. simpl pow. fold r. lra.
    + pose proof (track (d_c d) x B (3 * B + S) (2 * B) (S - 8 * u24 * B) Hg Fx Bx) as T.
      specialize (T ltac:(rewrite bpow_m100; lra) ltac:(rewrite bpow_100; lra) ltac:(lra) ltac:(lra)).
      assert (Hpa : Rabs (pole (d_c d)) <= 4 * u24) by (apply Rabs_le; lra).
      assert (Hst : Rabs (pole (d_c d)) * (S - 8 * u24 * B) <= 4 * u24 * (S - 8 * u24 * B))
        by (apply Rmult_le_compat_r; lra).
      specialize (T ltac:(lra) (Datatypes.S n) d r eq_refl Ex Hb' Hr).
      specialize (T ltac:(unfold r; rewrite Rminus_diag_eq by reflexivity; rewrite Rabs_R0; lra)).
      destruct (run_const d x (Datatypes.S n)) as [d' ys]. cbv zeta.
      rewrite Rmax_left by lra. rewrite pow_i by lia. rewrite Rmult_0_l, Rplus_0_l.
      replace (R32 (d_y1 d') - R32 x)
        with ((R32 (d_y1 d') - R32 x - pole (d_c d) ^ Datatypes.S n * r)
              + pole (d_c d) ^ Datatypes.S n * r) by ring.
      eapply Rle_trans; [apply Rabs_triang|].
      assert (Hpr : Rabs (pole (d_c d) ^ Datatypes.S n * r) <= 4 * u24 * (2 * B)).
      { rewrite Rabs_mult. apply Rmult_le_compat; try apply Rabs_pos; [|exact Hr].
        simpl pow. rewrite Rabs_mult.
        apply Rle_trans with (Rabs (pole (d_c d)) * 1); [|lra].
        apply Rmult_le_compat_l; [apply Rabs_pos|].
        apply pow_abs_le_1. apply Rabs_le; lra. }
      fold S. lra.
Qed.

(** ** the step response *)

Lemma last_cons' : forall (A : Type) (l : list A) a d, last (a :: l) d = last l a.
Proof.
  intros A l. induction l as [|b l IH]; intros a d; [reflexivity|].
  change (last (a :: b :: l) d) with (last (b :: l) d). rewrite !IH. reflexivity.
Qed.

Lemma run_const_last : forall n d x,
  let '(d', ys) := run_const d x n in last ys (d_y1 d) = d_y1 d'.
Proof.
  induction n as [|n IH]; intros d x.
  - reflexivity.
  - cbn [run_const]. rewrite df1_run_eq. cbv beta iota zeta.
    specialize (IH (mkDf1 (snd (df1_run d x)) (d_y1 d) x (d_x1 d) (d_c d)) x).
    destruct (run_const _ x n) as [d2 ys]. rewrite last_cons'. exact IH.
Qed.

Lemma step_tracks_partial : forall d lo hi n kappa B,
  good (d_c d) -> kappa <= speed (d_c d) -> / 100000 <= kappa ->
  fin lo -> fin hi -> Rabs (R32 lo) <= B -> Rabs (R32 hi) <= B ->
  bpow radix2 (-100) <= B -> B <= bpow radix2 64 ->
  d_x1 d = lo -> d_y1 d = lo -> fin (d_x2 d) -> fin (d_y2 d) ->
  Rabs (R32 (d_x2 d)) <= B -> Rabs (R32 (d_y2 d)) <= B ->
  let '(_, ys) := run_const d hi (S n) in
  let y := last ys lo in
  Rabs (R32 y - (R32 lo + (R32 hi - R32 lo) * step_response (pole (d_c d)) n))
    <= 2 * resolution kappa * B.
Proof.
  intros d lo hi n kappa B Hg Hk Hk5 Flo Fhi Blo Bhi HBlo HBhi Ex1 Ey1 Fx2 Fy2 Bx2 By2.
  pose proof (good_pole _ Hg) as Hp.
  assert (HBlo' := HBlo). assert (HBhi' := HBhi).
  rewrite bpow_m100 in HBlo'. rewrite bpow_64 in HBhi'.
  destruct (res_facts kappa (d_c d) B Hg Hk Hk5 ltac:(lra)) as (HS0 & HS1 & HS2 & HS3).
  set (S := 2 * resolution kappa * B) in *.
  set (p := pole (d_c d)) in *.
  assert (Hb : df1_bounded d B).
  { unfold df1_bounded. rewrite Ex1, Ey1. repeat split; assumption. }
  destruct (one_step_sharp d hi B Hg Hb Fhi Bhi HBlo ltac:(rewrite bpow_100; lra)) as (Fz & _ & Hz).
  fold p in Hz. rewrite Ex1, Ey1 in Hz.
  set (z := snd (df1_run d hi)) in *.
  set (r := - ((R32 hi - R32 lo) * ((1 + p) / 2))).
  assert (Hr : Rabs r <= 2 * B).
  { unfold r. rewrite Rabs_Ropp, Rabs_mult.
    replace (2 * B) with (2 * B * 1) by ring.
    apply Rmult_le_compat; try apply Rabs_pos.
    - apply Rabs_le. apply Rabs_le_inv in Blo, Bhi. lra.
    - apply Rabs_le. lra. }
  assert (Hw : Rabs (R32 z - R32 hi - r) <= S).
  { replace (R32 z - R32 hi - r)
      with (R32 z - ((1 - p) / 2 * (R32 hi + R32 lo) + p * R32 lo)) by (unfold r; field).
    lra. }
  assert (Hzb : Rabs (R32 z) <= 3 * B + S).
  { apply Rabs_le. apply Rabs_le_inv in Hw, Hr, Bhi. lra. }
  cbn [run_const]. rewrite df1_run_eq. cbv beta iota zeta. fold z.
  pose proof (track (d_c d) hi B (3 * B + S) (2 * B) S Hg Fhi Bhi) as T.
  specialize (T ltac:(rewrite bpow_m100; lra) ltac:(rewrite bpow_100; lra) ltac:(lra) ltac:(lra)).
  assert (Hst : Rabs p * S + 15 / 2 * u24 * (3 * B + S) <= S).
  { destruct (Rle_dec 0 p) as [Hpos|Hneg].
    - rewrite Rabs_pos_eq by exact Hpos. lra.
    - assert (Rabs p * S <= 4 * u24 * S).
      { apply Rmult_le_compat_r; [exact HS0|]. apply Rabs_le. lra. }
      lra. }
  specialize (T Hst n (mkDf1 z (d_y1 d) hi (d_x1 d) (d_c d)) r eq_refl eq_refl).
  assert (Hb1 : df1_bounded (mkDf1 z (d_y1 d) hi (d_x1 d) (d_c d)) (3 * B + S)).
  { unfold df1_bounded. cbn [d_y1 d_y2 d_x1 d_x2]. rewrite Ex1, Ey1.
    repeat split; try assumption; lra. }
  specialize (T Hb1 Hr Hw).
  pose proof (run_const_last n (mkDf1 z (d_y1 d) hi (d_x1 d) (d_c d)) hi) as L.
  destruct (run_const (mkDf1 z (d_y1 d) hi (d_x1 d) (d_c d)) hi n) as [d2 ys].
  cbn [d_y1] in L, T. rewrite last_cons', L.
  replace (R32 (d_y1 d2) - (R32 lo + (R32 hi - R32 lo) * step_response p n))
    with (R32 (d_y1 d2) - R32 hi - p ^ n * r) by (unfold r, step_response; field).
  exact T.
Qed.

(** ** the hull *)

(** real-number core: one step keeps the output inside the widened range *)
Lemma hull_real : forall p kappa lo hi x x1 y1 out,
  - / 4194304 <= p < 1 -> kappa <= 1 - p -> / 100000 <= kappa -> lo <= 0 <= hi ->
  let M := Rmax (- lo) hi in
  let E := resolution kappa * M in
  lo <= x <= hi -> lo <= x1 <= hi -> lo - E <= y1 <= hi + E ->
  Rabs (out - ((1 - p) / 2 * (x + x1) + p * y1)) <= 15 / 2 * u24 * (M + E) ->
  lo - E <= out <= hi + E.
Proof.
  intros p kappa lo hi x x1 y1 out Hp Hk Hk5 Hlh M E Hx Hx1 Hy1 Hout.
  assert (HMl : - lo <= M) by apply Rmax_l.
  assert (HMh : hi <= M) by apply Rmax_r.
  assert (HM0 : 0 <= M) by lra.
  assert (HE : E * kappa = 16 * u24 * M) by (unfold E, resolution; field; lra).
  assert (HE0 : 0 <= E).
  { unfold E, resolution. apply Rmult_le_pos; [|exact HM0].
    apply Rmult_le_pos; [lra|]. apply Rlt_le, Rinv_0_lt_compat. lra. }
  assert (H1 : E * kappa <= E * (1 + 4 * u24)) by (apply Rmult_le_compat_l; lra).
  assert (H2 : E * / 100000 <= E * kappa) by (apply Rmult_le_compat_l; lra).
  assert (H3 : 0 <= (1 - p - kappa) * E) by (apply Rmult_le_pos; lra).
  apply Rabs_le_inv in Hout.
  assert (A1 : (1 - p) * (2 * lo) <= (1 - p) * (x + x1)) by (apply Rmult_le_compat_l; lra).
  assert (A2 : (1 - p) * (x + x1) <= (1 - p) * (2 * hi)) by (apply Rmult_le_compat_l; lra).
  destruct (Rle_dec 0 p) as [Hpos|Hneg].
  - assert (B1 : p * (lo - E) <= p * y1) by (apply Rmult_le_compat_l; lra).
    assert (B2 : p * y1 <= p * (hi + E)) by (apply Rmult_le_compat_l; lra).
    split; lra.
  - apply Rnot_le_lt in Hneg.
    assert (C1 : (- p) * hi <= 4 * u24 * hi) by (apply Rmult_le_compat_r; lra).
    assert (C2 : (- p) * (- lo) <= 4 * u24 * (- lo)) by (apply Rmult_le_compat_r; lra).
    assert (C3 : Rabs (p * y1) <= 4 * u24 * (M + E)).
    { rewrite Rabs_mult. apply Rmult_le_compat; try apply Rabs_pos; apply Rabs_le; lra. }
    apply Rabs_le_inv in C3.
    split; lra.
Qed.

Definition hull_inv (lo hi E : R) (d : df1) : Prop :=
  df1_fin d /\
  lo <= R32 (d_x1 d) <= hi /\ lo <= R32 (d_x2 d) <= hi /\
  lo - E <= R32 (d_y1 d) <= hi + E /\ lo - E <= R32 (d_y2 d) <= hi + E.

Lemma hull_process : forall d x kappa lo hi,
  good (d_c d) -> kappa <= speed (d_c d) -> / 100000 <= kappa -> lo <= 0 <= hi ->
  bpow radix2 (-100) <= Rmax (- lo) hi -> Rmax (- lo) hi <= bpow radix2 64 ->
  let E := resolution kappa * Rmax (- lo) hi in
  hull_inv lo hi E d -> fin x -> lo <= R32 x <= hi ->
  let y := snd (df1_run d x) in
  fin y /\ lo - E <= R32 y <= hi + E /\
  hull_inv lo hi E (mkDf1 y (d_y1 d) x (d_x1 d) (d_c d)).
Proof.
  intros d x kappa lo hi Hg Hk Hk5 Hlh HMlo HMhi E
    ((Fy1 & Fy2 & Fx1 & Fx2) & Ix1 & Ix2 & Iy1 & Iy2) Fx Ix y.
  pose proof (good_pole _ Hg) as Hp.
  rewrite bpow_m100 in HMlo. rewrite bpow_64 in HMhi.
  set (M := Rmax (- lo) hi) in *.
  assert (HMl : - lo <= M) by apply Rmax_l.
  assert (HMh : hi <= M) by apply Rmax_r.
  assert (HE0 : 0 <= E /\ E <= / 5 * M).
  { assert (HE : E * kappa = 16 * u24 * M) by (unfold E, resolution; field; lra).
    assert (0 <= E).
    { unfold E, resolution. apply Rmult_le_pos; [|lra].
      apply Rmult_le_pos; [lra|]. apply Rlt_le, Rinv_0_lt_compat. lra. }
    assert (H2 : E * / 100000 <= E * kappa) by (apply Rmult_le_compat_l; lra).
    split; lra. }
  assert (Hb : df1_bounded d (M + E)).
  { unfold df1_bounded. repeat split; try assumption; apply Rabs_le; lra. }
  destruct (one_step_sharp d x (M + E) Hg Hb Fx) as (Fy & _ & Hy).
  { apply Rabs_le; lra. }
  { rewrite bpow_m100; lra. }
  { rewrite bpow_100; lra. }
  fold y in Fy, Hy.
  assert (Hr : lo - E <= R32 y <= hi + E).
  { apply (hull_real (pole (d_c d)) kappa lo hi (R32 x) (R32 (d_x1 d)) (R32 (d_y1 d)) (R32 y));
      try assumption.
    replace (1 - pole (d_c d)) with (speed (d_c d)) by (unfold speed, pole; ring). exact Hk. }
  split; [exact Fy|]. split; [exact Hr|].
  unfold hull_inv, df1_fin. cbn [d_y1 d_y2 d_x1 d_x2].
  repeat split; try assumption; lra.
Qed.

Lemma set_time_mem : forall g t g', glide_set_time g t = Some g' ->
  d_y1 (g_lpf g') = d_y1 (g_lpf g) /\ d_y2 (g_lpf g') = d_y2 (g_lpf g) /\
  d_x1 (g_lpf g') = d_x1 (g_lpf g) /\ d_x2 (g_lpf g') = d_x2 (g_lpf g).
Proof.
  intros g t g'. unfold glide_set_time.
  destruct (is_almost t (g_cached_t g) GL_EPS).
  - intros H. inversion H. subst. repeat split.
  - destruct (hz_ok (glide_f0 g t)); [|discriminate].
    destruct (from_params (g_fs g) (glide_f0 g t)) as [c|]; [|discriminate].
    intros H. inversion H. subst. cbn [g_lpf d_y1 d_y2 d_x1 d_x2]. repeat split.
Qed.

Lemma glide_process_eq : forall g x,
  glide_process g x =
  (mkGlide (g_min_fc g) (g_max_fc g) (g_fs g)
     (mkDf1 (snd (df1_run (g_lpf g) x)) (d_y1 (g_lpf g)) x (d_x1 (g_lpf g)) (d_c (g_lpf g)))
     (g_cached_t g),
   snd (df1_run (g_lpf g) x)).
Proof. reflexivity. Qed.

Lemma hull_run : forall kappa lo hi,
  / 100000 <= kappa -> lo <= 0 <= hi ->
  bpow radix2 (-100) <= Rmax (- lo) hi -> Rmax (- lo) hi <= bpow radix2 64 ->
  let E := resolution kappa * Rmax (- lo) hi in
  forall ops g ys,
  hull_inv lo hi E (g_lpf g) ->
  Forall (fun c => good c /\ kappa <= speed c) (coeffs_used g ops) ->
  Forall (op_input_in lo hi) ops ->
  glide_outputs g ops = Some ys ->
  Forall (fun y => fin y /\ lo - E <= R32 y <= hi + E) ys.
Proof.
  intros kappa lo hi Hk5 Hlh HMlo HMhi E.
  induction ops as [|o r IH]; intros g ys Hinv Hc Hin Hout.
  - cbn [glide_outputs] in Hout. inversion Hout. constructor.
  - cbn [coeffs_used] in Hc. inversion Hc as [|c0 l0 [Hg Hk] Hc']. subst c0 l0.
    inversion Hin as [|o0 r0 Ho Hin']. subst o0 r0.
    destruct o as [t|x].
    + cbn [glide_outputs] in Hout. cbn [glide_step] in Hc'.
      destruct (glide_set_time g t) as [g'|] eqn:Es; [|discriminate].
      destruct (set_time_mem g t g' Es) as (E1 & E2 & E3 & E4).
      apply (IH g' ys); try assumption.
      destruct Hinv as ((F1 & F2 & F3 & F4) & I1 & I2 & I3 & I4).
      unfold hull_inv, df1_fin. rewrite E1, E2, E3, E4. repeat split; assumption || lra.
    + cbn [glide_outputs] in Hout. cbn [glide_step] in Hc'.
      rewrite glide_process_eq in Hout, Hc'. cbv beta iota zeta in Hout. cbn [fst] in Hc'.
      cbn [op_input_in] in Ho. destruct Ho as [Fx Ix].
      destruct (hull_process (g_lpf g) x kappa lo hi Hg Hk Hk5 Hlh HMlo HMhi Hinv Fx Ix)
        as (Fy & Hy & Hinv').
      match type of Hout with
      | match glide_outputs ?g1 r with _ => _ end = _ =>
          destruct (glide_outputs g1 r) as [ys'|] eqn:Eo; [|discriminate];
          inversion Hout; subst ys; constructor; [split; assumption|];
          apply (IH g1 ys'); try assumption
      end.
Qed.

Lemma glide_new_lpf : forall fs g0, glide_new fs = Some g0 -> exists c, g_lpf g0 = df1_new c.
Proof.
  intros fs g0. unfold glide_new.
  destruct (hz_ok fs && hz_ok (fdiv fs GL_DIV)); [|discriminate].
  destruct (from_params fs (fdiv fs GL_DIV)) as [c|]; [|discriminate].
  intros H. inversion H. exists c. reflexivity.
Qed.

(** the statement of C13_hull, with the lower bound on the range made explicit *)
Lemma hull_partial : forall fs g0 ops lo hi kappa ys,
  glide_new fs = Some g0 ->
  Forall (fun c => good c /\ kappa <= speed c) (coeffs_used g0 ops) ->
  / 100000 <= kappa -> lo <= 0 <= hi ->
  bpow radix2 (-100) <= Rmax (- lo) hi -> Rmax (- lo) hi <= bpow radix2 64 ->
  Forall (op_input_in lo hi) ops ->
  glide_outputs g0 ops = Some ys ->
  Forall (fun y => fin y /\
            lo - resolution kappa * Rmax (- lo) hi <= R32 y <= hi + resolution kappa * Rmax (- lo) hi) ys.
Proof.
  intros fs g0 ops lo hi kappa ys Hnew Hc Hk5 Hlh HMlo HMhi Hin Hout.
  destruct (glide_new_lpf fs g0 Hnew) as [c Ec].
  apply (hull_run kappa lo hi Hk5 Hlh HMlo HMhi ops g0 ys); try assumption.
  rewrite Ec. unfold hull_inv, df1_fin, df1_new. cbn [d_y1 d_y2 d_x1 d_x2].
  rewrite R32_f_0.
  assert (0 <= resolution kappa * Rmax (- lo) hi).
  { unfold resolution. apply Rmult_le_pos.
    - apply Rmult_le_pos; [lra|]. apply Rlt_le, Rinv_0_lt_compat. lra.
    - apply Rle_trans with hi; [lra|apply Rmax_r]. }
  repeat split; try exact fin_f_0; lra.
Qed.

(** ** the degenerate range [lo = hi = 0]: every output is a zero *)

Lemma fmul_zero_r : forall a x : f32, fin a -> fin x -> R32 x = 0 ->
  R32 (fmul a x) = 0 /\ fin (fmul a x).
Proof.
  intros a x Fa Fx Hx.
  assert (E : R32 a * R32 x = 0) by (rewrite Hx; ring).
  destruct (fmul_exact a x Fa Fx) as [V F].
  - rewrite E. apply fmt_0.
  - rewrite E, Rabs_R0. apply MAXF_pos.
  - split; [now rewrite V|exact F].
Qed.

Lemma run_zero : forall d x, good (d_c d) -> df1_fin d -> fin x ->
  R32 x = 0 -> R32 (d_x1 d) = 0 -> R32 (d_y1 d) = 0 ->
  fin (snd (df1_run d x)) /\ R32 (snd (df1_run d x)) = 0.
Proof.
  intros d x (Fa & Fb & Eb1 & Ea2 & Eb2 & _) (Fy1 & Fy2 & Fx1 & Fx2) Fx Hx Hx1 Hy1.
  unfold df1_run. cbv zeta. cbn [snd]. rewrite Eb1, Ea2, Eb2.
  destruct (fmul_zero_r _ _ Fb Fx Hx) as [V1 F1].
  destruct (fmul_zero_r _ _ Fb Fx1 Hx1) as [V2 F2].
  destruct (fadd_zero_r _ _ F1 F2 V2) as [V3 F3]. rewrite V1 in V3.
  destruct (fmul_zero_l (d_x2 d) Fx2) as [Vz Fz].
  destruct (fadd_zero_r _ _ F3 Fz Vz) as [V4 F4]. rewrite V3 in V4.
  destruct (fmul_zero_r _ _ Fa Fy1 Hy1) as [V5 F5].
  destruct (fsub_zero_r _ _ F4 F5 V5) as [V6 F6]. rewrite V4 in V6.
  destruct (fmul_zero_l (d_y2 d) Fy2) as [Vz2 Fz2].
  destruct (fsub_zero_r _ _ F6 Fz2 Vz2) as [V7 F7]. rewrite V6 in V7.
  split; assumption.
Qed.

Lemma hull_zero_run : forall kappa ops g ys,
  df1_fin (g_lpf g) -> R32 (d_x1 (g_lpf g)) = 0 -> R32 (d_y1 (g_lpf g)) = 0 ->
  Forall (fun c => good c /\ kappa <= speed c) (coeffs_used g ops) ->
  Forall (op_input_in 0 0) ops ->
  glide_outputs g ops = Some ys ->
  Forall (fun y => fin y /\ R32 y = 0) ys.
Proof.
  intros kappa. induction ops as [|o r IH]; intros g ys Hf Hx1 Hy1 Hc Hin Hout.
  - cbn [glide_outputs] in Hout. inversion Hout. constructor.
  - cbn [coeffs_used] in Hc. inversion Hc as [|c0 l0 [Hg Hk] Hc']. subst c0 l0.
    inversion Hin as [|o0 r0 Ho Hin']. subst o0 r0.
    destruct o as [t|x].
    + cbn [glide_outputs] in Hout. cbn [glide_step] in Hc'.
      destruct (glide_set_time g t) as [g'|] eqn:Es; [|discriminate].
      destruct (set_time_mem g t g' Es) as (E1 & E2 & E3 & E4).
      apply (IH g' ys); try assumption.
      * destruct Hf as (F1 & F2 & F3 & F4). unfold df1_fin. rewrite E1, E2, E3, E4. auto.
      * now rewrite E3.
      * now rewrite E1.
    + cbn [glide_outputs] in Hout. cbn [glide_step] in Hc'.
      rewrite glide_process_eq in Hout, Hc'. cbv beta iota zeta in Hout. cbn [fst] in Hc'.
      cbn [op_input_in] in Ho. destruct Ho as [Fx Ix].
      assert (Hx : R32 x = 0) by lra.
      destruct (run_zero (g_lpf g) x Hg Hf Fx Hx Hx1 Hy1) as [Fy Vy].
      destruct Hf as (F1 & F2 & F3 & F4).
      match type of Hout with
      | match glide_outputs ?g1 r with _ => _ end = _ =>
          destruct (glide_outputs g1 r) as [ys'|] eqn:Eo; [|discriminate];
          inversion Hout; subst ys; constructor; [split; assumption|];
          apply (IH g1 ys'); try assumption
      end.
      unfold df1_fin. cbn [g_lpf d_y1 d_y2 d_x1 d_x2]. auto.
Qed.

(** C13_hull for a range that is either degenerate or at least 2^-100 wide *)
Lemma hull_partial0 : forall fs g0 ops lo hi kappa ys,
  glide_new fs = Some g0 ->
  Forall (fun c => good c /\ kappa <= speed c) (coeffs_used g0 ops) ->
  / 100000 <= kappa -> lo <= 0 <= hi ->
  Rmax (- lo) hi = 0 \/ bpow radix2 (-100) <= Rmax (- lo) hi -> Rmax (- lo) hi <= bpow radix2 64 ->
  Forall (op_input_in lo hi) ops ->
  glide_outputs g0 ops = Some ys ->
  Forall (fun y => fin y /\
            lo - resolution kappa * Rmax (- lo) hi <= R32 y <= hi + resolution kappa * Rmax (- lo) hi) ys.
Proof.
  intros fs g0 ops lo hi kappa ys Hnew Hc Hk5 Hlh [HM0|HMlo] HMhi Hin Hout.
  - assert (Hl : lo = 0).
    { pose proof (Rmax_l (- lo) hi). lra. }
    assert (Hh : hi = 0).
    { pose proof (Rmax_r (- lo) hi). lra. }
    rewrite HM0. subst lo hi.
    destruct (glide_new_lpf fs g0 Hnew) as [c Ec].
    assert (Z : Forall (fun y => fin y /\ R32 y = 0) ys).
    { apply (hull_zero_run kappa ops g0 ys); try assumption; rewrite Ec.
      - unfold df1_fin, df1_new. cbn [d_y1 d_y2 d_x1 d_x2]. repeat split; exact fin_f_0.
      - exact R32_f_0.
      - exact R32_f_0. }
    apply Forall_impl with (2 := Z). intros y [Fy Vy]. split; [exact Fy|]. rewrite Vy. lra.
  - now apply (hull_partial fs g0 ops lo hi kappa ys).
Qed.

(** ** the lower bound on the signal bound cannot be dropped

    With the coefficient set b0 = b1 = 1/2, a1 = 0 (pole 0, exact unit DC gain) and the
    smallest subnormal x = x1 = 2^-149, the two products b x = 2^-150 are ties and round to
    0 (underflow), so the output is 0 while the exact recurrence gives 2^-149 = B. *)

Definition cex_c : coeffs := mkCoeffs f_0 f_0 f_half f_half f_0.
Definition cex_x : f32 := of_bits 1.
Definition cex_d : df1 := mkDf1 f_0 f_0 cex_x f_0 cex_c.
Definition cex_d0 : df1 := mkDf1 f_0 f_0 f_0 f_0 cex_c.

Lemma cex_good : good cex_c.
Proof.
  unfold good, cex_c. cbn [k_a1 k_a2 k_b0 k_b1 k_b2].
  rewrite R32_f_0, R32_f_half.
  repeat split; try reflexivity; try exact fin_f_0; try exact fin_f_half; try lra.
  apply Rabs_le. lra.
Qed.

Lemma cex_x_val : R32 cex_x = / 713623846352979940529142984724747568191373312.
Proof. r32_const cex_x. lra. Qed.

Lemma cex_x_fin : fin cex_x.
Proof. fin_const. Qed.

Lemma cex_out : snd (df1_run cex_d cex_x) = f_0.
Proof. vm_compute. reflexivity. Qed.

Lemma cex_out0 : snd (df1_run cex_d0 cex_x) = f_0.
Proof. vm_compute. reflexivity. Qed.

Lemma cex_pole : pole cex_c = 0.
Proof. unfold pole, cex_c. cbn [k_a1]. rewrite R32_f_0. ring. Qed.

Lemma cex_bounded : df1_bounded cex_d (R32 cex_x).
Proof.
  unfold df1_bounded, cex_d. cbn [d_y1 d_y2 d_x1 d_x2]. rewrite R32_f_0, Rabs_R0, cex_x_val.
  repeat split; try exact fin_f_0; try exact cex_x_fin; try lra.
  rewrite Rabs_pos_eq; lra.
Qed.

Lemma cex_B_hi : R32 cex_x <= bpow radix2 64.
Proof. rewrite cex_x_val, bpow_64. lra. Qed.

(** C13_one_step as stated (no lower bound on B) is false *)
Theorem one_step_unbounded_false : ~ (forall d x B,
  good (d_c d) -> df1_bounded d B -> fin x -> Rabs (R32 x) <= B -> B <= bpow radix2 100 ->
  let '(d', y) := df1_run d x in
  let p := pole (d_c d) in
  fin y /\ df1_fin d' /\ d_c d' = d_c d /\
  Rabs (R32 y - ((1 - p) / 2 * (R32 x + R32 (d_x1 d)) + p * R32 (d_y1 d))) <= 16 * / 16777216 * B).
Proof.
  intros H.
  specialize (H cex_d cex_x (R32 cex_x) cex_good cex_bounded cex_x_fin).
  rewrite df1_run_eq in H. cbv beta iota zeta in H. rewrite cex_out in H.
  change (d_c cex_d) with cex_c in H. change (d_x1 cex_d) with cex_x in H.
  change (d_y1 cex_d) with f_0 in H.
  rewrite cex_pole, R32_f_0, cex_x_val in H.
  destruct H as (_ & _ & _ & H).
  - rewrite Rabs_pos_eq; lra.
  - rewrite bpow_100. lra.
  - apply Rabs_le_inv in H. lra.
Qed.

(** C13_approach as stated is false *)
Theorem approach_unbounded_false : ~ (forall d x B,
  good (d_c d) -> df1_bounded d B -> fin x -> Rabs (R32 x) <= B -> B <= bpow radix2 100 ->
  d_x1 d = x ->
  let '(_, y) := df1_run d x in
  Rabs ((R32 y - R32 x) - pole (d_c d) * (R32 (d_y1 d) - R32 x)) <= 20 * / 16777216 * B).
Proof.
  intros H.
  specialize (H cex_d cex_x (R32 cex_x) cex_good cex_bounded cex_x_fin).
  rewrite df1_run_eq in H. cbv beta iota zeta in H. rewrite cex_out in H.
  change (d_c cex_d) with cex_c in H. change (d_y1 cex_d) with f_0 in H.
  rewrite cex_pole, R32_f_0, cex_x_val in H.
  specialize (H ltac:(rewrite Rabs_pos_eq; lra) ltac:(rewrite bpow_100; lra) eq_refl).
  apply Rabs_le_inv in H. lra.
Qed.

(** C13_settles as stated is false (n = 1, kappa = 1) *)
Theorem settles_unbounded_false : ~ (forall d x B n kappa,
  good (d_c d) -> kappa <= speed (d_c d) -> / 100000 <= kappa ->
  df1_bounded d B -> fin x -> Rabs (R32 x) <= B -> B <= bpow radix2 64 -> d_x1 d = x ->
  let '(d', ys) := run_const d x n in
  let p := Rmax 0 (pole (d_c d)) in
  Rabs (R32 (d_y1 d') - R32 x) <= p ^ n * Rabs (R32 (d_y1 d) - R32 x) + 2 * resolution kappa * B).
Proof.
  intros H.
  specialize (H cex_d cex_x (R32 cex_x) 1%nat 1 cex_good).
  assert (Hs : speed (d_c cex_d) = 1).
  { unfold speed. change (d_c cex_d) with cex_c. unfold cex_c. cbn [k_a1]. rewrite R32_f_0. ring. }
  specialize (H ltac:(rewrite Hs; lra) ltac:(lra) cex_bounded cex_x_fin).
  cbn [run_const] in H. rewrite df1_run_eq in H. cbv beta iota zeta in H.
  rewrite cex_out in H. cbn [d_y1] in H.
  change (d_c cex_d) with cex_c in H. change (d_y1 cex_d) with f_0 in H.
  rewrite cex_pole, R32_f_0, cex_x_val in H.
  specialize (H ltac:(rewrite Rabs_pos_eq; lra) ltac:(rewrite bpow_64; lra) eq_refl).
  unfold resolution in H. rewrite Rmax_left in H by lra.
  replace (0 - / 713623846352979940529142984724747568191373312)
    with (- / 713623846352979940529142984724747568191373312) in H by ring.
  rewrite Rabs_Ropp, Rabs_pos_eq in H by lra. lra.
Qed.

(** C14_step_tracks as stated is false (lo = 0, hi = 2^-149, n = 0, kappa = 1) *)
Theorem step_tracks_unbounded_false : ~ (forall d lo hi n kappa B,
  good (d_c d) -> kappa <= speed (d_c d) -> / 100000 <= kappa ->
  fin lo -> fin hi -> Rabs (R32 lo) <= B -> Rabs (R32 hi) <= B -> B <= bpow radix2 64 ->
  d_x1 d = lo -> d_y1 d = lo -> fin (d_x2 d) -> fin (d_y2 d) ->
  Rabs (R32 (d_x2 d)) <= B -> Rabs (R32 (d_y2 d)) <= B ->
  let '(_, ys) := run_const d hi (S n) in
  let y := last ys lo in
  Rabs (R32 y - (R32 lo + (R32 hi - R32 lo) * step_response (pole (d_c d)) n))
    <= 2 * resolution kappa * B).
Proof.
  intros H.
  specialize (H cex_d0 f_0 cex_x 0%nat 1 (R32 cex_x) cex_good).
  assert (Hs : speed (d_c cex_d0) = 1).
  { unfold speed. change (d_c cex_d0) with cex_c. unfold cex_c. cbn [k_a1]. rewrite R32_f_0. ring. }
  specialize (H ltac:(rewrite Hs; lra) ltac:(lra) fin_f_0 cex_x_fin).
  cbn [run_const] in H. rewrite df1_run_eq in H. cbv beta iota zeta in H.
  rewrite cex_out0 in H. cbn [last] in H.
  change (d_c cex_d0) with cex_c in H. change (d_x2 cex_d0) with f_0 in H.
  change (d_y2 cex_d0) with f_0 in H.
  rewrite cex_pole, R32_f_0, Rabs_R0, cex_x_val in H.
  specialize (H ltac:(lra) ltac:(rewrite Rabs_pos_eq; lra) ltac:(rewrite bpow_64; lra)
                eq_refl eq_refl fin_f_0 fin_f_0 ltac:(lra) ltac:(lra)).
  unfold resolution, step_response in H. simpl pow in H.
  apply Rabs_le_inv in H. lra.
Qed.

(** C13_hull as stated (no lower bound on the range) is false: fs = 100 Hz,
    set_time(0.053 s) (pole 0.195, b = 0.402), then the constant input 4 * 2^-149:
    the third output is 5 * 2^-149 (the subnormal products round up).
    (Floats carry proof terms, so nothing here compares computed floats by [vm_compute];
    only booleans, lengths and [B2SF] images are computed.) *)

Definition shape (c : coeffs) : Prop := k_b1 c = k_b0 c /\ k_a2 c = f_0 /\ k_b2 c = f_0.

Lemma from_params_shape : forall fs f0 c, from_params fs f0 = Some c -> shape c.
Proof.
  intros fs f0 c. unfold from_params. destruct (flt fs (fmul f_2 f0)); [discriminate|].
  cbv zeta.
  match goal with |- Some (mkCoeffs ?a _ ?b _ _) = Some c -> _ => generalize a, b end.
  intros a b H.
  assert (E : c = mkCoeffs a f_0 b b f_0) by congruence.
  rewrite E. unfold shape. cbn [k_b1 k_b0 k_a2 k_b2]. auto.
Qed.

Lemma glide_new_shape : forall fs g, glide_new fs = Some g -> shape (d_c (g_lpf g)).
Proof.
  intros fs g. unfold glide_new.
  destruct (hz_ok fs && hz_ok (fdiv fs GL_DIV)); [|discriminate].
  destruct (from_params fs (fdiv fs GL_DIV)) as [c|] eqn:E; [|discriminate].
  intros H. inversion H. cbn [g_lpf df1_new d_c]. exact (from_params_shape _ _ _ E).
Qed.

Lemma set_time_shape : forall g t g', shape (d_c (g_lpf g)) -> glide_set_time g t = Some g' ->
  shape (d_c (g_lpf g')).
Proof.
  intros g t g' Hs. unfold glide_set_time.
  destruct (is_almost t (g_cached_t g) GL_EPS).
  - intros H. inversion H. subst. exact Hs.
  - destruct (hz_ok (glide_f0 g t)); [|discriminate].
    destruct (from_params (g_fs g) (glide_f0 g t)) as [c|] eqn:E; [|discriminate].
    intros H. inversion H. cbn [g_lpf d_c]. exact (from_params_shape _ _ _ E).
Qed.

Definition hx_fs : f32 := of_Z 100.
Definition hx_x : f32 := of_bits 4.
Definition hx_t : f32 := fdiv (of_Z 53) (of_Z 1000).
Definition hx_ops : list glide_op := [GSetTime hx_t; GProcess hx_x; GProcess hx_x; GProcess hx_x].
Definition hx_g0 : glide :=
  match glide_new hx_fs with Some g => g | None => mkGlide f_0 f_0 f_0 cex_d0 f_0 end.
Definition hx_ys : list f32 :=
  match glide_outputs hx_g0 hx_ops with Some ys => ys | None => [] end.
Definition hx_c0 : coeffs := d_c (g_lpf hx_g0).
Definition hx_c1 : coeffs :=
  match glide_set_time hx_g0 hx_t with Some g => d_c (g_lpf g) | None => cex_c end.

Definition is_some {A : Type} (o : option A) : bool := match o with Some _ => true | None => false end.

Lemma hx_new : glide_new hx_fs = Some hx_g0.
Proof.
  unfold hx_g0. destruct (glide_new hx_fs) eqn:E; [reflexivity|].
  assert (H : is_some (glide_new hx_fs) = true) by (vm_compute; reflexivity).
  rewrite E in H. discriminate H.
Qed.

Lemma hx_out : glide_outputs hx_g0 hx_ops = Some hx_ys.
Proof.
  unfold hx_ys. destruct (glide_outputs hx_g0 hx_ops) eqn:E; [reflexivity|].
  assert (H : is_some (glide_outputs hx_g0 hx_ops) = true) by (vm_compute; reflexivity).
  rewrite E in H. discriminate H.
Qed.

Lemma hx_shape0 : shape hx_c0.
Proof. exact (glide_new_shape _ _ hx_new). Qed.

Lemma hx_shape1 : shape hx_c1.
Proof.
  unfold hx_c1. destruct (glide_set_time hx_g0 hx_t) as [g|] eqn:E.
  - exact (set_time_shape _ _ _ hx_shape0 E).
  - unfold shape, cex_c. cbn [k_b1 k_b0 k_a2 k_b2]. auto.
Qed.

Lemma hx_good0 : good hx_c0 /\ / 2 <= speed hx_c0.
Proof.
  destruct hx_shape0 as (E1 & E2 & E3).
  unfold good, speed.
  assert (F1 : fin (k_a1 hx_c0)) by fin_const.
  assert (F2 : fin (k_b0 hx_c0)) by fin_const.
  r32_const (k_a1 hx_c0). r32_const (k_b0 hx_c0).
  repeat split; try assumption; try lra. apply Rabs_le. lra.
Qed.

Lemma hx_good1 : good hx_c1 /\ / 2 <= speed hx_c1.
Proof.
  destruct hx_shape1 as (E1 & E2 & E3).
  unfold good, speed.
  assert (F1 : fin (k_a1 hx_c1)) by fin_const.
  assert (F2 : fin (k_b0 hx_c1)) by fin_const.
  r32_const (k_a1 hx_c1). r32_const (k_b0 hx_c1).
  repeat split; try assumption; try lra. apply Rabs_le. lra.
Qed.

Lemma hx_used : Forall (fun c => good c /\ / 2 <= speed c) (coeffs_used hx_g0 hx_ops).
Proof.
  unfold hx_ops. cbn [coeffs_used glide_step].
  apply Forall_cons; [exact hx_good0|].
  pose proof hx_good1 as G1. unfold hx_c1 in G1.
  destruct (glide_set_time hx_g0 hx_t) as [g1|]; [|apply Forall_nil].
  rewrite !glide_process_eq. cbn [fst g_lpf d_c].
  repeat (apply Forall_cons; [exact G1|]). apply Forall_nil.
Qed.

Lemma hx_x_val : R32 hx_x = 4 * / 713623846352979940529142984724747568191373312.
Proof. r32_const hx_x. lra. Qed.

Lemma hx_y_val : R32 (nth 2 hx_ys f_0) = 5 * / 713623846352979940529142984724747568191373312.
Proof. r32_const (nth 2 hx_ys f_0). lra. Qed.

Theorem hull_unbounded_false : ~ (forall fs g0 ops lo hi kappa ys,
  glide_new fs = Some g0 ->
  Forall (fun c => good c /\ kappa <= speed c) (coeffs_used g0 ops) ->
  / 100000 <= kappa -> lo <= 0 <= hi -> Rmax (- lo) hi <= bpow radix2 64 ->
  Forall (op_input_in lo hi) ops ->
  glide_outputs g0 ops = Some ys ->
  Forall (fun y => fin y /\
            lo - resolution kappa * Rmax (- lo) hi <= R32 y <= hi + resolution kappa * Rmax (- lo) hi) ys).
Proof.
  intros H.
  specialize (H hx_fs hx_g0 hx_ops 0 (R32 hx_x) (/ 2) hx_ys hx_new hx_used).
  assert (Hmax : Rmax (- 0) (R32 hx_x) = R32 hx_x).
  { rewrite Rmax_right; [reflexivity|]. rewrite hx_x_val. lra. }
  rewrite Hmax in H.
  assert (Fx : fin hx_x) by fin_const.
  assert (Hin : op_input_in 0 (R32 hx_x) (GProcess hx_x)).
  { cbn [op_input_in]. split; [exact Fx|]. rewrite hx_x_val. lra. }
  assert (Hops : Forall (op_input_in 0 (R32 hx_x)) hx_ops).
  { unfold hx_ops. apply Forall_cons; [exact I|]. apply Forall_cons; [exact Hin|].
    apply Forall_cons; [exact Hin|]. apply Forall_cons; [exact Hin|]. apply Forall_nil. }
  specialize (H ltac:(lra) ltac:(rewrite hx_x_val; lra)
                ltac:(rewrite hx_x_val, bpow_64; lra) Hops hx_out).
  rewrite Forall_nth in H. specialize (H 2%nat f_0).
  destruct H as (_ & _ & H).
  - assert (L : length hx_ys = 3%nat) by (vm_compute; reflexivity). rewrite L. lia.
  - rewrite hx_y_val, hx_x_val in H. unfold resolution in H. lra.
Qed.
