(** Proofs for Props/C20.v: out-of-range parameters are clamped to the nearest
    legal value (envelope times, sustain level, scale notes, MIDI channel). *)
From Coq Require Import ZArith Reals Lia Lra Bool List.
Import ListNotations.
From Flocq Require Import Core IEEE754.BinarySingleNaN.
From SU Require Import F32 F32Lemmas.
From SU.gen Require Import Consts.
From SU.Model Require Import Adsr Quantizer Midi.
Open Scope R_scope.

(** ** the bounds *)

Lemma fin_MIN_TIME : fin MIN_TIME.
Proof. fin_const. Qed.

Lemma fin_MAX_TIME : fin MAX_TIME.
Proof. fin_const. Qed.

Lemma R32_MIN_TIME : R32 MIN_TIME = 8589935 / 8589934592.
Proof. r32_const MIN_TIME. lra. Qed.

Lemma R32_MAX_TIME : R32 MAX_TIME = 20.
Proof. r32_const MAX_TIME. lra. Qed.

Lemma fin_f0 : fin f_0.
Proof. reflexivity. Qed.

Lemma fin_f1 : fin f_1.
Proof. fin_const. Qed.

Lemma R32_f0 : R32 f_0 = 0.
Proof. reflexivity. Qed.

Lemma R32_f1 : R32 f_1 = 1.
Proof. unfold f_1. rewrite R32_of_Z_small by lia. reflexivity. Qed.

Lemma time_bounds :
  MIN_TIME = of_bits 981668463 /\ MAX_TIME = of_bits 1101004800 /\
  R32 MIN_TIME = 8589935 / 8589934592 /\ R32 MAX_TIME = 20.
Proof.
  split; [reflexivity|]. split; [reflexivity|].
  split; [exact R32_MIN_TIME | exact R32_MAX_TIME].
Qed.

Lemma MIN_le_MAX : R32 MIN_TIME <= R32 MAX_TIME.
Proof. rewrite R32_MIN_TIME, R32_MAX_TIME. lra. Qed.

(** ** envelope times *)

Lemma time_clamp : forall x : f32,
  let t := time_from x in
  fin t /\ R32 MIN_TIME <= R32 t <= R32 MAX_TIME /\
  (fin x -> R32 MIN_TIME <= R32 x <= R32 MAX_TIME -> t = x) /\
  (fin x -> R32 x < R32 MIN_TIME -> t = MIN_TIME) /\
  (fin x -> R32 MAX_TIME < R32 x -> t = MAX_TIME) /\
  (x = B754_infinity true -> t = MIN_TIME) /\
  (x = B754_infinity false -> t = MAX_TIME) /\
  (x = B754_nan -> t = MIN_TIME).
Proof.
  intros x t. subst t. unfold time_from.
  destruct (clamp_maxmin x MIN_TIME MAX_TIME fin_MIN_TIME fin_MAX_TIME MIN_le_MAX)
    as (HF & HB & Hnan & Hin & Hlo & Hhi & Hninf & Hpinf).
  repeat split; try assumption; apply HB.
Qed.

(** ** sustain level *)

Lemma sustain_clamp : forall x : f32,
  let s := sustain_from x in
  fin s /\ 0 <= R32 s <= 1 /\
  (fin x -> 0 <= R32 x <= 1 -> s = x) /\
  (fin x -> R32 x < 0 -> s = f_0) /\
  (fin x -> 1 < R32 x -> s = f_1) /\
  (x = B754_infinity true -> s = f_0) /\
  (x = B754_infinity false -> s = f_1) /\
  (x = B754_nan -> s = f_0).
Proof.
  intros x s. subst s. unfold sustain_from.
  assert (Hle : R32 f_0 <= R32 f_1) by (rewrite R32_f0, R32_f1; lra).
  destruct (clamp_maxmin x f_0 f_1 fin_f0 fin_f1 Hle)
    as (HF & HB & Hnan & Hin & Hlo & Hhi & Hninf & Hpinf).
  rewrite R32_f0, R32_f1 in *.
  repeat split; try assumption; apply HB.
Qed.

(** ** the conversions are idempotent *)

Lemma time_from_idem : forall x, time_from (time_from x) = time_from x.
Proof.
  intros x.
  destruct (time_clamp x) as (HF & HB & _).
  destruct (time_clamp (time_from x)) as (_ & _ & Hin & _).
  apply Hin; assumption.
Qed.

Lemma sustain_from_idem : forall x, sustain_from (sustain_from x) = sustain_from x.
Proof.
  intros x.
  destruct (sustain_clamp x) as (HF & HB & _).
  destruct (sustain_clamp (sustain_from x)) as (_ & _ & Hin & _).
  apply Hin; assumption.
Qed.

Lemma same_behaviour : forall s x,
  adsr_step s (ASetAttack x) = adsr_step s (ASetAttack (time_from x)) /\
  adsr_step s (ASetDecay x) = adsr_step s (ASetDecay (time_from x)) /\
  adsr_step s (ASetRelease x) = adsr_step s (ASetRelease (time_from x)) /\
  adsr_step s (ASetSustain x) = adsr_step s (ASetSustain (sustain_from x)).
Proof.
  intros s x. unfold adsr_step.
  rewrite time_from_idem, sustain_from_idem. repeat split; reflexivity.
Qed.

(** ** scale notes and MIDI channel *)

Lemma note_new_min : forall n : Z, note_new n = Z.min n 11.
Proof.
  intros n. unfold note_new. destruct (n <=? 11)%Z eqn:E.
  - apply Z.leb_le in E. lia.
  - apply Z.leb_gt in E. lia.
Qed.

Lemma note_new_idem : forall n : Z, note_new (Z.min n 11) = note_new n.
Proof. intros n. rewrite !note_new_min. lia. Qed.

Lemma note_clamp : forall n : Z, (0 <= n < 256)%Z ->
  note_new n = Z.min n 11 /\
  (forall a, allow_bits a [n] = allow_bits a [Z.min n 11]) /\
  (forall a, forbid_bits a [n] = forbid_bits a [Z.min n 11]).
Proof.
  intros n _. split; [apply note_new_min|]. split; intros a.
  - unfold allow_bits. cbn [fold_left]. rewrite note_new_idem. reflexivity.
  - unfold forbid_bits. cbn [fold_left]. rewrite note_new_idem. reflexivity.
Qed.

Lemma channel_clamp : forall ch : Z, (0 <= ch < 256)%Z ->
  rx_new ch = rx_new (Z.min ch 15) /\ r_channel (rx_new ch) = Z.min ch 15.
Proof.
  intros ch _. split.
  - unfold rx_new. replace (Z.min (Z.min ch 15) 15) with (Z.min ch 15) by lia. reflexivity.
  - reflexivity.
Qed.
