(** Proofs for Props/C01.v (all but the curve fidelity): the ADSR output and the latched
    levels stay finite in [0,1]; per-phase monotonicity; exact end levels; the output is
    in sync with the counter after ticks and gate events. *)
From Coq Require Import ZArith Reals Lia Lra Psatz Bool List.
Import ListNotations.
From Flocq Require Import Core IEEE754.BinarySingleNaN.
From SU Require Import F32 F32Lemmas.
From SU.gen Require Import Consts.
From SU.Model Require Import Utils PhaseAcc Tables Adsr.
From SU.Spec Require Import AdsrSpec.
From SU.Proofs Require Import ClampProofs.
Open Scope R_scope.

(** * Part 1: small float helpers *)

Lemma ovf4 : forall x, Rabs x <= 4 -> Rabs (rnd x) < MAXF.
Proof.
  intros x H. apply no_overflow with 4.
  - apply (fmt_int 4). lia.
  - rewrite MAXF_val. lra.
  - exact H.
Qed.

Lemma fmt_1 : fmt 1.
Proof. apply (fmt_int 1). lia. Qed.

Lemma fmt_m1 : fmt (-1).
Proof. apply (fmt_int (-1)). lia. Qed.

Lemma fin_in_f0 : fin_in f_0 0 1.
Proof. split; [exact fin_f0|]. rewrite R32_f0. lra. Qed.

Lemma fin_in_f1 : fin_in f_1 0 1.
Proof. split; [exact fin_f1|]. rewrite R32_f1. lra. Qed.

(** the real-valued linear interpolation as the model computes it *)
Definition interpR (y0 y1 fr : R) : R := rnd (y0 + rnd (rnd (y1 - y0) * fr)).

Lemma lin_R : forall y0 y1 f : f32, fin_in y0 0 1 -> fin_in y1 0 1 -> fin_in f 0 1 ->
  fin (linear_interp y0 y1 f) /\
  R32 (linear_interp y0 y1 f) = interpR (R32 y0) (R32 y1) (R32 f).
Proof.
  intros y0 y1 f [F0 B0] [F1 B1] [Ff Bf]. unfold linear_interp, interpR.
  destruct (fsub_correct y1 y0 F1 F0) as [Vd Fd].
  { apply ovf4. apply Rabs_le. lra. }
  assert (Bd : -1 <= rnd (R32 y1 - R32 y0) <= 1).
  { apply rnd_bounds; [exact fmt_m1 | exact fmt_1 | lra]. }
  destruct (fmul_correct (fsub y1 y0) f Fd Ff) as [Vp Fp].
  { apply ovf4. rewrite Vd. apply Rabs_le. nra. }
  assert (Bp : -1 <= rnd (rnd (R32 y1 - R32 y0) * R32 f) <= 1).
  { apply rnd_bounds; [exact fmt_m1 | exact fmt_1 | nra]. }
  destruct (fadd_correct y0 (fmul (fsub y1 y0) f) F0 Fp) as [Vs Fs].
  { apply ovf4. rewrite Vp, Vd. apply Rabs_le. lra. }
  split; [exact Fs|]. rewrite Vs, Vp, Vd. reflexivity.
Qed.

Lemma interpR_0 : forall y0 y1, fmt y0 -> interpR y0 y1 0 = y0.
Proof.
  intros y0 y1 H. unfold interpR. rewrite Rmult_0_r, rnd_0, Rplus_0_r. now apply rnd_id.
Qed.

Lemma interpR_up : forall y0 y1 f f', y0 <= y1 -> 0 <= f <= f' ->
  interpR y0 y1 f <= interpR y0 y1 f'.
Proof.
  intros y0 y1 f f' H [Hf Hff]. unfold interpR.
  apply rnd_le. apply Rplus_le_compat_l. apply rnd_le.
  assert (Hd : 0 <= rnd (y1 - y0)) by (apply rnd_ge_0; lra). nra.
Qed.

Lemma interpR_down : forall y0 y1 f f', y1 <= y0 -> 0 <= f <= f' ->
  interpR y0 y1 f' <= interpR y0 y1 f.
Proof.
  intros y0 y1 f f' H [Hf Hff]. unfold interpR.
  apply rnd_le. apply Rplus_le_compat_l. apply rnd_le.
  assert (Hd : rnd (y1 - y0) <= 0) by (apply rnd_le_0; lra). nra.
Qed.

(** the fraction [m / 2^14] is exact *)
Lemma frac_R : forall m : Z, (0 <= m <= 16383)%Z ->
  fin (fdiv (of_Z m) (of_Z 16384)) /\ R32 (fdiv (of_Z m) (of_Z 16384)) = IZR m / 16384.
Proof.
  intros m Hm.
  destruct (fin_R32_of_Z_small m) as [Vm Fm]; [lia|].
  destruct (fin_R32_of_Z_small 16384) as [Vd Fd]; [lia|].
  pose proof (bpow2_neg 14 eq_refl) as E14.
  change (Z.opp 14) with (-14)%Z in E14. change (2 ^ 14)%Z with 16384%Z in E14.
  assert (Hf : fmt (IZR m / 16384)).
  { unfold Rdiv. rewrite <- E14. apply fmt_mant; lia. }
  assert (B : 0 <= IZR m / 16384 <= 1).
  { assert (H0 : IZR 0 <= IZR m) by (apply IZR_le; lia).
    assert (H1 : IZR m <= IZR 16383) by (apply IZR_le; lia).
    lra. }
  destruct (fdiv_correct (of_Z m) (of_Z 16384) Fm Fd) as [V F].
  - rewrite Vd. lra.
  - apply ovf4. rewrite Vm, Vd. apply Rabs_le. lra.
  - split; [exact F|]. rewrite V, Vm, Vd. apply rnd_id, Hf.
Qed.

Lemma frac_in : forall m : Z, (0 <= m <= 16383)%Z ->
  fin_in (fdiv (of_Z m) (of_Z 16384)) 0 1.
Proof.
  intros m Hm. destruct (frac_R m Hm) as [F V]. split; [exact F|]. rewrite V.
  assert (H0 : IZR 0 <= IZR m) by (apply IZR_le; lia).
  assert (H1 : IZR m <= IZR 16383) by (apply IZR_le; lia).
  lra.
Qed.

(** * Part 2: the rounding facts behind the output formula *)

Definition EPSN : f32 := of_bits 3003121664. (* -2^-25 *)
Definition EPSP : f32 := of_bits 855638016.  (*  2^-25 *)

Lemma R32_EPSN : R32 EPSN = - / 33554432.
Proof. r32_const EPSN. lra. Qed.

Lemma R32_EPSP : R32 EPSP = / 33554432.
Proof. r32_const EPSP. lra. Qed.

Lemma rnd_below_1 : rnd (1 - / 33554432) = 1.
Proof.
  destruct (fadd_correct f_1 EPSN) as [V _].
  - fin_const.
  - fin_const.
  - apply ovf4. rewrite R32_f1, R32_EPSN. apply Rabs_le. lra.
  - rewrite R32_f1, R32_EPSN in V.
    replace (1 - / 33554432) with (1 + - / 33554432) by lra.
    rewrite <- V. r32_const (fadd f_1 EPSN). lra.
Qed.

Lemma rnd_above_1 : rnd (1 + / 33554432) = 1.
Proof.
  destruct (fadd_correct f_1 EPSP) as [V _].
  - fin_const.
  - fin_const.
  - apply ovf4. rewrite R32_f1, R32_EPSP. apply Rabs_le. lra.
  - rewrite R32_f1, R32_EPSP in V.
    rewrite <- V. r32_const (fadd f_1 EPSP). lra.
Qed.

(** rounding error below 1 is at most 2^-25 *)
Lemma rnd_err_below_1 : forall x, 0 <= x <= 1 -> Rabs (rnd x - x) <= / 33554432.
Proof.
  intros x [H0 H1].
  destruct (Req_dec x 0) as [E0|N0].
  { subst x. rewrite rnd_0. rewrite Rminus_0_r, Rabs_R0. lra. }
  destruct (Req_dec x 1) as [E1|N1].
  { subst x. rewrite (rnd_id 1 fmt_1). replace (1 - 1) with 0 by lra. rewrite Rabs_R0. lra. }
  pose proof (error_le_half_ulp radix2 fexp32 (fun z => negb (Z.even z)) x) as He.
  change (round radix2 fexp32 ZnearestE x) with (rnd x) in He.
  rewrite ulp_neq_0 in He by exact N0.
  assert (Hm : (mag radix2 x <= 0)%Z).
  { apply mag_le_bpow; [exact N0|]. change (bpow radix2 0) with 1.
    rewrite Rabs_pos_eq by lra. lra. }
  assert (Hc : (cexp radix2 fexp32 x <= -24)%Z).
  { unfold cexp, FLT_exp. lia. }
  apply (bpow_le radix2) in Hc.
  pose proof (bpow2_neg 24 eq_refl) as E24.
  change (Z.opp 24) with (-24)%Z in E24. change (2 ^ 24)%Z with 16777216%Z in E24.
  rewrite E24 in Hc. lra.
Qed.

(** the key fact: [(1 - v) + v] evaluates to exactly 1 *)
Lemma key_one : forall v, 0 <= v <= 1 -> rnd (rnd (1 - v) + v) = 1.
Proof.
  intros v Hv.
  assert (He : Rabs (rnd (1 - v) - (1 - v)) <= / 33554432) by (apply rnd_err_below_1; lra).
  apply Rabs_le_inv in He.
  apply Rle_antisym.
  - apply Rle_trans with (rnd (1 + / 33554432)).
    + apply rnd_le. lra.
    + rewrite rnd_above_1. lra.
  - apply Rle_trans with (rnd (1 - / 33554432)).
    + rewrite rnd_below_1. lra.
    + apply rnd_le. lra.
Qed.

(** the output formula [c * S + v] *)
Definition outR (c S v : R) : R := rnd (rnd (c * S) + v).

Lemma outR_mono : forall c S S' v, 0 <= c -> S <= S' -> outR c S v <= outR c S' v.
Proof.
  intros c S S' v Hc HS. unfold outR. apply rnd_le. apply Rplus_le_compat_r.
  apply rnd_le. nra.
Qed.

Lemma outR_zero : forall c v, fmt v -> outR c 0 v = v.
Proof.
  intros c v Hv. unfold outR. rewrite Rmult_0_r, rnd_0, Rplus_0_l. now apply rnd_id.
Qed.

Lemma coef_range : forall v, 0 <= v <= 1 -> 0 <= rnd (1 - v) <= 1.
Proof. intros v Hv. apply rnd_bounds; [exact fmt_0 | exact fmt_1 | lra]. Qed.

Lemma outR_one : forall v, 0 <= v <= 1 -> outR (rnd (1 - v)) 1 v = 1.
Proof.
  intros v Hv. unfold outR. rewrite Rmult_1_r.
  rewrite (rnd_id (rnd (1 - v))) by apply fmt_rnd. now apply key_one.
Qed.

Lemma outR_range : forall v S, fmt v -> 0 <= v <= 1 -> 0 <= S <= 1 ->
  v <= outR (rnd (1 - v)) S v <= 1.
Proof.
  intros v S Fv Hv HS. pose proof (coef_range v Hv) as Hc. split.
  - apply Rle_trans with (outR (rnd (1 - v)) 0 v).
    + rewrite (outR_zero (rnd (1 - v)) v Fv). lra.
    + apply outR_mono; lra.
  - apply Rle_trans with (outR (rnd (1 - v)) 1 v).
    + apply outR_mono; lra.
    + rewrite (outR_one v Hv). lra.
Qed.

Lemma outR_rel : forall c S, fmt c -> 0 <= c <= 1 -> 0 <= S <= 1 -> 0 <= outR c S 0 <= c.
Proof.
  intros c S Fc Hc HS. unfold outR. rewrite Rplus_0_r.
  rewrite (rnd_id (rnd (c * S))) by apply fmt_rnd.
  apply rnd_bounds; [exact fmt_0 | exact Fc | nra].
Qed.

Lemma outR_sus : forall s, fmt s -> outR 1 s 0 = s.
Proof.
  intros s Fs. unfold outR. rewrite Rmult_1_l, Rplus_0_r.
  rewrite (rnd_id s Fs). now apply rnd_id.
Qed.

Lemma outR_times_one : forall c, fmt c -> outR c 1 0 = c.
Proof.
  intros c Fc. unfold outR. rewrite Rmult_1_r, Rplus_0_r.
  rewrite (rnd_id c Fc). now apply rnd_id.
Qed.

Lemma sub1_R : forall v : f32, fin_in v 0 1 ->
  fin_in (fsub f_1 v) 0 1 /\ R32 (fsub f_1 v) = rnd (1 - R32 v).
Proof.
  intros v [Fv Bv].
  destruct (fsub_correct f_1 v fin_f1 Fv) as [V F].
  { apply ovf4. rewrite R32_f1. apply Rabs_le. lra. }
  rewrite R32_f1 in V. split; [|exact V]. split; [exact F|].
  rewrite V. now apply coef_range.
Qed.

Lemma mac_R : forall a b c : f32, fin_in a 0 1 -> fin_in b 0 1 -> fin_in c 0 1 ->
  fin (fadd (fmul a b) c) /\
  R32 (fadd (fmul a b) c) = outR (R32 a) (R32 b) (R32 c).
Proof.
  intros a b c [Fa Ba] [Fb Bb] [Fc Bc]. unfold outR.
  destruct (fmul_correct a b Fa Fb) as [Vm Fm].
  { apply ovf4. apply Rabs_le. nra. }
  assert (Bm : 0 <= rnd (R32 a * R32 b) <= 1).
  { apply rnd_bounds; [exact fmt_0 | exact fmt_1 | nra]. }
  destruct (fadd_correct (fmul a b) c Fm Fc) as [Vs Fs].
  { apply ovf4. rewrite Vm. apply Rabs_le. lra. }
  split; [exact Fs|]. rewrite Vs, Vm. reflexivity.
Qed.

(** * Part 3: the tables and the interpolated sample *)

Definition FMAX : f32 := fdiv (of_Z 16383) (of_Z 16384).

Definition cell_rng (t : list f32) (n : nat) : bool :=
  let y := tbl t (Z.of_nat n) in is_finite y && fle f_0 y && fle y f_1.

Definition cell_up (t : list f32) (n : nat) : bool :=
  let i := Z.of_nat n in
  let y0 := tbl t i in let y1 := tbl t (next_idx i) in
  fle y0 y1 && fle (linear_interp y0 y1 FMAX) y1.

Definition cell_down (t : list f32) (n : nat) : bool :=
  let i := Z.of_nat n in
  let y0 := tbl t i in let y1 := tbl t (next_idx i) in
  fle y1 y0 && fle y1 (linear_interp y0 y1 FMAX).

Lemma attack_rng_sweep : forallb (cell_rng attack_table) (seq 0 1024) = true.
Proof. vm_compute. reflexivity. Qed.

Lemma decay_rng_sweep : forallb (cell_rng decay_table) (seq 0 1024) = true.
Proof. vm_compute. reflexivity. Qed.

Lemma attack_up_sweep : forallb (cell_up attack_table) (seq 0 1024) = true.
Proof. vm_compute. reflexivity. Qed.

Lemma decay_down_sweep : forallb (cell_down decay_table) (seq 0 1024) = true.
Proof. vm_compute. reflexivity. Qed.

Lemma next_idx_range : forall i : Z, (0 <= i <= 1023)%Z -> (0 <= next_idx i <= 1023)%Z.
Proof. intros i H. unfold next_idx, ADSR_CURVE_LUT_SIZE. lia. Qed.

Lemma next_idx_succ : forall i : Z, (0 <= i < 1023)%Z -> next_idx i = (i + 1)%Z.
Proof. intros i H. unfold next_idx, ADSR_CURVE_LUT_SIZE. lia. Qed.

Lemma FMAX_in : fin_in FMAX 0 1.
Proof. apply (frac_in 16383). lia. Qed.

Lemma R32_FMAX : R32 FMAX = 16383 / 16384.
Proof. apply (frac_R 16383). lia. Qed.

(** the sample as a function of the accumulator alone *)
Definition sample_at (t : list f32) (a : Z) : f32 :=
  let i := Z.shiftr a 14 in
  linear_interp (tbl t i) (tbl t (next_idx i)) (fdiv (of_Z (Z.land a 16383)) (of_Z 16384)).

Lemma lut_sample_at : forall t p, lut_sample t p = sample_at t (pa_acc p).
Proof. intros t p. reflexivity. Qed.

Lemma idx_frac : forall a : Z, (0 <= a < 16777216)%Z ->
  Z.shiftr a 14 = (a / 16384)%Z /\ Z.land a 16383 = (a mod 16384)%Z /\
  (0 <= a / 16384 <= 1023)%Z /\ (0 <= a mod 16384 <= 16383)%Z /\
  a = (16384 * (a / 16384) + a mod 16384)%Z.
Proof.
  intros a Ha. split; [|split; [|split; [|split]]].
  - rewrite Z.shiftr_div_pow2 by lia. reflexivity.
  - change 16383%Z with (Z.ones 14). rewrite Z.land_ones by lia. reflexivity.
  - split; [apply Z.div_pos; lia|].
    assert (a / 16384 < 1024)%Z by (apply Z.div_lt_upper_bound; lia). lia.
  - pose proof (Z.mod_pos_bound a 16384). lia.
  - apply Z.div_mod. lia.
Qed.

Section Table.
Variable t : list f32.
Hypothesis Hrng : forallb (cell_rng t) (seq 0 1024) = true.

Lemma tbl_in : forall i : Z, (0 <= i <= 1023)%Z -> fin_in (tbl t i) 0 1.
Proof.
  intros i Hi.
  assert (H : cell_rng t (Z.to_nat i) = true).
  { apply (proj1 (forallb_forall _ _) Hrng). apply in_seq. lia. }
  unfold cell_rng in H. rewrite Z2Nat.id in H by lia. cbv zeta in H.
  apply andb_prop in H. destruct H as [H H1]. apply andb_prop in H. destruct H as [HF H0].
  assert (F : fin (tbl t i)) by exact HF.
  split; [exact F|].
  apply (fle_true f_0 (tbl t i) fin_f0 F) in H0.
  apply (fle_true (tbl t i) f_1 F fin_f1) in H1.
  rewrite R32_f0 in H0. rewrite R32_f1 in H1. lra.
Qed.

Lemma tbl_fmt : forall i : Z, fmt (R32 (tbl t i)).
Proof. intros i. apply fmt_R32. Qed.

(** the real value of the sample *)
Lemma sample_R : forall a : Z, (0 <= a < 16777216)%Z ->
  let i := (a / 16384)%Z in
  fin (sample_at t a) /\
  R32 (sample_at t a) =
    interpR (R32 (tbl t i)) (R32 (tbl t (next_idx i))) (IZR (a mod 16384) / 16384).
Proof.
  intros a Ha i. subst i.
  destruct (idx_frac a Ha) as (E1 & E2 & Hi & Hm & _).
  unfold sample_at. cbv zeta. rewrite E1, E2.
  destruct (lin_R (tbl t (a / 16384)) (tbl t (next_idx (a / 16384)))
              (fdiv (of_Z (a mod 16384)) (of_Z 16384))) as [F V].
  - apply tbl_in, Hi.
  - apply tbl_in, next_idx_range, Hi.
  - apply frac_in, Hm.
  - split; [exact F|]. rewrite V. rewrite (proj2 (frac_R _ Hm)). reflexivity.
Qed.

Lemma frac_bounds : forall a : Z, (0 <= a < 16777216)%Z ->
  0 <= IZR (a mod 16384) / 16384 <= 16383 / 16384.
Proof.
  intros a Ha. destruct (idx_frac a Ha) as (_ & _ & _ & Hm & _).
  assert (H0 : IZR 0 <= IZR (a mod 16384)) by (apply IZR_le; lia).
  assert (H1 : IZR (a mod 16384) <= IZR 16383) by (apply IZR_le; lia).
  lra.
Qed.

Section Up.
Hypothesis Hup : forallb (cell_up t) (seq 0 1024) = true.

Lemma cell_up_at : forall i : Z, (0 <= i <= 1023)%Z ->
  R32 (tbl t i) <= R32 (tbl t (next_idx i)) /\
  interpR (R32 (tbl t i)) (R32 (tbl t (next_idx i))) (16383 / 16384)
    <= R32 (tbl t (next_idx i)).
Proof.
  intros i Hi.
  assert (H : cell_up t (Z.to_nat i) = true).
  { apply (proj1 (forallb_forall _ _) Hup). apply in_seq. lia. }
  unfold cell_up in H. rewrite Z2Nat.id in H by lia. cbv zeta in H.
  apply andb_prop in H. destruct H as [H0 H1].
  pose proof (tbl_in i Hi) as I0.
  pose proof (tbl_in (next_idx i) (next_idx_range i Hi)) as I1.
  destruct (lin_R _ _ _ I0 I1 FMAX_in) as [FL VL].
  apply (fle_true _ _ (proj1 I0) (proj1 I1)) in H0.
  apply (fle_true _ _ FL (proj1 I1)) in H1.
  rewrite VL, R32_FMAX in H1. split; assumption.
Qed.

Lemma tbl_mono_up_n : forall (n : nat) (i : Z), (0 <= i)%Z -> (i + Z.of_nat n <= 1023)%Z ->
  R32 (tbl t i) <= R32 (tbl t (i + Z.of_nat n)).
Proof.
  induction n as [|n IH]; intros i H0 H1.
  - rewrite Z.add_0_r. lra.
  - apply Rle_trans with (R32 (tbl t (i + Z.of_nat n))).
    + apply IH; lia.
    + destruct (cell_up_at (i + Z.of_nat n)) as [H _]; [lia|].
      rewrite next_idx_succ in H by lia.
      replace (i + Z.of_nat (S n))%Z with (i + Z.of_nat n + 1)%Z by lia. exact H.
Qed.

Lemma tbl_mono_up : forall i j : Z, (0 <= i <= j)%Z -> (j <= 1023)%Z ->
  R32 (tbl t i) <= R32 (tbl t j).
Proof.
  intros i j Hij Hj.
  replace j with (i + Z.of_nat (Z.to_nat (j - i)))%Z by lia.
  apply tbl_mono_up_n; lia.
Qed.

Lemma sample_up_bounds : forall a : Z, (0 <= a < 16777216)%Z ->
  R32 (tbl t (a / 16384)) <= R32 (sample_at t a) <= R32 (tbl t (next_idx (a / 16384))).
Proof.
  intros a Ha. destruct (sample_R a Ha) as [_ V]. cbv zeta in V. rewrite V.
  destruct (idx_frac a Ha) as (_ & _ & Hi & _ & _).
  destruct (cell_up_at _ Hi) as [Hle Htop].
  pose proof (frac_bounds a Ha) as Hf.
  split.
  - rewrite <- (interpR_0 (R32 (tbl t (a / 16384))) (R32 (tbl t (next_idx (a / 16384)))))
      at 1 by apply tbl_fmt.
    apply interpR_up; [exact Hle | lra].
  - eapply Rle_trans; [|exact Htop]. apply interpR_up; [exact Hle | lra].
Qed.

Lemma sample_up_mono : forall a a' : Z, (0 <= a <= a')%Z -> (a' < 16777216)%Z ->
  R32 (sample_at t a) <= R32 (sample_at t a').
Proof.
  intros a a' Haa Ha'.
  assert (Ha : (0 <= a < 16777216)%Z) by lia.
  assert (Ha2 : (0 <= a' < 16777216)%Z) by lia.
  destruct (idx_frac a Ha) as (_ & _ & Hi & Hm & Ea).
  destruct (idx_frac a' Ha2) as (_ & _ & Hi' & Hm' & Ea').
  assert (Hii : (a / 16384 <= a' / 16384)%Z) by (apply Z.div_le_mono; lia).
  destruct (Z.eq_dec (a / 16384) (a' / 16384)) as [E|N].
  - destruct (sample_R a Ha) as [_ V]. destruct (sample_R a' Ha2) as [_ V'].
    cbv zeta in V, V'. rewrite V, V'. rewrite <- E.
    destruct (cell_up_at _ Hi) as [Hle _].
    apply interpR_up; [exact Hle|].
    pose proof (frac_bounds a Ha) as Hf.
    assert (Hmm : IZR (a mod 16384) <= IZR (a' mod 16384)) by (apply IZR_le; lia).
    lra.
  - apply Rle_trans with (R32 (tbl t (next_idx (a / 16384)))).
    + apply sample_up_bounds, Ha.
    + apply Rle_trans with (R32 (tbl t (a' / 16384))).
      * rewrite next_idx_succ by lia. apply tbl_mono_up; lia.
      * apply sample_up_bounds, Ha2.
Qed.

Lemma sample_up_in : forall a : Z, (0 <= a < 16777216)%Z -> fin_in (sample_at t a) 0 1.
Proof.
  intros a Ha. split; [apply (sample_R a Ha)|].
  destruct (idx_frac a Ha) as (_ & _ & Hi & _ & _).
  pose proof (sample_up_bounds a Ha) as B.
  pose proof (proj2 (tbl_in _ Hi)) as B0.
  pose proof (proj2 (tbl_in _ (next_idx_range _ Hi))) as B1. lra.
Qed.

End Up.

Section Down.
Hypothesis Hdown : forallb (cell_down t) (seq 0 1024) = true.

Lemma cell_down_at : forall i : Z, (0 <= i <= 1023)%Z ->
  R32 (tbl t (next_idx i)) <= R32 (tbl t i) /\
  R32 (tbl t (next_idx i)) <=
    interpR (R32 (tbl t i)) (R32 (tbl t (next_idx i))) (16383 / 16384).
Proof.
  intros i Hi.
  assert (H : cell_down t (Z.to_nat i) = true).
  { apply (proj1 (forallb_forall _ _) Hdown). apply in_seq. lia. }
  unfold cell_down in H. rewrite Z2Nat.id in H by lia. cbv zeta in H.
  apply andb_prop in H. destruct H as [H0 H1].
  pose proof (tbl_in i Hi) as I0.
  pose proof (tbl_in (next_idx i) (next_idx_range i Hi)) as I1.
  destruct (lin_R _ _ _ I0 I1 FMAX_in) as [FL VL].
  apply (fle_true _ _ (proj1 I1) (proj1 I0)) in H0.
  apply (fle_true _ _ (proj1 I1) FL) in H1.
  rewrite VL, R32_FMAX in H1. split; assumption.
Qed.

Lemma tbl_mono_down_n : forall (n : nat) (i : Z), (0 <= i)%Z -> (i + Z.of_nat n <= 1023)%Z ->
  R32 (tbl t (i + Z.of_nat n)) <= R32 (tbl t i).
Proof.
  induction n as [|n IH]; intros i H0 H1.
  - rewrite Z.add_0_r. lra.
  - apply Rle_trans with (R32 (tbl t (i + Z.of_nat n))).
    + destruct (cell_down_at (i + Z.of_nat n)) as [H _]; [lia|].
      rewrite next_idx_succ in H by lia.
      replace (i + Z.of_nat (S n))%Z with (i + Z.of_nat n + 1)%Z by lia. exact H.
    + apply IH; lia.
Qed.

Lemma tbl_mono_down : forall i j : Z, (0 <= i <= j)%Z -> (j <= 1023)%Z ->
  R32 (tbl t j) <= R32 (tbl t i).
Proof.
  intros i j Hij Hj.
  replace j with (i + Z.of_nat (Z.to_nat (j - i)))%Z by lia.
  apply tbl_mono_down_n; lia.
Qed.

Lemma sample_down_bounds : forall a : Z, (0 <= a < 16777216)%Z ->
  R32 (tbl t (next_idx (a / 16384))) <= R32 (sample_at t a) <= R32 (tbl t (a / 16384)).
Proof.
  intros a Ha. destruct (sample_R a Ha) as [_ V]. cbv zeta in V. rewrite V.
  destruct (idx_frac a Ha) as (_ & _ & Hi & _ & _).
  destruct (cell_down_at _ Hi) as [Hle Hbot].
  pose proof (frac_bounds a Ha) as Hf.
  split.
  - eapply Rle_trans; [exact Hbot|]. apply interpR_down; [exact Hle | lra].
  - rewrite <- (interpR_0 (R32 (tbl t (a / 16384))) (R32 (tbl t (next_idx (a / 16384)))))
      at 2 by apply tbl_fmt.
    apply interpR_down; [exact Hle | lra].
Qed.

Lemma sample_down_mono : forall a a' : Z, (0 <= a <= a')%Z -> (a' < 16777216)%Z ->
  R32 (sample_at t a') <= R32 (sample_at t a).
Proof.
  intros a a' Haa Ha'.
  assert (Ha : (0 <= a < 16777216)%Z) by lia.
  assert (Ha2 : (0 <= a' < 16777216)%Z) by lia.
  destruct (idx_frac a Ha) as (_ & _ & Hi & Hm & Ea).
  destruct (idx_frac a' Ha2) as (_ & _ & Hi' & Hm' & Ea').
  assert (Hii : (a / 16384 <= a' / 16384)%Z) by (apply Z.div_le_mono; lia).
  destruct (Z.eq_dec (a / 16384) (a' / 16384)) as [E|N].
  - destruct (sample_R a Ha) as [_ V]. destruct (sample_R a' Ha2) as [_ V'].
    cbv zeta in V, V'. rewrite V, V'. rewrite <- E.
    destruct (cell_down_at _ Hi) as [Hle _].
    apply interpR_down; [exact Hle|].
    pose proof (frac_bounds a Ha) as Hf.
    assert (Hmm : IZR (a mod 16384) <= IZR (a' mod 16384)) by (apply IZR_le; lia).
    lra.
  - apply Rle_trans with (R32 (tbl t (a' / 16384))).
    + apply sample_down_bounds, Ha2.
    + apply Rle_trans with (R32 (tbl t (next_idx (a / 16384)))).
      * rewrite next_idx_succ by lia. apply tbl_mono_down; lia.
      * apply sample_down_bounds, Ha.
Qed.

Lemma sample_down_in : forall a : Z, (0 <= a < 16777216)%Z -> fin_in (sample_at t a) 0 1.
Proof.
  intros a Ha. split; [apply (sample_R a Ha)|].
  destruct (idx_frac a Ha) as (_ & _ & Hi & _ & _).
  pose proof (sample_down_bounds a Ha) as B.
  pose proof (proj2 (tbl_in _ Hi)) as B0.
  pose proof (proj2 (tbl_in _ (next_idx_range _ Hi))) as B1. lra.
Qed.

End Down.
End Table.

(** instances *)
Definition SA (a : Z) : f32 := sample_at attack_table a.
Definition SD (a : Z) : f32 := sample_at decay_table a.

Lemma SA_in : forall a, (0 <= a < 16777216)%Z -> fin_in (SA a) 0 1.
Proof. exact (sample_up_in attack_table attack_rng_sweep attack_up_sweep). Qed.

Lemma SD_in : forall a, (0 <= a < 16777216)%Z -> fin_in (SD a) 0 1.
Proof. exact (sample_down_in decay_table decay_rng_sweep decay_down_sweep). Qed.

Lemma SA_mono : forall a a', (0 <= a <= a')%Z -> (a' < 16777216)%Z -> R32 (SA a) <= R32 (SA a').
Proof. exact (sample_up_mono attack_table attack_rng_sweep attack_up_sweep). Qed.

Lemma SD_mono : forall a a', (0 <= a <= a')%Z -> (a' < 16777216)%Z -> R32 (SD a') <= R32 (SD a).
Proof. exact (sample_down_mono decay_table decay_rng_sweep decay_down_sweep). Qed.

Lemma SA_0 : R32 (SA 0) = 0.
Proof. vm_compute. reflexivity. Qed.

Lemma SD_0 : R32 (SD 0) = 1.
Proof. r32_const (SD 0). lra. Qed.

(** * Part 4: the output as a real number *)

Definition acc_ok (s : adsr) : Prop := (0 <= pa_acc (a_pa s) < 16777216)%Z.

Definition calcR (s : adsr) : R :=
  let a := pa_acc (a_pa s) in
  match a_state s with
  | Attack => outR (rnd (1 - R32 (a_von s))) (R32 (SA a)) (R32 (a_von s))
  | Decay => outR (rnd (1 - R32 (a_sustain s))) (R32 (SD a)) (R32 (a_sustain s))
  | Sustain => R32 (a_sustain s)
  | Release => outR (R32 (a_voff s)) (R32 (SD a)) 0
  | AtRest => 0
  end.

Lemma calc_R : forall s, InvV s -> acc_ok s ->
  fin (calc_value s) /\ R32 (calc_value s) = calcR s.
Proof.
  intros s [Hsus _ Hon Hoff] Ha. unfold calc_value, calcR. cbv zeta.
  rewrite !lut_sample_at. fold (SA (pa_acc (a_pa s))). fold (SD (pa_acc (a_pa s))).
  pose proof (SA_in _ Ha) as HA. pose proof (SD_in _ Ha) as HD.
  destruct (a_state s).
  - (* AtRest *)
    destruct (mac_R f_0 f_0 f_0 fin_in_f0 fin_in_f0 fin_in_f0) as [F V].
    split; [exact F|]. rewrite V, R32_f0. apply outR_zero, fmt_0.
  - (* Attack *)
    destruct (sub1_R _ Hon) as [Hc Vc].
    destruct (mac_R _ _ _ Hc HA Hon) as [F V].
    split; [exact F|]. rewrite V, Vc. reflexivity.
  - (* Decay *)
    destruct (sub1_R _ Hsus) as [Hc Vc].
    destruct (mac_R _ _ _ Hc HD Hsus) as [F V].
    split; [exact F|]. rewrite V, Vc. reflexivity.
  - (* Sustain *)
    destruct (mac_R _ _ _ fin_in_f1 Hsus fin_in_f0) as [F V].
    split; [exact F|]. rewrite V, R32_f1, R32_f0. apply outR_sus, fmt_R32.
  - (* Release *)
    destruct (mac_R _ _ _ Hoff HD fin_in_f0) as [F V].
    split; [exact F|]. rewrite V, R32_f0. reflexivity.
Qed.

Lemma calcR_range : forall s, InvV s -> acc_ok s -> 0 <= calcR s <= 1.
Proof.
  intros s [Hsus _ Hon Hoff] Ha. unfold calcR. cbv zeta.
  pose proof (proj2 (SA_in _ Ha)) as HA. pose proof (proj2 (SD_in _ Ha)) as HD.
  destruct Hsus as [_ Bs]. destruct Hon as [_ Bon]. destruct Hoff as [_ Boff].
  destruct (a_state s).
  - lra.
  - pose proof (outR_range _ _ (fmt_R32 (a_von s)) Bon HA). lra.
  - pose proof (outR_range _ _ (fmt_R32 (a_sustain s)) Bs HD). lra.
  - lra.
  - pose proof (outR_rel _ _ (fmt_R32 (a_voff s)) Boff HD). lra.
Qed.

Lemma calc_in : forall s, InvV s -> acc_ok s -> fin_in (calc_value s) 0 1.
Proof.
  intros s HV Ha. destruct (calc_R s HV Ha) as [F V]. split; [exact F|].
  rewrite V. now apply calcR_range.
Qed.

(** * Part 5: the state machine *)

Lemma a_state_wv : forall s v, a_state (with_value s v) = a_state s.
Proof. reflexivity. Qed.
Lemma a_value_wv : forall s v, a_value (with_value s v) = v.
Proof. reflexivity. Qed.
Lemma a_sustain_wv : forall s v, a_sustain (with_value s v) = a_sustain s.
Proof. reflexivity. Qed.
Lemma a_von_wv : forall s v, a_von (with_value s v) = a_von s.
Proof. reflexivity. Qed.
Lemma a_voff_wv : forall s v, a_voff (with_value s v) = a_voff s.
Proof. reflexivity. Qed.
Lemma a_pa_wv : forall s v, a_pa (with_value s v) = a_pa s.
Proof. reflexivity. Qed.

Lemma calc_value_wv : forall s v, calc_value (with_value s v) = calc_value s.
Proof. intros s v. unfold calc_value. rewrite a_state_wv, a_sustain_wv, a_von_wv, a_voff_wv, a_pa_wv. reflexivity. Qed.

(** one accumulator tick *)
Lemma pa_tick_facts : forall p,
  (0 <= pa_acc (pa_tick TOT p) < 16777216)%Z /\
  (pa_rolled p = false -> pa_rolled (pa_tick TOT p) = false ->
   (pa_last p <= pa_acc (pa_tick TOT p))%Z).
Proof.
  intros p. unfold pa_tick. cbv zeta. cbn [pa_acc pa_rolled].
  change (mask TOT) with (Z.ones 24).
  set (sum := ((pa_acc p + pa_inc p) mod 2 ^ 32)%Z).
  rewrite Z.land_ones by lia. change (2 ^ 24)%Z with 16777216%Z.
  split.
  - apply Z.mod_pos_bound. lia.
  - intros Hr. rewrite Hr.
    destruct ((Z.ones 24 <? sum)%Z || (sum mod 16777216 <? pa_last p)%Z) eqn:E.
    + discriminate.
    + intros _. apply orb_false_iff in E. destruct E as [_ E]. apply Z.ltb_ge in E. exact E.
Qed.

Definition same_levels (s1 s : adsr) : Prop :=
  a_sustain s1 = a_sustain s /\ a_von s1 = a_von s /\ a_voff s1 = a_voff s /\
  a_value s1 = a_value s.

Lemma tick_advance_untimed : forall s, timed (a_state s) = false -> tick_advance s = s.
Proof. intros s H. unfold tick_advance. rewrite H. reflexivity. Qed.

Lemma tick_advance_view : forall s,
  pa_last (a_pa s) = pa_acc (a_pa s) -> pa_rolled (a_pa s) = false -> acc_ok s ->
  let s1 := tick_advance s in
  same_levels s1 s /\ acc_ok s1 /\
  (timed (a_state s) = true ->
   (a_state s1 = a_state s /\ (pa_acc (a_pa s) <= pa_acc (a_pa s1))%Z) \/
   (a_state s1 = next_phase (a_state s) /\ pa_acc (a_pa s1) = 0%Z)).
Proof.
  intros s Hl Hr Ha s1. subst s1. unfold tick_advance.
  destruct (timed (a_state s)) eqn:Ht.
  2:{ split; [repeat split|]. split; [exact Ha|]. intros H; discriminate. }
  unfold pa_take_rolled. cbv beta iota zeta.
  set (p1 := pa_set_period TOT (a_pa s) (period_of s)).
  assert (E1 : pa_last p1 = pa_last (a_pa s) /\ pa_rolled p1 = pa_rolled (a_pa s)).
  { split; reflexivity. }
  destruct E1 as [El Er].
  destruct (pa_tick_facts p1) as [Hrange Hroll].
  destruct (pa_rolled (pa_tick TOT p1)) eqn:R.
  - split; [repeat split|]. split.
    + unfold acc_ok. cbn [with_pa_state a_pa pa_reset pa_acc]. lia.
    + intros _. right. split; reflexivity.
  - split; [repeat split|]. split.
    + unfold acc_ok. cbn [with_pa_state a_pa pa_acc]. exact Hrange.
    + intros _. left. split; [reflexivity|].
      cbn [with_pa_state a_pa pa_acc]. rewrite <- Hl, <- El. apply Hroll.
      * rewrite Er. exact Hr.
      * reflexivity.
Qed.

(** without the bookkeeping hypotheses: levels and accumulator range only *)
Lemma tick_advance_weak : forall s, acc_ok s ->
  same_levels (tick_advance s) s /\ acc_ok (tick_advance s).
Proof.
  intros s Ha. unfold tick_advance.
  destruct (timed (a_state s)) eqn:Ht.
  2:{ split; [repeat split|exact Ha]. }
  unfold pa_take_rolled. cbv beta iota zeta.
  set (p1 := pa_set_period TOT (a_pa s) (period_of s)).
  destruct (pa_tick_facts p1) as [Hrange _].
  destruct (pa_rolled (pa_tick TOT p1)) eqn:R.
  - split; [repeat split|]. unfold acc_ok. cbn [with_pa_state a_pa pa_reset pa_acc]. lia.
  - split; [repeat split|]. unfold acc_ok. cbn [with_pa_state a_pa pa_acc]. exact Hrange.
Qed.

Lemma InvV_same : forall s1 s, same_levels s1 s -> InvV s -> InvV s1.
Proof.
  intros s1 s (E1 & E2 & E3 & E4) [H1 H2 H3 H4].
  constructor; [rewrite E1 | rewrite E4 | rewrite E2 | rewrite E3]; assumption.
Qed.

(** * Part 6: the theorems of Props/C01.v *)

Lemma gate_on_cases : forall s,
  adsr_gate_on s = s \/
  adsr_gate_on s = mkAdsr (a_attack s) (a_decay s) (a_sustain s) (a_release s)
                     (pa_reset (a_pa s)) Attack (a_value s) (a_voff s) (a_value s).
Proof. intros s. unfold adsr_gate_on. destruct (a_state s); auto. Qed.

Lemma gate_off_cases : forall s,
  adsr_gate_off s = s \/
  adsr_gate_off s = mkAdsr (a_attack s) (a_decay s) (a_sustain s) (a_release s)
                      (pa_reset (a_pa s)) Release (a_von s) (a_value s) (a_value s).
Proof. intros s. unfold adsr_gate_off. destruct (a_state s); auto. Qed.

(** ** range invariant *)

Definition RI (s : adsr) : Prop := InvV s /\ acc_ok s.

Lemma RI_new : forall fs, RI (adsr_new fs).
Proof.
  intros fs. split.
  - destruct (sustain_clamp f_1) as (F & B & _). cbv zeta in F, B.
    constructor; unfold adsr_new; cbn [a_sustain a_value a_von a_voff].
    + split; assumption.
    + exact fin_in_f0.
    + exact fin_in_f0.
    + exact fin_in_f0.
  - unfold acc_ok, adsr_new, pa_new. cbn [a_pa pa_acc]. lia.
Qed.

Lemma RI_tick : forall s, RI s -> RI (adsr_tick s).
Proof.
  intros s [HV Ha]. unfold adsr_tick. cbv zeta.
  destruct (tick_advance_weak s Ha) as [Hsl Ha1].
  pose proof (InvV_same _ _ Hsl HV) as HV1.
  pose proof (calc_in _ HV1 Ha1) as Hc.
  destruct HV1 as [H1 H2 H3 H4].
  split.
  - constructor; [rewrite a_sustain_wv | rewrite a_value_wv | rewrite a_von_wv
                 | rewrite a_voff_wv]; assumption.
  - unfold acc_ok. rewrite a_pa_wv. exact Ha1.
Qed.

Lemma RI_step : forall s o, RI s -> RI (adsr_step s o).
Proof.
  intros s o HR. destruct o; unfold adsr_step.
  - now apply RI_tick.
  - destruct (gate_on_cases s) as [E|E]; rewrite E; [exact HR|].
    destruct HR as [[H1 H2 H3 H4] Ha]. split.
    + constructor; cbn [a_sustain a_value a_von a_voff]; assumption.
    + unfold acc_ok. cbn [a_pa pa_reset pa_acc]. lia.
  - destruct (gate_off_cases s) as [E|E]; rewrite E; [exact HR|].
    destruct HR as [[H1 H2 H3 H4] Ha]. split.
    + constructor; cbn [a_sustain a_value a_von a_voff]; assumption.
    + unfold acc_ok. cbn [a_pa pa_reset pa_acc]. lia.
  - destruct HR as [[H1 H2 H3 H4] Ha]. split; [constructor; assumption | exact Ha].
  - destruct HR as [[H1 H2 H3 H4] Ha]. split; [constructor; assumption | exact Ha].
  - destruct HR as [[H1 H2 H3 H4] Ha]. split; [|exact Ha].
    constructor; unfold adsr_set; cbn [a_sustain a_value a_von a_voff]; try assumption.
    destruct (sustain_clamp x) as (F & B & _). cbv zeta in F, B. split; assumption.
  - destruct HR as [[H1 H2 H3 H4] Ha]. split; [constructor; assumption | exact Ha].
Qed.

Lemma RI_run : forall ops s, RI s -> RI (fold_left adsr_step ops s).
Proof.
  induction ops as [|o ops IH]; intros s H; cbn [fold_left].
  - exact H.
  - apply IH. now apply RI_step.
Qed.

Theorem adsr_inv_level : forall fs ops, InvV (adsr_run fs ops).
Proof. intros fs ops. unfold adsr_run. apply (RI_run ops (adsr_new fs) (RI_new fs)). Qed.

(** ** only a tick changes the output *)

Theorem value_only_on_tick : forall s o,
  o <> ATick -> a_value (adsr_step s o) = a_value s.
Proof.
  intros s o H. destruct o; unfold adsr_step.
  - congruence.
  - destruct (gate_on_cases s) as [E|E]; rewrite E; reflexivity.
  - destruct (gate_off_cases s) as [E|E]; rewrite E; reflexivity.
  - reflexivity.
  - reflexivity.
  - reflexivity.
  - reflexivity.
Qed.

(** ** synchronisation *)

Lemma acc_ok_reset : forall att dec sus rel p st von voff v,
  acc_ok (mkAdsr att dec sus rel (pa_reset p) st von voff v).
Proof. intros. unfold acc_ok. cbn [a_pa pa_reset pa_acc]. lia. Qed.

Theorem synced_step : forall s o, Inv s ->
  match o with
  | ATick => True
  | AGateOn | AGateOff => synced s
  | _ => False
  end -> synced (adsr_step s o).
Proof.
  intros s o [HC HV] Ho. destruct o; try contradiction; unfold adsr_step.
  - unfold synced, adsr_tick. cbv zeta. rewrite a_value_wv, calc_value_wv. reflexivity.
  - destruct (gate_on_cases s) as [E|E]; rewrite E; [exact Ho|].
    destruct HV as [H1 H2 H3 H4].
    set (s2 := mkAdsr _ _ _ _ _ _ _ _ _).
    assert (HV2 : InvV s2) by (constructor; assumption).
    assert (Ha2 : acc_ok s2) by apply acc_ok_reset.
    destruct (calc_R s2 HV2 Ha2) as [_ V].
    unfold synced. rewrite V. unfold calcR, s2. cbn [a_state a_pa a_von a_value pa_reset pa_acc].
    cbv zeta. rewrite SA_0. symmetry. apply outR_zero, fmt_R32.
  - destruct (gate_off_cases s) as [E|E]; rewrite E; [exact Ho|].
    destruct HV as [H1 H2 H3 H4].
    set (s2 := mkAdsr _ _ _ _ _ _ _ _ _).
    assert (HV2 : InvV s2) by (constructor; assumption).
    assert (Ha2 : acc_ok s2) by apply acc_ok_reset.
    destruct (calc_R s2 HV2 Ha2) as [_ V].
    unfold synced. rewrite V. unfold calcR, s2. cbn [a_state a_pa a_voff a_value pa_reset pa_acc].
    cbv zeta. rewrite SD_0. symmetry. apply outR_times_one, fmt_R32.
Qed.

(** ** shape of each phase *)

Lemma tick_view : forall s, Inv s ->
  let s1 := tick_advance s in
  a_state (adsr_step s ATick) = a_state s1 /\
  R32 (a_value (adsr_step s ATick)) = calcR s1 /\
  same_levels s1 s /\ acc_ok s1 /\
  (timed (a_state s) = true ->
   (a_state s1 = a_state s /\ (pa_acc (a_pa s) <= pa_acc (a_pa s1))%Z) \/
   (a_state s1 = next_phase (a_state s) /\ pa_acc (a_pa s1) = 0%Z)).
Proof.
  intros s [HC HV] s1. subst s1.
  destruct HC as [_ _ _ Hacc Hlast Hroll _].
  destruct (tick_advance_view s Hlast Hroll Hacc) as (Hsl & Ha1 & Hcase).
  pose proof (InvV_same _ _ Hsl HV) as HV1.
  destruct (calc_R _ HV1 Ha1) as [_ V].
  unfold adsr_step, adsr_tick. cbv zeta. rewrite a_state_wv, a_value_wv.
  split; [reflexivity|]. split; [exact V|]. split; [exact Hsl|].
  split; [exact Ha1 | exact Hcase].
Qed.

Lemma synced_R : forall s, Inv s -> synced s -> R32 (a_value s) = calcR s.
Proof.
  intros s [HC HV] Hs. unfold synced in Hs. rewrite Hs.
  apply (calc_R s HV). apply (inv_acc s HC).
Qed.

Theorem attack_shape : forall s, Inv s -> (adsr_inc s <= 4278190080)%Z ->
  a_state s = Attack -> synced s ->
  let s' := adsr_step s ATick in
  (a_state s' = Attack -> R32 (a_value s) <= R32 (a_value s')) /\
  (a_state s' <> Attack -> a_state s' = Decay /\ R32 (a_value s') = 1).
Proof.
  intros s HI _ Hst Hsy s'. subst s'.
  destruct (tick_view s HI) as (Est & Ev & Hsl & Ha1 & Hcase).
  rewrite Est, Ev, (synced_R s HI Hsy).
  destruct HI as [HC HV]. destruct HV as [[_ Bs] _ [_ Bon] _].
  destruct Hsl as (Es & Eon & Eoff & _).
  destruct Hcase as [[E Hacc]|[E Hacc]]; try (rewrite Hst; reflexivity); rewrite Hst in E.
  - split; intros H; [|congruence].
    unfold calcR. rewrite E, Hst. cbv beta iota zeta. rewrite Eon.
    apply outR_mono.
    + apply coef_range, Bon.
    + apply SA_mono; [|apply Ha1]. pose proof (inv_acc s HC). lia.
  - cbn [next_phase] in E. split; intros H; [congruence|].
    split; [exact E|]. unfold calcR. rewrite E, Hacc. cbv beta iota zeta.
    rewrite SD_0, Es. apply outR_one, Bs.
Qed.

Theorem decay_shape : forall s, Inv s -> (adsr_inc s <= 4278190080)%Z ->
  a_state s = Decay -> synced s ->
  let s' := adsr_step s ATick in
  (a_state s' = Decay -> R32 (a_sustain s) <= R32 (a_value s') <= R32 (a_value s)) /\
  (a_state s' <> Decay -> a_state s' = Sustain /\ R32 (a_value s') = R32 (a_sustain s)).
Proof.
  intros s HI _ Hst Hsy s'. subst s'.
  destruct (tick_view s HI) as (Est & Ev & Hsl & Ha1 & Hcase).
  rewrite Est, Ev, (synced_R s HI Hsy).
  destruct HI as [HC HV]. destruct HV as [[_ Bs] _ [_ Bon] _].
  destruct Hsl as (Es & Eon & Eoff & _).
  destruct Hcase as [[E Hacc]|[E Hacc]]; try (rewrite Hst; reflexivity); rewrite Hst in E.
  - split; intros H; [|congruence].
    unfold calcR. rewrite E, Hst. cbv beta iota zeta. rewrite Es. split.
    + apply (outR_range _ _ (fmt_R32 (a_sustain s)) Bs). apply (SD_in _ Ha1).
    + apply outR_mono.
      * apply coef_range, Bs.
      * apply SD_mono; [|apply Ha1]. pose proof (inv_acc s HC). lia.
  - cbn [next_phase] in E. split; intros H; [congruence|].
    split; [exact E|]. unfold calcR. rewrite E. cbv beta iota zeta. rewrite Es. reflexivity.
Qed.

Theorem release_shape : forall s, Inv s -> (adsr_inc s <= 4278190080)%Z ->
  a_state s = Release -> synced s ->
  let s' := adsr_step s ATick in
  (a_state s' = Release -> 0 <= R32 (a_value s') <= R32 (a_value s)) /\
  (a_state s' <> Release -> a_state s' = AtRest /\ R32 (a_value s') = 0).
Proof.
  intros s HI _ Hst Hsy s'. subst s'.
  destruct (tick_view s HI) as (Est & Ev & Hsl & Ha1 & Hcase).
  rewrite Est, Ev, (synced_R s HI Hsy).
  destruct HI as [HC HV]. destruct HV as [_ _ _ [_ Boff]].
  destruct Hsl as (Es & Eon & Eoff & _).
  destruct Hcase as [[E Hacc]|[E Hacc]]; try (rewrite Hst; reflexivity); rewrite Hst in E.
  - split; intros H; [|congruence].
    unfold calcR. rewrite E, Hst. cbv beta iota zeta. rewrite Eoff. split.
    + apply (outR_rel _ _ (fmt_R32 (a_voff s)) Boff). apply (SD_in _ Ha1).
    + apply outR_mono; [apply Boff|].
      apply SD_mono; [|apply Ha1]. pose proof (inv_acc s HC). lia.
  - cbn [next_phase] in E. split; intros H; [congruence|].
    split; [exact E|]. unfold calcR. rewrite E. reflexivity.
Qed.

Lemma untimed_tick : forall s, Inv s -> timed (a_state s) = false ->
  a_state (adsr_step s ATick) = a_state s /\
  R32 (a_value (adsr_step s ATick)) = calcR s.
Proof.
  intros s [HC HV] Ht. unfold adsr_step, adsr_tick. cbv zeta.
  rewrite (tick_advance_untimed s Ht), a_state_wv, a_value_wv.
  split; [reflexivity|]. apply (calc_R s HV). apply (inv_acc s HC).
Qed.

Theorem sustain_shape : forall s, Inv s -> a_state s = Sustain ->
  let s' := adsr_step s ATick in
  a_state s' = Sustain /\ R32 (a_value s') = R32 (a_sustain s).
Proof.
  intros s HI Hst s'. subst s'.
  destruct (untimed_tick s HI) as [E V]; [rewrite Hst; reflexivity|].
  rewrite E, V. split; [exact Hst|]. unfold calcR. rewrite Hst. reflexivity.
Qed.

Theorem rest_shape : forall s, Inv s -> a_state s = AtRest ->
  let s' := adsr_step s ATick in
  a_state s' = AtRest /\ R32 (a_value s') = 0.
Proof.
  intros s HI Hst s'. subst s'.
  destruct (untimed_tick s HI) as [E V]; [rewrite Hst; reflexivity|].
  rewrite E, V. split; [exact Hst|]. unfold calcR. rewrite Hst. reflexivity.
Qed.
