(** Real analysis of the exact step response of the glide one-pole section (C14).

    With the ideal pole p0 = (1 - tan (PI/N)) / (1 + tan (PI/N)) and a pole p within
    2^-16 (1 - p0) + 4 * 2^-24 of it, the step response 1 - p^n (1+p)/2 covers at least
    99.6 % of the step after n >= N samples and between 41 % and 54 % after
    N/10 <= n10 < N/10 + 1 samples.

    Method: with y = 1 - p in (0, 1),
      exp (- y/(1-y) * n)  <=  (1 - y)^n  <=  exp (- y * n)
    (both from 1 + z <= exp z); y lies between lo = s (1 - 2^-16) - 4 * 2^-24 and
    hi = s (1 + 2^-16) + 4 * 2^-24 with s = 1 - p0; the resulting closed-form bounds in
    N are checked by [interval] (bisection on N). *)
From Coq Require Import Reals Lra.
From Interval Require Import Tactic.
From SU.Spec Require Import GlideSpec.
Open Scope R_scope.

Lemma exp_pow_INR : forall y n, exp y ^ n = exp (y * INR n).
Proof.
  intros y n; induction n as [|n IH].
  - simpl; now rewrite Rmult_0_r, exp_0.
  - rewrite S_INR, Rmult_plus_distr_l, Rmult_1_r, exp_plus, <- IH; simpl; ring.
Qed.

Lemma exp_mono : forall a b, a <= b -> exp a <= exp b.
Proof.
  intros a b [H|H]; [left; now apply exp_increasing | subst; apply Rle_refl].
Qed.

(** (1 - y)^n <= exp (- y n) *)
Lemma pow_le_exp : forall y n, 0 <= y <= 1 -> (1 - y) ^ n <= exp (- (y * INR n)).
Proof.
  intros y n Hy.
  replace (- (y * INR n)) with ((- y) * INR n) by ring.
  rewrite <- exp_pow_INR.
  apply pow_incr; split; [lra|].
  generalize (exp_ineq1_le (- y)); lra.
Qed.

(** exp (- y/(1-y) n) <= (1 - y)^n *)
Lemma pow_ge_exp : forall y n, 0 <= y < 1 -> exp (- (y / (1 - y) * INR n)) <= (1 - y) ^ n.
Proof.
  intros y n Hy.
  replace (- (y / (1 - y) * INR n)) with ((- (y / (1 - y))) * INR n) by ring.
  rewrite <- exp_pow_INR.
  apply pow_incr; split; [left; apply exp_pos|].
  rewrite exp_Ropp.
  replace (1 - y) with (/ (1 + y / (1 - y))) at 2 by (field; lra).
  assert (H1 : 0 < 1 + y / (1 - y)).
  { replace (1 + y / (1 - y)) with (/ (1 - y)) by (field; lra).
    apply Rinv_0_lt_compat; lra. }
  apply Rinv_le_contravar; [exact H1 | apply exp_ineq1_le].
Qed.

(** y / (1 - y) is increasing on [0, 1) *)
Lemma odds_mono : forall y z, 0 <= y <= z -> z < 1 -> y / (1 - y) <= z / (1 - z).
Proof.
  intros y z Hy Hz.
  replace (y / (1 - y)) with (/ (1 - y) - 1) by (field; lra).
  replace (z / (1 - z)) with (/ (1 - z) - 1) by (field; lra).
  apply Rplus_le_compat_r, Rinv_le_contravar; lra.
Qed.

Lemma Rabs_le_bounds : forall a b, Rabs a <= b -> - b <= a <= b.
Proof.
  intros a b; unfold Rabs; destruct (Rcase_abs a); lra.
Qed.

Lemma time_constant_real : forall N p (n n10 : nat),
  100 <= N <= 480000 ->
  Rabs (p - ideal_pole N) <= / 65536 * (1 - ideal_pole N) + 4 * / 16777216 ->
  N <= INR n < N + 1 -> N / 10 <= INR n10 < N / 10 + 1 ->
  0.996 <= step_response p n /\ 0.41 <= step_response p n10 <= 0.54.
Proof.
  intros N p n n10 HN Hp Hn Hn10.
  unfold ideal_pole in Hp.
  set (p0 := (1 - tan (PI / N)) / (1 + tan (PI / N))) in Hp.
  set (s := 1 - p0) in Hp.
  set (lo := s * (1 - / 65536) - 4 * / 16777216).
  set (hi := s * (1 + / 65536) + 4 * / 16777216).
  (* numeric facts, all functions of N only *)
  assert (Hs : 0.000013 <= s <= 0.0611)
    by (unfold s, p0; split; interval).
  assert (G1 : 0.996 <= 1 - exp (- (lo * N)))
    by (unfold lo, s, p0; interval with (i_bisect N, i_depth 30)).
  assert (G2 : 0.41 <= 1 - exp (- (lo * (N / 10))))
    by (unfold lo, s, p0; interval with (i_bisect N, i_depth 30)).
  assert (G3 : 1 - exp (- (hi / (1 - hi) * (N / 10 + 1))) * ((2 - hi) / 2) <= 0.54)
    by (unfold hi, s, p0; interval with (i_bisect N, i_depth 30)).
  (* y = 1 - p between lo and hi *)
  apply Rabs_le_bounds in Hp.
  set (y := 1 - p).
  assert (Hlo : 0 < lo) by (unfold lo; lra).
  assert (Hhi : hi <= 0.07) by (unfold hi; lra).
  assert (Hy : lo <= y <= hi) by (unfold y, lo, hi, s in *; lra).
  unfold step_response.
  replace p with (1 - y) by (unfold y; ring).
  assert (Hy01 : 0 <= y <= 1) by lra.
  assert (Hy01' : 0 <= y < 1) by lra.
  (* n >= N samples *)
  assert (P1 : 0 <= (1 - y) ^ n <= exp (- (lo * N))).
  { split; [apply pow_le; lra|].
    eapply Rle_trans; [apply pow_le_exp; exact Hy01|].
    apply exp_mono, Ropp_le_contravar.
    apply Rmult_le_compat; lra. }
  (* n10 samples *)
  assert (P2 : 0 <= (1 - y) ^ n10 <= exp (- (lo * (N / 10)))).
  { split; [apply pow_le; lra|].
    eapply Rle_trans; [apply pow_le_exp; exact Hy01|].
    apply exp_mono, Ropp_le_contravar.
    apply Rmult_le_compat; lra. }
  assert (P3 : exp (- (hi / (1 - hi) * (N / 10 + 1))) <= (1 - y) ^ n10).
  { eapply Rle_trans; [|apply pow_ge_exp; exact Hy01'].
    apply exp_mono, Ropp_le_contravar.
    assert (H0 : 0 <= y / (1 - y)).
    { apply Rmult_le_pos; [lra | left; apply Rinv_0_lt_compat; lra]. }
    apply Rmult_le_compat; [exact H0 | apply pos_INR | apply odds_mono; lra | lra]. }
  assert (E3 : 0 < exp (- (hi / (1 - hi) * (N / 10 + 1)))) by apply exp_pos.
  split; [|split].
  - (* 0.996 *)
    assert (H : (1 - y) ^ n * (1 + (1 - y)) / 2 <= (1 - y) ^ n).
    { replace ((1 - y) ^ n * (1 + (1 - y)) / 2)
        with ((1 - y) ^ n - (1 - y) ^ n * (y / 2)) by field.
      assert (0 <= (1 - y) ^ n * (y / 2)) by (apply Rmult_le_pos; lra).
      lra. }
    lra.
  - (* 0.41 *)
    assert (H : (1 - y) ^ n10 * (1 + (1 - y)) / 2 <= (1 - y) ^ n10).
    { replace ((1 - y) ^ n10 * (1 + (1 - y)) / 2)
        with ((1 - y) ^ n10 - (1 - y) ^ n10 * (y / 2)) by field.
      assert (0 <= (1 - y) ^ n10 * (y / 2)) by (apply Rmult_le_pos; lra).
      lra. }
    lra.
  - (* 0.54 *)
    assert (H : exp (- (hi / (1 - hi) * (N / 10 + 1))) * ((2 - hi) / 2)
                <= (1 - y) ^ n10 * (1 + (1 - y)) / 2).
    { unfold Rdiv at 4. rewrite Rmult_assoc.
      apply Rmult_le_compat; lra. }
    lra.
Qed.
