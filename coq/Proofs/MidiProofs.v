(** Proofs for Props/C04.v and Props/C05.v: the receiver model (Model/Midi.v) refines
    the positional specification (Spec/MidiSpec.v). *)
From Coq Require Import ZArith Bool List Lia Arith.
Import ListNotations.
From SU Require Import F32.
From SU.gen Require Import Consts.
From SU.Model Require Import Midi.
From SU.Spec Require Import MidiSpec.
Open Scope Z_scope.

(** * Generic list facts *)

Lemma existsb_ext_in {A} (f g : A -> bool) (l : list A) :
  (forall x, In x l -> f x = g x) -> existsb f l = existsb g l.
Proof.
  induction l as [|a l IH]; intros Hfg; simpl; [reflexivity|].
  rewrite (Hfg a (or_introl eq_refl)), IH; [reflexivity|].
  intros x Hx. apply Hfg. right. exact Hx.
Qed.

Lemma existsb_and_r {A} (f : A -> bool) (b : bool) (l : list A) :
  existsb (fun x => f x && b) l = existsb f l && b.
Proof.
  induction l as [|a l IH]; simpl; [reflexivity|].
  rewrite IH. destruct (f a), (existsb f l), b; reflexivity.
Qed.

Lemma filter_all_true {A} (l : list A) : filter (fun _ => true) l = l.
Proof. induction l as [|a l IH]; simpl; [reflexivity|]. rewrite IH. reflexivity. Qed.

Lemma filter_all_false {A} (l : list A) : filter (fun _ => false) l = [].
Proof. induction l as [|a l IH]; simpl; [reflexivity|]. exact IH. Qed.

Lemma filter_nonnil_source {A} (f : A -> bool) (l : list A) :
  filter f l <> [] -> l <> [].
Proof. intros Hf Hl. subst l. apply Hf. reflexivity. Qed.

Lemma firstn_snoc_le {A} (k : nat) (l : list A) (a : A) :
  (k <= length l)%nat -> firstn k (l ++ [a]) = firstn k l.
Proof.
  intros Hk. rewrite firstn_app.
  replace (k - length l)%nat with 0%nat by lia.
  simpl. apply app_nil_r.
Qed.

Lemma skipn_snoc_le {A} (k : nat) (l : list A) (a : A) :
  (k <= length l)%nat -> skipn k (l ++ [a]) = skipn k l ++ [a].
Proof.
  intros Hk. rewrite skipn_app.
  replace (k - length l)%nat with 0%nat by lia.
  reflexivity.
Qed.

Lemma between_end (h : list mop) (j : nat) : between h j (length h) = skipn (S j) h.
Proof.
  unfold between. apply firstn_all2. rewrite skipn_length. lia.
Qed.

Definition isnil {A} (l : list A) : bool := match l with [] => true | _ => false end.

Lemma gate_spec_isnil ch h : gate_spec ch h = negb (isnil (held_spec ch h)).
Proof. unfold gate_spec. destruct (held_spec ch h); reflexivity. Qed.

(** * Snoc lemmas for the specification *)

Definition on_list (ch : Z) (o : mop) : list Z :=
  match note_on_of ch o with Some n => [n] | None => [] end.

Lemma held_spec_snoc ch h o :
  held_spec ch (h ++ [o])
  = filter (fun n => negb (cancels ch n o)) (held_spec ch h) ++ on_list ch o.
Proof.
  unfold on_list.
  induction h as [|a h IH]; simpl.
  - destruct (note_on_of ch o); reflexivity.
  - destruct (note_on_of ch a) as [n|]; [|exact IH].
    rewrite existsb_app. simpl. rewrite orb_false_r.
    destruct (existsb (cancels ch n) h); simpl; [exact IH|].
    destruct (cancels ch n o); simpl; rewrite IH; reflexivity.
Qed.

Lemma prio_spec_snoc h o : prio_spec_rev (rev (h ++ [o])) = prio_spec_rev (o :: rev h).
Proof. rewrite rev_unit. reflexivity. Qed.

Lemma retrig_spec_snoc h o : retrig_spec_rev (rev (h ++ [o])) = retrig_spec_rev (o :: rev h).
Proof. rewrite rev_unit. reflexivity. Qed.

Lemma note_spec_snoc ch h o :
  note_spec ch (h ++ [o])
  = if is_note_msg ch o && negb (isnil (held_spec ch (h ++ [o])))
    then choose_next_note (prio_spec_rev (rev h)) (held_spec ch (h ++ [o]))
    else note_spec ch h.
Proof.
  unfold note_spec. rewrite rev_unit. simpl.
  rewrite rev_involutive. reflexivity.
Qed.

Lemma velocity_spec_rev_snoc ch h o :
  velocity_spec_rev ch (rev (h ++ [o])) = velocity_spec_rev ch (o :: rev h).
Proof. rewrite rev_unit. reflexivity. Qed.

Definition fall_now (ch : Z) (h : list mop) (o : mop) : bool :=
  gate_spec ch h && negb (gate_spec ch (h ++ [o])).

Lemma falls_at_snoc_lt ch h o j :
  (j < length h)%nat -> falls_at ch (h ++ [o]) j = falls_at ch h j.
Proof.
  intros Hj. unfold falls_at.
  rewrite !firstn_snoc_le by lia. reflexivity.
Qed.

Lemma falls_at_snoc_last ch h o :
  falls_at ch (h ++ [o]) (length h) = fall_now ch h o.
Proof.
  unfold falls_at, fall_now.
  rewrite firstn_snoc_le by lia. rewrite firstn_all.
  rewrite firstn_all2 by (rewrite app_length; simpl; lia).
  reflexivity.
Qed.

Lemma pending_fall_snoc ch h o :
  pending_fall ch (h ++ [o])
  = (pending_fall ch h && negb (is_note_on ch o || is_poll_fall o)) || fall_now ch h o.
Proof.
  unfold pending_fall.
  rewrite app_length. simpl length.
  replace (length h + 1)%nat with (S (length h)) by lia.
  rewrite seq_S, existsb_app. cbn [existsb]. rewrite orb_false_r.
  f_equal.
  - rewrite <- existsb_and_r.
    apply existsb_ext_in. intros j Hj. apply in_seq in Hj.
    rewrite falls_at_snoc_lt by lia.
    replace (S (length h)) with (length (h ++ [o])) by (rewrite app_length; simpl; lia).
    rewrite !between_end. rewrite skipn_snoc_le by lia.
    rewrite existsb_app. cbn [existsb]. rewrite orb_false_r.
    generalize (existsb (fun o0 => is_note_on ch o0 || is_poll_fall o0) (skipn (S j) h)).
    intros b.
    destruct (falls_at ch h j), b, (is_note_on ch o || is_poll_fall o); reflexivity.
  - rewrite falls_at_snoc_last.
    replace (S (length h)) with (length (h ++ [o])) by (rewrite app_length; simpl; lia).
    rewrite between_end.
    rewrite skipn_all2 by (rewrite app_length; simpl; lia).
    simpl. apply andb_true_r.
Qed.

Definition rise_now (ch : Z) (h : list mop) (o : mop) : bool :=
  is_note_on ch o && (negb (gate_spec ch h) || retrig_spec_rev (rev h)).

Lemma rises_at_snoc_lt ch h o j :
  (j < length h)%nat -> rises_at ch (h ++ [o]) j = rises_at ch h j.
Proof.
  intros Hj. unfold rises_at.
  rewrite nth_error_app1 by lia.
  rewrite firstn_snoc_le by lia. reflexivity.
Qed.

Lemma rises_at_snoc_last ch h o :
  rises_at ch (h ++ [o]) (length h) = rise_now ch h o.
Proof.
  unfold rises_at, rise_now, is_note_on.
  rewrite nth_error_app2 by lia. rewrite Nat.sub_diag. simpl.
  rewrite firstn_snoc_le by lia. rewrite firstn_all.
  destruct (note_on_of ch o); reflexivity.
Qed.

Lemma pending_rise_snoc ch h o :
  pending_rise ch (h ++ [o])
  = (pending_rise ch h && negb (fall_now ch h o) && negb (is_poll_rise o)) || rise_now ch h o.
Proof.
  unfold pending_rise.
  rewrite app_length. simpl length.
  replace (length h + 1)%nat with (S (length h)) by lia.
  rewrite seq_S, existsb_app. cbn [existsb]. rewrite orb_false_r.
  f_equal.
  - rewrite <- andb_assoc. rewrite <- existsb_and_r.
    apply existsb_ext_in. intros j Hj. apply in_seq in Hj.
    rewrite rises_at_snoc_lt by lia.
    replace (S (length h) - S j)%nat with (S (length h - S j)) by lia.
    rewrite seq_S, existsb_app. cbn [existsb]. rewrite orb_false_r.
    replace (S j + (length h - S j))%nat with (length h) by lia.
    rewrite falls_at_snoc_last.
    rewrite (existsb_ext_in (fun k => falls_at ch (h ++ [o]) k) (fun k => falls_at ch h k)).
    2:{ intros k Hk. apply in_seq in Hk. apply falls_at_snoc_lt. lia. }
    replace (S (length h)) with (length (h ++ [o])) by (rewrite app_length; simpl; lia).
    rewrite !between_end. rewrite skipn_snoc_le by lia.
    rewrite existsb_app. cbn [existsb]. rewrite orb_false_r.
    generalize (existsb is_poll_rise (skipn (S j) h)).
    generalize (existsb (fun k => falls_at ch h k) (seq (S j) (length h - S j))).
    intros b1 b2.
    destruct (rises_at ch h j), b1, (fall_now ch h o), b2, (is_poll_rise o); reflexivity.
  - rewrite rises_at_snoc_last.
    rewrite Nat.sub_diag. simpl seq. cbn [existsb].
    replace (S (length h)) with (length (h ++ [o])) by (rewrite app_length; simpl; lia).
    rewrite between_end.
    rewrite skipn_all2 by (rewrite app_length; simpl; lia).
    simpl. rewrite !andb_true_r. reflexivity.
Qed.

(** * The invariant relating a receiver state to the specification of a history *)

Record Inv (c : Z) (h : list mop) (r : rx) : Prop := mkInv {
  inv_chan : r_channel r = c;
  inv_held : r_held r = held_spec c h;
  inv_gate : r_gate r = gate_spec c h;
  inv_prio : r_prio r = prio_spec_rev (rev h);
  inv_retrig : r_retrig r = retrig_spec_rev (rev h);
  inv_note : r_note r = note_spec c h;
  inv_fall : r_falling r = pending_fall c h;
  inv_rise : r_rising r = pending_rise c h
}.

(** the invariant after [h ++ [o]], stated over the fields of the previous state [r]
    and of the new state [r'] only *)
Lemma inv_snoc c h o r r' :
  Inv c h r ->
  r_channel r' = c ->
  r_held r' = filter (fun n => negb (cancels c n o)) (r_held r) ++ on_list c o ->
  r_gate r' = negb (isnil (r_held r')) ->
  r_prio r' = prio_spec_rev (o :: rev h) ->
  r_retrig r' = retrig_spec_rev (o :: rev h) ->
  r_note r' = (if is_note_msg c o && negb (isnil (r_held r'))
               then choose_next_note (r_prio r) (r_held r') else r_note r) ->
  r_falling r' = (r_falling r && negb (is_note_on c o || is_poll_fall o))
                 || (r_gate r && negb (r_gate r')) ->
  r_rising r' = (r_rising r && negb (r_gate r && negb (r_gate r')) && negb (is_poll_rise o))
                || (is_note_on c o && (negb (r_gate r) || r_retrig r)) ->
  Inv c (h ++ [o]) r'.
Proof.
  intros [Hc Hh Hg Hp Hr Hn Hf Hrs] Hc' Hh' Hg' Hp' Hr' Hn' Hf' Hrs'.
  assert (Hheld : r_held r' = held_spec c (h ++ [o])).
  { rewrite held_spec_snoc, <- Hh. exact Hh'. }
  assert (Hgate : r_gate r' = gate_spec c (h ++ [o])).
  { rewrite gate_spec_isnil, <- Hheld. exact Hg'. }
  constructor.
  - exact Hc'.
  - exact Hheld.
  - exact Hgate.
  - rewrite prio_spec_snoc. exact Hp'.
  - rewrite retrig_spec_snoc. exact Hr'.
  - rewrite note_spec_snoc, <- Hheld, <- Hp, <- Hn. exact Hn'.
  - rewrite pending_fall_snoc. unfold fall_now. rewrite <- Hgate, <- Hg, <- Hf. exact Hf'.
  - rewrite pending_rise_snoc. unfold fall_now, rise_now.
    rewrite <- Hgate, <- Hg, <- Hrs, <- Hr. exact Hrs'.
Qed.

(** operations that the note logic ignores *)
Definition neutral_op (c : Z) (o : mop) : Prop :=
  note_on_of c o = None /\ (forall n, cancels c n o = false) /\ is_note_msg c o = false
  /\ is_poll_fall o = false /\ is_poll_rise o = false
  /\ (forall l, prio_spec_rev (o :: l) = prio_spec_rev l)
  /\ (forall l, retrig_spec_rev (o :: l) = retrig_spec_rev l).

Definition same_notes (r r' : rx) : Prop :=
  r_channel r' = r_channel r /\ r_held r' = r_held r /\ r_gate r' = r_gate r
  /\ r_prio r' = r_prio r /\ r_retrig r' = r_retrig r /\ r_note r' = r_note r
  /\ r_falling r' = r_falling r /\ r_rising r' = r_rising r.

Lemma filter_ext_all_true {A} (f : A -> bool) (l : list A) :
  (forall x, f x = true) -> filter f l = l.
Proof.
  intros Hf. induction l as [|a l IH]; simpl; [reflexivity|].
  rewrite Hf, IH. reflexivity.
Qed.

Lemma inv_neutral c h o r r' :
  Inv c h r -> neutral_op c o -> same_notes r r' -> Inv c (h ++ [o]) r'.
Proof.
  intros HI (Hon & Hcan & Hnm & Hpf & Hpr & Hprio & Hretr) (Sc & Sh & Sg & Sp & Sr & Sn & Sf & Srs).
  assert (Hheld : r_held r' = filter (fun n => negb (cancels c n o)) (r_held r) ++ on_list c o).
  { unfold on_list. rewrite Hon, app_nil_r, filter_ext_all_true; [exact Sh|].
    intros n. rewrite Hcan. reflexivity. }
  pose proof HI as [Hc Hh Hg Hp Hr Hn Hf Hrs].
  apply (inv_snoc c h o r r' HI).
  - rewrite Sc. exact Hc.
  - exact Hheld.
  - rewrite Sg, Sh, Hg, Hh. apply gate_spec_isnil.
  - rewrite Hprio, Sp. exact Hp.
  - rewrite Hretr, Sr. exact Hr.
  - rewrite Hnm. simpl. exact Sn.
  - unfold is_note_on. rewrite Hon, Hpf, Sg, Sf. simpl.
    destruct (r_falling r), (r_gate r); reflexivity.
  - unfold is_note_on. rewrite Hon, Hpr, Sg, Srs. simpl.
    destruct (r_rising r), (r_gate r); reflexivity.
Qed.

Lemma gate_of_inv c h r : Inv c h r -> r_gate r = negb (isnil (r_held r)).
Proof. intros [_ Hh Hg _ _ _ _ _]. rewrite Hg, Hh. apply gate_spec_isnil. Qed.

(** a note-off (or zero-velocity note-on) for note [n] on the listened channel *)
Lemma inv_note_off c h o n r :
  Inv c h r -> (r_rising r = true -> r_gate r = true) ->
  note_on_of c o = None -> (forall k, cancels c k o = (n =? k)) -> is_note_msg c o = true ->
  is_poll_fall o = false -> is_poll_rise o = false ->
  (forall l, prio_spec_rev (o :: l) = prio_spec_rev l) ->
  (forall l, retrig_spec_rev (o :: l) = retrig_spec_rev l) ->
  Inv c (h ++ [o]) (handle_note_off r n).
Proof.
  intros HI Hrg Hon Hcan Hnm Hpf Hpr Hprio Hretr.
  pose proof (gate_of_inv c h r HI) as Hgate.
  pose proof HI as [Hc Hh Hg Hp Hr Hn Hf Hrs].
  assert (HF : filter (fun k => negb (cancels c k o)) (r_held r) ++ on_list c o
               = filter (fun k => negb (k =? n)) (r_held r)).
  { unfold on_list. rewrite Hon, app_nil_r. apply filter_ext.
    intros k. rewrite Hcan, Z.eqb_sym. reflexivity. }
  apply (inv_snoc c h o r _ HI); rewrite ?HF; clear HF; unfold handle_note_off, is_note_on;
    rewrite ?Hon, ?Hnm, ?Hpf, ?Hpr, ?Hprio, ?Hretr;
    set (F := filter (fun k => negb (k =? n)) (r_held r)); assert (EF : F = F) by reflexivity;
    unfold F at 2 in EF; destruct F as [|a F]; simpl.
  - exact Hc.
  - exact Hc.
  - reflexivity.
  - reflexivity.
  - reflexivity.
  - rewrite Hgate. destruct (r_held r); [discriminate EF|reflexivity].
  - exact Hp.
  - exact Hp.
  - exact Hr.
  - exact Hr.
  - reflexivity.
  - reflexivity.
  - destruct (r_gate r), (r_falling r); reflexivity.
  - destruct (r_gate r), (r_falling r); reflexivity.
  - destruct (r_gate r) eqn:Eg, (r_rising r) eqn:Er; try reflexivity.
    specialize (Hrg eq_refl). discriminate Hrg.
  - destruct (r_gate r), (r_rising r); reflexivity.
Qed.

(** All-Notes-Off on the listened channel *)
Lemma inv_all_off c h o r :
  Inv c h r -> (r_rising r = true -> r_gate r = true) ->
  note_on_of c o = None -> (forall k, cancels c k o = true) -> is_note_msg c o = false ->
  is_poll_fall o = false -> is_poll_rise o = false ->
  (forall l, prio_spec_rev (o :: l) = prio_spec_rev l) ->
  (forall l, retrig_spec_rev (o :: l) = retrig_spec_rev l) ->
  Inv c (h ++ [o])
    (set_notes r (r_note r) (r_velocity r) false false (if r_gate r then true else r_falling r) []).
Proof.
  intros HI Hrg Hon Hcan Hnm Hpf Hpr Hprio Hretr.
  pose proof HI as [Hc Hh Hg Hp Hr Hn Hf Hrs].
  apply (inv_snoc c h o r _ HI); unfold is_note_on;
    rewrite ?Hon, ?Hnm, ?Hpf, ?Hpr, ?Hprio, ?Hretr; simpl.
  - exact Hc.
  - unfold on_list. rewrite Hon, app_nil_r.
    rewrite (filter_ext _ (fun _ => false)); [rewrite filter_all_false; reflexivity|].
    intros k. rewrite Hcan. reflexivity.
  - reflexivity.
  - exact Hp.
  - exact Hr.
  - reflexivity.
  - destruct (r_gate r), (r_falling r); reflexivity.
  - destruct (r_gate r) eqn:Eg, (r_rising r) eqn:Er; try reflexivity.
    specialize (Hrg eq_refl). discriminate Hrg.
Qed.

Lemma length_one_isnil {A} (l : list A) (a : A) : Nat.eqb (length (l ++ [a])) 1 = isnil l.
Proof.
  destruct l as [|x l]; simpl; [reflexivity|].
  rewrite app_length. simpl. destruct (length l + 1)%nat eqn:E; [lia|reflexivity].
Qed.

(** a note-on with non-zero velocity on the listened channel, with room in the buffer *)
Lemma inv_note_on c h o n v r :
  Inv c h r ->
  Z.of_nat (length (r_held r ++ [n])) <= HELD_DOWN_NOTE_BUFFER_LEN ->
  note_on_of c o = Some n -> (forall k, cancels c k o = false) -> is_note_msg c o = true ->
  is_poll_fall o = false -> is_poll_rise o = false ->
  (forall l, prio_spec_rev (o :: l) = prio_spec_rev l) ->
  (forall l, retrig_spec_rev (o :: l) = retrig_spec_rev l) ->
  Inv c (h ++ [o]) (handle_note_on r n v).
Proof.
  intros HI Hcap Hon Hcan Hnm Hpf Hpr Hprio Hretr.
  pose proof (gate_of_inv c h r HI) as Hgate.
  pose proof HI as [Hc Hh Hg Hp Hr Hn Hf Hrs].
  assert (Hpush : push_held (r_held r) n = r_held r ++ [n]).
  { unfold push_held. rewrite app_length in Hcap. simpl in Hcap.
    destruct (Z.of_nat (length (r_held r)) <? HELD_DOWN_NOTE_BUFFER_LEN) eqn:E; [reflexivity|].
    apply Z.ltb_ge in E. lia. }
  assert (Hnn : isnil (r_held r ++ [n]) = false) by (destruct (r_held r); reflexivity).
  apply (inv_snoc c h o r _ HI); unfold handle_note_on, is_note_on;
    rewrite ?Hpush, ?Hon, ?Hnm, ?Hpf, ?Hpr, ?Hprio, ?Hretr; simpl.
  - exact Hc.
  - unfold on_list. rewrite Hon. f_equal. symmetry. apply filter_ext_all_true.
    intros k. rewrite Hcan. reflexivity.
  - rewrite Hnn. reflexivity.
  - exact Hp.
  - exact Hr.
  - rewrite Hnn. reflexivity.
  - destruct (r_gate r), (r_falling r); reflexivity.
  - rewrite length_one_isnil, Hgate.
    destruct (r_retrig r), (isnil (r_held r)), (r_rising r); reflexivity.
Qed.

Ltac split_all := repeat match goal with |- _ /\ _ => split end.

Lemma same_notes_refl r : same_notes r r.
Proof. unfold same_notes. split_all; reflexivity. Qed.

Lemma same_notes_handle_cc r cc v :
  (cc =? CC_ALL_NOTES_OFF) = false -> same_notes r (handle_cc r cc v).
Proof.
  intros E. unfold handle_cc. rewrite E.
  repeat match goal with |- context [if ?b then _ else _] => destruct b end;
    unfold same_notes; simpl; split_all; reflexivity.
Qed.

Lemma handle_cc_all_off r cc v :
  (cc =? CC_ALL_NOTES_OFF) = true ->
  handle_cc r cc v
  = set_notes r (r_note r) (r_velocity r) false false (if r_gate r then true else r_falling r) [].
Proof.
  intros E. apply Z.eqb_eq in E. subst cc. reflexivity.
Qed.

(** * One step preserves the invariant *)
Lemma step_inv c h r o :
  Inv c h r -> (r_rising r = true -> r_gate r = true) ->
  Z.of_nat (length (held_spec c (h ++ [o]))) <= HELD_DOWN_NOTE_BUFFER_LEN ->
  Inv c (h ++ [o]) (fst (mstep r o)).
Proof.
  intros HI Hrg Hcap.
  pose proof (gate_of_inv c h r HI) as Hgate.
  pose proof HI as [Hc Hh Hg Hp Hr Hn Hf Hrs].
  rewrite held_spec_snoc, <- Hh in Hcap.
  destruct o as [m| | |p|b].
  - destruct m as [c' n v|c' n v|c' cc v|c' msb lsb|]; simpl; rewrite ?Hc.
    + (* note-off *)
      destruct (c' =? c) eqn:E.
      * apply inv_note_off; try assumption; simpl; rewrite ?E; intros; reflexivity.
      * apply (inv_neutral c h _ r r HI); [|apply same_notes_refl].
        unfold neutral_op; simpl; rewrite E; split_all; intros; reflexivity.
    + (* note-on *)
      destruct (c' =? c) eqn:E.
      * destruct (v =? 0) eqn:Ev.
        -- apply inv_note_off; try assumption; simpl; rewrite ?E, ?Ev; simpl;
             intros; rewrite ?andb_true_r; reflexivity.
        -- apply inv_note_on; try assumption; simpl; rewrite ?E, ?Ev; simpl;
             intros; rewrite ?andb_false_r; try reflexivity.
           unfold on_list in Hcap. simpl in Hcap. rewrite E, Ev in Hcap. simpl in Hcap.
           rewrite filter_ext_all_true in Hcap; [exact Hcap|].
           intros k. rewrite andb_false_r. reflexivity.
      * apply (inv_neutral c h _ r r HI); [|apply same_notes_refl].
        unfold neutral_op; simpl; rewrite E; split_all; intros; reflexivity.
    + (* control change *)
      destruct (c' =? c) eqn:E.
      * destruct (cc =? CC_ALL_NOTES_OFF) eqn:Ecc.
        -- rewrite handle_cc_all_off by exact Ecc.
           apply inv_all_off; try assumption; simpl; rewrite ?E, ?Ecc; intros; reflexivity.
        -- apply (inv_neutral c h _ r _ HI); [|apply same_notes_handle_cc; exact Ecc].
           unfold neutral_op; simpl; rewrite E, Ecc; split_all; intros; reflexivity.
      * apply (inv_neutral c h _ r r HI); [|apply same_notes_refl].
        unfold neutral_op; simpl; rewrite E; split_all; intros; reflexivity.
    + (* pitch bend *)
      apply (inv_neutral c h _ r _ HI).
      * unfold neutral_op; simpl; split_all; intros; reflexivity.
      * destruct (c' =? c); unfold same_notes; simpl; split_all; reflexivity.
    + apply (inv_neutral c h _ r r HI); [|apply same_notes_refl].
      unfold neutral_op; simpl; split_all; intros; reflexivity.
  - (* poll rise *)
    apply (inv_snoc c h _ r _ HI); simpl; rewrite ?filter_all_true, ?app_nil_r; try assumption;
      try reflexivity.
    + destruct (r_falling r), (r_gate r); reflexivity.
    + destruct (r_rising r), (r_gate r); reflexivity.
  - (* poll fall *)
    apply (inv_snoc c h _ r _ HI); simpl; rewrite ?filter_all_true, ?app_nil_r; try assumption;
      try reflexivity.
    + destruct (r_falling r), (r_gate r); reflexivity.
    + destruct (r_rising r), (r_gate r); reflexivity.
  - (* set priority *)
    apply (inv_snoc c h _ r _ HI); simpl; rewrite ?filter_all_true, ?app_nil_r; try assumption;
      try reflexivity.
    + destruct (r_falling r), (r_gate r); reflexivity.
    + destruct (r_rising r), (r_gate r); reflexivity.
  - (* set retrigger mode *)
    apply (inv_snoc c h _ r _ HI); simpl; rewrite ?filter_all_true, ?app_nil_r; try assumption;
      try reflexivity.
    + destruct (r_falling r), (r_gate r); reflexivity.
    + destruct (r_rising r), (r_gate r); reflexivity.
Qed.

(** * Edge flags versus gate level (no capacity hypothesis needed) *)

Definition edge_ok (r : rx) : Prop :=
  (r_rising r = true -> r_gate r = true) /\ (r_falling r = true -> r_gate r = false).

Lemma edge_ok_note_off r n : edge_ok r -> edge_ok (handle_note_off r n).
Proof.
  intros [Hr Hf]. unfold handle_note_off, edge_ok.
  destruct (filter (fun k => negb (k =? n)) (r_held r)); simpl.
  - split; [discriminate|reflexivity].
  - split; assumption.
Qed.

Lemma edge_ok_note_on r n v : edge_ok r -> edge_ok (handle_note_on r n v).
Proof.
  intros _. unfold handle_note_on, edge_ok. simpl. split; [reflexivity|discriminate].
Qed.

Lemma edge_ok_cc r cc v : edge_ok r -> edge_ok (handle_cc r cc v).
Proof.
  intros [Hr Hf]. unfold handle_cc.
  repeat match goal with |- context [if ?b then _ else _] => destruct b end;
    unfold edge_ok; simpl; split; try assumption; try discriminate; reflexivity.
Qed.

Lemma edge_ok_step r o : edge_ok r -> edge_ok (fst (mstep r o)).
Proof.
  intros He. pose proof He as [Hr Hf].
  destruct o as [m| | |p|b]; simpl.
  - destruct m as [c' n v|c' n v|c' cc v|c' msb lsb|]; simpl.
    + destruct (c' =? r_channel r); [apply edge_ok_note_off|]; exact He.
    + destruct (c' =? r_channel r); [|exact He].
      destruct (v =? 0); [apply edge_ok_note_off|apply edge_ok_note_on]; exact He.
    + destruct (c' =? r_channel r); [apply edge_ok_cc|]; exact He.
    + destruct (c' =? r_channel r); [|exact He]. unfold edge_ok; simpl. split; assumption.
    + exact He.
  - unfold edge_ok; simpl. split; [discriminate|assumption].
  - unfold edge_ok; simpl. split; [assumption|discriminate].
  - unfold edge_ok; simpl. split; assumption.
  - unfold edge_ok; simpl. split; assumption.
Qed.

Lemma mrun_snoc ch h o : mrun ch (h ++ [o]) = fst (mstep (mrun ch h) o).
Proof. unfold mrun, mrun_from. rewrite fold_left_app. reflexivity. Qed.

Lemma edge_ok_run ch h : edge_ok (mrun ch h).
Proof.
  induction h as [|o h IH] using rev_ind.
  - unfold edge_ok. simpl. split; discriminate.
  - rewrite mrun_snoc. apply edge_ok_step. exact IH.
Qed.

Lemma rising_implies_gate : forall ch h,
  r_rising (mrun ch h) = true -> r_gate (mrun ch h) = true.
Proof. intros ch h. exact (proj1 (edge_ok_run ch h)). Qed.

Lemma falling_implies_not_gate : forall ch h,
  r_falling (mrun ch h) = true -> r_gate (mrun ch h) = false.
Proof. intros ch h. exact (proj2 (edge_ok_run ch h)). Qed.

(** * The invariant holds along every history within capacity *)

Lemma within_capacity_snoc c h o :
  within_capacity c (h ++ [o]) ->
  within_capacity c h /\ Z.of_nat (length (held_spec c (h ++ [o]))) <= HELD_DOWN_NOTE_BUFFER_LEN.
Proof.
  intros Hw. split.
  - intros k. destruct (Nat.le_gt_cases k (length h)) as [Hk|Hk].
    + rewrite <- (firstn_snoc_le k h o Hk). apply Hw.
    + rewrite firstn_all2 by lia.
      rewrite <- (firstn_all h). rewrite <- (firstn_snoc_le (length h) h o (Nat.le_refl _)).
      apply Hw.
  - rewrite <- (firstn_all (h ++ [o])). apply Hw.
Qed.

Lemma inv_init ch : Inv (Z.min ch 15) [] (rx_new ch).
Proof. constructor; reflexivity. Qed.

Lemma inv_run ch h :
  within_capacity (Z.min ch 15) h -> Inv (Z.min ch 15) h (mrun ch h).
Proof.
  induction h as [|o h IH] using rev_ind; intros Hw.
  - apply inv_init.
  - apply within_capacity_snoc in Hw. destruct Hw as [Hw Hcap].
    rewrite mrun_snoc. apply step_inv.
    + apply IH. exact Hw.
    + apply rising_implies_gate.
    + exact Hcap.
Qed.

Lemma held_refines : forall ch h,
  within_capacity (Z.min ch 15) h -> r_held (mrun ch h) = held_spec (Z.min ch 15) h.
Proof. intros ch h Hw. exact (inv_held _ _ _ (inv_run ch h Hw)). Qed.

Lemma gate_refines : forall ch h,
  within_capacity (Z.min ch 15) h -> r_gate (mrun ch h) = gate_spec (Z.min ch 15) h.
Proof. intros ch h Hw. exact (inv_gate _ _ _ (inv_run ch h Hw)). Qed.

Lemma note_refines : forall ch h,
  within_capacity (Z.min ch 15) h -> r_note (mrun ch h) = note_spec (Z.min ch 15) h.
Proof. intros ch h Hw. exact (inv_note _ _ _ (inv_run ch h Hw)). Qed.

Lemma falling_refines : forall ch h,
  within_capacity (Z.min ch 15) h -> mout ch h OPollFall = Some (pending_fall (Z.min ch 15) h).
Proof.
  intros ch h Hw. unfold mout. simpl.
  rewrite (inv_fall _ _ _ (inv_run ch h Hw)). reflexivity.
Qed.

Lemma rising_refines : forall ch h,
  within_capacity (Z.min ch 15) h -> mout ch h OPollRise = Some (pending_rise (Z.min ch 15) h).
Proof.
  intros ch h Hw. unfold mout. simpl.
  rewrite (inv_rise _ _ _ (inv_run ch h Hw)). reflexivity.
Qed.

(** * Velocity (no capacity hypothesis needed) *)

Definition vel_of (v : Z) : f32 := match v with 0 => f_0 | v => fdiv (of_Z v) f_127 end.

Definition vel_ok (c : Z) (h : list mop) (r : rx) : Prop :=
  r_channel r = c /\ r_velocity r = vel_of (velocity_spec_rev c (rev h)).

Lemma vel_keep_note_off r n :
  r_channel (handle_note_off r n) = r_channel r /\ r_velocity (handle_note_off r n) = r_velocity r.
Proof.
  unfold handle_note_off. destruct (filter (fun k => negb (k =? n)) (r_held r)); simpl; split; reflexivity.
Qed.

Lemma vel_keep_cc r cc v :
  r_channel (handle_cc r cc v) = r_channel r /\ r_velocity (handle_cc r cc v) = r_velocity r.
Proof.
  unfold handle_cc.
  repeat match goal with |- context [if ?b then _ else _] => destruct b end;
    simpl; split; reflexivity.
Qed.

Lemma vel_ok_step c h r o : vel_ok c h r -> vel_ok c (h ++ [o]) (fst (mstep r o)).
Proof.
  intros [Hc Hv]. unfold vel_ok. rewrite velocity_spec_rev_snoc.
  destruct o as [m| | |p|b]; simpl; try (split; assumption).
  destruct m as [c' n v|c' n v|c' cc v|c' msb lsb|]; simpl; rewrite ?Hc.
  - destruct (c' =? c); [|split; assumption].
    destruct (vel_keep_note_off r n) as [E1 E2]. rewrite E1, E2. split; assumption.
  - destruct (c' =? c); simpl; [|split; assumption].
    destruct (v =? 0) eqn:Ev; simpl.
    + destruct (vel_keep_note_off r n) as [E1 E2]. rewrite E1, E2. split; assumption.
    + split; [exact Hc|]. unfold value7_to_f32, vel_of.
      destruct v; [discriminate Ev|reflexivity|reflexivity].
  - destruct (c' =? c); [|split; assumption].
    destruct (vel_keep_cc r cc v) as [E1 E2]. rewrite E1, E2. split; assumption.
  - destruct (c' =? c); simpl; split; assumption.
  - split; [reflexivity|exact Hv].
Qed.

Lemma vel_ok_run ch h : vel_ok (Z.min ch 15) h (mrun ch h).
Proof.
  induction h as [|o h IH] using rev_ind.
  - split; reflexivity.
  - rewrite mrun_snoc. apply vel_ok_step. exact IH.
Qed.

Lemma velocity_refines : forall ch h,
  r_velocity (mrun ch h) = velocity_spec (Z.min ch 15) h.
Proof.
  intros ch h. destruct (vel_ok_run ch h) as [_ Hv]. rewrite Hv.
  unfold velocity_spec, vel_of.
  destruct (velocity_spec_rev (Z.min ch 15) (rev h)); reflexivity.
Qed.
