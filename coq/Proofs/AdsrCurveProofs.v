(** * AdsrCurveProofs: the ADSR output follows the documented RC curves
    (proof of [C01_curve_fidelity] in Props/C01.v).

    Three ingredients:
    - the per-cell bounds of AdsrCurveCells{A,D}{1..4}.v (tactic [interval]): inside every
      table cell the exact linear interpolation of the two table entries stays within
      [CELL_TOL = 0.0045] of the documented curve;
    - a sweep over both tables ([vm_compute]): every entry is finite and in [0, 1];
    - a rounding-error analysis of the six float operations between the table entries and
      the output: at most [6 * 2^-21]. *)

From Coq Require Import ZArith Reals Lia Lra Psatz Bool List.
From Flocq Require Import Core IEEE754.BinarySingleNaN.
From SU Require Import F32 F32Lemmas.
From SU.gen Require Import Consts.
From SU.Model Require Import Utils PhaseAcc Tables Adsr.
From SU.Spec Require Import AdsrSpec.
From SU.Proofs Require Import LfoProofs AdsrCurveBase.
From SU.Proofs Require Import AdsrCurveCellsA1 AdsrCurveCellsA2 AdsrCurveCellsA3 AdsrCurveCellsA4.
From SU.Proofs Require Import AdsrCurveCellsD1 AdsrCurveCellsD2 AdsrCurveCellsD3 AdsrCurveCellsD4.
Open Scope R_scope.

(** ** all cells of both tables *)

Lemma four_blocks : forall (P : Z -> Prop),
  cells P 0 256 -> cells P 256 256 -> cells P 512 256 -> cells P 768 256 ->
  forall i : Z, (0 <= i < 1024)%Z -> P i.
Proof.
  intros P H0 H1 H2 H3 i Hi.
  destruct (Z_lt_le_dec i 256) as [L1|L1].
  { apply (cells_spec P 256 0 H0). change (Z.of_nat 256) with 256%Z. lia. }
  destruct (Z_lt_le_dec i 512) as [L2|L2].
  { apply (cells_spec P 256 256 H1). change (Z.of_nat 256) with 256%Z. lia. }
  destruct (Z_lt_le_dec i 768) as [L3|L3].
  { apply (cells_spec P 256 512 H2). change (Z.of_nat 256) with 256%Z. lia. }
  apply (cells_spec P 256 768 H3). change (Z.of_nat 256) with 256%Z. lia.
Qed.

Lemma attack_cells_all : forall i : Z, (0 <= i < 1024)%Z -> cell attack_table RC_attack i.
Proof.
  intros i Hi. rewrite <- attack_cell_eq. revert i Hi.
  exact (four_blocks attack_cell attack_cells_0 attack_cells_256 attack_cells_512
           attack_cells_768).
Qed.

Lemma decay_cells_all : forall i : Z, (0 <= i < 1024)%Z -> cell decay_table RC_decay i.
Proof.
  intros i Hi. rewrite <- decay_cell_eq. revert i Hi.
  exact (four_blocks decay_cell decay_cells_0 decay_cells_256 decay_cells_512
           decay_cells_768).
Qed.

(** ** every table entry is a finite number in [0, 1] *)

Definition in01 (x : f32) : bool := is_finite x && fle f_0 x && fle x f_1.

Lemma in01_spec : forall x, in01 x = true -> fin x /\ 0 <= R32 x <= 1.
Proof.
  intros x H. unfold in01 in H. rewrite !andb_true_iff in H.
  destruct H as [[Fx H1] H2]. split; [exact Fx|].
  apply fle_true in H1; [|exact fin_f_0|exact Fx].
  apply fle_true in H2; [|exact Fx|exact fin_f_1].
  rewrite R32_f_0 in H1. rewrite R32_f_1 in H2. lra.
Qed.

Lemma attack_in01 : forallb in01 attack_table = true.
Proof. vm_compute; reflexivity. Qed.

Lemma decay_in01 : forallb in01 decay_table = true.
Proof. vm_compute; reflexivity. Qed.

Lemma attack_length : length attack_table = 1024%nat.
Proof. vm_compute; reflexivity. Qed.

Lemma decay_length : length decay_table = 1024%nat.
Proof. vm_compute; reflexivity. Qed.

Lemma tbl_in01 : forall (t : list f32) (i : Z), forallb in01 t = true ->
  length t = 1024%nat -> (0 <= i < 1024)%Z -> fin (tbl t i) /\ 0 <= R32 (tbl t i) <= 1.
Proof.
  intros t i Hall Hlen Hi. apply in01_spec.
  apply (proj1 (forallb_forall in01 t) Hall).
  unfold tbl. apply nth_In. rewrite Hlen.
  change 1024%nat with (Z.to_nat 1024). apply Z2Nat.inj_lt; lia.
Qed.

(** ** index and fraction *)

Lemma frac_bits_adsr : frac_bits TOT IDX = 14%Z.
Proof. reflexivity. Qed.

Lemma index_val : forall p, pa_index TOT IDX p = (pa_acc p / 16384)%Z.
Proof.
  intros p. unfold pa_index. rewrite frac_bits_adsr.
  rewrite Z.shiftr_div_pow2 by lia. reflexivity.
Qed.

Lemma fraction_val : forall p, (0 <= pa_acc p < 16777216)%Z ->
  fin (pa_fraction TOT IDX p) /\
  R32 (pa_fraction TOT IDX p) = IZR (pa_acc p mod 16384) / 16384.
Proof.
  intros p Ha. unfold pa_fraction. rewrite frac_bits_adsr.
  change (2 ^ 14)%Z with 16384%Z. change (16384 - 1)%Z with 16383%Z.
  rewrite land_mask14.
  assert (Hm := Z.mod_pos_bound (pa_acc p) 16384 ltac:(lia)).
  set (m := (pa_acc p mod 16384)%Z) in *.
  assert (Hr : 0 <= IZR m < 16384).
  { split; [apply (IZR_le 0)|apply (IZR_lt m 16384)]; lia. }
  destruct (fin_R32_of_Z_small m) as [Va Fa]; [lia|].
  destruct (fin_R32_of_Z_small 16384) as [Vc Fc]; [lia|].
  destruct (fdiv_exact _ _ Fa Fc) as [V F].
  - rewrite Vc. lra.
  - rewrite Va, Vc. apply (fmt_div_pow2 _ 14); [lia|lia|reflexivity].
  - rewrite Va, Vc. apply lt_MAXF, Rabs_le. lra.
  - rewrite Va, Vc in V. split; assumption.
Qed.

(** ** rounding errors *)

(** absolute error of one rounding of a number of magnitude at most 4: [2^-21] *)
Definition EPS : R := / 2097152.

Lemma rnd_abs_err : forall x, Rabs x <= 4 -> Rabs (rnd x - x) <= EPS.
Proof.
  intros x Hx. unfold EPS. destruct (rnd_error x) as [eps [eta [He [Ht Hr]]]].
  rewrite Hr. replace (x * (1 + eps) + eta - x) with (x * eps + eta) by ring.
  assert (H : Rabs (x * eps) <= 4 * / 16777216).
  { rewrite Rabs_mult. apply Rmult_le_compat; try apply Rabs_pos; assumption. }
  eapply Rle_trans; [apply Rabs_triang|]. lra.
Qed.

Lemma ovf4 : forall x, Rabs x <= 4 -> Rabs (rnd x) < MAXF.
Proof.
  intros x H. apply (no_overflow 4); [apply (fmt_int 4); lia| |exact H].
  rewrite MAXF_val. lra.
Qed.

Lemma fmt_1 : fmt 1.
Proof. apply (fmt_int 1). lia. Qed.
Lemma fmt_m1 : fmt (-1).
Proof. apply (fmt_int (-1)). lia. Qed.
Lemma fmt_2 : fmt 2.
Proof. apply (fmt_int 2). lia. Qed.
Lemma fmt_m2 : fmt (-2).
Proof. apply (fmt_int (-2)). lia. Qed.

(** the three roundings of the interpolation *)
Lemma interp_err : forall y0 y1 f, 0 <= y0 <= 1 -> 0 <= y1 <= 1 -> 0 <= f <= 1 ->
  Rabs (rnd (y0 + rnd (rnd (y1 - y0) * f)) - (y0 + (y1 - y0) * f)) <= 3 * EPS.
Proof.
  intros y0 y1 f H0 H1 Hf.
  assert (He : 0 < EPS) by (unfold EPS; lra).
  assert (BD : -1 <= rnd (y1 - y0) <= 1).
  { apply rnd_bounds; [exact fmt_m1|exact fmt_1|lra]. }
  assert (ED := rnd_abs_err (y1 - y0) ltac:(apply Rabs_le; lra)).
  set (D := rnd (y1 - y0)) in *.
  assert (BDf : -1 <= D * f <= 1) by (split; nra).
  assert (BP : -1 <= rnd (D * f) <= 1).
  { apply rnd_bounds; [exact fmt_m1|exact fmt_1|exact BDf]. }
  assert (EP := rnd_abs_err (D * f) ltac:(apply Rabs_le; lra)).
  set (P := rnd (D * f)) in *.
  assert (ER := rnd_abs_err (y0 + P) ltac:(apply Rabs_le; lra)).
  apply Rabs_le_inv in ED, EP, ER.
  set (d := D - (y1 - y0)) in *.
  assert (Bdf : - EPS <= d * f <= EPS) by (split; nra).
  replace (rnd (y0 + P) - (y0 + (y1 - y0) * f))
    with ((rnd (y0 + P) - (y0 + P)) + (P - D * f) + d * f) by (unfold d; ring).
  apply Rabs_le. lra.
Qed.

(** the three roundings of [c * S + v], where [c] approximates the exact coefficient [a]
    and [S] the exact interpolation [L] *)
Lemma out_err : forall a c L S v, 0 <= a <= 1 -> 0 <= c <= 1 -> Rabs (c - a) <= EPS ->
  0 <= L <= 1 -> Rabs (S - L) <= 3 * EPS -> 0 <= v <= 1 ->
  Rabs (rnd (rnd (c * S) + v) - (v + a * L)) <= 6 * EPS.
Proof.
  intros a c L S v Ha Hc Eca HL ESL Hv.
  assert (He : 0 < EPS <= / 1000) by (unfold EPS; lra).
  apply Rabs_le_inv in Eca, ESL.
  assert (BS : - (3 * EPS) <= S <= 1 + 3 * EPS) by lra.
  assert (BcS : - (3 * EPS) <= c * S <= 1 + 3 * EPS) by (split; nra).
  assert (EQ := rnd_abs_err (c * S) ltac:(apply Rabs_le; lra)).
  set (Q := rnd (c * S)) in *.
  apply Rabs_le_inv in EQ.
  assert (EO := rnd_abs_err (Q + v) ltac:(apply Rabs_le; lra)).
  apply Rabs_le_inv in EO.
  assert (B1 : - (3 * EPS) <= c * (S - L) <= 3 * EPS) by (split; nra).
  assert (B2 : - EPS <= (c - a) * L <= EPS) by (split; nra).
  replace (rnd (Q + v) - (v + a * L))
    with ((rnd (Q + v) - (Q + v)) + (Q - c * S) + c * (S - L) + (c - a) * L) by ring.
  apply Rabs_le. lra.
Qed.

(** ** the float operations *)

(** [c * S + v] in f32 for [c], [v] in [0, 1] and [S] in [-1, 2] *)
Lemma mac_val : forall c S v : f32, fin c -> fin S -> fin v ->
  0 <= R32 c <= 1 -> -1 <= R32 S <= 2 -> 0 <= R32 v <= 1 ->
  R32 (fadd (fmul c S) v) = rnd (rnd (R32 c * R32 S) + R32 v).
Proof.
  intros c S v Fc FS Fv Bc BS Bv.
  assert (BcS : -2 <= R32 c * R32 S <= 2) by (split; nra).
  destruct (fmul_correct c S Fc FS) as [Vm Fm].
  { apply ovf4, Rabs_le. lra. }
  assert (BQ : -2 <= rnd (R32 c * R32 S) <= 2).
  { apply rnd_bounds; [exact fmt_m2|exact fmt_2|exact BcS]. }
  destruct (fadd_correct _ v Fm Fv) as [Va Fa].
  { rewrite Vm. apply ovf4, Rabs_le. lra. }
  rewrite Va, Vm. reflexivity.
Qed.

(** [1 - v] in f32 for [v] in [0, 1] *)
Lemma coef_val : forall v : f32, fin v -> 0 <= R32 v <= 1 ->
  fin (fsub f_1 v) /\ 0 <= R32 (fsub f_1 v) <= 1 /\
  Rabs (R32 (fsub f_1 v) - (1 - R32 v)) <= EPS.
Proof.
  intros v Fv Bv.
  destruct (fsub_correct f_1 v fin_f_1 Fv) as [Vs Fs].
  { rewrite R32_f_1. apply ovf4, Rabs_le. lra. }
  rewrite R32_f_1 in Vs. split; [exact Fs|]. rewrite Vs. split.
  - apply rnd_bounds; [exact fmt_0|exact fmt_1|lra].
  - apply rnd_abs_err, Rabs_le. lra.
Qed.

(** ** the interpolated sample against the curve *)

Lemma sample_spec : forall (t : list f32) (RC : R -> R) (p : pa),
  forallb in01 t = true -> length t = 1024%nat ->
  (forall i : Z, (0 <= i < 1024)%Z -> cell t RC i) ->
  (0 <= pa_acc p < 16777216)%Z ->
  exists L : R, 0 <= L <= 1 /\
    Rabs (L - RC (IZR (pa_acc p) / 16777216)) <= CELL_TOL /\
    fin (lut_sample t p) /\ Rabs (R32 (lut_sample t p) - L) <= 3 * EPS.
Proof.
  intros t RC p Hall Hlen Hcells Ha.
  unfold lut_sample. rewrite index_val.
  set (acc := pa_acc p) in *.
  set (i := (acc / 16384)%Z).
  set (m := (acc mod 16384)%Z).
  assert (Hdm : acc = (16384 * i + m)%Z) by (apply Z.div_mod; lia).
  assert (Hm : (0 <= m < 16384)%Z) by (apply Z.mod_pos_bound; lia).
  assert (Hi : (0 <= i < 1024)%Z).
  { split; [apply Z.div_pos; lia|apply Z.div_lt_upper_bound; lia]. }
  assert (Hj : (0 <= next_idx i < 1024)%Z).
  { unfold next_idx. change ADSR_CURVE_LUT_SIZE with 1024%Z. lia. }
  destruct (tbl_in01 t i Hall Hlen Hi) as [F0 B0].
  destruct (tbl_in01 t (next_idx i) Hall Hlen Hj) as [F1 B1].
  destruct (fraction_val p Ha) as [Ff Vf]. fold acc in Vf. fold m in Vf.
  assert (HmR : 0 <= IZR m < 16384).
  { split; [apply (IZR_le 0)|apply (IZR_lt m 16384)]; lia. }
  assert (Bf : 0 <= R32 (pa_fraction TOT IDX p) <= 1) by (rewrite Vf; lra).
  destruct (interp_value _ _ _ F0 F1 Ff ltac:(lra) ltac:(lra) Bf) as [Fs Vs].
  set (y0 := R32 (tbl t i)) in *. set (y1 := R32 (tbl t (next_idx i))) in *.
  set (f := R32 (pa_fraction TOT IDX p)) in *.
  exists (y0 + (y1 - y0) * f).
  assert (HL : 0 <= y0 + (y1 - y0) * f <= 1).
  { replace (y0 + (y1 - y0) * f) with (y0 * (1 - f) + y1 * f) by ring. split; nra. }
  split; [exact HL|]. split.
  - assert (HaccR : IZR acc = 16384 * IZR i + IZR m).
    { rewrite Hdm at 1. rewrite plus_IZR, mult_IZR. reflexivity. }
    assert (HiR : 0 <= IZR i) by (apply (IZR_le 0); lia).
    assert (Hc := Hcells i Hi (IZR acc / 16777216)).
    fold y0 in Hc. fold y1 in Hc.
    replace (1024 * (IZR acc / 16777216) - IZR i) with f in Hc
      by (rewrite Vf, HaccR; field).
    apply Hc. rewrite HaccR. lra.
  - split; [exact Fs|]. rewrite Vs. apply interp_err; assumption.
Qed.

(** ** output against ideal, for all three timed phases at once *)

Lemma final_err : forall (c S v : f32) (a L rc : R), fin c -> fin S -> fin v ->
  0 <= a <= 1 -> 0 <= R32 c <= 1 -> Rabs (R32 c - a) <= EPS ->
  0 <= L <= 1 -> Rabs (R32 S - L) <= 3 * EPS -> Rabs (L - rc) <= CELL_TOL ->
  0 <= R32 v <= 1 ->
  Rabs (R32 (fadd (fmul c S) v) - (R32 v + a * rc)) <= 5 / 1000.
Proof.
  intros c S v a L rc Fc FS Fv Ha Bc Eca HL ESL ELr Bv.
  assert (He : 0 < EPS <= / 1000) by (unfold EPS; lra).
  assert (BS : -1 <= R32 S <= 2) by (apply Rabs_le_inv in ESL; lra).
  rewrite (mac_val c S v Fc FS Fv Bc BS Bv).
  assert (E1 := out_err a (R32 c) L (R32 S) (R32 v) Ha Bc Eca HL ESL Bv).
  apply Rabs_le_inv in E1, ELr. unfold CELL_TOL in ELr.
  assert (B : - (45 / 10000) <= a * (L - rc) <= 45 / 10000) by (split; nra).
  replace (rnd (rnd (R32 c * R32 S) + R32 v) - (R32 v + a * rc))
    with ((rnd (rnd (R32 c * R32 S) + R32 v) - (R32 v + a * L)) + a * (L - rc)) by ring.
  apply Rabs_le. unfold EPS in *. lra.
Qed.

(** ** the theorem *)

Lemma curve_fidelity : forall s, Inv s -> timed (a_state s) = true -> synced s ->
  Rabs (R32 (a_value s) - ideal s) <= 0.005.
Proof.
  intros s [HC HV] Ht Hs. unfold synced in Hs. rewrite Hs. clear Hs.
  assert (Ha := inv_acc s HC).
  destruct (inv_sustain s HV) as [Fsu Bsu].
  destruct (inv_von s HV) as [Fvo Bvo].
  destruct (inv_voff s HV) as [Fvf Bvf].
  replace 0.005 with (5 / 1000) by lra.
  unfold calc_value, ideal, pos.
  destruct (a_state s); try discriminate Ht.
  - (* Attack *)
    destruct (sample_spec attack_table RC_attack (a_pa s) attack_in01 attack_length
                attack_cells_all Ha) as [L [HL [ELr [FS ESL]]]].
    destruct (coef_val (a_von s) Fvo Bvo) as [Fc [Bc Ec]].
    exact (final_err _ _ _ (1 - R32 (a_von s)) L _ Fc FS Fvo ltac:(lra) Bc Ec HL ESL ELr Bvo).
  - (* Decay *)
    destruct (sample_spec decay_table RC_decay (a_pa s) decay_in01 decay_length
                decay_cells_all Ha) as [L [HL [ELr [FS ESL]]]].
    destruct (coef_val (a_sustain s) Fsu Bsu) as [Fc [Bc Ec]].
    exact (final_err _ _ _ (1 - R32 (a_sustain s)) L _ Fc FS Fsu ltac:(lra) Bc Ec HL ESL ELr Bsu).
  - (* Release *)
    destruct (sample_spec decay_table RC_decay (a_pa s) decay_in01 decay_length
                decay_cells_all Ha) as [L [HL [ELr [FS ESL]]]].
    replace (R32 (a_voff s) * RC_decay (IZR (pa_acc (a_pa s)) / 16777216))
      with (R32 f_0 + R32 (a_voff s) * RC_decay (IZR (pa_acc (a_pa s)) / 16777216))
      by (rewrite R32_f_0; ring).
    apply (final_err (a_voff s) _ f_0 (R32 (a_voff s)) L _ Fvf FS fin_f_0 Bvf Bvf);
      [ |exact HL|exact ESL|exact ELr| ].
    + replace (R32 (a_voff s) - R32 (a_voff s)) with 0 by ring.
      rewrite Rabs_R0. unfold EPS. lra.
    + rewrite R32_f_0. lra.
Qed.
