(** Proofs of the floating-point part of C16: the ribbon value is the pull-up corrected
    f32 mean of the contributing samples, it stays in [0, 1], and the real-valued
    reference (mean, correction) is bounded by / monotone in the samples.

    Error budget for [value_is_corrected_mean] (u = 2^-24, eta = 2^-150, n <= cap samples
    in [0, 1]):
    - sequential sum s_k = rnd (s_(k-1) + x_k): 0 <= s_k <= k exactly (k is representable),
      so the k-th addition errs by at most k u + eta, in total n (n+1)/2 u + n eta;
    - mean m = rnd (s_n / n): error (n+1)/2 u + eta + (u + eta); 0 <= m <= 1;
    - correction: four roundings of numbers in [0, 1]: 4 (u + eta); the map
      p |-> p - (p - p^2) e has slope in [0, 2] on [0, 1], doubling the error of the mean.
    Total (n + 7) u + 8 eta <= (cap + 16) u = tau. *)
From Coq Require Import ZArith Reals Lia Lra Psatz Bool List Floats.SpecFloat.
From Flocq Require Import Core IEEE754.BinarySingleNaN.
From SU Require Import F32 F32Lemmas.
From SU.Model Require Import Ribbon.
From SU.Spec Require Import RibbonSpec.
From SU.Proofs Require Import RibbonProofs LfoProofs.
Import ListNotations.
Open Scope R_scope.

(** * Real analysis: mean and correction *)

Definition sumR (l : list f32) : R := fold_right (fun x acc => R32 x + acc) 0 l.

Lemma mean_R_eq : forall W, mean_R W = sumR W / INR (length W).
Proof. reflexivity. Qed.

Lemma sumR_nil : sumR [] = 0.
Proof. reflexivity. Qed.

Lemma sumR_cons : forall x l, sumR (x :: l) = R32 x + sumR l.
Proof. reflexivity. Qed.

Lemma sumR_app : forall a b, sumR (a ++ b) = sumR a + sumR b.
Proof.
  induction a as [|x a IH]; intros b.
  - cbn [app]. rewrite sumR_nil. lra.
  - rewrite <- app_comm_cons, !sumR_cons, IH. lra.
Qed.

Lemma sumR_bounds : forall lo hi l, (forall x, In x l -> lo <= R32 x <= hi) ->
  INR (length l) * lo <= sumR l <= INR (length l) * hi.
Proof.
  intros lo hi. induction l as [|a l IH]; intros H.
  - rewrite sumR_nil. cbn [length INR]. lra.
  - rewrite sumR_cons. change (length (a :: l)) with (S (length l)). rewrite S_INR.
    assert (Ha : lo <= R32 a <= hi) by (apply H; left; reflexivity).
    assert (IH' := IH (fun x Hx => H x (or_intror Hx))).
    rewrite !Rmult_plus_distr_r, !Rmult_1_l. lra.
Qed.

Lemma length_pos_INR : forall (l : list f32), l <> [] -> 0 < INR (length l).
Proof.
  intros [|a l] H; [congruence|]. apply lt_0_INR. cbn [length]. lia.
Qed.

Lemma mean_bounds : forall lo hi l, l <> [] -> (forall x, In x l -> lo <= R32 x <= hi) ->
  lo <= mean_R l <= hi.
Proof.
  intros lo hi l Hne H. rewrite mean_R_eq.
  pose proof (sumR_bounds lo hi l H) as [H1 H2].
  pose proof (length_pos_INR l Hne) as Hn.
  split; apply Rmult_le_reg_r with (INR (length l)); try exact Hn;
    unfold Rdiv; rewrite Rmult_assoc, Rinv_l by lra; lra.
Qed.

Lemma corr_factor : forall e p q, 0 <= e <= 1 -> 0 <= p <= 1 -> 0 <= q <= 1 ->
  0 <= 1 - e * (1 - p - q) <= 2.
Proof.
  intros e p q He Hp Hq.
  assert (H1 : 0 <= e * p) by (apply Rmult_le_pos; lra).
  assert (H2 : 0 <= e * q) by (apply Rmult_le_pos; lra).
  assert (H3 : 0 <= e * (1 - p)) by (apply Rmult_le_pos; lra).
  assert (H4 : 0 <= e * (1 - q)) by (apply Rmult_le_pos; lra).
  split; lra.
Qed.

Lemma corr_diff : forall e p q,
  corr_R e q - corr_R e p = (q - p) * (1 - e * (1 - p - q)).
Proof. intros e p q. unfold corr_R. ring. Qed.

Lemma corr_R_mono : forall e p q, 0 <= e <= 1 -> 0 <= p -> p <= q -> q <= 1 ->
  corr_R e p <= corr_R e q.
Proof.
  intros e p q He Hp Hpq Hq.
  pose proof (corr_factor e p q He ltac:(lra) ltac:(lra)) as Hf.
  cut (0 <= corr_R e q - corr_R e p); [lra|].
  rewrite corr_diff. apply Rmult_le_pos; lra.
Qed.

Lemma corr_lip : forall e p q D, 0 <= e <= 1 -> 0 <= p <= 1 -> 0 <= q <= 1 ->
  Rabs (p - q) <= D -> Rabs (corr_R e p - corr_R e q) <= 2 * D.
Proof.
  intros e p q D He Hp Hq HD.
  pose proof (corr_factor e q p He Hq Hp) as Hf.
  rewrite corr_diff, Rabs_mult, (Rabs_pos_eq (1 - e * (1 - q - p))) by lra.
  pose proof (Rabs_pos (p - q)) as Ha.
  apply Rle_trans with (Rabs (p - q) * 2); [apply Rmult_le_compat_l; lra | lra].
Qed.

Lemma corrected_mean_between : forall e (W : list f32) lo hi,
  (0 <= e <= 1)%R -> W <> [] ->
  (forall x, In x W -> (0 <= lo <= R32 x)%R /\ (R32 x <= hi <= 1)%R) ->
  (corr_R e lo <= corr_R e (mean_R W) <= corr_R e hi)%R.
Proof.
  intros e W lo hi He Hne H.
  assert (Hm : lo <= mean_R W <= hi).
  { apply mean_bounds; [exact Hne|]. intros x Hx. destruct (H x Hx) as [[_ A] [B _]]. lra. }
  assert (Hb : 0 <= lo /\ hi <= 1).
  { destruct W as [|a W]; [congruence|].
    destruct (H a (or_introl eq_refl)) as [[A _] [_ B]]. split; assumption. }
  split; apply corr_R_mono; lra.
Qed.

Lemma corrected_mean_monotone : forall e (W1 W2 : list f32) (x y : f32),
  (0 <= e <= 1)%R -> (forall z, In z (W1 ++ x :: y :: W2) -> (0 <= R32 z <= 1)%R) ->
  (R32 x <= R32 y)%R ->
  (corr_R e (mean_R (W1 ++ x :: W2)) <= corr_R e (mean_R (W1 ++ y :: W2)))%R.
Proof.
  intros e W1 W2 x y He H Hxy.
  assert (Hin : forall w z, (w = x \/ w = y) -> In z (W1 ++ w :: W2) -> 0 <= R32 z <= 1).
  { intros w z Hw Hz. apply H. apply in_app_or in Hz. apply in_or_app.
    destruct Hz as [Hz|[Hz|Hz]]; [left; exact Hz| |right; right; right; exact Hz].
    subst z. destruct Hw; subst w; right; [left | right; left]; reflexivity. }
  assert (Hx : 0 <= mean_R (W1 ++ x :: W2) <= 1).
  { apply mean_bounds; [intros E; symmetry in E; exact (app_cons_not_nil _ _ _ E)|].
    intros z. apply Hin. now left. }
  assert (Hy : 0 <= mean_R (W1 ++ y :: W2) <= 1).
  { apply mean_bounds; [intros E; symmetry in E; exact (app_cons_not_nil _ _ _ E)|].
    intros z. apply Hin. now right. }
  apply corr_R_mono; try lra.
  rewrite !mean_R_eq, !sumR_app, !sumR_cons, !app_length. cbn [length].
  assert (Hn : 0 < INR (length W1 + S (length W2))) by (apply lt_0_INR; lia).
  apply Rmult_le_compat_r; [apply Rlt_le, Rinv_0_lt_compat, Hn | lra].
Qed.

(** * Rounding error of one operation *)

Definition u24 : R := / 16777216.
Definition eta150 : R := / 1427247692705959881058285969449495136382746624.

Lemma u_pos : 0 < u24.
Proof. unfold u24. lra. Qed.
Lemma eta_pos : 0 <= eta150.
Proof. unfold eta150. lra. Qed.
Lemma eta_le_u : eta150 <= u24.
Proof. unfold eta150, u24. lra. Qed.

Lemma rnd_err : forall x B, 0 <= x <= B -> Rabs (rnd x - x) <= B * u24 + eta150.
Proof.
  intros x B Hx. destruct (rnd_error x) as (eps & et & He & Ht & Hr).
  change (/ 16777216) with u24 in He.
  change (/ 1427247692705959881058285969449495136382746624) with eta150 in Ht.
  apply Rabs_le_inv in He. apply Rabs_le_inv in Ht.
  pose proof u_pos as Hu.
  assert (H1 : x * eps <= x * u24) by (apply Rmult_le_compat_l; lra).
  assert (H2 : x * u24 <= B * u24) by (apply Rmult_le_compat_r; lra).
  assert (H3 : x * (- u24) <= x * eps) by (apply Rmult_le_compat_l; lra).
  apply Rabs_le. rewrite Hr.
  replace (x * (1 + eps) + et - x) with (x * eps + et) by ring.
  rewrite <- Ropp_mult_distr_r in H3. split; lra.
Qed.

Lemma fmt_1 : fmt 1.
Proof. apply (fmt_int 1). lia. Qed.

Lemma no_ovf01 : forall x, 0 <= x <= 1 -> Rabs (rnd x) < MAXF.
Proof.
  intros x Hx. apply lt_MAXF.
  pose proof (rnd_bounds 0 1 x fmt_0 fmt_1 Hx) as H.
  rewrite Rabs_pos_eq by lra. lra.
Qed.

(** * The sequential f32 sum *)

Lemma fsum_snoc : forall l x, fsum (l ++ [x]) = fadd (fsum l) x.
Proof. intros l x. unfold fsum. rewrite fold_left_app. reflexivity. Qed.

Lemma fsum_spec : forall l : list f32, Forall sample_ok l -> (Z.of_nat (length l) <= 4096)%Z ->
  fin (fsum l) /\ 0 <= R32 (fsum l) <= INR (length l) /\
  Rabs (R32 (fsum l) - sumR l)
    <= INR (length l) * (INR (length l) + 1) / 2 * u24 + INR (length l) * eta150.
Proof.
  induction l as [|x l IH] using rev_ind; intros HF Hlen.
  - change (fsum []) with f_n0. change (R32 f_n0) with 0. rewrite sumR_nil.
    cbn [length INR]. split; [reflexivity|]. split; [lra|].
    rewrite Rminus_0_r, Rabs_R0. lra.
  - apply Forall_app in HF. destruct HF as [HFl HFx].
    pose proof (Forall_inv HFx) as [Fx Hx].
    rewrite app_length in Hlen |- *. cbn [length] in Hlen |- *.
    rewrite Nat.add_1_r, S_INR.
    destruct (IH HFl ltac:(lia)) as (Fs & Hs & Es).
    assert (Hk : INR (length l) + 1 <= 4096).
    { rewrite <- S_INR, INR_IZR_INZ. apply IZR_le. lia. }
    assert (Fk1 : fmt (INR (length l) + 1)).
    { rewrite <- S_INR, INR_IZR_INZ. apply fmt_int. lia. }
    set (k := INR (length l)) in *.
    rewrite fsum_snoc.
    assert (Hz : 0 <= R32 (fsum l) + R32 x <= k + 1) by lra.
    pose proof (rnd_bounds 0 (k + 1) _ fmt_0 Fk1 Hz) as Hr.
    destruct (fadd_correct (fsum l) x Fs Fx) as [Va Fa].
    { apply lt_MAXF. rewrite Rabs_pos_eq by lra. lra. }
    split; [exact Fa|]. rewrite Va. split; [exact Hr|].
    rewrite sumR_app, sumR_cons, sumR_nil.
    pose proof (rnd_err _ (k + 1) Hz) as E1.
    apply Rabs_le_inv in E1. apply Rabs_le_inv in Es. apply Rabs_le.
    replace ((k + 1) * (k + 1 + 1) / 2 * u24 + (k + 1) * eta150)
      with ((k * (k + 1) / 2 * u24 + k * eta150) + ((k + 1) * u24 + eta150)) by field.
    split; lra.
Qed.

(** * The mean *)

Lemma mean_spec : forall (l : list f32) (k : Z),
  Forall sample_ok l -> Z.of_nat (length l) = k -> (1 <= k <= 4096)%Z ->
  fin (fdiv (fsum l) (of_Z k)) /\ 0 <= R32 (fdiv (fsum l) (of_Z k)) <= 1 /\
  Rabs (R32 (fdiv (fsum l) (of_Z k)) - mean_R l) <= (IZR k + 3) / 2 * u24 + 2 * eta150.
Proof.
  intros l k HF Hlen Hk.
  destruct (fsum_spec l HF ltac:(lia)) as (Fs & Hs & Es).
  destruct (fin_R32_of_Z_small k ltac:(lia)) as [Vk Fk].
  assert (Hn : INR (length l) = IZR k) by (rewrite INR_IZR_INZ, Hlen; reflexivity).
  rewrite Hn in Hs, Es.
  assert (Hk1 : 1 <= IZR k) by (apply IZR_le; lia).
  rewrite mean_R_eq, Hn.
  set (n := IZR k) in *. set (s := R32 (fsum l)) in *.
  assert (Hi : 0 < / n) by (apply Rinv_0_lt_compat; lra).
  assert (Hq : 0 <= s / n <= 1).
  { split.
    - apply Rmult_le_pos; lra.
    - apply Rmult_le_reg_r with n; [lra|].
      unfold Rdiv. rewrite Rmult_assoc, Rinv_l by lra. lra. }
  destruct (fdiv_correct (fsum l) (of_Z k) Fs Fk) as [Vm Fm].
  { rewrite Vk. fold n. lra. }
  { rewrite Vk. fold s n. apply no_ovf01. exact Hq. }
  rewrite Vk in Vm. fold s n in Vm.
  split; [exact Fm|]. rewrite Vm. split.
  - apply rnd_bounds; [apply fmt_0 | apply fmt_1 | exact Hq].
  - pose proof (rnd_err (s / n) 1 Hq) as E1.
    assert (E2 : Rabs (s / n - sumR l / n) <= (n + 1) / 2 * u24 + eta150).
    { replace (s / n - sumR l / n) with ((s - sumR l) * / n) by (field; lra).
      rewrite Rabs_mult, (Rabs_pos_eq (/ n)) by lra.
      apply Rmult_le_reg_r with n; [lra|].
      rewrite Rmult_assoc, Rinv_l, Rmult_1_r by lra.
      eapply Rle_trans; [exact Es|]. apply Req_le. field. }
    apply Rabs_le_inv in E1. apply Rabs_le_inv in E2. apply Rabs_le.
    split; lra.
Qed.

(** * The correction, over the reals *)

Lemma corr_rnd : forall m e, fmt m -> 0 <= m <= 1 -> 0 <= e <= 1 ->
  let sq := rnd (m * m) in
  let d := rnd (m - sq) in
  let t := rnd (d * e) in
  let v := rnd (m - t) in
  0 <= sq <= m /\ 0 <= d <= m /\ 0 <= t <= m /\ 0 <= v <= m /\
  Rabs (v - corr_R e m) <= 4 * (u24 + eta150).
Proof.
  intros m e Fm Hm He sq d t v.
  assert (Hmm : 0 <= m * m <= m).
  { split; [apply Rmult_le_pos; lra|].
    rewrite <- (Rmult_1_r m) at 3. apply Rmult_le_compat_l; lra. }
  assert (Hsq : 0 <= sq <= m) by (apply rnd_bounds; [apply fmt_0 | exact Fm | exact Hmm]).
  assert (Hd : 0 <= d <= m) by (apply rnd_bounds; [apply fmt_0 | exact Fm | lra]).
  assert (Hde : 0 <= d * e <= m).
  { split; [apply Rmult_le_pos; lra|].
    apply Rle_trans with (d * 1); [apply Rmult_le_compat_l; lra | lra]. }
  assert (Ht : 0 <= t <= m) by (apply rnd_bounds; [apply fmt_0 | exact Fm | exact Hde]).
  assert (Hv : 0 <= v <= m) by (apply rnd_bounds; [apply fmt_0 | exact Fm | lra]).
  repeat (split; [assumption|]).
  pose proof (rnd_err (m * m) 1 ltac:(lra)) as E1. change (rnd (m * m)) with sq in E1.
  pose proof (rnd_err (m - sq) 1 ltac:(lra)) as E2. change (rnd (m - sq)) with d in E2.
  pose proof (rnd_err (d * e) 1 ltac:(lra)) as E3. change (rnd (d * e)) with t in E3.
  pose proof (rnd_err (m - t) 1 ltac:(lra)) as E4. change (rnd (m - t)) with v in E4.
  rewrite Rmult_1_l in E1, E2, E3, E4.
  set (c := u24 + eta150) in *.
  clearbody sq d t v.
  set (d1 := sq - m * m) in *. set (d2 := d - (m - sq)) in *.
  set (d3 := t - d * e) in *. set (d4 := v - (m - t)) in *.
  replace (v - corr_R e m) with ((d1 - d2) * e - d3 + d4)
    by (unfold corr_R, d1, d2, d3, d4; ring).
  apply Rabs_le_inv in E1. apply Rabs_le_inv in E2.
  apply Rabs_le_inv in E3. apply Rabs_le_inv in E4.
  assert (Hc : 0 <= c) by (unfold c; pose proof u_pos; pose proof eta_pos; lra).
  assert (Hx : - (2 * c) <= (d1 - d2) * e <= 2 * c).
  { assert (A1 : 0 <= (2 * c - (d1 - d2)) * e) by (apply Rmult_le_pos; lra).
    assert (A2 : 0 <= (2 * c + (d1 - d2)) * e) by (apply Rmult_le_pos; lra).
    assert (A3 : 0 <= 2 * c * (1 - e)) by (apply Rmult_le_pos; lra).
    split; lra. }
  apply Rabs_le. split; lra.
Qed.

(** * The stored value of a capture window *)

Lemma in_skipn_sub : forall (n : nat) (l : list f32) x, In x (skipn n l) -> In x l.
Proof. intros n l x H. rewrite <- (firstn_skipn n l). apply in_or_app. now right. Qed.

Lemma in_firstn_sub : forall (n : nat) (l : list f32) x, In x (firstn n l) -> In x l.
Proof. intros n l x H. rewrite <- (firstn_skipn n l). apply in_or_app. now left. Qed.

Lemma current_run_rev_sub : forall inr l x, In x (current_run_rev inr l) -> In x l.
Proof.
  intros inr l x. induction l as [|a l IH]; cbn [current_run_rev]; [easy|].
  destruct (inr a); [|easy]. intros [H|H]; [left; exact H | right; auto].
Qed.

Lemma current_run_sub : forall inr l x, In x (current_run inr l) -> In x l.
Proof.
  intros inr l x H. unfold current_run in H. rewrite <- in_rev in H.
  apply current_run_rev_sub in H. rewrite <- in_rev in H. exact H.
Qed.

Lemma window_ok : forall r0 samples,
  Forall sample_ok samples -> Forall sample_ok (window r0 samples).
Proof.
  intros r0 samples H. rewrite Forall_forall in *. intros x Hx. apply H.
  unfold window, lastn in Hx. apply in_skipn_sub in Hx. apply current_run_sub in Hx. exact Hx.
Qed.

Lemma window_value_spec : forall r0 (W : list f32) (k : Z),
  k = (Z.of_nat (rb_cap r0) - rb_discard r0)%Z ->
  fin (rb_err r0) -> 0 <= R32 (rb_err r0) <= 1 ->
  (1 <= k <= 4096)%Z -> Forall sample_ok W -> (Z.to_nat k <= length W)%nat ->
  fin (window_value r0 W) /\ 0 <= R32 (window_value r0 W) <= 1 /\
  Rabs (R32 (window_value r0 W) - corr_R (R32 (rb_err r0)) (mean_R (firstn (Z.to_nat k) W)))
    <= (IZR k + 16) * u24.
Proof.
  intros r0 W k Ek Fe He Hk HF Hlen.
  unfold window_value, error_estimate. cbv zeta. rewrite <- Ek.
  set (l := firstn (Z.to_nat k) W).
  assert (HFl : Forall sample_ok l).
  { rewrite Forall_forall in *. intros x Hx. apply HF. exact (in_firstn_sub _ _ _ Hx). }
  assert (Hl : Z.of_nat (length l) = k).
  { unfold l. rewrite firstn_length_le by exact Hlen. lia. }
  destruct (mean_spec l k HFl Hl Hk) as (Fm & Hm & Em).
  set (m := fdiv (fsum l) (of_Z k)) in *.
  set (e := rb_err r0) in *.
  pose proof (corr_rnd (R32 m) (R32 e) (fmt_R32 m) Hm He) as C. cbv zeta in C.
  destruct C as (Hsq & Hd & Ht & Hv & Herr).
  destruct (fmul_correct m m Fm Fm) as [Vsq Fsq].
  { apply no_ovf01. split; [apply Rmult_le_pos; lra|].
    apply Rle_trans with (R32 m * 1); [apply Rmult_le_compat_l; lra | lra]. }
  destruct (fsub_correct m (fmul m m) Fm Fsq) as [Vd Fd].
  { rewrite Vsq. apply no_ovf01. lra. }
  rewrite Vsq in Vd.
  destruct (fmul_correct (fsub m (fmul m m)) e Fd Fe) as [Vt Ft].
  { rewrite Vd. apply no_ovf01. split; [apply Rmult_le_pos; lra|].
    apply Rle_trans with (rnd (R32 m - rnd (R32 m * R32 m)) * 1);
      [apply Rmult_le_compat_l; lra | lra]. }
  rewrite Vd in Vt.
  destruct (fsub_correct m (fmul (fsub m (fmul m m)) e) Fm Ft) as [Vv Fv].
  { rewrite Vt. apply no_ovf01. lra. }
  rewrite Vt in Vv.
  split; [exact Fv|]. rewrite Vv. split; [lra|].
  assert (HM : 0 <= mean_R l <= 1).
  { apply mean_bounds.
    - intros E0. rewrite E0 in Hl. cbn [length] in Hl. lia.
    - intros x Hx. rewrite Forall_forall in HFl. destruct (HFl x Hx) as [_ Hx']. exact Hx'. }
  pose proof (corr_lip (R32 e) (R32 m) (mean_R l) _ He Hm HM Em) as L.
  apply Rabs_le_inv in Herr. apply Rabs_le_inv in L. apply Rabs_le.
  pose proof eta_le_u; pose proof eta_pos; pose proof u_pos.
  split; lra.
Qed.

(** while pressing, the window holds exactly [cap] samples *)
Lemma window_length : forall cap fs sp dr pu samples, (0 < cap)%nat ->
  rb_pressing (polls (ribbon_new cap fs sp dr pu) samples) = true ->
  length (window (ribbon_new cap fs sp dr pu) samples) = cap.
Proof.
  intros cap fs sp dr pu samples Hcap Hp.
  rewrite press_spec in Hp by exact Hcap. cbv zeta in Hp. apply Z.leb_le in Hp.
  rewrite run_len_length in Hp.
  pose proof (skip_nonneg (rb_ignore (ribbon_new cap fs sp dr pu))) as Hs.
  unfold window, lastn. rewrite skipn_length.
  change (rb_cap (ribbon_new cap fs sp dr pu)) with cap. lia.
Qed.

Lemma cap_le_Z : forall cap : nat, (cap <= 4096)%nat -> (Z.of_nat cap <= 4096)%Z.
Proof.
  intros cap H. apply Nat2Z.inj_le in H. exact H.
Qed.

Lemma value_is_corrected_mean : forall cap fs sp dr pu samples,
  let r0 := ribbon_new cap fs sp dr pu in
  config_ok r0 -> Forall sample_ok samples ->
  rb_pressing (polls r0 samples) = true ->
  let W := firstn (Z.to_nat (Z.of_nat cap - rb_discard r0)) (window r0 samples) in
  (Rabs (R32 (rb_val (polls r0 samples)) - corr_R (R32 (rb_err r0)) (mean_R W)) <= tau r0)%R.
Proof.
  intros cap fs sp dr pu samples r0 Hc HF Hp W.
  destruct Hc as (Fb & Hb & Fe & He & Hd & Hcap0 & Hcap1).
  change (rb_cap r0) with cap in Hd, Hcap0, Hcap1.
  apply cap_le_Z in Hcap1.
  assert (Hvw : rb_val (polls r0 samples) = window_value r0 (window r0 samples))
    by exact (value_window cap fs sp dr pu samples Hcap0 Hp).
  assert (Hlen : length (window r0 samples) = cap)
    by exact (window_length cap fs sp dr pu samples Hcap0 Hp).
  rewrite Hvw.
  destruct (window_value_spec r0 (window r0 samples) (Z.of_nat cap - rb_discard r0)%Z
              eq_refl Fe He) as (_ & _ & Herr).
  { lia. }
  { apply window_ok, HF. }
  { rewrite Hlen. lia. }
  fold W in Herr.
  eapply Rle_trans; [exact Herr|]. unfold tau, u24. change (rb_cap r0) with cap.
  assert (IZR (Z.of_nat cap - rb_discard r0) <= INR cap).
  { rewrite INR_IZR_INZ. apply IZR_le. lia. }
  lra.
Qed.

(** * The range of [value()] *)

(** the stored value is a finite number in [0, 1] after every history *)
Lemma val_ok : forall cap fs sp dr pu samples,
  let r0 := ribbon_new cap fs sp dr pu in
  config_ok r0 -> Forall sample_ok samples ->
  fin (rb_val (polls r0 samples)) /\ 0 <= R32 (rb_val (polls r0 samples)) <= 1.
Proof.
  intros cap fs sp dr pu samples r0 Hc.
  destruct Hc as (Fb & Hb & Fe & He & Hd & Hcap0 & Hcap1).
  change (rb_cap r0) with cap in Hd, Hcap0, Hcap1.
  apply cap_le_Z in Hcap1.
  induction samples as [|x samples IH] using rev_ind; intros HF.
  - change (rb_val (polls r0 [])) with f_0. split; [exact fin_f_0|]. rewrite R32_f_0. lra.
  - destruct (rb_pressing (polls r0 (samples ++ [x]))) eqn:Hp.
    + assert (Hvw : rb_val (polls r0 (samples ++ [x]))
                    = window_value r0 (window r0 (samples ++ [x])))
        by exact (value_window cap fs sp dr pu (samples ++ [x]) Hcap0 Hp).
      assert (Hlen : length (window r0 (samples ++ [x])) = cap)
        by exact (window_length cap fs sp dr pu (samples ++ [x]) Hcap0 Hp).
      rewrite Hvw.
      destruct (window_value_spec r0 (window r0 (samples ++ [x]))
                  (Z.of_nat cap - rb_discard r0)%Z eq_refl Fe He) as (Fv & Hv & _).
      { lia. }
      { apply window_ok, HF. }
      { rewrite Hlen. lia. }
      split; assumption.
    + assert (Hr : rb_val (polls r0 (samples ++ [x])) = rb_val (polls r0 samples))
        by exact (value_retained cap fs sp dr pu samples x Hcap0 Hp).
      rewrite Hr. apply IH. apply Forall_app in HF. apply HF.
Qed.

Lemma pos_sign : forall x : f32, fin x -> 0 < R32 x -> Bsign x = false.
Proof.
  intros [s|s| |s m e H] Fx Hx; unfold fin in Fx; cbn [is_finite] in Fx; try discriminate Fx.
  - unfold R32 in Hx. cbn [B2R] in Hx. lra.
  - destruct s; [exfalso | reflexivity].
    unfold R32 in Hx. cbn [B2R cond_Zopp Z.opp] in Hx.
    pose proof (F2R_lt_0 radix2 (Float radix2 (Z.neg m) e) ltac:(reflexivity)) as Hn. lra.
Qed.

Lemma B2SF_inf : forall (x : f32) s, B2SF x = S754_infinity s -> x = B754_infinity s.
Proof.
  intros [sx|sx| |sx mx ex Hx] s H; cbn [B2SF] in H; try discriminate H.
  injection H as ->. reflexivity.
Qed.

Lemma MAXF_pos : 0 < MAXF.
Proof. rewrite MAXF_val. lra. Qed.

(** [value()]: the division may overflow to +infinity (tiny boundary); [min(_, 1.0)]
    brings it back to 1 *)
Lemma value_clip : forall v b : f32, fin v -> 0 <= R32 v -> fin b -> 0 < R32 b ->
  fin (fmin (fdiv v b) f_1) /\ 0 <= R32 (fmin (fdiv v b) f_1) <= 1.
Proof.
  intros v b Fv Hv Fb Hb.
  assert (Hi : 0 < / R32 b) by (apply Rinv_0_lt_compat; lra).
  assert (Hq : 0 <= R32 v / R32 b) by (apply Rmult_le_pos; lra).
  destruct (Rlt_dec (Rabs (rnd (R32 v / R32 b))) MAXF) as [Hlt|Hge].
  - destruct (fdiv_correct v b Fv Fb ltac:(lra) Hlt) as [Vq Fq].
    destruct (fmin_fin _ f_1 Fq fin_f_1) as [Fm Vm].
    split; [exact Fm|]. rewrite Vm, Vq, R32_f_1.
    pose proof (rnd_ge_0 _ Hq) as H0.
    unfold Rmin. destruct (Rle_dec _ _); lra.
  - assert (Hvpos : 0 < R32 v).
    { destruct (Req_dec (R32 v) 0) as [E|E]; [|lra]. exfalso. apply Hge.
      rewrite E. unfold Rdiv. rewrite Rmult_0_l, rnd_0, Rabs_R0. exact MAXF_pos. }
    assert (E : fdiv v b = B754_infinity false).
    { apply B2SF_inf.
      pose proof (pos_sign v Fv Hvpos) as Sv. pose proof (pos_sign b Fb Hb) as Sb.
      assert (Hnz : B2R b <> 0) by (unfold R32 in Hb; lra).
      generalize (Bdiv_correct prec emax Hprec Hmax mode_NE v b Hnz).
      rewrite fexp_is_fexp32. change (round radix2 fexp32 (round_mode mode_NE)) with rnd.
      change (bpow radix2 emax) with MAXF.
      rewrite Rlt_bool_false by (unfold R32 in Hge; lra).
      rewrite Sv, Sb. intros H. exact H. }
    rewrite E.
    assert (E1 : fmin (B754_infinity false) f_1 = f_1).
    { unfold fmin. cbn [is_nan]. rewrite (fin_not_nan _ fin_f_1).
      rewrite flt_inf_r by exact fin_f_1. reflexivity. }
    rewrite E1. split; [exact fin_f_1|]. rewrite R32_f_1. lra.
Qed.

Lemma value_range : forall cap fs sp dr pu samples,
  let r0 := ribbon_new cap fs sp dr pu in
  config_ok r0 -> Forall sample_ok samples ->
  let r := polls r0 samples in
  fin (ribbon_value r) /\ (0 <= R32 (ribbon_value r) <= 1)%R.
Proof.
  intros cap fs sp dr pu samples r0 Hc HF r.
  destruct (val_ok cap fs sp dr pu samples Hc HF) as [Fv Hv]. fold r0 in Fv, Hv. fold r in Fv, Hv.
  destruct Hc as (Fb & Hb & _ & _ & _ & Hcap0 & _).
  change (rb_cap r0) with cap in Hcap0.
  assert (Eb : rb_boundary r = rb_boundary r0).
  { pose proof (rinv_new cap fs sp dr pu samples Hcap0) as H.
    destruct H as (_ & H & _). exact H. }
  unfold ribbon_value. rewrite Eb.
  apply value_clip; try assumption; lra.
Qed.

Print Assumptions value_range.
Print Assumptions value_is_corrected_mean.
Print Assumptions corrected_mean_between.
Print Assumptions corrected_mean_monotone.
