(** Proofs for Props/C02.v: the ADSR clock (phase accumulator) -- phases advance in
    order and last the configured time. *)
From Coq Require Import ZArith Reals Lia Lra Psatz Bool List.
Import ListNotations.
From Flocq Require Import Core IEEE754.BinarySingleNaN Relative.
From SU Require Import F32 F32Lemmas.
From SU.gen Require Import Consts.
From SU.Model Require Import Utils PhaseAcc Tables Adsr.
From SU.Spec Require Import AdsrSpec.
From SU.Proofs Require Import ClampProofs.
Open Scope R_scope.

(** * Discrete part *)

Lemma two_tot_val : two_tot TOT = 16777216%Z.
Proof. reflexivity. Qed.

Lemma mask_val : mask TOT = 16777215%Z.
Proof. reflexivity. Qed.

Lemma land_mask : forall x : Z, Z.land x 16777215 = (x mod 16777216)%Z.
Proof.
  intros x. change 16777215%Z with (Z.ones 24). rewrite Z.land_ones by lia. reflexivity.
Qed.

(** ** one accumulator tick *)

Lemma pa_tick_range : forall p,
  let p' := pa_tick TOT p in
  pa_fs p' = pa_fs p /\ pa_inc p' = pa_inc p /\ pa_last p' = pa_acc p' /\
  (0 <= pa_acc p' < 16777216)%Z.
Proof.
  intros p p'. subst p'. unfold pa_tick. cbn [pa_fs pa_inc pa_last pa_acc].
  rewrite mask_val, land_mask.
  repeat split; try reflexivity; apply Z.mod_pos_bound; lia.
Qed.

Lemma pa_tick_spec : forall p,
  (0 <= pa_acc p < 16777216)%Z -> pa_last p = pa_acc p -> pa_rolled p = false ->
  (0 <= pa_inc p <= 4278190080)%Z ->
  let p' := pa_tick TOT p in
  if (pa_acc p + pa_inc p <? 16777216)%Z
  then pa_acc p' = (pa_acc p + pa_inc p)%Z /\ pa_rolled p' = false
  else pa_rolled p' = true.
Proof.
  intros p Hacc Hlast Hroll Hinc p'. subst p'. unfold pa_tick.
  cbn [pa_rolled pa_acc]. rewrite mask_val, land_mask, Hlast, Hroll.
  change (2 ^ 32)%Z with 4294967296%Z.
  rewrite (Z.mod_small (pa_acc p + pa_inc p) 4294967296) by lia.
  destruct (pa_acc p + pa_inc p <? 16777216)%Z eqn:E.
  - apply Z.ltb_lt in E.
    rewrite Z.mod_small by lia.
    assert (E1 : (16777215 <? pa_acc p + pa_inc p)%Z = false) by (apply Z.ltb_ge; lia).
    assert (E2 : (pa_acc p + pa_inc p <? pa_acc p)%Z = false) by (apply Z.ltb_ge; lia).
    rewrite E1, E2. split; reflexivity.
  - apply Z.ltb_ge in E.
    assert (E1 : (16777215 <? pa_acc p + pa_inc p)%Z = true) by (apply Z.ltb_lt; lia).
    rewrite E1. reflexivity.
Qed.

(** ** the increment installed by a tick is [adsr_inc] *)

Lemma set_period_inc : forall s,
  pa_inc (pa_set_period TOT (a_pa s) (period_of s)) = adsr_inc s.
Proof. intros s. reflexivity. Qed.

Lemma adsr_inc_range : forall s, (0 <= adsr_inc s <= 4294967295)%Z.
Proof. intros s. unfold adsr_inc, inc_of. apply to_u32_range. Qed.

Lemma tick_advance_timed : forall s, timed (a_state s) = true ->
  tick_advance s =
    let p2 := pa_tick TOT (pa_set_period TOT (a_pa s) (period_of s)) in
    if pa_rolled p2
    then with_pa_state s (pa_reset (snd (pa_take_rolled p2))) (next_phase (a_state s))
    else with_pa_state s (snd (pa_take_rolled p2)) (a_state s).
Proof. intros s H. unfold tick_advance. rewrite H. reflexivity. Qed.

Lemma tick_advance_untimed : forall s, timed (a_state s) = false -> tick_advance s = s.
Proof. intros s H. unfold tick_advance. rewrite H. reflexivity. Qed.

(** parameters are not changed by a tick *)
Lemma tick_params : forall s,
  let s' := adsr_step s ATick in
  a_attack s' = a_attack s /\ a_decay s' = a_decay s /\ a_release s' = a_release s /\
  pa_fs (a_pa s') = pa_fs (a_pa s).
Proof.
  intros s s'. subst s'. unfold adsr_step, adsr_tick.
  destruct (timed (a_state s)) eqn:T.
  - rewrite (tick_advance_timed s T). cbv zeta.
    destruct (pa_rolled _); repeat split; reflexivity.
  - rewrite (tick_advance_untimed s T). repeat split; reflexivity.
Qed.

(** ** the invariant *)

Lemma time_from_in : forall x, fin_in (time_from x) (R32 MIN_TIME) (R32 MAX_TIME).
Proof.
  intros x. destruct (time_clamp x) as (HF & HB & _). split; assumption.
Qed.

Lemma InvC_new : forall fs, InvC (adsr_new fs).
Proof.
  intros fs. constructor; unfold adsr_new; cbn [a_attack a_decay a_release a_pa a_state];
    try apply time_from_in; unfold pa_new; cbn [pa_acc pa_last pa_rolled];
    try reflexivity; try lia.
Qed.

Lemma InvC_tick : forall s, InvC s -> InvC (adsr_step s ATick).
Proof.
  intros s I.
  destruct (tick_params s) as (Ea & Ed & Er & _).
  assert (Hpa : (0 <= pa_acc (a_pa (adsr_step s ATick)) < 16777216)%Z /\
                pa_last (a_pa (adsr_step s ATick)) = pa_acc (a_pa (adsr_step s ATick)) /\
                pa_rolled (a_pa (adsr_step s ATick)) = false /\
                (timed (a_state (adsr_step s ATick)) = false ->
                 pa_acc (a_pa (adsr_step s ATick)) = 0%Z)).
  { unfold adsr_step, adsr_tick; cbn [with_value a_pa a_state].
    destruct (timed (a_state s)) eqn:T.
    - rewrite (tick_advance_timed s T); cbv zeta.
      destruct (pa_tick_range (pa_set_period TOT (a_pa s) (period_of s))) as (_ & _ & Hl & Ha).
      destruct (pa_rolled (pa_tick TOT (pa_set_period TOT (a_pa s) (period_of s)))) eqn:Ro;
        cbn [with_pa_state a_pa a_state pa_reset pa_take_rolled snd pa_acc pa_last pa_rolled].
      + repeat split; try reflexivity; lia.
      + repeat split; try assumption; try reflexivity; try lia.
        intros T'. rewrite T' in T. discriminate.
    - rewrite (tick_advance_untimed s T).
      repeat split; try apply I. }
  destruct Hpa as (H1 & H2 & H3 & H4).
  constructor; [rewrite Ea; apply I | rewrite Ed; apply I | rewrite Er; apply I | | | |];
    assumption.
Qed.

Lemma InvC_gate_on : forall s, InvC s -> InvC (adsr_step s AGateOn).
Proof.
  intros s I. unfold adsr_step, adsr_gate_on.
  destruct (a_state s) eqn:St; try exact I;
    constructor; cbn [a_attack a_decay a_release a_pa a_state pa_reset pa_acc pa_last pa_rolled];
    try apply I; try reflexivity; try lia.
Qed.

Lemma InvC_gate_off : forall s, InvC s -> InvC (adsr_step s AGateOff).
Proof.
  intros s I. unfold adsr_step, adsr_gate_off.
  destruct (a_state s) eqn:St; try exact I;
    constructor; cbn [a_attack a_decay a_release a_pa a_state pa_reset pa_acc pa_last pa_rolled];
    try apply I; try reflexivity; try lia.
Qed.

Lemma InvC_step : forall s o, InvC s -> InvC (adsr_step s o).
Proof.
  intros s o I. destruct o.
  - apply InvC_tick, I.
  - apply InvC_gate_on, I.
  - apply InvC_gate_off, I.
  - constructor; cbn [adsr_step adsr_set a_attack a_decay a_release a_pa a_state];
      try apply time_from_in; apply I.
  - constructor; cbn [adsr_step adsr_set a_attack a_decay a_release a_pa a_state];
      try apply time_from_in; apply I.
  - constructor; cbn [adsr_step adsr_set a_attack a_decay a_release a_pa a_state]; apply I.
  - constructor; cbn [adsr_step adsr_set a_attack a_decay a_release a_pa a_state];
      try apply time_from_in; apply I.
Qed.

Lemma InvC_fold : forall ops s, InvC s -> InvC (fold_left adsr_step ops s).
Proof.
  induction ops as [|o ops IH]; intros s I; cbn [fold_left].
  - exact I.
  - apply IH, InvC_step, I.
Qed.

Lemma adsr_inv_clock : forall fs ops, InvC (adsr_run fs ops).
Proof. intros fs ops. unfold adsr_run. apply InvC_fold, InvC_new. Qed.

(** ** gate and parameter events *)

Lemma gate_on_spec : forall s,
  a_state (adsr_step s AGateOn) = Attack /\
  (a_state s = Attack -> adsr_step s AGateOn = s) /\
  (a_state s <> Attack -> pa_acc (a_pa (adsr_step s AGateOn)) = 0%Z).
Proof.
  intros s. unfold adsr_step, adsr_gate_on.
  destruct (a_state s) eqn:St; repeat split; try reflexivity; try assumption;
    try (intros H; discriminate H); try (intros H; exfalso; apply H; reflexivity).
Qed.

Lemma gate_off_spec : forall s,
  match a_state s with
  | Attack | Decay | Sustain =>
      a_state (adsr_step s AGateOff) = Release /\ pa_acc (a_pa (adsr_step s AGateOff)) = 0%Z
  | Release | AtRest => adsr_step s AGateOff = s
  end.
Proof.
  intros s. unfold adsr_step, adsr_gate_off.
  destruct (a_state s) eqn:St; try reflexivity; split; reflexivity.
Qed.

Lemma set_input_spec : forall s o,
  match o with ATick | AGateOn | AGateOff => False | _ => True end ->
  a_state (adsr_step s o) = a_state s /\ a_pa (adsr_step s o) = a_pa s.
Proof.
  intros s o H. destruct o; try contradiction; split; reflexivity.
Qed.

(** ** a tick *)

Lemma tick_spec : forall s, InvC s -> (adsr_inc s <= 4278190080)%Z ->
  let s' := adsr_step s ATick in
  if timed (a_state s) then
    if (pa_acc (a_pa s) + adsr_inc s <? 16777216)%Z
    then a_state s' = a_state s /\ pa_acc (a_pa s') = (pa_acc (a_pa s) + adsr_inc s)%Z
    else a_state s' = next_phase (a_state s) /\ pa_acc (a_pa s') = 0%Z
  else a_state s' = a_state s /\ pa_acc (a_pa s') = 0%Z.
Proof.
  intros s I Hinc s'. subst s'. unfold adsr_step, adsr_tick. cbn [with_value a_pa a_state].
  destruct (timed (a_state s)) eqn:T.
  - rewrite (tick_advance_timed s T). cbv zeta.
    set (p1 := pa_set_period TOT (a_pa s) (period_of s)).
    assert (Hspec := pa_tick_spec p1).
    assert (Ei : pa_inc p1 = adsr_inc s) by apply set_period_inc.
    assert (Ea : pa_acc p1 = pa_acc (a_pa s)) by reflexivity.
    assert (El : pa_last p1 = pa_last (a_pa s)) by reflexivity.
    assert (Er : pa_rolled p1 = pa_rolled (a_pa s)) by reflexivity.
    rewrite Ei, Ea, El, Er in Hspec.
    specialize (Hspec (inv_acc s I) (inv_last s I) (inv_rolled s I)).
    assert (Hr := adsr_inc_range s).
    specialize (Hspec ltac:(lia)). cbv zeta in Hspec.
    destruct (pa_acc (a_pa s) + adsr_inc s <? 16777216)%Z.
    + destruct Hspec as [Hacc Hro]. rewrite Hro.
      cbn [with_pa_state a_pa a_state pa_take_rolled snd pa_acc]. split; [reflexivity|exact Hacc].
    + rewrite Hspec.
      cbn [with_pa_state a_pa a_state pa_take_rolled snd pa_acc pa_reset]. split; reflexivity.
  - rewrite (tick_advance_untimed s T). split; [reflexivity|].
    apply (inv_untimed_acc s I T).
Qed.
