(** Proofs for Props/C02.v: the ADSR clock (phase accumulator) -- phases advance in
    order and last the configured time. *)
From Coq Require Import ZArith Reals Lia Lra Psatz Bool List.
Import ListNotations.
From Flocq Require Import Core IEEE754.BinarySingleNaN Relative.
From SU Require Import F32 F32Lemmas.
From SU.gen Require Import Consts.
From SU.Model Require Import Utils PhaseAcc Tables Adsr.
From SU.Spec Require Import AdsrSpec.
From SU.Proofs Require Import ClampProofs.
Open Scope R_scope.

(** * Discrete part *)

Lemma two_tot_val : two_tot TOT = 16777216%Z.
Proof. reflexivity. Qed.

Lemma mask_val : mask TOT = 16777215%Z.
Proof. reflexivity. Qed.

Lemma land_mask : forall x : Z, Z.land x 16777215 = (x mod 16777216)%Z.
Proof.
  intros x. change 16777215%Z with (Z.ones 24). rewrite Z.land_ones by lia. reflexivity.
Qed.

(** ** one accumulator tick *)

Lemma pa_tick_range : forall p,
  let p' := pa_tick TOT p in
  pa_fs p' = pa_fs p /\ pa_inc p' = pa_inc p /\ pa_last p' = pa_acc p' /\
  (0 <= pa_acc p' < 16777216)%Z.
Proof.
  intros p p'. subst p'. unfold pa_tick. cbn [pa_fs pa_inc pa_last pa_acc].
  rewrite mask_val, land_mask.
  repeat split; try reflexivity; apply Z.mod_pos_bound; lia.
Qed.

Lemma pa_tick_spec : forall p,
  (0 <= pa_acc p < 16777216)%Z -> pa_last p = pa_acc p -> pa_rolled p = false ->
  (0 <= pa_inc p <= 4278190080)%Z ->
  let p' := pa_tick TOT p in
  if (pa_acc p + pa_inc p <? 16777216)%Z
  then pa_acc p' = (pa_acc p + pa_inc p)%Z /\ pa_rolled p' = false
  else pa_rolled p' = true.
Proof.
  intros p Hacc Hlast Hroll Hinc p'. subst p'. unfold pa_tick.
  cbn [pa_rolled pa_acc]. rewrite mask_val, land_mask, Hlast, Hroll.
  change (2 ^ 32)%Z with 4294967296%Z.
  rewrite (Z.mod_small (pa_acc p + pa_inc p) 4294967296) by lia.
  destruct (pa_acc p + pa_inc p <? 16777216)%Z eqn:E.
  - apply Z.ltb_lt in E.
    rewrite Z.mod_small by lia.
    assert (E1 : (16777215 <? pa_acc p + pa_inc p)%Z = false) by (apply Z.ltb_ge; lia).
    assert (E2 : (pa_acc p + pa_inc p <? pa_acc p)%Z = false) by (apply Z.ltb_ge; lia).
    rewrite E1, E2. split; reflexivity.
  - apply Z.ltb_ge in E.
    assert (E1 : (16777215 <? pa_acc p + pa_inc p)%Z = true) by (apply Z.ltb_lt; lia).
    rewrite E1. reflexivity.
Qed.

(** ** the increment installed by a tick is [adsr_inc] *)

Lemma set_period_inc : forall s,
  pa_inc (pa_set_period TOT (a_pa s) (period_of s)) = adsr_inc s.
Proof. intros s. reflexivity. Qed.

Lemma adsr_inc_range : forall s, (0 <= adsr_inc s <= 4294967295)%Z.
Proof. intros s. unfold adsr_inc, inc_of. apply to_u32_range. Qed.

Lemma tick_advance_timed : forall s, timed (a_state s) = true ->
  tick_advance s =
    let p2 := pa_tick TOT (pa_set_period TOT (a_pa s) (period_of s)) in
    if pa_rolled p2
    then with_pa_state s (pa_reset (snd (pa_take_rolled p2))) (next_phase (a_state s))
    else with_pa_state s (snd (pa_take_rolled p2)) (a_state s).
Proof. intros s H. unfold tick_advance. rewrite H. reflexivity. Qed.

Lemma tick_advance_untimed : forall s, timed (a_state s) = false -> tick_advance s = s.
Proof. intros s H. unfold tick_advance. rewrite H. reflexivity. Qed.

(** parameters are not changed by a tick *)
Lemma tick_params : forall s,
  let s' := adsr_step s ATick in
  a_attack s' = a_attack s /\ a_decay s' = a_decay s /\ a_release s' = a_release s /\
  pa_fs (a_pa s') = pa_fs (a_pa s).
Proof.
  intros s s'. subst s'. unfold adsr_step, adsr_tick.
  destruct (timed (a_state s)) eqn:T.
  - rewrite (tick_advance_timed s T). cbv zeta.
    destruct (pa_rolled _); repeat split; reflexivity.
  - rewrite (tick_advance_untimed s T). repeat split; reflexivity.
Qed.

(** ** the invariant *)

Lemma time_from_in : forall x, fin_in (time_from x) (R32 MIN_TIME) (R32 MAX_TIME).
Proof.
  intros x. destruct (time_clamp x) as (HF & HB & _). split; assumption.
Qed.

Lemma InvC_new : forall fs, InvC (adsr_new fs).
Proof.
  intros fs. constructor; unfold adsr_new; cbn [a_attack a_decay a_release a_pa a_state];
    try apply time_from_in; unfold pa_new; cbn [pa_acc pa_last pa_rolled];
    try reflexivity; try lia.
Qed.

Lemma InvC_tick : forall s, InvC s -> InvC (adsr_step s ATick).
Proof.
  intros s I.
  destruct (tick_params s) as (Ea & Ed & Er & _).
  assert (Hpa : (0 <= pa_acc (a_pa (adsr_step s ATick)) < 16777216)%Z /\
                pa_last (a_pa (adsr_step s ATick)) = pa_acc (a_pa (adsr_step s ATick)) /\
                pa_rolled (a_pa (adsr_step s ATick)) = false /\
                (timed (a_state (adsr_step s ATick)) = false ->
                 pa_acc (a_pa (adsr_step s ATick)) = 0%Z)).
  { unfold adsr_step, adsr_tick; cbn [with_value a_pa a_state].
    destruct (timed (a_state s)) eqn:T.
    - rewrite (tick_advance_timed s T); cbv zeta.
      destruct (pa_tick_range (pa_set_period TOT (a_pa s) (period_of s))) as (_ & _ & Hl & Ha).
      destruct (pa_rolled (pa_tick TOT (pa_set_period TOT (a_pa s) (period_of s)))) eqn:Ro;
        cbn [with_pa_state a_pa a_state pa_reset pa_take_rolled snd pa_acc pa_last pa_rolled].
      + repeat split; try reflexivity; lia.
      + repeat split; try assumption; try reflexivity; try lia.
        intros T'. rewrite T' in T. discriminate.
    - rewrite (tick_advance_untimed s T).
      repeat split; try apply I. }
  destruct Hpa as (H1 & H2 & H3 & H4).
  constructor; [rewrite Ea; apply I | rewrite Ed; apply I | rewrite Er; apply I | | | |];
    assumption.
Qed.

Lemma InvC_gate_on : forall s, InvC s -> InvC (adsr_step s AGateOn).
Proof.
  intros s I. unfold adsr_step, adsr_gate_on.
  destruct (a_state s) eqn:St; try exact I;
    constructor; cbn [a_attack a_decay a_release a_pa a_state pa_reset pa_acc pa_last pa_rolled];
    try apply I; try reflexivity; try lia.
Qed.

Lemma InvC_gate_off : forall s, InvC s -> InvC (adsr_step s AGateOff).
Proof.
  intros s I. unfold adsr_step, adsr_gate_off.
  destruct (a_state s) eqn:St; try exact I;
    constructor; cbn [a_attack a_decay a_release a_pa a_state pa_reset pa_acc pa_last pa_rolled];
    try apply I; try reflexivity; try lia.
Qed.

Lemma InvC_step : forall s o, InvC s -> InvC (adsr_step s o).
Proof.
  intros s o I. destruct o.
  - apply InvC_tick, I.
  - apply InvC_gate_on, I.
  - apply InvC_gate_off, I.
  - constructor; cbn [adsr_step adsr_set a_attack a_decay a_release a_pa a_state];
      try apply time_from_in; apply I.
  - constructor; cbn [adsr_step adsr_set a_attack a_decay a_release a_pa a_state];
      try apply time_from_in; apply I.
  - constructor; cbn [adsr_step adsr_set a_attack a_decay a_release a_pa a_state]; apply I.
  - constructor; cbn [adsr_step adsr_set a_attack a_decay a_release a_pa a_state];
      try apply time_from_in; apply I.
Qed.

Lemma InvC_fold : forall ops s, InvC s -> InvC (fold_left adsr_step ops s).
Proof.
  induction ops as [|o ops IH]; intros s I; cbn [fold_left].
  - exact I.
  - apply IH, InvC_step, I.
Qed.

Lemma adsr_inv_clock : forall fs ops, InvC (adsr_run fs ops).
Proof. intros fs ops. unfold adsr_run. apply InvC_fold, InvC_new. Qed.

(** ** gate and parameter events *)

Lemma gate_on_spec : forall s,
  a_state (adsr_step s AGateOn) = Attack /\
  (a_state s = Attack -> adsr_step s AGateOn = s) /\
  (a_state s <> Attack -> pa_acc (a_pa (adsr_step s AGateOn)) = 0%Z).
Proof.
  intros s. unfold adsr_step, adsr_gate_on.
  destruct (a_state s) eqn:St; repeat split; try reflexivity; try assumption;
    try (intros H; discriminate H); try (intros H; exfalso; apply H; reflexivity).
Qed.

Lemma gate_off_spec : forall s,
  match a_state s with
  | Attack | Decay | Sustain =>
      a_state (adsr_step s AGateOff) = Release /\ pa_acc (a_pa (adsr_step s AGateOff)) = 0%Z
  | Release | AtRest => adsr_step s AGateOff = s
  end.
Proof.
  intros s. unfold adsr_step, adsr_gate_off.
  destruct (a_state s) eqn:St; try reflexivity; split; reflexivity.
Qed.

Lemma set_input_spec : forall s o,
  match o with ATick | AGateOn | AGateOff => False | _ => True end ->
  a_state (adsr_step s o) = a_state s /\ a_pa (adsr_step s o) = a_pa s.
Proof.
  intros s o H. destruct o; try contradiction; split; reflexivity.
Qed.

(** ** a tick *)

Lemma tick_spec : forall s, InvC s -> (adsr_inc s <= 4278190080)%Z ->
  let s' := adsr_step s ATick in
  if timed (a_state s) then
    if (pa_acc (a_pa s) + adsr_inc s <? 16777216)%Z
    then a_state s' = a_state s /\ pa_acc (a_pa s') = (pa_acc (a_pa s) + adsr_inc s)%Z
    else a_state s' = next_phase (a_state s) /\ pa_acc (a_pa s') = 0%Z
  else a_state s' = a_state s /\ pa_acc (a_pa s') = 0%Z.
Proof.
  intros s I Hinc s'. subst s'. unfold adsr_step, adsr_tick. cbn [with_value a_pa a_state].
  destruct (timed (a_state s)) eqn:T.
  - rewrite (tick_advance_timed s T). cbv zeta.
    set (p1 := pa_set_period TOT (a_pa s) (period_of s)).
    assert (Hspec := pa_tick_spec p1).
    assert (Ei : pa_inc p1 = adsr_inc s) by apply set_period_inc.
    assert (Ea : pa_acc p1 = pa_acc (a_pa s)) by reflexivity.
    assert (El : pa_last p1 = pa_last (a_pa s)) by reflexivity.
    assert (Er : pa_rolled p1 = pa_rolled (a_pa s)) by reflexivity.
    rewrite Ei, Ea, El, Er in Hspec.
    specialize (Hspec (inv_acc s I) (inv_last s I) (inv_rolled s I)).
    assert (Hr := adsr_inc_range s).
    specialize (Hspec ltac:(lia)). cbv zeta in Hspec.
    destruct (pa_acc (a_pa s) + adsr_inc s <? 16777216)%Z.
    + destruct Hspec as [Hacc Hro]. rewrite Hro.
      cbn [with_pa_state a_pa a_state pa_take_rolled snd pa_acc]. split; [reflexivity|exact Hacc].
    + rewrite Hspec.
      cbn [with_pa_state a_pa a_state pa_take_rolled snd pa_acc pa_reset]. split; reflexivity.
  - rewrite (tick_advance_untimed s T). split; [reflexivity|].
    apply (inv_untimed_acc s I T).
Qed.

(** * Floating-point part: the increment *)

Lemma rnd_rel : forall x, / 1024 <= x ->
  x * (1 - / 16777216) <= rnd x <= x * (1 + / 16777216).
Proof.
  intros x Hx.
  assert (Hpos : 0 < x) by lra.
  assert (Hb : bpow radix2 (-149 + 24 - 1) <= Rabs x).
  { rewrite Rabs_pos_eq by lra.
    apply Rle_trans with (bpow radix2 (-10)).
    - apply bpow_le. lia.
    - assert (E : bpow radix2 (-10) = / 1024) by exact (bpow2_neg 10 eq_refl).
      rewrite E. exact Hx. }
  pose proof (relative_error_N_FLT radix2 (-149) 24 Hprec (fun z => negb (Z.even z)) x Hb) as H.
  change (round radix2 (FLT_exp (-149) 24) (Znearest (fun z => negb (Z.even z))) x)
    with (rnd x) in H.
  rewrite (Rabs_pos_eq x) in H by lra.
  replace (/ 2 * bpow radix2 (- (24) + 1)) with (/ 16777216) in H.
  2:{ assert (E : bpow radix2 (- (24) + 1) = / 8388608) by exact (bpow2_neg 23 eq_refl).
      rewrite E. lra. }
  apply Rabs_le_inv in H. lra.
Qed.

(** scaling by 2^24 is exact (the format has no upper exponent bound) *)
Lemma fmt_scale24 : forall x, fmt x -> fmt (16777216 * x).
Proof.
  intros x Hx. unfold fmt in *.
  apply FLT_format_generic in Hx; [|exact Hprec].
  destruct Hx as [f Hf Hm He].
  apply generic_format_FLT.
  exists (Float radix2 (Fnum f) (Fexp f + 24)).
  - rewrite Hf. unfold F2R. cbn [Fnum Fexp]. rewrite bpow_plus.
    assert (E : bpow radix2 24 = 16777216) by exact (bpow2_pos 24 ltac:(discriminate)).
    rewrite E. ring.
  - exact Hm.
  - cbn [Fexp]. lia.
Qed.

Lemma fmt_268435456 : fmt 268435456.
Proof.
  replace 268435456 with (bpow radix2 28).
  - apply fmt_bpow. lia.
  - exact (bpow2_pos 28 ltac:(discriminate)).
Qed.

(** the float computation of the increment, before truncation *)
Lemma inc_float : forall fs t, fs_ok fs -> fin_in t (R32 MIN_TIME) (R32 MAX_TIME) ->
  let X := 16777216 / (R32 t * R32 fs) in
  let q := fdiv (fmul (of_Z 16777216) (fdiv f_1 t)) fs in
  fin q /\ X * (1 - / 8388608) <= R32 q <= X * (1 + / 4194304) /\
  436 / 100 <= R32 q <= 268435456.
Proof.
  intros fs t [Ffs Bfs] [Ft Bt] X q.
  rewrite R32_MIN_TIME, R32_MAX_TIME in Bt.
  set (T := R32 t) in *. set (F := R32 fs) in *.
  assert (HT : 0 < T) by lra.
  assert (HF : 0 < F) by lra.
  (* r = 1/t *)
  assert (HiT : / 20 <= / T <= 1000).
  { split.
    - apply Rinv_le_contravar; lra.
    - apply Rle_trans with (/ (8589935 / 8589934592)).
      + apply Rinv_le_contravar; lra.
      + rewrite Rinv_div. lra. }
  assert (Hr1 : / T * (1 - / 16777216) <= rnd (/ T) <= / T * (1 + / 16777216)).
  { apply rnd_rel. lra. }
  destruct (fdiv_correct f_1 t fin_f1 Ft) as [Vr Fr].
  { fold T. lra. }
  { apply no_overflow with 1024.
    - apply (fmt_int 1024). lia.
    - rewrite MAXF_val. lra.
    - rewrite R32_f1. fold T. apply Rabs_le. unfold Rdiv. lra. }
  rewrite R32_f1 in Vr. fold T in Vr. unfold Rdiv in Vr. rewrite Rmult_1_l in Vr.
  set (r := fdiv f_1 t) in *.
  (* m = 2^24 * r, exact *)
  destruct (fin_R32_of_Z_small 16777216) as [Vc Fc]; [lia|].
  assert (Hex : rnd (R32 (of_Z 16777216) * R32 r) = 16777216 * R32 r).
  { rewrite Vc. apply rnd_id. apply fmt_scale24. apply fmt_R32. }
  destruct (fmul_correct (of_Z 16777216) r Fc Fr) as [Vm Fm].
  { rewrite Hex. rewrite Vr, MAXF_val. apply Rabs_lt. nra. }
  rewrite Hex in Vm.
  set (m := fmul (of_Z 16777216) r) in *.
  (* q = m / fs *)
  assert (HiF : / 192000 <= / F <= / 100).
  { split; apply Rinv_le_contravar; lra. }
  set (iF := / F) in *. set (iT := / T) in *.
  assert (HX : X = 16777216 * iT * iF).
  { unfold X, iT, iF. field. split; lra. }
  assert (HY : R32 m / F = 16777216 * R32 r * iF).
  { rewrite Vm. unfold Rdiv. reflexivity. }
  assert (HYb : X * (1 - / 16777216) <= R32 m / F <= X * (1 + / 16777216)).
  { rewrite HY, HX, Vr. split.
    - replace (16777216 * iT * iF * (1 - / 16777216))
        with ((16777216 * iF) * (iT * (1 - / 16777216))) by ring.
      replace (16777216 * rnd iT * iF) with ((16777216 * iF) * rnd iT) by ring.
      apply Rmult_le_compat_l; lra.
    - replace (16777216 * iT * iF * (1 + / 16777216))
        with ((16777216 * iF) * (iT * (1 + / 16777216))) by ring.
      replace (16777216 * rnd iT * iF) with ((16777216 * iF) * rnd iT) by ring.
      apply Rmult_le_compat_l; lra. }
  assert (HXb : 4369 / 1000 <= X <= 167772160).
  { rewrite HX. split.
    - apply Rle_trans with (16777216 * / 20 * / 192000); [lra|].
      apply Rmult_le_compat; try lra; try (apply Rmult_le_compat_l; lra).
    - apply Rle_trans with (16777216 * 1000 * / 100); [|lra].
      apply Rmult_le_compat; try lra;
        try (apply Rmult_le_compat_l; lra); try (apply Rmult_le_pos; lra). }
  assert (HYpos : / 1024 <= R32 m / F) by nra.
  assert (Hr2 := rnd_rel (R32 m / F) HYpos).
  destruct (fdiv_correct m fs Fm Ffs) as [Vq Fq].
  { fold F. lra. }
  { fold F. apply no_overflow with 268435456.
    - exact fmt_268435456.
    - rewrite MAXF_val. lra.
    - apply Rabs_le. nra. }
  fold F in Vq. fold q in Vq, Fq.
  split; [exact Fq|].
  rewrite Vq.
  set (Y := R32 m / F) in *.
  assert (HXpos : 0 < X) by lra.
  assert (HYp : 0 < Y) by lra.
  assert (L : X * (1 - / 8388608) <= rnd Y).
  { apply Rle_trans with (Y * (1 - / 16777216)); [|lra].
    apply Rle_trans with (X * (1 - / 16777216) * (1 - / 16777216)).
    - replace (X * (1 - / 16777216) * (1 - / 16777216))
        with (X * ((1 - / 16777216) * (1 - / 16777216))) by ring.
      apply Rmult_le_compat_l; lra.
    - apply Rmult_le_compat_r; lra. }
  assert (U : rnd Y <= X * (1 + / 4194304)).
  { apply Rle_trans with (Y * (1 + / 16777216)); [lra|].
    apply Rle_trans with (X * (1 + / 16777216) * (1 + / 16777216)).
    - apply Rmult_le_compat_r; lra.
    - replace (X * (1 + / 16777216) * (1 + / 16777216))
        with (X * ((1 + / 16777216) * (1 + / 16777216))) by ring.
      apply Rmult_le_compat_l; lra. }
  split; [split; assumption|].
  split; nra.
Qed.

Lemma increment_bounds : forall fs t, fs_ok fs -> fin_in t (R32 MIN_TIME) (R32 MAX_TIME) ->
  let X := 16777216 / (R32 t * R32 fs) in
  X * (1 - / 8388608) - 1 < IZR (inc_of fs t) <= X * (1 + / 4194304) /\
  (4 <= inc_of fs t <= 4278190080)%Z.
Proof.
  intros fs t Hfs Ht X.
  destruct (inc_float fs t Hfs Ht) as (Fq & [L U] & [Lq Uq]).
  fold X in L, U.
  unfold inc_of. rewrite to_u32_fin by exact Fq.
  set (x := R32 (fdiv (fmul (of_Z 16777216) (fdiv f_1 t)) fs)) in *.
  rewrite Ztrunc_floor by lra.
  assert (H1 := Zfloor_lb x). assert (H2 := Zfloor_ub x).
  assert (H4 : (4 <= Zfloor x)%Z) by (apply Zfloor_lub; lra).
  assert (H5 : (Zfloor x <= 268435456)%Z) by (apply le_IZR; lra).
  unfold U32_MAX.
  replace (Z.max 0 (Z.min 4294967295 (Zfloor x))) with (Zfloor x) by lia.
  split; [split; lra | lia].
Qed.

(** * Phase length *)

Lemma ticks_for_spec : forall inc, (0 < inc)%Z ->
  ((ticks_for inc - 1) * inc < 16777216 <= ticks_for inc * inc)%Z.
Proof.
  intros inc Hinc. unfold ticks_for.
  pose proof (Z.div_mod (16777216 + inc - 1) inc ltac:(lia)) as Hd.
  pose proof (Z.mod_pos_bound (16777216 + inc - 1) inc Hinc) as Hm.
  set (q := ((16777216 + inc - 1) / inc)%Z) in *.
  set (r := ((16777216 + inc - 1) mod inc)%Z) in *.
  nia.
Qed.

Lemma ticks_for_lt : forall inc n, (0 < inc)%Z -> (0 <= n)%Z ->
  ((n < ticks_for inc)%Z <-> (n * inc < 16777216)%Z).
Proof.
  intros inc n Hinc Hn. pose proof (ticks_for_spec inc Hinc) as [H1 H2].
  set (k := ticks_for inc) in *. split; intros H; nia.
Qed.

Lemma period_in : forall s, InvC s -> fin_in (period_of s) (R32 MIN_TIME) (R32 MAX_TIME).
Proof.
  intros s I. unfold period_of.
  assert (Hmin : fin_in MIN_TIME (R32 MIN_TIME) (R32 MAX_TIME)).
  { split; [exact fin_MIN_TIME|]. split; [lra|exact MIN_le_MAX]. }
  destruct (a_state s); try exact Hmin; apply I.
Qed.

Lemma adsr_inc_bounds : forall s, InvC s -> fs_ok (pa_fs (a_pa s)) ->
  (4 <= adsr_inc s <= 4278190080)%Z.
Proof.
  intros s I Hfs. unfold adsr_inc.
  apply (increment_bounds (pa_fs (a_pa s)) (period_of s) Hfs (period_in s I)).
Qed.

Lemma adsr_inc_same : forall s s',
  a_attack s' = a_attack s -> a_decay s' = a_decay s -> a_release s' = a_release s ->
  pa_fs (a_pa s') = pa_fs (a_pa s) -> a_state s' = a_state s ->
  adsr_inc s' = adsr_inc s.
Proof.
  intros s s' Ea Ed Er Ef Es. unfold adsr_inc, period_of. rewrite Ea, Ed, Er, Ef, Es. reflexivity.
Qed.

Definition ticks (n : nat) (s : adsr) : adsr := fold_left adsr_step (repeat ATick n) s.

Lemma ticks_S : forall n s, ticks (S n) s = ticks n (adsr_step s ATick).
Proof. intros n s. reflexivity. Qed.

Lemma ticks_snoc : forall n s, ticks (S n) s = adsr_step (ticks n s) ATick.
Proof.
  intros n s. unfold ticks. change (repeat ATick (S n)) with (ATick :: repeat ATick n).
  rewrite repeat_cons, fold_left_app. reflexivity.
Qed.

Lemma ticks_add : forall a b s, ticks (a + b) s = ticks b (ticks a s).
Proof. intros a b s. unfold ticks. rewrite repeat_app, fold_left_app. reflexivity. Qed.

(** while the position stays below 2^24, ticks only add the (constant) increment *)
Lemma run_ticks : forall k s, InvC s -> timed (a_state s) = true ->
  (0 <= adsr_inc s <= 4278190080)%Z ->
  (pa_acc (a_pa s) + Z.of_nat k * adsr_inc s < 16777216)%Z ->
  let s' := ticks k s in
  InvC s' /\ a_state s' = a_state s /\
  a_attack s' = a_attack s /\ a_decay s' = a_decay s /\ a_release s' = a_release s /\
  pa_fs (a_pa s') = pa_fs (a_pa s) /\
  pa_acc (a_pa s') = (pa_acc (a_pa s) + Z.of_nat k * adsr_inc s)%Z.
Proof.
  induction k as [|k IH]; intros s I T Hinc Hlt s'; subst s'.
  - unfold ticks. cbn [repeat fold_left]. split; [exact I|].
    repeat split; try reflexivity. change (Z.of_nat 0) with 0%Z. lia.
  - rewrite ticks_S.
    rewrite Nat2Z.inj_succ in Hlt |- *.
    pose proof (tick_spec s I ltac:(lia)) as Hs. cbv zeta in Hs. rewrite T in Hs.
    assert (E : (pa_acc (a_pa s) + adsr_inc s <? 16777216)%Z = true) by (apply Z.ltb_lt; nia).
    rewrite E in Hs. destruct Hs as [Hst Hacc].
    destruct (tick_params s) as (Ea & Ed & Er & Ef).
    set (s1 := adsr_step s ATick) in *.
    assert (I1 : InvC s1) by (apply InvC_tick; exact I).
    assert (Ei : adsr_inc s1 = adsr_inc s) by (apply adsr_inc_same; assumption).
    destruct (IH s1 I1) as (I2 & Hst2 & Ea2 & Ed2 & Er2 & Ef2 & Hacc2).
    + rewrite Hst. exact T.
    + rewrite Ei. exact Hinc.
    + rewrite Ei, Hacc. lia.
    + rewrite Ei, Hacc in Hacc2.
      split; [exact I2|].
      repeat split; try congruence. rewrite Hacc2. lia.
Qed.

Lemma phase_length_exact : forall s n, InvC s -> fs_ok (pa_fs (a_pa s)) ->
  timed (a_state s) = true -> pa_acc (a_pa s) = 0%Z ->
  let inc := adsr_inc s in
  (0 <= Z.of_nat n < ticks_for inc)%Z ->
  let s' := fold_left adsr_step (repeat ATick n) s in
  a_state s' = a_state s /\ pa_acc (a_pa s') = (Z.of_nat n * inc)%Z /\
  ((Z.of_nat n + 1 = ticks_for inc)%Z ->
   a_state (adsr_step s' ATick) = next_phase (a_state s)).
Proof.
  intros s n I Hfs T Hacc inc Hn s'.
  pose proof (adsr_inc_bounds s I Hfs) as Hinc. fold inc in Hinc.
  assert (Hlt : (Z.of_nat n * inc < 16777216)%Z).
  { apply ticks_for_lt; lia. }
  destruct (run_ticks n s I T) as (I2 & Hst & Ea & Ed & Er & Ef & Hacc2).
  { fold inc. lia. }
  { fold inc. lia. }
  change (ticks n s) with s' in *. fold inc in Hacc2. rewrite Hacc in Hacc2.
  split; [exact Hst|]. split; [rewrite Hacc2; lia|].
  intros Hlast.
  assert (Ei : adsr_inc s' = inc) by (apply adsr_inc_same; assumption).
  pose proof (tick_spec s' I2 ltac:(lia)) as Hs. cbv zeta in Hs.
  rewrite Hst, T, Ei, Hacc2 in Hs.
  pose proof (ticks_for_spec inc ltac:(lia)) as [_ Hge].
  assert (E : (0 + Z.of_nat n * inc + inc <? 16777216)%Z = false).
  { apply Z.ltb_ge. rewrite <- Hlast in Hge. lia. }
  rewrite E in Hs. apply Hs.
Qed.

(** ** liveness *)

Lemma finish_phase : forall s, InvC s -> fs_ok (pa_fs (a_pa s)) -> timed (a_state s) = true ->
  exists n, (1 <= Z.of_nat n <= 4194304)%Z /\
    InvC (ticks n s) /\ a_state (ticks n s) = next_phase (a_state s) /\
    pa_fs (a_pa (ticks n s)) = pa_fs (a_pa s).
Proof.
  intros s I Hfs T.
  pose proof (adsr_inc_bounds s I Hfs) as Hinc.
  pose proof (inv_acc s I) as Ha.
  set (inc := adsr_inc s) in *. set (a := pa_acc (a_pa s)) in *.
  set (m := ((16777216 - a + inc - 1) / inc)%Z).
  assert (Hm : ((m - 1) * inc < 16777216 - a <= m * inc)%Z).
  { pose proof (Z.div_mod (16777216 - a + inc - 1) inc ltac:(lia)) as Hd.
    pose proof (Z.mod_pos_bound (16777216 - a + inc - 1) inc ltac:(lia)) as Hr.
    fold m in Hd. set (r := ((16777216 - a + inc - 1) mod inc)%Z) in *. nia. }
  assert (Hm1 : (1 <= m <= 4194304)%Z) by nia.
  set (k := Z.to_nat (m - 1)).
  assert (Hk : Z.of_nat k = (m - 1)%Z) by (unfold k; apply Z2Nat.id; lia).
  exists (S k).
  split; [rewrite Nat2Z.inj_succ; lia|].
  destruct (run_ticks k s I T) as (I2 & Hst & Ea & Ed & Er & Ef & Hacc2).
  { fold inc. lia. }
  { fold inc a. rewrite Hk. lia. }
  fold inc a in Hacc2. rewrite Hk in Hacc2.
  rewrite ticks_snoc. set (s' := ticks k s) in *.
  assert (Ei : adsr_inc s' = inc) by (apply adsr_inc_same; assumption).
  pose proof (tick_spec s' I2 ltac:(lia)) as Hs. cbv zeta in Hs.
  rewrite Hst, T, Ei, Hacc2 in Hs.
  assert (E : (a + (m - 1) * inc + inc <? 16777216)%Z = false) by (apply Z.ltb_ge; lia).
  rewrite E in Hs.
  split; [apply InvC_tick; exact I2|]. split; [apply Hs|].
  destruct (tick_params s') as (_ & _ & _ & Ef2). rewrite Ef2. exact Ef.
Qed.

Lemma reaches_sustain : forall s, InvC s -> fs_ok (pa_fs (a_pa s)) -> a_state s = Attack ->
  exists n, (Z.of_nat n <= 8388610)%Z /\
    a_state (fold_left adsr_step (repeat ATick n) s) = Sustain.
Proof.
  intros s I Hfs St.
  destruct (finish_phase s I Hfs) as (n1 & Hn1 & I1 & St1 & Ef1).
  { rewrite St. reflexivity. }
  rewrite St in St1. cbn [next_phase] in St1.
  destruct (finish_phase (ticks n1 s) I1) as (n2 & Hn2 & I2 & St2 & Ef2).
  { rewrite Ef1. exact Hfs. }
  { rewrite St1. reflexivity. }
  rewrite St1 in St2. cbn [next_phase] in St2.
  exists (n1 + n2)%nat. split.
  - rewrite Nat2Z.inj_add. lia.
  - change (a_state (ticks (n1 + n2) s) = Sustain). rewrite ticks_add. exact St2.
Qed.

Lemma reaches_rest : forall s, InvC s -> fs_ok (pa_fs (a_pa s)) -> a_state s = Release ->
  exists n, (Z.of_nat n <= 4194305)%Z /\
    a_state (fold_left adsr_step (repeat ATick n) s) = AtRest.
Proof.
  intros s I Hfs St.
  destruct (finish_phase s I Hfs) as (n1 & Hn1 & I1 & St1 & Ef1).
  { rewrite St. reflexivity. }
  rewrite St in St1. cbn [next_phase] in St1.
  exists n1. split; [lia|exact St1].
Qed.

(** * Phase duration in real terms *)

Lemma phase_duration : forall fs t, fs_ok fs -> fin_in t (R32 MIN_TIME) (R32 MAX_TIME) ->
  let N := R32 t * R32 fs in
  let n := IZR (ticks_for (inc_of fs t)) in
  1 <= n /\ N * (1 - / 4194304) <= n /\ n <= N / (1 - N / 16777216) + 2.
Proof.
  intros fs t Hfs Ht N n.
  destruct (increment_bounds fs t Hfs Ht) as [[HL HU] HZ]. cbv zeta in HL, HU.
  destruct Hfs as [Ffs Bfs]. destruct Ht as [Ft Bt].
  rewrite R32_MIN_TIME, R32_MAX_TIME in Bt.
  fold N in HL, HU.
  set (inc := inc_of fs t) in *.
  destruct (ticks_for_spec inc ltac:(lia)) as [Z1 Z2].
  assert (Zn : (1 <= ticks_for inc)%Z) by nia.
  set (I := IZR inc) in *.
  assert (HI : 4 <= I) by (apply (IZR_le 4); lia).
  assert (R1 : (n - 1) * I < 16777216).
  { unfold n, I. change 1 with (IZR 1). rewrite <- minus_IZR, <- mult_IZR.
    apply IZR_lt. exact Z1. }
  assert (R2 : 16777216 <= n * I).
  { unfold n, I. rewrite <- mult_IZR. apply IZR_le. exact Z2. }
  assert (Rn : 1 <= n) by (apply (IZR_le 1); exact Zn).
  assert (HN : 1 / 10 <= N <= 3840000).
  { unfold N. split.
    - apply Rle_trans with (8589935 / 8589934592 * 100); [lra|].
      apply Rmult_le_compat; lra.
    - apply Rle_trans with (20 * 192000); [|lra].
      apply Rmult_le_compat; lra. }
  set (X := 16777216 / N) in *.
  assert (HXN : X * N = 16777216) by (unfold X; field; lra).
  assert (HXpos : 0 < X) by (unfold X; apply Rdiv_lt_0_compat; lra).
  split; [exact Rn|]. split.
  - (* lower bound *)
    assert (H1 : 16777216 * N <= n * (1 + / 4194304) * 16777216).
    { apply Rle_trans with (n * I * N).
      - apply Rmult_le_compat_r; lra.
      - replace (n * (1 + / 4194304) * 16777216) with (n * (X * (1 + / 4194304) * N)).
        2:{ replace (X * (1 + / 4194304) * N) with (X * N * (1 + / 4194304)) by ring.
            rewrite HXN. ring. }
        rewrite Rmult_assoc. apply Rmult_le_compat_l; [lra|].
        apply Rmult_le_compat_r; lra. }
    assert (H2 : N <= n * (1 + / 4194304)) by lra.
    assert (H3 : N * (1 - / 4194304) <= n * (1 + / 4194304) * (1 - / 4194304)).
    { apply Rmult_le_compat_r; lra. }
    apply Rle_trans with (1 := H3).
    replace (n * (1 + / 4194304) * (1 - / 4194304))
      with (n * (1 - / 4194304 * / 4194304)) by ring.
    rewrite <- (Rmult_1_r n) at 2. apply Rmult_le_compat_l; lra.
  - (* upper bound *)
    set (u := N / 16777216).
    assert (Hu : 0 < u <= 2289 / 10000) by (unfold u; lra).
    assert (HXu : X * u = 1) by (unfold X, u; field; lra).
    set (e := / 8388608) in *.
    set (a := 1 - u). set (b := 1 - e - u).
    assert (Ha : 7711 / 10000 <= a) by (unfold a; lra).
    assert (Hb : 771 / 1000 <= b) by (unfold b, e; lra).
    (* I*u > b *)
    assert (HIu : b < I * u).
    { assert (H : (X * (1 - e) - 1) * u < I * u) by (apply Rmult_lt_compat_r; lra).
      replace ((X * (1 - e) - 1) * u) with (X * u * (1 - e) - u) in H by ring.
      rewrite HXu in H. unfold b. lra. }
    assert (Hnb : (n - 1) * b < N).
    { apply Rle_lt_trans with ((n - 1) * (I * u)).
      - apply Rmult_le_compat_l; lra.
      - replace ((n - 1) * (I * u)) with ((n - 1) * I * u) by ring.
        replace N with (16777216 * u) by (unfold u; field).
        apply Rmult_lt_compat_r; lra. }
    set (D := N / a).
    assert (HDa : D * a = N) by (unfold D; field; lra).
    assert (HDpos : 0 <= D) by (unfold D; apply Rle_mult_inv_pos; lra).
    assert (HDe : D * e <= b).
    { apply Rmult_le_reg_r with a; [lra|].
      replace (D * e * a) with (D * a * e) by ring. rewrite HDa.
      replace (N * e) with (2 * u) by (unfold u, e; field).
      unfold a, b, e. nra. }
    assert (Hab : a = b + e) by (unfold a, b; ring).
    assert (Hfin : (n - 1) * b < (D + 1) * b).
    { apply Rlt_le_trans with (1 := Hnb).
      rewrite <- HDa, Hab. lra. }
    apply Rmult_lt_reg_r in Hfin; [|lra].
    change (n <= D + 2). lra.
Qed.
