(** Proofs of the ribbon-controller properties C15 (press detection, edge latches) and
    C16 (ring buffer refinement, capture window).  No floating-point reasoning: the f32
    operations are treated as opaque functions. *)
From Coq Require Import ZArith Bool List Lia.
Import ListNotations.
From SU Require Import F32.
From SU.gen Require Import Consts.
From SU.Model Require Import Ribbon.
From SU.Spec Require Import RibbonSpec.
Open Scope Z_scope.

(** * Generic list facts *)

Section ListFacts.
  Context {T : Type}.

  Lemma firstn_len_app : forall (A l : list T), firstn (length A) (A ++ l) = A.
  Proof.
    induction A as [|a A IH]; intros l.
    - reflexivity.
    - cbn [length app firstn]. now rewrite IH.
  Qed.

  Lemma skipn_len_app : forall (A l : list T), skipn (length A) (A ++ l) = l.
  Proof.
    induction A as [|a A IH]; intros l.
    - reflexivity.
    - cbn [length app]. rewrite skipn_cons. apply IH.
  Qed.

  Lemma firstn_Slen_app : forall (A : list T) x B,
    firstn (S (length A)) (A ++ x :: B) = A ++ [x].
  Proof.
    induction A as [|a A IH]; intros x B.
    - reflexivity.
    - cbn [length app]. rewrite firstn_cons. now rewrite IH.
  Qed.

  Lemma skipn_Slen_app : forall (A : list T) x B,
    skipn (S (length A)) (A ++ x :: B) = B.
  Proof.
    induction A as [|a A IH]; intros x B.
    - reflexivity.
    - cbn [length app]. rewrite skipn_cons. apply IH.
  Qed.

  Lemma skipn_S_tl : forall m (l : list T), skipn (S m) l = tl (skipn m l).
  Proof.
    induction m as [|m IH]; intros l.
    - destruct l; reflexivity.
    - destruct l as [|a l].
      + reflexivity.
      + exact (IH l).
  Qed.

  Lemma skipn_skipn_add : forall b a (l : list T), skipn a (skipn b l) = skipn (b + a) l.
  Proof.
    induction b as [|b IH]; intros a l.
    - reflexivity.
    - destruct l as [|y l].
      + cbn [skipn]. now rewrite !skipn_nil.
      + cbn [Nat.add]. rewrite !skipn_cons. apply IH.
  Qed.

  Lemma split_at : forall (l : list T) w, (w < length l)%nat ->
    exists A y B, l = A ++ y :: B /\ length A = w.
  Proof.
    intros l w Hw. exists (firstn w l).
    destruct (skipn w l) as [|y B] eqn:E.
    - exfalso. assert (Hl : length (skipn w l) = 0%nat) by now rewrite E.
      rewrite skipn_length in Hl. lia.
    - exists y, B. split.
      + rewrite <- E. symmetry. apply firstn_skipn.
      + apply firstn_length_le. lia.
  Qed.

  Lemma skipn_snoc : forall s (l : list T) x, (s <= length l)%nat ->
    skipn s (l ++ [x]) = skipn s l ++ [x].
  Proof.
    intros s l x Hs. rewrite skipn_app.
    replace (s - length l)%nat with 0%nat by lia. reflexivity.
  Qed.

  Lemma lastn_snoc : forall n (xs : list T) x, (0 < n)%nat -> (n <= length xs)%nat ->
    lastn n (xs ++ [x]) = tl (lastn n xs) ++ [x].
  Proof.
    intros n xs x Hn Hle. unfold lastn. rewrite app_length. cbn [length].
    replace (length xs + 1 - n)%nat with (S (length xs - n)) by lia.
    rewrite skipn_snoc by lia. now rewrite skipn_S_tl.
  Qed.

  Lemma lastn_short : forall n (xs : list T), (length xs <= n)%nat -> lastn n xs = xs.
  Proof.
    intros n xs H. unfold lastn. replace (length xs - n)%nat with 0%nat by lia. reflexivity.
  Qed.

  Lemma lastn_app_skipn : forall n s (pre l : list T), (n + s <= length l)%nat ->
    lastn n (pre ++ skipn s l) = lastn n l.
  Proof.
    intros n s pre l H. unfold lastn.
    rewrite app_length, skipn_length, skipn_app.
    assert (Hpre : skipn (length pre + (length l - s) - n) pre = []) by (apply skipn_all2; lia).
    rewrite Hpre. cbn [app].
    rewrite skipn_skipn_add. f_equal. lia.
  Qed.
End ListFacts.

(** * The ring buffer (C16_histbuf) *)

Lemma set_nth_app : forall (A : list f32) y B x,
  set_nth (A ++ y :: B) (length A) x = A ++ x :: B.
Proof.
  induction A as [|a A IH]; intros y B x.
  - reflexivity.
  - cbn [length app set_nth]. now rewrite IH.
Qed.

Definition hb_inv (cap : nat) (xs : list f32) (h : histbuf) : Prop :=
  length (hb_data h) = cap /\ (hb_write_at h < cap)%nat /\
  if hb_filled h
  then (cap <= length xs)%nat /\
       skipn (hb_write_at h) (hb_data h) ++ firstn (hb_write_at h) (hb_data h) = lastn cap xs
  else hb_write_at h = length xs /\ firstn (hb_write_at h) (hb_data h) = xs.

Lemma hb_inv_new cap : (0 < cap)%nat -> hb_inv cap [] (hb_new cap).
Proof.
  intros Hcap. unfold hb_inv, hb_new. cbn [hb_data hb_write_at hb_filled].
  split; [apply repeat_length|]. split; [exact Hcap|]. split; reflexivity.
Qed.

Lemma hb_inv_step cap xs h x :
  hb_inv cap xs h -> hb_inv cap (xs ++ [x]) (hb_write cap h x).
Proof.
  destruct h as [d w f]. unfold hb_inv. cbn [hb_data hb_write_at hb_filled].
  intros (Hlen & Hw & Hf).
  destruct (split_at d w) as (A & y & B & Hd & HA); [lia|]. subst d w.
  unfold hb_write. cbn [hb_data hb_write_at hb_filled]. rewrite set_nth_app.
  rewrite skipn_len_app, firstn_len_app in Hf.
  rewrite app_length in Hlen. cbn [length] in Hlen.
  destruct (Nat.eqb (S (length A)) cap) eqn:E;
    [apply Nat.eqb_eq in E | apply Nat.eqb_neq in E];
    cbn [hb_data hb_write_at hb_filled].
  - (* wrap around: B = [] *)
    assert (HB : B = []) by (destruct B; [reflexivity | cbn [length] in Hlen; lia]).
    subst B. split; [rewrite app_length; cbn [length]; lia|]. split; [lia|].
    rewrite skipn_O. cbn [firstn]. rewrite app_nil_r.
    destruct f.
    + destruct Hf as (Hle & Hf). split; [rewrite app_length; lia|].
      rewrite lastn_snoc by lia. rewrite <- Hf. cbn [app tl]. reflexivity.
    + destruct Hf as (Hn & Hf). subst xs. split; [rewrite app_length; cbn [length]; lia|].
      symmetry. apply lastn_short. rewrite app_length. cbn [length]. lia.
  - split; [rewrite app_length; cbn [length]; lia|]. split; [lia|].
    destruct f.
    + destruct Hf as (Hle & Hf). split; [rewrite app_length; lia|].
      rewrite skipn_Slen_app, firstn_Slen_app.
      rewrite lastn_snoc by lia. rewrite <- Hf. cbn [app tl].
      now rewrite app_assoc.
    + destruct Hf as (Hn & Hf). subst xs. split.
      * rewrite app_length. cbn [length]. lia.
      * apply firstn_Slen_app.
Qed.

Lemma hb_inv_fold cap xs : (0 < cap)%nat ->
  hb_inv cap xs (fold_left (hb_write cap) xs (hb_new cap)).
Proof.
  intros Hcap. induction xs as [|x xs IH] using rev_ind.
  - apply hb_inv_new, Hcap.
  - rewrite fold_left_app. cbn [fold_left]. apply hb_inv_step, IH.
Qed.

Lemma hb_inv_oldest cap xs h : hb_inv cap xs h -> hb_oldest_ordered h = lastn cap xs.
Proof.
  unfold hb_inv, hb_oldest_ordered. intros (Hlen & Hw & Hf).
  destruct (hb_filled h).
  - apply Hf.
  - destruct Hf as (Hn & Hf). rewrite Hf. symmetry. apply lastn_short. lia.
Qed.

Lemma histbuf_refines : forall cap xs,
  (0 < cap)%nat ->
  hb_oldest_ordered (fold_left (hb_write cap) xs (hb_new cap)) = lastn cap xs.
Proof.
  intros cap xs Hcap. apply hb_inv_oldest, hb_inv_fold, Hcap.
Qed.

(** * Spec functions on snoc *)

Lemma run_len_snoc inr l x :
  run_len inr (l ++ [x]) = if inr x then 1 + run_len inr l else 0.
Proof. unfold run_len. rewrite rev_unit. reflexivity. Qed.

Lemma current_run_snoc inr l x :
  current_run inr (l ++ [x]) = if inr x then current_run inr l ++ [x] else [].
Proof.
  unfold current_run. rewrite rev_unit. cbn [current_run_rev].
  destruct (inr x); reflexivity.
Qed.

Lemma run_len_rev_length inr l :
  run_len_rev inr l = Z.of_nat (length (current_run_rev inr l)).
Proof.
  induction l as [|a l IH]; cbn [run_len_rev current_run_rev].
  - reflexivity.
  - destruct (inr a); cbn [length]; lia.
Qed.

Lemma run_len_length inr l : run_len inr l = Z.of_nat (length (current_run inr l)).
Proof. unfold run_len, current_run. rewrite rev_length. apply run_len_rev_length. Qed.

Lemma run_len_rev_bound inr x : inr x = false -> forall l1 l2,
  run_len_rev inr (l1 ++ x :: l2) <= Z.of_nat (length l1).
Proof.
  intros Hx. induction l1 as [|a l1 IH]; intros l2; cbn [app run_len_rev length].
  - rewrite Hx. lia.
  - destruct (inr a); [specialize (IH l2)|]; lia.
Qed.

Lemma run_len_after inr before x after : inr x = false ->
  run_len inr (before ++ x :: after) <= Z.of_nat (length after).
Proof.
  intros Hx. unfold run_len. rewrite rev_app_distr. cbn [rev]. rewrite <- app_assoc.
  cbn [app]. rewrite <- (rev_length after). apply run_len_rev_bound, Hx.
Qed.

(** * The controller invariant *)

Lemma to_u32_nonneg x : 0 <= to_u32 x.
Proof.
  destruct x as [s|s| |s m e H]; unfold to_u32.
  - lia.
  - destruct s; unfold U32_MAX; lia.
  - lia.
  - apply Z.le_max_l.
Qed.

Lemma polls_snoc r l x : polls r (l ++ [x]) = ribbon_poll (polls r l) x.
Proof. unfold polls. rewrite fold_left_app. reflexivity. Qed.

Definition rinv (r0 : ribbon) (samples : list f32) (r : ribbon) : Prop :=
  rb_cap r = rb_cap r0 /\ rb_boundary r = rb_boundary r0 /\ rb_err r = rb_err r0 /\
  rb_ignore r = rb_ignore r0 /\ rb_discard r = rb_discard r0 /\
  rb_received r = Z.min (run_len (in_range r0) samples) (rb_ignore r0) /\
  rb_written r = Z.min (Z.max 0 (run_len (in_range r0) samples - skip (rb_ignore r0)))
                       (Z.of_nat (rb_cap r0)) /\
  rb_pressing r = (skip (rb_ignore r0) + Z.of_nat (rb_cap r0) <=? run_len (in_range r0) samples) /\
  (exists pre, rb_buf r =
     fold_left (hb_write (rb_cap r0))
       (pre ++ skipn (Z.to_nat (skip (rb_ignore r0))) (current_run (in_range r0) samples))
       (hb_new (rb_cap r0))) /\
  (rb_pressing r = true -> rb_val r = window_value r0 (window r0 samples)).

Lemma rinv_init r0 :
  (0 < rb_cap r0)%nat -> 0 <= rb_ignore r0 ->
  rb_received r0 = 0 -> rb_written r0 = 0 -> rb_pressing r0 = false ->
  rb_buf r0 = hb_new (rb_cap r0) ->
  rinv r0 [] r0.
Proof.
  intros Hcap HI Hrec Hwr Hp Hbuf. unfold rinv.
  change (run_len (in_range r0) []) with 0.
  change (current_run (in_range r0) []) with (@nil f32).
  repeat (split; [reflexivity|]).
  unfold skip.
  split; [lia|]. split; [lia|].
  split; [rewrite Hp; symmetry; apply Z.leb_gt; lia|].
  split.
  - exists []. rewrite skipn_nil. exact Hbuf.
  - rewrite Hp. discriminate.
Qed.

Lemma rinv_step r0 samples r x :
  (0 < rb_cap r0)%nat -> 0 <= rb_ignore r0 ->
  rinv r0 samples r -> rinv r0 (samples ++ [x]) (ribbon_poll r x).
Proof.
  intros Hcap HI.
  destruct r as [c b e v p jp jr buf I D rec wr]. unfold rinv.
  cbn [rb_cap rb_boundary rb_err rb_val rb_pressing rb_just_pressed rb_just_released
       rb_buf rb_ignore rb_discard rb_received rb_written].
  intros (Hc & Hb & He & HIe & HD & Hrec & Hwr & Hp & (pre & Hbuf) & Hval).
  subst c b e I D.
  unfold window in *. rewrite run_len_snoc, current_run_snoc.
  pose proof (run_len_length (in_range r0) samples) as Hk.
  set (k := run_len (in_range r0) samples) in *.
  set (cr := current_run (in_range r0) samples) in *.
  set (cap := rb_cap r0) in *.
  set (I := rb_ignore r0) in *.
  assert (Hskip : skip I = Z.max (I - 1) 0) by reflexivity.
  set (s := skip I) in *.
  unfold ribbon_poll.
  cbn [rb_cap rb_boundary rb_err rb_val rb_pressing rb_just_pressed rb_just_released
       rb_buf rb_ignore rb_discard rb_received rb_written].
  unfold in_range.
  destruct (flt x (rb_boundary r0)) eqn:Hx.
  - (* in range *)
    destruct (Z.leb_spec I (Z.min (rec + 1) I)) as [Hwrite|Hnowrite].
    + (* the sample is written *)
      assert (Hs : (Z.to_nat s <= length cr)%nat) by lia.
      assert (Hbuf' : hb_write cap buf x =
                fold_left (hb_write cap) (pre ++ skipn (Z.to_nat s) (cr ++ [x])) (hb_new cap)).
      { rewrite Hbuf, skipn_snoc by exact Hs. rewrite app_assoc. symmetry. apply fold_left_app. }
      destruct (Z.eqb_spec (Z.min (wr + 1) (Z.of_nat cap)) (Z.of_nat cap)) as [Hfull|Hnotfull];
        cbn [rb_cap rb_boundary rb_err rb_val rb_pressing rb_just_pressed rb_just_released
             rb_buf rb_ignore rb_discard rb_received rb_written].
      * repeat (split; [reflexivity|]).
        split; [lia|]. split; [lia|].
        split; [symmetry; apply Z.leb_le; lia|].
        split; [exists pre; exact Hbuf'|].
        intros _. unfold ribbon_average, window_value, error_estimate.
        cbn [rb_cap rb_boundary rb_err rb_val rb_pressing rb_just_pressed rb_just_released
             rb_buf rb_ignore rb_discard rb_received rb_written].
        fold cap. rewrite Hbuf'. rewrite histbuf_refines by exact Hcap.
        rewrite lastn_app_skipn; [reflexivity|].
        rewrite app_length. cbn [length]. lia.
      * repeat (split; [reflexivity|]).
        split; [lia|]. split; [lia|].
        assert (Hnp : (s + Z.of_nat cap <=? 1 + k) = false) by (apply Z.leb_gt; lia).
        rewrite Hnp.
        split; [rewrite Hp; apply Z.leb_gt; lia|].
        split; [exists pre; exact Hbuf'|].
        intros Hp'. exfalso. rewrite Hp in Hp'. apply Z.leb_le in Hp'. lia.
    + (* still settling: nothing written *)
      cbn [rb_cap rb_boundary rb_err rb_val rb_pressing rb_just_pressed rb_just_released
           rb_buf rb_ignore rb_discard rb_received rb_written].
      repeat (split; [reflexivity|]).
      split; [lia|]. split; [lia|].
      assert (Hnp : (s + Z.of_nat cap <=? 1 + k) = false) by (apply Z.leb_gt; lia).
      rewrite Hnp.
      split; [rewrite Hp; apply Z.leb_gt; lia|].
      split.
      * exists pre. rewrite Hbuf.
        assert (E1 : skipn (Z.to_nat s) cr = []) by (apply skipn_all2; lia).
        assert (E2 : skipn (Z.to_nat s) (cr ++ [x]) = [])
          by (apply skipn_all2; rewrite app_length; cbn [length]; lia).
        rewrite E1, E2. reflexivity.
      * intros Hp'. exfalso. rewrite Hp in Hp'. apply Z.leb_le in Hp'. lia.
  - (* out of range *)
    cbn [rb_cap rb_boundary rb_err rb_val rb_pressing rb_just_pressed rb_just_released
         rb_buf rb_ignore rb_discard rb_received rb_written].
    repeat (split; [reflexivity|]).
    split; [lia|]. split; [lia|].
    split; [symmetry; apply Z.leb_gt; lia|].
    split.
    + exists (pre ++ skipn (Z.to_nat s) cr). rewrite skipn_nil, app_nil_r. exact Hbuf.
    + discriminate.
Qed.

Lemma rinv_polls r0 samples :
  (0 < rb_cap r0)%nat -> 0 <= rb_ignore r0 ->
  rb_received r0 = 0 -> rb_written r0 = 0 -> rb_pressing r0 = false ->
  rb_buf r0 = hb_new (rb_cap r0) ->
  rinv r0 samples (polls r0 samples).
Proof.
  intros Hcap HI Hrec Hwr Hp Hbuf.
  induction samples as [|x samples IH] using rev_ind.
  - apply rinv_init; assumption.
  - rewrite polls_snoc. apply rinv_step; assumption.
Qed.

Lemma ignore_nonneg cap fs sp dr pu : 0 <= rb_ignore (ribbon_new cap fs sp dr pu).
Proof.
  unfold ribbon_new. cbn [rb_ignore]. unfold usec_to_samples, RIBBON_FALL_TIME_USEC.
  apply Z.div_pos; [|lia]. pose proof (to_u32_nonneg fs). lia.
Qed.

Lemma rinv_new cap fs sp dr pu samples : (0 < cap)%nat ->
  rinv (ribbon_new cap fs sp dr pu) samples (polls (ribbon_new cap fs sp dr pu) samples).
Proof.
  intros Hcap. apply rinv_polls; try reflexivity.
  - exact Hcap.
  - apply ignore_nonneg.
Qed.

(** * C15: press detection *)

Lemma press_spec : forall cap fs sp dr pu samples,
  (0 < cap)%nat ->
  let r0 := ribbon_new cap fs sp dr pu in
  rb_pressing (polls r0 samples)
  = (skip (rb_ignore r0) + Z.of_nat cap <=? run_len (in_range r0) samples).
Proof.
  intros cap fs sp dr pu samples Hcap r0.
  pose proof (rinv_new cap fs sp dr pu samples Hcap) as H.
  destruct H as (_ & _ & _ & _ & _ & _ & _ & Hp & _). exact Hp.
Qed.

Lemma skip_nonneg i : 0 <= skip i.
Proof. unfold skip. lia. Qed.

Lemma release_immediately : forall cap fs sp dr pu samples x,
  (0 < cap)%nat ->
  let r0 := ribbon_new cap fs sp dr pu in
  in_range r0 x = false ->
  rb_pressing (polls r0 (samples ++ [x])) = false.
Proof.
  intros cap fs sp dr pu samples x Hcap r0 Hx.
  subst r0. rewrite press_spec by exact Hcap. cbv zeta.
  rewrite run_len_snoc, Hx. apply Z.leb_gt.
  pose proof (skip_nonneg (rb_ignore (ribbon_new cap fs sp dr pu))). lia.
Qed.

Lemma taps_do_not_add_up : forall cap fs sp dr pu before x after,
  (0 < cap)%nat ->
  let r0 := ribbon_new cap fs sp dr pu in
  in_range r0 x = false ->
  Z.of_nat (length after) < skip (rb_ignore r0) + Z.of_nat cap ->
  rb_pressing (polls r0 (before ++ x :: after)) = false.
Proof.
  intros cap fs sp dr pu before x after Hcap r0 Hx Hlen.
  subst r0. rewrite press_spec by exact Hcap. cbv zeta.
  apply Z.leb_gt.
  pose proof (run_len_after _ before x after Hx). lia.
Qed.

(** * C16: capture window *)

Lemma value_window : forall cap fs sp dr pu samples,
  (0 < cap)%nat ->
  let r0 := ribbon_new cap fs sp dr pu in
  rb_pressing (polls r0 samples) = true ->
  rb_val (polls r0 samples) = window_value r0 (window r0 samples).
Proof.
  intros cap fs sp dr pu samples Hcap r0.
  pose proof (rinv_new cap fs sp dr pu samples Hcap) as H.
  destruct H as (_ & _ & _ & _ & _ & _ & _ & _ & _ & Hv). exact Hv.
Qed.

Lemma poll_retains r x :
  rb_pressing (ribbon_poll r x) = false -> rb_val (ribbon_poll r x) = rb_val r.
Proof.
  unfold ribbon_poll. cbv zeta.
  destruct (flt x (rb_boundary r)); [|reflexivity].
  destruct (rb_ignore r <=? Z.min (rb_received r + 1) (rb_ignore r)); [|reflexivity].
  destruct (Z.min (rb_written r + 1) (Z.of_nat (rb_cap r)) =? Z.of_nat (rb_cap r));
    cbn [rb_pressing rb_val]; [discriminate | reflexivity].
Qed.

Lemma value_retained : forall cap fs sp dr pu samples x,
  (0 < cap)%nat ->
  let r0 := ribbon_new cap fs sp dr pu in
  rb_pressing (polls r0 (samples ++ [x])) = false ->
  rb_val (polls r0 (samples ++ [x])) = rb_val (polls r0 samples).
Proof.
  intros cap fs sp dr pu samples x _ r0. rewrite polls_snoc. apply poll_retains.
Qed.

(** * C15: edge latches *)

Lemma since_last_split (p : rop -> bool) : forall h acc,
  (Forall (fun o => p o = false) h /\ since_last p h acc = acc ++ h) \/
  (exists h1 o h2, h = h1 ++ o :: h2 /\ p o = true /\
                   Forall (fun o => p o = false) h2 /\ since_last p h acc = h2).
Proof.
  induction h as [|o h IH]; intros acc.
  - left. split; [constructor | cbn [since_last]; now rewrite app_nil_r].
  - cbn [since_last]. destruct (p o) eqn:Ho.
    + destruct (IH []) as [[HF E] | (h1 & o' & h2 & E1 & Ho' & HF & E)].
      * right. exists [], o, h. repeat split; assumption.
      * right. exists (o :: h1), o', h2. subst h. repeat split; assumption.
    + destruct (IH (acc ++ [o])) as [[HF E] | (h1 & o' & h2 & E1 & Ho' & HF & E)].
      * left. split; [constructor; assumption|]. rewrite E, <- app_assoc. reflexivity.
      * right. exists (o :: h1), o', h2. subst h. repeat split; assumption.
Qed.

Lemma rrun_app r a b : rrun r (a ++ b) = rrun (rrun r a) b.
Proof. unfold rrun. apply fold_left_app. Qed.

Lemma rrun_cons r o h : rrun r (o :: h) = rrun (fst (rstep r o)) h.
Proof. reflexivity. Qed.

Definition is_jp (o : rop) : bool := match o with RJustPressed => true | _ => false end.
Definition is_jr (o : rop) : bool := match o with RJustReleased => true | _ => false end.

Lemma poll_jp r x :
  rb_just_pressed (ribbon_poll r x)
  = rb_just_pressed r || (Bool.eqb (rb_pressing r) false && Bool.eqb (rb_pressing (ribbon_poll r x)) true).
Proof.
  unfold ribbon_poll. cbv zeta.
  destruct (flt x (rb_boundary r));
    [destruct (rb_ignore r <=? Z.min (rb_received r + 1) (rb_ignore r));
      [destruct (Z.min (rb_written r + 1) (Z.of_nat (rb_cap r)) =? Z.of_nat (rb_cap r))|]|];
    cbn [rb_pressing rb_just_pressed];
    destruct (rb_pressing r), (rb_just_pressed r); reflexivity.
Qed.

Lemma poll_jr r x :
  rb_just_released (ribbon_poll r x)
  = rb_just_released r || (Bool.eqb (rb_pressing r) true && Bool.eqb (rb_pressing (ribbon_poll r x)) false).
Proof.
  unfold ribbon_poll. cbv zeta.
  destruct (flt x (rb_boundary r));
    [destruct (rb_ignore r <=? Z.min (rb_received r + 1) (rb_ignore r));
      [destruct (Z.min (rb_written r + 1) (Z.of_nat (rb_cap r)) =? Z.of_nat (rb_cap r))|]|];
    cbn [rb_pressing rb_just_released];
    destruct (rb_pressing r), (rb_just_released r); reflexivity.
Qed.

Lemma jp_run : forall h r, Forall (fun o => is_jp o = false) h ->
  rb_just_pressed (rrun r h) = rb_just_pressed r || changed false r h.
Proof.
  induction h as [|o h IH]; intros r HF.
  - cbn [changed]. change (rrun r []) with r. now rewrite orb_false_r.
  - inversion HF as [|? ? Ho HF']; subst.
    rewrite rrun_cons, IH by assumption.
    cbn [changed]. cbv zeta. cbn [negb].
    destruct o as [x| |].
    + cbn [rstep fst]. rewrite poll_jp. now rewrite orb_assoc.
    + discriminate Ho.
    + cbn [rstep ribbon_just_released fst rb_just_pressed rb_pressing].
      destruct (rb_pressing r); reflexivity.
Qed.

Lemma jr_run : forall h r, Forall (fun o => is_jr o = false) h ->
  rb_just_released (rrun r h) = rb_just_released r || changed true r h.
Proof.
  induction h as [|o h IH]; intros r HF.
  - cbn [changed]. change (rrun r []) with r. now rewrite orb_false_r.
  - inversion HF as [|? ? Ho HF']; subst.
    rewrite rrun_cons, IH by assumption.
    cbn [changed]. cbv zeta. cbn [negb].
    destruct o as [x| |].
    + cbn [rstep fst]. rewrite poll_jr. now rewrite orb_assoc.
    + cbn [rstep ribbon_just_pressed fst rb_just_released rb_pressing].
      destruct (rb_pressing r); reflexivity.
    + discriminate Ho.
Qed.

Lemma firstn_split_point (h1 : list rop) o h2 :
  firstn (length (h1 ++ o :: h2) - length h2) (h1 ++ o :: h2) = h1 ++ [o].
Proof.
  replace (length (h1 ++ o :: h2) - length h2)%nat with (length (h1 ++ [o]))
    by (rewrite !app_length; cbn [length]; lia).
  replace (h1 ++ o :: h2) with ((h1 ++ [o]) ++ h2) by (rewrite <- app_assoc; reflexivity).
  apply firstn_len_app.
Qed.

Lemma just_pressed_spec : forall cap fs sp dr pu h,
  (0 < cap)%nat ->
  let r0 := ribbon_new cap fs sp dr pu in
  let is_jp := fun o => match o with RJustPressed => true | _ => false end in
  let tail := since_last is_jp h [] in
  let before := firstn (length h - length tail) h in
  snd (rstep (rrun r0 h) RJustPressed) = Some (changed false (rrun r0 before) tail).
Proof.
  intros cap fs sp dr pu h _ r0 is_jp' tail before.
  change (snd (rstep (rrun r0 h) RJustPressed)) with (Some (rb_just_pressed (rrun r0 h))).
  f_equal. subst before tail. change is_jp' with is_jp. clear is_jp'.
  destruct (since_last_split is_jp h []) as [[HF E] | (h1 & o & h2 & E1 & Ho & HF & E)].
  - rewrite E. cbn [app]. rewrite Nat.sub_diag. cbn [firstn].
    change (rrun r0 []) with r0. rewrite jp_run by exact HF. reflexivity.
  - rewrite E. subst h. destruct o; try discriminate Ho.
    rewrite firstn_split_point.
    replace (h1 ++ RJustPressed :: h2) with ((h1 ++ [RJustPressed]) ++ h2)
      by (rewrite <- app_assoc; reflexivity).
    rewrite rrun_app. rewrite jp_run by exact HF.
    rewrite rrun_app. reflexivity.
Qed.

Lemma just_released_spec : forall cap fs sp dr pu h,
  (0 < cap)%nat ->
  let r0 := ribbon_new cap fs sp dr pu in
  let is_jr := fun o => match o with RJustReleased => true | _ => false end in
  let tail := since_last is_jr h [] in
  let before := firstn (length h - length tail) h in
  snd (rstep (rrun r0 h) RJustReleased) = Some (changed true (rrun r0 before) tail).
Proof.
  intros cap fs sp dr pu h _ r0 is_jr' tail before.
  change (snd (rstep (rrun r0 h) RJustReleased)) with (Some (rb_just_released (rrun r0 h))).
  f_equal. subst before tail. change is_jr' with is_jr. clear is_jr'.
  destruct (since_last_split is_jr h []) as [[HF E] | (h1 & o & h2 & E1 & Ho & HF & E)].
  - rewrite E. cbn [app]. rewrite Nat.sub_diag. cbn [firstn].
    change (rrun r0 []) with r0. rewrite jr_run by exact HF. reflexivity.
  - rewrite E. subst h. destruct o; try discriminate Ho.
    rewrite firstn_split_point.
    replace (h1 ++ RJustReleased :: h2) with ((h1 ++ [RJustReleased]) ++ h2)
      by (rewrite <- app_assoc; reflexivity).
    rewrite rrun_app. rewrite jr_run by exact HF.
    rewrite rrun_app. reflexivity.
Qed.

(** Note on [Print Assumptions]: the model definitions themselves ([ribbon_new],
    [ribbon_poll], [window_value], via [fdiv]/[fsub]/[of_Z] = Flocq's [Bdiv]/[Bminus]/
    [binary_normalize], whose boundedness proof terms use the real numbers) already depend
    on the four standard-library axioms of the reals (sig_not_dec, sig_forall_dec,
    functional_extensionality_dep, classic).  Every statement that mentions them therefore
    lists these axioms; the proofs in this file add none (compare with the output for
    [ribbon_new] and [ribbon_poll] below; [histbuf_refines], whose statement involves no
    float operation, is closed under the global context). *)
Print Assumptions ribbon_new.
Print Assumptions ribbon_poll.
Print Assumptions press_spec.
Print Assumptions release_immediately.
Print Assumptions taps_do_not_add_up.
Print Assumptions just_pressed_spec.
Print Assumptions just_released_spec.
Print Assumptions histbuf_refines.
Print Assumptions value_window.
Print Assumptions value_retained.
