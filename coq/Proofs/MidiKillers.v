(** Theorems closing a statement-level gap found by mutation testing of Model/Midi.v.

    The reference decoder [Spec.MidiSpec.decode] (and [at_boundary]) borrows the two byte
    classifiers [is_status_byte] and [is_system_message] from the MODEL.  A model change
    that misclassifies a whole status range consistently in the parser and in the decoder
    (for instance [is_system_message b := Z.land b 176 =? 176], which swallows every
    Control-Change status byte 0xB0..0xBF) leaves every C06 statement true, and the C18
    statements are message-level only - so no property theorem says that the bytes of a
    control change on the listened channel reach [handle_cc].

    The theorems below are stated against literals only:
    - the two classifiers are plain comparisons on bytes,
    - the reference decoder on one complete channel-voice message,
    - byte level: the three bytes of a control change / note-on / note-off / pitch bend on the
      listened channel, fed to [rx_parse] from ANY receiver state, have the effect of the
      message-level handler. *)
From Coq Require Import ZArith Reals Lia Lra Bool List.
Import ListNotations.
From SU Require Import F32 F32Lemmas.
From SU.gen Require Import Consts.
From SU.Model Require Import Midi.
From SU.Spec Require Import MidiSpec.
Open Scope Z_scope.

(** ** finite sweeps (self-contained) *)

Definition krange (N : Z) : list Z := map Z.of_nat (seq 0 (Z.to_nat N)).

Lemma ksweep : forall (P : Z -> bool) (N : Z),
  forallb P (krange N) = true -> forall i, 0 <= i < N -> P i = true.
Proof.
  intros P N H i Hi. rewrite forallb_forall in H. apply H.
  unfold krange. apply in_map_iff. exists (Z.to_nat i). split; [lia|].
  apply in_seq. lia.
Qed.

(** ** byte level: one complete message on the listened channel, from any state *)

Lemma k_status_sweep :
  forallb (fun b => Bool.eqb (is_status_byte b) (128 <=? b)) (krange 256) = true.
Proof. vm_compute. reflexivity. Qed.

Lemma k_data_not_status : forall b, 0 <= b < 128 -> is_status_byte b = false.
Proof.
  intros b Hb. assert (H := ksweep _ 256 k_status_sweep b ltac:(lia)). cbv beta in H.
  apply eqb_prop in H. rewrite H. apply Z.leb_gt. lia.
Qed.

Lemma k_u7 : forall b, 0 <= b < 128 -> u7 b = b.
Proof. intros b Hb. unfold u7. destruct (Z.ltb_spec 127 b); [lia | reflexivity]. Qed.

Ltac case16 ch H :=
  let Hc := fresh "Hc" in
  assert (Hc : In ch (krange 16))
    by (unfold krange; apply in_map_iff; exists (Z.to_nat ch); split;
        [lia | apply in_seq; lia]);
  vm_compute in Hc;
  repeat (destruct Hc as [Hc|Hc]; [subst ch|]); [.. | contradiction].

Lemma k_status_opens : forall st ch, 0 <= ch < 16 ->
  parse_byte st (128 + ch) = (NoteOffRecvd ch, None) /\
  parse_byte st (144 + ch) = (NoteOnRecvd ch, None) /\
  parse_byte st (176 + ch) = (ControlChangeRecvd ch, None) /\
  parse_byte st (224 + ch) = (PitchBendRecvd ch, None).
Proof.
  intros st ch Hch. case16 ch Hch; repeat split; reflexivity.
Qed.

Lemma k_cc_1 : forall ch c, 0 <= c < 128 ->
  parse_byte (ControlChangeRecvd ch) c = (ControlChangeControlRecvd ch c, None).
Proof.
  intros ch c Hc. unfold parse_byte. rewrite (k_data_not_status c Hc), (k_u7 c Hc). reflexivity.
Qed.
Lemma k_cc_2 : forall ch c v, 0 <= v < 128 ->
  parse_byte (ControlChangeControlRecvd ch c) v
  = (ControlChangeRecvd ch, Some (MControlChange ch c v)).
Proof.
  intros ch c v Hv. unfold parse_byte. rewrite (k_data_not_status v Hv), (k_u7 v Hv). reflexivity.
Qed.
Lemma k_on_1 : forall ch n, 0 <= n < 128 ->
  parse_byte (NoteOnRecvd ch) n = (NoteOnNoteRecvd ch n, None).
Proof.
  intros ch c Hc. unfold parse_byte. rewrite (k_data_not_status c Hc), (k_u7 c Hc). reflexivity.
Qed.
Lemma k_on_2 : forall ch n v, 0 <= v < 128 ->
  parse_byte (NoteOnNoteRecvd ch n) v = (NoteOnRecvd ch, Some (MNoteOn ch n v)).
Proof.
  intros ch c v Hv. unfold parse_byte. rewrite (k_data_not_status v Hv), (k_u7 v Hv). reflexivity.
Qed.
Lemma k_off_1 : forall ch n, 0 <= n < 128 ->
  parse_byte (NoteOffRecvd ch) n = (NoteOffNoteRecvd ch n, None).
Proof.
  intros ch c Hc. unfold parse_byte. rewrite (k_data_not_status c Hc), (k_u7 c Hc). reflexivity.
Qed.
Lemma k_off_2 : forall ch n v, 0 <= v < 128 ->
  parse_byte (NoteOffNoteRecvd ch n) v = (NoteOffRecvd ch, Some (MNoteOff ch n v)).
Proof.
  intros ch c v Hv. unfold parse_byte. rewrite (k_data_not_status v Hv), (k_u7 v Hv). reflexivity.
Qed.
Lemma k_pb_1 : forall ch lsb, 0 <= lsb < 128 ->
  parse_byte (PitchBendRecvd ch) lsb = (PitchBendLsbRecvd ch lsb, None).
Proof.
  intros ch c Hc. unfold parse_byte. rewrite (k_data_not_status c Hc). reflexivity.
Qed.
Lemma k_pb_2 : forall ch lsb msb, 0 <= lsb < 128 -> 0 <= msb < 128 ->
  parse_byte (PitchBendLsbRecvd ch lsb) msb = (PitchBendRecvd ch, Some (MPitchBend ch msb lsb)).
Proof.
  intros ch lsb msb Hl Hm. unfold parse_byte. rewrite (k_data_not_status msb Hm).
  rewrite (Z.min_l msb 127), (Z.min_l lsb 127) by lia. reflexivity.
Qed.

(** the parser state is invisible to [observe] and to the message handlers *)
Lemma k_apply_with_parser : forall r p m,
  observe (apply_msg (with_parser r p) m) = observe (apply_msg r m).
Proof.
  intros r p m.
  destruct r as [p0 c0 nt vel pb mw vol cut res pt pe se g ri fa rt pr held].
  destruct m as [ch n v|ch n v|ch c v|ch msb lsb|]; unfold apply_msg, with_parser; cbn;
    try reflexivity.
  - destruct (ch =? c0); [|reflexivity].
    unfold handle_note_off; cbn.
    destruct (filter _ held); reflexivity.
  - destruct (ch =? c0); [|reflexivity].
    destruct (v =? 0).
    + unfold handle_note_off; cbn. destruct (filter _ held); reflexivity.
    + reflexivity.
  - destruct (ch =? c0); [|reflexivity].
    unfold handle_cc; cbn.
    repeat match goal with |- context [if ?c =? ?k then _ else _] => destruct (c =? k) end;
      reflexivity.
  - destruct (ch =? c0); reflexivity.
Qed.

(** three bytes [status; d1; d2] that the parser turns into message [m]: the receiver's
    outputs afterwards are those of [apply_msg r m] *)
Lemma k_three_bytes : forall r s d1 d2 st1 st2 st3 m,
  parse_byte (r_parser r) s = (st1, None) ->
  parse_byte st1 d1 = (st2, None) ->
  parse_byte st2 d2 = (st3, Some m) ->
  observe (fold_left rx_parse [s; d1; d2] r) = observe (apply_msg r m).
Proof.
  intros r s d1 d2 st1 st2 st3 m H1 H2 H3.
  cbn [fold_left]. unfold rx_parse at 3. rewrite H1.
  unfold rx_parse at 2.
  replace (r_parser (with_parser r st1)) with st1 by (destruct r; reflexivity).
  rewrite H2.
  unfold rx_parse.
  replace (r_parser (with_parser (with_parser r st1) st2)) with st2 by (destruct r; reflexivity).
  rewrite H3.
  rewrite k_apply_with_parser.
  replace (with_parser (with_parser r st1) st2) with (with_parser r st2) by (destruct r; reflexivity).
  apply k_apply_with_parser.
Qed.

(** C18 / C06 at byte level: the three bytes of a control change on the listened channel,
    received in any receiver state (mid-message, running status, ...), act as [handle_cc] *)
Theorem cc_bytes_any_state : forall r c v,
  0 <= r_channel r < 16 -> 0 <= c < 128 -> 0 <= v < 128 ->
  observe (fold_left rx_parse [176 + r_channel r; c; v] r) = observe (handle_cc r c v).
Proof.
  intros r c v Hch Hc Hv.
  destruct (k_status_opens (r_parser r) (r_channel r) Hch) as (_ & _ & H1 & _).
  rewrite (k_three_bytes r _ _ _ _ _ _ _ H1 (k_cc_1 _ c Hc) (k_cc_2 _ c v Hv)).
  unfold apply_msg. rewrite Z.eqb_refl. reflexivity.
Qed.

(** same for note-on (velocity > 0), note-off and pitch bend *)
Theorem note_on_bytes_any_state : forall r n v,
  0 <= r_channel r < 16 -> 0 <= n < 128 -> 0 < v < 128 ->
  observe (fold_left rx_parse [144 + r_channel r; n; v] r) = observe (handle_note_on r n v).
Proof.
  intros r n v Hch Hn Hv.
  destruct (k_status_opens (r_parser r) (r_channel r) Hch) as (_ & H1 & _ & _).
  rewrite (k_three_bytes r _ _ _ _ _ _ _ H1 (k_on_1 _ n Hn) (k_on_2 _ n v ltac:(lia))).
  unfold apply_msg. rewrite Z.eqb_refl.
  replace (v =? 0) with false by (symmetry; apply Z.eqb_neq; lia). reflexivity.
Qed.

Theorem note_off_bytes_any_state : forall r n v,
  0 <= r_channel r < 16 -> 0 <= n < 128 -> 0 <= v < 128 ->
  observe (fold_left rx_parse [128 + r_channel r; n; v] r) = observe (handle_note_off r n).
Proof.
  intros r n v Hch Hn Hv.
  destruct (k_status_opens (r_parser r) (r_channel r) Hch) as (H1 & _ & _ & _).
  rewrite (k_three_bytes r _ _ _ _ _ _ _ H1 (k_off_1 _ n Hn) (k_off_2 _ n v Hv)).
  unfold apply_msg. rewrite Z.eqb_refl. reflexivity.
Qed.

Theorem pitch_bend_bytes_any_state : forall r lsb msb,
  0 <= r_channel r < 16 -> 0 <= lsb < 128 -> 0 <= msb < 128 ->
  observe (fold_left rx_parse [224 + r_channel r; lsb; msb] r)
  = observe (apply_msg r (MPitchBend (r_channel r) msb lsb)).
Proof.
  intros r lsb msb Hch Hl Hm.
  destruct (k_status_opens (r_parser r) (r_channel r) Hch) as (_ & _ & _ & H1).
  exact (k_three_bytes r _ _ _ _ _ _ _ H1 (k_pb_1 _ lsb Hl) (k_pb_2 _ lsb msb Hl Hm)).
Qed.

(** ** pitch bend: the value, not only its end points and monotonicity

    (C18 asks only for 0 -> -1, 8192 -> 0, 16383 -> +1 and strict monotonicity; a model that
    moves the switch between the two divisors, e.g. [if 1 <? v], still satisfies that.  This
    pins every value: the correctly rounded quotient by 8192 below the centre and by 8191
    above it, the clamp never being active.) *)
Theorem pitch_bend_value : forall x, 0 <= x <= 16383 ->
  let v := x - 8192 in
  fin (value14_to_f32 (x / 128) (x mod 128)) /\
  R32 (value14_to_f32 (x / 128) (x mod 128))
  = rnd (IZR v / IZR (if 0 <? v then 8191 else 8192)).
Proof.
  intros x Hx v. unfold value14_to_f32.
  replace (x / 128 * 128 + x mod 128 - 8192) with v
    by (unfold v; pose proof (Z.div_mod x 128 ltac:(lia)); lia).
  assert (Hv : -8192 <= v <= 8191) by (unfold v; lia).
  set (d := if 0 <? v then 8191 else 8192).
  replace (if 0 <? v then of_Z 8191 else of_Z 8192) with (of_Z d)
    by (unfold d; destruct (0 <? v); reflexivity).
  assert (Hd : 8191 <= d <= 8192 /\ Z.abs v <= d).
  { unfold d. destruct (Z.ltb_spec 0 v); lia. }
  destruct Hd as [Hd Hvd].
  destruct (fin_R32_of_Z_small v) as [Vv Fv]; [lia|].
  destruct (fin_R32_of_Z_small d) as [Vd Fd]; [lia|].
  assert (Hdpos : (0 < IZR d)%R) by (apply IZR_lt; lia).
  assert (Hq : (Rabs (IZR v / IZR d) <= 1)%R).
  { unfold Rdiv. rewrite Rabs_mult, Rabs_inv, (Rabs_pos_eq (IZR d)) by lra.
    apply Rmult_le_reg_r with (IZR d); [exact Hdpos|].
    rewrite Rmult_assoc, Rinv_l, Rmult_1_r, Rmult_1_l by lra.
    rewrite <- abs_IZR. apply IZR_le. exact Hvd. }
  assert (Hr : (Rabs (rnd (IZR v / IZR d)) <= 1)%R).
  { apply rnd_abs_le; [apply (fmt_int 1); lia | exact Hq]. }
  destruct (fdiv_correct (of_Z v) (of_Z d) Fv Fd) as [Vq Fq].
  - rewrite Vd. lra.
  - rewrite Vv, Vd. apply Rle_lt_trans with 1%R; [exact Hr|]. rewrite MAXF_val. lra.
  - rewrite Vv, Vd in Vq.
    destruct (fin_R32_of_Z_small (-1)) as [Vm1 Fm1]; [lia|].
    destruct (fin_R32_of_Z_small 1) as [V1 F1]; [lia|].
    assert (Hr' : (-1 <= rnd (IZR v / IZR d) <= 1)%R)
      by (revert Hr; unfold Rabs; destruct (Rcase_abs _); lra).
    unfold fclamp.
    replace (flt (fdiv (of_Z v) (of_Z d)) f_m1) with false.
    2:{ symmetry. apply flt_false; [exact Fq | exact Fm1 |].
        unfold f_m1. rewrite Vm1, Vq. lra. }
    replace (flt f_1 (fdiv (of_Z v) (of_Z d))) with false.
    2:{ symmetry. apply flt_false; [exact F1 | exact Fq |].
        unfold f_1. rewrite V1, Vq. lra. }
    split; [exact Fq | exact Vq].
Qed.

(** ** the reference decoder on one complete channel-voice message, literals only *)

Lemma k_decode_3 : forall s a b,
  is_realtime s = false -> is_status_byte s = true -> 0 <= a < 128 -> 0 <= b < 128 ->
  decode [s; a; b] = segment_msgs (s, [a; b]).
Proof.
  intros s a b Hrt Hs Ha Hb.
  assert (Hra : is_realtime a = false) by (unfold is_realtime; apply Z.leb_gt; lia).
  assert (Hrb : is_realtime b = false) by (unfold is_realtime; apply Z.leb_gt; lia).
  unfold decode. cbn [filter]. rewrite Hrt, Hra, Hrb. cbn [negb].
  cbn [split_segments]. rewrite Hs, (k_data_not_status a Ha), (k_data_not_status b Hb).
  cbn [snd flat_map]. rewrite app_nil_r. reflexivity.
Qed.

Theorem decode_voice_message : forall ch a b,
  0 <= ch < 16 -> 0 <= a < 128 -> 0 <= b < 128 ->
  decode [128 + ch; a; b] = [MNoteOff ch a b] /\
  decode [144 + ch; a; b] = [MNoteOn ch a b] /\
  decode [176 + ch; a; b] = [MControlChange ch a b] /\
  decode [224 + ch; a; b] = [MPitchBend ch b a] /\
  decode [160 + ch; a; b] = [] /\ decode [192 + ch; a; b] = [] /\ decode [208 + ch; a; b] = [].
Proof.
  intros ch a b Hch Ha Hb.
  case16 ch Hch; repeat split;
    (rewrite k_decode_3; [reflexivity | reflexivity | reflexivity | exact Ha | exact Hb]).
Qed.

(** ** the two classifiers the decoder borrows from the model are plain comparisons *)

Theorem is_status_byte_spec : forall b, is_byte b -> is_status_byte b = (128 <=? b).
Proof.
  intros b Hb. assert (H := ksweep _ 256 k_status_sweep b Hb). cbv beta in H.
  apply eqb_prop in H. exact H.
Qed.

Lemma k_system_sweep :
  forallb (fun b => Bool.eqb (is_system_message b) (240 <=? b)) (krange 256) = true.
Proof. vm_compute. reflexivity. Qed.

Theorem is_system_message_spec : forall b, is_byte b -> is_system_message b = (240 <=? b).
Proof.
  intros b Hb. assert (H := ksweep _ 256 k_system_sweep b Hb). cbv beta in H.
  apply eqb_prop in H. exact H.
Qed.

Print Assumptions cc_bytes_any_state.
Print Assumptions note_on_bytes_any_state.
Print Assumptions note_off_bytes_any_state.
Print Assumptions pitch_bend_bytes_any_state.
Print Assumptions pitch_bend_value.
Print Assumptions decode_voice_message.
Print Assumptions is_status_byte_spec.
Print Assumptions is_system_message_spec.
