(** SineCells2: table cells 256 .. 383 of the sine table are within 0.0124 of the real
    sine (one call to [interval] per cell; see SineBase.v). *)
From Coq Require Import ZArith Reals.
From Interval Require Import Tactic.
From SU.Proofs Require Import SineBase.

Lemma sine_cells_2 : forall i, (256 <= i < 384)%Z -> scell_ok i.
Proof. cells_loop. Qed.
