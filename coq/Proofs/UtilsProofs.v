(** Proofs for src/utils.rs: the loop of [ilog_2] against the closed form [Z.log2]
    used by Model/Utils.v. *)
From Coq Require Import ZArith Lia.
From SU.gen Require Import Consts.
From SU.Model Require Import Utils.
Open Scope Z_scope.

(** the Rust loop [while 1 < x { x /= 2; res += 1 }], with fuel *)
Fixpoint ilog_2_loop (fuel : nat) (x res : Z) : Z :=
  match fuel with
  | O => res
  | S f => if 1 <? x then ilog_2_loop f (x / 2) (res + 1) else res
  end.

Lemma log2_halve : forall x, 1 < x -> Z.log2 x = 1 + Z.log2 (x / 2).
Proof.
  intros x Hx.
  assert (H1 : 1 <= Z.log2 x).
  { change 1 with (Z.log2 2) at 1. apply Z.log2_le_mono. lia. }
  replace (x / 2) with (Z.shiftr x 1).
  - rewrite Z.log2_shiftr by lia. lia.
  - rewrite Z.shiftr_div_pow2 by lia. reflexivity.
Qed.

Lemma log2_small : forall x, 0 <= x -> x <= 1 -> Z.log2 x = 0.
Proof.
  intros x H0 H1.
  assert (Hc : x = 0 \/ x = 1) by lia.
  destruct Hc as [-> | ->]; reflexivity.
Qed.

Lemma ilog_2_loop_gen : forall fuel x res,
  0 <= x < 2 ^ Z.of_nat fuel -> ilog_2_loop fuel x res = res + Z.log2 x.
Proof.
  induction fuel as [| f IH]; intros x res Hx.
  - cbn [ilog_2_loop]. change (2 ^ Z.of_nat 0) with 1 in Hx.
    rewrite (log2_small x) by lia. lia.
  - cbn [ilog_2_loop].
    destruct (Z.ltb_spec 1 x) as [Hlt | Hge].
    + rewrite IH.
      * rewrite (log2_halve x Hlt). lia.
      * rewrite Nat2Z.inj_succ, Z.pow_succ_r in Hx by lia.
        split.
        -- apply Z.div_pos; lia.
        -- apply Z.div_lt_upper_bound; lia.
    + rewrite (log2_small x) by lia. lia.
Qed.

(** a [usize] needs at most 64 iterations *)
Theorem ilog_2_loop_correct : forall x, 0 <= x < 2 ^ 64 -> ilog_2_loop 64 x 0 = ilog_2 x.
Proof.
  intros x Hx. unfold ilog_2.
  rewrite ilog_2_loop_gen.
  - reflexivity.
  - change (Z.of_nat 64) with 64. exact Hx.
Qed.

(** the loop terminates by itself: more fuel changes nothing *)
Corollary ilog_2_loop_fuel : forall fuel x, (64 <= fuel)%nat -> 0 <= x < 2 ^ 64 ->
  ilog_2_loop fuel x 0 = ilog_2 x.
Proof.
  intros fuel x Hf Hx. unfold ilog_2. rewrite ilog_2_loop_gen; [ reflexivity | ].
  split; [ lia | ].
  apply Z.lt_le_trans with (2 ^ 64); [ lia | ].
  apply Z.pow_le_mono_r; lia.
Qed.

(** the table-size instances used by the model (Model/Lfo.v [LIDX], Model/Adsr.v [IDX]) *)
Lemma ilog_2_1024 : ilog_2 1024 = 10.
Proof. vm_compute. reflexivity. Qed.

Lemma ilog_2_sine_lut : ilog_2 SINE_LUT_SIZE = 10.
Proof. vm_compute. reflexivity. Qed.

Lemma ilog_2_adsr_lut : ilog_2 ADSR_CURVE_LUT_SIZE = 10.
Proof. vm_compute. reflexivity. Qed.

Lemma ilog_2_loop_1024 : ilog_2_loop 64 1024 0 = 10.
Proof. vm_compute. reflexivity. Qed.

Print Assumptions ilog_2_loop_correct.
Print Assumptions ilog_2_loop_fuel.
Print Assumptions ilog_2_1024.
