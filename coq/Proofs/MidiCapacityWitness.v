(** The witnesses that the capacity hypothesis of the positional C05 theorems mattered
    (split from MidiExtraProofs.v: the two lemmas evaluate a 65-operation history with
    [vm_compute], which the independent checker coqchk re-does very slowly; keeping them in
    their own file lets coqchk finish on the properties that do not cite them). *)
From Coq Require Import ZArith Bool List Lia Arith.
Import ListNotations.
From SU Require Import F32.
From SU.gen Require Import Consts.
From SU.Model Require Import Midi.
From SU.Spec Require Import MidiSpec.
From SU.Proofs Require Import MidiCCProofs MidiProofs MidiParserProofs MidiLiftProofs MidiExtraProofs.
Open Scope Z_scope.

(** ** the capacity hypothesis mattered for the formulation through [gate_spec] *)

(** 33 distinct note-ons (notes 0..32), then note-offs for the first 32 (notes 0..31):
    the 33rd note-on was dropped by the full buffer, so the receiver holds nothing, its
    gate is low and the falling flag is set; positionally, note 32 is still outstanding *)
Definition capacity_history : list mop :=
  map (fun n => OMsg (MNoteOn 0 (Z.of_nat n) 100)) (seq 0 33)
  ++ map (fun n => OMsg (MNoteOff 0 (Z.of_nat n) 0)) (seq 0 32).

Lemma Some_inj {A} (a b : A) : Some a = Some b -> a = b.
Proof. intros H. inversion H. reflexivity. Qed.

Lemma capacity_witness :
  r_gate (mrun 0 capacity_history) = false /\
  r_held (mrun 0 capacity_history) = [] /\
  mout 0 capacity_history OPollFall = Some true /\
  held_spec 0 capacity_history = [32] /\
  gate_spec 0 capacity_history = true /\
  pending_fall 0 capacity_history = false /\
  pending_fall_g 0 capacity_history = true /\
  ~ within_capacity 0 capacity_history.
Proof.
  assert (Hout : mout 0 capacity_history OPollFall = Some true) by (vm_compute; reflexivity).
  split; [vm_compute; reflexivity|].
  split; [vm_compute; reflexivity|].
  split; [exact Hout|].
  split; [vm_compute; reflexivity|].
  split; [vm_compute; reflexivity|].
  split; [vm_compute; reflexivity|].
  split; [exact (Some_inj _ _ (eq_trans (eq_sym (C05_falling_any 0 _)) Hout))|].
  intros Hw. specialize (Hw 33%nat). apply Z.leb_le in Hw. vm_compute in Hw. discriminate Hw.
Qed.

(** the same for [rising_gate()]: after a [rising_gate()] call, one more note-on finds the
    real gate low and raises an edge, although positionally a note was still outstanding *)
Lemma capacity_witness_rise :
  let h := capacity_history ++ [OPollRise; OMsg (MNoteOn 0 40 100)] in
  mout 0 h OPollRise = Some true /\
  pending_rise 0 h = false /\
  pending_rise_g 0 h = true.
Proof.
  cbv zeta.
  assert (Hout : mout 0 (capacity_history ++ [OPollRise; OMsg (MNoteOn 0 40 100)]) OPollRise
                 = Some true) by (vm_compute; reflexivity).
  split; [exact Hout|].
  split; [vm_compute; reflexivity|].
  exact (Some_inj _ _ (eq_trans (eq_sym (C05_rising_any 0 _)) Hout)).
Qed.

