(** * GlideKillers: statements found missing by mutating Model/Glide.v

    A mutation campaign on Model/Glide.v (28 one-line changes) broke the build every time, but
    for two of the changes only an auxiliary lemma's PROOF broke -- no property statement of
    Props/C13.v, Props/C14.v or Props/C17.v is false for the changed model:

    - [glide_new] starting with [cached_t = 0.0] instead of the marker -1.0 (the first
      [set_time t] with [t <= 0.05] is then ignored and the processor stays on the fastest
      setting).  [C14_first_set_time_honoured] speaks about the constant [GL_T0], not about
      what [glide_new] stores, and [C14_cached_t_in_effect] is satisfied by [cached_t = 0]
      through its second disjunct ([fresh_is_time_zero] below shows why).
      Killers: [new_cached_marker], [first_set_time_from_new], [first_set_time_pole],
      [first_glide_end_to_end].
    - [glide_step] (the glue of [glide_after] / [coeffs_used] / [glide_run]) not advancing the
      filter on [GProcess]: [glide_outputs] does not go through [glide_step], so every theorem
      about "reachable" states silently covers fewer states.
      Killers: [after_outputs_process], [after_outputs_set_time], [outputs_defined_iff_after].

    [first_glide_end_to_end] is also the only statement that chains
    set_time -> coefficients -> process outputs -> 99.5 % / 40..55 % on [glide_outputs]
    itself (the three links were separate theorems joined only in comments). *)

From Coq Require Import ZArith Reals Lia Lra Bool List.
From Flocq Require Import Core IEEE754.BinarySingleNaN.
From SU Require Import F32 F32Lemmas.
From SU.gen Require Import Consts.
From SU.Model Require Import Utils Tanf Glide.
From SU.Spec Require Import GlideSpec RunSpec.
From SU.Proofs Require Import LfoProofs GlideCoeffProofs GlideFilterProofs GlideTimeProofs
  GlideExtraProofs.
Import ListNotations.
Open Scope R_scope.

(** ** the new processor *)

(** what [GlideProcessor::new] stores: the marker -1.0 as cached time, the sample rate, the
    two cutoff limits, and a filter at rest (all four memories +0.0) *)
Theorem new_cached_marker : forall fs g0, glide_new fs = Some g0 ->
  g_cached_t g0 = GL_T0 /\ R32 (g_cached_t g0) = -1 /\
  g_fs g0 = fs /\ g_min_fc g0 = GL_MIN_FC /\ g_max_fc g0 = fdiv fs GL_DIV /\
  d_y1 (g_lpf g0) = f_0 /\ d_y2 (g_lpf g0) = f_0 /\
  d_x1 (g_lpf g0) = f_0 /\ d_x2 (g_lpf g0) = f_0.
Proof.
  intros fs g0. unfold glide_new.
  destruct (hz_ok fs && hz_ok (fdiv fs GL_DIV)); [|discriminate].
  destruct (from_params fs (fdiv fs GL_DIV)) as [c|]; [|discriminate].
  intros H. injection H as <-.
  cbn [g_cached_t g_fs g_min_fc g_max_fc g_lpf df1_new d_y1 d_y2 d_x1 d_x2].
  repeat split; try reflexivity. exact R32_T0.
Qed.

(** why [C14_cached_t_in_effect] cannot tell the marker from 0.0: the coefficient set a new
    processor starts with IS the one of the time 0.0 *)
Theorem fresh_is_time_zero : forall fs g0, glide_fs_ok fs -> glide_new fs = Some g0 ->
  coeffs_for g0 f_0 = Some (d_c (g_lpf g0)).
Proof.
  intros fs g0 Hfs E0.
  destruct (fastest fs g0 g0 f_0 Hfs E0) as [H _].
  - exists []. split; [constructor|reflexivity].
  - exact fin_f_0.
  - rewrite R32_f_0. destruct Hfs as [_ Hfs]. split; [lra|]. apply Rdiv_lt_0_compat; lra.
  - exact H.
Qed.

(** the FIRST [set_time] call on a new processor is honoured for every documented time (down
    to 0 and in particular for the times <= 0.05 s that lie in the dead band of 0.0): it does
    not panic, the requested time becomes the time in effect, its coefficients are installed
    (a well-behaved set), and the filter memories stay at rest *)
Theorem first_set_time_from_new : forall fs g0 t,
  glide_fs_ok fs -> glide_new fs = Some g0 -> glide_time_ok t ->
  exists g', glide_set_time g0 t = Some g' /\
    g_cached_t g' = t /\
    Some (d_c (g_lpf g')) = coeffs_for g0 t /\
    good (d_c (g_lpf g')) /\ 0.6 / R32 fs <= speed (d_c (g_lpf g')) /\
    d_y1 (g_lpf g') = f_0 /\ d_y2 (g_lpf g') = f_0 /\
    d_x1 (g_lpf g') = f_0 /\ d_x2 (g_lpf g') = f_0.
Proof.
  intros fs g0 t Hfs E0 Ht.
  destruct (coeffs_good fs [GSetTime t] Hfs) as (g0' & E0' & (g' & Ea) & HF).
  { constructor; [exact Ht|constructor]. }
  rewrite E0 in E0'. injection E0' as <-.
  cbn [glide_after glide_step] in Ea. cbn [coeffs_used glide_step] in HF.
  destruct (glide_set_time g0 t) as [g1|] eqn:Es; [|discriminate].
  injection Ea as <-.
  cbn [coeffs_used] in HF.
  inversion HF as [|c0 l0 _ HF1]; subst. inversion HF1 as [|c1 l1 [Hg Hs] _]; subst.
  destruct (new_cached_marker fs g0 E0) as (Kc & _ & _ & _ & _ & Y1 & Y2 & X1 & X2).
  assert (Ha : is_almost t (g_cached_t g0) GL_EPS = false).
  { rewrite Kc. destruct Ht as [Ft Ht]. apply first_set_time_honoured; [exact Ft|lra]. }
  destruct (dead_band g0 t) as [_ D]. destruct (D Ha g1 Es) as (D1 & D2 & _).
  destruct (set_time_mem g0 t g1 Es) as (M1 & M2 & M3 & M4).
  exists g1. split; [reflexivity|].
  rewrite M1, M2, M3, M4.
  split; [exact D1|]. split; [exact D2|]. split; [exact Hg|]. split; [exact Hs|].
  split; [exact Y1|]. split; [exact Y2|]. split; [exact X1|exact X2].
Qed.

(** so the pole in force after that first call is the one of the requested time (for at
    least 100 samples per t): a 40 ms glide at 48 kHz is a 40 ms glide, not "glide off" *)
Theorem first_set_time_pole : forall fs g0 t g',
  glide_fs_ok fs -> glide_new fs = Some g0 -> glide_time_ok t -> 100 <= R32 t * R32 fs ->
  glide_set_time g0 t = Some g' ->
  let p0 := ideal_pole (R32 t * R32 fs) in
  g_cached_t g' = t /\ good (d_c (g_lpf g')) /\
  Rabs (pole (d_c (g_lpf g')) - p0) <= / 65536 * (1 - p0) + 4 * / 16777216.
Proof.
  intros fs g0 t g' Hfs E0 Ht HN Es p0.
  destruct (first_set_time_from_new fs g0 t Hfs E0 Ht) as (g1 & Es' & C1 & C2 & _).
  rewrite Es in Es'. injection Es' as <-.
  split; [exact C1|].
  exact (pole_accuracy fs g0 t (d_c (g_lpf g')) Hfs E0 Ht HN (eq_sym C2)).
Qed.

(** ** end to end: new, set_time t, then a step from rest (0) to [hi]

    The outputs of [process] themselves ([glide_outputs], not [run_const] on a filter record):
    with N = t * fs >= 100 samples per t, sample number n >= N (n the least such integer) of
    the response is [hi * s] with [s >= 0.996], and sample n10 >= N/10 is [hi * s10] with
    [0.41 <= s10 <= 0.54], both up to the resolution of the slowest setting of that sample
    rate, [2 * resolution (0.6 / fs) * B] for any bound [B >= |hi|] in [2^-100, 2^64]. *)
Lemma slowest_speed_ok : forall fs, glide_fs_ok fs -> / 100000 <= 0.6 / R32 fs.
Proof.
  intros fs [_ [H1 H2]].
  assert (H : / 48000 <= / R32 fs) by (apply Rinv_le_contravar; lra).
  unfold Rdiv. lra.
Qed.

Lemma outputs_set_time_repeat : forall g t g' x n,
  glide_set_time g t = Some g' ->
  glide_outputs g (GSetTime t :: repeat (GProcess x) n) = Some (snd (run_const (g_lpf g') x n)).
Proof.
  intros g t g' x n Es. cbn [glide_outputs]. rewrite Es. apply process_repeat_outputs.
Qed.

Lemma step_from_rest : forall g' hi n kappa B,
  good (d_c (g_lpf g')) -> kappa <= speed (d_c (g_lpf g')) -> / 100000 <= kappa ->
  fin hi -> Rabs (R32 hi) <= B -> bpow radix2 (-100) <= B -> B <= bpow radix2 64 ->
  d_y1 (g_lpf g') = f_0 -> d_y2 (g_lpf g') = f_0 ->
  d_x1 (g_lpf g') = f_0 -> d_x2 (g_lpf g') = f_0 ->
  Rabs (R32 (last (snd (run_const (g_lpf g') hi (S n))) f_0)
        - R32 hi * step_response (pole (d_c (g_lpf g'))) n) <= 2 * resolution kappa * B.
Proof.
  intros g' hi n kappa B Hg Hk Hk5 Fh Bh HBlo HBhi Y1 Y2 X1 X2.
  assert (HB0 : 0 <= B) by (pose proof (bpow_ge_0 radix2 (-100)); lra).
  assert (B0 : Rabs (R32 f_0) <= B) by (rewrite R32_f_0, Rabs_R0; exact HB0).
  pose proof (step_tracks_partial (g_lpf g') f_0 hi n kappa B Hg Hk Hk5 fin_f_0 Fh B0 Bh
                HBlo HBhi X1 Y1) as H.
  rewrite X2, Y2 in H. specialize (H fin_f_0 fin_f_0 B0 B0).
  destruct (run_const (g_lpf g') hi (S n)) as [d' ys]. cbn [snd]. cbv zeta in H.
  rewrite R32_f_0 in H.
  replace (R32 hi * step_response (pole (d_c (g_lpf g'))) n)
    with (0 + (R32 hi - 0) * step_response (pole (d_c (g_lpf g'))) n) by ring.
  exact H.
Qed.

Theorem first_glide_end_to_end : forall fs g0 t hi B (n n10 : nat),
  glide_fs_ok fs -> glide_new fs = Some g0 -> glide_time_ok t ->
  100 <= R32 t * R32 fs ->
  fin hi -> Rabs (R32 hi) <= B -> bpow radix2 (-100) <= B -> B <= bpow radix2 64 ->
  R32 t * R32 fs <= INR n < R32 t * R32 fs + 1 ->
  R32 t * R32 fs / 10 <= INR n10 < R32 t * R32 fs / 10 + 1 ->
  exists ys ys10 s s10,
    glide_outputs g0 (GSetTime t :: repeat (GProcess hi) (S n)) = Some ys /\
    glide_outputs g0 (GSetTime t :: repeat (GProcess hi) (S n10)) = Some ys10 /\
    length ys = S n /\ length ys10 = S n10 /\
    Rabs (R32 (last ys f_0) - R32 hi * s) <= 2 * resolution (0.6 / R32 fs) * B /\
    Rabs (R32 (last ys10 f_0) - R32 hi * s10) <= 2 * resolution (0.6 / R32 fs) * B /\
    0.996 <= s /\ 0.41 <= s10 <= 0.54.
Proof.
  intros fs g0 t hi B n n10 Hfs E0 Ht HN Fh Bh HBlo HBhi Hn Hn10.
  destruct (first_set_time_from_new fs g0 t Hfs E0 Ht)
    as (g' & Es & _ & C2 & Hg & Hs & Y1 & Y2 & X1 & X2).
  destruct (pole_accuracy fs g0 t (d_c (g_lpf g')) Hfs E0 Ht HN (eq_sym C2)) as [_ Hp].
  cbv zeta in Hp.
  assert (HN2 : R32 t * R32 fs <= 480000).
  { destruct Ht as [_ [T0 T1]]. destruct Hfs as [_ [S0 S1]].
    replace 480000 with (10 * 48000) by ring.
    apply Rmult_le_compat; lra. }
  destruct (time_constant_real (R32 t * R32 fs) (pole (d_c (g_lpf g'))) n n10
              (conj HN HN2) Hp Hn Hn10) as (T1 & T2).
  pose proof (slowest_speed_ok fs Hfs) as Hk5.
  exists (snd (run_const (g_lpf g') hi (S n))), (snd (run_const (g_lpf g') hi (S n10))),
         (step_response (pole (d_c (g_lpf g'))) n), (step_response (pole (d_c (g_lpf g'))) n10).
  split; [exact (outputs_set_time_repeat g0 t g' hi (S n) Es)|].
  split; [exact (outputs_set_time_repeat g0 t g' hi (S n10) Es)|].
  split; [apply run_const_length|]. split; [apply run_const_length|].
  split; [exact (step_from_rest g' hi n _ B Hg Hs Hk5 Fh Bh HBlo HBhi Y1 Y2 X1 X2)|].
  split; [exact (step_from_rest g' hi n10 _ B Hg Hs Hk5 Fh Bh HBlo HBhi Y1 Y2 X1 X2)|].
  split; [exact T1|exact T2].
Qed.

(** ** the glue between the two run functions of the specification

    [glide_after] / [coeffs_used] / [glide_run] go through [glide_step], [glide_outputs] does
    not: both advance through the same states, the state after [process x] being the one
    [glide_process] returns and the state after [set_time t] the one [glide_set_time] returns *)
Theorem after_outputs_process : forall g x ops,
  glide_step g (GProcess x) = Some (fst (glide_process g x)) /\
  glide_after g (GProcess x :: ops) = glide_after (fst (glide_process g x)) ops /\
  glide_run (Some g) (GProcess x :: ops) = glide_run (Some (fst (glide_process g x))) ops /\
  glide_outputs g (GProcess x :: ops)
  = option_map (cons (snd (glide_process g x))) (glide_outputs (fst (glide_process g x)) ops) /\
  coeffs_used g (GProcess x :: ops) = d_c (g_lpf g) :: coeffs_used (fst (glide_process g x)) ops /\
  g_lpf (fst (glide_process g x)) = fst (df1_run (g_lpf g) x) /\
  snd (glide_process g x) = snd (df1_run (g_lpf g) x) /\
  g_cached_t (fst (glide_process g x)) = g_cached_t g.
Proof.
  intros g x ops.
  split; [reflexivity|]. split; [reflexivity|]. split; [reflexivity|].
  split.
  - cbn [glide_outputs]. destruct (glide_process g x) as [g1 y] eqn:E. cbn [fst snd].
    destruct (glide_outputs g1 ops); reflexivity.
  - split; [reflexivity|]. rewrite glide_process_eq. cbn [fst snd g_lpf g_cached_t].
    repeat split; reflexivity.
Qed.

Theorem after_outputs_set_time : forall g t ops,
  glide_step g (GSetTime t) = glide_set_time g t /\
  glide_after g (GSetTime t :: ops)
  = match glide_set_time g t with Some g' => glide_after g' ops | None => None end /\
  glide_outputs g (GSetTime t :: ops)
  = match glide_set_time g t with Some g' => glide_outputs g' ops | None => None end.
Proof. intros g t ops. repeat split; reflexivity. Qed.

(** a history panics for one of them exactly when it panics for the other, and there is one
    output per [process] call *)
Theorem outputs_defined_iff_after : forall ops g,
  (glide_outputs g ops = None <-> glide_after g ops = None) /\
  (forall ys, glide_outputs g ops = Some ys ->
     length ys = length (filter (fun o => match o with GProcess _ => true | _ => false end) ops)).
Proof.
  induction ops as [|[t|x] r IH]; intros g.
  - cbn. split; [split; discriminate|]. intros ys H. injection H as <-. reflexivity.
  - cbn [glide_outputs glide_after glide_step filter].
    destruct (glide_set_time g t) as [g'|]; [apply IH|].
    split; [split; reflexivity|discriminate].
  - destruct (after_outputs_process g x r) as (_ & Ea & _ & Eo & _). rewrite Ea, Eo.
    destruct (IH (fst (glide_process g x))) as [I1 I2].
    cbn [filter length].
    destruct (glide_outputs (fst (glide_process g x)) r) as [ys'|]; cbn [option_map].
    + split.
      * split; [discriminate|]. intros H. apply I1 in H. discriminate.
      * intros ys H. injection H as <-. cbn [length]. f_equal. apply I2. reflexivity.
    + split; [|discriminate]. split; [intros _; apply I1; reflexivity|reflexivity].
Qed.

Print Assumptions new_cached_marker.
Print Assumptions first_set_time_from_new.
Print Assumptions first_set_time_pole.
Print Assumptions first_glide_end_to_end.
Print Assumptions outputs_defined_iff_after.
