(** Proofs for Props/C18.v: MIDI controllers and pitch bend are scaled and routed
    as documented.  The statements use the definitions [ctrl_view], [note_view]
    and [bend] of Props/C18.v in unfolded form. *)
From Coq Require Import ZArith Reals Lia Lra Bool List.
Import ListNotations.
From Flocq Require Import Core IEEE754.BinarySingleNaN.
From SU Require Import F32 F32Lemmas.
From SU.gen Require Import Consts.
From SU.Model Require Import Midi.
From SU.Spec Require Import MidiSpec.
Open Scope Z_scope.

(** ** finite sweeps *)

Definition zrange (N : Z) : list Z := map Z.of_nat (seq 0 (Z.to_nat N)).

Lemma sweep_lift : forall (P : Z -> bool) (N : Z),
  forallb P (zrange N) = true -> forall i, 0 <= i < N -> P i = true.
Proof.
  intros P N H i Hi. rewrite forallb_forall in H. apply H.
  unfold zrange. apply in_map_iff. exists (Z.to_nat i). split; [lia|].
  apply in_seq. lia.
Qed.

(** adjacent pairs strictly increasing and all values finite: strictly increasing *)
Lemma chain_lt : forall (f : Z -> f32) (N : Z),
  (forall i, 0 <= i <= N -> fin (f i)) ->
  (forall i, 0 <= i < N -> flt (f i) (f (i + 1)) = true) ->
  forall a b, 0 <= a -> a < b -> b <= N -> flt (f a) (f b) = true.
Proof.
  intros f N HF HS a b Ha Hab Hb.
  apply flt_true; [apply HF; lia | apply HF; lia |].
  assert (H : forall n : nat, a + 1 + Z.of_nat n <= N ->
              (R32 (f a) < R32 (f (a + 1 + Z.of_nat n)%Z))%R).
  { induction n as [|n IH]; intros Hn.
    - replace (a + 1 + Z.of_nat 0) with (a + 1) by lia.
      apply flt_true; [apply HF; lia | apply HF; lia | apply HS; lia].
    - apply Rlt_trans with (R32 (f (a + 1 + Z.of_nat n)%Z)).
      + apply IH. lia.
      + replace (a + 1 + Z.of_nat (S n)) with (a + 1 + Z.of_nat n + 1) by lia.
        apply flt_true; [apply HF; lia | apply HF; lia | apply HS; lia]. }
  replace b with (a + 1 + Z.of_nat (Z.to_nat (b - a - 1))) by lia.
  apply H. lia.
Qed.

(** ** dispatch and routing *)

Lemma cc_dispatch : forall r c v,
  apply_msg r (MControlChange (r_channel r) c v) = handle_cc r c v.
Proof. intros r c v. unfold apply_msg. rewrite Z.eqb_refl. reflexivity. Qed.

Lemma cc_routing : forall r c v,
  let '(pb, mw, vol, cut, res, pt, pe, se) :=
    (r_pitch_bend r, r_mod_wheel r, r_volume r, r_cutoff r, r_resonance r, r_porta_time r,
     r_porta_en r, r_sustain_en r) in
  (r_pitch_bend (handle_cc r c v), r_mod_wheel (handle_cc r c v), r_volume (handle_cc r c v),
   r_cutoff (handle_cc r c v), r_resonance (handle_cc r c v), r_porta_time (handle_cc r c v),
   r_porta_en (handle_cc r c v), r_sustain_en (handle_cc r c v)) =
    if c =? 1 then (pb, value7_to_f32 v, vol, cut, res, pt, pe, se)
    else if c =? 7 then (pb, mw, value7_to_f32 v, cut, res, pt, pe, se)
    else if c =? 71 then (pb, mw, vol, value7_to_f32 v, res, pt, pe, se)
    else if c =? 74 then (pb, mw, vol, cut, value7_to_f32 v, pt, pe, se)
    else if c =? 5 then (pb, mw, vol, cut, res, value7_to_f32 v, pe, se)
    else if c =? 65 then (pb, mw, vol, cut, res, pt, 64 <=? v, se)
    else if c =? 64 then (pb, mw, vol, cut, res, pt, pe, 64 <=? v)
    else if c =? 121 then (f_0, f_0, f_0, f_0, f_0, f_0, true, true)
    else (pb, mw, vol, cut, res, pt, pe, se).
Proof.
  intros r c v. cbv beta iota.
  unfold handle_cc, CC_MOD_WHEEL, CC_VOLUME, CC_VCF_CUTOFF, CC_VCF_RESONANCE,
    CC_PORTAMENTO_TIME, CC_PORTAMENTO_SWITCH, CC_SUSTAIN_SWITCH, CC_ALL_CONTROLLERS_OFF,
    CC_ALL_NOTES_OFF, U7_HALF_SCALE.
  destruct (c =? 1) eqn:E1; [reflexivity|].
  destruct (c =? 7) eqn:E7; [reflexivity|].
  destruct (c =? 71) eqn:E71; [reflexivity|].
  destruct (c =? 74) eqn:E74; [reflexivity|].
  destruct (c =? 5) eqn:E5; [reflexivity|].
  destruct (c =? 65) eqn:E65; [reflexivity|].
  destruct (c =? 64) eqn:E64; [reflexivity|].
  destruct (c =? 121) eqn:E121; [reflexivity|].
  destruct (c =? 123) eqn:E123; reflexivity.
Qed.

Lemma cc_reset_power_on : forall r ch v,
  (r_pitch_bend (handle_cc r 121 v), r_mod_wheel (handle_cc r 121 v),
   r_volume (handle_cc r 121 v), r_cutoff (handle_cc r 121 v),
   r_resonance (handle_cc r 121 v), r_porta_time (handle_cc r 121 v),
   r_porta_en (handle_cc r 121 v), r_sustain_en (handle_cc r 121 v)) =
  (r_pitch_bend (rx_new ch), r_mod_wheel (rx_new ch), r_volume (rx_new ch), r_cutoff (rx_new ch),
   r_resonance (rx_new ch), r_porta_time (rx_new ch), r_porta_en (rx_new ch),
   r_sustain_en (rx_new ch)).
Proof. intros r ch v. reflexivity. Qed.

Lemma cc_notes_untouched : forall r c v, c <> 123 ->
  (r_note (handle_cc r c v), r_velocity (handle_cc r c v), r_gate (handle_cc r c v),
   r_rising (handle_cc r c v), r_falling (handle_cc r c v), r_held (handle_cc r c v),
   r_parser (handle_cc r c v), r_channel (handle_cc r c v), r_retrig (handle_cc r c v),
   r_prio (handle_cc r c v)) =
  (r_note r, r_velocity r, r_gate r, r_rising r, r_falling r, r_held r, r_parser r, r_channel r,
   r_retrig r, r_prio r).
Proof.
  intros r c v Hc.
  unfold handle_cc, CC_MOD_WHEEL, CC_VOLUME, CC_VCF_CUTOFF, CC_VCF_RESONANCE,
    CC_PORTAMENTO_TIME, CC_PORTAMENTO_SWITCH, CC_SUSTAIN_SWITCH, CC_ALL_CONTROLLERS_OFF,
    CC_ALL_NOTES_OFF, U7_HALF_SCALE.
  destruct (c =? 1) eqn:E1; [reflexivity|].
  destruct (c =? 7) eqn:E7; [reflexivity|].
  destruct (c =? 71) eqn:E71; [reflexivity|].
  destruct (c =? 74) eqn:E74; [reflexivity|].
  destruct (c =? 5) eqn:E5; [reflexivity|].
  destruct (c =? 65) eqn:E65; [reflexivity|].
  destruct (c =? 64) eqn:E64; [reflexivity|].
  destruct (c =? 121) eqn:E121; [reflexivity|].
  destruct (c =? 123) eqn:E123; [|reflexivity].
  apply Z.eqb_eq in E123. contradiction.
Qed.

(** ** controller value scaling *)

Lemma fin_R32_f_127 : R32 f_127 = 127%R /\ fin f_127.
Proof. unfold f_127. apply fin_R32_of_Z_small. lia. Qed.

Lemma value7_correct : forall v, 0 <= v <= 127 ->
  fin (value7_to_f32 v) /\ R32 (value7_to_f32 v) = rnd (IZR v / 127).
Proof.
  intros v Hv. unfold value7_to_f32.
  destruct (fin_R32_of_Z_small v) as [Vv Fv]; [lia|].
  destruct fin_R32_f_127 as [V127 F127].
  assert (H0 : (0 <= IZR v)%R) by (apply IZR_le; lia).
  assert (H1 : (IZR v <= 127)%R) by (apply IZR_le; lia).
  destruct (fdiv_correct (of_Z v) f_127 Fv F127) as [Vd Fd].
  - rewrite V127. lra.
  - apply no_overflow with 1%R.
    + apply (fmt_int 1). lia.
    + rewrite MAXF_val. lra.
    + rewrite Vv, V127. apply Rabs_le. split.
      * apply Rle_trans with 0%R; [lra|]. apply Rmult_le_pos; lra.
      * apply Rmult_le_reg_r with 127%R; [lra|]. field_simplify; lra.
  - split; [exact Fd|]. rewrite Vd, Vv, V127. reflexivity.
Qed.

Lemma value7_adjacent :
  forallb (fun a => flt (value7_to_f32 a) (value7_to_f32 (a + 1))) (zrange 127) = true.
Proof. vm_compute; reflexivity. Qed.

Lemma cc_scale :
  value7_to_f32 0 = f_0 /\ value7_to_f32 127 = f_1 /\
  (forall a b, 0 <= a -> a < b -> b <= 127 -> flt (value7_to_f32 a) (value7_to_f32 b) = true) /\
  (forall v, 0 <= v <= 127 -> fin (value7_to_f32 v) /\ R32 (value7_to_f32 v) = rnd (IZR v / 127)).
Proof.
  split; [apply B2SF_inj; vm_compute; reflexivity|].
  split; [apply B2SF_inj; vm_compute; reflexivity|].
  split; [|exact value7_correct].
  apply chain_lt.
  - intros i Hi. apply value7_correct. exact Hi.
  - intros i Hi.
    exact (sweep_lift (fun a => flt (value7_to_f32 a) (value7_to_f32 (a + 1))) 127
             value7_adjacent i Hi).
Qed.

(** ** pitch bend scaling *)

Definition bend14 (x : Z) : f32 := value14_to_f32 (x / 128) (x mod 128).

Lemma bend14_adjacent :
  forallb (fun a => let x := bend14 a in is_finite x && flt x (bend14 (a + 1))) (zrange 16383)
  = true.
Proof. vm_compute; reflexivity. Qed.

Lemma bend14_last_fin : is_finite (bend14 16383) = true.
Proof. vm_compute; reflexivity. Qed.

Lemma bend14_step : forall i, 0 <= i < 16383 ->
  fin (bend14 i) /\ flt (bend14 i) (bend14 (i + 1)) = true.
Proof.
  intros i Hi.
  generalize (sweep_lift _ 16383 bend14_adjacent i Hi). cbv beta zeta.
  intros H. apply andb_true_iff in H. exact H.
Qed.

Lemma pitch_bend_scale :
  value14_to_f32 (0 / 128) (0 mod 128) = f_m1 /\
  value14_to_f32 (8192 / 128) (8192 mod 128) = f_0 /\
  value14_to_f32 (16383 / 128) (16383 mod 128) = f_1 /\
  (forall a b, 0 <= a -> a < b -> b <= 16383 ->
     flt (value14_to_f32 (a / 128) (a mod 128)) (value14_to_f32 (b / 128) (b mod 128)) = true).
Proof.
  split; [apply B2SF_inj; vm_compute; reflexivity|].
  split; [apply B2SF_inj; vm_compute; reflexivity|].
  split; [apply B2SF_inj; vm_compute; reflexivity|].
  change (forall a b, 0 <= a -> a < b -> b <= 16383 -> flt (bend14 a) (bend14 b) = true).
  apply chain_lt.
  - intros i Hi. destruct (Z.eq_dec i 16383) as [E|E].
    + subst i. exact bend14_last_fin.
    + apply bend14_step. lia.
  - intros i Hi. apply bend14_step. exact Hi.
Qed.

(** ** pitch bend assembly: LSB first *)

Lemma parser_msgs_cons : forall st b r,
  parser_msgs st (b :: r) =
  match snd (parse_byte st b) with
  | Some m => m :: parser_msgs (fst (parse_byte st b)) r
  | None => parser_msgs (fst (parse_byte st b)) r
  end.
Proof.
  intros st b r. cbn [parser_msgs]. destruct (parse_byte st b) as [st' [m|]]; reflexivity.
Qed.

Lemma pb_status : forall ch, 0 <= ch < 16 ->
  parse_byte Idle (224 + ch) = (PitchBendRecvd ch, None).
Proof.
  intros ch H.
  assert (E : ch = 0 \/ ch = 1 \/ ch = 2 \/ ch = 3 \/ ch = 4 \/ ch = 5 \/ ch = 6 \/ ch = 7 \/
              ch = 8 \/ ch = 9 \/ ch = 10 \/ ch = 11 \/ ch = 12 \/ ch = 13 \/ ch = 14 \/ ch = 15)
    by lia.
  repeat (destruct E as [E|E]; [subst ch; vm_compute; reflexivity|]).
  subst ch; vm_compute; reflexivity.
Qed.

Lemma data_sweep : forallb (fun b => negb (is_status_byte b)) (zrange 128) = true.
Proof. vm_compute; reflexivity. Qed.

Lemma data_not_status : forall b, 0 <= b < 128 -> is_status_byte b = false.
Proof.
  intros b Hb. generalize (sweep_lift _ 128 data_sweep b Hb). cbv beta.
  intros H. apply negb_true_iff in H. exact H.
Qed.

Lemma pb_lsb : forall ch lsb, 0 <= lsb < 128 ->
  parse_byte (PitchBendRecvd ch) lsb = (PitchBendLsbRecvd ch lsb, None).
Proof. intros ch lsb H. unfold parse_byte. rewrite (data_not_status lsb H). reflexivity. Qed.

Lemma pb_msb : forall ch lsb msb, 0 <= lsb < 128 -> 0 <= msb < 128 ->
  parse_byte (PitchBendLsbRecvd ch lsb) msb = (PitchBendRecvd ch, Some (MPitchBend ch msb lsb)).
Proof.
  intros ch lsb msb Hl Hm. unfold parse_byte. rewrite (data_not_status msb Hm).
  rewrite (Z.min_l msb 127) by lia. rewrite (Z.min_l lsb 127) by lia. reflexivity.
Qed.

Lemma pitch_bend_lsb_first : forall ch lsb msb,
  0 <= ch < 16 -> 0 <= lsb < 128 -> 0 <= msb < 128 ->
  parser_msgs Idle [224 + ch; lsb; msb] = [MPitchBend ch msb lsb] /\
  r_pitch_bend (apply_msg (rx_new ch) (MPitchBend ch msb lsb)) =
    value14_to_f32 ((128 * msb + lsb) / 128) ((128 * msb + lsb) mod 128).
Proof.
  intros ch lsb msb Hch Hl Hm. split.
  - rewrite parser_msgs_cons, (pb_status ch Hch). cbn [fst snd].
    rewrite parser_msgs_cons, (pb_lsb ch lsb Hl). cbn [fst snd].
    rewrite parser_msgs_cons, (pb_msb ch lsb msb Hl Hm). cbn [fst snd].
    reflexivity.
  - unfold apply_msg.
    change (r_channel (rx_new ch)) with (Z.min ch 15).
    rewrite (Z.min_l ch 15) by lia. rewrite Z.eqb_refl.
    unfold set_ctrl. cbn [r_pitch_bend].
    replace ((128 * msb + lsb) / 128) with msb
      by (apply Z.div_unique_pos with lsb; lia).
    replace ((128 * msb + lsb) mod 128) with lsb
      by (apply Z.mod_unique_pos with msb; lia).
    reflexivity.
Qed.
