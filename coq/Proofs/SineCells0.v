(** SineCells0: table cells 0 .. 127 of the sine table are within 0.0124 of the real
    sine (one call to [interval] per cell; see SineBase.v). *)
From Coq Require Import ZArith Reals.
From Interval Require Import Tactic.
From SU.Proofs Require Import SineBase.

Lemma sine_cells_0 : forall i, (0 <= i < 128)%Z -> scell_ok i.
Proof. cells_loop. Qed.
