(** Ribbon controller, reviewer gaps for C15 / C16:
    (1) [config_ok] is inhabited: concrete examples and the general lemma
        [config_ok_of_quantifier] for every supported sample rate and resistor triple;
    (2) edge polls are transparent: [edge_polls_transparent] and the restatements of the
        C15 / C16 theorems over arbitrary histories of operations;
    (3) independence of earlier presses and of the excluded newest samples as a theorem
        ([C16_independent] and its two instances);
    (4) end-to-end bounds for the stored f32 value and for [ribbon_value]
        ([C16_between_f32], [C16_monotone_f32]), derived from the existing theorems. *)
From Coq Require Import ZArith Reals Lia Lra Psatz Bool List Floats.SpecFloat.
From Flocq Require Import Core IEEE754.BinarySingleNaN.
From SU Require Import F32 F32Lemmas.
From SU.gen Require Import Consts.
From SU.Model Require Import Ribbon.
From SU.Spec Require Import RibbonSpec.
From SU.Proofs Require Import RibbonProofs LfoProofs RibbonValueProofs NoPanicProofs.
Import ListNotations.
Open Scope R_scope.

(** * (2) Edge polls are transparent *)

(** the polled samples of a history of operations *)
Fixpoint samples_of (h : list rop) : list f32 :=
  match h with
  | [] => []
  | RPoll x :: rest => x :: samples_of rest
  | _ :: rest => samples_of rest
  end.

(** two controller states that agree on everything except the two edge latches *)
Definition same_but_latches (r r' : ribbon) : Prop :=
  rb_cap r = rb_cap r' /\ rb_boundary r = rb_boundary r' /\ rb_err r = rb_err r' /\
  rb_val r = rb_val r' /\ rb_pressing r = rb_pressing r' /\ rb_buf r = rb_buf r' /\
  rb_ignore r = rb_ignore r' /\ rb_discard r = rb_discard r' /\
  rb_received r = rb_received r' /\ rb_written r = rb_written r'.

Lemma same_refl : forall r, same_but_latches r r.
Proof. intros r. unfold same_but_latches. repeat split. Qed.

Lemma same_poll : forall r r' x, same_but_latches r r' ->
  same_but_latches (ribbon_poll r x) (ribbon_poll r' x).
Proof.
  intros [c b e v p jp jr buf I D rec wr] [c' b' e' v' p' jp' jr' buf' I' D' rec' wr'] x.
  unfold same_but_latches.
  cbn [rb_cap rb_boundary rb_err rb_val rb_pressing rb_buf rb_ignore rb_discard
       rb_received rb_written].
  intros (Hc & Hb & He & Hv & Hp & Hbuf & HI & HD & Hrec & Hwr).
  subst c' b' e' v' p' buf' I' D' rec' wr'.
  unfold ribbon_poll, ribbon_average.
  cbn [rb_cap rb_boundary rb_err rb_val rb_pressing rb_just_pressed rb_just_released
       rb_buf rb_ignore rb_discard rb_received rb_written].
  destruct (flt x b).
  - destruct (I <=? Z.min (rec + 1) I)%Z.
    + destruct (Z.min (wr + 1) (Z.of_nat c) =? Z.of_nat c)%Z;
        cbn [rb_cap rb_boundary rb_err rb_val rb_pressing rb_buf rb_ignore rb_discard
             rb_received rb_written]; repeat split.
    + cbn [rb_cap rb_boundary rb_err rb_val rb_pressing rb_buf rb_ignore rb_discard
           rb_received rb_written]; repeat split.
  - cbn [rb_cap rb_boundary rb_err rb_val rb_pressing rb_buf rb_ignore rb_discard
         rb_received rb_written]; repeat split.
Qed.

(** an edge poll changes nothing but (at most) the two latches ... *)
Lemma same_edge_jp : forall r, same_but_latches (fst (rstep r RJustPressed)) r.
Proof. intros r. unfold same_but_latches. cbn. repeat split. Qed.

Lemma same_edge_jr : forall r, same_but_latches (fst (rstep r RJustReleased)) r.
Proof. intros r. unfold same_but_latches. cbn. repeat split. Qed.

(** ... more precisely it clears its own latch and leaves the other one alone *)
Lemma edge_poll_only_clears_own_latch : forall r,
  rb_just_pressed (fst (rstep r RJustPressed)) = false /\
  rb_just_released (fst (rstep r RJustPressed)) = rb_just_released r /\
  rb_just_released (fst (rstep r RJustReleased)) = false /\
  rb_just_pressed (fst (rstep r RJustReleased)) = rb_just_pressed r.
Proof. intros r. cbn. repeat split. Qed.

Lemma same_trans : forall a b c,
  same_but_latches a b -> same_but_latches b c -> same_but_latches a c.
Proof.
  unfold same_but_latches. intros a b c H1 H2.
  destruct H1 as (A1 & A2 & A3 & A4 & A5 & A6 & A7 & A8 & A9 & A10).
  destruct H2 as (B1 & B2 & B3 & B4 & B5 & B6 & B7 & B8 & B9 & B10).
  repeat split; etransitivity; eassumption.
Qed.

Lemma same_run : forall h r r', same_but_latches r r' ->
  same_but_latches (rrun r h) (polls r' (samples_of h)).
Proof.
  induction h as [|o h IH]; intros r r' H.
  - exact H.
  - rewrite rrun_cons. destruct o as [x| |]; cbn [samples_of].
    + change (polls r' (x :: samples_of h)) with (polls (ribbon_poll r' x) (samples_of h)).
      apply IH. cbn [rstep fst]. apply same_poll, H.
    + apply IH. eapply same_trans; [apply same_edge_jp | exact H].
    + apply IH. eapply same_trans; [apply same_edge_jr | exact H].
Qed.

Lemma same_value : forall r r', same_but_latches r r' -> ribbon_value r = ribbon_value r'.
Proof.
  intros r r' (_ & Hb & _ & Hv & _). unfold ribbon_value. rewrite Hb, Hv. reflexivity.
Qed.

(** the lifting lemma: after any history of operations (polls and edge polls in any
    order, from any start state) everything except the two latches -- the gate, the
    stored value, the reported value, the sample buffer and all counters -- is what the
    polled samples alone produce *)
Theorem edge_polls_transparent : forall (r0 : ribbon) (h : list rop),
  let r := rrun r0 h in
  let r' := polls r0 (samples_of h) in
  rb_pressing r = rb_pressing r' /\ rb_val r = rb_val r' /\
  ribbon_value r = ribbon_value r' /\ rb_buf r = rb_buf r' /\
  rb_received r = rb_received r' /\ rb_written r = rb_written r' /\
  rb_cap r = rb_cap r' /\ rb_boundary r = rb_boundary r' /\ rb_err r = rb_err r' /\
  rb_ignore r = rb_ignore r' /\ rb_discard r = rb_discard r'.
Proof.
  intros r0 h r r'.
  pose proof (same_run h r0 r0 (same_refl r0)) as H. fold r r' in H.
  pose proof (same_value r r' H) as Hval.
  destruct H as (A1 & A2 & A3 & A4 & A5 & A6 & A7 & A8 & A9 & A10).
  repeat split; assumption.
Qed.

(** the same statement for the operation type of the model ([ribbon_step], the one the
    correspondence check and C17 run) *)
Fixpoint samples_of_ops (h : list ribbon_op) : list f32 :=
  match h with
  | [] => []
  | RbPoll x :: rest => x :: samples_of_ops rest
  | _ :: rest => samples_of_ops rest
  end.

Definition rop_of (o : ribbon_op) : rop :=
  match o with RbPoll x => RPoll x | RbJustPressed => RJustPressed | RbJustReleased => RJustReleased end.

Lemma ribbon_step_rstep : forall r o, ribbon_step r o = rstep r (rop_of o).
Proof. intros r [x| |]; reflexivity. Qed.

Lemma model_run_rrun : forall h r,
  fold_left (fun r o => fst (ribbon_step r o)) h r = rrun r (map rop_of h).
Proof.
  induction h as [|o h IH]; intros r.
  - reflexivity.
  - cbn [fold_left map]. rewrite rrun_cons, IH, ribbon_step_rstep. reflexivity.
Qed.

Lemma samples_of_map : forall h, samples_of (map rop_of h) = samples_of_ops h.
Proof.
  induction h as [|[x| |] h IH]; cbn [map rop_of samples_of samples_of_ops]; congruence.
Qed.

Theorem edge_polls_transparent_model : forall (r0 : ribbon) (h : list ribbon_op),
  let r := fold_left (fun r o => fst (ribbon_step r o)) h r0 in
  let r' := polls r0 (samples_of_ops h) in
  rb_pressing r = rb_pressing r' /\ rb_val r = rb_val r' /\
  ribbon_value r = ribbon_value r' /\ rb_buf r = rb_buf r' /\
  rb_received r = rb_received r' /\ rb_written r = rb_written r' /\
  rb_cap r = rb_cap r' /\ rb_boundary r = rb_boundary r' /\ rb_err r = rb_err r' /\
  rb_ignore r = rb_ignore r' /\ rb_discard r = rb_discard r'.
Proof.
  intros r0 h. cbv zeta. rewrite model_run_rrun, <- samples_of_map.
  exact (edge_polls_transparent r0 (map rop_of h)).
Qed.

(** ** the C15 / C16 theorems over arbitrary histories *)

Theorem C15_press_spec_hist : forall cap fs sp dr pu (h : list rop),
  (0 < cap)%nat ->
  let r0 := ribbon_new cap fs sp dr pu in
  rb_pressing (rrun r0 h)
  = (skip (rb_ignore r0) + Z.of_nat cap <=? run_len (in_range r0) (samples_of h))%Z.
Proof.
  intros cap fs sp dr pu h Hcap r0.
  destruct (edge_polls_transparent r0 h) as (Hp & _). rewrite Hp.
  exact (press_spec cap fs sp dr pu (samples_of h) Hcap).
Qed.

Theorem C16_value_window_hist : forall cap fs sp dr pu (h : list rop),
  (0 < cap)%nat ->
  let r0 := ribbon_new cap fs sp dr pu in
  rb_pressing (rrun r0 h) = true ->
  rb_val (rrun r0 h) = window_value r0 (window r0 (samples_of h)).
Proof.
  intros cap fs sp dr pu h Hcap r0 Hpress.
  destruct (edge_polls_transparent r0 h) as (Hp & Hv & _).
  rewrite Hv. rewrite Hp in Hpress.
  exact (value_window cap fs sp dr pu (samples_of h) Hcap Hpress).
Qed.

Theorem C16_value_hist : forall cap fs sp dr pu (h : list rop),
  let r0 := ribbon_new cap fs sp dr pu in
  config_ok r0 -> Forall sample_ok (samples_of h) ->
  rb_pressing (rrun r0 h) = true ->
  let W := firstn (Z.to_nat (Z.of_nat cap - rb_discard r0)) (window r0 (samples_of h)) in
  Rabs (R32 (rb_val (rrun r0 h)) - corr_R (R32 (rb_err r0)) (mean_R W)) <= tau r0.
Proof.
  intros cap fs sp dr pu h r0 Hc HF Hpress W.
  destruct (edge_polls_transparent r0 h) as (Hp & Hv & _).
  rewrite Hv. rewrite Hp in Hpress.
  exact (value_is_corrected_mean cap fs sp dr pu (samples_of h) Hc HF Hpress).
Qed.

Theorem C16_range_hist : forall cap fs sp dr pu (h : list rop),
  let r0 := ribbon_new cap fs sp dr pu in
  config_ok r0 -> Forall sample_ok (samples_of h) ->
  let r := rrun r0 h in
  fin (ribbon_value r) /\ 0 <= R32 (ribbon_value r) <= 1.
Proof.
  intros cap fs sp dr pu h r0 Hc HF r.
  destruct (edge_polls_transparent r0 h) as (_ & _ & Hval & _).
  unfold r. rewrite Hval.
  exact (value_range cap fs sp dr pu (samples_of h) Hc HF).
Qed.

(** * (3) Independence of earlier presses and of the excluded newest samples *)

(** the samples that contribute to the reported value: the oldest [cap - discard] samples
    of the capture window *)
Definition contributing (r0 : ribbon) (samples : list f32) : list f32 :=
  firstn (Z.to_nat (Z.of_nat (rb_cap r0) - rb_discard r0)) (window r0 samples).

Lemma window_value_firstn : forall r0 W1 W2,
  firstn (Z.to_nat (Z.of_nat (rb_cap r0) - rb_discard r0)) W1
  = firstn (Z.to_nat (Z.of_nat (rb_cap r0) - rb_discard r0)) W2 ->
  window_value r0 W1 = window_value r0 W2.
Proof. intros r0 W1 W2 H. unfold window_value. cbv zeta. rewrite H. reflexivity. Qed.

Lemma polls_boundary : forall cap fs sp dr pu samples, (0 < cap)%nat ->
  rb_boundary (polls (ribbon_new cap fs sp dr pu) samples)
  = rb_boundary (ribbon_new cap fs sp dr pu).
Proof.
  intros cap fs sp dr pu samples Hcap.
  pose proof (rinv_new cap fs sp dr pu samples Hcap) as H.
  destruct H as (_ & H & _). exact H.
Qed.

(** two sample histories of the same configuration with the same contributing samples
    report the same value (bit for bit) while a press is reported *)
Theorem C16_independent : forall cap fs sp dr pu samples1 samples2,
  (0 < cap)%nat ->
  let r0 := ribbon_new cap fs sp dr pu in
  rb_pressing (polls r0 samples1) = true ->
  rb_pressing (polls r0 samples2) = true ->
  firstn (Z.to_nat (Z.of_nat cap - rb_discard r0)) (window r0 samples1)
  = firstn (Z.to_nat (Z.of_nat cap - rb_discard r0)) (window r0 samples2) ->
  rb_val (polls r0 samples1) = rb_val (polls r0 samples2) /\
  ribbon_value (polls r0 samples1) = ribbon_value (polls r0 samples2).
Proof.
  intros cap fs sp dr pu samples1 samples2 Hcap r0 Hp1 Hp2 HW.
  assert (Hv : rb_val (polls r0 samples1) = rb_val (polls r0 samples2)).
  { pose proof (value_window cap fs sp dr pu samples1 Hcap Hp1) as E1.
    pose proof (value_window cap fs sp dr pu samples2 Hcap Hp2) as E2.
    fold r0 in E1, E2. rewrite E1, E2.
    apply window_value_firstn. exact HW. }
  split; [exact Hv|].
  unfold ribbon_value. rewrite Hv. unfold r0. rewrite !polls_boundary by exact Hcap.
  reflexivity.
Qed.

(** ** instance: samples before the current press *)

Lemma current_run_rev_app_out : forall inr x (a b : list f32), inr x = false ->
  current_run_rev inr (a ++ x :: b) = current_run_rev inr a.
Proof.
  intros inr x a b Hx. induction a as [|y a IH]; cbn [app current_run_rev].
  - rewrite Hx. reflexivity.
  - destruct (inr y); [rewrite IH|]; reflexivity.
Qed.

(** everything up to and including an out-of-range sample is forgotten *)
Lemma current_run_after_out : forall inr (pre : list f32) x after, inr x = false ->
  current_run inr (pre ++ x :: after) = current_run inr after.
Proof.
  intros inr pre x after Hx. unfold current_run.
  rewrite rev_app_distr. cbn [rev]. rewrite <- app_assoc. cbn [app].
  rewrite current_run_rev_app_out by exact Hx. reflexivity.
Qed.

Lemma run_len_after_out : forall inr (pre : list f32) x after, inr x = false ->
  run_len inr (pre ++ x :: after) = run_len inr after.
Proof.
  intros inr pre x after Hx. rewrite !run_len_length, current_run_after_out by exact Hx.
  reflexivity.
Qed.

(** whatever was sampled before (and at) the last out-of-range sample -- in particular
    every sample of an earlier press -- has no influence on the gate or on the value *)
Theorem C16_independent_of_earlier_press : forall cap fs sp dr pu pre1 x1 pre2 x2 after,
  (0 < cap)%nat ->
  let r0 := ribbon_new cap fs sp dr pu in
  in_range r0 x1 = false -> in_range r0 x2 = false ->
  rb_pressing (polls r0 (pre1 ++ x1 :: after)) = true ->
  rb_pressing (polls r0 (pre2 ++ x2 :: after)) = true /\
  rb_val (polls r0 (pre1 ++ x1 :: after)) = rb_val (polls r0 (pre2 ++ x2 :: after)) /\
  ribbon_value (polls r0 (pre1 ++ x1 :: after)) = ribbon_value (polls r0 (pre2 ++ x2 :: after)).
Proof.
  intros cap fs sp dr pu pre1 x1 pre2 x2 after Hcap r0 Hx1 Hx2 Hp1.
  assert (Hp2 : rb_pressing (polls r0 (pre2 ++ x2 :: after)) = true).
  { unfold r0 in *. rewrite press_spec in Hp1 |- * by exact Hcap. cbv zeta in Hp1 |- *.
    rewrite run_len_after_out in Hp1 |- * by assumption. exact Hp1. }
  split; [exact Hp2|].
  apply (C16_independent cap fs sp dr pu _ _ Hcap Hp1 Hp2).
  unfold window. rewrite !current_run_after_out by assumption. reflexivity.
Qed.

(** ** instance: the excluded newest samples *)

Lemma current_run_app_in : forall inr (l new : list f32),
  Forall (fun y => inr y = true) new ->
  current_run inr (l ++ new) = current_run inr l ++ new.
Proof.
  intros inr l new H. induction new as [|y new IH] using rev_ind.
  - now rewrite !app_nil_r.
  - apply Forall_app in H. destruct H as [Hn Hy]. pose proof (Forall_inv Hy) as Hy'.
    cbv beta in Hy'. rewrite app_assoc, current_run_snoc, Hy', IH by exact Hn.
    now rewrite app_assoc.
Qed.

Lemma firstn_skipn_app_indep : forall (a s : nat) (L N : list f32),
  (s + a <= length L)%nat -> firstn a (skipn s (L ++ N)) = firstn a (skipn s L).
Proof.
  intros a s L N H. rewrite skipn_app.
  replace (s - length L)%nat with 0%nat by lia. cbn [skipn].
  rewrite firstn_app, skipn_length.
  replace (a - (length L - s))%nat with 0%nat by lia. cbn [firstn]. apply app_nil_r.
Qed.

(** replacing up to [discard] of the newest samples by other in-range samples (so that
    the press continues) changes neither the gate nor the value *)
Theorem C16_independent_of_newest : forall cap fs sp dr pu older new1 new2,
  (0 < cap)%nat ->
  let r0 := ribbon_new cap fs sp dr pu in
  length new1 = length new2 -> (Z.of_nat (length new1) <= rb_discard r0)%Z ->
  Forall (fun y => in_range r0 y = true) new1 ->
  Forall (fun y => in_range r0 y = true) new2 ->
  rb_pressing (polls r0 (older ++ new1)) = true ->
  rb_pressing (polls r0 (older ++ new2)) = true /\
  rb_val (polls r0 (older ++ new1)) = rb_val (polls r0 (older ++ new2)) /\
  ribbon_value (polls r0 (older ++ new1)) = ribbon_value (polls r0 (older ++ new2)).
Proof.
  intros cap fs sp dr pu older new1 new2 Hcap r0 Hlen Hn Hin1 Hin2 Hp1.
  assert (Hrl : forall new, Forall (fun y => in_range r0 y = true) new ->
            run_len (in_range r0) (older ++ new)
            = (Z.of_nat (length (current_run (in_range r0) older)) + Z.of_nat (length new))%Z).
  { intros new Hin. rewrite run_len_length, current_run_app_in, app_length by exact Hin. lia. }
  assert (Hp2 : rb_pressing (polls r0 (older ++ new2)) = true).
  { unfold r0 in *. rewrite press_spec in Hp1 |- * by exact Hcap. cbv zeta in Hp1 |- *.
    rewrite Hrl in Hp1 |- * by assumption. rewrite <- Hlen. exact Hp1. }
  split; [exact Hp2|].
  apply (C16_independent cap fs sp dr pu _ _ Hcap Hp1 Hp2).
  fold r0.
  unfold r0 in Hp1. rewrite press_spec in Hp1 by exact Hcap. cbv zeta in Hp1. fold r0 in Hp1.
  apply Z.leb_le in Hp1. rewrite Hrl in Hp1 by exact Hin1.
  pose proof (skip_nonneg (rb_ignore r0)) as Hs.
  unfold window, lastn. change (rb_cap r0) with cap.
  rewrite !current_run_app_in by assumption.
  set (L := current_run (in_range r0) older) in *.
  rewrite !app_length, <- Hlen.
  destruct (Z.to_nat (Z.of_nat cap - rb_discard r0)) as [|k'] eqn:Ek; [reflexivity|].
  rewrite !firstn_skipn_app_indep by lia. reflexivity.
Qed.

(** * (1) [config_ok] holds for every configuration the property quantifies over *)

(** ** integer part: capacity from the helper, discard count from the constructor *)

Lemma capacity_discard : forall fs : Z, (100 <= fs <= 192000)%Z ->
  (0 <= usec_to_samples fs RIBBON_RISE_TIME_USEC < sample_rate_to_capacity fs)%Z /\
  (2 <= sample_rate_to_capacity fs <= 3265)%Z.
Proof.
  intros fs Hfs. unfold sample_rate_to_capacity, usec_to_samples,
    MIN_CAPTURE_TIME_USEC, RIBBON_RISE_TIME_USEC.
  Z.div_mod_to_equations. lia.
Qed.

(** ** float part *)

(** the largest f32 below 1 *)
Definition below1 : R := 1 - / 16777216.

Lemma bpow_m24 : bpow radix2 (-24) = / 16777216.
Proof. exact (bpow2_neg 24 eq_refl). Qed.

Lemma bpow_m1 : bpow radix2 (-1) = / 2.
Proof. exact (bpow2_neg 1 eq_refl). Qed.

Lemma fmt_below1 : fmt below1.
Proof.
  replace below1 with (IZR 16777215 * bpow radix2 (-24)).
  - apply fmt_mant; lia.
  - unfold below1. rewrite bpow_m24. field.
Qed.

Lemma succ_below1 : succ radix2 fexp32 below1 = 1.
Proof.
  assert (Hb : / 2 <= below1 < 1) by (unfold below1; lra).
  rewrite succ_eq_pos by lra.
  rewrite ulp_neq_0 by lra.
  unfold cexp. rewrite (mag_unique radix2 below1 0).
  - change (fexp32 0) with (-24)%Z. rewrite bpow_m24. unfold below1. lra.
  - rewrite Rabs_pos_eq by lra. change (0 - 1)%Z with (-1)%Z.
    rewrite bpow_m1. change (bpow radix2 0) with 1. lra.
Qed.

(** anything below the midpoint 1 - 2^-25 rounds to at most the largest f32 below 1 *)
Lemma rnd_lt_1 : forall y, y < 1 - / 33554432 -> rnd y <= below1.
Proof.
  intros y Hy. unfold rnd. apply round_N_le_midp.
  - apply fexp32_valid.
  - exact fmt_below1.
  - rewrite succ_below1. unfold below1. lra.
Qed.

Lemma fmt_2m24 : fmt (/ 16777216).
Proof.
  replace (/ 16777216) with (bpow radix2 (-24)).
  - apply fmt_bpow. lia.
  - exact bpow_m24.
Qed.

(** [finger_press_high_boundary = 1 - dr / (dr + sp)] after its three roundings: a finite
    number in [2^-24, 1], provided the softpot is at least 1 ohm and the dropper resistor at
    most 10^7 times the softpot *)
Lemma boundary_ok : forall sp dr : f32, fin sp -> fin dr ->
  1 <= R32 sp -> 0 <= R32 dr <= 10000000 * R32 sp ->
  Rabs (rnd (R32 dr + R32 sp)) < MAXF ->
  fin (fsub f_1 (fdiv dr (fadd dr sp))) /\
  / 16777216 <= R32 (fsub f_1 (fdiv dr (fadd dr sp))) <= 1.
Proof.
  intros sp dr Fsp Fdr Hsp Hdr Hov.
  destruct (fadd_correct dr sp Fdr Fsp Hov) as [Vs Fs].
  remember (R32 dr + R32 sp) as x eqn:Ex.
  assert (Hx : 1 <= x) by lra.
  assert (Hdx : R32 dr * 10000001 <= 10000000 * x) by lra.
  destruct (rnd_error x) as (eps & et & He & Ht & Hr).
  apply Rabs_le_inv in He. apply Rabs_le_inv in Ht.
  assert (Hxe : x * (- / 16777216) <= x * eps) by (apply Rmult_le_compat_l; lra).
  remember (rnd x) as s eqn:Es.
  assert (Hs1 : 1 <= s).
  { rewrite Es. rewrite <- (rnd_id 1 fmt_1). apply rnd_le. exact Hx. }
  assert (Hlow : x * (1 - / 16777216) - / 1427247692705959881058285969449495136382746624 <= s)
    by lra.
  assert (Hq : 0 <= R32 dr / s < 1 - / 33554432).
  { split.
    - apply Rmult_le_pos; [lra | apply Rlt_le, Rinv_0_lt_compat; lra].
    - apply Rmult_lt_reg_r with s; [lra|].
      unfold Rdiv. rewrite Rmult_assoc, Rinv_l, Rmult_1_r by lra. lra. }
  destruct (fdiv_correct dr (fadd dr sp) Fdr Fs) as [Vq Fq].
  { rewrite Vs. lra. }
  { rewrite Vs. apply no_ovf01. lra. }
  rewrite Vs in Vq.
  assert (Hqr : 0 <= rnd (R32 dr / s) <= below1).
  { split; [apply rnd_ge_0; lra | apply rnd_lt_1; lra]. }
  unfold below1 in Hqr.
  destruct (fsub_correct f_1 (fdiv dr (fadd dr sp)) fin_f_1 Fq) as [Vb Fb].
  { rewrite R32_f_1, Vq. apply no_ovf01. lra. }
  rewrite R32_f_1, Vq in Vb.
  split; [exact Fb|]. rewrite Vb.
  apply rnd_bounds; [exact fmt_2m24 | exact fmt_1 | lra].
Qed.

(** [error_const = (sp + dr) / pu] after its two roundings: a finite number in [0, 1] when
    the pull-up is at least the divider resistance *)
Lemma err_ok : forall sp dr pu : f32, fin sp -> fin dr -> fin pu ->
  0 <= R32 sp -> 0 <= R32 dr -> 0 < R32 pu -> R32 sp + R32 dr <= R32 pu ->
  fin (fdiv (fadd sp dr) pu) /\ 0 <= R32 (fdiv (fadd sp dr) pu) <= 1.
Proof.
  intros sp dr pu Fsp Fdr Fpu Hsp Hdr Hpu Hle.
  assert (Hs : 0 <= rnd (R32 sp + R32 dr) <= R32 pu).
  { apply rnd_bounds; [exact fmt_0 | apply fmt_R32 | lra]. }
  pose proof (R32_lt_MAXF pu) as Hm. rewrite Rabs_pos_eq in Hm by lra.
  destruct (fadd_correct sp dr Fsp Fdr) as [Vs Fs].
  { rewrite Rabs_pos_eq by lra. lra. }
  assert (Hq : 0 <= rnd (R32 sp + R32 dr) / R32 pu <= 1).
  { assert (Hi : 0 < / R32 pu) by (apply Rinv_0_lt_compat; lra).
    split.
    - apply Rmult_le_pos; lra.
    - apply Rmult_le_reg_r with (R32 pu); [lra|].
      unfold Rdiv. rewrite Rmult_assoc, Rinv_l by lra. lra. }
  destruct (fdiv_correct (fadd sp dr) pu Fs Fpu) as [Ve Fe].
  { lra. }
  { rewrite Vs. apply no_ovf01. exact Hq. }
  rewrite Vs in Ve. split; [exact Fe|]. rewrite Ve.
  apply rnd_bounds; [exact fmt_0 | exact fmt_1 | exact Hq].
Qed.

(** ** the general lemma *)

(** for every integer sample rate in [100 Hz, 192 kHz] with the capacity computed by the
    provided helper, and every triple of finite resistances with softpot >= 1 ohm,
    0 <= dropper <= 10^7 * softpot and pull-up >= softpot + dropper, the configuration is
    sane in the sense of [config_ok] *)
Theorem config_ok_of_quantifier : forall (fs : Z) (sp dr pu : f32),
  (100 <= fs <= 192000)%Z ->
  fin sp -> fin dr -> fin pu ->
  1 <= R32 sp -> 0 <= R32 dr <= 10000000 * R32 sp ->
  R32 sp + R32 dr <= R32 pu ->
  config_ok (ribbon_new (Z.to_nat (sample_rate_to_capacity fs)) (of_Z fs) sp dr pu).
Proof.
  intros fs sp dr pu Hfs Fsp Fdr Fpu Hsp Hdr Hpu.
  destruct (capacity_discard fs Hfs) as [Hd Hc].
  assert (Eu : to_u32 (of_Z fs) = fs) by (apply to_u32_of_Z; lia).
  assert (Hov : Rabs (rnd (R32 dr + R32 sp)) < MAXF).
  { assert (Hs : 0 <= rnd (R32 dr + R32 sp) <= R32 pu).
    { apply rnd_bounds; [exact fmt_0 | apply fmt_R32 | lra]. }
    pose proof (R32_lt_MAXF pu) as Hm. rewrite Rabs_pos_eq in Hm by lra.
    rewrite Rabs_pos_eq by lra. lra. }
  destruct (boundary_ok sp dr Fsp Fdr Hsp Hdr Hov) as [Fb Hb].
  destruct (err_ok sp dr pu Fsp Fdr Fpu) as [Fe He]; try lra.
  unfold config_ok, ribbon_new. cbv zeta.
  cbn [rb_cap rb_boundary rb_err rb_discard]. rewrite Eu.
  split; [exact Fb|]. split; [lra|]. split; [exact Fe|]. split; [exact He|].
  split; [rewrite Z2Nat.id by lia; exact Hd|]. lia.
Qed.

(** the box the reviewer suggested: all three resistances between 1 ohm and 10 Mohm *)
Corollary config_ok_of_quantifier_box : forall (fs : Z) (sp dr pu : f32),
  (100 <= fs <= 192000)%Z ->
  fin sp -> fin dr -> fin pu ->
  1 <= R32 sp <= 10000000 -> 1 <= R32 dr <= 10000000 -> 1 <= R32 pu <= 10000000 ->
  R32 sp + R32 dr <= R32 pu ->
  config_ok (ribbon_new (Z.to_nat (sample_rate_to_capacity fs)) (of_Z fs) sp dr pu).
Proof.
  intros fs sp dr pu Hfs Fsp Fdr Fpu Hsp Hdr Hpu Hle.
  apply config_ok_of_quantifier; try assumption; lra.
Qed.

(** ** concrete configurations *)

Lemma of_Z_ohms : forall z : Z, (0 <= z <= 16777216)%Z -> fin (of_Z z) /\ R32 (of_Z z) = IZR z.
Proof.
  intros z Hz. destruct (fin_R32_of_Z_small z) as [V F]; [lia|]. split; assumption.
Qed.

(** 10 kHz, 10 kohm softpot, 1 kohm dropper resistor, 100 kohm pull-up *)
Example config_ok_example :
  config_ok (ribbon_new (Z.to_nat (sample_rate_to_capacity 10000)) (of_Z 10000)
               (of_Z 10000) (of_Z 1000) (of_Z 100000)).
Proof.
  destruct (of_Z_ohms 10000) as [F1 V1]; [lia|].
  destruct (of_Z_ohms 1000) as [F2 V2]; [lia|].
  destruct (of_Z_ohms 100000) as [F3 V3]; [lia|].
  apply config_ok_of_quantifier; try assumption; try lia; rewrite ?V1, ?V2, ?V3; lra.
Qed.

(** the configuration of the crate's own unit tests ([test_ribbon()]):
    10 kHz, 20 kohm softpot, 820 ohm dropper resistor, 1 Mohm pull-up *)
Example config_ok_example_crate_tests :
  config_ok (ribbon_new (Z.to_nat (sample_rate_to_capacity 10000)) (of_Z 10000)
               (of_Z 20000) (of_Z 820) (of_Z 1000000)).
Proof.
  destruct (of_Z_ohms 20000) as [F1 V1]; [lia|].
  destruct (of_Z_ohms 820) as [F2 V2]; [lia|].
  destruct (of_Z_ohms 1000000) as [F3 V3]; [lia|].
  apply config_ok_of_quantifier; try assumption; try lia; rewrite ?V1, ?V2, ?V3; lra.
Qed.

(** "pull-up >= divider" alone is not enough: with a 1 ohm softpot under a 2^24 ohm dropper
    resistor (and a 2^25 ohm pull-up) the sum dr + sp rounds to dr, the boundary becomes
    1 - 1 = 0 and no sample is ever in range; so a bound on dropper / softpot is needed *)
Example config_ok_needs_ratio : forall cap fs,
  R32 (of_Z 1) + R32 (of_Z 16777216) <= R32 (of_Z 33554432) /\
  ~ config_ok (ribbon_new cap fs (of_Z 1) (of_Z 16777216) (of_Z 33554432)).
Proof.
  intros cap fs. split.
  - rewrite (R32_of_Z_small 1), (R32_of_Z_small 16777216) by lia.
    assert (E : R32 (of_Z 33554432) = 33554432).
    { replace 33554432 with (IZR 33554432) by reflexivity.
      apply of_Z_fmt.
      - replace (IZR 33554432) with (bpow radix2 25) by (simpl; lra). apply fmt_bpow. lia.
      - rewrite MAXF_val, Rabs_pos_eq; lra. }
    rewrite E. lra.
  - intros (_ & [H _] & _).
    change (rb_boundary (ribbon_new cap fs (of_Z 1) (of_Z 16777216) (of_Z 33554432)))
      with (fsub f_1 (fdiv (of_Z 16777216) (fadd (of_Z 16777216) (of_Z 1)))) in H.
    assert (E : fsub f_1 (fdiv (of_Z 16777216) (fadd (of_Z 16777216) (of_Z 1))) = f_0)
      by (vm_compute; reflexivity).
    rewrite E, R32_f_0 in H. lra.
Qed.

(** * (4) End-to-end bounds for the stored value and for [value()] *)

(** what [value()] does to the stored value: rescale by the boundary to full scale and
    clip at 1 *)
Definition full_scale (b p : R) : R := Rmin (p / b) 1.

Lemma full_scale_range : forall b p, 0 < b -> 0 <= p -> 0 <= full_scale b p <= 1.
Proof.
  intros b p Hb Hp. unfold full_scale.
  assert (Hq : 0 <= p / b) by (apply Rmult_le_pos; [lra | apply Rlt_le, Rinv_0_lt_compat; lra]).
  unfold Rmin. destruct (Rle_dec (p / b) 1); lra.
Qed.

(** monotone and (1/b)-Lipschitz *)
Lemma full_scale_shift : forall b p q d, 0 < b -> 0 <= d -> p - d <= q ->
  full_scale b p - d / b <= full_scale b q.
Proof.
  intros b p q d Hb Hd H. unfold full_scale.
  assert (Hi : 0 < / b) by (apply Rinv_0_lt_compat; lra).
  assert (Hq : p / b - d / b <= q / b).
  { unfold Rdiv. rewrite <- Rmult_minus_distr_r. apply Rmult_le_compat_r; lra. }
  assert (Hdb : 0 <= d / b) by (apply Rmult_le_pos; lra).
  unfold Rmin. destruct (Rle_dec (p / b) 1); destruct (Rle_dec (q / b) 1); lra.
Qed.

(** the reported value is the correctly rounded full-scale expansion of the stored value
    (also when the division overflows: [min(+inf, 1.0) = 1.0]) *)
Lemma value_exact : forall v b : f32, fin v -> 0 <= R32 v -> fin b -> 0 < R32 b ->
  R32 (fmin (fdiv v b) f_1) = rnd (full_scale (R32 b) (R32 v)).
Proof.
  intros v b Fv Hv Fb Hb. unfold full_scale.
  assert (Hi : 0 < / R32 b) by (apply Rinv_0_lt_compat; lra).
  assert (Hq : 0 <= R32 v / R32 b) by (apply Rmult_le_pos; lra).
  destruct (Rlt_dec (Rabs (rnd (R32 v / R32 b))) MAXF) as [Hlt|Hge].
  - destruct (fdiv_correct v b Fv Fb ltac:(lra) Hlt) as [Vq Fq].
    destruct (fmin_fin _ f_1 Fq fin_f_1) as [Fm Vm].
    rewrite Vm, Vq, R32_f_1.
    unfold Rmin at 2. destruct (Rle_dec (R32 v / R32 b) 1) as [Hle|Hgt].
    + apply Rmin_left. rewrite <- (rnd_id 1 fmt_1). apply rnd_le. exact Hle.
    + rewrite (rnd_id 1 fmt_1). apply Rmin_right.
      rewrite <- (rnd_id 1 fmt_1) at 1. apply rnd_le. lra.
  - assert (Hbig : 1 < R32 v / R32 b).
    { destruct (Rle_dec (R32 v / R32 b) 1) as [Hle|Hgt]; [|lra]. exfalso. apply Hge.
      apply no_ovf01. lra. }
    assert (Hvpos : 0 < R32 v).
    { destruct (Req_dec (R32 v) 0) as [E|E]; [|lra]. exfalso.
      rewrite E in Hbig. unfold Rdiv in Hbig. rewrite Rmult_0_l in Hbig. lra. }
    assert (E : fdiv v b = B754_infinity false).
    { apply B2SF_inf.
      pose proof (pos_sign v Fv Hvpos) as Sv. pose proof (pos_sign b Fb Hb) as Sb.
      assert (Hnz : B2R b <> 0) by (unfold R32 in Hb; lra).
      generalize (Bdiv_correct prec emax Hprec Hmax mode_NE v b Hnz).
      rewrite fexp_is_fexp32. change (round radix2 fexp32 (round_mode mode_NE)) with rnd.
      change (bpow radix2 emax) with MAXF.
      rewrite Rlt_bool_false by (unfold R32 in Hge; lra).
      rewrite Sv, Sb. intros H. exact H. }
    rewrite E.
    assert (E1 : fmin (B754_infinity false) f_1 = f_1).
    { unfold fmin. cbn [is_nan]. rewrite (fin_not_nan _ fin_f_1).
      rewrite flt_inf_r by exact fin_f_1. reflexivity. }
    rewrite E1, R32_f_1, Rmin_right by lra. symmetry. exact (rnd_id 1 fmt_1).
Qed.

(** rounding a number of [0, 1] moves it by at most 2^-24 + 2^-150 <= tau *)
Lemma rnd01_tau : forall (r0 : ribbon) s, 0 <= s <= 1 -> Rabs (rnd s - s) <= tau r0 / 8.
Proof.
  intros r0 s Hs. pose proof (rnd_err s 1 Hs) as H. rewrite Rmult_1_l in H.
  eapply Rle_trans; [exact H|]. unfold tau.
  pose proof (pos_INR (rb_cap r0)) as Hc. pose proof eta_le_u as He. unfold u24 in *. lra.
Qed.

Lemma tau_pos : forall r0, 0 < tau r0.
Proof.
  intros r0. unfold tau. pose proof (pos_INR (rb_cap r0)) as Hc. lra.
Qed.

Lemma le_div_boundary : forall t b, 0 <= t -> 0 < b <= 1 -> t <= t / b.
Proof.
  intros t b Ht Hb.
  assert (Hi : 0 < / b) by (apply Rinv_0_lt_compat; lra).
  apply Rmult_le_reg_r with b; [lra|].
  unfold Rdiv. rewrite Rmult_assoc, Rinv_l, Rmult_1_r by lra.
  rewrite <- (Rmult_1_r t) at 2. apply Rmult_le_compat_l; lra.
Qed.

Lemma contributing_ok : forall r0 samples,
  Forall sample_ok samples -> Forall sample_ok (contributing r0 samples).
Proof.
  intros r0 samples H. pose proof (window_ok r0 samples H) as Hw.
  rewrite Forall_forall in *. intros x Hx. apply Hw.
  unfold contributing in Hx. exact (in_firstn_sub _ _ _ Hx).
Qed.

Lemma contributing_nonempty : forall cap fs sp dr pu samples,
  let r0 := ribbon_new cap fs sp dr pu in
  config_ok r0 -> rb_pressing (polls r0 samples) = true -> contributing r0 samples <> [].
Proof.
  intros cap fs sp dr pu samples r0 Hc Hp.
  destruct Hc as (_ & _ & _ & _ & Hd & Hcap0 & _).
  change (rb_cap r0) with cap in Hd, Hcap0.
  pose proof (window_length cap fs sp dr pu samples Hcap0 Hp) as Hlen. fold r0 in Hlen.
  intros E. assert (Hl : length (contributing r0 samples) = 0%nat) by (rewrite E; reflexivity).
  unfold contributing in Hl. change (rb_cap r0) with cap in Hl.
  rewrite firstn_length, Hlen in Hl. lia.
Qed.

(** the state after the polls: stored value finite in [0, 1], boundary unchanged, and the
    reported value is the rounded full-scale expansion of the stored one *)
Lemma reported_value : forall cap fs sp dr pu samples,
  let r0 := ribbon_new cap fs sp dr pu in
  config_ok r0 -> Forall sample_ok samples ->
  let r := polls r0 samples in
  0 <= R32 (rb_val r) <= 1 /\
  Rabs (R32 (ribbon_value r) - full_scale (R32 (rb_boundary r0)) (R32 (rb_val r))) <= tau r0 / 8.
Proof.
  intros cap fs sp dr pu samples r0 Hc HF r.
  destruct (val_ok cap fs sp dr pu samples Hc HF) as [Fv Hv]. fold r0 in Fv, Hv. fold r in Fv, Hv.
  destruct Hc as (Fb & Hb & _ & _ & _ & Hcap0 & _).
  change (rb_cap r0) with cap in Hcap0.
  split; [exact Hv|].
  assert (Eb : rb_boundary r = rb_boundary r0)
    by exact (polls_boundary cap fs sp dr pu samples Hcap0).
  unfold ribbon_value. rewrite Eb.
  rewrite value_exact; [|exact Fv|lra|exact Fb|lra].
  apply rnd01_tau. apply full_scale_range; lra.
Qed.

(** ** between the corrected minimum and maximum *)

(** the stored f32 value *)
Theorem C16_between_val : forall cap fs sp dr pu samples lo hi,
  let r0 := ribbon_new cap fs sp dr pu in
  config_ok r0 -> Forall sample_ok samples ->
  rb_pressing (polls r0 samples) = true ->
  (forall x, In x (contributing r0 samples) -> (0 <= lo <= R32 x) /\ (R32 x <= hi <= 1)) ->
  let e := R32 (rb_err r0) in
  corr_R e lo - tau r0 <= R32 (rb_val (polls r0 samples)) <= corr_R e hi + tau r0.
Proof.
  intros cap fs sp dr pu samples lo hi r0 Hc HF Hp Hlh e.
  pose proof (value_is_corrected_mean cap fs sp dr pu samples Hc HF Hp) as Hv.
  cbv zeta in Hv. fold r0 in Hv.
  change (firstn (Z.to_nat (Z.of_nat cap - rb_discard r0)) (window r0 samples))
    with (contributing r0 samples) in Hv. fold e in Hv.
  pose proof (contributing_nonempty cap fs sp dr pu samples Hc Hp) as Hne. fold r0 in Hne.
  destruct Hc as (_ & _ & _ & He & _). fold e in He.
  pose proof (corrected_mean_between e (contributing r0 samples) lo hi He Hne Hlh) as Hb.
  apply Rabs_le_inv in Hv. lra.
Qed.

(** the reported value [value()]: the same bounds after the full-scale expansion, which
    divides the tolerance by the boundary; the lower bound also holds without expansion *)
Theorem C16_between_f32 : forall cap fs sp dr pu samples lo hi,
  let r0 := ribbon_new cap fs sp dr pu in
  config_ok r0 -> Forall sample_ok samples ->
  rb_pressing (polls r0 samples) = true ->
  (forall x, In x (contributing r0 samples) -> (0 <= lo <= R32 x) /\ (R32 x <= hi <= 1)) ->
  let e := R32 (rb_err r0) in
  let b := R32 (rb_boundary r0) in
  let v := R32 (ribbon_value (polls r0 samples)) in
  full_scale b (corr_R e lo) - 2 * tau r0 / b <= v <= full_scale b (corr_R e hi) + 2 * tau r0 / b /\
  corr_R e lo - 2 * tau r0 <= v.
Proof.
  intros cap fs sp dr pu samples lo hi r0 Hc HF Hp Hlh e b v.
  pose proof (C16_between_val cap fs sp dr pu samples lo hi Hc HF Hp Hlh) as Hval.
  cbv zeta in Hval. fold r0 e in Hval.
  destruct (reported_value cap fs sp dr pu samples Hc HF) as [Hv01 Hrep].
  fold r0 in Hv01, Hrep. fold b v in Hrep.
  destruct Hc as (_ & Hb & _). fold b in Hb.
  pose proof (tau_pos r0) as Ht.
  pose proof (le_div_boundary (tau r0) b ltac:(lra) Hb) as Htb.
  set (w := R32 (rb_val (polls r0 samples))) in *.
  apply Rabs_le_inv in Hrep.
  pose proof (full_scale_shift b (corr_R e lo) w (tau r0) ltac:(lra) ltac:(lra) ltac:(lra)) as L.
  pose proof (full_scale_shift b w (corr_R e hi) (tau r0) ltac:(lra) ltac:(lra) ltac:(lra)) as U.
  assert (Hw : w <= full_scale b w).
  { unfold full_scale. apply Rmin_glb; [|lra]. apply le_div_boundary; lra. }
  replace (2 * tau r0 / b) with (tau r0 / b + tau r0 / b) by (unfold Rdiv; ring).
  repeat split; lra.
Qed.

(** ** monotone in every contributing sample *)

Theorem C16_monotone_val : forall cap fs sp dr pu samples1 samples2 W1 W2 x y,
  let r0 := ribbon_new cap fs sp dr pu in
  config_ok r0 -> Forall sample_ok samples1 -> Forall sample_ok samples2 ->
  rb_pressing (polls r0 samples1) = true -> rb_pressing (polls r0 samples2) = true ->
  contributing r0 samples1 = W1 ++ x :: W2 ->
  contributing r0 samples2 = W1 ++ y :: W2 ->
  R32 x <= R32 y ->
  R32 (rb_val (polls r0 samples1)) - 2 * tau r0 <= R32 (rb_val (polls r0 samples2)).
Proof.
  intros cap fs sp dr pu samples1 samples2 W1 W2 x y r0 Hc HF1 HF2 Hp1 Hp2 E1 E2 Hxy.
  pose proof (value_is_corrected_mean cap fs sp dr pu samples1 Hc HF1 Hp1) as Hv1.
  pose proof (value_is_corrected_mean cap fs sp dr pu samples2 Hc HF2 Hp2) as Hv2.
  cbv zeta in Hv1, Hv2. fold r0 in Hv1, Hv2.
  change (firstn (Z.to_nat (Z.of_nat cap - rb_discard r0)) (window r0 samples1))
    with (contributing r0 samples1) in Hv1.
  change (firstn (Z.to_nat (Z.of_nat cap - rb_discard r0)) (window r0 samples2))
    with (contributing r0 samples2) in Hv2.
  rewrite E1 in Hv1. rewrite E2 in Hv2.
  pose proof (contributing_ok r0 samples1 HF1) as Ho1. rewrite E1 in Ho1.
  pose proof (contributing_ok r0 samples2 HF2) as Ho2. rewrite E2 in Ho2.
  rewrite Forall_forall in Ho1, Ho2.
  assert (Hin : forall z, In z (W1 ++ x :: y :: W2) -> 0 <= R32 z <= 1).
  { intros z Hz. apply in_app_or in Hz.
    destruct Hz as [Hz|[Hz|[Hz|Hz]]].
    - apply Ho1. apply in_or_app. left. exact Hz.
    - apply Ho1. apply in_or_app. right. left. exact Hz.
    - apply Ho2. apply in_or_app. right. left. exact Hz.
    - apply Ho1. apply in_or_app. right. right. exact Hz. }
  destruct Hc as (_ & _ & _ & He & _).
  pose proof (corrected_mean_monotone (R32 (rb_err r0)) W1 W2 x y He Hin Hxy) as Hm.
  apply Rabs_le_inv in Hv1. apply Rabs_le_inv in Hv2. lra.
Qed.

Theorem C16_monotone_f32 : forall cap fs sp dr pu samples1 samples2 W1 W2 x y,
  let r0 := ribbon_new cap fs sp dr pu in
  config_ok r0 -> Forall sample_ok samples1 -> Forall sample_ok samples2 ->
  rb_pressing (polls r0 samples1) = true -> rb_pressing (polls r0 samples2) = true ->
  contributing r0 samples1 = W1 ++ x :: W2 ->
  contributing r0 samples2 = W1 ++ y :: W2 ->
  R32 x <= R32 y ->
  let b := R32 (rb_boundary r0) in
  R32 (ribbon_value (polls r0 samples1)) - (2 * tau r0 / b + tau r0 / 4)
  <= R32 (ribbon_value (polls r0 samples2)).
Proof.
  intros cap fs sp dr pu samples1 samples2 W1 W2 x y r0 Hc HF1 HF2 Hp1 Hp2 E1 E2 Hxy b.
  pose proof (C16_monotone_val cap fs sp dr pu samples1 samples2 W1 W2 x y
                Hc HF1 HF2 Hp1 Hp2 E1 E2 Hxy) as Hval. cbv zeta in Hval. fold r0 in Hval.
  destruct (reported_value cap fs sp dr pu samples1 Hc HF1) as [_ Hr1].
  destruct (reported_value cap fs sp dr pu samples2 Hc HF2) as [_ Hr2].
  fold r0 in Hr1, Hr2. fold b in Hr1, Hr2.
  destruct Hc as (_ & Hb & _). fold b in Hb.
  pose proof (tau_pos r0) as Ht.
  pose proof (full_scale_shift b (R32 (rb_val (polls r0 samples1)))
                (R32 (rb_val (polls r0 samples2))) (2 * tau r0)
                ltac:(lra) ltac:(lra) Hval) as L.
  apply Rabs_le_inv in Hr1. apply Rabs_le_inv in Hr2. lra.
Qed.

(** ** the expansion cannot be dropped from the upper bound

    [value()] reports the position rescaled to full scale, so "value <= corrected maximum
    + 2 tau" (without [full_scale]) is false.  Witness: 100 Hz (capacity 2, nothing
    ignored or discarded), softpot = dropper = 1 kohm (boundary 1/2), 1 Mohm pull-up, two
    samples 0.25: the contributing samples are [0.25; 0.25], their corrected value is
    about 0.2496, the reported value about 0.4993. *)
Lemma contributing_two : forall r0 x, rb_cap r0 = 2%nat -> rb_discard r0 = 0%Z ->
  in_range r0 x = true -> contributing r0 [x; x] = [x; x].
Proof.
  intros r0 x Hc Hd Hx. unfold contributing, window, lastn, current_run.
  rewrite Hc, Hd. cbn [rev app current_run_rev]. rewrite Hx. reflexivity.
Qed.

Example between_unscaled_upper_false :
  let r0 := ribbon_new (Z.to_nat (sample_rate_to_capacity 100)) (of_Z 100)
              (of_Z 1000) (of_Z 1000) (of_Z 1000000) in
  let x := of_bits 1048576000 in
  let samples := [x; x] in
  config_ok r0 /\ Forall sample_ok samples /\ rb_pressing (polls r0 samples) = true /\
  contributing r0 samples = [x; x] /\
  corr_R (R32 (rb_err r0)) (R32 x) + 2 * tau r0 < R32 (ribbon_value (polls r0 samples)).
Proof.
  intros r0 x samples.
  assert (Fx : fin x) by (vm_compute; reflexivity).
  assert (Vx : R32 x = / 4) by (unfold x; r32_const (of_bits 1048576000); lra).
  assert (Hcap : rb_cap r0 = 2%nat) by (vm_compute; reflexivity).
  assert (Hdis : rb_discard r0 = 0%Z) by (vm_compute; reflexivity).
  assert (Hin : in_range r0 x = true) by (vm_compute; reflexivity).
  split.
  { destruct (of_Z_ohms 1000) as [F1 V1]; [lia|].
    destruct (of_Z_ohms 1000000) as [F3 V3]; [lia|].
    apply config_ok_of_quantifier; try assumption; try lia; rewrite ?V1, ?V3; lra. }
  split.
  { assert (Hx : sample_ok x) by (split; [exact Fx | rewrite Vx; lra]).
    unfold samples. constructor; [exact Hx|]. constructor; [exact Hx|]. constructor. }
  split; [vm_compute; reflexivity|].
  split; [exact (contributing_two r0 x Hcap Hdis Hin)|].
  rewrite Vx. unfold tau. rewrite Hcap. cbn [INR].
  unfold samples, x, r0.
  match goal with |- _ < R32 ?c => r32_const c end.
  match goal with |- context [corr_R (R32 ?c)] => r32_const c end.
  unfold corr_R. lra.
Qed.

(** * The quantifier of C16 end to end

    (1) + (2) + the existing theorems: for every supported sample rate, every resistor
    triple of [config_ok_of_quantifier] and every history of polls and edge polls with
    documented samples, [value()] is a finite number in [0, 1], and while a press is
    reported the stored value is the corrected mean of the contributing samples *)
Corollary C16_range_quantified : forall (fs : Z) (sp dr pu : f32) (h : list rop),
  (100 <= fs <= 192000)%Z ->
  fin sp -> fin dr -> fin pu ->
  1 <= R32 sp -> 0 <= R32 dr <= 10000000 * R32 sp -> R32 sp + R32 dr <= R32 pu ->
  Forall sample_ok (samples_of h) ->
  let r0 := ribbon_new (Z.to_nat (sample_rate_to_capacity fs)) (of_Z fs) sp dr pu in
  let r := rrun r0 h in
  fin (ribbon_value r) /\ 0 <= R32 (ribbon_value r) <= 1.
Proof.
  intros fs sp dr pu h Hfs Fsp Fdr Fpu Hsp Hdr Hpu HF r0 r.
  apply C16_range_hist; [|exact HF].
  apply config_ok_of_quantifier; assumption.
Qed.

Corollary C16_value_quantified : forall (fs : Z) (sp dr pu : f32) (h : list rop),
  (100 <= fs <= 192000)%Z ->
  fin sp -> fin dr -> fin pu ->
  1 <= R32 sp -> 0 <= R32 dr <= 10000000 * R32 sp -> R32 sp + R32 dr <= R32 pu ->
  Forall sample_ok (samples_of h) ->
  let r0 := ribbon_new (Z.to_nat (sample_rate_to_capacity fs)) (of_Z fs) sp dr pu in
  rb_pressing (rrun r0 h) = true ->
  Rabs (R32 (rb_val (rrun r0 h))
        - corr_R (R32 (rb_err r0)) (mean_R (contributing r0 (samples_of h)))) <= tau r0.
Proof.
  intros fs sp dr pu h Hfs Fsp Fdr Fpu Hsp Hdr Hpu HF r0 Hp.
  apply (C16_value_hist (Z.to_nat (sample_rate_to_capacity fs)) (of_Z fs) sp dr pu h);
    [|exact HF|exact Hp].
  apply config_ok_of_quantifier; assumption.
Qed.
