(** * AdsrContinuityProofs: proofs behind Props/C03.v -- the ADSR output is continuous
    from one tick to the next, with any gate events and parameter changes in between.

    Organisation (mirrors the Lipschitz argument of SineProofs.v):
    - sharper rounding analysis than AdsrCurveProofs: the interpolated sample is within
      0.75 * 2^-24 of the exact piecewise-linear curve through the table, the output within
      3 * 2^-24 of the exact affine image of that curve;
    - the exact curve [P t a] through a table, extended to all counter values, its
      single-step and Lipschitz bounds (a [vm_compute] sweep bounds the difference of
      neighbouring table entries);
    - what a list of non-tick operations can do to the state;
    - what a tick does to the output;
    - the theorem. *)
From Coq Require Import ZArith Reals Lia Lra Psatz Bool List.
Import ListNotations.
From Flocq Require Import Core IEEE754.BinarySingleNaN Relative.
From SU Require Import F32 F32Lemmas.
From SU.gen Require Import Consts.
From SU.Model Require Import Utils PhaseAcc Tables Adsr.
From SU.Spec Require Import AdsrSpec.
From SU.Proofs Require Import ClampProofs LfoProofs AdsrClockProofs AdsrLevelProofs.
Open Scope R_scope.

(** * Part 1: rounding *)

Notation eta150 := (/ 1427247692705959881058285969449495136382746624).

Lemma rnd_abs_err : forall x b, Rabs x <= b ->
  Rabs (rnd x - x) <= b * / 16777216 + eta150.
Proof.
  intros x b Hb. destruct (rnd_error x) as [eps [eta [He [Ht Hr]]]].
  replace (rnd x - x) with (x * eps + eta) by (rewrite Hr; ring).
  apply Rle_trans with (1 := Rabs_triang _ _).
  apply Rplus_le_compat; [|exact Ht].
  rewrite Rabs_mult. apply Rmult_le_compat; try apply Rabs_pos; assumption.
Qed.

(** rounding a number of magnitude at most [1 + d] (d small): half an ulp of the binade
    below 1, or the distance to +-1 (as in SineProofs.v) *)
Lemma rnd_err_near_unit : forall s d, 0 <= d -> Rabs s <= 1 + d ->
  Rabs (rnd s - s) <= Rmax (/ 33554432) d.
Proof.
  intros s d Hd Hs.
  destruct (Rlt_or_le (Rabs s) 1) as [Hlt|Hge].
  - apply Rle_trans with (2 := Rmax_l _ _).
    destruct (Req_dec s 0) as [->|Hnz].
    { rewrite rnd_0. replace (0 - 0) with 0 by ring. rewrite Rabs_R0. lra. }
    assert (Hu : ulp radix2 fexp32 s <= bpow radix2 (-24)).
    { rewrite ulp_neq_0 by exact Hnz. apply bpow_le. unfold cexp, FLT_exp.
      assert (Hm : (mag radix2 s <= 0)%Z).
      { apply mag_le_bpow; [exact Hnz|]. change (bpow radix2 0) with 1. exact Hlt. }
      lia. }
    assert (He := error_le_half_ulp radix2 fexp32 (fun n => negb (Z.even n)) s).
    change (round radix2 fexp32 (Znearest (fun n => negb (Z.even n))) s) with (rnd s) in He.
    change (-24)%Z with (- (24))%Z in Hu. rewrite (bpow2_neg 24) in Hu by lia.
    change (2 ^ 24)%Z with 16777216%Z in Hu. lra.
  - apply Rle_trans with (2 := Rmax_r _ _).
    assert (HN : Rnd_N_pt fmt s (rnd s)).
    { apply round_N_pt. auto with typeclass_instances. }
    destruct HN as [_ HN].
    assert (f1 : fmt 1) by (apply (fmt_int 1); lia).
    assert (fm1 : fmt (-1)) by (apply (fmt_int (-1)); lia).
    destruct (Rle_or_lt 0 s) as [Hp|Hn].
    + rewrite Rabs_pos_eq in Hs, Hge by exact Hp.
      apply Rle_trans with (1 := HN 1 f1). rewrite Rabs_left1; lra.
    + rewrite Rabs_left in Hs, Hge by exact Hn.
      apply Rle_trans with (1 := HN (-1) fm1). rewrite Rabs_pos_eq; lra.
Qed.

(** a number in [0, 1 + 2^-25] is rounded with an error of at most 2^-25 *)
Lemma rnd_err_unit : forall x, 0 <= x <= 1 + / 33554432 ->
  Rabs (rnd x - x) <= / 33554432.
Proof.
  intros x Hx.
  assert (H := rnd_err_near_unit x (/ 33554432) ltac:(lra)).
  rewrite Rmax_left in H by lra. apply H. rewrite Rabs_pos_eq; lra.
Qed.

Lemma scale_bound : forall c d D, 0 <= c <= 1 -> Rabs d <= D -> Rabs (c * d) <= D.
Proof.
  intros c d D Hc Hd. rewrite Rabs_mult, (Rabs_pos_eq c) by lra.
  assert (H0 := Rabs_pos d).
  apply Rle_trans with (1 * Rabs d); [|lra].
  apply Rmult_le_compat_r; lra.
Qed.

(** the three roundings of the interpolation between neighbouring table entries *)
Definition DS : R := 3 / 4 * / 16777216.

Lemma interp_err : forall y0 y1 f, 0 <= y0 <= 1 -> 0 <= y1 <= 1 ->
  Rabs (y1 - y0) <= 0.004 -> 0 <= f <= 1 ->
  Rabs (interpR y0 y1 f - (y0 + (y1 - y0) * f)) <= DS.
Proof.
  intros y0 y1 f H0 H1 Hx Hf. unfold interpR, DS.
  set (x := y1 - y0) in *.
  assert (E1 := rnd_abs_err x _ Hx).
  set (e1 := rnd x - x) in *.
  assert (ED : rnd x = x + e1) by (unfold e1; ring).
  assert (HD : Rabs (rnd x * f) <= 0.0041).
  { rewrite Rmult_comm. apply scale_bound; [exact Hf|]. rewrite ED.
    apply Rle_trans with (1 := Rabs_triang _ _). lra. }
  assert (E2 := rnd_abs_err _ _ HD).
  set (e2 := rnd (rnd x * f) - rnd x * f) in *.
  assert (EP : rnd (rnd x * f) = x * f + e1 * f + e2) by (unfold e2; rewrite ED; ring).
  rewrite EP.
  assert (E1f : Rabs (e1 * f) <= 0.004 * / 16777216 + eta150).
  { rewrite Rmult_comm. apply scale_bound; assumption. }
  assert (HP : 0 <= y0 + x * f <= 1).
  { unfold x. replace (y0 + (y1 - y0) * f) with (y0 * (1 - f) + y1 * f) by ring.
    split; nra. }
  set (P := y0 + x * f) in *.
  set (s := y0 + (x * f + e1 * f + e2)).
  assert (Es : s = P + e1 * f + e2) by (unfold s, P; ring).
  assert (Hs : Rabs s <= 1 + / 33554432).
  { rewrite Es. apply Rle_trans with (1 := Rabs_triang _ _).
    apply Rle_trans with (Rabs P + Rabs (e1 * f) + Rabs e2).
    - apply Rplus_le_compat_r. apply Rabs_triang.
    - rewrite (Rabs_pos_eq P) by lra. lra. }
  assert (E3 := rnd_err_near_unit s (/ 33554432) ltac:(lra) Hs).
  rewrite Rmax_left in E3 by lra.
  replace (rnd s - P) with ((rnd s - s) + e1 * f + e2) by (rewrite Es; ring).
  apply Rle_trans with (1 := Rabs_triang _ _).
  apply Rle_trans with (Rabs (rnd s - s) + Rabs (e1 * f) + Rabs e2).
  - apply Rplus_le_compat_r. apply Rabs_triang.
  - lra.
Qed.

(** the roundings of the output formula [c * S + v], where [c] approximates the exact
    coefficient [cR] and [S] the exact curve value [P] *)
Definition EO : R := 3 * / 16777216.

Lemma out_err : forall c cR S P v, fmt c -> 0 <= c <= 1 -> 0 <= cR <= 1 ->
  Rabs (c - cR) <= / 33554432 -> 0 <= S <= 1 -> 0 <= P <= 1 -> Rabs (S - P) <= DS ->
  0 <= v -> c + v <= 1 + / 33554432 ->
  Rabs (outR c S v - (v + cR * P)) <= EO.
Proof.
  intros c cR S P v Fc Hc HcR Ec HS HP ES Hv Hcv. unfold outR, EO. unfold DS in ES.
  assert (BcS : 0 <= c * S <= c) by (split; nra).
  assert (EQ : Rabs (rnd (c * S) - c * S) <= / 33554432).
  { apply rnd_err_below_1. lra. }
  assert (BQ : 0 <= rnd (c * S) <= c).
  { apply rnd_bounds; [exact fmt_0|exact Fc|exact BcS]. }
  set (Q := rnd (c * S)) in *.
  assert (EF : Rabs (rnd (Q + v) - (Q + v)) <= / 33554432).
  { apply rnd_err_unit. lra. }
  assert (B1 : Rabs (c * (S - P)) <= 3 / 4 * / 16777216) by (apply scale_bound; assumption).
  assert (B2 : Rabs (P * (c - cR)) <= / 33554432) by (apply scale_bound; assumption).
  replace (rnd (Q + v) - (v + cR * P))
    with ((rnd (Q + v) - (Q + v)) + (Q - c * S) + c * (S - P) + P * (c - cR)) by ring.
  apply Rabs_le_inv in EQ, EF, B1, B2. apply Rabs_le. lra.
Qed.

(** * Part 2: the exact piecewise-linear curve through a table *)

(** neighbouring entries differ by less than [B] (both signs) *)
Definition step_ok (t : list f32) (B : f32) (n : nat) : bool :=
  let i := Z.of_nat n in
  let y0 := tbl t i in let y1 := tbl t (next_idx i) in
  flt (fsub y1 y0) B && flt (fsub y0 y1) B.

Lemma rnd_lt_inv : forall d b, fmt b -> rnd d < b -> d < b.
Proof.
  intros d b Fb H. destruct (Rlt_or_le d b) as [Hlt|Hle]; [exact Hlt|].
  exfalso. apply rnd_le in Hle. rewrite (rnd_id b Fb) in Hle. lra.
Qed.

Lemma mod_frac_R : forall a : Z, 0 <= IZR (a mod 16384) / 16384 < 1.
Proof.
  intros a. assert (Hm := Z.mod_pos_bound a 16384 ltac:(lia)).
  assert (Hr : 0 <= IZR (a mod 16384) < 16384).
  { split; [apply (IZR_le 0)|apply (IZR_lt _ 16384)]; lia. }
  lra.
Qed.

Section Curve.
Variable t : list f32.
Variable B : f32.
Hypothesis Hrng : forallb (cell_rng t) (seq 0 1024) = true.
Hypothesis Hstep : forallb (step_ok t B) (seq 0 1024) = true.
Hypothesis FB : fin B.
Hypothesis HB : R32 B <= 0.004.

(** table entries, the index clamped to [0, 1023] *)
Definition clampi (j : Z) : Z := Z.max 0 (Z.min j 1023).
Definition cc (j : Z) : R := R32 (tbl t (clampi j)).

(** the exact curve at counter position [a] (any integer; flat outside [0, 2^24]) *)
Definition P (a : Z) : R :=
  cc (a / 16384) + (cc (a / 16384 + 1) - cc (a / 16384)) * (IZR (a mod 16384) / 16384).

Lemma clampi_range : forall j, (0 <= clampi j <= 1023)%Z.
Proof. intros j. unfold clampi. lia. Qed.

Lemma cc_in : forall j, 0 <= cc j <= 1.
Proof. intros j. unfold cc. apply (tbl_in t Hrng), clampi_range. Qed.

Lemma step_at : forall i : Z, (0 <= i <= 1023)%Z ->
  Rabs (R32 (tbl t (next_idx i)) - R32 (tbl t i)) <= R32 B.
Proof.
  intros i Hi.
  assert (H : step_ok t B (Z.to_nat i) = true).
  { apply (proj1 (forallb_forall _ _) Hstep). apply in_seq. lia. }
  unfold step_ok in H. rewrite Z2Nat.id in H by lia. cbv zeta in H.
  apply andb_prop in H. destruct H as [H1 H2].
  destruct (tbl_in t Hrng i Hi) as [F0 B0].
  destruct (tbl_in t Hrng (next_idx i) (next_idx_range i Hi)) as [F1 B1].
  set (y0 := tbl t i) in *. set (y1 := tbl t (next_idx i)) in *.
  destruct (fsub_correct y1 y0 F1 F0) as [V10 F10].
  { apply ovf4. apply Rabs_le. lra. }
  destruct (fsub_correct y0 y1 F0 F1) as [V01 F01].
  { apply ovf4. apply Rabs_le. lra. }
  apply (flt_true _ _ F10 FB) in H1. apply (flt_true _ _ F01 FB) in H2.
  rewrite V10 in H1. rewrite V01 in H2.
  apply rnd_lt_inv in H1; [|apply fmt_R32]. apply rnd_lt_inv in H2; [|apply fmt_R32].
  apply Rabs_le. lra.
Qed.

Lemma cc_step : forall j, Rabs (cc (j + 1) - cc j) <= R32 B.
Proof.
  intros j. unfold cc.
  assert (HB0 : 0 <= R32 B).
  { apply Rle_trans with (2 := step_at 0 ltac:(lia)). apply Rabs_pos. }
  destruct (Z_lt_le_dec j 0) as [Hn|Hp].
  { replace (clampi (j + 1)) with (clampi j) by (unfold clampi; lia).
    replace (_ - _) with 0 by ring. rewrite Rabs_R0. exact HB0. }
  destruct (Z_lt_le_dec 1023 j) as [Hh|Hl].
  { replace (clampi (j + 1)) with (clampi j) by (unfold clampi; lia).
    replace (_ - _) with 0 by ring. rewrite Rabs_R0. exact HB0. }
  replace (clampi (j + 1)) with (next_idx j)
    by (unfold clampi, next_idx, ADSR_CURVE_LUT_SIZE; lia).
  replace (clampi j) with j by (unfold clampi; lia).
  apply step_at. lia.
Qed.

Lemma P_range : forall a, 0 <= P a <= 1.
Proof.
  intros a. unfold P.
  assert (H0 := cc_in (a / 16384)). assert (H1 := cc_in (a / 16384 + 1)).
  assert (Hf := mod_frac_R a).
  set (y0 := cc (a / 16384)) in *. set (y1 := cc (a / 16384 + 1)) in *.
  set (f := IZR (a mod 16384) / 16384) in *.
  replace (y0 + (y1 - y0) * f) with (y0 * (1 - f) + y1 * f) by ring.
  split; nra.
Qed.

Lemma P_step : forall a,
  P (a + 1) - P a = (cc (a / 16384 + 1) - cc (a / 16384)) / 16384.
Proof.
  intros a. unfold P.
  assert (Hm := Z.mod_pos_bound a 16384 ltac:(lia)).
  assert (Ea := Z.div_mod a 16384 ltac:(lia)).
  set (q := (a / 16384)%Z) in *. set (r := (a mod 16384)%Z) in *.
  destruct (Z_lt_le_dec r 16383) as [Hr|Hr].
  - assert (E1 : ((a + 1) / 16384 = q)%Z).
    { symmetry. apply (Z.div_unique (a + 1) 16384 q (r + 1)); lia. }
    assert (E2 : ((a + 1) mod 16384 = r + 1)%Z).
    { symmetry. apply (Z.mod_unique (a + 1) 16384 q (r + 1)); lia. }
    rewrite E1, E2, plus_IZR. field.
  - assert (Er : r = 16383%Z) by lia.
    assert (E1 : ((a + 1) / 16384 = q + 1)%Z).
    { symmetry. apply (Z.div_unique (a + 1) 16384 (q + 1) 0); lia. }
    assert (E2 : ((a + 1) mod 16384 = 0)%Z).
    { symmetry. apply (Z.mod_unique (a + 1) 16384 (q + 1) 0); lia. }
    rewrite E1, E2, Er. field.
Qed.

Lemma P_lipschitz : forall a n, (0 <= n)%Z ->
  Rabs (P (a + n) - P a) <= IZR n * (R32 B / 16384).
Proof.
  intros a n Hn. revert n Hn. apply natlike_ind.
  - rewrite Z.add_0_r. replace (P a - P a) with 0 by ring. rewrite Rabs_R0. lra.
  - intros n Hn IH.
    replace (a + Z.succ n)%Z with (a + n + 1)%Z by lia.
    rewrite succ_IZR.
    replace (P (a + n + 1) - P a)
      with ((P (a + n + 1) - P (a + n)) + (P (a + n) - P a)) by ring.
    apply Rle_trans with (1 := Rabs_triang _ _).
    rewrite P_step.
    assert (Hs := cc_step ((a + n) / 16384)).
    assert (Hd : Rabs ((cc ((a + n) / 16384 + 1) - cc ((a + n) / 16384)) / 16384)
                 <= R32 B / 16384).
    { unfold Rdiv. rewrite Rabs_mult, (Rabs_pos_eq (/ 16384)) by lra.
      apply Rmult_le_compat_r; [lra|exact Hs]. }
    lra.
Qed.

(** the form used below: moving from [a] to [a'], at most [inc] further, changes the
    curve by at most [L * min 1 (inc / 2^24)] *)
Lemma P_move : forall (L : R) (a a' inc : Z), R32 B * 1024 <= L -> 1 <= L ->
  (a <= a' <= a + inc)%Z ->
  Rabs (P a' - P a) <= L * Rmin 1 (IZR inc / 16777216).
Proof.
  intros L a a' inc HL HL1 Ha.
  assert (Hinc : 0 <= IZR inc) by (apply (IZR_le 0); lia).
  unfold Rmin. destruct (Rle_dec 1 (IZR inc / 16777216)) as [Hc|Hc].
  - assert (R1 := P_range a). assert (R2 := P_range a').
    apply Rle_trans with 1; [apply Rabs_le; lra|lra].
  - replace a' with (a + (a' - a))%Z by lia.
    apply Rle_trans with (1 := P_lipschitz a (a' - a) ltac:(lia)).
    assert (Hn : 0 <= IZR (a' - a) <= IZR inc).
    { split; [apply (IZR_le 0)|apply IZR_le]; lia. }
    assert (HB0 : 0 <= R32 B).
    { apply Rle_trans with (2 := cc_step 0). apply Rabs_pos. }
    apply Rle_trans with (IZR inc * (R32 B / 16384)).
    + apply Rmult_le_compat_r; [|lra]. unfold Rdiv. apply Rmult_le_pos; lra.
    + replace (IZR inc * (R32 B / 16384)) with (R32 B * 1024 * (IZR inc / 16777216)) by field.
      apply Rmult_le_compat_r; [|exact HL]. unfold Rdiv. apply Rmult_le_pos; lra.
Qed.

Lemma P_0 : P 0 = R32 (tbl t 0).
Proof.
  unfold P. change (0 / 16384)%Z with 0%Z. change (0 mod 16384)%Z with 0%Z.
  unfold cc. change (clampi 0) with 0%Z. lra.
Qed.

Lemma P_top : P 16777216 = R32 (tbl t 1023).
Proof.
  unfold P. change (16777216 / 16384)%Z with 1024%Z. change (16777216 mod 16384)%Z with 0%Z.
  unfold cc. change (clampi 1024) with 1023%Z. lra.
Qed.

(** the f32 sample is within [DS] of the exact curve *)
Lemma sample_near : forall a : Z, (0 <= a < 16777216)%Z ->
  Rabs (R32 (sample_at t a) - P a) <= DS.
Proof.
  intros a Ha. destruct (sample_R t Hrng a Ha) as [_ V]. cbv zeta in V. rewrite V.
  destruct (idx_frac a Ha) as (_ & _ & Hi & _ & _).
  unfold P. set (i := (a / 16384)%Z) in *.
  assert (E0 : cc i = R32 (tbl t i)).
  { unfold cc. f_equal. f_equal. unfold clampi. lia. }
  assert (E1 : cc (i + 1) = R32 (tbl t (next_idx i))).
  { unfold cc. f_equal. f_equal. unfold clampi, next_idx, ADSR_CURVE_LUT_SIZE. lia. }
  rewrite E0, E1.
  assert (Hf := mod_frac_R a).
  apply interp_err.
  - apply (tbl_in t Hrng), Hi.
  - apply (tbl_in t Hrng), next_idx_range, Hi.
  - apply Rle_trans with (2 := HB). apply step_at, Hi.
  - lra.
Qed.

End Curve.

(** * Part 3: the two tables *)

Definition BA : f32 := fdiv (of_Z 29) (of_Z 16384).    (* 1.8125 / 1024 *)
Definition BD : f32 := fdiv (of_Z 261) (of_Z 65536).   (* 4.078125 / 1024 *)

Lemma attack_step_sweep : forallb (step_ok attack_table BA) (seq 0 1024) = true.
Proof. vm_compute. reflexivity. Qed.

Lemma decay_step_sweep : forallb (step_ok decay_table BD) (seq 0 1024) = true.
Proof. vm_compute. reflexivity. Qed.

Lemma fin_BA : fin BA.
Proof. fin_const. Qed.
Lemma fin_BD : fin BD.
Proof. fin_const. Qed.

Lemma R32_BA : R32 BA = 29 / 16384.
Proof. r32_const BA. lra. Qed.
Lemma R32_BD : R32 BD = 261 / 65536.
Proof. r32_const BD. lra. Qed.

Definition PA : Z -> R := P attack_table.
Definition PD : Z -> R := P decay_table.

Lemma PA_range : forall a, 0 <= PA a <= 1.
Proof. exact (P_range attack_table attack_rng_sweep). Qed.

Lemma PD_range : forall a, 0 <= PD a <= 1.
Proof. exact (P_range decay_table decay_rng_sweep). Qed.

Lemma PA_move : forall a a' inc, (a <= a' <= a + inc)%Z ->
  Rabs (PA a' - PA a) <= 1.82 * Rmin 1 (IZR inc / 16777216).
Proof.
  intros a a' inc H.
  apply (P_move attack_table BA attack_rng_sweep attack_step_sweep fin_BA); try exact H.
  - rewrite R32_BA. lra.
  - lra.
Qed.

Lemma PD_move : forall a a' inc, (a <= a' <= a + inc)%Z ->
  Rabs (PD a' - PD a) <= 4.08 * Rmin 1 (IZR inc / 16777216).
Proof.
  intros a a' inc H.
  apply (P_move decay_table BD decay_rng_sweep decay_step_sweep fin_BD); try exact H.
  - rewrite R32_BD. lra.
  - lra.
Qed.

Lemma PA_0 : PA 0 = 0.
Proof. unfold PA. rewrite P_0. vm_compute. reflexivity. Qed.

Lemma PA_top : PA 16777216 = 1.
Proof. unfold PA. rewrite P_top. r32_const (tbl attack_table 1023). lra. Qed.

Lemma PD_0 : PD 0 = 1.
Proof. unfold PD. rewrite P_0. r32_const (tbl decay_table 0). lra. Qed.

Lemma PD_top : PD 16777216 = 0.
Proof. unfold PD. rewrite P_top. vm_compute. reflexivity. Qed.

Lemma SA_near : forall a, (0 <= a < 16777216)%Z -> Rabs (R32 (SA a) - PA a) <= DS.
Proof.
  apply (sample_near attack_table BA attack_rng_sweep attack_step_sweep fin_BA).
  rewrite R32_BA. lra.
Qed.

Lemma SD_near : forall a, (0 <= a < 16777216)%Z -> Rabs (R32 (SD a) - PD a) <= DS.
Proof.
  apply (sample_near decay_table BD decay_rng_sweep decay_step_sweep fin_BD).
  rewrite R32_BD. lra.
Qed.

(** * Part 4: the exact output and its distance from the f32 output *)

(** the exact (unrounded) output in phase [st] with latched levels [von], [sus], [voff] at
    counter position [a] *)
Definition Vx (st : phase) (von sus voff : R) (a : Z) : R :=
  match st with
  | Attack => von + (1 - von) * PA a
  | Decay => sus + (1 - sus) * PD a
  | Release => voff * PD a
  | Sustain => sus
  | AtRest => 0
  end.

Definition Vex (s : adsr) : R :=
  Vx (a_state s) (R32 (a_von s)) (R32 (a_sustain s)) (R32 (a_voff s)) (pa_acc (a_pa s)).

Lemma coef_near : forall v, 0 <= v <= 1 ->
  Rabs (rnd (1 - v) - (1 - v)) <= / 33554432 /\ rnd (1 - v) + v <= 1 + / 33554432.
Proof.
  intros v Hv.
  assert (H : Rabs (rnd (1 - v) - (1 - v)) <= / 33554432) by (apply rnd_err_below_1; lra).
  split; [exact H|]. apply Rabs_le_inv in H. lra.
Qed.

Lemma calcR_near : forall s, InvV s -> acc_ok s -> Rabs (calcR s - Vex s) <= EO.
Proof.
  intros s [[_ Bs] _ [_ Bon] [_ Boff]] Ha. unfold calcR, Vex, Vx. cbv zeta.
  pose proof (proj2 (SA_in _ Ha)) as HA. pose proof (proj2 (SD_in _ Ha)) as HD.
  assert (NA := SA_near _ Ha). assert (ND := SD_near _ Ha).
  assert (RA := PA_range (pa_acc (a_pa s))). assert (RD := PD_range (pa_acc (a_pa s))).
  assert (HE : 0 <= EO) by (unfold EO; lra).
  destruct (a_state s).
  - replace (0 - 0) with 0 by ring. rewrite Rabs_R0. exact HE.
  - destruct (coef_near _ Bon) as [Ec Hcv].
    apply out_err; try assumption; try lra.
    + apply fmt_rnd.
    + apply coef_range, Bon.
  - destruct (coef_near _ Bs) as [Ec Hcv].
    apply out_err; try assumption; try lra.
    + apply fmt_rnd.
    + apply coef_range, Bs.
  - replace (_ - _) with 0 by ring. rewrite Rabs_R0. exact HE.
  - replace (R32 (a_voff s) * PD (pa_acc (a_pa s)))
      with (0 + R32 (a_voff s) * PD (pa_acc (a_pa s))) by ring.
    apply out_err; try assumption; try lra.
    + apply fmt_R32.
    + replace (_ - _) with 0 by ring. rewrite Rabs_R0. lra.
Qed.

(** moving along the curve of phase [st] while the sustain level is changed *)
Lemma Vx_move : forall st von voff sus0 sus1 a a' inc,
  0 <= von <= 1 -> 0 <= voff <= 1 -> 0 <= sus0 <= 1 -> 0 <= sus1 <= 1 ->
  (a <= a' <= a + inc)%Z ->
  Rabs (Vx st von sus1 voff a' - Vx st von sus0 voff a)
    <= match st with Attack => 1.82 | Decay | Release => 4.08 | Sustain | AtRest => 0 end
       * Rmin 1 (IZR inc / 16777216) + Rabs (sus1 - sus0).
Proof.
  intros st von voff sus0 sus1 a a' inc Hon Hoff H0 H1 Ha.
  assert (MA := PA_move a a' inc Ha). assert (MD := PD_move a a' inc Ha).
  assert (RD := PD_range a').
  assert (Hs := Rabs_pos (sus1 - sus0)).
  destruct st; unfold Vx.
  - replace (0 - 0) with 0 by ring. rewrite Rabs_R0. lra.
  - replace (von + (1 - von) * PA a' - (von + (1 - von) * PA a))
      with ((1 - von) * (PA a' - PA a)) by ring.
    apply Rle_trans with (1.82 * Rmin 1 (IZR inc / 16777216)); [|lra].
    apply scale_bound; [lra|exact MA].
  - replace (sus1 + (1 - sus1) * PD a' - (sus0 + (1 - sus0) * PD a))
      with ((1 - sus0) * (PD a' - PD a) + (1 - PD a') * (sus1 - sus0)) by ring.
    apply Rle_trans with (1 := Rabs_triang _ _).
    apply Rplus_le_compat.
    + apply scale_bound; [lra|exact MD].
    + apply scale_bound; [lra|lra].
  - lra.
  - replace (voff * PD a' - voff * PD a) with (voff * (PD a' - PD a)) by ring.
    apply Rle_trans with (4.08 * Rmin 1 (IZR inc / 16777216)); [|lra].
    apply scale_bound; [lra|exact MD].
Qed.

(** * Part 5: what non-tick operations do *)

Definition is_event' (o : adsr_op) : Prop := o <> ATick.

Lemma Inv_RI : forall s, Inv s -> RI s.
Proof. intros s [HC HV]. split; [exact HV|]. exact (inv_acc s HC). Qed.

Lemma Inv_step : forall s o, Inv s -> Inv (adsr_step s o).
Proof.
  intros s o H. split.
  - apply InvC_step, H.
  - apply (RI_step s o (Inv_RI s H)).
Qed.

(** what one non-tick operation does to phase, counter and latched levels *)
Definition ev_keep (s s' : adsr) : Prop :=
  a_state s' = a_state s /\ a_pa s' = a_pa s /\ a_von s' = a_von s /\ a_voff s' = a_voff s.
Definition ev_on (s s' : adsr) : Prop :=
  a_state s' = Attack /\ pa_acc (a_pa s') = 0%Z /\ a_von s' = a_value s.
Definition ev_off (s s' : adsr) : Prop :=
  a_state s' = Release /\ pa_acc (a_pa s') = 0%Z /\ a_voff s' = a_value s.

Lemma event_step : forall s o, o <> ATick ->
  let s' := adsr_step s o in
  ev_keep s s' \/ ev_on s s' \/ ev_off s s'.
Proof.
  intros s o Ho s'. subst s'. destruct o; unfold adsr_step.
  - congruence.
  - destruct (gate_on_cases s) as [E|E]; rewrite E.
    + left. repeat split.
    + right. left. repeat split.
  - destruct (gate_off_cases s) as [E|E]; rewrite E.
    + left. repeat split.
    + right. right. repeat split.
  - left. repeat split.
  - left. repeat split.
  - left. repeat split.
  - left. repeat split.
Qed.

Lemma events_spec : forall evs s, Forall is_event' evs -> Inv s ->
  let s1 := fold_left adsr_step evs s in
  Inv s1 /\ a_value s1 = a_value s /\ (ev_keep s s1 \/ ev_on s s1 \/ ev_off s s1).
Proof.
  intros evs s. induction evs as [|o evs IH] using rev_ind; intros Hev HI.
  - cbn [fold_left]. split; [exact HI|]. split; [reflexivity|]. left. repeat split.
  - rewrite fold_left_app. cbn [fold_left].
    apply Forall_app in Hev. destruct Hev as [Hev Ho].
    assert (Ho' : o <> ATick) by (inversion Ho; assumption).
    destruct (IH Hev HI) as (I1 & Ev & Hc). clear IH.
    set (s1 := fold_left adsr_step evs s) in *.
    split; [apply Inv_step, I1|].
    split; [rewrite (value_only_on_tick s1 o Ho'); exact Ev|].
    destruct (event_step s1 o Ho') as [K|[K|K]].
    + destruct K as (K1 & K2 & K3 & K4).
      destruct Hc as [(C1 & C2 & C3 & C4)|[(C1 & C2 & C3)|(C1 & C2 & C3)]].
      * left. repeat split; congruence.
      * right. left. repeat split; congruence.
      * right. right. repeat split; congruence.
    + destruct K as (K1 & K2 & K3). right. left. repeat split; congruence.
    + destruct K as (K1 & K2 & K3). right. right. repeat split; congruence.
Qed.

(** * Part 6: what a tick does *)

Lemma tick_levels : forall s,
  let s' := adsr_step s ATick in
  a_sustain s' = a_sustain s /\ a_von s' = a_von s /\ a_voff s' = a_voff s.
Proof.
  intros s s'. subst s'. unfold adsr_step, adsr_tick.
  destruct (timed (a_state s)) eqn:T.
  - rewrite (AdsrClockProofs.tick_advance_timed s T). cbv zeta.
    destruct (pa_rolled _); repeat split; reflexivity.
  - rewrite (AdsrClockProofs.tick_advance_untimed s T). repeat split; reflexivity.
Qed.

Lemma levels_in : forall s, InvV s ->
  0 <= R32 (a_von s) <= 1 /\ 0 <= R32 (a_sustain s) <= 1 /\ 0 <= R32 (a_voff s) <= 1 /\
  0 <= R32 (a_value s) <= 1.
Proof. intros s [[_ H1] [_ H2] [_ H3] [_ H4]]. repeat split; lra. Qed.

(** the output after the tick is (within [EO]) the exact output of the phase in which the
    tick started, at a position [a'] at most [inc] further along -- the end of the phase,
    [2^24], if the counter rolled over *)
Lemma tick_near : forall s, Inv s -> (adsr_inc s <= 4278190080)%Z ->
  let s' := adsr_step s ATick in
  exists a' : Z, (pa_acc (a_pa s) <= a' <= pa_acc (a_pa s) + adsr_inc s)%Z /\
    Rabs (R32 (a_value s')
          - Vx (a_state s) (R32 (a_von s)) (R32 (a_sustain s)) (R32 (a_voff s)) a') <= EO.
Proof.
  intros s HI Hinc s'.
  assert (HI' : Inv s') by (apply Inv_step, HI).
  assert (Hsy : synced s') by (apply (synced_step s ATick HI I)).
  assert (V := synced_R s' HI' Hsy).
  assert (N := calcR_near s' (proj2 HI') (inv_acc s' (proj1 HI'))).
  destruct (tick_levels s) as (Es & Eon & Eoff). fold s' in Es, Eon, Eoff.
  assert (Hr := adsr_inc_range s).
  assert (Ha := inv_acc s (proj1 HI)).
  assert (HE : 0 <= EO) by (unfold EO; lra).
  destruct (levels_in s (proj2 HI)) as (Bon & Bs & Boff & _).
  pose proof (tick_spec s (proj1 HI) Hinc) as T. cbv zeta in T. fold s' in T.
  destruct (timed (a_state s)) eqn:Tm.
  - destruct (pa_acc (a_pa s) + adsr_inc s <? 16777216)%Z eqn:Lt.
    + (* no rollover *)
      destruct T as [Est Eacc].
      exists (pa_acc (a_pa s) + adsr_inc s)%Z. split; [lia|].
      rewrite V. unfold Vex in N. rewrite Est, Eon, Es, Eoff, Eacc in N. exact N.
    + (* rollover: the new phase starts exactly where the old one ends *)
      apply Z.ltb_ge in Lt. destruct T as [Est Eacc].
      exists 16777216%Z. split; [lia|].
      rewrite V. unfold calcR. rewrite Est, Eacc. cbv zeta.
      destruct (a_state s); try discriminate Tm; cbn [next_phase]; unfold Vx.
      * rewrite SD_0, Es, (outR_one _ Bs), PA_top.
        replace (1 - _) with 0 by ring. rewrite Rabs_R0. exact HE.
      * rewrite Es, PD_top.
        replace (_ - _) with 0 by ring. rewrite Rabs_R0. exact HE.
      * rewrite PD_top.
        replace (_ - _) with 0 by ring. rewrite Rabs_R0. exact HE.
  - destruct T as [Est Eacc].
    exists (pa_acc (a_pa s)). split; [lia|].
    rewrite V. unfold calcR. rewrite Est. cbv zeta.
    destruct (a_state s); try discriminate Tm; unfold Vx.
    + replace (0 - 0) with 0 by ring. rewrite Rabs_R0. exact HE.
    + rewrite Es. replace (_ - _) with 0 by ring. rewrite Rabs_R0. exact HE.
Qed.

(** * Part 7: the theorems of Props/C03.v *)

Definition slope' (p : phase) : R :=
  match p with Attack => 1.82 | Decay | Release => 4.08 | Sustain | AtRest => 0 end.

(** the output before the events, seen from the state after them: it is (within [EO]) the
    exact output of the phase the next tick starts in, at the counter position the tick
    starts from, with the old sustain level.  After an effective gate event this is
    exact: the new segment starts at the level being output. *)
Lemma pre_near : forall s s1, Inv s -> synced s -> Inv s1 ->
  ev_keep s s1 \/ ev_on s s1 \/ ev_off s s1 ->
  Rabs (R32 (a_value s)
        - Vx (a_state s1) (R32 (a_von s1)) (R32 (a_sustain s)) (R32 (a_voff s1))
             (pa_acc (a_pa s1))) <= EO.
Proof.
  intros s s1 HI Hsy I1 Hc.
  assert (HE : 0 <= EO) by (unfold EO; lra).
  destruct Hc as [(K1 & K2 & K3 & K4)|[(K1 & K2 & K3)|(K1 & K2 & K3)]].
  - rewrite K1, K2, K3, K4, (synced_R s HI Hsy).
    exact (calcR_near s (proj2 HI) (inv_acc s (proj1 HI))).
  - rewrite K1, K2, K3. unfold Vx. rewrite PA_0.
    replace (_ - _) with 0 by ring. rewrite Rabs_R0. exact HE.
  - rewrite K1, K2, K3. unfold Vx. rewrite PD_0.
    replace (_ - _) with 0 by ring. rewrite Rabs_R0. exact HE.
Qed.

Theorem step_bound : forall s evs,
  Inv s -> synced s -> Forall is_event' evs ->
  let s1 := fold_left adsr_step evs s in
  (adsr_inc s1 <= 4278190080)%Z ->
  let s2 := adsr_step s1 ATick in
  Rabs (R32 (a_value s2) - R32 (a_value s))
    <= slope' (a_state s1) * Rmin 1 (IZR (adsr_inc s1) / 16777216)
       + Rabs (R32 (a_sustain s1) - R32 (a_sustain s)) + 8 * / 16777216.
Proof.
  intros s evs HI Hsy Hev s1 Hinc s2.
  destruct (events_spec evs s Hev HI) as (I1 & _ & Hc). fold s1 in I1, Hc.
  destruct (tick_near s1 I1 Hinc) as (a' & Ha' & N2). fold s2 in N2.
  assert (N0 := pre_near s s1 HI Hsy I1 Hc).
  destruct (levels_in s1 (proj2 I1)) as (Bon & Bs1 & Boff & _).
  destruct (levels_in s (proj2 HI)) as (_ & Bs0 & _ & _).
  assert (M : Rabs (Vx (a_state s1) (R32 (a_von s1)) (R32 (a_sustain s1)) (R32 (a_voff s1)) a'
                    - Vx (a_state s1) (R32 (a_von s1)) (R32 (a_sustain s)) (R32 (a_voff s1))
                         (pa_acc (a_pa s1)))
              <= slope' (a_state s1) * Rmin 1 (IZR (adsr_inc s1) / 16777216)
                 + Rabs (R32 (a_sustain s1) - R32 (a_sustain s))).
  { apply Vx_move; assumption. }
  set (X := slope' (a_state s1) * Rmin 1 (IZR (adsr_inc s1) / 16777216)) in *.
  set (Y := Rabs (R32 (a_sustain s1) - R32 (a_sustain s))) in *.
  unfold EO in N0, N2.
  apply Rabs_le_inv in N0, N2, M. apply Rabs_le. lra.
Qed.

Theorem step_bound_applicable : forall fs ops,
  Inv (adsr_run fs ops) /\ synced (adsr_run fs (ops ++ [ATick])).
Proof.
  intros fs ops.
  assert (HI : Inv (adsr_run fs ops)).
  { split; [apply adsr_inv_clock|apply adsr_inv_level]. }
  split; [exact HI|].
  unfold adsr_run. rewrite fold_left_app. cbn [fold_left].
  apply (synced_step _ ATick HI I).
Qed.
