(** Curve bound for the attack table, cells 256 .. 511 (see AdsrCurveBase.v). *)
From Coq Require Import ZArith Reals List.
From SU Require Import F32.
From SU.gen Require Import Tables.
From SU.Spec Require Import AdsrSpec.
From SU.Proofs Require Import AdsrCurveBase.

Lemma attack_cells_256 : cells attack_cell 256 256.
Proof. unfold attack_cell. solve_cells. Qed.
