(** Second round of statement-level gaps found by mutation testing of Model/Midi.v.

    The C18 theorems pin, from ANY receiver state, the complete effect of one control change
    and of one pitch bend; the C04/C05 theorems pin, over whole histories, the note outputs
    (held list, gate, note, velocity, both edge flags).  Nothing said what the OTHER
    operations - note-on, note-off (incl. zero-velocity note-on), [rising_gate()] /
    [falling_gate()] polls, [set_note_priority], [set_retrigger_mode] - do to the eight
    controller outputs and the pitch bend.  [C06_framing] / [C06_ops_lift] compare the model
    with itself on this point.  So a receiver whose last note-off recentres the pitch bend,
    whose note-on overwrites the volume with the velocity, whose [falling_gate()] clears the
    sustain switch, or whose [set_note_priority] swaps volume and cutoff satisfied every
    property theorem, although C18 says that controller n sets its output to value/127
    "in any order and interleaved with note traffic" and C04/C05 range over "mode changes
    and edge polls at any position".

    The theorems below are stated against literals and positions in the history only:
    - step level, from ANY state: every operation that is not a control change or a pitch
      bend on the listened channel leaves the eight controller outputs and the pitch bend
      untouched ([C18_non_controller_ops_keep_controllers], and the four handlers by name);
    - history level: after ANY history of messages / polls / mode changes every controller
      output is what the LATEST control change for its number (value/127, or value >= 64 for
      the two switches), controller 121 (power-on default) or pitch bend on the listened
      channel wrote, and the power-on default if there was none ([C18_controllers_trace]);
    - byte level with polls and mode changes anywhere ([C18_controllers_trace_bytes]). *)
From Coq Require Import ZArith Lia Bool List.
Import ListNotations.
From Flocq Require Import IEEE754.BinarySingleNaN.
From SU Require Import F32.
From SU.gen Require Import Consts.
From SU.Model Require Import Midi.
From SU.Spec Require Import MidiSpec.
From SU.Proofs Require Import MidiParserProofs MidiLiftProofs.
Open Scope Z_scope.

(** the eight controller outputs and the pitch bend (the same tuple as [C18.ctrl_view]) *)
Definition ctrl8 (r : rx) :=
  (r_pitch_bend r, r_mod_wheel r, r_volume r, r_cutoff r, r_resonance r, r_porta_time r,
   r_porta_en r, r_sustain_en r).

(** ** step level: the frame of the non-controller operations *)

(** [o] is a control change or a pitch bend on channel [c] *)
Definition is_controller_msg (c : Z) (o : mop) : bool :=
  match o with
  | OMsg (MControlChange k _ _) => k =? c
  | OMsg (MPitchBend k _ _) => k =? c
  | _ => false
  end.

Theorem C18_note_on_keeps_controllers : forall r n v,
  ctrl8 (handle_note_on r n v) = ctrl8 r.
Proof. intros. reflexivity. Qed.

Theorem C18_note_off_keeps_controllers : forall r n,
  ctrl8 (handle_note_off r n) = ctrl8 r.
Proof.
  intros r n. unfold handle_note_off.
  destruct (filter (fun k => negb (k =? n)) (r_held r)); reflexivity.
Qed.

Theorem C18_polls_keep_controllers : forall r,
  ctrl8 (snd (rx_rising_gate r)) = ctrl8 r /\ ctrl8 (snd (rx_falling_gate r)) = ctrl8 r.
Proof. intros r. split; reflexivity. Qed.

Theorem C18_mode_setters_keep_controllers : forall r p b,
  ctrl8 (rx_set_prio r p) = ctrl8 r /\ ctrl8 (rx_set_retrig r b) = ctrl8 r.
Proof. intros r p b. split; reflexivity. Qed.

(** every message-level operation except a control change / pitch bend on the listened
    channel: note-on, note-off, messages of other channels, ignored messages, both polls,
    both mode setters *)
Theorem C18_non_controller_ops_keep_controllers : forall r o,
  is_controller_msg (r_channel r) o = false ->
  ctrl8 (fst (mstep r o)) = ctrl8 r.
Proof.
  intros r o H. destruct o as [m | | | p | b]; try reflexivity.
  destruct m as [c n v | c n v | c k v | c msb lsb |]; cbn [is_controller_msg] in H;
    cbn [mstep fst apply_msg].
  - destruct (c =? r_channel r); [apply C18_note_off_keeps_controllers | reflexivity].
  - destruct (c =? r_channel r); [| reflexivity].
    destruct (v =? 0); [apply C18_note_off_keeps_controllers | reflexivity].
  - rewrite H. reflexivity.
  - rewrite H. reflexivity.
  - reflexivity.
Qed.

(** the same for one byte-level operation whose byte completes no control change / pitch
    bend on the listened channel (in particular every byte that completes nothing) *)
Theorem C18_non_controller_byte_ops_keep_controllers : forall r o,
  match o with
  | RByte b => match snd (parse_byte (r_parser r) b) with
               | Some m => is_controller_msg (r_channel r) (OMsg m) = false
               | None => True
               end
  | _ => True
  end ->
  ctrl8 (fst (rx_step r o)) = ctrl8 r.
Proof.
  intros r o H. destruct o as [b | | | p | x]; try reflexivity.
  cbn [rx_step fst]. unfold rx_parse.
  destruct (parse_byte (r_parser r) b) as [st [m|]]; cbn [snd] in H; [| reflexivity].
  change (ctrl8 (fst (mstep (with_parser r st) (OMsg m))) = ctrl8 (with_parser r st)).
  apply C18_non_controller_ops_keep_controllers. exact H.
Qed.

(** ** history level: every controller output is what its latest writer wrote *)

(** the value written by the newest operation (histories newest first) that writes *)
Fixpoint last_write {A : Type} (w : mop -> option A) (d : A) (rh : list mop) : A :=
  match rh with
  | [] => d
  | o :: older => match w o with Some a => a | None => last_write w d older end
  end.

(** what [o] writes to the continuous controller number [cc] on channel [ch]:
    controller [cc] writes value/127, controller 121 writes 0.0 *)
Definition cc_write (ch cc : Z) (o : mop) : option f32 :=
  match o with
  | OMsg (MControlChange c k v) =>
      if c =? ch then
        if k =? cc then Some (fdiv (of_Z v) f_127)
        else if k =? 121 then Some f_0 else None
      else None
  | _ => None
  end.

(** what [o] writes to the switch controller number [cc]: value >= 64; 121 writes true *)
Definition sw_write (ch cc : Z) (o : mop) : option bool :=
  match o with
  | OMsg (MControlChange c k v) =>
      if c =? ch then
        if k =? cc then Some (64 <=? v)
        else if k =? 121 then Some true else None
      else None
  | _ => None
  end.

(** what [o] writes to the pitch bend: a pitch bend message its value (pinned for all 16384
    values by [C18_pitch_bend_value]), controller 121 writes 0.0 *)
Definition pb_write (ch : Z) (o : mop) : option f32 :=
  match o with
  | OMsg (MPitchBend c msb lsb) => if c =? ch then Some (value14_to_f32 msb lsb) else None
  | OMsg (MControlChange c k _) => if (c =? ch) && (k =? 121) then Some f_0 else None
  | _ => None
  end.

(** the controller outputs after history [h] (oldest first) on listened channel [ch] *)
Definition ctrl_spec (ch : Z) (h : list mop) :=
  let rh := rev h in
  (last_write (pb_write ch) f_0 rh,
   last_write (cc_write ch 1) f_0 rh,
   last_write (cc_write ch 7) f_0 rh,
   last_write (cc_write ch 71) f_0 rh,
   last_write (cc_write ch 74) f_0 rh,
   last_write (cc_write ch 5) f_0 rh,
   last_write (sw_write ch 65) true rh,
   last_write (sw_write ch 64) true rh).

Definition upd {A : Type} (w : option A) (old : A) : A :=
  match w with Some a => a | None => old end.

Lemma k2_handle_cc_channel : forall r k v, r_channel (handle_cc r k v) = r_channel r.
Proof.
  intros r k v. unfold handle_cc.
  repeat match goal with |- context [if ?c then _ else _] => destruct c end; reflexivity.
Qed.

Lemma k2_step_channel : forall r o, r_channel (fst (mstep r o)) = r_channel r.
Proof.
  intros r o. destruct o as [m | | | p | b]; try reflexivity.
  destruct m as [c n v | c n v | c k v | c msb lsb |]; cbn [mstep fst apply_msg].
  - destruct (c =? r_channel r); [| reflexivity].
    unfold handle_note_off. destruct (filter _ _); reflexivity.
  - destruct (c =? r_channel r); [| reflexivity].
    destruct (v =? 0); [| reflexivity].
    unfold handle_note_off. destruct (filter _ _); reflexivity.
  - destruct (c =? r_channel r); [apply k2_handle_cc_channel | reflexivity].
  - destruct (c =? r_channel r); reflexivity.
  - reflexivity.
Qed.

(** one control change on the listened channel, all nine cases of the routing table *)
Lemma k2_cc_step : forall r k v,
  let c := r_channel r in
  let o := OMsg (MControlChange c k v) in
  ctrl8 (handle_cc r k v) =
  (upd (pb_write c o) (r_pitch_bend r),
   upd (cc_write c 1 o) (r_mod_wheel r),
   upd (cc_write c 7 o) (r_volume r),
   upd (cc_write c 71 o) (r_cutoff r),
   upd (cc_write c 74 o) (r_resonance r),
   upd (cc_write c 5 o) (r_porta_time r),
   upd (sw_write c 65 o) (r_porta_en r),
   upd (sw_write c 64 o) (r_sustain_en r)).
Proof.
  intros r k v c o. subst o. cbn [pb_write cc_write sw_write].
  subst c. rewrite Z.eqb_refl. cbn [andb].
  unfold handle_cc, CC_MOD_WHEEL, CC_VOLUME, CC_VCF_CUTOFF, CC_VCF_RESONANCE,
    CC_PORTAMENTO_TIME, CC_PORTAMENTO_SWITCH, CC_SUSTAIN_SWITCH, CC_ALL_CONTROLLERS_OFF,
    CC_ALL_NOTES_OFF, U7_HALF_SCALE, value7_to_f32.
  destruct (Z.eqb_spec k 1) as [-> | _]; [reflexivity |].
  destruct (Z.eqb_spec k 7) as [-> | _]; [reflexivity |].
  destruct (Z.eqb_spec k 71) as [-> | _]; [reflexivity |].
  destruct (Z.eqb_spec k 74) as [-> | _]; [reflexivity |].
  destruct (Z.eqb_spec k 5) as [-> | _]; [reflexivity |].
  destruct (Z.eqb_spec k 65) as [-> | _]; [reflexivity |].
  destruct (Z.eqb_spec k 64) as [-> | _]; [reflexivity |].
  destruct (Z.eqb_spec k 121) as [-> | _]; [reflexivity |].
  destruct (Z.eqb_spec k 123) as [-> | _]; reflexivity.
Qed.

(** one operation, from ANY state *)
Theorem C18_controllers_step : forall r o,
  let c := r_channel r in
  ctrl8 (fst (mstep r o)) =
  (upd (pb_write c o) (r_pitch_bend r),
   upd (cc_write c 1 o) (r_mod_wheel r),
   upd (cc_write c 7 o) (r_volume r),
   upd (cc_write c 71 o) (r_cutoff r),
   upd (cc_write c 74 o) (r_resonance r),
   upd (cc_write c 5 o) (r_porta_time r),
   upd (sw_write c 65 o) (r_porta_en r),
   upd (sw_write c 64 o) (r_sustain_en r)).
Proof.
  intros r o c.
  destruct (is_controller_msg c o) eqn:E.
  - destruct o as [m | | | p | b]; try discriminate E.
    destruct m as [k n v | k n v | k cc v | k msb lsb |]; try discriminate E;
      cbn [is_controller_msg] in E; apply Z.eqb_eq in E; subst k.
    + cbn [mstep fst apply_msg]. subst c. rewrite Z.eqb_refl. apply k2_cc_step.
    + cbn [mstep fst apply_msg pb_write cc_write sw_write]. subst c.
      rewrite Z.eqb_refl. reflexivity.
  - rewrite C18_non_controller_ops_keep_controllers by exact E.
    destruct o as [m | | | p | b]; try reflexivity.
    destruct m as [k n v | k n v | k cc v | k msb lsb |]; try reflexivity;
      cbn [is_controller_msg] in E; cbn [pb_write cc_write sw_write]; rewrite E; reflexivity.
Qed.

Lemma k2_mrun_snoc : forall ch h o, mrun ch (h ++ [o]) = fst (mstep (mrun ch h) o).
Proof. intros. unfold mrun, mrun_from. rewrite fold_left_app. reflexivity. Qed.

Lemma k2_mrun_channel : forall ch h, r_channel (mrun ch h) = Z.min ch 15.
Proof.
  intros ch h. induction h as [| o h IH] using rev_ind; [reflexivity |].
  rewrite k2_mrun_snoc, k2_step_channel. exact IH.
Qed.

(** after ANY history of messages (all channels, all kinds), polls and mode changes *)
Theorem C18_controllers_trace : forall ch h,
  ctrl8 (mrun ch h) = ctrl_spec (Z.min ch 15) h.
Proof.
  intros ch h. induction h as [| o h IH] using rev_ind; [reflexivity |].
  rewrite k2_mrun_snoc, C18_controllers_step, k2_mrun_channel.
  unfold ctrl_spec. rewrite rev_app_distr. cbn [rev app last_write].
  unfold ctrl8, ctrl_spec in IH. injection IH as H1 H2 H3 H4 H5 H6 H7 H8.
  rewrite H1, H2, H3, H4, H5, H6, H7, H8. unfold upd. reflexivity.
Qed.

(** byte level: bytes, polls and mode changes in any order, polls also between the bytes of a
    message ([lift] replaces each byte by the message it completes, if any) *)
Theorem C18_controllers_trace_bytes : forall ch ops,
  ctrl8 (rx_run (rx_new ch) ops) = ctrl_spec (Z.min ch 15) (lift Idle ops).
Proof.
  intros ch ops. rewrite <- C18_controllers_trace.
  destruct (ops_lift ch ops) as [H _]. unfold observe in H.
  injection H as _ _ H3 H4 H5 H6 H7 H8 H9 H10 _ _ _.
  unfold ctrl8. rewrite H3, H4, H5, H6, H7, H8, H9, H10. reflexivity.
Qed.

(** non-vacuity and the literals: controller values survive note traffic, polls and mode
    changes; 121 restores the defaults; another channel is ignored *)
Definition k2_example_history : list mop :=
  [OMsg (MControlChange 2 7 127); OMsg (MPitchBend 2 127 127);
   OMsg (MControlChange 2 64 63); OMsg (MControlChange 3 7 0);
   OMsg (MNoteOn 2 60 100); OPollRise; OSetPrio PHigh; OSetRetrig true;
   OMsg (MNoteOn 2 64 1); OMsg (MNoteOff 2 64 0); OMsg (MNoteOn 2 60 0); OPollFall].

Example C18_controllers_trace_example :
  let r := mrun 2 k2_example_history in
  let r' := mrun 2 (k2_example_history ++ [OMsg (MControlChange 2 121 0)]) in
  r_pitch_bend r = f_1 /\ r_volume r = f_1 /\ r_mod_wheel r = f_0 /\
  r_porta_en r = true /\ r_sustain_en r = false /\ r_gate r = false /\
  r_pitch_bend r' = f_0 /\ r_volume r' = f_0 /\ r_sustain_en r' = true.
Proof.
  cbv zeta.
  repeat split; try (apply B2SF_inj; vm_compute; reflexivity); vm_compute; reflexivity.
Qed.

Print Assumptions C18_note_on_keeps_controllers.
Print Assumptions C18_note_off_keeps_controllers.
Print Assumptions C18_polls_keep_controllers.
Print Assumptions C18_mode_setters_keep_controllers.
Print Assumptions C18_non_controller_ops_keep_controllers.
Print Assumptions C18_non_controller_byte_ops_keep_controllers.
Print Assumptions C18_controllers_step.
Print Assumptions C18_controllers_trace.
Print Assumptions C18_controllers_trace_bytes.
Print Assumptions C18_controllers_trace_example.
