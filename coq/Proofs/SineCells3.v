(** SineCells3: table cells 384 .. 511 of the sine table are within 0.0124 of the real
    sine (one call to [interval] per cell; see SineBase.v). *)
From Coq Require Import ZArith Reals.
From Interval Require Import Tactic.
From SU.Proofs Require Import SineBase.

Lemma sine_cells_3 : forall i, (384 <= i < 512)%Z -> scell_ok i.
Proof. cells_loop. Qed.
