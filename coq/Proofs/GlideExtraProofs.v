(** * GlideExtraProofs: compositions and trace-level statements for the glide properties
      (Props/C13.v, Props/C14.v) that a review found missing.

    Contents
    - reachable states: [reachable_params], [cached_t_in_effect] (the cached_t invariant),
      [C14_pole_accuracy_reachable], [C14_pole_in_effect], [first_set_time_honoured];
    - the fastest setting settles: [fast_settles], [fastest_reachable],
      [fastest_settles_reachable], [C14_fastest_settles], [C14_fastest_settles_set_time];
    - the first sample of a constant stretch: [first_sample_formula], [first_sample_hull],
      [first_sample_crossing_witness], [approach_first_sample_false];
    - times beyond 10 s in a history: [coeffs_beyond_10], [set_time_beyond_10],
      [set_time_beyond_10_false], [run_beyond_10_false], [run_beyond_10];
    - how much of the constant 16 of [resolution] is needed: [hull_real_8_nonneg],
      [hull_real_15_false], [track_hull], [settles_sharp]. *)

From Coq Require Import ZArith Reals Lia Lra Bool List.
From Flocq Require Import Core IEEE754.BinarySingleNaN.
From SU Require Import F32 F32Lemmas.
From SU.gen Require Import Consts.
From SU.Model Require Import Utils Tanf Glide.
From SU.Spec Require Import GlideSpec RunSpec.
From SU.Proofs Require Import LfoProofs GlideCoeffProofs GlideFilterProofs GlideTimeProofs.
Import ListNotations.
Open Scope R_scope.

(** ** reachable states *)

(** [glide_run] (Spec/RunSpec.v, used by C17) and [glide_after] (Spec/GlideSpec.v, used by
    C13/C14) are the same function *)
Lemma glide_run_none : forall ops, glide_run None ops = None.
Proof. intros [|o r]; reflexivity. Qed.

Lemma glide_run_after : forall ops g, glide_run (Some g) ops = glide_after g ops.
Proof.
  induction ops as [|o r IH]; intros g; [reflexivity|].
  cbn [glide_run glide_after].
  destruct (glide_step g o) as [g'|]; [apply IH|apply glide_run_none].
Qed.

(** the three values fixed at construction (sample rate, cutoff limits) *)
Definition same_params (g g' : glide) : Prop :=
  g_fs g' = g_fs g /\ g_min_fc g' = g_min_fc g /\ g_max_fc g' = g_max_fc g.

Lemma same_params_refl : forall g, same_params g g.
Proof. intros g. unfold same_params. auto. Qed.

Lemma same_params_trans : forall g1 g2 g3, same_params g1 g2 -> same_params g2 g3 -> same_params g1 g3.
Proof.
  intros g1 g2 g3 (A1 & A2 & A3) (B1 & B2 & B3). unfold same_params.
  rewrite B1, B2, B3. auto.
Qed.

Lemma set_time_params : forall g t g', glide_set_time g t = Some g' -> same_params g g'.
Proof.
  intros g t g'. unfold glide_set_time.
  destruct (is_almost t (g_cached_t g) GL_EPS).
  - intros H. injection H as <-. apply same_params_refl.
  - destruct (hz_ok (glide_f0 g t)); [|discriminate].
    destruct (from_params (g_fs g) (glide_f0 g t)) as [c|]; [|discriminate].
    intros H. injection H as <-. unfold same_params. cbn [g_fs g_min_fc g_max_fc]. auto.
Qed.

Lemma step_params : forall g o g', glide_step g o = Some g' -> same_params g g'.
Proof.
  intros g [t|x] g'; cbn [glide_step].
  - apply set_time_params.
  - rewrite glide_process_eq. cbn [fst]. intros H. injection H as <-.
    unfold same_params. cbn [g_fs g_min_fc g_max_fc]. auto.
Qed.

Lemma after_params : forall ops g g', glide_after g ops = Some g' -> same_params g g'.
Proof.
  induction ops as [|o r IH]; intros g g'; cbn [glide_after].
  - intros H. injection H as <-. apply same_params_refl.
  - destruct (glide_step g o) as [g1|] eqn:E; [|discriminate].
    intros H. apply same_params_trans with g1; [exact (step_params _ _ _ E)|exact (IH _ _ H)].
Qed.

Lemma glide_f0_params : forall g g' t, same_params g g' -> glide_f0 g' t = glide_f0 g t.
Proof. intros g g' t (_ & E2 & E3). unfold glide_f0. rewrite E2, E3. reflexivity. Qed.

Lemma coeffs_for_params : forall g g' t, same_params g g' -> coeffs_for g' t = coeffs_for g t.
Proof.
  intros g g' t H. unfold coeffs_for. rewrite (glide_f0_params g g' t H).
  destruct H as (E1 & _). rewrite E1. reflexivity.
Qed.

(** what [glide_new] builds *)
Lemma new_shape : forall fs g0, glide_new fs = Some g0 ->
  ginv fs g0 /\ g_cached_t g0 = GL_T0 /\
  from_params fs (fdiv fs GL_DIV) = Some (d_c (g_lpf g0)) /\
  g_lpf g0 = df1_new (d_c (g_lpf g0)).
Proof.
  intros fs g0. unfold glide_new.
  destruct (hz_ok fs && hz_ok (fdiv fs GL_DIV)); [|discriminate].
  destruct (from_params fs (fdiv fs GL_DIV)) as [c|]; [|discriminate].
  intros H. injection H as <-. unfold ginv. cbn [g_fs g_max_fc g_min_fc g_cached_t g_lpf df1_new d_c].
  repeat split; reflexivity.
Qed.

Lemma ginv_params : forall fs g g', ginv fs g -> same_params g g' -> ginv fs g'.
Proof.
  intros fs g g' (E1 & E2 & E3) (P1 & P2 & P3). unfold ginv.
  rewrite P1, P2, P3. auto.
Qed.

(** every state reached by ANY history (whatever the times: above 10 s, negative, NaN) from a
    new processor has the sample rate and the two cutoff limits of the new processor; hence
    [coeffs_for] means the same thing at every reachable state *)
Theorem reachable_params : forall fs ops g, glide_run (glide_new fs) ops = Some g ->
  exists g0, glide_new fs = Some g0 /\ glide_after g0 ops = Some g /\
    g_fs g = fs /\ g_fs g0 = fs /\
    g_min_fc g = g_min_fc g0 /\ g_max_fc g = g_max_fc g0 /\
    g_min_fc g = GL_MIN_FC /\ g_max_fc g = fdiv fs GL_DIV /\
    (forall t, glide_f0 g t = glide_f0 g0 t) /\
    (forall t, coeffs_for g t = coeffs_for g0 t).
Proof.
  intros fs ops g H.
  destruct (glide_new fs) as [g0|] eqn:E0; [|rewrite glide_run_none in H; discriminate].
  rewrite glide_run_after in H.
  destruct (new_shape fs g0 E0) as ((N1 & N2 & N3) & _).
  pose proof (after_params ops g0 g H) as P.
  pose proof P as (P1 & P2 & P3).
  exists g0. split; [reflexivity|]. split; [exact H|].
  rewrite P1, P2, P3, N1, N2, N3.
  repeat split; try reflexivity.
  - intros t. apply glide_f0_params, P.
  - intros t. apply coeffs_for_params, P.
Qed.

Lemma reachable_ginv : forall fs ops g, glide_run (glide_new fs) ops = Some g -> ginv fs g.
Proof.
  intros fs ops g H.
  destruct (reachable_params fs ops g H) as (g0 & _ & _ & E1 & _ & _ & _ & E2 & E3 & _).
  unfold ginv. auto.
Qed.

(** the cached_t invariant: at every reachable state the coefficient set in force is the one
    [set_time] computes for the cached time -- so [g_cached_t] IS the time in effect --
    except before the first honoured [set_time] call, when the cached time is still the
    marker -1.0 and the coefficients are the ones the processor was created with *)
Definition in_effect (g0 g : glide) : Prop :=
  (g_cached_t g = GL_T0 /\ d_c (g_lpf g) = d_c (g_lpf g0)) \/
  Some (d_c (g_lpf g)) = coeffs_for g (g_cached_t g).

Lemma in_effect_step : forall g0 g o g', glide_step g o = Some g' -> in_effect g0 g -> in_effect g0 g'.
Proof.
  intros g0 g [t|x] g' E H; cbn [glide_step] in E.
  - destruct (is_almost t (g_cached_t g) GL_EPS) eqn:Ea.
    + destruct (dead_band g t) as [D _]. rewrite (D Ea) in E. injection E as <-. exact H.
    + destruct (dead_band g t) as [_ D]. destruct (D Ea g' E) as (D1 & D2 & _).
      right. rewrite D1, D2. symmetry. apply coeffs_for_params. exact (set_time_params _ _ _ E).
  - rewrite glide_process_eq in E. cbn [fst] in E. injection E as <-.
    unfold in_effect, coeffs_for, glide_f0 in *. cbn [g_cached_t g_lpf d_c g_fs g_min_fc g_max_fc].
    exact H.
Qed.

Lemma in_effect_after : forall g0 ops g g', glide_after g ops = Some g' -> in_effect g0 g -> in_effect g0 g'.
Proof.
  intros g0. induction ops as [|o r IH]; intros g g'; cbn [glide_after].
  - intros H. injection H as <-. auto.
  - destruct (glide_step g o) as [g1|] eqn:E; [|discriminate].
    intros H Hi. apply (IH g1 g' H). exact (in_effect_step g0 g o g1 E Hi).
Qed.

Theorem cached_t_in_effect : forall fs ops g, glide_run (glide_new fs) ops = Some g ->
  (g_cached_t g = GL_T0 /\
   exists g0, glide_new fs = Some g0 /\ d_c (g_lpf g) = d_c (g_lpf g0)) \/
  Some (d_c (g_lpf g)) = coeffs_for g (g_cached_t g).
Proof.
  intros fs ops g H.
  destruct (reachable_params fs ops g H) as (g0 & E0 & Ea & _).
  destruct (new_shape fs g0 E0) as (_ & Ec & _).
  assert (Hi : in_effect g0 g).
  { apply (in_effect_after g0 ops g0 g Ea). left. auto. }
  destruct Hi as [[H1 H2]|H1]; [left|right; exact H1].
  split; [exact H1|]. exists g0. auto.
Qed.

(** the marker is -1.0 and no documented time is within the dead band of it: the first
    [set_time] call of a history is always honoured *)
Lemma R32_T0 : R32 GL_T0 = -1.
Proof. r32_const GL_T0. lra. Qed.

Lemma fin_T0 : fin GL_T0.
Proof. fin_const. Qed.

Theorem first_set_time_honoured : forall t, fin t -> 0 <= R32 t <= 1000000 - 1 ->
  is_almost t GL_T0 GL_EPS = false.
Proof.
  intros t Ft Ht.
  destruct (dead_band_test t GL_T0 Ft fin_T0) as [[D _] _].
  { rewrite R32_T0. apply Rabs_le. lra. }
  destruct (is_almost t GL_T0 GL_EPS); [|reflexivity].
  specialize (D eq_refl). rewrite R32_T0, R32_EPS in D.
  assert (H1 : 1 <= rnd (R32 t - -1)).
  { rewrite <- (rnd_id 1) by exact fmt_1. apply rnd_le. lra. }
  rewrite Rabs_pos_eq in D by lra. lra.
Qed.

(** C14_pole_accuracy, stated in Props/C14.v for the new processor, holds at every
    reachable state *)
Theorem C14_pole_accuracy_reachable : forall fs ops g t c,
  glide_fs_ok fs -> glide_run (glide_new fs) ops = Some g ->
  glide_time_ok t -> 100 <= R32 t * R32 fs ->
  coeffs_for g t = Some c ->
  let p0 := ideal_pole (R32 t * R32 fs) in
  good c /\ Rabs (pole c - p0) <= / 65536 * (1 - p0) + 4 * / 16777216.
Proof.
  intros fs ops g t c Hfs H Ht HN Ec.
  destruct (reachable_params fs ops g H) as (g0 & E0 & _ & _ & _ & _ & _ & _ & _ & _ & Ecf).
  rewrite Ecf in Ec.
  exact (pole_accuracy fs g0 t c Hfs E0 Ht HN Ec).
Qed.

(** ... and so the pole of the coefficient set IN FORCE at a reachable state is accurate for
    the cached time, once a [set_time] call has been honoured *)
Theorem C14_pole_in_effect : forall fs ops g,
  glide_fs_ok fs -> glide_run (glide_new fs) ops = Some g ->
  g_cached_t g <> GL_T0 ->
  glide_time_ok (g_cached_t g) -> 100 <= R32 (g_cached_t g) * R32 fs ->
  let p0 := ideal_pole (R32 (g_cached_t g) * R32 fs) in
  good (d_c (g_lpf g)) /\
  Rabs (pole (d_c (g_lpf g)) - p0) <= / 65536 * (1 - p0) + 4 * / 16777216.
Proof.
  intros fs ops g Hfs H Hne Ht HN.
  destruct (cached_t_in_effect fs ops g H) as [[H1 _]|H1]; [contradiction|].
  exact (C14_pole_accuracy_reachable fs ops g (g_cached_t g) _ Hfs H Ht HN (eq_sym H1)).
Qed.

(** ** the fastest setting settles within a few samples (C14) *)

Notation u24 := (/ 16777216).

(** the state after one sample *)
Definition df1_next (d : df1) (x : f32) : df1 :=
  mkDf1 (snd (df1_run d x)) (d_y1 d) x (d_x1 d) (d_c d).

Lemma run_const_S : forall d x n,
  run_const d x (S n) =
  (fst (run_const (df1_next d x) x n), snd (df1_run d x) :: snd (run_const (df1_next d x) x n)).
Proof.
  intros d x n. cbn [run_const]. rewrite df1_run_eq. cbv beta iota zeta. fold (df1_next d x).
  destruct (run_const (df1_next d x) x n) as [d2 ys]. reflexivity.
Qed.

Lemma run_const_length : forall n d x, length (snd (run_const d x n)) = n.
Proof.
  induction n as [|n IH]; intros d x; [reflexivity|].
  rewrite run_const_S. cbn [snd length]. now rewrite IH.
Qed.

Lemma run_const_coeffs : forall n d x, d_c (fst (run_const d x n)) = d_c d.
Proof.
  induction n as [|n IH]; intros d x; [reflexivity|].
  rewrite run_const_S. cbn [fst]. rewrite IH. reflexivity.
Qed.

Lemma run_const_last' : forall n d x,
  last (snd (run_const d x n)) (d_y1 d) = d_y1 (fst (run_const d x n)).
Proof.
  intros n d x. generalize (run_const_last n d x).
  destruct (run_const d x n) as [d' ys]. auto.
Qed.

Lemma Rabs_mult_le : forall a b A B, Rabs a <= A -> Rabs b <= B -> Rabs (a * b) <= A * B.
Proof.
  intros a b A B Ha Hb. rewrite Rabs_mult.
  apply Rmult_le_compat; auto using Rabs_pos.
Qed.

(** the first sample of a stretch: the previous input [d_x1 d] is arbitrary.  With a pole
    within 2^-20 of zero the output is the two-tap average of the new and the previous
    input, so it is within [(1 + 2^-18) B] of everything *)
Lemma fast_first : forall d x B,
  good (d_c d) -> Rabs (pole (d_c d)) <= / 1048576 ->
  df1_bounded d B -> fin x -> Rabs (R32 x) <= B ->
  bpow radix2 (-100) <= B -> B <= bpow radix2 100 ->
  let y := snd (df1_run d x) in
  fin y /\ Rabs (R32 y) <= (1 + / 262144) * B /\ Rabs (R32 y - R32 x) <= (1 + / 262144) * B.
Proof.
  intros d x B Hg Hp Hb Fx Bx HBlo HBhi y.
  destruct (one_step_sharp d x B Hg Hb Fx Bx HBlo HBhi) as (Fy & _ & Hy).
  fold y in Fy, Hy. split; [exact Fy|].
  destruct Hb as (_ & _ & _ & _ & By1 & _ & Bx1 & _).
  set (p := pole (d_c d)) in *.
  pose proof (Rabs_mult_le _ _ _ _ Hp Bx) as M1.
  pose proof (Rabs_mult_le _ _ _ _ Hp Bx1) as M2.
  pose proof (Rabs_mult_le _ _ _ _ Hp By1) as M3.
  rewrite bpow_m100 in HBlo.
  apply Rabs_le_inv in Hy, M1, M2, M3, Bx, Bx1, By1.
  split; apply Rabs_le; lra.
Qed.

(** every later sample of the stretch ([d_x1 d = x]): the distance to the held input is
    multiplied by at most 2^-20, up to the rounding of one step *)
Lemma fast_step : forall d x Bm e,
  good (d_c d) -> Rabs (pole (d_c d)) <= / 1048576 ->
  df1_bounded d Bm -> fin x -> Rabs (R32 x) <= Bm ->
  bpow radix2 (-100) <= Bm -> Bm <= bpow radix2 100 -> d_x1 d = x ->
  Rabs (R32 (d_y1 d) - R32 x) <= e ->
  let y := snd (df1_run d x) in
  fin y /\ Rabs (R32 y - R32 x) <= / 1048576 * e + 15 / 2 * u24 * Bm.
Proof.
  intros d x Bm e Hg Hp Hb Fx Bx HBlo HBhi Ex He y.
  destruct (approach_sharp d x Bm Hg Hb Fx Bx HBlo HBhi Ex) as (Fy & _ & Hy).
  fold y in Fy, Hy. split; [exact Fy|].
  pose proof (Rabs_mult_le _ _ _ _ Hp He) as M.
  apply Rabs_le_inv in Hy, M. apply Rabs_le. lra.
Qed.

Lemma next_bounded : forall d x Bm, df1_bounded d Bm -> fin x -> Rabs (R32 x) <= Bm ->
  fin (snd (df1_run d x)) -> Rabs (R32 (snd (df1_run d x))) <= Bm ->
  df1_bounded (df1_next d x) Bm.
Proof.
  intros d x Bm (F1 & F2 & F3 & F4 & B1 & B2 & B3 & B4) Fx Bx Fy By.
  unfold df1_bounded, df1_next. cbn [d_y1 d_y2 d_x1 d_x2]. repeat split; assumption.
Qed.

(** once within [8 * 2^-24 * B] of the held input the output stays there *)
Lemma fast_tail : forall x B,
  fin x -> Rabs (R32 x) <= B -> bpow radix2 (-100) <= B -> B <= bpow radix2 64 ->
  forall n d,
  good (d_c d) -> Rabs (pole (d_c d)) <= / 1048576 ->
  df1_bounded d ((1 + / 262144) * B) -> d_x1 d = x ->
  Rabs (R32 (d_y1 d) - R32 x) <= 8 * u24 * B ->
  Rabs (R32 (d_y1 (fst (run_const d x n))) - R32 x) <= 8 * u24 * B.
Proof.
  intros x B Fx Bx HBlo HBhi.
  assert (HBlo' := HBlo). assert (HBhi' := HBhi).
  rewrite bpow_m100 in HBlo'. rewrite bpow_64 in HBhi'.
  induction n as [|n IH]; intros d Hg Hp Hb Ex He; [exact He|].
  rewrite run_const_S. cbn [fst].
  assert (Bx' : Rabs (R32 x) <= (1 + / 262144) * B) by lra.
  assert (L1 : bpow radix2 (-100) <= (1 + / 262144) * B) by (rewrite bpow_m100; lra).
  assert (L2 : (1 + / 262144) * B <= bpow radix2 100) by (rewrite bpow_100; lra).
  destruct (fast_step d x ((1 + / 262144) * B) (8 * u24 * B) Hg Hp Hb Fx Bx' L1 L2 Ex He)
    as (Fy & Hy).
  apply IH; try assumption.
  - apply next_bounded; try assumption; try lra.
    apply Rabs_le. apply Rabs_le_inv in Hy, Bx. lra.
  - reflexivity.
  - unfold df1_next. cbn [d_y1]. lra.
Qed.

(** the generic statement: a coefficient set with a pole within 2^-20 of zero (the one
    C14_fastest characterises), ANY previous input and output within the bound [B], and the
    input held at [x] from now on: from the second sample on the output is within
    [24 * 2^-24 * B = 1.5 * 2^-20 * B] of [x], from the third sample on within
    [8 * 2^-24 * B = 2^-21 * B] -- the rounding error of a single filter step is
    [7.5 * 2^-24 * B] *)
Theorem fast_settles : forall d x B n,
  good (d_c d) -> Rabs (pole (d_c d)) <= / 1048576 ->
  df1_bounded d B -> fin x -> Rabs (R32 x) <= B ->
  bpow radix2 (-100) <= B -> B <= bpow radix2 64 -> (2 <= n)%nat ->
  let y := d_y1 (fst (run_const d x n)) in
  Rabs (R32 y - R32 x) <= 24 * u24 * B /\
  ((3 <= n)%nat -> Rabs (R32 y - R32 x) <= 8 * u24 * B).
Proof.
  intros d x B n Hg Hp Hb Fx Bx HBlo HBhi Hn.
  assert (HBlo' := HBlo). assert (HBhi' := HBhi).
  rewrite bpow_m100 in HBlo'. rewrite bpow_64 in HBhi'.
  destruct n as [|[|m]]; try lia.
  (* first sample *)
  destruct (fast_first d x B Hg Hp Hb Fx Bx HBlo ltac:(rewrite bpow_100; lra)) as (F1 & B1 & E1).
  set (Bm := (1 + / 262144) * B) in *.
  assert (HBm : B <= Bm) by (unfold Bm; lra).
  assert (Hb1 : df1_bounded (df1_next d x) Bm).
  { apply next_bounded; try assumption; [|lra]. apply df1_bounded_mono with B; assumption. }
  (* second sample *)
  set (d1 := df1_next d x) in *.
  assert (Hg1 : good (d_c d1)) by exact Hg.
  assert (Hp1 : Rabs (pole (d_c d1)) <= / 1048576) by exact Hp.
  destruct (fast_step d1 x Bm Bm Hg1 Hp1 Hb1 Fx ltac:(lra)) as (F2 & E2).
  { rewrite bpow_m100. unfold Bm. lra. }
  { rewrite bpow_100. unfold Bm. lra. }
  { reflexivity. }
  { exact E1. }
  set (d2 := df1_next d1 x) in *.
  assert (E2' : Rabs (R32 (d_y1 d2) - R32 x) <= 24 * u24 * B).
  { unfold d2, df1_next. cbn [d_y1]. unfold Bm in E2. lra. }
  assert (Hb2 : df1_bounded d2 Bm).
  { apply next_bounded; try assumption; [lra|].
    apply Rabs_le. apply Rabs_le_inv in E2, Bx. unfold Bm in *. lra. }
  intros y. subst y.
  rewrite run_const_S. cbn [fst]. fold d1. rewrite run_const_S. cbn [fst]. fold d2.
  destruct m as [|m].
  - cbn [run_const fst]. split; [exact E2'|]. intros H3. lia.
  - (* third sample, then [fast_tail] *)
    assert (Hg2 : good (d_c d2)) by exact Hg.
    assert (Hp2 : Rabs (pole (d_c d2)) <= / 1048576) by exact Hp.
    destruct (fast_step d2 x Bm (24 * u24 * B) Hg2 Hp2 Hb2 Fx ltac:(lra)) as (F3 & E3).
    { rewrite bpow_m100. unfold Bm. lra. }
    { rewrite bpow_100. unfold Bm. lra. }
    { reflexivity. }
    { exact E2'. }
    rewrite run_const_S. cbn [fst].
    set (d3 := df1_next d2 x) in *.
    assert (E3' : Rabs (R32 (d_y1 d3) - R32 x) <= 8 * u24 * B).
    { unfold d3, df1_next. cbn [d_y1]. unfold Bm in E3. lra. }
    assert (Hb3 : df1_bounded d3 Bm).
    { apply next_bounded; try assumption; [lra|].
      apply Rabs_le. apply Rabs_le_inv in E3, Bx. unfold Bm in *. lra. }
    assert (T : Rabs (R32 (d_y1 (fst (run_const d3 x m))) - R32 x) <= 8 * u24 * B).
    { apply (fast_tail x B Fx Bx HBlo HBhi m d3); try assumption. reflexivity. }
    split; [lra|intros _; exact T].
Qed.

(** *** ... for the glide processor *)

(** C14_fastest for a state reached by ANY history: the coefficient set for a time below two
    samples is the one of the new processor, it is [good], and its pole is within 2^-20 of
    zero *)
Theorem fastest_reachable : forall fs ops g t,
  glide_fs_ok fs -> glide_run (glide_new fs) ops = Some g ->
  fin t -> 0 <= R32 t < 2 / R32 fs ->
  exists g0, glide_new fs = Some g0 /\
    coeffs_for g t = Some (d_c (g_lpf g0)) /\
    good (d_c (g_lpf g0)) /\ Rabs (pole (d_c (g_lpf g0))) <= / 1048576.
Proof.
  intros fs ops g t Hfs H Ft Ht.
  destruct (reachable_params fs ops g H) as (g0 & E0 & _ & _ & _ & _ & _ & _ & _ & _ & Ecf).
  exists g0. split; [exact E0|].
  destruct (fastest fs g0 g0 t Hfs E0) as [F1 F2]; try assumption.
  { exists []. split; [constructor|reflexivity]. }
  rewrite Ecf. split; [exact F1|]. split; [|exact F2].
  destruct (coeffs_good fs [] Hfs ltac:(constructor)) as (g0' & E0' & _ & HF).
  rewrite E0 in E0'. injection E0' as <-.
  cbn [coeffs_used] in HF. inversion HF as [|c l [Hg _] _]. exact Hg.
Qed.

Lemma process_repeat_outputs : forall x n g,
  glide_outputs g (repeat (GProcess x) n) = Some (snd (run_const (g_lpf g) x n)).
Proof.
  intros x. induction n as [|n IH]; intros g; [reflexivity|].
  cbn [repeat glide_outputs]. rewrite glide_process_eq. cbv beta iota zeta.
  rewrite IH. cbn [g_lpf]. rewrite run_const_S. reflexivity.
Qed.

Lemma last_indep : forall (A : Type) (l : list A) a b, l <> [] -> last l a = last l b.
Proof.
  intros A l a b. induction l as [|c l IH]; [congruence|]. intros _.
  destruct l as [|c' l]; [reflexivity|].
  change (last (c :: c' :: l) a) with (last (c' :: l) a).
  change (last (c :: c' :: l) b) with (last (c' :: l) b).
  apply IH. discriminate.
Qed.

(** the composition announced in the comment of C14_fastest: a reachable processor whose
    coefficient set in force is the fastest one (the one of the new processor), whatever its
    previous input and output (within [B]); the input is then held at [x] for [n >= 2]
    samples.  The last of these [n] outputs is within [1.5 * 2^-20 * B] of [x], and within
    [2^-21 * B] when [n >= 3] (so in particular for [n = 8]). *)
Theorem fastest_settles_reachable : forall fs ops g g0 x B n,
  glide_fs_ok fs -> glide_new fs = Some g0 -> glide_run (glide_new fs) ops = Some g ->
  d_c (g_lpf g) = d_c (g_lpf g0) ->
  df1_bounded (g_lpf g) B -> fin x -> Rabs (R32 x) <= B ->
  bpow radix2 (-100) <= B -> B <= bpow radix2 64 -> (2 <= n)%nat ->
  exists ys, glide_outputs g (repeat (GProcess x) n) = Some ys /\ length ys = n /\
    Rabs (R32 (last ys f_0) - R32 x) <= 24 * / 16777216 * B /\
    ((3 <= n)%nat -> Rabs (R32 (last ys f_0) - R32 x) <= 8 * / 16777216 * B).
Proof.
  intros fs ops g g0 x B n Hfs E0 H Ec Hb Fx Bx HBlo HBhi Hn.
  destruct (fastest_reachable fs [] g0 f_0 Hfs) as (g0' & E0' & _ & Hg & Hp).
  { rewrite E0. reflexivity. }
  { exact fin_f_0. }
  { rewrite R32_f_0. destruct Hfs as [_ Hfs]. split; [lra|]. apply Rdiv_lt_0_compat; lra. }
  rewrite E0 in E0'. injection E0' as <-.
  rewrite <- Ec in Hg, Hp.
  exists (snd (run_const (g_lpf g) x n)).
  split; [apply process_repeat_outputs|]. split; [apply run_const_length|].
  assert (L : last (snd (run_const (g_lpf g) x n)) f_0 = d_y1 (fst (run_const (g_lpf g) x n))).
  { rewrite <- run_const_last'. apply last_indep.
    intros E. apply (f_equal (@length f32)) in E. rewrite run_const_length in E. simpl in E. lia. }
  rewrite L.
  exact (fast_settles (g_lpf g) x B n Hg Hp Hb Fx Bx HBlo HBhi Hn).
Qed.

(** "times shorter than two samples select the fastest response (settled within 8 samples)":
    the time in effect at a reachable state is a [t < 2 / fs] *)
Theorem C14_fastest_settles : forall fs ops g t x B n,
  glide_fs_ok fs -> glide_run (glide_new fs) ops = Some g ->
  fin t -> 0 <= R32 t < 2 / R32 fs ->
  Some (d_c (g_lpf g)) = coeffs_for g t ->
  df1_bounded (g_lpf g) B -> fin x -> Rabs (R32 x) <= B ->
  bpow radix2 (-100) <= B -> B <= bpow radix2 64 -> (2 <= n)%nat ->
  exists ys, glide_outputs g (repeat (GProcess x) n) = Some ys /\ length ys = n /\
    Rabs (R32 (last ys f_0) - R32 x) <= 24 * / 16777216 * B /\
    ((3 <= n)%nat -> Rabs (R32 (last ys f_0) - R32 x) <= 8 * / 16777216 * B).
Proof.
  intros fs ops g t x B n Hfs H Ft Ht Ec.
  destruct (fastest_reachable fs ops g t Hfs H Ft Ht) as (g0 & E0 & Ecf & _).
  rewrite Ecf in Ec. injection Ec as Ec.
  exact (fastest_settles_reachable fs ops g g0 x B n Hfs E0 H Ec).
Qed.

(** the same right after an honoured [set_time t] call with [t < 2 / fs] (by C14_dead_band
    the call is honoured unless [t] is within 0.05 s of the time in effect), for 8 samples *)
Theorem C14_fastest_settles_set_time : forall fs ops g g' t x B,
  glide_fs_ok fs -> glide_run (glide_new fs) ops = Some g ->
  fin t -> 0 <= R32 t < 2 / R32 fs ->
  is_almost t (g_cached_t g) GL_EPS = false -> glide_set_time g t = Some g' ->
  df1_bounded (g_lpf g) B -> fin x -> Rabs (R32 x) <= B ->
  bpow radix2 (-100) <= B -> B <= bpow radix2 64 ->
  exists ys, glide_outputs g' (repeat (GProcess x) 8) = Some ys /\ length ys = 8%nat /\
    Rabs (R32 (last ys f_0) - R32 x) <= 8 * / 16777216 * B.
Proof.
  intros fs ops g g' t x B Hfs H Ft Ht Ea Es Hb Fx Bx HBlo HBhi.
  destruct (dead_band g t) as [_ D]. destruct (D Ea g' Es) as (_ & D2 & _).
  assert (H' : glide_run (glide_new fs) (ops ++ [GSetTime t]) = Some g').
  { destruct (glide_new fs) as [g0|]; [|rewrite glide_run_none in H; discriminate].
    rewrite glide_run_after in *. revert H. generalize g0. clear -Es.
    induction ops as [|o r IH]; intros g0; cbn [app glide_after].
    - intros E. injection E as ->. cbn [glide_step]. rewrite Es. reflexivity.
    - destruct (glide_step g0 o) as [g1|]; [apply IH|discriminate]. }
  rewrite <- (coeffs_for_params g g' t (set_time_params g t g' Es)) in D2.
  assert (Hb' : df1_bounded (g_lpf g') B).
  { destruct (set_time_mem g t g' Es) as (M1 & M2 & M3 & M4).
    unfold df1_bounded. rewrite M1, M2, M3, M4. exact Hb. }
  destruct (C14_fastest_settles fs _ g' t x B 8 Hfs H' Ft Ht D2 Hb' Fx Bx HBlo HBhi ltac:(lia))
    as (ys & Y1 & Y2 & _ & Y4).
  exists ys. split; [exact Y1|]. split; [exact Y2|]. apply Y4. lia.
Qed.

(** ** the first sample of a constant stretch (C13) *)

(** one [process] call with new input [x], previous input [x1 = d_x1 d], previous output
    [y1 = d_y1 d] and a [good] coefficient set [(b, b, p)]: the new output is
    [(1-p)/2 (x + x1) + p y1] up to [7.5 * 2^-24 * B] (this is [one_step_sharp]; [x1 = x] is
    NOT assumed), and [b (x + x1) + p y1] with the actual [b] up to [11.5 * 2^-24 * B] *)
Theorem first_sample_formula : forall d x B,
  good (d_c d) -> df1_bounded d B -> fin x -> Rabs (R32 x) <= B ->
  bpow radix2 (-100) <= B -> B <= bpow radix2 100 ->
  let y := snd (df1_run d x) in
  let p := pole (d_c d) in
  let b := R32 (k_b0 (d_c d)) in
  fin y /\
  Rabs (R32 y - ((1 - p) / 2 * (R32 x + R32 (d_x1 d)) + p * R32 (d_y1 d))) <= 15 / 2 * / 16777216 * B /\
  Rabs (R32 y - (b * (R32 x + R32 (d_x1 d)) + p * R32 (d_y1 d))) <= 23 / 2 * / 16777216 * B.
Proof.
  intros d x B Hg Hb Fx Bx HBlo HBhi y p b.
  destruct (one_step_sharp d x B Hg Hb Fx Bx HBlo HBhi) as (Fy & _ & Hy).
  fold y p in Fy, Hy. split; [exact Fy|]. split; [exact Hy|].
  destruct Hg as (_ & _ & _ & _ & _ & _ & _ & Hdc).
  destruct Hb as (_ & _ & _ & _ & _ & _ & Bx1 & _).
  assert (Hs : Rabs (R32 x + R32 (d_x1 d)) <= 2 * B).
  { eapply Rle_trans; [apply Rabs_triang|]. lra. }
  assert (Hm : Rabs ((2 * b - (1 - p)) * (R32 x + R32 (d_x1 d))) <= 4 * u24 * (2 * B)).
  { apply Rabs_mult_le; [|exact Hs].
    replace (2 * b - (1 - p)) with (2 * R32 (k_b0 (d_c d)) - R32 (k_a1 (d_c d)) - 1)
      by (unfold b, p, pole; ring).
    exact Hdc. }
  apply Rabs_le_inv in Hy, Hm. apply Rabs_le. lra.
Qed.

(** hence the new output lies in the hull of the new input, the previous input and the
    previous output, up to [16 * 2^-24 * B] ([7.5] for the rounding, [8] for a pole that may be
    as low as [-2^-22]; [7.5 * 2^-24 * B] suffices when the pole is not negative) *)
Theorem first_sample_hull : forall d x B,
  good (d_c d) -> df1_bounded d B -> fin x -> Rabs (R32 x) <= B ->
  bpow radix2 (-100) <= B -> B <= bpow radix2 100 ->
  let y := R32 (snd (df1_run d x)) in
  let lo := Rmin (R32 x) (Rmin (R32 (d_x1 d)) (R32 (d_y1 d))) in
  let hi := Rmax (R32 x) (Rmax (R32 (d_x1 d)) (R32 (d_y1 d))) in
  lo - 16 * / 16777216 * B <= y <= hi + 16 * / 16777216 * B /\
  (0 <= pole (d_c d) -> lo - 15 / 2 * / 16777216 * B <= y <= hi + 15 / 2 * / 16777216 * B).
Proof.
  intros d x B Hg Hb Fx Bx HBlo HBhi y lo hi.
  destruct (one_step_sharp d x B Hg Hb Fx Bx HBlo HBhi) as (_ & _ & Hy).
  fold y in Hy. pose proof (good_pole _ Hg) as Hp.
  set (p := pole (d_c d)) in *.
  destruct Hb as (_ & _ & _ & _ & By1 & _ & Bx1 & _).
  set (a := R32 x) in *. set (a1 := R32 (d_x1 d)) in *. set (c1 := R32 (d_y1 d)) in *.
  assert (L1 : lo <= a) by apply Rmin_l.
  assert (L2 : lo <= a1) by (eapply Rle_trans; [apply Rmin_r|apply Rmin_l]).
  assert (L3 : lo <= c1) by (eapply Rle_trans; [apply Rmin_r|apply Rmin_r]).
  assert (U1 : a <= hi) by apply Rmax_l.
  assert (U2 : a1 <= hi) by (eapply Rle_trans; [|apply Rmax_r]; apply Rmax_l).
  assert (U3 : c1 <= hi) by (eapply Rle_trans; [|apply Rmax_r]; apply Rmax_r).
  rewrite bpow_m100 in HBlo.
  apply Rabs_le_inv in Hy, Bx, Bx1, By1.
  assert (A1 : (1 - p) * (2 * lo) <= (1 - p) * (a + a1)) by (apply Rmult_le_compat_l; lra).
  assert (A2 : (1 - p) * (a + a1) <= (1 - p) * (2 * hi)) by (apply Rmult_le_compat_l; lra).
  assert (Pos : 0 <= p -> lo - 15 / 2 * u24 * B <= y <= hi + 15 / 2 * u24 * B).
  { intros Hpos.
    assert (B1 : p * lo <= p * c1) by (apply Rmult_le_compat_l; lra).
    assert (B2 : p * c1 <= p * hi) by (apply Rmult_le_compat_l; lra).
    split; lra. }
  split; [|exact Pos].
  destruct (Rle_dec 0 p) as [Hpos|Hneg]; [specialize (Pos Hpos); lra|].
  apply Rnot_le_lt in Hneg.
  (* exact value = m + (-p) (m - c1) with m the average of the two inputs *)
  assert (HhiB : hi <= B) by (unfold hi; repeat apply Rmax_lub; lra).
  assert (HloB : - B <= lo) by (unfold lo; repeat apply Rmin_glb; lra).
  assert (C1 : (- p) * (hi - c1) <= / 4194304 * (2 * B)).
  { apply Rmult_le_compat; lra. }
  assert (C2 : (- p) * (c1 - lo) <= / 4194304 * (2 * B)).
  { apply Rmult_le_compat; lra. }
  split; lra.
Qed.

(** the witness: fs = 1000 Hz, set_time(0.0) (the coefficient set is then exactly
    b0 = b1 = 1/2, a1 = 0), inputs 1.0, 0.6, 0.6, 0.6.  The outputs are 0.5, 0.8, 0.6, 0.6:
    when the input changes to 0.6 the output (0.5) is BELOW the new target, one sample later
    it is ABOVE it (0.8, the average of the new input 0.6 and the previous input 1.0), and
    only from the second sample of the stretch on does it approach the target monotonically.
    This is why C13_approach / C13_settles assume [d_x1 d = x].
    (Floats carry proof terms: only bit patterns and booleans are compared by [vm_compute].) *)
Definition w_fs : f32 := of_bits 1148846080.   (* 1000.0 *)
Definition w_1 : f32 := of_bits 1065353216.    (* 1.0 *)
Definition w_06 : f32 := of_bits 1058642330.   (* 0.6f32 = 0x3f19999a *)
Definition w_ops : list glide_op :=
  [GSetTime (of_bits 0); GProcess w_1; GProcess w_06; GProcess w_06; GProcess w_06].

Definition run_bits (fs : f32) (ops : list glide_op) : option (list (option Z)) :=
  match glide_new fs with
  | Some g0 => match glide_outputs g0 ops with Some ys => Some (map to_bits ys) | None => None end
  | None => None
  end.

Definition w_crossing : bool :=
  match glide_new w_fs with
  | Some g0 =>
      match glide_outputs g0 w_ops with
      | Some [y1; y2; y3; y4] => flt y1 w_06 && flt w_06 y2 && feq y3 w_06 && feq y4 w_06
      | _ => false
      end
  | None => false
  end.

Theorem first_sample_crossing_witness :
  run_bits w_fs w_ops
  = Some [Some 1056964608; Some 1061997773; Some 1058642330; Some 1058642330]%Z /\
  (* 0x3f000000 = 0.5, 0x3f4ccccd = 0.8f32, 0x3f19999a = 0.6f32 *)
  w_crossing = true /\
  R32 w_fs = 1000 /\ R32 w_1 = 1 /\ R32 w_06 = 5033165 / 8388608 /\
  R32 (of_bits 1056964608) = / 2 /\ R32 (of_bits 1061997773) = 13421773 / 16777216.
Proof.
  split; [vm_compute; reflexivity|]. split; [vm_compute; reflexivity|].
  split; [|split; [|split; [|split]]].
  - r32_const w_fs. lra.
  - r32_const w_1. lra.
  - r32_const w_06. lra.
  - r32_const (of_bits 1056964608). lra.
  - r32_const (of_bits 1061997773). lra.
Qed.

(** the same fact as a refutation: C13_approach without the hypothesis [d_x1 d = x] is
    false.  Coefficients (1/2, 1/2, pole 0), previous input 1, previous output 1/2, new input
    1/2: the output is ON the target and moves away from it, to 3/4 *)
Definition fs_d : df1 := mkDf1 f_half f_0 f_1 f_0 cex_c.

Theorem approach_first_sample_false : ~ (forall d x B,
  good (d_c d) -> df1_bounded d B -> fin x -> Rabs (R32 x) <= B ->
  bpow radix2 (-100) <= B -> B <= bpow radix2 100 ->
  let '(_, y) := df1_run d x in
  Rabs ((R32 y - R32 x) - pole (d_c d) * (R32 (d_y1 d) - R32 x)) <= 20 * / 16777216 * B).
Proof.
  intros H.
  specialize (H fs_d f_half 1 cex_good).
  rewrite df1_run_eq in H. cbv beta iota zeta in H.
  change (d_c fs_d) with cex_c in H. change (d_y1 fs_d) with f_half in H.
  rewrite cex_pole in H.
  assert (V : R32 (snd (df1_run fs_d f_half)) = 3 / 4).
  { r32_const (snd (df1_run fs_d f_half)). lra. }
  rewrite V, R32_f_half in H.
  assert (Hb : df1_bounded fs_d 1).
  { unfold df1_bounded, fs_d. cbn [d_y1 d_y2 d_x1 d_x2].
    rewrite R32_f_half, R32_f_0, R32_f_1, Rabs_R0.
    repeat split; try exact fin_f_0; try exact fin_f_1; try exact fin_f_half;
      try lra; rewrite Rabs_pos_eq; lra. }
  specialize (H Hb fin_f_half ltac:(rewrite Rabs_pos_eq; lra)
                ltac:(rewrite bpow_m100; lra) ltac:(rewrite bpow_100; lra)).
  apply Rabs_le_inv in H. lra.
Qed.

(** ** times beyond 10 s in a history (C14) *)

Definition f_10 : f32 := of_Z 10.

Lemma fin_f_10 : fin f_10.
Proof. apply fin_of_Z_small. lia. Qed.

Lemma R32_f_10 : R32 f_10 = 10.
Proof. apply (R32_of_Z_small 10). lia. Qed.

(** a finite time of 10 s or more, or an infinite one *)
Definition beyond_10 (t : f32) : Prop := (fin t /\ 10 <= R32 t) \/ t = B754_infinity false.

Lemma beyond_10_f_10 : beyond_10 f_10.
Proof. left. split; [exact fin_f_10|]. rewrite R32_f_10. lra. Qed.

Lemma f0_beyond_10 : forall fs g t, glide_fs_ok fs -> ginv fs g -> beyond_10 t ->
  glide_f0 g t = GL_MIN_FC.
Proof. intros fs g t Hfs Hg Ht. exact (f0_slow W_GL W_GL_range fs g t Hfs Hg Ht). Qed.

(** (a) what always holds: at any state reached by any history, every time beyond 10 s
    selects the minimum cutoff, hence the coefficient set of 10 s *)
Theorem coeffs_beyond_10 : forall fs ops g t,
  glide_fs_ok fs -> glide_run (glide_new fs) ops = Some g -> beyond_10 t ->
  glide_f0 g t = g_min_fc g /\ glide_f0 g t = glide_f0 g f_10 /\
  coeffs_for g t = coeffs_for g f_10.
Proof.
  intros fs ops g t Hfs H Ht.
  pose proof (reachable_ginv fs ops g H) as Hg.
  pose proof (f0_beyond_10 fs g t Hfs Hg Ht) as E1.
  pose proof (f0_beyond_10 fs g f_10 Hfs Hg beyond_10_f_10) as E2.
  unfold coeffs_for. rewrite E1, E2. destruct Hg as (_ & _ & E3). rewrite E3. auto.
Qed.

(** [set_time] = dead-band test, then installation *)
Definition install (g : glide) (t : f32) : option glide :=
  if hz_ok (glide_f0 g t) then
    match from_params (g_fs g) (glide_f0 g t) with
    | Some c =>
        let d := g_lpf g in
        Some (mkGlide (g_min_fc g) (g_max_fc g) (g_fs g)
                      (mkDf1 (d_y1 d) (d_y2 d) (d_x1 d) (d_x2 d) c) t)
    | None => None
    end
  else None.

Lemma set_time_install : forall g t,
  glide_set_time g t = if is_almost t (g_cached_t g) GL_EPS then Some g else install g t.
Proof. reflexivity. Qed.

(** two states are equal except for the cached time *)
Definition eq_but_cached (g h : glide) : Prop :=
  g_fs h = g_fs g /\ g_min_fc h = g_min_fc g /\ g_max_fc h = g_max_fc g /\ g_lpf h = g_lpf g.

(** (b) one call: [set_time t] with [t] beyond 10 s and [set_time 10.0] at the same reachable
    state both succeed or both panic, and give the same state except for the cached time --
    PROVIDED the dead-band test gives the same answer for both *)
Theorem set_time_beyond_10 : forall fs ops g t,
  glide_fs_ok fs -> glide_run (glide_new fs) ops = Some g -> beyond_10 t ->
  is_almost t (g_cached_t g) GL_EPS = is_almost f_10 (g_cached_t g) GL_EPS ->
  match glide_set_time g t, glide_set_time g f_10 with
  | Some g1, Some g2 => eq_but_cached g1 g2
  | None, None => True
  | _, _ => False
  end.
Proof.
  intros fs ops g t Hfs H Ht Ea.
  destruct (coeffs_beyond_10 fs ops g t Hfs H Ht) as (_ & E & _).
  rewrite !set_time_install, Ea.
  destruct (is_almost f_10 (g_cached_t g) GL_EPS).
  - unfold eq_but_cached. auto.
  - unfold install. rewrite E.
    destruct (hz_ok (glide_f0 g f_10)); [|exact I].
    destruct (from_params (g_fs g) (glide_f0 g f_10)); [|exact I].
    unfold eq_but_cached. cbn [g_fs g_min_fc g_max_fc g_lpf]. auto.
Qed.

(** without that proviso the statement is FALSE: fs = 1000 Hz, after [set_time 9.97]
    (a documented time) the call [set_time 10.0] falls into the dead band and is ignored
    (the coefficients of 9.97 s stay in force) while [set_time 11.0] is honoured (the
    coefficients of 10 s are installed) *)
Definition coeffs_bits (c : coeffs) : list (option Z) :=
  [to_bits (k_a1 c); to_bits (k_a2 c); to_bits (k_b0 c); to_bits (k_b1 c); to_bits (k_b2 c)].

Definition final_bits (fs : f32) (ops : list glide_op) : option (list (option Z) * option Z) :=
  match glide_run (glide_new fs) ops with
  | Some g => Some (coeffs_bits (d_c (g_lpf g)), to_bits (g_cached_t g))
  | None => None
  end.

Definition t_9_97 : f32 := of_bits 1092584735.   (* 9.97f32 *)
Definition t_11 : f32 := of_bits 1093664768.     (* 11.0 *)
Definition t_10_04 : f32 := of_bits 1092658135.  (* 10.04f32 *)
Definition t_9_96 : f32 := of_bits 1092574249.   (* 9.96f32 *)

Theorem set_time_beyond_10_false :
  final_bits w_fs [GSetTime t_9_97; GSetTime t_11]
  = Some ([Some 3212826326; Some 0; Some 967092352; Some 967092352; Some 0], Some 1093664768)%Z /\
  final_bits w_fs [GSetTime t_9_97; GSetTime f_10]
  = Some ([Some 3212826294; Some 0; Some 967124813; Some 967124813; Some 0], Some 1092584735)%Z /\
  glide_time_ok t_9_97 /\ beyond_10 t_11.
Proof.
  split; [vm_compute; reflexivity|]. split; [vm_compute; reflexivity|].
  assert (F1 : fin t_9_97) by fin_const. assert (F2 : fin t_11) by fin_const.
  split; [split; [exact F1|]|left; split; [exact F2|]].
  - r32_const t_9_97. lra.
  - r32_const t_11. lra.
Qed.

(** (c) a whole history.  Replacing every time beyond 10 s by 10.0: *)
Definition clamp_time (t : f32) : f32 := if flt f_10 t then f_10 else t.
Definition clamp_op (o : glide_op) : glide_op :=
  match o with GSetTime t => GSetTime (clamp_time t) | GProcess x => GProcess x end.

(** "replacing every time > 10 in a history by 10.0 yields the same coefficients and the same
    outputs at every step" is FALSE even for one time beyond 10 s followed by documented times
    only: fs = 1000 Hz, [set_time 10.04; set_time 9.96; process 1.0; process 1.0].  In the
    original history 9.96 is 0.08 s away from the cached 10.04 and is honoured; in the clamped
    one it is 0.04 s away from the cached 10.0 and is ignored, so the coefficients of 10 s stay
    in force and the outputs differ. *)
Definition h_orig : list glide_op := [GSetTime t_10_04; GSetTime t_9_96; GProcess w_1; GProcess w_1].

Theorem run_beyond_10_false :
  map clamp_op h_orig = [GSetTime f_10; GSetTime t_9_96; GProcess w_1; GProcess w_1] /\
  run_bits w_fs h_orig = Some [Some 967135677; Some 980938051]%Z /\
  run_bits w_fs (map clamp_op h_orig) = Some [Some 967092352; Some 980873091]%Z /\
  final_bits w_fs [GSetTime t_10_04; GSetTime t_9_96]
  = Some ([Some 3212826283; Some 0; Some 967135677; Some 967135677; Some 0], Some 1092574249)%Z /\
  final_bits w_fs [GSetTime f_10; GSetTime t_9_96]
  = Some ([Some 3212826326; Some 0; Some 967092352; Some 967092352; Some 0], Some 1092616192)%Z /\
  beyond_10 t_10_04 /\ glide_time_ok t_9_96.
Proof.
  assert (Ec : map clamp_op h_orig = [GSetTime f_10; GSetTime t_9_96; GProcess w_1; GProcess w_1]).
  { unfold h_orig. cbn [map clamp_op]. unfold clamp_time.
    replace (flt f_10 t_10_04) with true by (vm_compute; reflexivity).
    replace (flt f_10 t_9_96) with false by (vm_compute; reflexivity). reflexivity. }
  split; [exact Ec|].
  split; [vm_compute; reflexivity|]. rewrite Ec.
  split; [vm_compute; reflexivity|].
  split; [vm_compute; reflexivity|]. split; [vm_compute; reflexivity|].
  assert (F1 : fin t_10_04) by fin_const. assert (F2 : fin t_9_96) by fin_const.
  split; [left; split; [exact F1|]|split; [exact F2|]].
  - r32_const t_10_04. lra.
  - r32_const t_9_96. lra.
Qed.

(** what does hold for a whole history: the two runs agree -- same outputs, same coefficient
    sets at every step, final states equal except for the cached time -- when no requested
    time lies in the dead band just below 10 s, i.e. every time is at most 9.949 s, or
    10 s and more, or +infinity *)
Definition low_time (t : f32) : Prop := fin t /\ 0 <= R32 t <= 9949 / 1000.
Definition time_clear (t : f32) : Prop := low_time t \/ beyond_10 t.
Definition op_time_clear (o : glide_op) : Prop :=
  match o with GSetTime t => time_clear t | GProcess _ => True end.

(** the dead-band test far from the cached time *)
Lemma fabs_inf : forall s, fabs (B754_infinity s) = B754_infinity false.
Proof. intros [|]; reflexivity. Qed.

Lemma fle_inf_eps : fle (B754_infinity false) GL_EPS = false.
Proof. vm_compute. reflexivity. Qed.

Lemma is_almost_far : forall a b, fin a -> fin b -> 51 / 1000 <= Rabs (R32 a - R32 b) ->
  is_almost a b GL_EPS = false.
Proof.
  intros a b Fa Fb H. unfold is_almost.
  generalize (Bminus_correct prec emax Hprec Hmax mode_NE a b Fa Fb).
  rewrite fexp_is_fexp32. change (round radix2 fexp32 (round_mode mode_NE)) with rnd.
  change (bpow radix2 emax) with MAXF. fold (R32 a) (R32 b). fold (fsub a b).
  destruct (Rlt_bool (Rabs (rnd (R32 a - R32 b))) MAXF).
  - intros (V & F & _). fold (R32 (fsub a b)) in V. fold (fin (fsub a b)) in F.
    destruct (fabs_correct (fsub a b) F) as [Fa' Va'].
    destruct (fle (fabs (fsub a b)) GL_EPS) eqn:E; [|reflexivity]. exfalso.
    apply (fle_true _ _ Fa' fin_EPS) in E. rewrite Va', V, R32_EPS in E.
    set (x := R32 a - R32 b) in *.
    destruct (Rle_or_lt 0 x) as [Hx|Hx].
    + rewrite (Rabs_pos_eq x) in H by exact Hx.
      destruct (rnd_rel_pos (51 / 1000) x x ltac:(lra) ltac:(lra)) as [L _].
      rewrite Rabs_pos_eq in E by lra. lra.
    + rewrite (Rabs_left x) in H by exact Hx.
      destruct (rnd_rel_pos (51 / 1000) (- x) (- x) ltac:(lra) ltac:(lra)) as [L _].
      rewrite rnd_opp in L. rewrite Rabs_left in E by lra. lra.
  - intros [Hov _]. unfold binary_overflow in Hov. cbn [overflow_to_inf] in Hov.
    assert (E : fsub a b = B754_infinity (Bsign a)) by (apply B2SF_inj; exact Hov).
    rewrite E, fabs_inf. exact fle_inf_eps.
Qed.

Lemma is_almost_inf_l : forall c, fin c -> is_almost (B754_infinity false) c GL_EPS = false.
Proof.
  intros [s|s| |s m e Hb] Fc; try discriminate Fc; unfold is_almost.
  - change (fsub (B754_infinity false) (B754_zero s)) with (B754_infinity false : f32).
    rewrite fabs_inf. exact fle_inf_eps.
  - change (fsub (B754_infinity false) (B754_finite s m e Hb)) with (B754_infinity false : f32).
    rewrite fabs_inf. exact fle_inf_eps.
Qed.

Lemma is_almost_inf_r : forall c, fin c -> is_almost c (B754_infinity false) GL_EPS = false.
Proof.
  intros [s|s| |s m e Hb] Fc; try discriminate Fc; unfold is_almost.
  - change (fsub (B754_zero s) (B754_infinity false)) with (B754_infinity true : f32).
    rewrite fabs_inf. exact fle_inf_eps.
  - change (fsub (B754_finite s m e Hb) (B754_infinity false)) with (B754_infinity true : f32).
    rewrite fabs_inf. exact fle_inf_eps.
Qed.

Definition low_or_init (c : f32) : Prop := c = GL_T0 \/ low_time c.

Lemma low_or_init_fin : forall c, low_or_init c -> fin c /\ -1 <= R32 c <= 9949 / 1000.
Proof.
  intros c [->|[F H]].
  - split; [exact fin_T0|]. rewrite R32_T0. lra.
  - split; [exact F|lra].
Qed.

Lemma almost_beyond_low : forall t c, beyond_10 t -> low_or_init c ->
  is_almost t c GL_EPS = false.
Proof.
  intros t c Ht Hc. destruct (low_or_init_fin c Hc) as [Fc Vc].
  destruct Ht as [[Ft Vt]| ->].
  - apply is_almost_far; try assumption. rewrite Rabs_pos_eq; lra.
  - apply is_almost_inf_l. exact Fc.
Qed.

Lemma almost_low_beyond : forall t c, low_time t -> beyond_10 c ->
  is_almost t c GL_EPS = false.
Proof.
  intros t c [Ft Vt] Hc.
  destruct Hc as [[Fc Vc]| ->].
  - apply is_almost_far; try assumption. rewrite Rabs_left; lra.
  - apply is_almost_inf_r. exact Ft.
Qed.

Lemma almost_10_10 : is_almost f_10 f_10 GL_EPS = true.
Proof. vm_compute. reflexivity. Qed.

Lemma clamp_low : forall t, low_time t -> clamp_time t = t.
Proof.
  intros t [Ft Vt]. unfold clamp_time.
  destruct (flt f_10 t) eqn:E; [|reflexivity].
  apply (flt_true _ _ fin_f_10 Ft) in E. rewrite R32_f_10 in E. lra.
Qed.

Lemma clamp_beyond : forall t, beyond_10 t -> clamp_time t = f_10.
Proof.
  intros t [[Ft Vt]| ->]; unfold clamp_time.
  - destruct (flt f_10 t) eqn:E; [reflexivity|].
    apply (flt_false _ _ fin_f_10 Ft) in E. rewrite R32_f_10 in E.
    apply f32_eq_of_R32; [exact Ft|exact fin_f_10|rewrite R32_f_10; lra|lra].
  - reflexivity.
Qed.

(** the simulation relation between the original run (state [g]) and the clamped run
    (state [h]) *)
Definition sim (fs : f32) (g h : glide) : Prop :=
  ginv fs g /\ ginv fs h /\ g_lpf h = g_lpf g /\
  ((g_cached_t h = g_cached_t g /\ low_or_init (g_cached_t g)) \/
   (beyond_10 (g_cached_t g) /\ g_cached_t h = f_10 /\
    from_params fs GL_MIN_FC = Some (d_c (g_lpf g)))).

Lemma sim_eq_but_cached : forall fs g h, sim fs g h -> eq_but_cached g h.
Proof.
  intros fs g h ((A1 & A2 & A3) & (B1 & B2 & B3) & L & _). unfold eq_but_cached.
  rewrite A1, A2, A3, B1, B2, B3. auto.
Qed.

Definition opt_sim (fs : f32) (og oh : option glide) : Prop :=
  match og, oh with
  | Some g', Some h' => sim fs g' h'
  | None, None => True
  | _, _ => False
  end.

(** installing the coefficients of two times that select the same cutoff *)
Lemma install_pair : forall fs g h t t',
  ginv fs g -> ginv fs h -> g_lpf h = g_lpf g -> glide_f0 h t' = glide_f0 g t ->
  match install g t, install h t' with
  | Some g', Some h' =>
      ginv fs g' /\ ginv fs h' /\ g_lpf h' = g_lpf g' /\
      g_cached_t g' = t /\ g_cached_t h' = t' /\
      from_params fs (glide_f0 g t) = Some (d_c (g_lpf g'))
  | None, None => True
  | _, _ => False
  end.
Proof.
  intros fs g h t t' (A1 & A2 & A3) (B1 & B2 & B3) L E.
  unfold install. rewrite E, A1, B1, L.
  destruct (hz_ok (glide_f0 g t)); [|exact I].
  destruct (from_params fs (glide_f0 g t)) as [c|]; [|exact I].
  unfold ginv. cbn [g_fs g_min_fc g_max_fc g_lpf g_cached_t d_c]. repeat split; assumption.
Qed.

Lemma ginv_f0 : forall fs g h t, ginv fs g -> ginv fs h -> glide_f0 h t = glide_f0 g t.
Proof.
  intros fs g h t (A1 & A2 & A3) (B1 & B2 & B3). unfold glide_f0. rewrite A2, A3, B2, B3. reflexivity.
Qed.

Lemma hz_ok_MIN_FC : hz_ok GL_MIN_FC = true.
Proof. vm_compute. reflexivity. Qed.

Lemma sim_step : forall fs g h o, glide_fs_ok fs -> sim fs g h -> op_time_clear o ->
  opt_sim fs (glide_step g o) (glide_step h (clamp_op o)).
Proof.
  intros fs g h [t|x] Hfs (Hg & Hh & L & Hc) Ho; cbn [clamp_op glide_step op_time_clear] in *.
  - (* set_time *)
    rewrite !set_time_install.
    destruct Ho as [Hlow|Hbey].
    + (* a time of at most 9.949 s: not clamped *)
      rewrite (clamp_low t Hlow).
      pose proof (install_pair fs g h t t Hg Hh L (ginv_f0 fs g h t Hg Hh)) as P.
      destruct Hc as [[Ec Hci]|(Hcb & Ech & Ecf)].
      * rewrite Ec. destruct (is_almost t (g_cached_t g) GL_EPS).
        -- unfold opt_sim, sim. auto 10.
        -- unfold opt_sim. destruct (install g t) as [g'|], (install h t) as [h'|]; try exact P.
           destruct P as (P1 & P2 & P3 & P4 & P5 & _).
           unfold sim. split; [exact P1|]. split; [exact P2|]. split; [exact P3|].
           left. rewrite P4, P5. split; [reflexivity|right; exact Hlow].
      * rewrite Ech, (almost_low_beyond t _ Hlow Hcb), (almost_low_beyond t f_10 Hlow beyond_10_f_10).
        unfold opt_sim. destruct (install g t) as [g'|], (install h t) as [h'|]; try exact P.
        destruct P as (P1 & P2 & P3 & P4 & P5 & _).
        unfold sim. split; [exact P1|]. split; [exact P2|]. split; [exact P3|].
        left. rewrite P4, P5. split; [reflexivity|right; exact Hlow].
    + (* a time beyond 10 s: replaced by 10.0 *)
      rewrite (clamp_beyond t Hbey).
      pose proof (f0_beyond_10 fs g t Hfs Hg Hbey) as F1.
      pose proof (f0_beyond_10 fs h f_10 Hfs Hh beyond_10_f_10) as F2.
      destruct Hc as [[Ec Hci]|(Hcb & Ech & Ecf)].
      * rewrite Ec, (almost_beyond_low t _ Hbey Hci), (almost_beyond_low f_10 _ beyond_10_f_10 Hci).
        pose proof (install_pair fs g h t f_10 Hg Hh L ltac:(rewrite F1, F2; reflexivity)) as P.
        unfold opt_sim. destruct (install g t) as [g'|], (install h f_10) as [h'|]; try exact P.
        destruct P as (P1 & P2 & P3 & P4 & P5 & P6).
        unfold sim. split; [exact P1|]. split; [exact P2|]. split; [exact P3|].
        right. rewrite P4, P5, <- F1. auto.
      * rewrite Ech, almost_10_10.
        destruct (is_almost t (g_cached_t g) GL_EPS).
        -- unfold opt_sim, sim. auto 10.
        -- (* honoured in the original run: re-installs the coefficients in force *)
           unfold install. rewrite F1, hz_ok_MIN_FC.
           destruct Hg as (A1 & A2 & A3). destruct Hh as (B1 & B2 & B3). rewrite A1, Ecf.
           unfold opt_sim, sim, ginv. cbn [g_fs g_min_fc g_max_fc g_lpf g_cached_t d_c].
           assert (El : mkDf1 (d_y1 (g_lpf g)) (d_y2 (g_lpf g)) (d_x1 (g_lpf g)) (d_x2 (g_lpf g))
                              (d_c (g_lpf g)) = g_lpf g) by (destruct (g_lpf g); reflexivity).
           rewrite El. repeat split; try assumption. right. auto.
  - (* process *)
    rewrite !glide_process_eq. cbn [fst]. rewrite L.
    unfold opt_sim, sim, ginv. cbn [g_fs g_min_fc g_max_fc g_lpf g_cached_t d_c].
    repeat split; try apply Hg; try apply Hh. exact Hc.
Qed.

Lemma sim_run : forall fs, glide_fs_ok fs -> forall ops g h, sim fs g h ->
  Forall op_time_clear ops ->
  glide_outputs h (map clamp_op ops) = glide_outputs g ops /\
  coeffs_used h (map clamp_op ops) = coeffs_used g ops /\
  opt_sim fs (glide_after g ops) (glide_after h (map clamp_op ops)).
Proof.
  intros fs Hfs. induction ops as [|o r IH]; intros g h Hs Hops.
  - cbn [map glide_outputs coeffs_used glide_after].
    pose proof Hs as (_ & _ & L & _). rewrite L. auto.
  - inversion Hops as [|o' r' Ho Hr]. subst o' r'.
    pose proof (sim_step fs g h o Hfs Hs Ho) as St.
    pose proof Hs as (_ & _ & L & _).
    cbn [map coeffs_used glide_after]. rewrite L.
    destruct o as [t|x].
    + cbn [clamp_op glide_outputs]. cbn [clamp_op glide_step] in St |- *.
      destruct (glide_set_time g t) as [g'|], (glide_set_time h (clamp_time t)) as [h'|];
        cbn [opt_sim] in St; try contradiction.
      * destruct (IH g' h' St Hr) as (I1 & I2 & I3). rewrite I1, I2. auto.
      * auto.
    + cbn [clamp_op glide_outputs]. cbn [clamp_op glide_step] in St |- *.
      rewrite !glide_process_eq in *. cbn [fst] in *. cbv beta iota zeta.
      cbn [opt_sim] in St. rewrite L in St |- *.
      destruct (IH _ _ St Hr) as (I1 & I2 & I3). rewrite I1, I2. auto.
Qed.

Theorem run_beyond_10 : forall fs g0 ops,
  glide_fs_ok fs -> glide_new fs = Some g0 -> Forall op_time_clear ops ->
  glide_outputs g0 (map clamp_op ops) = glide_outputs g0 ops /\
  coeffs_used g0 (map clamp_op ops) = coeffs_used g0 ops /\
  match glide_after g0 ops, glide_after g0 (map clamp_op ops) with
  | Some g, Some h => eq_but_cached g h
  | None, None => True
  | _, _ => False
  end.
Proof.
  intros fs g0 ops Hfs E0 Hops.
  destruct (new_shape fs g0 E0) as (Hg & Ec & _).
  assert (Hs : sim fs g0 g0).
  { unfold sim. split; [exact Hg|]. split; [exact Hg|]. split; [reflexivity|].
    left. split; [reflexivity|left; exact Ec]. }
  destruct (sim_run fs Hfs ops g0 g0 Hs Hops) as (R1 & R2 & R3).
  split; [exact R1|]. split; [exact R2|].
  unfold opt_sim in R3.
  destruct (glide_after g0 ops) as [g|], (glide_after g0 (map clamp_op ops)) as [h|]; try exact R3.
  exact (sim_eq_but_cached fs g h R3).
Qed.

(** ** how much of the constant 16 of [resolution] is needed (experiments)

    [resolution kappa = 16 * 2^-24 / kappa].  One filter step costs [7.5 * 2^-24] of the bound
    on the state ([one_step_sharp]); the geometric accumulation gives [7.5 * 2^-24 / kappa].

    - hull (C13_hull, tolerance [resolution kappa * M]): for a pole [>= 0] the constant 8
      suffices ([hull_real_8_nonneg]).  The constant 16 is consumed by the NEGATIVE poles that
      [good] allows (down to [-2^-22]): then the exact recurrence itself leaves the hull by up
      to [2^-22 * 2 M = 8 * 2^-24 * M], and 7.5 + 8 = 15.5; the real-number core [hull_real]
      is false with 15 ([hull_real_15_false]), so 16 is the least integer for it.
    - settling (C13_settles, C14_step_tracks, tolerance [2 * resolution kappa * B]): the
      existing proof bounds the state by [3 B + S] (reference [|r| <= 2 B] plus bound on [x]),
      which costs the factor 3: [7.5 * 3 = 22.5], plus 8 for negative poles, 30.5 <= 32.
      Bounding the state by the hull of [x] and the initial output instead ([track_hull])
      gives [resolution kappa * B] for every [good] set and [resolution kappa / 2 * B] for
      poles [>= 0] ([settles_sharp]): a factor 2 resp. 4 sharper. *)

Lemma hull_real_8_nonneg : forall p kappa lo hi x x1 y1 out,
  0 <= p < 1 -> kappa <= 1 - p -> / 100000 <= kappa -> lo <= 0 <= hi ->
  let M := Rmax (- lo) hi in
  let E := 8 * u24 / kappa * M in
  lo <= x <= hi -> lo <= x1 <= hi -> lo - E <= y1 <= hi + E ->
  Rabs (out - ((1 - p) / 2 * (x + x1) + p * y1)) <= 15 / 2 * u24 * (M + E) ->
  lo - E <= out <= hi + E.
Proof.
  intros p kappa lo hi x x1 y1 out Hp Hk Hk5 Hlh M E Hx Hx1 Hy1 Hout.
  assert (HMl : - lo <= M) by apply Rmax_l.
  assert (HMh : hi <= M) by apply Rmax_r.
  assert (HM0 : 0 <= M) by lra.
  assert (HE : E * kappa = 8 * u24 * M) by (unfold E; field; lra).
  assert (HE0 : 0 <= E).
  { unfold E. apply Rmult_le_pos; [|exact HM0].
    apply Rmult_le_pos; [lra|]. apply Rlt_le, Rinv_0_lt_compat. lra. }
  assert (H2 : E * / 100000 <= E * kappa) by (apply Rmult_le_compat_l; lra).
  assert (H3 : 0 <= (1 - p - kappa) * E) by (apply Rmult_le_pos; lra).
  apply Rabs_le_inv in Hout.
  assert (A1 : (1 - p) * (2 * lo) <= (1 - p) * (x + x1)) by (apply Rmult_le_compat_l; lra).
  assert (A2 : (1 - p) * (x + x1) <= (1 - p) * (2 * hi)) by (apply Rmult_le_compat_l; lra).
  assert (B1 : p * (lo - E) <= p * y1) by (apply Rmult_le_compat_l; lra).
  assert (B2 : p * y1 <= p * (hi + E)) by (apply Rmult_le_compat_l; lra).
  split; lra.
Qed.

(** [hull_real] of Proofs/GlideFilterProofs.v with 15 in place of 16 is false: pole
    [-2^-22], [kappa = 1], range [-1, 1], both inputs at [hi = 1], previous output at the
    lower end [-1 - E] *)
Theorem hull_real_15_false : ~ (forall p kappa lo hi x x1 y1 out,
  - / 4194304 <= p < 1 -> kappa <= 1 - p -> / 100000 <= kappa -> lo <= 0 <= hi ->
  let M := Rmax (- lo) hi in
  let E := 15 * u24 / kappa * M in
  lo <= x <= hi -> lo <= x1 <= hi -> lo - E <= y1 <= hi + E ->
  Rabs (out - ((1 - p) / 2 * (x + x1) + p * y1)) <= 15 / 2 * u24 * (M + E) ->
  lo - E <= out <= hi + E).
Proof.
  intros H.
  set (E := 15 * u24).
  set (ex := (1 - - / 4194304) / 2 * (1 + 1) + - / 4194304 * (-1 - E)).
  specialize (H (- / 4194304) 1 (-1) 1 1 1 (-1 - E) (ex + 15 / 2 * u24 * (1 + E))).
  assert (HM : Rmax (- -1) 1 = 1) by (apply Rmax_right; lra).
  cbv zeta in H. rewrite HM in H.
  replace (15 * u24 / 1 * 1) with E in H by (unfold E; field).
  specialize (H ltac:(lra) ltac:(lra) ltac:(lra) ltac:(lra) ltac:(lra) ltac:(lra)
                ltac:(unfold E; lra)).
  assert (Hr : Rabs (ex + 15 / 2 * u24 * (1 + E) - ex) <= 15 / 2 * u24 * (1 + E)).
  { replace (ex + 15 / 2 * u24 * (1 + E) - ex) with (15 / 2 * u24 * (1 + E)) by ring.
    rewrite Rabs_pos_eq; [lra|]. unfold E. lra. }
  specialize (H Hr). unfold ex, E in H. lra.
Qed.

(** tracking a geometric reference, the state being bounded through the hull of the
    reference: [x + p^k r] stays within [B'] for every [k] *)
Lemma track_hull : forall c x B' Bm W, good c -> fin x -> Rabs (R32 x) <= Bm ->
  bpow radix2 (-100) <= Bm -> Bm <= bpow radix2 100 -> B' + W <= Bm ->
  Rabs (pole c) * W + 15 / 2 * u24 * Bm <= W ->
  forall n d r, d_c d = c -> d_x1 d = x -> df1_bounded d Bm ->
  (forall k, Rabs (R32 x + pole c ^ k * r) <= B') ->
  Rabs (R32 (d_y1 d) - R32 x - r) <= W ->
  Rabs (R32 (d_y1 (fst (run_const d x n))) - R32 x - pole c ^ n * r) <= W.
Proof.
  intros c x B' Bm W Hg Fx Bx HBlo HBhi Hsum Hstab.
  induction n as [|n IH]; intros d r Ec Ex Hb Hr Hw.
  - cbn [run_const fst]. simpl pow. now rewrite Rmult_1_l.
  - rewrite run_const_S. cbn [fst].
    rewrite <- Ec in Hg.
    destruct (approach_sharp d x Bm Hg Hb Fx Bx HBlo HBhi Ex) as (Fy & _ & Hy).
    rewrite Ec in Hy.
    set (y := snd (df1_run d x)) in *.
    assert (Hw' : Rabs (R32 y - R32 x - pole c * r) <= W).
    { replace (R32 y - R32 x - pole c * r)
        with ((R32 y - R32 x - pole c * (R32 (d_y1 d) - R32 x))
              + pole c * (R32 (d_y1 d) - R32 x - r)) by ring.
      eapply Rle_trans; [apply Rabs_triang|]. rewrite Rabs_mult.
      assert (Rabs (pole c) * Rabs (R32 (d_y1 d) - R32 x - r) <= Rabs (pole c) * W)
        by (apply Rmult_le_compat_l; [apply Rabs_pos|exact Hw]).
      lra. }
    replace (pole c ^ S n * r) with (pole c ^ n * (pole c * r)) by (simpl; ring).
    apply IH.
    + exact Ec.
    + reflexivity.
    + apply next_bounded; try assumption. fold y.
      pose proof (Hr 1%nat) as H1. simpl pow in H1. rewrite Rmult_1_r in H1.
      apply Rabs_le. apply Rabs_le_inv in Hw', H1. lra.
    + intros k. replace (pole c ^ k * (pole c * r)) with (pole c ^ S k * r) by (simpl; ring).
      apply Hr.
    + unfold df1_next. cbn [d_y1]. fold y. exact Hw'.
Qed.

Lemma convex_abs : forall q a r B, 0 <= q <= 1 -> Rabs a <= B -> Rabs (a + r) <= B ->
  Rabs (a + q * r) <= B.
Proof.
  intros q a r B Hq Ha Har. apply Rabs_le_inv in Ha, Har. apply Rabs_le.
  assert (A1 : (1 - q) * (- B) <= (1 - q) * a) by (apply Rmult_le_compat_l; lra).
  assert (A2 : (1 - q) * a <= (1 - q) * B) by (apply Rmult_le_compat_l; lra).
  assert (A3 : q * (- B) <= q * (a + r)) by (apply Rmult_le_compat_l; lra).
  assert (A4 : q * (a + r) <= q * B) by (apply Rmult_le_compat_l; lra).
  split; lra.
Qed.

(** C13_settles with half the tolerance ([resolution kappa * B] instead of
    [2 * resolution kappa * B]) for every [good] set, and a quarter of it for poles [>= 0] *)
Theorem settles_sharp : forall d x B n kappa,
  good (d_c d) -> kappa <= speed (d_c d) -> / 100000 <= kappa ->
  df1_bounded d B -> fin x -> Rabs (R32 x) <= B ->
  bpow radix2 (-100) <= B -> B <= bpow radix2 64 -> d_x1 d = x ->
  let y := d_y1 (fst (run_const d x n)) in
  let p := Rmax 0 (pole (d_c d)) in
  Rabs (R32 y - R32 x) <= p ^ n * Rabs (R32 (d_y1 d) - R32 x) + resolution kappa * B /\
  (0 <= pole (d_c d) ->
   Rabs (R32 y - R32 x) <= p ^ n * Rabs (R32 (d_y1 d) - R32 x) + resolution kappa / 2 * B).
Proof.
  intros d x B n kappa Hg Hk Hk5 Hb Fx Bx HBlo HBhi Ex y p.
  pose proof (good_pole _ Hg) as Hp.
  rewrite bpow_m100 in HBlo. rewrite bpow_64 in HBhi.
  assert (Hsp : speed (d_c d) = 1 - pole (d_c d)) by (unfold speed, pole; ring).
  set (c := d_c d) in *.
  set (r := R32 (d_y1 d) - R32 x).
  pose proof Hb as (_ & _ & _ & _ & By1 & _).
  assert (Hr : Rabs r <= 2 * B).
  { unfold r. apply Rabs_le. apply Rabs_le_inv in By1, Bx. lra. }
  assert (Hxr : Rabs (R32 x + r) <= B) by (unfold r; replace (R32 x + (R32 (d_y1 d) - R32 x)) with (R32 (d_y1 d)) by ring; exact By1).
  (* Tl = resolution kappa / 2 * B = 8 * 2^-24 / kappa * B *)
  set (Tl := resolution kappa / 2 * B).
  assert (HS : Tl * kappa = 8 * u24 * B) by (unfold Tl, resolution; field; lra).
  assert (HS0 : 0 <= Tl).
  { unfold Tl, resolution. apply Rmult_le_pos; [|lra].
    apply Rmult_le_pos; [|lra]. apply Rmult_le_pos; [lra|].
    apply Rlt_le, Rinv_0_lt_compat. lra. }
  assert (H2 : Tl * / 100000 <= Tl * kappa) by (apply Rmult_le_compat_l; lra).
  assert (Hres : resolution kappa * B = 2 * Tl) by (unfold Tl; field).
  assert (Pos : 0 <= pole c ->
    Rabs (R32 y - R32 x) <= p ^ n * Rabs r + Tl).
  { intros Hpos.
    assert (H3 : 0 <= (1 - pole c - kappa) * Tl) by (apply Rmult_le_pos; lra).
    pose proof (track_hull c x B (B + Tl) Tl Hg Fx ltac:(lra)) as T.
    specialize (T ltac:(rewrite bpow_m100; lra) ltac:(rewrite bpow_100; lra) ltac:(lra)).
    specialize (T ltac:(rewrite Rabs_pos_eq by exact Hpos; lra) n d r eq_refl Ex).
    specialize (T ltac:(apply df1_bounded_mono with B; [exact Hb|lra])).
    assert (Hk' : forall k, Rabs (R32 x + pole c ^ k * r) <= B).
    { intros k. apply convex_abs; try assumption. split; [apply pow_le; exact Hpos|].
      rewrite <- (pow1 k). apply pow_incr. lra. }
    specialize (T Hk' ltac:(unfold r; rewrite Rminus_diag_eq by reflexivity; rewrite Rabs_R0; exact HS0)).
    fold y in T. unfold p. rewrite Rmax_right by exact Hpos.
    replace (R32 y - R32 x) with ((R32 y - R32 x - pole c ^ n * r) + pole c ^ n * r) by ring.
    eapply Rle_trans; [apply Rabs_triang|].
    rewrite Rabs_mult, (Rabs_pos_eq (pole c ^ n)) by (apply pow_le; exact Hpos). lra. }
  split; [|intros Hpos; exact (Pos Hpos)].
  rewrite Hres.
  destruct (Rle_dec 0 (pole c)) as [Hpos|Hneg]; [specialize (Pos Hpos); lra|].
  apply Rnot_le_lt in Hneg.
  unfold p. rewrite Rmax_left by lra.
  destruct n as [|n].
  { subst y. cbn [run_const fst]. simpl pow. fold r. lra. }
  rewrite pow_i by lia. rewrite Rmult_0_l, Rplus_0_l.
  (* a negative pole, at least -2^-22 *)
  assert (Hpa : Rabs (pole c) <= 4 * u24) by (apply Rabs_le; lra).
  assert (Hpk : forall k, Rabs (pole c ^ Datatypes.S k * r) <= 4 * u24 * (2 * B)).
  { intros k. apply Rabs_mult_le; [|exact Hr]. simpl pow. rewrite Rabs_mult.
    apply Rle_trans with (Rabs (pole c) * 1); [|lra].
    apply Rmult_le_compat_l; [apply Rabs_pos|]. apply pow_abs_le_1. apply Rabs_le; lra. }
  set (W := 76 / 10 * u24 * B).
  set (B' := (1 + 8 * u24) * B).
  pose proof (track_hull c x B' (B' + W) W Hg Fx ltac:(unfold B', W; lra)) as T.
  specialize (T ltac:(rewrite bpow_m100; unfold B', W; lra) ltac:(rewrite bpow_100; unfold B', W; lra)
                ltac:(lra)).
  assert (Hst : Rabs (pole c) * W + 15 / 2 * u24 * (B' + W) <= W).
  { assert (Rabs (pole c) * W <= 4 * u24 * W) by (apply Rmult_le_compat_r; [unfold W; lra|exact Hpa]).
    unfold B', W in *. lra. }
  specialize (T Hst (Datatypes.S n) d r eq_refl Ex).
  specialize (T ltac:(apply df1_bounded_mono with B; [exact Hb|unfold B', W; lra])).
  assert (Hk' : forall k, Rabs (R32 x + pole c ^ k * r) <= B').
  { intros [|k].
    - simpl pow. rewrite Rmult_1_l. unfold B'. lra.
    - specialize (Hpk k). apply Rabs_le. apply Rabs_le_inv in Hpk, Bx. unfold B'. lra. }
  specialize (T Hk' ltac:(unfold r; rewrite Rminus_diag_eq by reflexivity; rewrite Rabs_R0; unfold W; lra)).
  fold y in T.
  specialize (Hpk n).
  assert (H1 : Tl * kappa <= Tl * (1 + 4 * u24)) by (apply Rmult_le_compat_l; lra).
  apply Rabs_le. apply Rabs_le_inv in T, Hpk. unfold W in T. lra.
Qed.
