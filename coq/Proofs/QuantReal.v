(** The quantizer's note search in the property's own wording: real volts and a
    10 microvolt tolerance.  Restates [QuantProofs.nearest_correct] (an integer
    characterisation in microvolts) over the reals, using the transfer lemmas of
    [QuantRecordProofs] ([vin_real], [cand_twelfth]). *)
From Coq Require Import ZArith Bool List Reals Lia Lra.
Import ListNotations.
From SU Require Import F32 F32Lemmas.
From SU.gen Require Import Consts.
From SU.Model Require Import Quantizer.
From SU.Spec Require Import QuantSpec.
From SU.Proofs Require Import QuantFloat QuantScan QuantProofs QuantRecordProofs.
Open Scope R_scope.

(** note number [N] in volts: one twelfth of a volt per semitone *)
Definition volt (N : Z) : R := IZR N / 12.

(** two different notes are at least one (integer) half step apart *)
Lemma cand_gap : forall N M, (0 <= N < 132)%Z -> (0 <= M < 132)%Z -> (N < M)%Z ->
  (cand N + HALF <= cand M)%Z.
Proof. intros N M HN HM. unfold cand. consts. dlia. Qed.

(** the signed integer distance (microvolts) against the signed real distance *)
Lemma dist_real : forall vin x N,
  1000000 * x - 8 / 5 <= IZR vin <= 1000000 * x + 3 / 5 ->
  (0 <= N <= 131)%Z ->
  1000000 * (x - volt N) - 8 / 5 <= IZR (vin - cand N)
    <= 1000000 * (x - volt N) + 3 / 5 + 11 / 3.
Proof.
  intros vin x N HX HN.
  destruct (cand_twelfth N HN) as [C1 C2].
  apply IZR_le in C1. apply IZR_le in C2.
  rewrite minus_IZR, !mult_IZR in C1. rewrite !mult_IZR in C2.
  rewrite minus_IZR. unfold volt. lra.
Qed.

(** a note that minimises the integer distance minimises the real one up to 10 uV *)
Lemma dist_transfer : forall vin x R N,
  1000000 * x - 8 / 5 <= IZR vin <= 1000000 * x + 3 / 5 ->
  (0 <= R <= 131)%Z -> (0 <= N <= 131)%Z ->
  (dist vin R <= dist vin N)%Z ->
  Rabs (x - volt R) <= Rabs (x - volt N) + / 100000.
Proof.
  intros vin x R N HX HR HN H. unfold dist in H.
  apply IZR_le in H. rewrite !abs_IZR in H.
  pose proof (dist_real vin x R HX HR) as DR.
  pose proof (dist_real vin x N HX HN) as DN.
  set (dr := IZR (vin - cand R)) in *. set (dn := IZR (vin - cand N)) in *.
  set (er := x - volt R) in *. set (en := x - volt N) in *.
  unfold Rabs in *.
  destruct (Rcase_abs dr), (Rcase_abs dn), (Rcase_abs er), (Rcase_abs en); lra.
Qed.

Lemma nearest_real : forall a v, valid_mask a ->
  let x := R32 (clamp_vin v) in
  let Rn := find_nearest_note a (clamp_vin v) in
  note_allowed a Rn = true /\ (0 <= Rn <= 131)%Z /\ 0 <= x <= 10 /\
  (forall B, In B all_notes -> note_allowed a B = true ->
     / 100000 <= x - volt B <= / 12 - / 100000 -> Rn = B) /\
  ((- / 100000 <= x - volt Rn <= / 12 + / 100000) \/
   (forall N, In N all_notes -> note_allowed a N = true ->
      Rabs (x - volt Rn) <= Rabs (x - volt N) + / 100000)).
Proof.
  intros a v Ha x Rn.
  destruct (nearest_correct a v Ha) as [Hv [[Hin [Hal S]] [_ E]]].
  cbv zeta in Hv, Hin, Hal, S, E.
  set (vin := vin_microvolts (clamp_vin v)) in *.
  assert (ER : Rn = (find_nearest_uv a vin / HALF)%Z) by exact E.
  rewrite <- ER in Hin, Hal, S. clear E ER.
  apply in_all_notes in Hin.
  assert (HR : (0 <= Rn <= 131)%Z) by lia.
  destruct (clamp_vin_range v) as [Fx Bx].
  pose proof (vin_real (clamp_vin v) Fx Bx) as HX.
  fold vin in HX. fold x in HX, Bx.
  pose proof (dist_real vin x Rn HX HR) as DR.
  split; [exact Hal|]. split; [exact HR|]. split; [exact Bx|]. split.
  - (* an allowed note between 10 uV and one semitone - 10 uV below the input wins *)
    intros B HB HBa Hx. apply in_all_notes in HB.
    assert (HB' : (0 <= B <= 131)%Z) by lia.
    pose proof (dist_real vin x B HX HB') as DB.
    assert (L1 : (8 < vin - cand B)%Z) by (apply lt_IZR; lra).
    assert (L2 : (vin - cand B < 83328)%Z) by (apply lt_IZR; lra).
    assert (IB : in_bucket a vin B).
    { split; [apply in_all_notes; lia|]. split; [exact HBa|].
      unfold dist. consts. lia. }
    destruct S as [[D Hmin]|[Hno _]]; [|exfalso; exact (Hno B IB)].
    pose proof (Hmin B IB) as Hle.
    destruct (Z.eq_dec Rn B) as [Eq|Hne]; [exact Eq|exfalso].
    pose proof (cand_gap Rn B ltac:(lia) ltac:(lia) ltac:(lia)) as G.
    unfold dist in D. consts. lia.
  - destruct S as [[D Hmin]|[Hno Hmin]].
    + destruct (Z_le_gt_dec (cand Rn) vin) as [Hge|Hlt].
      * (* the reported note is at or below the input: widened bucket *)
        left. unfold dist in D.
        assert (Z1 : (0 <= vin - cand Rn)%Z) by lia.
        assert (Z2 : (vin - cand Rn <= 83332)%Z) by (consts; lia).
        apply IZR_le in Z1. apply IZR_le in Z2. lra.
      * (* the reported note is above the input but closer than a half step *)
        right. intros N HN HNa.
        pose proof HN as HN'. apply in_all_notes in HN'.
        apply (dist_transfer vin); [exact HX|exact HR|lia|].
        destruct (Z_lt_le_dec (dist vin N) HALF) as [Hc|Hf]; [|lia].
        assert (IB : in_bucket a vin N) by (split; [exact HN|split; assumption]).
        pose proof (Hmin N IB) as Hle.
        destruct (Z.eq_dec Rn N) as [Eq|Hne]; [subst N; lia|].
        pose proof (cand_lt Rn N ltac:(lia) ltac:(lia) ltac:(lia)) as G.
        unfold dist. lia.
    + (* no allowed note within a half step: nearest overall *)
      right. intros N HN HNa.
      pose proof HN as HN'. apply in_all_notes in HN'.
      apply (dist_transfer vin); [exact HX|exact HR|lia|].
      destruct (Hmin N HN HNa) as [H|[H _]]; lia.
Qed.

Print Assumptions nearest_real.
