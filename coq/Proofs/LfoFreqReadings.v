(** Readings are a function of the phase counter alone, so a set_frequency between two ticks
    moves no waveform; the tick-to-tick continuity bounds therefore hold across a frequency
    change, with the step of the NEW increment.  (Seeded change m112 -- sine read without
    interpolation while the increment is a whole number of table cells -- is exactly a read-out
    that depends on the increment.) *)
From Coq Require Import ZArith Bool List Reals.
From SU Require Import F32 F32Lemmas.
From SU.Model Require Import Utils PhaseAcc Lfo.
From SU.Proofs Require Import LfoProofs SineProofs.
Open Scope R_scope.

Lemma lfo_get_acc_only : forall (l l2 : lfo) w, pa_acc l = pa_acc l2 -> lfo_get l w = lfo_get l2 w.
Proof.
  intros l l2 w H.
  unfold lfo_get, lfo_upsaw, pa_ramp, pa_index, pa_fraction. rewrite H. reflexivity.
Qed.

Lemma set_frequency_keeps_readings : forall l f w,
  lfo_get (lfo_step l (LSetFreq f)) w = lfo_get l w.
Proof. intros l f w. apply lfo_get_acc_only. apply set_frequency_no_jump. Qed.

Lemma sine_continuous_across_set_frequency : forall l f,
  (0 <= pa_acc l < 16777216)%Z ->
  let l1 := lfo_step l (LSetFreq f) in
  (0 <= pa_inc l1 <= 16777216)%Z ->
  let l2 := lfo_step l1 LTick in
  Rabs (R32 (lfo_get l2 Sine) - R32 (lfo_get l Sine))
    <= 2 * PI * 1.002 * (IZR (pa_inc l1) / 16777216) + 2 * / 16777216.
Proof.
  intros l f Ha l1 Hi l2.
  rewrite <- (set_frequency_keeps_readings l f Sine). fold l1.
  apply sine_continuous; [ unfold l1; rewrite set_frequency_no_jump; exact Ha | exact Hi ].
Qed.

Lemma triangle_continuous_across_set_frequency : forall l f,
  (0 <= pa_acc l < 16777216)%Z ->
  let l1 := lfo_step l (LSetFreq f) in
  (0 <= pa_inc l1 <= 16777216)%Z ->
  let l2 := lfo_step l1 LTick in
  Rabs (R32 (lfo_get l2 Triangle) - R32 (lfo_get l Triangle))
    <= 4 * (IZR (pa_inc l1) / 16777216).
Proof.
  intros l f Ha l1 Hi l2.
  rewrite <- (set_frequency_keeps_readings l f Triangle). fold l1.
  apply triangle_continuous; [ unfold l1; rewrite set_frequency_no_jump; exact Ha | exact Hi ].
Qed.
