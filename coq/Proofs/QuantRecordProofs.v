(** Proofs behind Props/C19.v: the quantizer's conversion record is self-consistent.

    Contents
    - float helpers: absolute error of one rounding, [ulp (2 x) <= 2 ulp x], the error of
      [s + (x - s)] computed in f32;
    - the cached-record invariant and the shape of [convert] on both of its paths;
    - the window bounds over the reals;
    - the all-notes-allowed search in microvolts against the real input. *)
From Coq Require Import ZArith Bool List Reals Lia Lra.
Import ListNotations.
From Flocq Require Import Core IEEE754.BinarySingleNaN Relative.
From SU Require Import F32 F32Lemmas.
From SU.gen Require Import Consts.
From SU.Model Require Import Quantizer.
From SU.Spec Require Import QuantSpec.
From SU.Proofs Require Import QuantFloat QuantScan QuantProofs.
Open Scope R_scope.

(** * Float helpers *)

(** half of the smallest subnormal, the absolute term of the standard error model *)
Definition ETA : R := / 1427247692705959881058285969449495136382746624.

Lemma ETA_small : 0 < ETA < / 1000000000000.
Proof. unfold ETA. lra. Qed.

(** one rounding: relative error 2^-24 plus absolute error 2^-150
    (same statement as [LfoProofs.rnd_error]; repeated to keep this file independent) *)
Lemma rnd_rel_error : forall x, exists eps eta,
  Rabs eps <= / 16777216 /\ Rabs eta <= ETA /\ rnd x = x * (1 + eps) + eta.
Proof.
  intros x.
  destruct (error_N_FLT radix2 (-149) 24 ltac:(lia) (fun n => negb (Z.even n)) x)
    as [eps [eta [He [Ht [_ Hr]]]]].
  exists eps, eta. repeat split.
  - replace (/ 16777216) with (/ 2 * bpow radix2 (-24 + 1)); [exact He|].
    change (-24 + 1)%Z with (- (23))%Z. rewrite (bpow2_neg 23) by lia.
    change (2 ^ 23)%Z with 8388608%Z. lra.
  - unfold ETA.
    replace (/ 1427247692705959881058285969449495136382746624)
      with (/ 2 * bpow radix2 (-149)); [exact Ht|].
    change (-149)%Z with (- (149))%Z. rewrite (bpow2_neg 149) by lia.
    change (2 ^ 149)%Z with 713623846352979940529142984724747568191373312%Z. lra.
  - exact Hr.
Qed.

(** absolute error of one rounding of a number bounded by [B] *)
Lemma rnd_abs_err : forall x B, Rabs x <= B -> Rabs (rnd x - x) <= B / 16777216 + ETA.
Proof.
  intros x B HB.
  destruct (rnd_rel_error x) as [eps [eta [He [Ht E]]]].
  rewrite E. replace (x * (1 + eps) + eta - x) with (x * eps + eta) by ring.
  eapply Rle_trans; [apply Rabs_triang|].
  apply Rplus_le_compat; [|exact Ht].
  rewrite Rabs_mult. unfold Rdiv.
  apply Rmult_le_compat; try apply Rabs_pos; assumption.
Qed.

(** the same as a two-sided inequality *)
Lemma rnd_err_bounds : forall x B, Rabs x <= B ->
  x - (B / 16777216 + ETA) <= rnd x <= x + (B / 16777216 + ETA).
Proof.
  intros x B HB. pose proof (rnd_abs_err x B HB) as H. apply Rabs_le_inv in H. lra.
Qed.

Lemma ulp_double : forall x, ulp radix2 fexp32 (2 * x) <= 2 * ulp radix2 fexp32 x.
Proof.
  intros x. destruct (Req_dec x 0) as [->|Hx].
  - rewrite Rmult_0_r. pose proof (ulp_ge_0 radix2 fexp32 0). lra.
  - assert (H2 : 2 * x <> 0) by lra.
    rewrite (ulp_neq_0 radix2 fexp32 (2 * x) H2), (ulp_neq_0 radix2 fexp32 x Hx).
    unfold cexp.
    replace (2 * x) with (x * bpow radix2 1) by (simpl; lra).
    rewrite mag_mult_bpow by exact Hx.
    apply Rle_trans with (bpow radix2 (fexp32 (mag radix2 x) + 1)).
    + apply bpow_le. unfold FLT_exp. lia.
    + rewrite bpow_plus. simpl (bpow radix2 1). lra.
Qed.

(** [s + (x - s)] in f32 reproduces [x] within two ulps of the larger operand *)
Lemma recompose_err : forall s x, fmt s -> fmt x -> 0 <= s ->
  Rabs (rnd (s + rnd (x - s)) - x) <= 2 * ulp radix2 fexp32 (Rmax (Rabs x) s).
Proof.
  intros s x Fs Fx Hs.
  set (M := Rmax (Rabs x) s).
  assert (HxM : Rabs x <= M) by apply Rmax_l.
  assert (HsM : s <= M) by apply Rmax_r.
  assert (Hx0 : 0 <= Rabs x) by apply Rabs_pos.
  assert (FM : fmt M).
  { subst M. unfold Rmax. destruct (Rle_dec (Rabs x) s); [exact Fs|].
    now apply generic_format_abs. }
  pose proof (ulp_ge_0 radix2 fexp32 M) as HU0.
  destruct (Req_dec M 0) as [M0|Mnz].
  - (* both operands are zero *)
    assert (Ex : x = 0).
    { destruct (Req_dec x 0) as [E|E]; [exact E|]. apply Rabs_pos_lt in E. lra. }
    assert (Es : s = 0) by lra.
    subst x s. replace (0 - 0) with 0 by ring. rewrite rnd_0, Rplus_0_l, rnd_0.
    replace (0 - 0) with 0 by ring. rewrite Rabs_R0. lra.
  - assert (HMpos : 0 < M) by lra.
    set (U := ulp radix2 fexp32 M) in *.
    assert (HUM : U <= M).
    { subst U. pose proof (ulp_le_abs radix2 fexp32 M Mnz FM) as H.
      rewrite Rabs_pos_eq in H by lra. exact H. }
    assert (H2 : forall y, Rabs y <= 2 * M -> / 2 * ulp radix2 fexp32 y <= U).
    { intros y Hy.
      assert (H : ulp radix2 fexp32 y <= ulp radix2 fexp32 (2 * M)).
      { apply ulp_le; auto with typeclass_instances.
        rewrite (Rabs_pos_eq (2 * M)) by lra. exact Hy. }
      pose proof (ulp_double M) as H'. fold U in H'. lra. }
    set (d := x - s).
    assert (Hd : Rabs d <= 2 * M).
    { pose proof (Rabs_le_inv _ _ HxM) as HxM'. apply Rabs_le. unfold d. lra. }
    pose proof (error_le_half_ulp radix2 fexp32 (fun n => negb (Z.even n)) d) as E1.
    change (round radix2 fexp32 (Znearest (fun n => negb (Z.even n))) d) with (rnd d) in E1.
    pose proof (H2 d Hd) as E1'.
    assert (B1 : Rabs (rnd d - d) <= U) by lra.
    set (t := s + rnd d).
    assert (Ht : Rabs t <= 2 * M).
    { pose proof (Rabs_le_inv _ _ HxM) as HxM'. pose proof (Rabs_le_inv _ _ B1) as B1'.
      apply Rabs_le. unfold t, d in *. lra. }
    pose proof (error_le_half_ulp radix2 fexp32 (fun n => negb (Z.even n)) t) as E2.
    change (round radix2 fexp32 (Znearest (fun n => negb (Z.even n))) t) with (rnd t) in E2.
    pose proof (H2 t Ht) as E2'.
    assert (B2 : Rabs (rnd t - t) <= U) by lra.
    apply Rabs_le. apply Rabs_le_inv in B1. apply Rabs_le_inv in B2.
    unfold t, d in *. lra.
Qed.

(** * Constants *)

Lemma fin_HYST : fin HYST.
Proof. fin_const. Qed.

Lemma fin_SEMITONE : fin SEMITONE.
Proof. fin_const. Qed.

Lemma HYST_bounds : / 120 <= R32 HYST <= / 120 + / 1000000000.
Proof. r32_const HYST. lra. Qed.

Lemma SEMITONE_bounds : / 12 <= R32 SEMITONE <= / 12 + / 100000000.
Proof. r32_const SEMITONE. lra. Qed.

Lemma R32_f_12 : R32 f_12 = 12.
Proof. apply (R32_of_Z_small 12). lia. Qed.

Lemma fin_f_12 : fin f_12.
Proof. apply (fin_of_Z_small 12). lia. Qed.

(** * The stairstep value *)

Lemma stair_facts : forall N, (0 <= N <= 131)%Z ->
  fin (stair_of N) /\ R32 (stair_of N) = rnd (IZR N / 12) /\ 0 <= R32 (stair_of N) <= 11.
Proof.
  intros N [HN0 HN1]. unfold stair_of.
  destruct (fin_R32_of_Z_small N) as [VN FN]; [lia|].
  assert (H0 : 0 <= IZR N) by (apply (IZR_le 0); exact HN0).
  assert (H1 : IZR N <= 131) by (apply IZR_le; exact HN1).
  assert (Hr : 0 <= rnd (IZR N / 12) <= 11).
  { apply rnd_bounds; [apply fmt_0|apply (fmt_int 11); lia|lra]. }
  destruct (fdiv_correct (of_Z N) f_12 FN fin_f_12) as [V F].
  - rewrite R32_f_12. lra.
  - rewrite VN, R32_f_12. apply Rle_lt_trans with 11; [apply Rabs_le; lra|].
    rewrite MAXF_val. lra.
  - rewrite VN, R32_f_12 in V. rewrite V. auto.
Qed.

(** distance between the f32 stairstep and the exact quotient *)
Lemma stair_err : forall N, (0 <= N <= 131)%Z ->
  IZR N / 12 - (11 / 16777216 + ETA) <= R32 (stair_of N) <= IZR N / 12 + (11 / 16777216 + ETA).
Proof.
  intros N HN. destruct (stair_facts N HN) as [_ [V _]]. rewrite V.
  apply rnd_err_bounds.
  assert (H0 : 0 <= IZR N) by (apply (IZR_le 0); lia).
  assert (H1 : IZR N <= 131) by (apply IZR_le; lia).
  apply Rabs_le. lra.
Qed.

(** * The cached record and the two paths of [convert] *)

Lemma search_note_range : forall a v, valid_mask a ->
  (0 <= find_nearest_note a (clamp_vin v) <= 131)%Z.
Proof.
  intros a v Ha. destruct (nearest_correct a v Ha) as [_ [[Hin _] [_ E]]].
  cbv zeta in Hin, E. rewrite E. apply in_all_notes in Hin. lia.
Qed.

Lemma convert_shape : forall q v, valid_mask (q_allowed q) -> cached_ok (q_cached q) ->
  exists N, (0 <= N <= 131)%Z /\
    snd (convert q v) = mkConv N (stair_of N) (fsub (clamp_vin v) (stair_of N)) /\
    fst (convert q v) = mkQuant (snd (convert q v)) (q_allowed q) /\
    (keeps q v = true ->
       c_stair (q_cached q) = stair_of N /\ in_window (q_cached q) (clamp_vin v) = true) /\
    (keeps q v = false -> N = find_nearest_note (q_allowed q) (clamp_vin v)).
Proof.
  intros q v Hm Hc. unfold convert, keeps. cbv zeta.
  destruct (bit_allowed (q_allowed q) (note_new (c_note (q_cached q) mod 12))
            && in_window (q_cached q) (clamp_vin v)) eqn:G.
  - destruct Hc as [E|[HN HS]].
    + rewrite E in G. rewrite in_window_fresh, andb_false_r in G. discriminate G.
    + exists (c_note (q_cached q)). cbn [fst snd].
      apply andb_prop in G. destruct G as [_ G].
      split; [exact HN|]. split; [rewrite HS at 1 2; reflexivity|].
      split; [reflexivity|]. split; [intros _; split; assumption|intros H; discriminate H].
  - exists (find_nearest_note (q_allowed q) (clamp_vin v)). cbn [fst snd].
    split; [now apply search_note_range|]. split; [reflexivity|].
    split; [reflexivity|]. split; [intros H; discriminate H|reflexivity].
Qed.

Lemma step_cached : forall q o, valid_mask (q_allowed q) -> cached_ok (q_cached q) ->
  cached_ok (q_cached (quant_step q o)).
Proof.
  intros q [ns|ns|v] Hm Hc; cbn [quant_step].
  - exact Hc.
  - unfold quant_forbid. destruct (forbid_bits (q_allowed q) ns =? 0)%Z; exact Hc.
  - destruct (convert_shape q v Hm Hc) as [N [HN [E1 [E2 _]]]].
    rewrite E2. cbn [q_cached]. rewrite E1. right. cbn [c_note c_stair]. auto.
Qed.

Lemma run_cached : forall ops q, wf_ops ops -> valid_mask (q_allowed q) ->
  cached_ok (q_cached q) -> cached_ok (q_cached (fold_left quant_step ops q)).
Proof.
  intros ops. induction ops as [|o ops IH]; intros q Hwf Hm Hc.
  - exact Hc.
  - inversion Hwf as [|? ? Ho Hops]; subst. cbn [fold_left]. apply IH.
    + exact Hops.
    + now apply step_valid.
    + now apply step_cached.
Qed.

(** the cached-record invariant (also proved in QuantHystProofs as [cached_invariant]) *)
Lemma cached_inv : forall ops, wf_ops ops -> cached_ok (q_cached (qrun ops)).
Proof.
  intros ops Hwf. unfold qrun. apply run_cached; [exact Hwf| |].
  - unfold valid_mask. cbn [quant_new q_allowed]. lia.
  - left. reflexivity.
Qed.

Lemma convert_run_shape : forall ops v, wf_ops ops ->
  exists N, (0 <= N <= 131)%Z /\
    snd (convert (qrun ops) v) = mkConv N (stair_of N) (fsub (clamp_vin v) (stair_of N)) /\
    (keeps (qrun ops) v = true ->
       c_stair (q_cached (qrun ops)) = stair_of N /\
       in_window (q_cached (qrun ops)) (clamp_vin v) = true) /\
    (keeps (qrun ops) v = false ->
       N = find_nearest_note (q_allowed (qrun ops)) (clamp_vin v)).
Proof.
  intros ops v Hwf.
  destruct (convert_shape (qrun ops) v (mask_invariant ops Hwf) (cached_inv ops Hwf))
    as [N [HN [E [_ [K1 K2]]]]].
  exists N. auto.
Qed.

(** * C19: stairstep and fraction *)

Lemma stairstep_spec : forall ops v, wf_ops ops ->
  let c := snd (convert (qrun ops) v) in
  (0 <= c_note c <= 131)%Z /\ c_stair c = stair_of (c_note c) /\
  fin (c_stair c) /\ R32 (c_stair c) = rnd (IZR (c_note c) / 12).
Proof.
  intros ops v Hwf c. subst c.
  destruct (convert_run_shape ops v Hwf) as [N [HN [E _]]]. rewrite E.
  cbn [c_note c_stair]. destruct (stair_facts N HN) as [F [V _]]. auto.
Qed.

Lemma fraction_spec : forall ops v, wf_ops ops ->
  let c := snd (convert (qrun ops) v) in
  c_frac c = fsub (clamp_vin v) (c_stair c).
Proof.
  intros ops v Hwf c. subst c.
  destruct (convert_run_shape ops v Hwf) as [N [HN [E _]]]. rewrite E.
  reflexivity.
Qed.

(** * The hysteresis window over the reals *)

Lemma window_bounds_real : forall s, 0 <= s <= 11 ->
  s - / 120 - / 1000000 <= rnd (s - R32 HYST) /\
  rnd (rnd (s + R32 SEMITONE) + R32 HYST) <= s + / 12 + / 120 + 2 / 1000000.
Proof.
  intros s Hs. pose proof HYST_bounds as Hh. pose proof SEMITONE_bounds as Ht.
  pose proof ETA_small as He.
  assert (A : Rabs (s - R32 HYST) <= 11) by (apply Rabs_le; lra).
  apply rnd_err_bounds in A.
  assert (B : Rabs (s + R32 SEMITONE) <= 12) by (apply Rabs_le; lra).
  apply rnd_err_bounds in B.
  assert (C : Rabs (rnd (s + R32 SEMITONE) + R32 HYST) <= 13) by (apply Rabs_le; lra).
  apply rnd_err_bounds in C.
  split; lra.
Qed.

(** inside the window of a real cached record: the input is finite and between the
    real window bounds *)
Lemma window_real : forall c N v, (0 <= N <= 131)%Z -> c_stair c = stair_of N ->
  in_window c v = true ->
  fin v /\
  R32 (stair_of N) - / 120 - / 1000000 < R32 v < R32 (stair_of N) + / 12 + / 120 + 2 / 1000000.
Proof.
  intros c N v HN HS Hw. unfold in_window in Hw. cbv zeta in Hw. rewrite HS in Hw.
  apply andb_prop in Hw. destruct Hw as [Hlo Hhi].
  destruct (stair_facts N HN) as [Fs [_ Bs]].
  set (st := stair_of N) in *. set (s := R32 st) in *.
  pose proof HYST_bounds as Hh. pose proof SEMITONE_bounds as Ht.
  destruct (window_bounds_real s Bs) as [WL WH].
  assert (R1 : 0 <= rnd (s + R32 SEMITONE) <= 12).
  { apply rnd_bounds; [apply fmt_0|apply (fmt_int 12); lia|lra]. }
  destruct (fsub_correct st HYST Fs fin_HYST) as [Vlo Flo].
  { fold s. apply no_overflow with 16; [apply (fmt_int 16); lia|rewrite MAXF_val; lra|].
    apply Rabs_le. lra. }
  destruct (fadd_correct st SEMITONE Fs fin_SEMITONE) as [Vm Fm].
  { fold s. apply Rle_lt_trans with 12; [apply Rabs_le; lra|rewrite MAXF_val; lra]. }
  fold s in Vlo, Vm.
  destruct (fadd_correct (fadd st SEMITONE) HYST Fm fin_HYST) as [Vhi Fhi].
  { rewrite Vm. apply no_overflow with 16; [apply (fmt_int 16); lia|rewrite MAXF_val; lra|].
    apply Rabs_le. lra. }
  rewrite Vm in Vhi.
  assert (Fv : fin v).
  { destruct (f32_cases v) as [E|[[sg E]|F]]; [| |exact F].
    - subst v. rewrite flt_nan_r in Hlo. discriminate Hlo.
    - subst v. rewrite flt_inf_r in Hlo by exact Flo. rewrite flt_inf_l in Hhi by exact Fhi.
      destruct sg; discriminate. }
  split; [exact Fv|].
  apply flt_true in Hlo; [|exact Flo|exact Fv]. apply flt_true in Hhi; [|exact Fv|exact Fhi].
  rewrite Vlo in Hlo. rewrite Vhi in Hhi. lra.
Qed.

(** * C19: recomposition *)

Lemma recompose_f32 : forall st w : f32, fin st -> fin w ->
  0 <= R32 st <= 11 -> -16 <= R32 w <= 16 ->
  fin (fadd st (fsub w st)) /\
  Rabs (R32 (fadd st (fsub w st)) - R32 w)
    <= 2 * ulp radix2 fexp32 (Rmax (Rabs (R32 w)) (R32 st)).
Proof.
  intros st w Fs Fw Bs Bw.
  assert (A : Rabs (R32 w - R32 st) <= 32) by (apply Rabs_le; lra).
  assert (A' : Rabs (rnd (R32 w - R32 st)) <= 32).
  { apply rnd_abs_le; [apply (fmt_int 32); lia|exact A]. }
  destruct (fsub_correct w st Fw Fs) as [Vf Ff].
  { apply Rle_lt_trans with 32; [exact A'|rewrite MAXF_val; lra]. }
  assert (B : Rabs (R32 st + rnd (R32 w - R32 st)) <= 64).
  { apply Rabs_le. apply Rabs_le_inv in A'. lra. }
  destruct (fadd_correct st (fsub w st) Fs Ff) as [Va Fa].
  { rewrite Vf. apply no_overflow with 64; [apply (fmt_int 64); lia|rewrite MAXF_val; lra|].
    exact B. }
  split; [exact Fa|]. rewrite Va, Vf.
  apply recompose_err; [apply fmt_R32|apply fmt_R32|lra].
Qed.

Lemma recompose_spec : forall ops v, wf_ops ops ->
  let c := snd (convert (qrun ops) v) in
  let v' := clamp_vin v in
  fin (fadd (c_stair c) (c_frac c)) /\
  Rabs (R32 (fadd (c_stair c) (c_frac c)) - R32 v')
    <= 2 * ulp radix2 fexp32 (Rmax (Rabs (R32 v')) (R32 (c_stair c))) /\
  (fin v -> 0 <= R32 v <= 10 -> v' = v).
Proof.
  intros ops v Hwf c v'. subst c.
  destruct (convert_run_shape ops v Hwf) as [N [HN [E _]]].
  rewrite E. cbn [c_stair c_frac]. fold v'.
  destruct (stair_facts N HN) as [Fs [_ Bs]].
  destruct (clamp_vin_range v) as [Fv' Bv']. fold v' in Fv', Bv'.
  assert (Bv16 : -16 <= R32 v' <= 16) by lra.
  destruct (recompose_f32 (stair_of N) v' Fs Fv' Bs Bv16) as [Fa Ea].
  split; [exact Fa|]. split; [exact Ea|].
  intros Fv Hr. subst v'. unfold clamp_vin.
  destruct (clamp_maxmin v f_0 V_MAX fin_f_0 fin_V_MAX V_le) as [_ [_ [_ [Hin _]]]].
  apply Hin; [exact Fv|]. rewrite R32_f_0, R32_V_MAX. exact Hr.
Qed.

(** * C19: the fraction inside the hysteresis window *)

Lemma window_fraction : forall ops v, wf_ops ops ->
  let q := qrun ops in
  keeps q v = true ->
  let c := snd (convert q v) in
  fin (c_frac c) /\ - / 120 - / 262144 <= R32 (c_frac c) <= / 12 + / 120 + / 262144.
Proof.
  intros ops v Hwf q K c. subst c.
  destruct (convert_run_shape ops v Hwf) as [N [HN [E [K1 _]]]].
  fold q in E, K1. rewrite E. cbn [c_frac].
  destruct (K1 K) as [HS Hw].
  destruct (window_real _ N (clamp_vin v) HN HS Hw) as [Fv Bv].
  destruct (stair_facts N HN) as [Fs [_ Bs]].
  pose proof ETA_small as He.
  assert (A : Rabs (R32 (clamp_vin v) - R32 (stair_of N)) <= 1) by (apply Rabs_le; lra).
  destruct (fsub_correct (clamp_vin v) (stair_of N) Fv Fs) as [Vf Ff].
  { apply no_overflow with 1; [apply (fmt_int 1); lia|rewrite MAXF_val; lra|exact A]. }
  split; [exact Ff|]. rewrite Vf.
  apply rnd_err_bounds in A. lra.
Qed.

(** * C19: chromatic scale, no history *)

Open Scope Z_scope.

Lemma all_allowed : forall N, note_allowed 4095 N = true.
Proof.
  intros N. unfold note_allowed, bit_allowed. change 4095 with (Z.ones 12).
  apply Z.ones_spec_low. apply Z.mod_pos_bound. lia.
Qed.

Lemma cand_split : forall o k, 0 <= o <= 10 -> 0 <= k <= 11 ->
  cand (12 * o + k) = k * 83333 + o * 1000000.
Proof. intros o k Ho Hk. unfold cand. consts. dlia. Qed.

(** with every note allowed some note is within the bucket of every input *)
Lemma chrom_bucket : forall vin, 0 <= vin <= 10000000 ->
  exists N, 0 <= N < 132 /\ -4 <= vin - cand N < 83333.
Proof.
  intros vin Hv.
  pose proof (Z.div_mod vin 1000000 ltac:(lia)) as Hdm.
  pose proof (Z.mod_pos_bound vin 1000000 ltac:(lia)) as Hr.
  set (o := vin / 1000000) in *. set (r := vin mod 1000000) in *.
  assert (Ho : 0 <= o <= 10) by lia.
  destruct (Z_lt_le_dec r 999996) as [Hlt|Hge].
  - pose proof (Z.div_mod r 83333 ltac:(lia)) as Hdm2.
    pose proof (Z.mod_pos_bound r 83333 ltac:(lia)) as Hr2.
    set (k := r / 83333) in *.
    assert (Hk : 0 <= k <= 11) by lia.
    exists (12 * o + k). split; [lia|]. rewrite cand_split by assumption. lia.
  - assert (Ho' : 0 <= o + 1 <= 10) by lia.
    exists (12 * (o + 1) + 0). split; [lia|]. rewrite cand_split by lia. lia.
Qed.

Lemma chrom_note : forall v,
  let vin := vin_microvolts (clamp_vin v) in
  let R := find_nearest_note 4095 (clamp_vin v) in
  0 <= R <= 131 /\ cand R - 4 <= vin <= cand R + 83332.
Proof.
  intros v vin R.
  assert (Ha : valid_mask 4095) by (unfold valid_mask; lia).
  destruct (nearest_correct 4095 v Ha) as [Hv [[Hin [_ S]] [_ E]]].
  cbv zeta in Hv, Hin, S, E. fold vin in Hv, Hin, S, E.
  assert (ER : R = find_nearest_uv 4095 vin / HALF) by exact E.
  rewrite <- ER in Hin, S. clear E.
  apply in_all_notes in Hin.
  destruct (chrom_bucket vin Hv) as [N1 [HN1 HB1]].
  assert (IB : in_bucket 4095 vin N1).
  { split; [now apply in_all_notes|]. split; [apply all_allowed|].
    unfold dist. consts. lia. }
  split; [lia|].
  destruct S as [[D Hmin]|[Hno _]]; [|exfalso; exact (Hno N1 IB)].
  pose proof (Hmin N1 IB) as Hle. unfold dist in D. consts.
  destruct (Z.eq_dec R N1) as [->|Hne]; [lia|].
  pose proof (cand_lt R N1 ltac:(lia) HN1 ltac:(lia)). lia.
Qed.

(** twelve times a note's microvolts against the exact twelfth of an octave *)
Lemma cand_twelfth : forall R, 0 <= R <= 131 ->
  1000000 * R - 44 <= 12 * cand R <= 1000000 * R.
Proof. intros R HR. unfold cand. consts. dlia. Qed.

Close Scope Z_scope.

(** the integer microvolt input against the real input *)
Lemma vin_real : forall x : f32, fin x -> 0 <= R32 x <= 10 ->
  1000000 * R32 x - 8 / 5 <= IZR (vin_microvolts x) <= 1000000 * R32 x + 3 / 5.
Proof.
  intros x Fx [H0 H10]. unfold vin_microvolts. rewrite OCT_val.
  destruct (fin_R32_of_Z_small 1000000) as [Vc Fc]; [lia|].
  set (X := R32 x * R32 (of_Z 1000000)).
  assert (HX : 0 <= X <= 10000000) by (subst X; rewrite Vc; nra).
  assert (Hb : 0 <= rnd X <= 10000000).
  { apply rnd_bounds; [apply fmt_0|apply (fmt_int 10000000); lia|exact HX]. }
  destruct (fmul_correct x (of_Z 1000000) Fx Fc) as [Vm Fm].
  { fold X. apply Rle_lt_trans with 10000000; [apply Rabs_le; lra|rewrite MAXF_val; lra]. }
  fold X in Vm. rewrite to_u32_fin by exact Fm. rewrite Vm.
  rewrite Ztrunc_floor by lra.
  pose proof (Zfloor_lb (rnd X)) as L1. pose proof (Zfloor_ub (rnd X)) as L2.
  assert (Z0 : (0 <= Zfloor (rnd X))%Z) by (apply Zfloor_lub; simpl; lra).
  assert (Z1 : (Zfloor (rnd X) <= 10000000)%Z).
  { apply le_IZR. lra. }
  replace (Z.max 0 (Z.min U32_MAX (Zfloor (rnd X)))) with (Zfloor (rnd X))
    by (unfold U32_MAX; lia).
  assert (A : Rabs X <= 10000000) by (apply Rabs_le; lra).
  apply rnd_err_bounds in A. pose proof ETA_small as He.
  assert (EX : X = 1000000 * R32 x) by (subst X; rewrite Vc; ring).
  rewrite <- EX. lra.
Qed.

Lemma chromatic_fraction : forall v,
  let c := snd (convert quant_new v) in
  fin (c_frac c) /\ - / 100000 <= R32 (c_frac c) < / 12 + / 100000.
Proof.
  intros v c. subst c. unfold quant_new, convert. cbn [q_cached q_allowed].
  rewrite in_window_fresh, andb_false_r. cbv zeta. cbn [snd c_frac].
  fold (stair_of (find_nearest_note 4095 (clamp_vin v))).
  destruct (chrom_note v) as [HR HV]. cbv zeta in HR, HV.
  set (R := find_nearest_note 4095 (clamp_vin v)) in *.
  set (V := vin_microvolts (clamp_vin v)) in *.
  destruct (clamp_vin_range v) as [Fx Bx].
  pose proof (vin_real (clamp_vin v) Fx Bx) as HX. fold V in HX.
  set (x := R32 (clamp_vin v)) in *.
  destruct (stair_facts R HR) as [Fs [_ Bs]].
  pose proof (stair_err R HR) as Es.
  set (s := R32 (stair_of R)) in *.
  pose proof (cand_twelfth R HR) as [C1 C2].
  apply IZR_le in C1. apply IZR_le in C2.
  rewrite minus_IZR, !mult_IZR in C1. rewrite !mult_IZR in C2.
  destruct HV as [V1 V2]. apply IZR_le in V1. apply IZR_le in V2.
  rewrite minus_IZR in V1. rewrite plus_IZR in V2.
  pose proof ETA_small as He.
  assert (D : - (9 / 1000000) <= x - s <= / 12 + / 1000000) by lra.
  assert (A : Rabs (x - s) <= 1) by (apply Rabs_le; lra).
  destruct (fsub_correct (clamp_vin v) (stair_of R) Fx Fs) as [Vf Ff].
  { apply no_overflow with 1; [apply (fmt_int 1); lia|rewrite MAXF_val; lra|exact A]. }
  split; [exact Ff|]. rewrite Vf. fold x s.
  apply rnd_err_bounds in A. lra.
Qed.
