(** * SharedProofs: generic facts about the shared building blocks

    - Model/PhaseAcc.v: the phase accumulator for arbitrary [TOT] (TOTAL_NUM_BITS) and
      [IDX] (NUM_INDEX_BITS): tick / rollover / reset / set_frequency / index / fraction /
      ramp.  The integer part holds for every width up to 32 bits; the real-valued part
      (ramp and fraction are exact quotients) for accumulators of at most 24 bits, which
      is where every value involved is exactly representable in binary32.
    - Model/Utils.v: [fabs], [is_almost], [linear_interp].

    Proofs/LfoProofs.v has the [TOT = 24], [IDX = 10] instances; its general helper
    lemmas about the float layer are reused here. *)

From Coq Require Import ZArith Reals Lia Lra Bool List.
From Flocq Require Import Core IEEE754.BinarySingleNaN.
From SU Require Import F32 F32Lemmas.
From SU.Model Require Import Utils PhaseAcc.
From SU.Proofs Require Import LfoProofs.

(** ** integer part, generic in TOT / IDX *)

Open Scope Z_scope.

Lemma land_mask_gen : forall k z, 0 <= k -> Z.land z (2 ^ k - 1) = z mod 2 ^ k.
Proof.
  intros k z Hk.
  replace (2 ^ k - 1) with (Z.ones k) by (rewrite Z.ones_equiv; lia).
  apply Z.land_ones. exact Hk.
Qed.

Lemma pow2_pos : forall k, 0 <= k -> 0 < 2 ^ k.
Proof. intros k Hk. apply Z.pow_pos_nonneg; lia. Qed.

Lemma pa_tick_acc_raw : forall TOT p, 0 <= TOT ->
  pa_acc (pa_tick TOT p) = ((pa_acc p + pa_inc p) mod 2 ^ 32) mod 2 ^ TOT.
Proof.
  intros TOT p HT. unfold pa_tick, mask. cbn [pa_acc].
  apply land_mask_gen. exact HT.
Qed.

Lemma pow2_32 : 2 ^ 32 = 4294967296.
Proof. vm_compute. reflexivity. Qed.

Lemma pow2_24 : 2 ^ 24 = 16777216.
Proof. vm_compute. reflexivity. Qed.

Lemma U32_MAX_val : U32_MAX = 4294967295.
Proof. reflexivity. Qed.

(** [pa_tick_ok] as an inequality (the two directions are kept as lemmas: unfolding
    [pa_tick_ok] and [U32_MAX] together inside a hypothesis makes [Qed] diverge) *)
Lemma pa_tick_ok_le : forall p, pa_tick_ok p = true -> pa_acc p + pa_inc p <= 4294967295.
Proof.
  intros p Hok. unfold pa_tick_ok in Hok. apply Z.leb_le in Hok.
  rewrite U32_MAX_val in Hok. exact Hok.
Qed.

Lemma pa_tick_ok_of_le : forall p, pa_acc p + pa_inc p <= 4294967295 -> pa_tick_ok p = true.
Proof.
  intros p H. unfold pa_tick_ok. apply Z.leb_le. rewrite U32_MAX_val. exact H.
Qed.

Lemma pa_tick_ok_small : forall p, 0 <= pa_acc p -> 0 <= pa_inc p -> pa_tick_ok p = true ->
  (pa_acc p + pa_inc p) mod 2 ^ 32 = pa_acc p + pa_inc p.
Proof.
  intros p Ha Hi Hok. apply pa_tick_ok_le in Hok.
  apply Z.mod_small. rewrite pow2_32. lia.
Qed.

Theorem pa_tick_acc_gen : forall TOT p, 0 <= TOT <= 32 -> 0 <= pa_acc p -> 0 <= pa_inc p ->
  pa_tick_ok p = true ->
  pa_acc (pa_tick TOT p) = (pa_acc p + pa_inc p) mod 2 ^ TOT.
Proof.
  intros TOT p HT Ha Hi Hok.
  rewrite pa_tick_acc_raw by lia.
  rewrite (pa_tick_ok_small p Ha Hi Hok). reflexivity.
Qed.

Theorem pa_tick_acc_range : forall TOT p, 0 <= TOT -> 0 <= pa_acc (pa_tick TOT p) < 2 ^ TOT.
Proof.
  intros TOT p HT. rewrite pa_tick_acc_raw by exact HT.
  apply Z.mod_pos_bound. apply pow2_pos. exact HT.
Qed.

Theorem pa_tick_last : forall TOT p,
  pa_last (pa_tick TOT p) = pa_acc (pa_tick TOT p) /\
  pa_inc (pa_tick TOT p) = pa_inc p /\
  pa_fs (pa_tick TOT p) = pa_fs p.
Proof. intros TOT p. repeat split. Qed.

Theorem pa_tick_rolled_gen : forall TOT p, 0 <= TOT <= 32 -> 0 <= pa_acc p < 2 ^ TOT ->
  pa_last p = pa_acc p -> 0 <= pa_inc p -> pa_tick_ok p = true ->
  pa_rolled (pa_tick TOT p) = pa_rolled p || (2 ^ TOT <=? pa_acc p + pa_inc p).
Proof.
  intros TOT p HT Ha Hl Hi Hok.
  assert (Hs : (pa_acc p + pa_inc p) mod 2 ^ 32 = pa_acc p + pa_inc p)
    by (apply pa_tick_ok_small; [lia|exact Hi|exact Hok]).
  assert (Hp := pow2_pos TOT ltac:(lia)).
  unfold pa_tick, mask. cbn [pa_rolled]. rewrite Hs, Hl.
  rewrite land_mask_gen by lia.
  set (s := pa_acc p + pa_inc p) in *.
  destruct (Z.leb_spec (2 ^ TOT) s) as [Hc|Hc].
  - assert (E : (2 ^ TOT - 1 <? s) = true) by (apply Z.ltb_lt; lia).
    rewrite E. cbn [orb]. rewrite orb_true_r. reflexivity.
  - assert (E : (2 ^ TOT - 1 <? s) = false) by (apply Z.ltb_ge; lia).
    rewrite E. cbn [orb].
    rewrite (Z.mod_small s (2 ^ TOT)) by (unfold s; lia).
    assert (E2 : (s <? pa_acc p) = false) by (apply Z.ltb_ge; unfold s; lia).
    rewrite E2. rewrite orb_false_r. reflexivity.
Qed.

Lemma pa_ticks_inc : forall TOT n p, pa_inc (Nat.iter n (pa_tick TOT) p) = pa_inc p.
Proof.
  intros TOT n p. induction n as [|n IH].
  - reflexivity.
  - change (Nat.iter (S n) (pa_tick TOT) p) with (pa_tick TOT (Nat.iter n (pa_tick TOT) p)).
    exact IH.
Qed.

Theorem pa_ticks_acc_gen : forall TOT n p, 0 <= TOT <= 31 -> 0 <= pa_acc p < 2 ^ TOT ->
  0 <= pa_inc p <= 2 ^ 32 - 2 ^ TOT ->
  pa_acc (Nat.iter n (pa_tick TOT) p) = (pa_acc p + Z.of_nat n * pa_inc p) mod 2 ^ TOT.
Proof.
  intros TOT n p HT Ha Hi.
  assert (Hp := pow2_pos TOT ltac:(lia)).
  induction n as [|n IH].
  - cbn [Nat.iter nat_rect]. rewrite Z.mod_small; [lia|lia].
  - change (Nat.iter (S n) (pa_tick TOT) p) with (pa_tick TOT (Nat.iter n (pa_tick TOT) p)).
    set (q := Nat.iter n (pa_tick TOT) p) in *.
    assert (Hqi : pa_inc q = pa_inc p) by (apply pa_ticks_inc).
    assert (Hqa : 0 <= pa_acc q < 2 ^ TOT).
    { rewrite IH. apply Z.mod_pos_bound. exact Hp. }
    assert (Hok : pa_tick_ok q = true).
    { apply pa_tick_ok_of_le. rewrite Hqi. rewrite pow2_32 in Hi. lia. }
    rewrite pa_tick_acc_gen; [|lia|lia|rewrite Hqi; lia|exact Hok].
    rewrite Hqi, IH. rewrite Z.add_mod_idemp_l by lia. f_equal. lia.
Qed.

Theorem pa_take_rolled_clears : forall p,
  fst (pa_take_rolled p) = pa_rolled p /\
  pa_rolled (snd (pa_take_rolled p)) = false /\
  pa_acc (snd (pa_take_rolled p)) = pa_acc p /\
  pa_inc (snd (pa_take_rolled p)) = pa_inc p /\
  pa_last (snd (pa_take_rolled p)) = pa_last p.
Proof. intros p. repeat split. Qed.

Theorem pa_reset_spec : forall p,
  pa_acc (pa_reset p) = 0 /\ pa_last (pa_reset p) = 0 /\ pa_rolled (pa_reset p) = false /\
  pa_inc (pa_reset p) = pa_inc p /\ pa_fs (pa_reset p) = pa_fs p.
Proof. intros p. repeat split. Qed.

Theorem pa_set_frequency_keeps : forall TOT p f,
  pa_acc (pa_set_frequency TOT p f) = pa_acc p /\
  pa_last (pa_set_frequency TOT p f) = pa_last p /\
  pa_rolled (pa_set_frequency TOT p f) = pa_rolled p /\
  0 <= pa_inc (pa_set_frequency TOT p f) <= U32_MAX.
Proof.
  intros TOT p f. split; [reflexivity|]. split; [reflexivity|]. split; [reflexivity|].
  unfold pa_set_frequency. cbn [pa_inc]. apply to_u32_range.
Qed.

Lemma pa_index_div : forall TOT IDX p, 0 <= IDX <= TOT ->
  pa_index TOT IDX p = pa_acc p / 2 ^ (TOT - IDX).
Proof.
  intros TOT IDX p H. unfold pa_index, frac_bits. apply Z.shiftr_div_pow2. lia.
Qed.

Lemma pow2_split : forall TOT IDX, 0 <= IDX <= TOT -> 2 ^ TOT = 2 ^ IDX * 2 ^ (TOT - IDX).
Proof.
  intros TOT IDX H. rewrite <- Z.pow_add_r by lia. f_equal. lia.
Qed.

Theorem pa_index_range : forall TOT IDX p, 0 <= IDX <= TOT -> 0 <= pa_acc p < 2 ^ TOT ->
  0 <= pa_index TOT IDX p < 2 ^ IDX.
Proof.
  intros TOT IDX p H Ha. rewrite pa_index_div by exact H.
  assert (Hk := pow2_pos (TOT - IDX) ltac:(lia)).
  split.
  - apply Z.div_pos; lia.
  - apply Z.div_lt_upper_bound; [exact Hk|].
    rewrite Z.mul_comm, <- pow2_split by exact H. lia.
Qed.

Theorem pa_acc_split : forall TOT IDX p, 0 <= IDX <= TOT -> 0 <= pa_acc p ->
  pa_acc p = pa_index TOT IDX p * 2 ^ (TOT - IDX) + Z.land (pa_acc p) (2 ^ (TOT - IDX) - 1) /\
  0 <= Z.land (pa_acc p) (2 ^ (TOT - IDX) - 1) < 2 ^ (TOT - IDX).
Proof.
  intros TOT IDX p H Ha. rewrite pa_index_div by exact H.
  rewrite land_mask_gen by lia.
  assert (Hk := pow2_pos (TOT - IDX) ltac:(lia)).
  split.
  - rewrite Z.mul_comm. apply Z.div_mod. lia.
  - apply Z.mod_pos_bound. exact Hk.
Qed.

(** ** real-valued part, for accumulators of at most 24 bits (exact in binary32) *)

Open Scope R_scope.

Lemma IZR_pow2 : forall k : Z, (0 <= k)%Z -> IZR (2 ^ k) = bpow radix2 k.
Proof. intros k Hk. symmetry. apply bpow2_pos. exact Hk. Qed.

Lemma IZR_pow2_pos : forall k : Z, (0 <= k)%Z -> 0 < IZR (2 ^ k).
Proof. intros k Hk. rewrite IZR_pow2 by exact Hk. apply bpow_gt_0. Qed.

(** [m / 2^k] is representable for [|m| <= 2^24], [0 <= k <= 149] *)
Lemma fmt_div_pow2_0 : forall (m k : Z), (Z.abs m <= 16777216)%Z -> (0 <= k <= 149)%Z ->
  fmt (IZR m / IZR (2 ^ k)).
Proof.
  intros m k Hm Hk. unfold Rdiv. rewrite IZR_pow2 by lia. rewrite <- bpow_opp.
  apply fmt_mant; lia.
Qed.

Lemma pow2_le_24 : forall k : Z, (0 <= k <= 24)%Z -> (0 < 2 ^ k <= 16777216)%Z.
Proof.
  intros k Hk. split.
  - apply pow2_pos. lia.
  - rewrite <- pow2_24. apply Z.pow_le_mono_r; lia.
Qed.

(** the exact quotient [m / 2^k] of a [k]-bit number *)
Lemma quot_exact : forall (m k : Z), (0 <= k <= 24)%Z -> (0 <= m < 2 ^ k)%Z ->
  fin (fdiv (of_Z m) (of_Z (2 ^ k))) /\
  R32 (fdiv (of_Z m) (of_Z (2 ^ k))) = IZR m / IZR (2 ^ k) /\
  0 <= R32 (fdiv (of_Z m) (of_Z (2 ^ k))) < 1.
Proof.
  intros m k Hk Hm.
  assert (Hp := pow2_le_24 k Hk).
  assert (HK := IZR_pow2_pos k ltac:(lia)).
  assert (Hm0 : 0 <= IZR m) by (apply (IZR_le 0); lia).
  assert (Hm1 : IZR m < IZR (2 ^ k)) by (apply IZR_lt; lia).
  assert (Hq : 0 <= IZR m / IZR (2 ^ k) < 1).
  { split.
    - apply Rmult_le_pos; [exact Hm0|]. apply Rlt_le, Rinv_0_lt_compat, HK.
    - apply (Rmult_lt_reg_r (IZR (2 ^ k))); [exact HK|].
      unfold Rdiv. rewrite Rmult_assoc, Rinv_l by lra. lra. }
  destruct (fin_R32_of_Z_small m) as [Va Fa]; [lia|].
  destruct (fin_R32_of_Z_small (2 ^ k)) as [Vc Fc]; [lia|].
  destruct (fdiv_exact _ _ Fa Fc) as [V F].
  - rewrite Vc. lra.
  - rewrite Va, Vc. apply fmt_div_pow2_0; lia.
  - rewrite Va, Vc. apply lt_MAXF, Rabs_le. lra.
  - rewrite Va, Vc in V. split; [exact F|]. split; [exact V|]. rewrite V. exact Hq.
Qed.

Theorem pa_ramp_exact_gen : forall TOT p, (0 <= TOT <= 24)%Z -> (0 <= pa_acc p < 2 ^ TOT)%Z ->
  fin (pa_ramp TOT p) /\
  R32 (pa_ramp TOT p) = IZR (pa_acc p) / IZR (2 ^ TOT) /\
  0 <= R32 (pa_ramp TOT p) < 1.
Proof.
  intros TOT p HT Ha. unfold pa_ramp, two_tot. apply quot_exact; assumption.
Qed.

Theorem pa_fraction_exact_gen : forall TOT IDX p, (0 <= IDX <= TOT)%Z -> (TOT <= 24)%Z ->
  (0 <= pa_acc p < 2 ^ TOT)%Z ->
  fin (pa_fraction TOT IDX p) /\
  R32 (pa_fraction TOT IDX p)
    = IZR (Z.land (pa_acc p) (2 ^ (TOT - IDX) - 1)) / IZR (2 ^ (TOT - IDX)) /\
  0 <= R32 (pa_fraction TOT IDX p) < 1.
Proof.
  intros TOT IDX p HI HT Ha. unfold pa_fraction, frac_bits.
  apply quot_exact; [lia|].
  apply (pa_acc_split TOT IDX p HI). lia.
Qed.

Theorem pa_ramp_index_fraction : forall TOT IDX p, (0 <= IDX <= TOT)%Z -> (TOT <= 24)%Z ->
  (0 <= pa_acc p < 2 ^ TOT)%Z ->
  R32 (pa_ramp TOT p) * IZR (2 ^ IDX) = IZR (pa_index TOT IDX p) + R32 (pa_fraction TOT IDX p).
Proof.
  intros TOT IDX p HI HT Ha.
  destruct (pa_ramp_exact_gen TOT p ltac:(lia) Ha) as [_ [Vr _]].
  destruct (pa_fraction_exact_gen TOT IDX p HI HT Ha) as [_ [Vf _]].
  destruct (pa_acc_split TOT IDX p HI ltac:(lia)) as [Es _].
  rewrite Vr, Vf.
  set (lo := Z.land (pa_acc p) (2 ^ (TOT - IDX) - 1)) in *.
  set (ix := pa_index TOT IDX p) in *.
  assert (HA := IZR_pow2_pos IDX ltac:(lia)).
  assert (HK := IZR_pow2_pos (TOT - IDX) ltac:(lia)).
  rewrite (pow2_split TOT IDX HI), mult_IZR.
  rewrite Es at 1. rewrite plus_IZR, mult_IZR.
  field. split; lra.
Qed.

(** ** utils *)

Theorem fabs_spec : forall v : f32, fin v -> fin (fabs v) /\ R32 (fabs v) = Rabs (R32 v).
Proof.
  intros v Fv. unfold fabs. destruct (flt v f_0) eqn:E.
  - apply flt_true in E; [|exact Fv|exact fin_f_0]. rewrite R32_f_0 in E.
    split.
    + apply fin_fneg. exact Fv.
    + rewrite R32_fneg. rewrite Rabs_left; lra.
  - apply flt_false in E; [|exact Fv|exact fin_f_0]. rewrite R32_f_0 in E.
    split; [exact Fv|]. rewrite Rabs_pos_eq; lra.
Qed.

Theorem fabs_nan : fabs B754_nan = B754_nan.
Proof. reflexivity. Qed.

Theorem fabs_infinity : forall s, fabs (B754_infinity s) = B754_infinity false.
Proof. intros s. destruct s; reflexivity. Qed.

Lemma MAXF_pos : 0 < MAXF.
Proof. unfold MAXF. apply bpow_gt_0. Qed.

(** when the rounded difference reaches the threshold, the subtraction gives an infinity *)
Lemma fsub_overflow : forall a b : f32, fin a -> fin b ->
  MAXF <= Rabs (rnd (R32 a - R32 b)) -> exists s, fsub a b = B754_infinity s.
Proof.
  intros a b Fa Fb Hov. unfold fsub, R32, fin in *.
  generalize (Bminus_correct prec emax Hprec Hmax mode_NE a b Fa Fb).
  rewrite fexp_is_fexp32. change (round radix2 fexp32 (round_mode mode_NE)) with rnd.
  change (bpow radix2 emax) with MAXF.
  rewrite Rlt_bool_false by exact Hov. intros [H1 _].
  unfold binary_overflow, overflow_to_inf in H1.
  destruct (Bminus mode_NE a b) as [s|s| |s m e Hb]; cbn [B2SF] in H1; try discriminate H1.
  exists s. reflexivity.
Qed.

Lemma fle_inf_l : forall e : f32, fin e -> fle (B754_infinity false) e = false.
Proof.
  intros [s|s| |s m e H] Fe; unfold fin in Fe; cbn in Fe; try discriminate Fe; reflexivity.
Qed.

(** the comparison made by [is_almost], without any side condition: when the subtraction
    overflows both sides are false *)
Lemma is_almost_spec_total : forall v1 v2 eps : f32, fin v1 -> fin v2 -> fin eps ->
  (is_almost v1 v2 eps = true <-> Rabs (rnd (R32 v1 - R32 v2)) <= R32 eps).
Proof.
  intros v1 v2 eps F1 F2 Fe. unfold is_almost.
  destruct (Rlt_dec (Rabs (rnd (R32 v1 - R32 v2))) MAXF) as [Hlt|Hge].
  - destruct (fsub_correct v1 v2 F1 F2 Hlt) as [Vd Fd].
    destruct (fabs_spec _ Fd) as [Fa Va].
    rewrite fle_true by assumption. rewrite Va, Vd. reflexivity.
  - apply Rnot_lt_le in Hge.
    destruct (fsub_overflow v1 v2 F1 F2 Hge) as [s Es].
    rewrite Es, fabs_infinity, fle_inf_l by exact Fe.
    assert (He := R32_lt_MAXF eps). assert (Hle := Rle_abs (R32 eps)).
    split; [discriminate|]. intros H. lra.
Qed.

Theorem is_almost_spec : forall v1 v2 eps : f32, fin v1 -> fin v2 -> fin eps ->
  Rabs (R32 v1 - R32 v2) < MAXF ->
  (is_almost v1 v2 eps = true <-> Rabs (rnd (R32 v1 - R32 v2)) <= R32 eps).
Proof. intros v1 v2 eps F1 F2 Fe _. apply is_almost_spec_total; assumption. Qed.

Lemma is_almost_sym_total : forall v1 v2 eps : f32, fin v1 -> fin v2 -> fin eps ->
  is_almost v1 v2 eps = is_almost v2 v1 eps.
Proof.
  intros v1 v2 eps F1 F2 Fe.
  assert (H12 := is_almost_spec_total v1 v2 eps F1 F2 Fe).
  assert (H21 := is_almost_spec_total v2 v1 eps F2 F1 Fe).
  replace (R32 v2 - R32 v1) with (- (R32 v1 - R32 v2)) in H21 by ring.
  rewrite rnd_opp, Rabs_Ropp in H21.
  destruct (is_almost v1 v2 eps); destruct (is_almost v2 v1 eps); try reflexivity.
  - symmetry. apply H21, H12. reflexivity.
  - apply H12, H21. reflexivity.
Qed.

Theorem is_almost_sym : forall v1 v2 eps : f32, fin v1 -> fin v2 -> fin eps ->
  Rabs (R32 v1 - R32 v2) < MAXF ->
  is_almost v1 v2 eps = is_almost v2 v1 eps.
Proof. intros v1 v2 eps F1 F2 Fe _. apply is_almost_sym_total; assumption. Qed.

Lemma fsub_nan_l : forall v : f32, fsub B754_nan v = B754_nan.
Proof. intros [s|s| |s m e H]; reflexivity. Qed.

Lemma fsub_nan_r : forall v : f32, fsub v B754_nan = B754_nan.
Proof. intros [s|s| |s m e H]; reflexivity. Qed.

Lemma fle_nan_l : forall e : f32, fle B754_nan e = false.
Proof. intros e. reflexivity. Qed.

Theorem is_almost_nan : forall v eps,
  is_almost B754_nan v eps = false /\ is_almost v B754_nan eps = false.
Proof.
  intros v eps. unfold is_almost.
  rewrite fsub_nan_l, fsub_nan_r, fabs_nan, fle_nan_l. split; reflexivity.
Qed.

(** *** linear interpolation *)

(** The statement with the side condition [Rabs (R32 y1 - R32 y0) < MAXF] is false: the
    difference can be below the threshold and still round up to it.  Then [y1 - y0] is
    [+inf], [inf * 0] is NaN and so is the result. *)
Definition cx_y0 : f32 := of_bits 4076863488.  (* -2^103 *)
Definition cx_y1 : f32 := of_bits 2139095039.  (* f32::MAX = 2^128 - 2^104 *)

Lemma linear_interp_endpoints_counterexample :
  fin cx_y0 /\ fin cx_y1 /\ Rabs (R32 cx_y1 - R32 cx_y0) < MAXF /\
  linear_interp cx_y0 cx_y1 f_0 = B754_nan /\
  R32 (linear_interp cx_y0 cx_y1 f_0) <> R32 cx_y0.
Proof.
  split; [fin_const|]. split; [fin_const|].
  assert (E : linear_interp cx_y0 cx_y1 f_0 = B754_nan) by (vm_compute; reflexivity).
  split; [|split; [exact E|]].
  - rewrite MAXF_val. r32_const cx_y1. r32_const cx_y0. apply Rabs_lt. lra.
  - rewrite E. r32_const cx_y0. unfold R32. cbn [B2R]. lra.
Qed.

(** corrected side condition: the one of [fsub_correct] (the rounded difference is below the
    threshold) *)
Theorem linear_interp_endpoints : forall y0 y1 : f32, fin y0 -> fin y1 ->
  Rabs (rnd (R32 y1 - R32 y0)) < MAXF ->
  R32 (linear_interp y0 y1 f_0) = R32 y0 /\ fin (linear_interp y0 y1 f_0).
Proof.
  intros y0 y1 F0 F1 Hlt. unfold linear_interp.
  destruct (fsub_correct y1 y0 F1 F0 Hlt) as [Vd Fd].
  destruct (fmul_correct _ f_0 Fd fin_f_0) as [Vp Fp].
  { rewrite R32_f_0, Rmult_0_r, rnd_0, Rabs_R0. exact MAXF_pos. }
  rewrite R32_f_0, Rmult_0_r, rnd_0 in Vp.
  destruct (fadd_correct y0 _ F0 Fp) as [Vs Fs].
  { rewrite Vp, Rplus_0_r, rnd_id by apply fmt_R32. apply R32_lt_MAXF. }
  rewrite Vp, Rplus_0_r, rnd_id in Vs by apply fmt_R32.
  split; assumption.
Qed.

(** absolute error of one rounding of a value of magnitude at most [2^e]: half an ulp of
    the binade below [2^e] *)
Lemma rnd_abs_err : forall x (e : Z), (-125 <= e)%Z -> Rabs x <= bpow radix2 e ->
  Rabs (rnd x - x) <= / 2 * bpow radix2 (e - 24).
Proof.
  intros x e He Hx.
  assert (Hpos : 0 <= / 2 * bpow radix2 (e - 24)).
  { assert (H := bpow_gt_0 radix2 (e - 24)). lra. }
  destruct (Req_dec x 0) as [Ez|Nz].
  - rewrite Ez, rnd_0, Rminus_0_r, Rabs_R0. exact Hpos.
  - destruct Hx as [Hlt|Heq].
    + apply Rle_trans with (/ 2 * ulp radix2 fexp32 x).
      * unfold rnd. apply error_le_half_ulp. auto with typeclass_instances.
      * apply Rmult_le_compat_l; [lra|].
        rewrite ulp_neq_0 by exact Nz. apply bpow_le. unfold cexp, FLT_exp.
        assert (Hm : (mag radix2 x <= e)%Z) by (apply mag_le_bpow; assumption).
        lia.
    + assert (Hf : fmt x).
      { apply generic_format_abs_inv. rewrite Heq. apply fmt_bpow. lia. }
      rewrite rnd_id by exact Hf. rewrite Rminus_diag_eq by reflexivity.
      rewrite Rabs_R0. exact Hpos.
Qed.

Lemma bpow_m24 : bpow radix2 (-24) = / 16777216.
Proof.
  change (-24)%Z with (- (24))%Z. rewrite (bpow2_neg 24) by lia.
  replace (2 ^ 24)%Z with 16777216%Z by (vm_compute; reflexivity). reflexivity.
Qed.
Lemma bpow_m23 : bpow radix2 (-23) = / 8388608.
Proof.
  change (-23)%Z with (- (23))%Z. rewrite (bpow2_neg 23) by lia.
  replace (2 ^ 23)%Z with 8388608%Z by (vm_compute; reflexivity). reflexivity.
Qed.
Lemma bpow_m22 : bpow radix2 (-22) = / 4194304.
Proof.
  change (-22)%Z with (- (22))%Z. rewrite (bpow2_neg 22) by lia.
  replace (2 ^ 22)%Z with 4194304%Z by (vm_compute; reflexivity). reflexivity.
Qed.

Theorem linear_interp_error : forall y0 y1 fr : f32, fin y0 -> fin y1 -> fin fr ->
  Rabs (R32 y0) <= 1 -> Rabs (R32 y1) <= 1 -> 0 <= R32 fr <= 1 ->
  fin (linear_interp y0 y1 fr) /\
  Rabs (R32 (linear_interp y0 y1 fr) - (R32 y0 + (R32 y1 - R32 y0) * R32 fr))
    <= 4 * bpow radix2 (-24).
Proof.
  intros y0 y1 fr F0 F1 Ft B0 B1 Bt.
  apply Rabs_le_inv in B0. apply Rabs_le_inv in B1.
  destruct (interp_value y0 y1 fr F0 F1 Ft B0 B1 Bt) as [F V].
  split; [exact F|]. rewrite V.
  set (a := R32 y0) in *. set (b := R32 y1) in *. set (t := R32 fr) in *.
  assert (f2 : fmt 2) by (apply (fmt_int 2); lia).
  assert (fm2 : fmt (-2)) by (apply (fmt_int (-2)); lia).
  (* first rounding: the difference *)
  assert (E1 : Rabs (rnd (b - a) - (b - a)) <= / 2 * bpow radix2 (1 - 24)).
  { apply rnd_abs_err; [lia|]. change (bpow radix2 1) with 2. apply Rabs_le. lra. }
  assert (HD : -2 <= rnd (b - a) <= 2) by (apply rnd_bounds; auto; lra).
  set (D := rnd (b - a)) in *.
  (* second rounding: the product *)
  assert (HDt : -2 <= D * t <= 2) by (split; nra).
  assert (E2 : Rabs (rnd (D * t) - D * t) <= / 2 * bpow radix2 (1 - 24)).
  { apply rnd_abs_err; [lia|]. change (bpow radix2 1) with 2. apply Rabs_le. lra. }
  assert (HP : -2 <= rnd (D * t) <= 2) by (apply rnd_bounds; auto; lra).
  set (P := rnd (D * t)) in *.
  (* third rounding: the sum *)
  assert (E3 : Rabs (rnd (a + P) - (a + P)) <= / 2 * bpow radix2 (2 - 24)).
  { apply rnd_abs_err; [lia|]. change (bpow radix2 2) with 4. apply Rabs_le. lra. }
  change (1 - 24)%Z with (-23)%Z in E1, E2. change (2 - 24)%Z with (-22)%Z in E3.
  rewrite bpow_m23 in E1, E2. rewrite bpow_m22 in E3. rewrite bpow_m24.
  apply Rabs_le_inv in E1. apply Rabs_le_inv in E2. apply Rabs_le_inv in E3.
  set (e1 := D - (b - a)) in *.
  assert (E1t : - (/ 2 * / 8388608) <= e1 * t <= / 2 * / 8388608) by (split; nra).
  replace (rnd (a + P) - (a + (b - a) * t))
    with ((rnd (a + P) - (a + P)) + (P - D * t) + e1 * t) by (unfold e1; ring).
  apply Rabs_le. lra.
Qed.
