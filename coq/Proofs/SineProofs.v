(** * SineProofs: proofs behind [C10_sine_close] (Props/C10.v) and Props/C12.v.

    - [sine_close]: the interpolated table sine is within 0.0125 of the real sine.
      Per table cell the exact interpolation is within 0.0124 of the sine (1024 calls to
      [interval], SineCells0..7.v); the three f32 roundings of the interpolation add at
      most 2^-24.
    - [sine_continuous], [triangle_continuous], [sine_wrap]: continuity between
      consecutive ticks, including across the wrap of the phase counter.

    The table is never copied: all facts about it are recomputed from gen/Tables.v
    ([tblQ] in SineBase.v). *)

From Coq Require Import ZArith Reals Lia Lra Bool List Machin.
From Flocq Require Import Core IEEE754.BinarySingleNaN Relative.
From Interval Require Import Tactic.
From SU Require Import F32 F32Lemmas.
From SU.gen Require Import Consts.
From SU.Model Require Import Utils PhaseAcc Tables Lfo.
From SU.Proofs Require Import LfoProofs SineBase.
From SU.Proofs Require Import SineCells0 SineCells1 SineCells2 SineCells3.
From SU.Proofs Require Import SineCells4 SineCells5 SineCells6 SineCells7.
Open Scope R_scope.

(** ** all 1024 cells *)

Lemma all_cells : forall i, (0 <= i < 1024)%Z -> scell_ok i.
Proof.
  apply (range_join _ 0 128 1024 sine_cells_0).
  apply (range_join _ 128 256 1024 sine_cells_1).
  apply (range_join _ 256 384 1024 sine_cells_2).
  apply (range_join _ 384 512 1024 sine_cells_3).
  apply (range_join _ 512 640 1024 sine_cells_4).
  apply (range_join _ 640 768 1024 sine_cells_5).
  apply (range_join _ 768 896 1024 sine_cells_6).
  exact sine_cells_7.
Qed.

(** ** exact sweep over the table: entries in [-1, 1], neighbours at most 0.006148 apart *)

Definition qcell_ok (i : Z) : bool :=
  match tblQ i, tblQ ((i + 1) mod 1024) with
  | Some (n0, d0), Some (n1, d1) =>
      (Z.abs n0 <=? d0)%Z &&
      (Z.abs (n1 * d0 - n0 * d1) * 1000000 <=? 6148 * (d0 * d1))%Z
  | _, _ => false
  end.

Lemma qcells_ok : forallb qcell_ok (map Z.of_nat (seq 0 1024)) = true.
Proof. vm_compute; reflexivity. Qed.

Lemma div_abs_le : forall n d q : R, 0 < d -> Rabs n <= q * d -> Rabs (n / d) <= q.
Proof.
  intros n d q Hd H. apply Rabs_le_inv in H. apply Rabs_le. split.
  - apply Rmult_le_reg_r with d; [exact Hd|].
    replace (n / d * d) with n by (field; lra). lra.
  - apply Rmult_le_reg_r with d; [exact Hd|].
    replace (n / d * d) with n by (field; lra). lra.
Qed.

Lemma cell_facts : forall i, (0 <= i < 1024)%Z ->
  fin (tbl sine_table i) /\ fin (tbl sine_table ((i + 1) mod 1024)) /\
  Rabs (cT i) <= 1 /\ Rabs (cT ((i + 1) mod 1024) - cT i) <= 0.006148.
Proof.
  intros i Hi.
  assert (Hc : qcell_ok i = true).
  { apply (proj1 (forallb_forall _ _) qcells_ok). apply in_map_iff.
    exists (Z.to_nat i). split; [lia|]. apply in_seq. lia. }
  unfold qcell_ok in Hc.
  destruct (tblQ i) as [[n0 d0]|] eqn:E0; [|discriminate Hc].
  destruct (tblQ ((i + 1) mod 1024)) as [[n1 d1]|] eqn:E1; [|discriminate Hc].
  apply andb_true_iff in Hc. destruct Hc as [Hb Hd].
  apply Z.leb_le in Hb. apply Z.leb_le in Hd.
  destruct (tblQ_correct _ _ _ E0) as [F0 [P0 V0]].
  destruct (tblQ_correct _ _ _ E1) as [F1 [P1 V1]].
  split; [exact F0|]. split; [exact F1|].
  rewrite V0, V1.
  assert (R0 : 0 < IZR d0) by (apply (IZR_lt 0); exact P0).
  assert (R1 : 0 < IZR d1) by (apply (IZR_lt 0); exact P1).
  split.
  - apply div_abs_le; [exact R0|]. rewrite <- abs_IZR. rewrite Rmult_1_l. now apply IZR_le.
  - replace (IZR n1 / IZR d1 - IZR n0 / IZR d0)
      with ((IZR n1 * IZR d0 - IZR n0 * IZR d1) / (IZR d0 * IZR d1)) by (field; lra).
    apply div_abs_le; [apply Rmult_lt_0_compat; assumption|].
    apply IZR_le in Hd. rewrite !mult_IZR, abs_IZR, minus_IZR, !mult_IZR in Hd. lra.
Qed.

(** ** the rounding error of one interpolation *)

Notation eta150 := (/ 1427247692705959881058285969449495136382746624).

Lemma rnd_abs_err : forall x b, Rabs x <= b ->
  Rabs (rnd x - x) <= b * / 16777216 + eta150.
Proof.
  intros x b Hb. destruct (rnd_error x) as [eps [eta [He [Ht Hr]]]].
  replace (rnd x - x) with (x * eps + eta) by (rewrite Hr; ring).
  apply Rle_trans with (1 := Rabs_triang _ _).
  apply Rplus_le_compat; [|exact Ht].
  rewrite Rabs_mult. apply Rmult_le_compat; try apply Rabs_pos; assumption.
Qed.

(** rounding a number of magnitude at most [1 + d] (d small): half an ulp of the binade
    below 1, or the distance to +-1 *)
Lemma rnd_err_near_unit : forall s d, 0 <= d -> Rabs s <= 1 + d ->
  Rabs (rnd s - s) <= Rmax (/ 33554432) d.
Proof.
  intros s d Hd Hs.
  destruct (Rlt_or_le (Rabs s) 1) as [Hlt|Hge].
  - apply Rle_trans with (2 := Rmax_l _ _).
    destruct (Req_dec s 0) as [->|Hnz].
    { rewrite rnd_0. replace (0 - 0) with 0 by ring. rewrite Rabs_R0. lra. }
    assert (Hu : ulp radix2 fexp32 s <= bpow radix2 (-24)).
    { rewrite ulp_neq_0 by exact Hnz. apply bpow_le. unfold cexp, FLT_exp.
      assert (Hm : (mag radix2 s <= 0)%Z).
      { apply mag_le_bpow; [exact Hnz|]. change (bpow radix2 0) with 1. exact Hlt. }
      lia. }
    assert (He := error_le_half_ulp radix2 fexp32 (fun n => negb (Z.even n)) s).
    change (round radix2 fexp32 (Znearest (fun n => negb (Z.even n))) s) with (rnd s) in He.
    change (-24)%Z with (- (24))%Z in Hu. rewrite (bpow2_neg 24) in Hu by lia.
    change (2 ^ 24)%Z with 16777216%Z in Hu. lra.
  - apply Rle_trans with (2 := Rmax_r _ _).
    assert (HN : Rnd_N_pt fmt s (rnd s)).
    { apply round_N_pt. auto with typeclass_instances. }
    destruct HN as [_ HN].
    assert (f1 : fmt 1) by (apply (fmt_int 1); lia).
    assert (fm1 : fmt (-1)) by (apply (fmt_int (-1)); lia).
    destruct (Rle_or_lt 0 s) as [Hp|Hn].
    + rewrite Rabs_pos_eq in Hs, Hge by exact Hp.
      apply Rle_trans with (1 := HN 1 f1). rewrite Rabs_left1; lra.
    + rewrite Rabs_left in Hs, Hge by exact Hn.
      apply Rle_trans with (1 := HN (-1) fm1). rewrite Rabs_pos_eq; lra.
Qed.

Lemma mul_frac_bound : forall e f E, Rabs e <= E -> 0 <= f <= 1 -> Rabs (e * f) <= E.
Proof.
  intros e f E He Hf. rewrite Rabs_mult, (Rabs_pos_eq f) by lra.
  assert (H0 := Rabs_pos e).
  apply Rle_trans with (Rabs e * 1); [|lra].
  apply Rmult_le_compat_l; lra.
Qed.

Lemma convex_unit : forall y0 y1 f, Rabs y0 <= 1 -> Rabs y1 <= 1 -> 0 <= f <= 1 ->
  Rabs (y0 + (y1 - y0) * f) <= 1.
Proof.
  intros y0 y1 f H0 H1 Hf. apply Rabs_le_inv in H0. apply Rabs_le_inv in H1.
  replace (y0 + (y1 - y0) * f) with (y0 * (1 - f) + y1 * f) by ring.
  assert (A1 : - (1 - f) <= y0 * (1 - f) <= 1 - f) by (split; nra).
  assert (A2 : - f <= y1 * f <= f) by (split; nra).
  apply Rabs_le. lra.
Qed.

(** three roundings: at most 2^-24 away from the exact interpolation *)
Lemma interp_err : forall y0 y1 f, Rabs y0 <= 1 -> Rabs y1 <= 1 ->
  Rabs (y1 - y0) <= 0.006148 -> 0 <= f <= 1 ->
  Rabs (rnd (y0 + rnd (rnd (y1 - y0) * f)) - (y0 + (y1 - y0) * f)) <= / 16777216.
Proof.
  intros y0 y1 f H0 H1 Hx Hf.
  set (x := y1 - y0) in *.
  assert (E1 := rnd_abs_err x _ Hx).
  set (e1 := rnd x - x) in *.
  assert (ED : rnd x = x + e1) by (unfold e1; ring).
  assert (HD : Rabs (rnd x * f) <= 0.0062).
  { apply mul_frac_bound; [|exact Hf]. rewrite ED.
    apply Rle_trans with (1 := Rabs_triang _ _). lra. }
  assert (E2 := rnd_abs_err _ _ HD).
  set (e2 := rnd (rnd x * f) - rnd x * f) in *.
  assert (EP : rnd (rnd x * f) = x * f + e1 * f + e2) by (unfold e2; rewrite ED; ring).
  rewrite EP.
  assert (E1f : Rabs (e1 * f) <= 0.006148 * / 16777216 + eta150)
    by (apply mul_frac_bound; assumption).
  assert (HP := convex_unit y0 y1 f H0 H1 Hf). fold x in HP.
  set (P := y0 + x * f) in *.
  set (s := y0 + (x * f + e1 * f + e2)).
  assert (Es : s = P + e1 * f + e2) by (unfold s, P; ring).
  set (d := 0.0124 * / 16777216 + 2 * eta150).
  assert (Hs : Rabs s <= 1 + d).
  { rewrite Es. apply Rle_trans with (1 := Rabs_triang _ _).
    apply Rle_trans with (Rabs P + Rabs (e1 * f) + Rabs e2).
    - apply Rplus_le_compat_r. apply Rabs_triang.
    - unfold d. lra. }
  assert (E3 := rnd_err_near_unit s d ltac:(unfold d; lra) Hs).
  rewrite Rmax_left in E3 by (unfold d; lra).
  replace (rnd s - P) with ((rnd s - s) + e1 * f + e2) by (rewrite Es; ring).
  apply Rle_trans with (1 := Rabs_triang _ _).
  apply Rle_trans with (Rabs (rnd s - s) + Rabs (e1 * f) + Rabs e2).
  - apply Rplus_le_compat_r. apply Rabs_triang.
  - lra.
Qed.

(** ** the exact piecewise-linear curve through the table *)

(** fraction = (acc mod 2^14) / 2^14, exactly *)
Lemma fraction_value : forall l, (0 <= pa_acc l < 16777216)%Z ->
  fin (pa_fraction LTOT LIDX l) /\
  R32 (pa_fraction LTOT LIDX l) = IZR (pa_acc l mod 16384) / 16384.
Proof.
  intros l Ha. unfold pa_fraction. rewrite frac_bits_val.
  change (2 ^ 14)%Z with 16384%Z. change (16384 - 1)%Z with 16383%Z.
  rewrite land_mask14.
  assert (Hm := Z.mod_pos_bound (pa_acc l) 16384 ltac:(lia)).
  set (m := (pa_acc l mod 16384)%Z) in *.
  assert (Hr : 0 <= IZR m < 16384).
  { split; [apply (IZR_le 0)|apply (IZR_lt m 16384)]; lia. }
  destruct (fin_R32_of_Z_small m) as [Va Fa]; [lia|].
  destruct (fin_R32_of_Z_small 16384) as [Vc Fc]; [lia|].
  destruct (fdiv_exact _ _ Fa Fc) as [V F].
  - rewrite Vc. lra.
  - rewrite Va, Vc. apply (fmt_div_pow2 _ 14); [lia|lia|reflexivity].
  - rewrite Va, Vc. apply lt_MAXF, Rabs_le. lra.
  - rewrite Va, Vc in V. split; [exact F|exact V].
Qed.

Lemma mod_frac_R : forall a : Z, 0 <= IZR (a mod 16384) / 16384 < 1.
Proof.
  intros a. assert (Hm := Z.mod_pos_bound a 16384 ltac:(lia)).
  assert (Hr : 0 <= IZR (a mod 16384) < 16384).
  { split; [apply (IZR_le 0)|apply (IZR_lt _ 16384)]; lia. }
  lra.
Qed.

(** exact interpolation at counter value [a] *)
Definition Pex (a : Z) : R :=
  let i := (a / 16384)%Z in
  cT i + (cT ((i + 1) mod 1024) - cT i) * (IZR (a mod 16384) / 16384).

Lemma index_bounds : forall a, (0 <= a < 16777216)%Z -> (0 <= a / 16384 < 1024)%Z.
Proof.
  intros a Ha. split; [apply Z.div_pos; lia|apply Z.div_lt_upper_bound; lia].
Qed.

Lemma sine_near_interp : forall l, (0 <= pa_acc l < 16777216)%Z ->
  Rabs (R32 (lfo_get l Sine) - Pex (pa_acc l)) <= / 16777216.
Proof.
  intros l Ha. destruct (index_range l Ha) as [Ei Hi].
  destruct (fraction_value l Ha) as [Ft Vt].
  assert (Bt := mod_frac_R (pa_acc l)).
  unfold Pex. cbv zeta. rewrite <- Ei.
  cbn [lfo_get]. rewrite LUT_val.
  set (i := pa_index LTOT LIDX l) in *.
  assert (Hj := Z.mod_pos_bound (i + 1) 1024 ltac:(lia)).
  destruct (cell_facts i Hi) as [F0 [F1 [B0 BD]]].
  destruct (cell_facts _ Hj) as [_ [_ [B1 _]]].
  unfold cT in *.
  set (y0 := tbl sine_table i) in *. set (y1 := tbl sine_table ((i + 1) mod 1024)) in *.
  destruct (interp_value y0 y1 _ F0 F1 Ft) as [_ V].
  - apply Rabs_le_inv in B0. lra.
  - apply Rabs_le_inv in B1. lra.
  - rewrite Vt. lra.
  - rewrite V, Vt. apply interp_err; try assumption. lra.
Qed.

(** ** C10: closeness to the real sine *)

Lemma sine_close : forall l, (0 <= pa_acc l < 16777216)%Z ->
  Rabs (R32 (lfo_get l Sine) - sin (2 * PI * (IZR (pa_acc l) / 16777216))) <= 0.0125.
Proof.
  intros l Ha.
  assert (H1 := sine_near_interp l Ha).
  set (a := pa_acc l) in *.
  assert (Hi := index_bounds a Ha).
  assert (Bt := mod_frac_R a).
  assert (Hc := all_cells _ Hi (IZR (a mod 16384) / 16384) ltac:(lra)).
  fold (Pex a) in Hc.
  replace ((IZR (a / 16384) + IZR (a mod 16384) / 16384) / 1024)
    with (IZR a / 16777216) in Hc.
  2:{ rewrite (Z.div_mod a 16384) at 1 by lia. rewrite plus_IZR, mult_IZR. field. }
  apply Rabs_le_inv in H1. apply Rabs_le_inv in Hc. apply Rabs_le. lra.
Qed.

(** ** C12: continuity *)

(** the curve extended periodically to all of Z *)
Definition cc (j : Z) : R := cT (j mod 1024).

Definition Hc (a : Z) : R :=
  cc (a / 16384) + (cc (a / 16384 + 1) - cc (a / 16384)) * (IZR (a mod 16384) / 16384).

Lemma Pex_Hc : forall a, (0 <= a < 16777216)%Z -> Pex a = Hc a.
Proof.
  intros a Ha. assert (Hi := index_bounds a Ha). unfold Pex, Hc, cc. cbv zeta.
  rewrite (Z.mod_small (a / 16384) 1024) by lia. reflexivity.
Qed.

Lemma cc_step : forall j, Rabs (cc (j + 1) - cc j) <= 0.006148.
Proof.
  intros j. unfold cc.
  assert (Hj := Z.mod_pos_bound j 1024 ltac:(lia)).
  rewrite <- (Zplus_mod_idemp_l j 1 1024).
  apply (cell_facts _ Hj).
Qed.

Lemma Hc_step : forall a,
  Hc (a + 1) - Hc a = (cc (a / 16384 + 1) - cc (a / 16384)) / 16384.
Proof.
  intros a. unfold Hc.
  assert (Hm := Z.mod_pos_bound a 16384 ltac:(lia)).
  assert (Ea := Z.div_mod a 16384 ltac:(lia)).
  set (q := (a / 16384)%Z) in *. set (r := (a mod 16384)%Z) in *.
  destruct (Z_lt_le_dec r 16383) as [Hr|Hr].
  - assert (E1 : ((a + 1) / 16384 = q)%Z).
    { symmetry. apply (Z.div_unique (a + 1) 16384 q (r + 1)); lia. }
    assert (E2 : ((a + 1) mod 16384 = r + 1)%Z).
    { symmetry. apply (Z.mod_unique (a + 1) 16384 q (r + 1)); lia. }
    rewrite E1, E2, plus_IZR. field.
  - assert (Er : r = 16383%Z) by lia.
    assert (E1 : ((a + 1) / 16384 = q + 1)%Z).
    { symmetry. apply (Z.div_unique (a + 1) 16384 (q + 1) 0); lia. }
    assert (E2 : ((a + 1) mod 16384 = 0)%Z).
    { symmetry. apply (Z.mod_unique (a + 1) 16384 (q + 1) 0); lia. }
    rewrite E1, E2, Er. field.
Qed.

Lemma Hc_lipschitz : forall a n, (0 <= n)%Z ->
  Rabs (Hc (a + n) - Hc a) <= IZR n * (0.006148 / 16384).
Proof.
  intros a n Hn. revert n Hn. apply natlike_ind.
  - rewrite Z.add_0_r. replace (Hc a - Hc a) with 0 by ring. rewrite Rabs_R0. lra.
  - intros n Hn IH.
    replace (a + Z.succ n)%Z with (a + n + 1)%Z by lia.
    rewrite succ_IZR.
    replace (Hc (a + n + 1) - Hc a)
      with ((Hc (a + n + 1) - Hc (a + n)) + (Hc (a + n) - Hc a)) by ring.
    apply Rle_trans with (1 := Rabs_triang _ _).
    rewrite Hc_step.
    assert (Hs := cc_step ((a + n) / 16384)).
    assert (Hd : Rabs ((cc ((a + n) / 16384 + 1) - cc ((a + n) / 16384)) / 16384)
                 <= 0.006148 / 16384).
    { apply div_abs_le; [lra|]. replace (0.006148 / 16384 * 16384) with 0.006148 by field.
      exact Hs. }
    lra.
Qed.

Lemma cc_period : forall j, cc (j + 1024) = cc j.
Proof.
  intros j. unfold cc. replace (j + 1024)%Z with (j + 1 * 1024)%Z by lia.
  rewrite Z_mod_plus_full. reflexivity.
Qed.

Lemma Hc_period : forall a, Hc (a + 16777216) = Hc a.
Proof.
  intros a. unfold Hc.
  assert (E1 : ((a + 16777216) / 16384 = a / 16384 + 1024)%Z).
  { replace (a + 16777216)%Z with (a + 1024 * 16384)%Z by lia.
    apply Z_div_plus_full. lia. }
  assert (E2 : ((a + 16777216) mod 16384 = a mod 16384)%Z).
  { replace (a + 16777216)%Z with (a + 1024 * 16384)%Z by lia.
    apply Z_mod_plus_full. }
  rewrite E1, E2.
  replace (a / 16384 + 1024 + 1)%Z with (a / 16384 + 1 + 1024)%Z by lia.
  rewrite !cc_period. reflexivity.
Qed.

Lemma wrap_cases : forall a inc, (0 <= a < 16777216)%Z -> (0 <= inc <= 16777216)%Z ->
  let a' := ((a + inc) mod 16777216)%Z in
  (0 <= a' < 16777216)%Z /\ (a' = a + inc \/ a' = a + inc - 16777216)%Z.
Proof.
  intros a inc Ha Hi a'.
  assert (Hm := Z.mod_pos_bound (a + inc) 16777216 ltac:(lia)). fold a' in Hm.
  split; [exact Hm|].
  assert (Ed := Z.div_mod (a + inc) 16777216 ltac:(lia)). fold a' in Ed.
  assert (Hq : (0 <= (a + inc) / 16777216 < 2)%Z).
  { split; [apply Z.div_pos; lia|apply Z.div_lt_upper_bound; lia]. }
  lia.
Qed.

(** a lower bound on pi from Machin's formula pi/4 = 2 atan(1/3) + atan(1/7) (four terms
    of the alternating series), so that the continuity proofs do not depend on [interval] *)
Lemma PI_lb : 3.14155 <= PI.
Proof.
  generalize (proj1 (PI_2_3_7_ineq 1)).
  unfold sum_f_R0, tg_alt, PI_2_3_7_tg, Ratan_seq. simpl.
  intros H. lra.
Qed.

Lemma sine_continuous : forall l,
  (0 <= pa_acc l < 16777216)%Z -> (0 <= pa_inc l <= 16777216)%Z ->
  let l' := lfo_step l LTick in
  Rabs (R32 (lfo_get l' Sine) - R32 (lfo_get l Sine))
    <= 2 * PI * 1.002 * (IZR (pa_inc l) / 16777216) + 2 * / 16777216.
Proof.
  intros l Ha Hi l'. subst l'.
  destruct (tick_exact l Ha Hi) as [Ea _].
  destruct (wrap_cases _ _ Ha Hi) as [Ha' Hw]. rewrite <- Ea in Ha', Hw.
  assert (N1 := sine_near_interp l Ha).
  assert (N2 := sine_near_interp _ Ha').
  rewrite (Pex_Hc _ Ha) in N1. rewrite (Pex_Hc _ Ha') in N2.
  set (a := pa_acc l) in *. set (inc := pa_inc l) in *.
  set (a' := pa_acc (lfo_step l LTick)) in *.
  assert (EH : Hc a' = Hc (a + inc)).
  { destruct Hw as [-> | ->]; [reflexivity|].
    rewrite <- (Hc_period (a + inc - 16777216)). f_equal. lia. }
  rewrite EH in N2.
  assert (L := Hc_lipschitz a inc ltac:(lia)).
  assert (Hinc : 0 <= IZR inc) by (apply (IZR_le 0); lia).
  assert (HPI := PI_lb).
  assert (HK : IZR inc * (0.006148 / 16384) <= 2 * PI * 1.002 * (IZR inc / 16777216)).
  { replace (IZR inc * (0.006148 / 16384)) with (0.006148 * 1024 * (IZR inc / 16777216))
      by field.
    apply Rmult_le_compat_r; [lra|]. lra. }
  apply Rabs_le_inv in N1. apply Rabs_le_inv in N2. apply Rabs_le_inv in L.
  apply Rabs_le. lra.
Qed.

Lemma triangle_continuous : forall l,
  (0 <= pa_acc l < 16777216)%Z -> (0 <= pa_inc l <= 16777216)%Z ->
  let l' := lfo_step l LTick in
  Rabs (R32 (lfo_get l' Triangle) - R32 (lfo_get l Triangle))
    <= 4 * (IZR (pa_inc l) / 16777216).
Proof.
  intros l Ha Hi l'. subst l'.
  destruct (tick_exact l Ha Hi) as [Ea _].
  destruct (wrap_cases _ _ Ha Hi) as [Ha' Hw]. rewrite <- Ea in Ha', Hw.
  destruct (triangle_exact l Ha) as [_ V].
  destruct (triangle_exact _ Ha') as [_ V'].
  rewrite V, V'. clear V V' Ea.
  set (a := pa_acc l) in *. set (inc := pa_inc l) in *.
  set (a' := pa_acc (lfo_step l LTick)) in *.
  assert (Ra := acc_R _ Ha). assert (Ra' := acc_R _ Ha').
  assert (Rinc : 0 <= IZR inc <= 16777216).
  { split; [apply (IZR_le 0)|apply (IZR_le _ 16777216)]; lia. }
  assert (Rw : IZR a' = IZR a + IZR inc \/ IZR a' = IZR a + IZR inc - 16777216).
  { destruct Hw as [-> | ->]; [left|right].
    - apply plus_IZR.
    - rewrite minus_IZR, plus_IZR. reflexivity. }
  destruct (Z.ltb_spec a 4194304) as [A1|A1];
    [apply IZR_lt in A1|apply IZR_le in A1;
     destruct (Z.ltb_spec a 12582912) as [A2|A2]; [apply IZR_lt in A2|apply IZR_le in A2]];
  (destruct (Z.ltb_spec a' 4194304) as [B1|B1];
    [apply IZR_lt in B1|apply IZR_le in B1;
     destruct (Z.ltb_spec a' 12582912) as [B2|B2]; [apply IZR_lt in B2|apply IZR_le in B2]]);
  apply Rabs_le; destruct Rw as [Rw|Rw]; lra.
Qed.

(** the sine read-out depends on the counter only *)
Definition sine_at (a : Z) : f32 := lfo_get (mkPa f_0 a 0 0 false) Sine.

Lemma sine_at_eq : forall l, lfo_get l Sine = sine_at (pa_acc l).
Proof.
  intros l. unfold sine_at. cbn [lfo_get]. unfold pa_index, pa_fraction. cbn [pa_acc].
  reflexivity.
Qed.

Lemma sine_wrap : forall l, pa_acc l = 16777215%Z -> pa_inc l = 1%Z ->
  let l' := lfo_step l LTick in
  pa_acc l' = 0%Z /\
  Rabs (R32 (lfo_get l' Sine) - R32 (lfo_get l Sine)) <= / 1000000.
Proof.
  intros l Ea Ei l'. subst l'.
  destruct (tick_exact l) as [E' _]; [rewrite Ea; lia|rewrite Ei; lia|].
  rewrite Ea, Ei in E'. change ((16777215 + 1) mod 16777216)%Z with 0%Z in E'.
  split; [exact E'|].
  rewrite !sine_at_eq, E', Ea.
  r32_const (sine_at 0). r32_const (sine_at 16777215).
  apply Rabs_le. lra.
Qed.
