(** * GlideCoeffGeneric: which coefficient sets the glide processor can install (C13, C14)

    Everything is proved inside a [Section] that is parametric in the facts about the
    executable [tanf] port (range and relative accuracy on (0, X_TOP]); the instantiation
    with the lemmas of Proofs/TanfProofs.v is in Proofs/GlideCoeffProofs.v. *)

From Coq Require Import ZArith Reals Lia Lra Bool List.
From Flocq Require Import Core IEEE754.BinarySingleNaN Relative Sterbenz.
From Interval Require Import Tactic.
From SU Require Import F32 F32Lemmas.
From SU.gen Require Import Consts.
From SU.Model Require Import Utils Tanf Glide.
From SU.Spec Require Import GlideSpec.
From SU.Proofs Require Import LfoProofs.
Import ListNotations.
Open Scope R_scope.

(** ** more facts about the float layer *)

(** relative error of one rounding in the normal range (no absolute term) *)
Lemma rnd_rel : forall x, / 1000000000000000000000000000000 <= Rabs x ->
  Rabs (rnd x - x) <= / 16777216 * Rabs x.
Proof.
  intros x Hx.
  generalize (relative_error_N_FLT radix2 (-149) 24 ltac:(lia) (fun n => negb (Z.even n)) x).
  intros H.
  replace (/ 16777216) with (/ 2 * bpow radix2 (-24 + 1)).
  - apply H. apply Rle_trans with (2 := Hx).
    change (-149 + 24 - 1)%Z with (- (126))%Z. rewrite (bpow2_neg 126) by lia.
    change (2 ^ 126)%Z with 85070591730234615865843651857942052864%Z.
    apply Rinv_le; lra.
  - change (-24 + 1)%Z with (- (23))%Z. rewrite (bpow2_neg 23) by lia.
    change (2 ^ 23)%Z with 8388608%Z. lra.
Qed.

Lemma rnd_rel_pos : forall a x b, / 1000000000000000000000000000000 <= a -> a <= x <= b ->
  a * (1 - / 16777216) <= rnd x <= b * (1 + / 16777216).
Proof.
  intros a x b Ha [H1 H2].
  assert (Hx : 0 < x) by lra.
  generalize (rnd_rel x). rewrite (Rabs_pos_eq x) by lra.
  intros H. specialize (H ltac:(lra)). apply Rabs_le_inv in H.
  split.
  - apply Rle_trans with (x * (1 - / 16777216)); [|lra].
    apply Rmult_le_compat_r; lra.
  - apply Rle_trans with (x * (1 + / 16777216)); [lra|].
    apply Rmult_le_compat_r; lra.
Qed.

(** absolute error of one rounding: half an ulp of the enclosing binade *)
Lemma rnd_abs_err : forall x (e : Z), (-125 <= e)%Z -> Rabs x <= bpow radix2 e ->
  Rabs (rnd x - x) <= bpow radix2 (e - 25).
Proof.
  intros x e He Hx.
  destruct (Req_dec x 0) as [Hz|Hnz].
  { subst x. rewrite rnd_0. rewrite Rminus_0_r, Rabs_R0. apply bpow_ge_0. }
  destruct (Rle_lt_or_eq_dec _ _ Hx) as [Hlt|Heq].
  - apply Rle_trans with (/ 2 * ulp radix2 fexp32 x).
    + apply error_le_half_ulp; auto with typeclass_instances.
    + rewrite ulp_neq_0 by exact Hnz. unfold cexp.
      assert (Hm : (mag radix2 x <= e)%Z) by now apply mag_le_bpow.
      replace (e - 25)%Z with (-1 + (e - 24))%Z by lia. rewrite bpow_plus.
      change (bpow radix2 (-1)) with (/ 2).
      apply Rmult_le_compat_l; [lra|]. apply bpow_le. unfold FLT_exp. lia.
  - assert (Hf : fmt x).
    { destruct (Rabs_def2 x (bpow radix2 e + 1)) as [_ _]; [rewrite Heq; lra|].
      unfold Rabs in Heq. destruct (Rcase_abs x).
      - replace x with (- bpow radix2 e) by lra. apply fmt_opp, fmt_bpow. lia.
      - rewrite Heq. apply fmt_bpow. lia. }
    rewrite rnd_id by exact Hf. rewrite Rminus_diag_eq by reflexivity. rewrite Rabs_R0.
    apply bpow_ge_0.
Qed.

Lemma rnd_err_half : forall x, Rabs x <= / 2 -> Rabs (rnd x - x) <= / 67108864.
Proof.
  intros x H. generalize (rnd_abs_err x (-1) ltac:(lia) H).
  change (-1 - 25)%Z with (- (26))%Z. rewrite (bpow2_neg 26) by lia. intros H'; exact H'.
Qed.

Lemma rnd_err_1 : forall x, Rabs x <= 1 -> Rabs (rnd x - x) <= / 33554432.
Proof.
  intros x H. generalize (rnd_abs_err x 0 ltac:(lia) H).
  change (0 - 25)%Z with (- (25))%Z. rewrite (bpow2_neg 25) by lia. intros H'; exact H'.
Qed.

Lemma rnd_err_2 : forall x, Rabs x <= 2 -> Rabs (rnd x - x) <= / 16777216.
Proof.
  intros x H. generalize (rnd_abs_err x 1 ltac:(lia) H).
  change (1 - 25)%Z with (- (24))%Z. rewrite (bpow2_neg 24) by lia. intros H'; exact H'.
Qed.

Lemma rnd_err_4 : forall x, Rabs x <= 4 -> Rabs (rnd x - x) <= / 8388608.
Proof.
  intros x H. assert (H4 : Rabs x <= bpow radix2 2) by (simpl; lra).
  generalize (rnd_abs_err x 2 ltac:(lia) H4).
  change (2 - 25)%Z with (- (23))%Z. rewrite (bpow2_neg 23) by lia. intros H'; exact H'.
Qed.

Lemma rnd_err_small : forall x, Rabs x <= / 1048576 -> Rabs (rnd x - x) <= / 35184372088832.
Proof.
  intros x H. assert (H4 : Rabs x <= bpow radix2 (-20)).
  { change (-20)%Z with (- (20))%Z. rewrite (bpow2_neg 20) by lia. exact H. }
  generalize (rnd_abs_err x (-20) ltac:(lia) H4).
  change (-20 - 25)%Z with (- (45))%Z. rewrite (bpow2_neg 45) by lia. intros H'; exact H'.
Qed.

(** halving is exact in the normal range *)
Lemma fmt_half : forall x, fmt x -> / 1000000000000000000000000000000 <= Rabs x -> fmt (x / 2).
Proof.
  intros x Hx Hlo. apply FLT_format_generic in Hx; [|reflexivity].
  destruct Hx as [[m e] Hx Hm He]. simpl in Hm, He.
  destruct (Z.eq_dec e (-149)) as [E|E].
  - exfalso. subst e. rewrite Hx in Hlo. unfold F2R in Hlo; simpl Fnum in Hlo; simpl Fexp in Hlo.
    rewrite Rabs_mult in Hlo. rewrite (Rabs_pos_eq (bpow radix2 (-149))) in Hlo by apply bpow_ge_0.
    rewrite <- abs_IZR in Hlo.
    assert (H1 : IZR (Z.abs m) <= 16777216) by (apply IZR_le; simpl in Hm; lia).
    assert (H0 : 0 <= IZR (Z.abs m)) by (apply IZR_le; lia).
    change (-149)%Z with (- (149))%Z in Hlo. rewrite (bpow2_neg 149) in Hlo by lia.
    change (2 ^ 149)%Z with 713623846352979940529142984724747568191373312%Z in Hlo.
    assert (IZR (Z.abs m) * / 713623846352979940529142984724747568191373312
            <= 16777216 * / 713623846352979940529142984724747568191373312).
    { apply Rmult_le_compat_r; lra. }
    lra.
  - apply generic_format_FLT. exists (Float radix2 m (e - 1)); simpl; try lia.
    rewrite Hx. unfold F2R; simpl. unfold Zminus. rewrite bpow_plus.
    change (bpow radix2 (- (1))) with (/ 2). unfold Rdiv. ring.
Qed.

(** two finite floats with the same nonzero value are the same float *)
Lemma f32_eq_of_R32 : forall x y : f32, fin x -> fin y -> R32 x = R32 y -> R32 x <> 0 -> x = y.
Proof.
  intros x y Fx Fy E Hnz. apply B2R_inj; try exact E.
  - destruct x; try discriminate Fx; try reflexivity. exfalso; apply Hnz; reflexivity.
  - rewrite E in Hnz. destruct y; try discriminate Fy; try reflexivity. exfalso; apply Hnz; reflexivity.
Qed.

Lemma Bsign_pos : forall t : f32, fin t -> 0 < R32 t -> Bsign t = false.
Proof.
  intros [s|s| |s m e H] Ft Hp; try discriminate Ft.
  - unfold R32 in Hp; simpl in Hp. lra.
  - destruct s; [|reflexivity]. exfalso. unfold R32 in Hp. simpl in Hp.
    assert (F2R (Float radix2 (Z.neg m) e) < 0) by (apply F2R_lt_0; simpl; lia). lra.
Qed.

(** a finite float of value zero is one of the two zeros *)
Lemma fin_zero_cases : forall t : f32, fin t -> R32 t = 0 -> exists s, t = B754_zero s.
Proof.
  intros [s|s| |s m e H] Ft Hz; try discriminate Ft.
  - now exists s.
  - exfalso. unfold R32 in Hz; simpl in Hz. apply eq_0_F2R in Hz. destruct s; discriminate Hz.
Qed.

(** [1 / t] for positive finite [t]: the correctly rounded quotient, or +infinity on overflow *)
Lemma fdiv_1_pos : forall t : f32, fin t -> 0 < R32 t ->
  fdiv f_1 t = B754_infinity false \/
  (fin (fdiv f_1 t) /\ R32 (fdiv f_1 t) = rnd (1 / R32 t)).
Proof.
  intros t Ft Hp. unfold fdiv, R32, fin in *.
  assert (Hnz : B2R t <> 0) by lra.
  generalize (Bdiv_correct prec emax Hprec Hmax mode_NE f_1 t Hnz).
  rewrite fexp_is_fexp32. change (round radix2 fexp32 (round_mode mode_NE)) with rnd.
  fold (R32 f_1). rewrite R32_f_1.
  destruct (Rlt_bool _ _).
  - intros [H1 [H2 _]]. right. split; [|exact H1]. rewrite H2. exact fin_f_1.
  - intros H. left. apply B2SF_inj. rewrite H.
    rewrite (Bsign_pos t Ft Hp). reflexivity.
Qed.

(** small values never overflow *)
Lemma novf : forall x, Rabs x <= 1073741824 -> Rabs (rnd x) < MAXF.
Proof.
  intros x H. apply (no_overflow 1073741824).
  - replace 1073741824 with (bpow radix2 30) by (simpl; lra). apply fmt_bpow; lia.
  - rewrite MAXF_val. lra.
  - exact H.
Qed.

Lemma novf_pos : forall x, 0 <= x <= 1073741824 -> Rabs (rnd x) < MAXF.
Proof. intros x H. apply novf. rewrite Rabs_pos_eq; lra. Qed.

(** [fabs] is the absolute value on finite floats *)
Lemma fabs_correct : forall v : f32, fin v -> fin (fabs v) /\ R32 (fabs v) = Rabs (R32 v).
Proof.
  intros v Fv. unfold fabs. destruct (flt v f_0) eqn:E.
  - apply flt_true in E; [|exact Fv|exact fin_f_0]. rewrite R32_f_0 in E.
    split; [now apply fin_fneg|]. rewrite R32_fneg. rewrite Rabs_left; lra.
  - apply flt_false in E; [|exact Fv|exact fin_f_0]. rewrite R32_f_0 in E.
    split; [exact Fv|]. rewrite Rabs_pos_eq; lra.
Qed.

(** ** constants *)

Lemma R32_MIN_FC : R32 GL_MIN_FC = 13421773 / 134217728.
Proof. r32_const GL_MIN_FC. lra. Qed.
Lemma fin_MIN_FC : fin GL_MIN_FC.
Proof. fin_const. Qed.
Lemma R32_DIV : R32 GL_DIV = 4.
Proof. r32_const GL_DIV. lra. Qed.
Lemma fin_DIV : fin GL_DIV.
Proof. fin_const. Qed.
Lemma R32_TWO_PI : R32 TWO_PI = 13176795 / 2097152.
Proof. r32_const TWO_PI. lra. Qed.
Lemma fin_TWO_PI : fin TWO_PI.
Proof. fin_const. Qed.
Lemma R32_EPS : R32 GL_EPS = 13421773 / 268435456.
Proof. r32_const GL_EPS. lra. Qed.
Lemma fin_EPS : fin GL_EPS.
Proof. fin_const. Qed.

(** [1.0 / 10.0] is the float [0.1f], the minimum cutoff *)
Lemma fdiv_1_10 : fdiv f_1 (of_Z 10) = GL_MIN_FC.
Proof. apply B2SF_inj. vm_compute. reflexivity. Qed.

Lemma rnd_tenth : rnd (1 / 10) = R32 GL_MIN_FC.
Proof.
  rewrite <- fdiv_1_10.
  assert (F10 : fin (of_Z 10)) by (apply fin_of_Z_small; lia).
  assert (V10 : R32 (of_Z 10) = 10) by (apply (R32_of_Z_small 10); lia).
  destruct (fdiv_correct f_1 (of_Z 10) fin_f_1 F10) as [V _].
  - rewrite V10; lra.
  - rewrite R32_f_1, V10. apply novf.
    rewrite Rabs_pos_eq; lra.
  - rewrite V, R32_f_1, V10. reflexivity.
Qed.

(** ** the coefficient arithmetic of [from_params], for a given [omega_t] *)

Lemma div_le_c : forall x A c, 0 < A -> x <= c * A -> x / A <= c.
Proof.
  intros x A c HA H. apply Rmult_le_reg_r with A; [assumption|].
  unfold Rdiv. rewrite Rmult_assoc, Rinv_l by lra. lra.
Qed.

Lemma div_ge_c : forall x A c, 0 < A -> c * A <= x -> c <= x / A.
Proof.
  intros x A c HA H. apply Rmult_le_reg_r with A; [assumption|].
  unfold Rdiv. rewrite Rmult_assoc, Rinv_l by lra. lra.
Qed.

Lemma Rabs_le_both : forall x c, - c <= x <= c -> Rabs x <= c.
Proof. intros x c H. apply Rabs_le. exact H. Qed.

Lemma fmt_1 : fmt 1.
Proof. apply (fmt_int 1). lia. Qed.
Lemma fmt_2 : fmt 2.
Proof. apply (fmt_int 2). lia. Qed.

Lemma coeff_arith : forall (wt : f32) (we : R), 0 <= we <= / 1048576 -> fin wt ->
  / 1000000 <= R32 wt <= 1 + we ->
  let a0 := fadd f_1 wt in
  let a1 := fdiv (fsub wt f_1) a0 in
  let b := fdiv wt a0 in
  fin a1 /\ fin b /\
  0 < R32 b <= rnd ((1 + we) / 2) /\
  -1 < R32 a1 <= rnd (we / 2) /\
  Rabs (2 * R32 b - R32 a1 - 1) <= 4 * / 16777216 /\
  Rabs (R32 a1 - (R32 wt - 1) / (1 + R32 wt)) <= 2 * / 16777216.
Proof.
  intros wt we Hwe Fw Hw a0 a1 b.
  set (w := R32 wt) in *.
  (* a0 *)
  destruct (fadd_correct f_1 wt fin_f_1 Fw) as [VA FA].
  { rewrite R32_f_1. fold w. apply novf_pos. lra. }
  rewrite R32_f_1 in VA. fold w in VA. fold a0 in VA, FA.
  set (A := R32 a0) in *.
  assert (HA1 : 1 <= A <= 4).
  { rewrite VA. apply rnd_bounds; [exact fmt_1| |lra].
    replace 4 with (bpow radix2 2) by (simpl; lra). apply fmt_bpow; lia. }
  assert (HAe4 : - / 8388608 <= A - (1 + w) <= / 8388608).
  { rewrite VA. apply Rabs_le_inv. apply rnd_err_4. rewrite Rabs_pos_eq; lra. }
  (* s *)
  destruct (fsub_correct wt f_1 Fw fin_f_1) as [VS FS].
  { rewrite R32_f_1. fold w. apply novf. apply Rabs_le_both. lra. }
  rewrite R32_f_1 in VS. fold w in VS.
  set (s := R32 (fsub wt f_1)) in *.
  assert (HS1 : -1 <= s <= 1).
  { rewrite VS. apply rnd_bounds; [apply fmt_opp, fmt_1|exact fmt_1|lra]. }
  assert (HSe : - / 33554432 <= s - (w - 1) <= / 33554432).
  { rewrite VS. apply Rabs_le_inv. apply rnd_err_1. apply Rabs_le_both. lra. }
  (* a1 *)
  assert (HqA : -1 <= s / A <= 1).
  { split; [apply div_ge_c|apply div_le_c]; lra. }
  destruct (fdiv_correct (fsub wt f_1) a0 FS FA) as [V1 F1].
  { fold A. lra. }
  { fold s A. apply novf. apply Rabs_le_both. lra. }
  fold s A a1 in V1, F1.
  assert (H1e : - / 33554432 <= R32 a1 - s / A <= / 33554432).
  { rewrite V1. apply Rabs_le_inv. apply rnd_err_1. apply Rabs_le_both. lra. }
  (* b *)
  assert (HqB : 0 < w / A <= 1).
  { split; [apply Rdiv_lt_0_compat; lra|]. apply div_le_c; lra. }
  destruct (fdiv_correct wt a0 Fw FA) as [VB FB].
  { fold A. lra. }
  { fold w A. apply novf_pos. lra. }
  fold w A b in VB, FB.
  assert (HBrel : w / A * (1 - / 16777216) <= R32 b).
  { rewrite VB. apply (rnd_rel_pos (w / A) (w / A) (w / A)); [|lra].
    apply Rle_trans with (/ 1000000 / 4); [lra|].
    apply div_ge_c; lra. }
  assert (HBpos : 0 < R32 b).
  { apply Rlt_le_trans with (2 := HBrel). apply Rmult_lt_0_compat; lra. }
  (* the exact quotient E = (w-1)/(1+w) *)
  set (E := (w - 1) / (1 + w)).
  assert (HE : E * (1 + w) = w - 1) by (unfold E; field; lra).
  assert (HE1 : -1 + / 1000000 <= E <= 1).
  { unfold E. split; [apply div_ge_c|apply div_le_c]; lra. }
  split; [exact F1|]. split; [exact FB|].
  destruct (Rle_or_lt w 1) as [Hle|Hgt].
  - (* w <= 1 *)
    assert (HAe2 : - / 16777216 <= A - (1 + w) <= / 16777216).
    { rewrite VA. apply Rabs_le_inv. apply rnd_err_2. rewrite Rabs_pos_eq; lra. }
    assert (HA2w : 2 * w <= A).
    { rewrite VA. rewrite <- (rnd_id (2 * w)).
      - apply rnd_le. lra.
      - apply (fmt_scale w 1); [lia|apply fmt_R32]. }
    assert (HqB2 : w / A <= / 2) by (apply div_le_c; lra).
    assert (HBe : - / 67108864 <= R32 b - w / A <= / 67108864).
    { rewrite VB. apply Rabs_le_inv. apply rnd_err_half. rewrite Rabs_pos_eq; lra. }
    assert (Hs0 : s <= 0) by (rewrite VS; apply rnd_le_0; lra).
    assert (HsA : s / A <= 0) by (apply div_le_c; lra).
    (* qa - E *)
    set (d1 := s - (w - 1)) in *. set (d2 := A - (1 + w)) in *.
    assert (Hp : - / 16777216 <= E * d2 <= / 16777216).
    { apply Rabs_le_inv. rewrite Rabs_mult.
      apply Rle_trans with (1 * / 16777216).
      - apply Rmult_le_compat; try apply Rabs_pos; apply Rabs_le_both; lra.
      - lra. }
    assert (Hs_eq : s = E * A - E * d2 + d1).
    { unfold d1, d2. replace (E * A - E * (A - (1 + w))) with (E * (1 + w)) by ring. rewrite HE. ring. }
    assert (HqE : E - 3 * / 33554432 <= s / A <= E + 3 * / 33554432).
    { split; [apply div_ge_c|apply div_le_c]; lra. }
    (* DC *)
    assert (HD : - (3 * / 33554432) <= (2 * w - s - A) / A <= 3 * / 33554432).
    { split; [apply div_ge_c|apply div_le_c]; unfold d1, d2 in *; lra. }
    assert (HDeq : 2 * (w / A) - s / A - 1 = (2 * w - s - A) / A) by (field; lra).
    repeat split.
    + exact HBpos.
    + rewrite VB. apply rnd_le. lra.
    + lra.
    + rewrite V1. apply rnd_le. lra.
    + apply Rabs_le_both. lra.
    + apply Rabs_le_both. fold E. lra.
  - (* 1 < w *)
    assert (HA2 : 2 <= A).
    { rewrite VA. rewrite <- (rnd_id 2 fmt_2). apply rnd_le. lra. }
    assert (Hs : s = w - 1).
    { rewrite VS. apply rnd_id.
      apply sterbenz; auto with typeclass_instances; [apply fmt_R32|exact fmt_1|]. fold w. lra. }
    assert (HBe : - / 33554432 <= R32 b - w / A <= / 33554432).
    { rewrite VB. apply Rabs_le_inv. apply rnd_err_1. rewrite Rabs_pos_eq; lra. }
    assert (HweA : we * 2 <= we * A) by (apply Rmult_le_compat_l; lra).
    assert (HqB2 : w / A <= (1 + we) / 2) by (apply div_le_c; lra).
    assert (HsA : 0 <= s / A <= we / 2) by (split; [apply div_ge_c|apply div_le_c]; lra).
    set (d2 := A - (1 + w)) in *.
    assert (Hp : - / 8388608 <= E * d2 <= / 8388608).
    { apply Rabs_le_inv. rewrite Rabs_mult.
      apply Rle_trans with (1 * / 8388608).
      - apply Rmult_le_compat; try apply Rabs_pos; apply Rabs_le_both; lra.
      - lra. }
    assert (Hs_eq : s = E * A - E * d2).
    { unfold d2. replace (E * A - E * (A - (1 + w))) with (E * (1 + w)) by ring. rewrite HE. lra. }
    assert (HqE : E - / 16777216 <= s / A <= E + / 16777216).
    { split; [apply div_ge_c|apply div_le_c]; lra. }
    assert (HD : - / 16777216 <= (2 * w - s - A) / A <= / 16777216).
    { assert (/ 16777216 * 2 <= / 16777216 * A) by (apply Rmult_le_compat_l; lra).
      split; [apply div_ge_c|apply div_le_c]; unfold d2 in *; lra. }
    assert (HDeq : 2 * (w / A) - s / A - 1 = (2 * w - s - A) / A) by (field; lra).
    repeat split.
    + exact HBpos.
    + rewrite VB. apply rnd_le. exact HqB2.
    + apply Rlt_le_trans with 0; [lra|]. rewrite V1. apply rnd_ge_0. lra.
    + rewrite V1. apply rnd_le. lra.
    + apply Rabs_le_both. lra.
    + apply Rabs_le_both. fold E. lra.
Qed.

(** the floats just above 1 are spaced by 2^-23 *)
Lemma fmt_le_1p22 : forall w, fmt w -> w < 1 + 3 * / 8388608 -> w <= 1 + / 4194304.
Proof.
  intros w Fw Hw. destruct (Rle_or_lt w (1 + / 4194304)) as [H|H]; [exact H|exfalso].
  assert (Fc : fmt (1 + / 4194304)).
  { replace (1 + / 4194304) with (IZR 4194305 / IZR 4194304) by lra.
    apply (fmt_div_pow2 4194305 22); [lia|lia|reflexivity]. }
  assert (Hs : succ radix2 fexp32 (1 + / 4194304) <= w).
  { apply succ_le_lt; auto with typeclass_instances. }
  rewrite succ_eq_pos in Hs by lra.
  rewrite ulp_neq_0 in Hs by lra.
  unfold cexp in Hs.
  rewrite (mag_unique radix2 (1 + / 4194304) 1) in Hs.
  - change (fexp32 1) with (- (23))%Z in Hs. rewrite (bpow2_neg 23) in Hs by lia.
    change (2 ^ 23)%Z with 8388608%Z in Hs. lra.
  - rewrite Rabs_pos_eq by lra. simpl. lra.
Qed.

(** ** numeric facts about [tan] (by interval arithmetic) *)

Lemma tan_ge_x : forall x, 3 / 1000000 <= x <= 0.7854 -> 0.9999 * x <= tan x.
Proof.
  intros x H. assert (0 <= tan x - 0.9999 * x); [|lra].
  interval with (i_bisect x, i_taylor x, i_depth 40).
Qed.

Lemma tan_small_le : forall x, 3 / 1000000 <= x <= 0.0316 -> x <= 1.00001 * tan x.
Proof.
  intros x H. assert (0 <= 1.00001 * tan x - x); [|lra].
  interval with (i_bisect x, i_taylor x, i_depth 40).
Qed.

Lemma tan_pos_small : forall x, 0 < x <= 0.7854 -> 0 < tan x.
Proof.
  intros x H. apply tan_gt_0; [lra|].
  assert (1.57 <= PI / 2) by interval. lra.
Qed.

(** the weakened coefficient predicate that is provable from [tanf x <= 1 + 2^-20]:
    [good] of Spec/GlideSpec.v with [b <= 1/2 + 2^-21] (instead of [2^-23]) and
    [a1 <= 2^-20] (instead of [2^-22]) *)
Definition good' (c : coeffs) : Prop :=
  fin (k_a1 c) /\ fin (k_b0 c) /\ k_b1 c = k_b0 c /\ k_a2 c = f_0 /\ k_b2 c = f_0 /\
  0 < R32 (k_b0 c) <= / 2 + / 2097152 /\
  -1 < R32 (k_a1 c) <= / 1048576 /\
  Rabs (2 * R32 (k_b0 c) - R32 (k_a1 c) - 1) <= 4 * / 16777216.

Lemma good_good' : forall c, good c -> good' c.
Proof.
  intros c (H1 & H2 & H3 & H4 & H5 & H6 & H7 & H8). unfold good'. repeat split; try tauto; lra.
Qed.

(** the two bounds of the argument of [tanf] relative to [pi_f32 * f0 / fs] *)
Definition P_LO : R := 13176795 / 4194304 * (1 - / 16777216) * (1 - / 16777216).
Definition P_HI : R := 13176795 / 4194304 * (1 + / 16777216) * (1 + / 16777216).

Section Generic.

Variable X_TOP W_EPS T_EPS : R.
(** Proofs/TanfProofs.v has [X_TOP = 0.7853985], [W_EPS = T_EPS = 2^-20], and sharper:
    [T_EPS = 2^-23], from which Proofs/GlideCoeffProofs.v derives [W_EPS = 2^-22] on
    [X_TOP = 0.78539828] (the largest argument reached is [pi_f32/4 (1+2^-24)^2]) *)
Hypothesis X_TOP_lb : 0.78539828 <= X_TOP.
Hypothesis W_EPS_range : 0 <= W_EPS <= / 1048576.
Hypothesis T_EPS_le : T_EPS <= / 131072.
Hypothesis tanf_range : forall x : f32, fin x -> 0 < R32 x <= X_TOP ->
  fin (tanf x) /\ 0 < R32 (tanf x) <= 1 + W_EPS.
Hypothesis tanf_accuracy : forall x : f32, fin x -> 0 < R32 x <= X_TOP ->
  Rabs (R32 (tanf x) - tan (R32 x)) <= T_EPS * tan (R32 x).

(** [from_params] for a cutoff between the minimum one and [fs/4] *)
Lemma from_params_ok : forall fs f0 : f32, glide_fs_ok fs -> fin f0 ->
  R32 GL_MIN_FC <= R32 f0 <= R32 fs / 4 ->
  exists c x w,
    from_params fs f0 = Some c /\ good' c /\ 0.6 / R32 fs <= speed c /\
    P_LO * (R32 f0 / R32 fs) <= x <= P_HI * (R32 f0 / R32 fs) /\
    0 < x <= 0.78539828 /\
    Rabs (w - tan x) <= T_EPS * tan x /\ 0 < w <= 1 + W_EPS /\
    R32 (k_b0 c) <= rnd ((1 + W_EPS) / 2) /\ R32 (k_a1 c) <= rnd (W_EPS / 2) /\
    Rabs (R32 (k_a1 c) - (w - 1) / (1 + w)) <= 2 * / 16777216.
Proof.
  intros fs f0 [Ffs Hfs] Ff0 Hf0. rewrite R32_MIN_FC in Hf0.
  set (F := R32 fs) in *. set (f := R32 f0) in *.
  (* the guard *)
  destruct (fmul_exact f_2 f0 fin_f_2 Ff0) as [V2 F2].
  { rewrite R32_f_2. apply (fmt_scale (R32 f0) 1); [lia|apply fmt_R32]. }
  { rewrite R32_f_2. fold f. apply lt_MAXF. rewrite Rabs_pos_eq; lra. }
  rewrite R32_f_2 in V2. fold f in V2.
  assert (Hguard : flt fs (fmul f_2 f0) = false).
  { apply flt_false; auto. rewrite V2. fold F. lra. }
  (* m = TWO_PI * f0 *)
  destruct (fmul_correct TWO_PI f0 fin_TWO_PI Ff0) as [VM FM].
  { rewrite R32_TWO_PI. fold f. apply novf_pos. lra. }
  rewrite R32_TWO_PI in VM. fold f in VM.
  set (m := R32 (fmul TWO_PI f0)) in *.
  assert (HM : 13176795 / 2097152 * f * (1 - / 16777216) <= m
               <= 13176795 / 2097152 * f * (1 + / 16777216)).
  { rewrite VM. apply rnd_rel_pos; lra. }
  (* omega = m / fs *)
  set (r := f / F).
  assert (Hr : f = r * F) by (unfold r; field; lra).
  assert (Hr1 : 2 / 1000000 <= r <= / 4).
  { unfold r. split; [apply div_ge_c|apply div_le_c]; lra. }
  assert (HmF : 13176795 / 2097152 * (1 - / 16777216) * r <= m / F
                <= 13176795 / 2097152 * (1 + / 16777216) * r).
  { split; [apply div_ge_c|apply div_le_c]; lra. }
  destruct (fdiv_correct (fmul TWO_PI f0) fs FM Ffs) as [VO FO].
  { fold F. lra. }
  { fold m F. apply novf_pos. lra. }
  fold m F in VO. set (om := R32 (fdiv (fmul TWO_PI f0) fs)) in *.
  assert (HO : 13176795 / 2097152 * (1 - / 16777216) * r * (1 - / 16777216) <= om
               <= 13176795 / 2097152 * (1 + / 16777216) * r * (1 + / 16777216)).
  { rewrite VO. apply rnd_rel_pos; lra. }
  (* x = omega / 2, exactly *)
  destruct (fdiv_exact (fdiv (fmul TWO_PI f0) fs) f_2 FO fin_f_2) as [VX FX].
  { rewrite R32_f_2. lra. }
  { rewrite R32_f_2. apply fmt_half; [apply fmt_R32|]. fold om. rewrite Rabs_pos_eq; lra. }
  { rewrite R32_f_2. fold om. apply lt_MAXF. rewrite Rabs_pos_eq; lra. }
  rewrite R32_f_2 in VX. fold om in VX.
  set (xh := fdiv (fdiv (fmul TWO_PI f0) fs) f_2) in *.
  set (x := R32 xh) in *.
  assert (HX : P_LO * r <= x <= P_HI * r) by (unfold P_LO, P_HI; lra).
  assert (HX1 : 6 / 1000000 <= x <= 0.78539828) by (unfold P_LO, P_HI in HX; lra).
  (* omega_t = tanf x *)
  assert (HXT : 0 < x <= X_TOP) by lra.
  destruct (tanf_range xh FX HXT) as [FW HW].
  generalize (tanf_accuracy xh FX HXT). intros HWacc. fold x in HWacc.
  set (wt := tanf xh) in *. set (w := R32 wt) in *.
  assert (Htan : 0.9999 * x <= tan x) by (apply tan_ge_x; lra).
  assert (Hwlo : 0.9999 * (1 - / 131072) * x <= w).
  { apply Rabs_le_inv in HWacc.
    assert (T_EPS * tan x <= / 131072 * tan x) by (apply Rmult_le_compat_r; lra).
    lra. }
  (* the coefficients *)
  generalize (coeff_arith wt W_EPS W_EPS_range FW). fold w. intros HC.
  specialize (HC ltac:(lra)). cbv zeta in HC.
  destruct HC as (Fa1 & Fb & [Hb0 Hb1] & [Ha0 Ha1] & HDC & HE).
  set (a1 := fdiv (fsub wt f_1) (fadd f_1 wt)) in *.
  set (b := fdiv wt (fadd f_1 wt)) in *.
  exists (mkCoeffs a1 f_0 b b f_0), x, w.
  assert (Hb2 : rnd ((1 + W_EPS) / 2) <= / 2 + / 2097152).
  { replace (/ 2 + / 2097152) with (IZR 1048577 / IZR 2097152) by lra.
    rewrite <- (rnd_id (IZR 1048577 / IZR 2097152)).
    - apply rnd_le. lra.
    - apply (fmt_div_pow2 1048577 21); [lia|lia|reflexivity]. }
  assert (Ha2 : rnd (W_EPS / 2) <= / 2097152).
  { replace (/ 2097152) with (IZR 1 / IZR 2097152) by lra.
    rewrite <- (rnd_id (IZR 1 / IZR 2097152)).
    - apply rnd_le. lra.
    - apply (fmt_div_pow2 1 21); [lia|lia|reflexivity]. }
  split.
  { unfold from_params. rewrite Hguard. reflexivity. }
  split.
  { unfold good'. cbn [k_a1 k_a2 k_b0 k_b1 k_b2]. repeat split; auto; lra. }
  split.
  { unfold speed. cbn [k_a1].
    apply Rabs_le_inv in HE.
    set (iF := / F).
    assert (HiF : / 48000 <= iF <= / 100).
    { unfold iF. split; apply Rinv_le_contravar; lra. }
    replace (0.6 / F) with (0.6 * iF) by (unfold iF; field; lra).
    assert (Hri : r = f * iF) by (unfold r, iF; field; lra).
    assert (Hrlo : 13421773 / 134217728 * iF <= r).
    { rewrite Hri. apply Rmult_le_compat_r; lra. }
    assert (Hiw : iF * w <= / 100 * w) by (apply Rmult_le_compat_r; lra).
    assert (HEq : 0.6 * iF + 2 * / 16777216 <= 1 + (w - 1) / (1 + w)).
    { replace (1 + (w - 1) / (1 + w)) with (2 * w / (1 + w)) by (field; lra).
      apply div_ge_c; [lra|]. unfold P_LO in HX. lra. }
    lra. }
  cbn [k_a1 k_b0]. fold r.
  repeat split; try lra; auto.
Qed.


(** ** the state of a processor created for the sample rate [fs] *)

Definition ginv (fs : f32) (g : glide) : Prop :=
  g_fs g = fs /\ g_max_fc g = fdiv fs GL_DIV /\ g_min_fc g = GL_MIN_FC.

(** what is known of every coefficient set in force: [good'], the speed bound, and the
    sharp upper bounds in terms of the range constant [W_EPS] of [tanf] *)
Definition cgood (fs : f32) (c : coeffs) : Prop :=
  good' c /\ 0.6 / R32 fs <= speed c /\
  R32 (k_b0 c) <= rnd ((1 + W_EPS) / 2) /\ R32 (k_a1 c) <= rnd (W_EPS / 2).

(** [fs / 4] is exact *)
Lemma max_fc_val : forall fs, glide_fs_ok fs ->
  fin (fdiv fs GL_DIV) /\ R32 (fdiv fs GL_DIV) = R32 fs / 4.
Proof.
  intros fs [Ffs Hfs].
  destruct (fdiv_exact fs GL_DIV Ffs fin_DIV) as [V F].
  - rewrite R32_DIV. lra.
  - rewrite R32_DIV. replace (R32 fs / 4) with (R32 fs / 2 / 2) by field.
    apply fmt_half; [apply fmt_half; [apply fmt_R32|]|]; rewrite Rabs_pos_eq; lra.
  - rewrite R32_DIV. apply lt_MAXF. rewrite Rabs_pos_eq; lra.
  - rewrite R32_DIV in V. split; assumption.
Qed.

(** the time whose reciprocal is taken: both zeros are replaced by [+0.0] *)
Definition t_eff (t : f32) : f32 := if feq t f_0 then f_0 else t.

Lemma feq_zero_cases : forall t : f32, feq t f_0 = true <-> exists s, t = B754_zero s.
Proof.
  intros [s|s| |s m e H]; unfold feq, f_0, Beqb, SpecFloat.SFeqb, SpecFloat.SFcompare; simpl.
  - split; [intros _; now exists s|reflexivity].
  - split; [destruct s; discriminate|intros [s' E]; discriminate E].
  - split; [discriminate|intros [s' E]; discriminate E].
  - split; [destruct s; discriminate|intros [s' E]; discriminate E].
Qed.

Lemma t_eff_zero : forall s, t_eff (B754_zero s) = f_0.
Proof. intros s. destruct s; reflexivity. Qed.

Lemma t_eff_inf : forall s, t_eff (B754_infinity s) = B754_infinity s.
Proof. intros s. destruct s; reflexivity. Qed.

Lemma t_eff_nz : forall t : f32, R32 t <> 0 -> t_eff t = t.
Proof.
  intros t Hnz. unfold t_eff. destruct (feq t f_0) eqn:E; [|reflexivity].
  apply feq_zero_cases in E. destruct E as [s ->]. exfalso. apply Hnz. reflexivity.
Qed.

(** the clamp of [glide_f0], whatever the requested time (NaN and infinities included) *)
Lemma f0_clamp : forall fs g t, glide_fs_ok fs -> ginv fs g ->
  let x := fdiv f_1 (t_eff t) in
  let r := glide_f0 g t in
  fin r /\ R32 GL_MIN_FC <= R32 r <= R32 fs / 4 /\
  (fin x -> R32 GL_MIN_FC <= R32 x <= R32 fs / 4 -> r = x) /\
  (fin x -> R32 x < R32 GL_MIN_FC -> r = GL_MIN_FC) /\
  (fin x -> R32 fs / 4 < R32 x -> r = fdiv fs GL_DIV) /\
  (x = B754_infinity false -> r = fdiv fs GL_DIV).
Proof.
  intros fs g t Hfs (E1 & E2 & E3) x r.
  destruct (max_fc_val fs Hfs) as [Fm Vm].
  assert (Hle : R32 GL_MIN_FC <= R32 (fdiv fs GL_DIV)).
  { rewrite Vm, R32_MIN_FC. destruct Hfs as [_ Hfs]. lra. }
  generalize (clamp_maxmin x GL_MIN_FC (fdiv fs GL_DIV) fin_MIN_FC Fm Hle).
  cbv zeta. unfold r.
  change (glide_f0 g t) with (fmin (fmax x (g_min_fc g)) (g_max_fc g)).
  rewrite E2, E3, Vm.
  intros (H1 & H2 & _ & H4 & H5 & H6 & _ & H8). repeat split; tauto.
Qed.

Lemma f0_range : forall fs g t, glide_fs_ok fs -> ginv fs g ->
  fin (glide_f0 g t) /\ R32 GL_MIN_FC <= R32 (glide_f0 g t) <= R32 fs / 4.
Proof.
  intros fs g t Hfs Hg. generalize (f0_clamp fs g t Hfs Hg). cbv zeta. tauto.
Qed.

(** times of 10 s and more, and an infinite time, select the minimum cutoff *)
Lemma f0_slow : forall fs g t, glide_fs_ok fs -> ginv fs g ->
  (fin t /\ 10 <= R32 t) \/ t = B754_infinity false ->
  glide_f0 g t = GL_MIN_FC.
Proof.
  intros fs g t Hfs Hg Ht.
  generalize (f0_clamp fs g t Hfs Hg). cbv zeta. intros (_ & _ & H3 & H4 & _ & _).
  assert (Hlo : R32 GL_MIN_FC <= R32 fs / 4).
  { rewrite R32_MIN_FC. destruct Hfs as [_ Hfs]. lra. }
  destruct Ht as [[Ft Ht]|Ht].
  - rewrite (t_eff_nz t) in H3, H4 by lra.
    destruct (fdiv_correct f_1 t fin_f_1 Ft) as [V F].
    + lra.
    + rewrite R32_f_1. apply novf_pos. split.
      * apply Rlt_le, Rdiv_lt_0_compat; lra.
      * apply div_le_c; lra.
    + rewrite R32_f_1 in V.
      assert (Hle : R32 (fdiv f_1 t) <= R32 GL_MIN_FC).
      { rewrite V, <- rnd_tenth. apply rnd_le.
        apply div_le_c; [lra|]. lra. }
      destruct (Rle_lt_or_eq_dec _ _ Hle) as [Hlt|Heq].
      * apply H4; assumption.
      * rewrite H3; [|exact F|lra].
        apply f32_eq_of_R32; [exact F|exact fin_MIN_FC|exact Heq|].
        rewrite Heq, R32_MIN_FC. lra.
  - subst t. rewrite t_eff_inf in H4.
    assert (E : fdiv f_1 (B754_infinity false) = B754_zero false).
    { apply B2SF_inj. vm_compute. reflexivity. }
    rewrite E in H4. apply H4; [reflexivity|].
    rewrite R32_MIN_FC. unfold R32. simpl. lra.
Qed.

(** times below two samples (both zeros included) select the maximum cutoff *)
Lemma f0_fast : forall fs g t, glide_fs_ok fs -> ginv fs g ->
  fin t -> 0 <= R32 t < 2 / R32 fs ->
  glide_f0 g t = fdiv fs GL_DIV.
Proof.
  intros fs g t Hfs Hg Ft Ht.
  generalize (f0_clamp fs g t Hfs Hg). cbv zeta. intros (_ & _ & H3 & _ & H5 & H6).
  destruct (max_fc_val fs Hfs) as [Fm Vm].
  destruct Hfs as [Ffs Hfs]. set (F := R32 fs) in *.
  assert (Hlo : R32 GL_MIN_FC <= F / 4) by (rewrite R32_MIN_FC; lra).
  destruct (Req_dec (R32 t) 0) as [Hz|Hp].
  - destruct (fin_zero_cases t Ft Hz) as [s Hs]. subst t.
    rewrite t_eff_zero in H6.
    apply H6. apply B2SF_inj. vm_compute. reflexivity.
  - rewrite (t_eff_nz t Hp) in H3, H5, H6.
    assert (Hpos : 0 < R32 t) by lra.
    destruct (fdiv_1_pos t Ft Hpos) as [Hinf|[F1 V1]].
    + apply H6. exact Hinf.
    + assert (HtF : R32 t * F < 2).
      { apply Rmult_lt_reg_r with (/ F); [apply Rinv_0_lt_compat; lra|].
        rewrite Rmult_assoc, Rinv_r by lra. lra. }
      assert (Hge : F / 4 <= R32 (fdiv f_1 t)).
      { rewrite V1. rewrite <- Vm. rewrite <- (rnd_id (R32 (fdiv fs GL_DIV))) by apply fmt_R32.
        apply rnd_le. rewrite Vm. apply div_ge_c; lra. }
      destruct (Rle_lt_or_eq_dec _ _ Hge) as [Hlt|Heq].
      * apply H5; assumption.
      * rewrite H3; [|exact F1|lra].
        apply f32_eq_of_R32; [exact F1|exact Fm|rewrite Vm; lra|lra].
Qed.

(** every [set_time] call succeeds and installs a good coefficient set *)
Lemma hz_ok_pos : forall x : f32, fin x -> 0 < R32 x -> hz_ok x = true.
Proof.
  intros x Fx Hx. unfold hz_ok. apply flt_true; [exact fin_f_0|exact Fx|]. rewrite R32_f_0. exact Hx.
Qed.

Lemma set_time_ok : forall fs g t, glide_fs_ok fs -> ginv fs g -> cgood fs (d_c (g_lpf g)) ->
  exists g', glide_set_time g t = Some g' /\ ginv fs g' /\ cgood fs (d_c (g_lpf g')).
Proof.
  intros fs g t Hfs Hg Hc. unfold glide_set_time.
  destruct (is_almost t (g_cached_t g) GL_EPS).
  - exists g. auto.
  - destruct (f0_range fs g t Hfs Hg) as [Ff Hf].
    rewrite hz_ok_pos; [|exact Ff|rewrite R32_MIN_FC in Hf; lra].
    destruct (from_params_ok fs (glide_f0 g t) Hfs Ff Hf)
      as (c & x & w & E & Hgood & Hsp & _ & _ & _ & _ & Hsb & Hsa & _).
    destruct Hg as (E1 & E2 & E3). rewrite E1, E.
    eexists. split; [reflexivity|]. split.
    + unfold ginv. cbn [g_fs g_max_fc g_min_fc]. auto.
    + cbn [g_lpf d_c]. unfold cgood. auto.
Qed.

Lemma step_ok : forall fs g o, glide_fs_ok fs -> ginv fs g -> cgood fs (d_c (g_lpf g)) ->
  exists g', glide_step g o = Some g' /\ ginv fs g' /\ cgood fs (d_c (g_lpf g')).
Proof.
  intros fs g [t|x] Hfs Hg Hc.
  - apply set_time_ok; assumption.
  - unfold glide_step, glide_process, df1_run. cbn [fst].
    eexists. split; [reflexivity|]. split.
    + unfold ginv. cbn [g_fs g_max_fc g_min_fc]. exact Hg.
    + cbn [g_lpf d_c]. exact Hc.
Qed.

Lemma new_ok : forall fs, glide_fs_ok fs ->
  exists g0, glide_new fs = Some g0 /\ ginv fs g0 /\ cgood fs (d_c (g_lpf g0)) /\
    from_params fs (fdiv fs GL_DIV) = Some (d_c (g_lpf g0)).
Proof.
  intros fs Hfs. destruct (max_fc_val fs Hfs) as [Fm Vm].
  assert (Hf : R32 GL_MIN_FC <= R32 (fdiv fs GL_DIV) <= R32 fs / 4).
  { rewrite Vm, R32_MIN_FC. destruct Hfs as [_ Hfs]. lra. }
  destruct (from_params_ok fs (fdiv fs GL_DIV) Hfs Fm Hf)
    as (c & x & w & E & Hgood & Hsp & _ & _ & _ & _ & Hsb & Hsa & _).
  unfold glide_new. rewrite E.
  destruct Hfs as [Ffs Hfs].
  rewrite (hz_ok_pos fs) by (auto; lra).
  rewrite (hz_ok_pos (fdiv fs GL_DIV)) by (auto; rewrite Vm; lra).
  cbn [andb]. eexists. split; [reflexivity|]. split.
  - unfold ginv. cbn [g_fs g_max_fc g_min_fc]. auto.
  - cbn [g_lpf df1_new d_c]. unfold cgood. auto.
Qed.

Lemma run_ok : forall fs, glide_fs_ok fs -> forall ops g, ginv fs g -> cgood fs (d_c (g_lpf g)) ->
  (exists g', glide_after g ops = Some g' /\ ginv fs g' /\ cgood fs (d_c (g_lpf g'))) /\
  Forall (cgood fs) (coeffs_used g ops).
Proof.
  intros fs Hfs ops. induction ops as [|o ops IH]; intros g Hg Hc.
  - split.
    + exists g. simpl. auto.
    + simpl. constructor; [exact Hc|constructor].
  - destruct (step_ok fs g o Hfs Hg Hc) as (g1 & E & Hg1 & Hc1).
    destruct (IH g1 Hg1 Hc1) as [IH1 IH2].
    split.
    + cbn [glide_after]. rewrite E. exact IH1.
    + cbn [coeffs_used]. rewrite E. constructor; [exact Hc|exact IH2].
Qed.

(** C13_coeffs_good with everything known of the coefficient sets *)
Theorem coeffs_cgood_gen : forall fs ops, glide_fs_ok fs -> Forall op_time_ok ops ->
  exists g0, glide_new fs = Some g0 /\
    (exists g, glide_after g0 ops = Some g) /\
    Forall (cgood fs) (coeffs_used g0 ops).
Proof.
  intros fs ops Hfs _.
  destruct (new_ok fs Hfs) as (g0 & E & Hg & Hc & _).
  exists g0. split; [exact E|].
  destruct (run_ok fs Hfs ops g0 Hg Hc) as [(g & Eg & _) HF].
  split; [exists g; exact Eg|exact HF].
Qed.

(** C13_coeffs_good, for [good'] *)
Theorem coeffs_good_gen : forall fs ops, glide_fs_ok fs -> Forall op_time_ok ops ->
  exists g0, glide_new fs = Some g0 /\
    (exists g, glide_after g0 ops = Some g) /\
    Forall (fun c => good' c /\ 0.6 / R32 fs <= speed c) (coeffs_used g0 ops).
Proof.
  intros fs ops Hfs Hops.
  destruct (coeffs_cgood_gen fs ops Hfs Hops) as (g0 & E & Hg & HF).
  exists g0. split; [exact E|]. split; [exact Hg|].
  apply Forall_impl with (2 := HF). intros c (H1 & H2 & _). auto.
Qed.

(** C13_coeffs_good as stated, whenever the sharp bounds imply [good] *)
Theorem coeffs_good_if :
  (forall c, good' c -> R32 (k_b0 c) <= rnd ((1 + W_EPS) / 2) ->
             R32 (k_a1 c) <= rnd (W_EPS / 2) -> good c) ->
  forall fs ops, glide_fs_ok fs -> Forall op_time_ok ops ->
  exists g0, glide_new fs = Some g0 /\
    (exists g, glide_after g0 ops = Some g) /\
    Forall (fun c => good c /\ 0.6 / R32 fs <= speed c) (coeffs_used g0 ops).
Proof.
  intros Hgg fs ops Hfs Hops.
  destruct (coeffs_cgood_gen fs ops Hfs Hops) as (g0 & E & Hg & HF).
  exists g0. split; [exact E|]. split; [exact Hg|].
  apply Forall_impl with (2 := HF). intros c (H1 & H2 & H3 & H4). auto.
Qed.

(** states reachable from a new processor *)
Lemma reach_inv : forall fs g0 g, glide_fs_ok fs -> glide_new fs = Some g0 ->
  (exists ops, Forall op_time_ok ops /\ glide_after g0 ops = Some g) ->
  ginv fs g0 /\ ginv fs g /\ from_params fs (fdiv fs GL_DIV) = Some (d_c (g_lpf g0)) /\
  cgood fs (d_c (g_lpf g0)).
Proof.
  intros fs g0 g Hfs E0 (ops & _ & Eg).
  destruct (new_ok fs Hfs) as (g0' & E & Hg & Hc & Hfp).
  rewrite E in E0. injection E0 as <-.
  destruct (run_ok fs Hfs ops g0' Hg Hc) as [(g' & Eg' & Hg' & _) _].
  rewrite Eg in Eg'. injection Eg' as <-. auto.
Qed.

(** C14_slowest *)
Theorem slowest_gen : forall fs g0 g t,
  glide_fs_ok fs -> glide_new fs = Some g0 ->
  (exists ops, Forall op_time_ok ops /\ glide_after g0 ops = Some g) ->
  (fin t /\ 10 <= R32 t) \/ t = B754_infinity false ->
  glide_f0 g t = glide_f0 g (of_Z 10) /\ glide_f0 g t = g_min_fc g.
Proof.
  intros fs g0 g t Hfs E0 Hr Ht.
  destruct (reach_inv fs g0 g Hfs E0 Hr) as (_ & Hg & _).
  rewrite (f0_slow fs g t Hfs Hg Ht).
  rewrite (f0_slow fs g (of_Z 10) Hfs Hg).
  - destruct Hg as (_ & _ & E3). rewrite E3. auto.
  - left. split; [apply fin_of_Z_small; lia|].
    rewrite (R32_of_Z_small 10) by lia. lra.
Qed.

(** ** pole accuracy (C14) *)

Lemma sin_abs_le_small : forall d, Rabs d <= 1 -> Rabs (sin d) <= Rabs d.
Proof.
  intros d Hd. assert (HPI : 3 <= PI) by interval.
  destruct (Rle_or_lt 0 d) as [H|H].
  - rewrite (Rabs_pos_eq d) in * by exact H.
    destruct (Req_dec d 0) as [Hz|Hn].
    { subst d. rewrite sin_0, Rabs_R0. lra. }
    rewrite Rabs_pos_eq.
    + apply Rlt_le, sin_lt_x. lra.
    + apply sin_ge_0; lra.
  - rewrite (Rabs_left d) in * by exact H.
    rewrite <- Rabs_Ropp, <- sin_neg. rewrite Rabs_pos_eq.
    + apply Rlt_le, sin_lt_x. lra.
    + apply sin_ge_0; lra.
Qed.

Lemma cos_small : forall x, 0 <= x <= 0.0317 -> 0.9994 <= cos x.
Proof. intros x H. interval. Qed.

Lemma tan_small_ub : forall x, 0 <= x <= 0.0317 -> tan x <= 0.0318.
Proof. intros x H. interval. Qed.

Lemma PI_bounds : 3.14159265358 <= PI <= 3.14159265359.
Proof. split; interval. Qed.

Theorem pole_accuracy_gen : forall fs g0 t c,
  glide_fs_ok fs -> glide_new fs = Some g0 -> glide_time_ok t -> 100 <= R32 t * R32 fs ->
  coeffs_for g0 t = Some c ->
  let p0 := ideal_pole (R32 t * R32 fs) in
  cgood fs c /\ Rabs (pole c - p0) <= / 65536 * (1 - p0) + 4 * / 16777216.
Proof.
  intros fs g0 t c Hfs E0 [Ft Ht] HN Ec p0.
  destruct (new_ok fs Hfs) as (g0' & E & Hg & _). rewrite E in E0. injection E0 as ->.
  generalize (f0_clamp fs g0 t Hfs Hg). cbv zeta. intros (_ & _ & H3 & _).
  pose proof Hfs as [Ffs HF].
  set (F := R32 fs) in *. set (T := R32 t) in *.
  assert (HTF : T * F <= 480000).
  { replace 480000 with (10 * 48000) by lra. apply Rmult_le_compat; lra. }
  assert (HT : 100 / 48000 <= T).
  { assert (T * F <= T * 48000) by (apply Rmult_le_compat_l; lra). lra. }
  rewrite (t_eff_nz t) in H3 by (fold T; lra).
  (* 1 / t *)
  set (it := 1 / T).
  assert (Hit : /10 <= it <= F / 100).
  { unfold it. split; [apply div_ge_c|apply div_le_c]; lra. }
  destruct (fdiv_correct f_1 t fin_f_1 Ft) as [V1 F1].
  { fold T. lra. }
  { rewrite R32_f_1. fold T it. apply novf_pos. lra. }
  rewrite R32_f_1 in V1. fold T it in V1.
  set (x1 := fdiv f_1 t) in *. set (f := R32 x1) in *.
  assert (Hf : it * (1 - / 16777216) <= f <= it * (1 + / 16777216)).
  { rewrite V1. apply rnd_rel_pos; lra. }
  assert (Hflo : R32 GL_MIN_FC <= f).
  { rewrite V1, <- rnd_tenth. apply rnd_le. lra. }
  assert (Hfr : R32 GL_MIN_FC <= f <= F / 4) by lra.
  unfold coeffs_for in Ec. rewrite (H3 F1 Hfr) in Ec.
  destruct Hg as (Eg1 & _). rewrite Eg1 in Ec.
  destruct (from_params_ok fs x1 Hfs F1 Hfr)
    as (c' & x & w & E' & Hgood & Hsp & HX & HX1 & Hacc & HW & Hsb & Hsa & HE).
  rewrite E' in Ec. injection Ec as ->.
  split; [unfold cgood; auto|].
  fold f F in HX.
  (* x against z = PI / N *)
  set (q := 1 / (T * F)).
  assert (Hq : / 480000 <= q <= / 100).
  { unfold q. split; [apply div_ge_c|apply div_le_c]; lra. }
  assert (Hfq : q * (1 - / 16777216) <= f / F <= q * (1 + / 16777216)).
  { assert (HiF : 0 < / F) by (apply Rinv_0_lt_compat; lra).
    replace q with (it * / F) by (unfold q, it; field; lra).
    change (f / F) with (f * / F). split.
    - replace (it * / F * (1 - / 16777216)) with (it * (1 - / 16777216) * / F) by ring.
      apply Rmult_le_compat_r; lra.
    - replace (it * / F * (1 + / 16777216)) with (it * (1 + / 16777216) * / F) by ring.
      apply Rmult_le_compat_r; lra. }
  generalize PI_bounds. intros HPI.
  set (z := PI * q).
  assert (Hp0 : p0 = (1 - tan z) / (1 + tan z)).
  { unfold p0, ideal_pole. replace (PI / (T * F)) with z by (unfold z, q; field; lra). reflexivity. }
  assert (Hz : 6 / 1000000 <= z <= 0.031416).
  { unfold z. split.
    - apply Rle_trans with (3 * q); [lra|]. apply Rmult_le_compat_r; lra.
    - apply Rle_trans with (PI * / 100); [|lra]. apply Rmult_le_compat_l; lra. }
  assert (Hxz : z * (1 - 2.1 / 10000000) <= x <= z * (1 + 2.1 / 10000000)).
  { unfold P_LO, P_HI in HX.
    assert (H1 : PI * (1 - 2.1 / 10000000) * q
                 <= 13176795 / 4194304 * (1 - / 16777216) * (1 - / 16777216) * (1 - / 16777216) * q).
    { apply Rmult_le_compat_r; lra. }
    assert (H2 : 13176795 / 4194304 * (1 + / 16777216) * (1 + / 16777216) * (1 + / 16777216) * q
                 <= PI * (1 + 2.1 / 10000000) * q).
    { apply Rmult_le_compat_r; lra. }
    unfold z. lra. }
  (* tan x against W = tan z *)
  set (W := tan z). set (tx := tan x) in *.
  assert (Hcx : 0.9994 <= cos x) by (apply cos_small; lra).
  assert (Hcz : 0.9994 <= cos z) by (apply cos_small; lra).
  assert (HC : 0.9988 <= cos x * cos z).
  { apply Rle_trans with (0.9994 * 0.9994); [lra|]. apply Rmult_le_compat; lra. }
  assert (HS : Rabs (sin (x - z)) <= 2.1 / 10000000 * z).
  { apply Rle_trans with (Rabs (x - z)).
    - apply sin_abs_le_small. apply Rabs_le_both. lra.
    - apply Rabs_le_both. lra. }
  apply Rabs_le_inv in HS.
  assert (Hdiff : tx - W = sin (x - z) / (cos x * cos z)).
  { unfold tx, W. apply tan_diff; lra. }
  assert (HzC : z * 0.9988 <= z * (cos x * cos z)) by (apply Rmult_le_compat_l; lra).
  assert (HtxW : - (2.103 / 10000000 * z) <= tx - W <= 2.103 / 10000000 * z).
  { rewrite Hdiff. split; [apply div_ge_c|apply div_le_c]; lra. }
  assert (HzW : z <= 1.00001 * W) by (apply tan_small_le; lra).
  assert (HW0 : 0 < W) by (apply tan_pos_small; lra).
  assert (HW1 : W <= 0.0318) by (apply tan_small_ub; lra).
  assert (Htx0 : 0 < tx) by lra.
  (* w against W *)
  apply Rabs_le_inv in Hacc.
  assert (HTe : T_EPS * tx <= / 131072 * tx) by (apply Rmult_le_compat_r; lra).
  assert (HwW : - (7.85 / 1000000 * W) <= w - W <= 7.85 / 1000000 * W) by lra.
  (* the poles *)
  set (G := 2 / (1 + W)).
  assert (HG : 0 < G) by (apply Rdiv_lt_0_compat; lra).
  set (y := (w - W) / (1 + w)).
  assert (HWw : 0 <= W * w) by (apply Rmult_le_pos; lra).
  assert (Hy : - (7.85 / 1000000 * W) <= y <= 7.85 / 1000000 * W).
  { unfold y. split; [apply div_ge_c|apply div_le_c]; lra. }
  assert (Hid : - ((w - 1) / (1 + w)) - p0 = - (G * y)).
  { rewrite Hp0. fold W. unfold G, y. field. lra. }
  assert (H1p : 1 - p0 = G * W).
  { rewrite Hp0. fold W. unfold G. field. lra. }
  assert (HGy1 : G * y <= G * (7.85 / 1000000 * W)) by (apply Rmult_le_compat_l; lra).
  assert (HGy2 : G * (- (7.85 / 1000000 * W)) <= G * y) by (apply Rmult_le_compat_l; lra).
  assert (HGW : 0 <= G * W) by (apply Rmult_le_pos; lra).
  apply Rabs_le_inv in HE.
  unfold pole. rewrite H1p. apply Rabs_le_both. lra.
Qed.

(** C14_pole_accuracy as stated, whenever the sharp bounds imply [good] *)
Theorem pole_accuracy_if :
  (forall c, good' c -> R32 (k_b0 c) <= rnd ((1 + W_EPS) / 2) ->
             R32 (k_a1 c) <= rnd (W_EPS / 2) -> good c) ->
  forall fs g0 t c,
  glide_fs_ok fs -> glide_new fs = Some g0 -> glide_time_ok t -> 100 <= R32 t * R32 fs ->
  coeffs_for g0 t = Some c ->
  let p0 := ideal_pole (R32 t * R32 fs) in
  good c /\ Rabs (pole c - p0) <= / 65536 * (1 - p0) + 4 * / 16777216.
Proof.
  intros Hgg fs g0 t c Hfs E0 Ht HN Ec.
  generalize (pole_accuracy_gen fs g0 t c Hfs E0 Ht HN Ec). cbv zeta.
  intros [(H1 & _ & H3 & H4) H2]. auto.
Qed.

(** C14_fastest.  History: with the original [glide_f0] (reciprocal of [t] itself) this was
    false for [t = -0.0] ([1 / -0.0 = -infinity] is clamped to the MINIMUM cutoff); the
    code and the model now map both zeros to [+0.0] first. *)
Theorem fastest_gen : T_EPS <= / 1048576 -> forall fs g0 g t,
  glide_fs_ok fs -> glide_new fs = Some g0 ->
  (exists ops, Forall op_time_ok ops /\ glide_after g0 ops = Some g) ->
  fin t -> 0 <= R32 t < 2 / R32 fs ->
  coeffs_for g t = Some (d_c (g_lpf g0)) /\
  Rabs (pole (d_c (g_lpf g0))) <= / 1048576.
Proof.
  intros HT20 fs g0 g t Hfs E0 Hr Ft Ht.
  destruct (reach_inv fs g0 g Hfs E0 Hr) as (_ & Hg & Hfp & _).
  split.
  - unfold coeffs_for. rewrite (f0_fast fs g t Hfs Hg Ft Ht).
    destruct Hg as (E1 & _). rewrite E1. exact Hfp.
  - destruct (max_fc_val fs Hfs) as [Fm Vm].
    pose proof Hfs as [Ffs HF]. set (F := R32 fs) in *.
    assert (Hf : R32 GL_MIN_FC <= R32 (fdiv fs GL_DIV) <= F / 4).
    { rewrite Vm, R32_MIN_FC. lra. }
    destruct (from_params_ok fs (fdiv fs GL_DIV) Hfs Fm Hf)
      as (c & x & w & E & Hgood & _ & HX & HX1 & Hacc & HW & _ & _ & HE).
    rewrite E in Hfp. injection Hfp as <-.
    rewrite Vm in HX. fold F in HX.
    replace (F / 4 / F) with (/ 4) in HX by (field; lra).
    unfold P_LO, P_HI in HX.
    assert (Htan : 1 - 3.2 / 10000000 <= tan x).
    { assert (Hx : 0.78539801 <= x <= 0.7853984) by lra. revert Hx. clear. intros Hx. interval. }
    apply Rabs_le_inv in Hacc.
    assert (HTe : T_EPS * tan x <= / 1048576 * tan x) by (apply Rmult_le_compat_r; lra).
    assert (Hwlo : 1 - 1.274 / 1000000 <= w) by lra.
    assert (HElo : - (6.4 / 10000000) <= (w - 1) / (1 + w)) by (apply div_ge_c; lra).
    apply Rabs_le_inv in HE.
    destruct Hgood as (_ & _ & _ & _ & _ & _ & [_ Ha1] & _).
    unfold pole. rewrite Rabs_Ropp. apply Rabs_le_both. lra.
Qed.
End Generic.

(** ** the dead band (C14): no dependency on [tanf] *)

Theorem dead_band : forall g t,
  (is_almost t (g_cached_t g) GL_EPS = true -> glide_set_time g t = Some g) /\
  (is_almost t (g_cached_t g) GL_EPS = false ->
   forall g', glide_set_time g t = Some g' ->
     g_cached_t g' = t /\ Some (d_c (g_lpf g')) = coeffs_for g t /\
     d_y1 (g_lpf g') = d_y1 (g_lpf g) /\ d_x1 (g_lpf g') = d_x1 (g_lpf g)).
Proof.
  intros g t. unfold glide_set_time, coeffs_for. split; intros H; rewrite H; [reflexivity|].
  intros g'. destruct (hz_ok (glide_f0 g t)); [|discriminate].
  destruct (from_params (g_fs g) (glide_f0 g t)) as [c|]; [|discriminate].
  intros E. injection E as <-. cbn [g_cached_t g_lpf d_c d_y1 d_x1]. auto.
Qed.

Theorem dead_band_test : forall t c, fin t -> fin c ->
  Rabs (R32 t - R32 c) <= 1000000 ->
  (is_almost t c GL_EPS = true <-> Rabs (rnd (R32 t - R32 c)) <= R32 GL_EPS) /\
  R32 GL_EPS = 13421773 / 268435456.
Proof.
  intros t c Ft Fc H. split; [|exact R32_EPS].
  destruct (fsub_correct t c Ft Fc) as [V F].
  { apply novf. lra. }
  destruct (fabs_correct (fsub t c) F) as [Fa Va].
  unfold is_almost. rewrite (fle_true _ _ Fa fin_EPS). rewrite Va, V. tauto.
Qed.
