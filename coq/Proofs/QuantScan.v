(** Integer part of the quantizer proofs (used by Proofs/QuantProofs.v):
    the search loop [scan] on ascending candidate lists, the three-octave search against
    all 132 notes, and monotonicity of the characterised result. *)
From Coq Require Import ZArith Lia Bool List Sorted.
Import ListNotations.
From SU Require Import F32.
From SU.gen Require Import Consts.
From SU.Model Require Import Quantizer.
From SU.Spec Require Import QuantSpec.
Open Scope Z_scope.

Ltac consts :=
  unfold HALF, OCT, HALF_STEP_IN_MICROVOLTS, ONE_OCTAVE_IN_MICROVOLTS, MAX_OCTAVE, U32_MAX in *.

(** [lia] extended with division / modulo by constants *)
Ltac dlia := Z.div_mod_to_equations; lia.

Lemma delta_abs : forall a b, delta a b = Z.abs (a - b).
Proof. intros a b. unfold delta. destruct (Z.ltb_spec a b); lia. Qed.

(** * The loop on a strictly ascending list *)

Definition scan_spec (vin : Z) (L : list Z) (r : Z) : Prop :=
  In r L /\
  ( (Z.abs (vin - r) < HALF /\
     forall c, In c L -> Z.abs (vin - c) < HALF -> r <= c)
    \/
    ((forall c, In c L -> HALF <= Z.abs (vin - c)) /\
     forall c, In c L ->
       Z.abs (vin - r) < Z.abs (vin - c) \/ (Z.abs (vin - r) = Z.abs (vin - c) /\ r <= c)) ).

Lemma scan_go : forall vin L b,
  StronglySorted Z.lt (b :: L) -> HALF <= Z.abs (vin - b) ->
  scan_spec vin (b :: L) (scan L vin b (Z.abs (vin - b))).
Proof.
  intros vin L. induction L as [|c rest IH]; intros b Hs Hb.
  - cbn [scan]. split; [left; reflexivity|]. right.
    split; intros c [<-|[]]; lia.
  - cbn [scan]. rewrite delta_abs.
    inversion Hs as [|? ? Hs' Hall]; subst.
    inversion Hs' as [|? ? Hs'' Hall']; subst.
    inversion Hall as [|? ? Hbc Hall'']; subst.
    rewrite Forall_forall in Hall', Hall''.
    destruct (Z.ltb_spec (Z.abs (vin - c)) HALF) as [H1|H1].
    { (* first early return *)
      split; [right; left; reflexivity|]. left. split; [exact H1|].
      intros c' [<-|[<-|Hin]] Hc'; try lia.
      apply Hall' in Hin. lia. }
    destruct (Z.ltb_spec (Z.abs (vin - b)) (Z.abs (vin - c))) as [H2|H2].
    { (* second early return: we are past the input *)
      split; [left; reflexivity|]. right. split.
      - intros c' [<-|[<-|Hin]]; try lia. apply Hall' in Hin. lia.
      - intros c' [<-|[<-|Hin]]; try lia. apply Hall' in Hin. lia. }
    destruct (Z.ltb_spec (Z.abs (vin - c)) (Z.abs (vin - b))) as [H3|H3].
    { (* new best *)
      specialize (IH c Hs' H1).
      set (r := scan rest vin c (Z.abs (vin - c))) in *.
      destruct IH as [Hin [[Hd Hmin]|[Hge Hmin]]].
      - split; [right; exact Hin|]. left. split; [exact Hd|].
        intros c' [<-|Hc'] Hlt; [lia|]. now apply Hmin.
      - split; [right; exact Hin|]. right. split.
        + intros c' [<-|Hc']; [lia|]. now apply Hge.
        + intros c' [<-|Hc']; [|now apply Hmin].
          specialize (Hmin c (or_introl eq_refl)). lia. }
    { (* tie: the earlier one stays *)
      assert (Hsb : StronglySorted Z.lt (b :: rest)).
      { constructor; [exact Hs''|]. rewrite Forall_forall. exact Hall''. }
      specialize (IH b Hsb Hb).
      set (r := scan rest vin b (Z.abs (vin - b))) in *.
      destruct IH as [Hin [[Hd Hmin]|[Hge Hmin]]].
      - split; [destruct Hin as [<-|Hin]; [left; reflexivity|right; right; exact Hin]|].
        left. split; [exact Hd|].
        intros c' [<-|[<-|Hc']] Hlt; try lia.
        apply Hmin; [right; exact Hc'|exact Hlt].
      - split; [destruct Hin as [<-|Hin]; [left; reflexivity|right; right; exact Hin]|].
        right. split.
        + intros c' [<-|[<-|Hc']]; try lia. apply Hge. right; exact Hc'.
        + intros c' [<-|[<-|Hc']].
          * apply Hmin. left; reflexivity.
          * specialize (Hmin b (or_introl eq_refl)). lia.
          * apply Hmin. right; exact Hc'. }
Qed.

Lemma scan_init : forall vin c rest,
  StronglySorted Z.lt (c :: rest) -> Z.abs (vin - c) < U32_MAX ->
  scan_spec vin (c :: rest) (scan (c :: rest) vin 0 U32_MAX).
Proof.
  intros vin c rest Hs Hlt. cbn [scan]. rewrite delta_abs.
  destruct (Z.ltb_spec (Z.abs (vin - c)) HALF) as [H1|H1].
  - inversion Hs as [|? ? Hs' Hall]; subst. rewrite Forall_forall in Hall.
    split; [left; reflexivity|]. left. split; [exact H1|].
    intros c' [<-|Hin] _; [lia|]. apply Hall in Hin. lia.
  - destruct (Z.ltb_spec U32_MAX (Z.abs (vin - c))) as [H2|H2]; [lia|].
    destruct (Z.ltb_spec (Z.abs (vin - c)) U32_MAX) as [H3|H3]; [|lia].
    now apply scan_go.
Qed.

(** * The candidate lists *)

Lemma in_octave_cands : forall a o c,
  In c (octave_cands a o) <->
  exists n, 0 <= n <= 11 /\ Z.testbit a n = true /\ c = n * HALF + o * OCT.
Proof.
  intros a o c. unfold octave_cands. rewrite in_map_iff. split.
  - intros [n [Hc Hn]]. apply filter_In in Hn. destruct Hn as [Hn Hb].
    exists n. unfold bit_allowed in Hb. cbn [In] in Hn. repeat split; try lia. exact Hb.
  - intros [n [Hn [Hb Hc]]]. exists n. split; [lia|]. apply filter_In. split.
    + cbn [In]. lia.
    + exact Hb.
Qed.

Lemma map_filter_sorted : forall (f : Z -> Z) (p : Z -> bool) l,
  (forall x y, x < y -> f x < f y) ->
  StronglySorted Z.lt l -> StronglySorted Z.lt (map f (filter p l)).
Proof.
  intros f p l Hf Hs. induction Hs as [|x l Hs IH Hall].
  - constructor.
  - cbn [filter]. destruct (p x); [|exact IH]. cbn [map]. constructor; [exact IH|].
    rewrite Forall_forall in *. intros y Hy. apply in_map_iff in Hy.
    destruct Hy as [z [<- Hz]]. apply filter_In in Hz. apply Hf, Hall, Hz.
Qed.

Lemma octave_cands_sorted : forall a o, StronglySorted Z.lt (octave_cands a o).
Proof.
  intros a o. unfold octave_cands. apply map_filter_sorted.
  - intros x y H. consts. lia.
  - repeat constructor; lia.
Qed.

Lemma app_sorted : forall l1 l2 : list Z,
  StronglySorted Z.lt l1 -> StronglySorted Z.lt l2 ->
  (forall x y, In x l1 -> In y l2 -> x < y) -> StronglySorted Z.lt (l1 ++ l2).
Proof.
  intros l1 l2 H1 H2. induction H1 as [|x l1 H1 IH Hall]; intros H.
  - exact H2.
  - cbn [app]. constructor.
    + apply IH. intros a b Ha Hb. apply H; [right; exact Ha|exact Hb].
    + rewrite Forall_forall in *. intros y Hy. apply in_app_or in Hy.
      destruct Hy as [Hy|Hy]; [now apply Hall|]. apply H; [left; reflexivity|exact Hy].
Qed.

Lemma flat_map_sorted : forall a os,
  StronglySorted Z.lt os -> StronglySorted Z.lt (flat_map (octave_cands a) os).
Proof.
  intros a os Hs. induction Hs as [|o os Hs IH Hall].
  - constructor.
  - cbn [flat_map]. apply app_sorted; [apply octave_cands_sorted|exact IH|].
    intros x y Hx Hy. apply in_octave_cands in Hx. destruct Hx as [n [Hn [_ ->]]].
    apply in_flat_map in Hy. destruct Hy as [o' [Ho' Hy]].
    apply in_octave_cands in Hy. destruct Hy as [n' [Hn' [_ ->]]].
    rewrite Forall_forall in Hall. apply Hall in Ho'. consts. lia.
Qed.

Lemma in_octaves : forall k o,
  In o (octaves_to_search k) <->
  (o = k \/ (o = k - 1 /\ 1 <= k) \/ (o = k + 1 /\ k < 10)).
Proof.
  intros k o. unfold octaves_to_search, MAX_OCTAVE.
  destruct (Z.leb_spec 1 k), (Z.ltb_spec k 10); cbn [app In]; lia.
Qed.

Lemma octaves_sorted : forall k, StronglySorted Z.lt (octaves_to_search k).
Proof.
  intros k. unfold octaves_to_search, MAX_OCTAVE.
  destruct (Z.leb_spec 1 k), (Z.ltb_spec k 10); cbn [app]; repeat constructor; lia.
Qed.

Definition searched (a vin : Z) : list Z :=
  flat_map (octave_cands a) (octaves_to_search (vin / OCT)).

Lemma in_searched : forall a vin c,
  In c (searched a vin) <->
  exists o n, (o = vin / OCT \/ (o = vin / OCT - 1 /\ 1 <= vin / OCT)
               \/ (o = vin / OCT + 1 /\ vin / OCT < 10)) /\
              0 <= n <= 11 /\ Z.testbit a n = true /\ c = n * HALF + o * OCT.
Proof.
  intros a vin c. unfold searched. rewrite in_flat_map. split.
  - intros [o [Ho Hc]]. apply in_octaves in Ho. apply in_octave_cands in Hc.
    destruct Hc as [n Hn]. exists o, n. tauto.
  - intros [o [n [Ho Hn]]]. exists o. split; [now apply in_octaves|].
    apply in_octave_cands. now exists n.
Qed.

Lemma searched_sorted : forall a vin, StronglySorted Z.lt (searched a vin).
Proof. intros a vin. apply flat_map_sorted, octaves_sorted. Qed.

(** a valid mask has a set bit among the 12 low ones *)
Lemma mask_has_bit : forall a, valid_mask a -> exists n, 0 <= n <= 11 /\ Z.testbit a n = true.
Proof.
  intros a [H0 H1]. exists (Z.log2 a). split.
  - pose proof (Z.log2_nonneg a). change 4096 with (2 ^ 12) in H1.
    apply Z.log2_lt_pow2 in H1; lia.
  - now apply Z.bit_log2.
Qed.

(** * Note numbers *)

Lemma in_all_notes : forall N, In N all_notes <-> 0 <= N < 132.
Proof.
  intros N. unfold all_notes.
  change (Z.to_nat (12 * (MAX_OCTAVE + 1))) with 132%nat.
  rewrite in_map_iff. split.
  - intros [n [<- Hn]]. apply in_seq in Hn. lia.
  - intros H. exists (Z.to_nat N). split; [lia|]. apply in_seq. lia.
Qed.

Lemma cand_le_inv : forall R N, 0 <= R < 132 -> 0 <= N < 132 -> cand R <= cand N -> R <= N.
Proof. intros R N HR HN. unfold cand. consts. dlia. Qed.

Lemma cand_lt : forall R N, 0 <= R < 132 -> 0 <= N < 132 -> R < N -> cand R < cand N.
Proof. intros R N HR HN. unfold cand. consts. dlia. Qed.

(** a searched candidate is the voltage of its note number *)
Lemma cand_of_uv : forall n o, 0 <= n <= 11 -> 0 <= o <= 10 ->
  let uv := n * HALF + o * OCT in
  uv / HALF = n + 12 * o /\ cand (uv / HALF) = uv.
Proof.
  intros n o Hn Ho uv.
  assert (E : uv / HALF = n + 12 * o).
  { subst uv. consts. dlia. }
  split; [exact E|]. rewrite E. subst uv. unfold cand. consts. dlia.
Qed.

(** an allowed note outside the searched octaves is not within a semitone and is beaten
    by the same pitch class in a searched octave *)
Lemma outside_worse : forall a vin N,
  0 <= vin <= 10000000 -> 0 <= N < 132 -> note_allowed a N = true ->
  In (cand N) (searched a vin) \/
  (HALF <= Z.abs (vin - cand N) /\
   exists c', In c' (searched a vin) /\ Z.abs (vin - c') < Z.abs (vin - cand N)).
Proof.
  intros a vin N Hv HN Hal. unfold note_allowed, bit_allowed in Hal.
  set (k := vin / OCT).
  assert (Hk : k * 1000000 <= vin < (k + 1) * 1000000 /\ 0 <= k <= 10).
  { subst k. consts. dlia. }
  set (n := N mod 12) in *. set (o := N / 12).
  assert (Hn : 0 <= n <= 11) by (subst n; dlia).
  assert (Ho : 0 <= o <= 10) by (subst o; dlia).
  assert (Hc : cand N = n * HALF + o * OCT) by reflexivity.
  assert (Hcase : o = k \/ (o = k - 1 /\ 1 <= k) \/ (o = k + 1 /\ k < 10)
                  \/ o < k - 1 \/ k + 1 < o) by lia.
  destruct Hcase as [Hc1|[Hc2|[Hc3|[Hlo|Hhi]]]].
  - left. apply in_searched. exists o, n. fold k. tauto.
  - left. apply in_searched. exists o, n. fold k. tauto.
  - left. apply in_searched. exists o, n. fold k. tauto.
  - right. split; [rewrite Hc; consts; lia|].
    exists (n * HALF + (k - 1) * OCT). split.
    + apply in_searched. exists (k - 1), n. fold k. repeat split; try lia. exact Hal.
    + rewrite Hc. consts. lia.
  - right. split; [rewrite Hc; consts; lia|].
    exists (n * HALF + (k + 1) * OCT). split.
    + apply in_searched. exists (k + 1), n. fold k. repeat split; try lia. exact Hal.
    + rewrite Hc. consts. lia.
Qed.

(** * The search against all notes *)

Theorem search_correct : forall a vin,
  valid_mask a -> 0 <= vin <= 10000000 ->
  let uv := find_nearest_uv a vin in
  nearest_spec a vin (uv / HALF) /\ uv = cand (uv / HALF) /\ 0 <= uv / HALF < 132.
Proof.
  intros a vin Ha Hv uv.
  assert (Hk : (vin / OCT) * 1000000 <= vin < (vin / OCT + 1) * 1000000 /\ 0 <= vin / OCT <= 10).
  { consts. dlia. }
  assert (Hsp : scan_spec vin (searched a vin) uv).
  { subst uv. unfold find_nearest_uv. fold (searched a vin).
    pose proof (searched_sorted a vin) as Hs.
    destruct (mask_has_bit a Ha) as [n0 [Hn0 Hb0]].
    assert (Hne : In (n0 * HALF + (vin / OCT) * OCT) (searched a vin)).
    { apply in_searched. exists (vin / OCT), n0. tauto. }
    assert (Hbd : forall c, In c (searched a vin) -> Z.abs (vin - c) < U32_MAX).
    { intros c Hc. apply in_searched in Hc. destruct Hc as [o [n [Ho [Hn [_ ->]]]]].
      consts. lia. }
    destruct (searched a vin) as [|c rest]; [destruct Hne|].
    apply scan_init; [exact Hs|]. apply Hbd. left; reflexivity. }
  destruct Hsp as [Hin Hsp].
  pose proof Hin as Hin'. apply in_searched in Hin'.
  destruct Hin' as [o [n [Ho [Hn [Hb Huv]]]]].
  assert (Ho' : 0 <= o <= 10) by lia.
  destruct (cand_of_uv n o Hn Ho') as [ER EC]. cbv zeta in ER, EC. rewrite <- Huv in ER, EC.
  assert (HR : 0 <= uv / HALF < 132) by lia.
  assert (Hal : note_allowed a (uv / HALF) = true).
  { unfold note_allowed, bit_allowed. rewrite ER.
    replace ((n + 12 * o) mod 12) with n by dlia. exact Hb. }
  split; [|split; [symmetry; exact EC|exact HR]].
  split; [now apply in_all_notes|]. split; [exact Hal|].
  unfold dist. rewrite EC.
  destruct Hsp as [[Hd Hmin]|[Hge Hmin]].
  - left. split; [exact Hd|].
    intros N [HN [HNa HNd]]. apply in_all_notes in HN. unfold dist in HNd.
    destruct (outside_worse a vin N Hv HN HNa) as [Hs|[Hfar _]]; [|lia].
    apply cand_le_inv; try assumption. rewrite EC. now apply Hmin.
  - right. split.
    + intros N [HN [HNa HNd]]. apply in_all_notes in HN. unfold dist in HNd.
      destruct (outside_worse a vin N Hv HN HNa) as [Hs|[Hfar _]]; [|lia].
      apply Hge in Hs. lia.
    + intros N HN HNa. apply in_all_notes in HN.
      destruct (outside_worse a vin N Hv HN HNa) as [Hs|[_ [c' [Hc' Hlt]]]].
      * destruct (Hmin _ Hs) as [Hl|[He Hle]]; [left; exact Hl|right].
        split; [exact He|]. apply cand_le_inv; try assumption. now rewrite EC.
      * left. destruct (Hmin _ Hc') as [Hl|[He _]]; lia.
Qed.

(** * Monotonicity of the characterised result *)

Lemma nearest_spec_mono : forall a v1 v2 R1 R2,
  v1 <= v2 -> nearest_spec a v1 R1 -> nearest_spec a v2 R2 -> R1 <= R2.
Proof.
  intros a v1 v2 R1 R2 Hv [In1 [Al1 S1]] [In2 [Al2 S2]].
  destruct (Z.le_gt_cases R1 R2) as [Hle|Hgt]; [exact Hle|exfalso].
  assert (Hc : cand R2 < cand R1).
  { apply cand_lt; [now apply in_all_notes|now apply in_all_notes|lia]. }
  assert (NB : forall v N, In N all_notes -> note_allowed a N = true ->
               (forall M, ~ in_bucket a v M) -> HALF <= dist v N).
  { intros v N HN HNa Hno. destruct (Z.lt_ge_cases (dist v N) HALF) as [Hlt|Hge]; [|exact Hge].
    exfalso. apply (Hno N). repeat split; assumption. }
  destruct S1 as [[D1 B1]|[NB1 M1]]; destruct S2 as [[D2 B2]|[NB2 M2]].
  - assert (Hb : in_bucket a v1 R2).
    { repeat split; try assumption. unfold dist in *. lia. }
    apply B1 in Hb. lia.
  - pose proof (NB v2 R1 In1 Al1 NB2) as G1. pose proof (NB v2 R2 In2 Al2 NB2) as G2.
    pose proof (M2 R1 In1 Al1) as G3. unfold dist in *. lia.
  - pose proof (NB v1 R2 In2 Al2 NB1) as G1.
    pose proof (M1 R2 In2 Al2) as G3. unfold dist in *. lia.
  - pose proof (M1 R2 In2 Al2) as G1. pose proof (M2 R1 In1 Al1) as G2.
    unfold dist in *. lia.
Qed.

Lemma find_nearest_mono : forall a v1 v2,
  valid_mask a -> 0 <= v1 -> v1 <= v2 -> v2 <= 10000000 ->
  find_nearest_uv a v1 / HALF <= find_nearest_uv a v2 / HALF.
Proof.
  intros a v1 v2 Ha H0 H12 H2.
  destruct (search_correct a v1 Ha) as [S1 _]; [lia|].
  destruct (search_correct a v2 Ha) as [S2 _]; [lia|].
  exact (nearest_spec_mono a v1 v2 _ _ H12 S1 S2).
Qed.
