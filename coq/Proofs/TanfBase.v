(** * TanfBase: float-layer facts needed for the analysis of the [tanf] port.

    - binary64 mirror of F32Lemmas: [rnd64], correctness of [dadd/dsub/dmul/ddiv],
      exactness of [f32_to_f64], one rounding for [f64_to_f32], relative error of one
      binary64 / binary32 rounding in the normal range;
    - relative-error bookkeeping ([rel], [approx]) for chains of binary64 operations on
      positive quantities;
    - order isomorphism between the bit pattern and the real value of a positive finite
      binary32 number, and enumeration of the binary32 numbers of one binade lying in a
      short interval. *)

From Coq Require Import ZArith Reals Lia Lra Bool Floats.SpecFloat.
From Flocq Require Import Core IEEE754.BinarySingleNaN Relative.
From SU Require Import F32 F64 F32Lemmas.

Open Scope R_scope.

Notation fexp64 := (FLT_exp (-1074) 53).

Definition rnd64 (x : R) : R := round radix2 fexp64 ZnearestE x.
Definition R64 (x : f64) : R := B2R x.
Definition fin64 (x : f64) : Prop := is_finite x = true.
Definition fmt64 (x : R) : Prop := generic_format radix2 fexp64 x.
Definition MAXD : R := bpow radix2 1024.

#[global] Instance fexp64_valid : Valid_exp fexp64 := FLT_exp_valid (-1074) 53.
#[global] Instance fexp64_mono : Monotone_exp fexp64 := FLT_exp_monotone (-1074) 53.

Lemma fexp_is_fexp64 : SpecFloat.fexp prec64 emax64 = fexp64.
Proof. reflexivity. Qed.

(** ** rounding to binary64 *)

Lemma rnd64_le : forall x y, x <= y -> rnd64 x <= rnd64 y.
Proof. intros x y H. apply round_le; auto with typeclass_instances. Qed.

Lemma rnd64_id : forall x, fmt64 x -> rnd64 x = x.
Proof. intros x H. apply round_generic; auto with typeclass_instances. Qed.

Lemma rnd64_0 : rnd64 0 = 0.
Proof. apply round_0; auto with typeclass_instances. Qed.

Lemma rnd64_ge_0 : forall x, 0 <= x -> 0 <= rnd64 x.
Proof. intros x H. rewrite <- rnd64_0. now apply rnd64_le. Qed.

Lemma fmt64_R64 : forall x : f64, fmt64 (R64 x).
Proof. intros x. apply (generic_format_B2R prec64 emax64). Qed.

Lemma fmt64_bpow : forall e : Z, (-1074 <= e)%Z -> fmt64 (bpow radix2 e).
Proof. intros e He. apply generic_format_FLT_bpow; auto with typeclass_instances. Qed.

Lemma fmt64_opp : forall x, fmt64 x -> fmt64 (- x).
Proof. intros x H. now apply generic_format_opp. Qed.

Lemma rnd64_abs_le : forall b x, fmt64 b -> Rabs x <= b -> Rabs (rnd64 x) <= b.
Proof.
  intros b x Hb H. apply Rabs_le. apply Rabs_le_inv in H. split.
  - rewrite <- (rnd64_id (- b)) by now apply fmt64_opp. apply rnd64_le. lra.
  - rewrite <- (rnd64_id b Hb). apply rnd64_le. lra.
Qed.

(** a binary32 number is a binary64 number *)
Lemma fmt_fmt64 : forall x, fmt x -> fmt64 x.
Proof.
  intros x Hx. apply FLT_format_generic in Hx; [|reflexivity].
  destruct Hx as [[m e] Hx Hm He]. simpl in Hm, He.
  apply generic_format_FLT. exists (Float radix2 m e); simpl; try assumption; lia.
Qed.

Lemma MAXD_gt_8 : 8 < MAXD.
Proof.
  unfold MAXD. replace 8 with (bpow radix2 3) by (simpl; lra). apply bpow_lt. lia.
Qed.

(** overflow side condition from a small numeric bound *)
Lemma no_overflow64 : forall x, Rabs x <= 8 -> Rabs (rnd64 x) < MAXD.
Proof.
  intros x H. apply Rle_lt_trans with 8; [|exact MAXD_gt_8].
  apply rnd64_abs_le; [|exact H].
  replace 8 with (bpow radix2 3) by (simpl; lra). apply fmt64_bpow. lia.
Qed.

(** ** the four operations *)

Lemma dadd_correct : forall a b : f64, fin64 a -> fin64 b ->
  Rabs (rnd64 (R64 a + R64 b)) < MAXD ->
  R64 (dadd a b) = rnd64 (R64 a + R64 b) /\ fin64 (dadd a b).
Proof.
  intros a b Ha Hb Hlt. unfold dadd, R64, fin64 in *.
  generalize (Bplus_correct prec64 emax64 Hprec64 Hmax64 mode_NE a b Ha Hb).
  rewrite fexp_is_fexp64. change (round radix2 fexp64 (round_mode mode_NE)) with rnd64.
  change (bpow radix2 emax64) with MAXD.
  rewrite Rlt_bool_true by exact Hlt. intros [H1 [H2 _]]. now split.
Qed.

Lemma dsub_correct : forall a b : f64, fin64 a -> fin64 b ->
  Rabs (rnd64 (R64 a - R64 b)) < MAXD ->
  R64 (dsub a b) = rnd64 (R64 a - R64 b) /\ fin64 (dsub a b).
Proof.
  intros a b Ha Hb Hlt. unfold dsub, R64, fin64 in *.
  generalize (Bminus_correct prec64 emax64 Hprec64 Hmax64 mode_NE a b Ha Hb).
  rewrite fexp_is_fexp64. change (round radix2 fexp64 (round_mode mode_NE)) with rnd64.
  change (bpow radix2 emax64) with MAXD.
  rewrite Rlt_bool_true by exact Hlt. intros [H1 [H2 _]]. now split.
Qed.

Lemma dmul_correct : forall a b : f64, fin64 a -> fin64 b ->
  Rabs (rnd64 (R64 a * R64 b)) < MAXD ->
  R64 (dmul a b) = rnd64 (R64 a * R64 b) /\ fin64 (dmul a b).
Proof.
  intros a b Ha Hb Hlt. unfold dmul, R64, fin64 in *.
  generalize (Bmult_correct prec64 emax64 Hprec64 Hmax64 mode_NE a b).
  rewrite fexp_is_fexp64. change (round radix2 fexp64 (round_mode mode_NE)) with rnd64.
  change (bpow radix2 emax64) with MAXD.
  rewrite Rlt_bool_true by exact Hlt. intros [H1 [H2 _]]. split; [exact H1|].
  rewrite H2, Ha, Hb. reflexivity.
Qed.

Lemma ddiv_correct : forall a b : f64, fin64 a -> fin64 b -> R64 b <> 0 ->
  Rabs (rnd64 (R64 a / R64 b)) < MAXD ->
  R64 (ddiv a b) = rnd64 (R64 a / R64 b) /\ fin64 (ddiv a b).
Proof.
  intros a b Ha Hb Hnz Hlt. unfold ddiv, R64, fin64 in *.
  generalize (Bdiv_correct prec64 emax64 Hprec64 Hmax64 mode_NE a b Hnz).
  rewrite fexp_is_fexp64. change (round radix2 fexp64 (round_mode mode_NE)) with rnd64.
  change (bpow radix2 emax64) with MAXD.
  rewrite Rlt_bool_true by exact Hlt. intros [H1 [H2 _]]. split; [exact H1|].
  rewrite H2. exact Ha.
Qed.

(** ** conversions *)

Lemma f32_to_f64_exact : forall x : f32, fin x ->
  R64 (f32_to_f64 x) = R32 x /\ fin64 (f32_to_f64 x).
Proof.
  intros [s|s| |s m e H] Hf; unfold fin in Hf; simpl in Hf; try discriminate.
  - split; reflexivity.
  - unfold f32_to_f64, R64, fin64.
    generalize (binary_normalize_correct prec64 emax64 Hprec64 Hmax64 mode_NE
                  (if s then Z.neg m else Z.pos m) e s).
    cbv zeta. rewrite fexp_is_fexp64.
    assert (E : F2R (Float radix2 (if s then Z.neg m else Z.pos m) e)
                = R32 (B754_finite s m e H)).
    { unfold R32, B2R. destruct s; reflexivity. }
    rewrite E.
    change (round radix2 fexp64 (round_mode mode_NE)) with rnd64.
    rewrite (rnd64_id (R32 _)) by (apply fmt_fmt64, fmt_R32).
    rewrite Rlt_bool_true.
    + intros [H1 [H2 _]]. split; assumption.
    + apply Rlt_trans with MAXF; [apply (abs_B2R_lt_emax prec emax)|].
      unfold MAXF. apply bpow_lt. reflexivity.
Qed.

Lemma f64_to_f32_correct : forall d : f64, fin64 d -> Rabs (rnd (R64 d)) < MAXF ->
  R32 (f64_to_f32 d) = rnd (R64 d) /\ fin (f64_to_f32 d).
Proof.
  intros [s|s| |s m e H] Hf Hlt; unfold fin64 in Hf; simpl in Hf; try discriminate.
  - unfold R64, R32, fin. simpl. rewrite rnd_0. split; reflexivity.
  - unfold f64_to_f32, R32, fin.
    generalize (binary_normalize_correct prec emax Hprec Hmax mode_NE
                  (if s then Z.neg m else Z.pos m) e s).
    cbv zeta. rewrite fexp_is_fexp32.
    assert (E : F2R (Float radix2 (if s then Z.neg m else Z.pos m) e)
                = R64 (B754_finite s m e H)).
    { unfold R64, B2R. destruct s; reflexivity. }
    rewrite E.
    change (round radix2 fexp32 (round_mode mode_NE)) with rnd.
    change (bpow radix2 emax) with MAXF.
    rewrite Rlt_bool_true by exact Hlt.
    intros [H1 [H2 _]]. split; assumption.
Qed.

(** ** closed binary64 constants *)

Lemma R64_of_SF : forall (x : f64) s m e,
  B2SF x = S754_finite s m e -> R64 x = IZR (cond_Zopp s (Zpos m)) * bpow radix2 e.
Proof.
  intros [sx|sx| |sx mx ex Hx] s m e H; simpl in H; try discriminate.
  inversion H; subst. reflexivity.
Qed.

Lemma fin64_of_SF : forall (x : f64) s m e, B2SF x = S754_finite s m e -> fin64 x.
Proof.
  intros [sx|sx| |sx mx ex Hx] s m e H; simpl in H; try discriminate. reflexivity.
Qed.

(** ** relative error of one rounding *)

(** unit of the bookkeeping: 2^-52 (twice the binary64 unit roundoff) *)
Definition E52 : R := / 4503599627370496.
(** every exact intermediate value must be at least 2^-100 *)
Definition TINY : R := / 1267650600228229401496703205376.

Lemma bpow_m1022_le : bpow radix2 (-1022) <= TINY / 2.
Proof.
  apply Rle_trans with (bpow radix2 (-101)).
  - apply bpow_le. lia.
  - change (-101)%Z with (- (101))%Z. rewrite (bpow2_neg 101) by lia.
    change (2 ^ 101)%Z with 2535301200456458802993406410752%Z. unfold TINY. lra.
Qed.

Lemma rnd64_rel : forall x, TINY / 2 <= Rabs x ->
  Rabs (rnd64 x - x) <= E52 / 2 * Rabs x.
Proof.
  intros x Hx.
  generalize (relative_error_N_FLT radix2 (-1074) 53 ltac:(lia) (fun n => negb (Z.even n)) x).
  intros H.
  replace (E52 / 2) with (/ 2 * bpow radix2 (-53 + 1)).
  - apply H. change (-1074 + 53 - 1)%Z with (-1022)%Z.
    apply Rle_trans with (2 := Hx). exact bpow_m1022_le.
  - change (-53 + 1)%Z with (- (52))%Z. rewrite (bpow2_neg 52) by lia.
    change (2 ^ 52)%Z with 4503599627370496%Z. unfold E52. lra.
Qed.

(** binary32, normal range *)
Lemma rnd_rel : forall x, / 1048576 <= Rabs x ->
  Rabs (rnd x - x) <= / 16777216 * Rabs x.
Proof.
  intros x Hx.
  generalize (relative_error_N_FLT radix2 (-149) 24 ltac:(lia) (fun n => negb (Z.even n)) x).
  intros H.
  replace (/ 16777216) with (/ 2 * bpow radix2 (-24 + 1)).
  - apply H. change (-149 + 24 - 1)%Z with (-126)%Z.
    apply Rle_trans with (2 := Hx).
    apply Rle_trans with (bpow radix2 (-20)).
    + apply bpow_le. lia.
    + change (-20)%Z with (- (20))%Z. rewrite (bpow2_neg 20) by lia.
      change (2 ^ 20)%Z with 1048576%Z. lra.
  - change (-24 + 1)%Z with (- (23))%Z. rewrite (bpow2_neg 23) by lia.
    change (2 ^ 23)%Z with 8388608%Z. lra.
Qed.

(** ** bookkeeping of relative errors on positive quantities *)

Definition rel (v' v d : R) : Prop := Rabs (v' - v) <= d * v.

Lemma rel_exact : forall v, 0 <= v -> rel v v (0 * E52).
Proof. intros v Hv. unfold rel. replace (v - v) with 0 by ring. rewrite Rabs_R0. lra. Qed.

Lemma E52_bounds : 0 < E52 < / 1000000000000000.
Proof. unfold E52. lra. Qed.

Lemma rel_weaken : forall v' v k k', 0 <= v -> k <= k' -> rel v' v (k * E52) -> rel v' v (k' * E52).
Proof.
  intros v' v k k' Hv Hk H. unfold rel in *. apply Rle_trans with (1 := H).
  assert (HE := E52_bounds). apply Rmult_le_compat_r; [exact Hv|].
  apply Rmult_le_compat_r; lra.
Qed.

Lemma rel_bounds : forall v' v k, 0 <= k <= 100 -> 0 < v -> rel v' v (k * E52) ->
  v / 2 <= v' <= 2 * v.
Proof.
  intros v' v k Hk Hv H. unfold rel in H. apply Rabs_le_inv in H.
  assert (HE := E52_bounds).
  assert (Hd : k * E52 * v <= / 2 * v).
  { apply Rmult_le_compat_r; [lra|]. nra. }
  lra.
Qed.

(** rounding an approximation *)
Lemma rel_rnd : forall v' v k, 0 <= k <= 100 -> TINY <= v -> rel v' v (k * E52) ->
  rel (rnd64 v') v ((k + 1) * E52).
Proof.
  intros v' v k Hk Hv H.
  assert (HT : 0 < TINY) by (unfold TINY; lra).
  assert (Hv0 : 0 < v) by lra.
  assert (Hb := rel_bounds v' v k Hk Hv0 H).
  assert (Hr := rnd64_rel v').
  rewrite (Rabs_pos_eq v') in Hr by lra.
  assert (Hv1 : TINY / 2 <= v') by lra.
  specialize (Hr Hv1).
  unfold rel in *. apply Rabs_le_inv in H. apply Rabs_le_inv in Hr.
  assert (HE := E52_bounds).
  assert (Hv' : v' <= v * (1 + k * E52)) by lra.
  assert (Hk1 : E52 / 2 * v' <= E52 / 2 * (v * (1 + k * E52))).
  { apply Rmult_le_compat_l; lra. }
  assert (Hk2 : E52 / 2 * (v * (1 + k * E52)) <= E52 * v).
  { assert (k * E52 <= 1) by nra.
    replace (E52 / 2 * (v * (1 + k * E52))) with (E52 * v * ((1 + k * E52) / 2)) by field.
    rewrite <- (Rmult_1_r (E52 * v)) at 2. apply Rmult_le_compat_l; [nra|lra]. }
  apply Rabs_le. lra.
Qed.

Lemma rel_mul : forall a' a b' b ka kb, 0 <= ka <= 50 -> 0 <= kb <= 50 -> 0 < a -> 0 < b ->
  rel a' a (ka * E52) -> rel b' b (kb * E52) ->
  rel (a' * b') (a * b) ((ka + kb + 1) * E52).
Proof.
  intros a' a b' b ka kb Hka Hkb Ha Hb H1 H2.
  unfold rel in *.
  assert (HE := E52_bounds).
  set (da := ka * E52) in *. set (db := kb * E52) in *.
  assert (Hda : 0 <= da <= / 1000000) by (unfold da; nra).
  assert (Hdb : 0 <= db <= / 1000000) by (unfold db; nra).
  replace (a' * b' - a * b) with ((a' - a) * b + a * (b' - b) + (a' - a) * (b' - b)) by ring.
  apply Rle_trans with (Rabs ((a' - a) * b) + Rabs (a * (b' - b)) + Rabs ((a' - a) * (b' - b))).
  { eapply Rle_trans; [apply Rabs_triang|]. apply Rplus_le_compat_r. apply Rabs_triang. }
  rewrite !Rabs_mult. rewrite (Rabs_pos_eq a), (Rabs_pos_eq b) by lra.
  assert (P1 : Rabs (a' - a) * b <= da * a * b).
  { apply Rmult_le_compat_r; lra. }
  assert (P2 : a * Rabs (b' - b) <= a * (db * b)).
  { apply Rmult_le_compat_l; lra. }
  assert (P3 : Rabs (a' - a) * Rabs (b' - b) <= (da * a) * (db * b)).
  { apply Rmult_le_compat; try apply Rabs_pos; lra. }
  assert (P4 : da * db <= E52).
  { unfold da, db. replace (ka * E52 * (kb * E52)) with ((ka * kb * E52) * E52) by ring.
    rewrite <- (Rmult_1_l E52) at 3. apply Rmult_le_compat_r; [lra|].
    assert (Hkk : ka * kb <= 2500) by nra.
    assert (ka * kb * E52 <= 2500 * E52) by (apply Rmult_le_compat_r; lra). lra. }
  assert (Hab : 0 < a * b) by (apply Rmult_lt_0_compat; lra).
  assert (P5 : da * a * (db * b) <= E52 * (a * b)).
  { replace (da * a * (db * b)) with (da * db * (a * b)) by ring.
    apply Rmult_le_compat_r; lra. }
  replace ((ka + kb + 1) * E52 * (a * b)) with (da * a * b + a * (db * b) + E52 * (a * b))
    by (unfold da, db; ring).
  lra.
Qed.

Lemma rel_add : forall a' a b' b k, 0 <= a -> 0 <= b ->
  rel a' a (k * E52) -> rel b' b (k * E52) -> rel (a' + b') (a + b) (k * E52).
Proof.
  intros a' a b' b k Ha Hb H1 H2. unfold rel in *.
  replace (a' + b' - (a + b)) with ((a' - a) + (b' - b)) by ring.
  eapply Rle_trans; [apply Rabs_triang|]. lra.
Qed.

(** a finite binary64 number [X] whose value is the expression [v'], approximating the
    positive real [v] with relative error [k * 2^-52] *)
Definition approx (X : f64) (v' v k : R) : Prop :=
  fin64 X /\ R64 X = v' /\ rel v' v (k * E52).

Lemma approx_exact : forall X : f64, fin64 X -> 0 <= R64 X -> approx X (R64 X) (R64 X) 0.
Proof. intros X HX Hp. repeat split; auto. now apply rel_exact. Qed.

Lemma approx_weaken : forall X v' v k k', 0 <= v -> k <= k' ->
  approx X v' v k -> approx X v' v k'.
Proof.
  intros X v' v k k' Hv Hk [H1 [H2 H3]]. repeat split; auto.
  now apply rel_weaken with k.
Qed.

Lemma approx_mul : forall A B a' a b' b ka kb k,
  0 <= ka <= 45 -> 0 <= kb <= 45 -> k = ka + kb + 2 ->
  approx A a' a ka -> approx B b' b kb -> 0 < a -> 0 < b -> TINY <= a * b <= 2 ->
  approx (dmul A B) (rnd64 (a' * b')) (a * b) k.
Proof.
  intros A B a' a b' b ka kb k Hka Hkb -> [FA [VA RA]] [FB [VB RB]] Ha Hb Hab.
  assert (Hka' : 0 <= ka <= 50) by lra. assert (Hkb' : 0 <= kb <= 50) by lra.
  assert (R1 := rel_mul a' a b' b ka kb Hka' Hkb' Ha Hb RA RB).
  assert (HT : 0 < TINY) by (unfold TINY; lra).
  assert (K1 : 0 <= ka + kb + 1 <= 100) by lra.
  assert (R2 := rel_rnd (a' * b') (a * b) (ka + kb + 1) K1 (proj1 Hab) R1).
  replace (ka + kb + 1 + 1) with (ka + kb + 2) in R2 by ring.
  assert (K2 : 0 <= ka + kb + 2 <= 100) by lra.
  assert (K3 : 0 < a * b) by lra.
  assert (Hbd := rel_bounds _ (a * b) (ka + kb + 2) K2 K3 R2).
  destruct (dmul_correct A B FA FB) as [V F].
  - rewrite VA, VB. apply Rlt_trans with 8; [|exact MAXD_gt_8].
    apply Rabs_lt. lra.
  - rewrite VA, VB in V. repeat split; assumption.
Qed.

Lemma approx_add : forall A B a' a b' b ka kb k,
  0 <= ka <= 50 -> 0 <= kb <= 50 -> ka <= k - 1 -> kb <= k - 1 -> k <= 60 ->
  approx A a' a ka -> approx B b' b kb -> 0 < a -> 0 < b -> TINY <= a + b <= 2 ->
  approx (dadd A B) (rnd64 (a' + b')) (a + b) k.
Proof.
  intros A B a' a b' b ka kb k Hka Hkb Hk1 Hk2 Hk3 [FA [VA RA]] [FB [VB RB]] Ha Hb Hab.
  assert (HT : 0 < TINY) by (unfold TINY; lra).
  assert (Ha0 : 0 <= a) by lra. assert (Hb0 : 0 <= b) by lra.
  assert (RA' := rel_weaken a' a ka (k - 1) Ha0 Hk1 RA).
  assert (RB' := rel_weaken b' b kb (k - 1) Hb0 Hk2 RB).
  assert (R1 := rel_add a' a b' b (k - 1) Ha0 Hb0 RA' RB').
  assert (K1 : 0 <= k - 1 <= 100) by lra.
  assert (R2 := rel_rnd (a' + b') (a + b) (k - 1) K1 (proj1 Hab) R1).
  replace (k - 1 + 1) with k in R2 by ring.
  assert (K2 : 0 <= k <= 100) by lra.
  assert (K3 : 0 < a + b) by lra.
  assert (Hbd := rel_bounds _ (a + b) k K2 K3 R2).
  destruct (dadd_correct A B FA FB) as [V F].
  - rewrite VA, VB. apply Rlt_trans with 8; [|exact MAXD_gt_8].
    apply Rabs_lt. lra.
  - rewrite VA, VB in V. repeat split; assumption.
Qed.

(** ** bit patterns of positive finite binary32 numbers *)

Lemma bounded_cases : forall m e, bounded prec emax m e = true ->
  (Z.pos m < 16777216)%Z /\ (-149 <= e <= 104)%Z /\ (e = (-149)%Z \/ (8388608 <= Z.pos m)%Z).
Proof.
  intros m e H. unfold bounded in H. apply andb_true_iff in H. destruct H as [H1 H2].
  unfold canonical_mantissa in H1. apply Zeq_bool_eq in H1.
  apply Zle_bool_imp_le in H2.
  rewrite Digits.Zpos_digits2_pos in H1.
  assert (Hd := Digits.Zdigits_correct radix2 (Z.pos m)).
  assert (Hd0 := Digits.Zdigits_gt_0 radix2 (Z.pos m) ltac:(discriminate)).
  set (d := Digits.Zdigits radix2 (Z.pos m)) in *.
  change (Z.abs (Z.pos m)) with (Z.pos m) in Hd.
  unfold SpecFloat.fexp, SpecFloat.emin, prec, emax in H1, H2.
  change (radix_val radix2) with 2%Z in Hd.
  destruct (Z.max_spec (d + e - 24) (3 - 128 - 24)) as [[Ha Hb]|[Ha Hb]];
    rewrite Hb in H1.
  - (* e = -149 *)
    assert (Hd24 : (d <= 24)%Z) by lia.
    assert (Hp : (2 ^ d <= 2 ^ 24)%Z) by (apply Z.pow_le_mono_r; lia).
    change (2 ^ 24)%Z with 16777216%Z in Hp. lia.
  - assert (Hd24 : d = 24%Z) by lia. rewrite Hd24 in Hd.
    change (2 ^ (24 - 1))%Z with 8388608%Z in Hd. change (2 ^ 24)%Z with 16777216%Z in Hd.
    lia.
Qed.

(** the encoding of [m * 2^e] *)
Definition enc (m e : Z) : Z := ((e + 150) * 8388608 + (m - 8388608))%Z.

Lemma to_bits_pos : forall m e H,
  to_bits (B754_finite false m e H) = Some (enc (Z.pos m) e).
Proof.
  intros m e H. destruct (bounded_cases m e H) as [H1 [H2 H3]].
  unfold to_bits, enc. destruct (Z.ltb_spec (Z.pos m) 8388608) as [Hlt|Hge].
  - destruct H3 as [H3|H3]; [|lia]. subst e. f_equal; lia.
  - f_equal; lia.
Qed.

(** comparing with a normal threshold [mt * 2^et] *)
Lemma enc_lt_iff : forall m e mt et,
  (0 < m < 16777216)%Z -> (-149 <= e)%Z -> (e = (-149)%Z \/ (8388608 <= m)%Z) ->
  (8388608 <= mt < 16777216)%Z -> (-149 <= et)%Z ->
  ((enc m e < enc mt et)%Z <-> IZR m * bpow radix2 e < IZR mt * bpow radix2 et).
Proof.
  intros m e mt et Hm He Hn Hmt Het. unfold enc.
  assert (Bm1 : 0 < IZR m < 16777216).
  { split; [apply (IZR_lt 0)|apply (IZR_lt m 16777216)]; lia. }
  assert (Bmt : 8388608 <= IZR mt < 16777216).
  { split; [apply (IZR_le 8388608)|apply (IZR_lt mt 16777216)]; lia. }
  destruct (Z_lt_le_dec e et) as [Hlt|Hge].
  - (* smaller exponent: smaller *)
    split; intros _; [|nia].
    assert (Hb : 2 * bpow radix2 e <= bpow radix2 et).
    { change 2 with (bpow radix2 1). rewrite <- bpow_plus. apply bpow_le. lia. }
    assert (Hp := bpow_gt_0 radix2 e).
    apply Rlt_le_trans with (16777216 * bpow radix2 e).
    + apply Rmult_lt_compat_r; lra.
    + apply Rle_trans with (8388608 * bpow radix2 et); [lra|].
      apply Rmult_le_compat_r; [apply bpow_ge_0|lra].
  - destruct (Z.eq_dec e et) as [Heq|Hne].
    + subst et. split; intros H.
      * apply Rmult_lt_compat_r; [apply bpow_gt_0|]. apply IZR_lt. lia.
      * apply Rmult_lt_reg_r in H; [|apply bpow_gt_0]. apply lt_IZR in H. lia.
    + (* larger exponent: larger *)
      assert (Hgt : (et < e)%Z) by lia.
      assert (Hm2 : (8388608 <= m)%Z) by lia.
      assert (Bm2 : 8388608 <= IZR m) by (apply (IZR_le 8388608); lia).
      split; intros H; exfalso; [nia|].
      assert (Hb : 2 * bpow radix2 et <= bpow radix2 e).
      { change 2 with (bpow radix2 1). rewrite <- bpow_plus. apply bpow_le. lia. }
      assert (Hp := bpow_gt_0 radix2 et).
      assert (H1 : IZR mt * bpow radix2 et < 16777216 * bpow radix2 et).
      { apply Rmult_lt_compat_r; lra. }
      assert (H2 : 8388608 * bpow radix2 e <= IZR m * bpow radix2 e).
      { apply Rmult_le_compat_r; [apply bpow_ge_0|lra]. }
      lra.
Qed.

(** a positive finite binary32 number has a bit pattern below 2^31, ordered like its value *)
Lemma to_bits_pos_fin : forall x : f32, fin x -> 0 < R32 x ->
  exists b, to_bits x = Some b /\ Z.land b 2147483647 = b /\
    forall mt et, (8388608 <= mt < 16777216)%Z -> (-149 <= et)%Z ->
      ((b < enc mt et)%Z <-> R32 x < IZR mt * bpow radix2 et).
Proof.
  intros [s|s| |s m e H] Hf Hp; unfold fin in Hf; simpl in Hf; try discriminate.
  - unfold R32 in Hp. simpl in Hp. lra.
  - destruct s.
    + exfalso. unfold R32, B2R in Hp. simpl cond_Zopp in Hp.
      assert (Hn : F2R (Float radix2 (Z.neg m) e) < 0) by (apply F2R_lt_0; reflexivity). lra.
    + destruct (bounded_cases m e H) as [H1 [H2 H3]].
      exists (enc (Z.pos m) e). split; [apply to_bits_pos|]. split.
      * change 2147483647%Z with (Z.ones 31). rewrite Z.land_ones by lia.
        apply Z.mod_small. unfold enc. lia.
      * intros mt et Hmt Het.
        change (R32 (B754_finite false m e H)) with (IZR (Z.pos m) * bpow radix2 e).
        apply enc_lt_iff; lia.
Qed.

(** ** binary32 numbers of the binade [1/2, 1) *)

Lemma fmt_binade_half : forall x, fmt x -> / 2 <= x < 1 ->
  exists k : Z, x = IZR k / 16777216.
Proof.
  intros x Hx Hb. unfold fmt, generic_format in Hx.
  assert (Hm : mag radix2 x = 0%Z :> Z).
  { apply mag_unique. rewrite Rabs_pos_eq by lra. simpl. lra. }
  unfold cexp in Hx. rewrite Hm in Hx.
  change (fexp32 0) with (-24)%Z in Hx.
  exists (Ztrunc (scaled_mantissa radix2 fexp32 x)).
  rewrite Hx at 1. unfold F2R. simpl Fnum. simpl Fexp.
  change (-24)%Z with (- (24))%Z. rewrite (bpow2_neg 24) by lia.
  change (2 ^ 24)%Z with 16777216%Z. unfold Rdiv. reflexivity.
Qed.

(** a finite nonzero binary32 number is determined by its value *)
Lemma R32_inj : forall x y : f32, fin x -> fin y -> R32 x <> 0 -> R32 x = R32 y -> x = y.
Proof.
  intros x y Hx Hy Hnz He.
  apply B2R_inj; try exact He.
  - destruct x as [s|s| |s m e H]; try discriminate Hx; try reflexivity.
    exfalso. apply Hnz. reflexivity.
  - destruct y as [s|s| |s m e H]; try discriminate Hy; try reflexivity.
    exfalso. apply Hnz. rewrite He. reflexivity.
Qed.
