(** Curve bound for the attack table, cells 512 .. 767 (see AdsrCurveBase.v). *)
From Coq Require Import ZArith Reals List.
From SU Require Import F32.
From SU.gen Require Import Tables.
From SU.Spec Require Import AdsrSpec.
From SU.Proofs Require Import AdsrCurveBase.

Lemma attack_cells_512 : cells attack_cell 512 256.
Proof. unfold attack_cell. solve_cells. Qed.
