(** Proofs of the quantizer hysteresis property C09 (statements in Props/C09.v). *)
From Coq Require Import ZArith Bool List Reals Lia Lra Floats.SpecFloat.
Import ListNotations.
From Flocq Require Import Core IEEE754.BinarySingleNaN.
From SU Require Import F32 F32Lemmas.
From SU.gen Require Import Consts.
From SU.Model Require Import Quantizer.
From SU.Spec Require Import QuantSpec.
From SU.Proofs Require Import QuantFloat QuantScan QuantProofs.
Open Scope Z_scope.

(** * The two branches of [convert] *)

Lemma keep_spec : forall q v, keeps q v = true ->
  let c := snd (convert q v) in
  c_note c = c_note (q_cached q) /\ c_stair c = c_stair (q_cached q) /\
  q_cached (fst (convert q v)) = c /\ q_allowed (fst (convert q v)) = q_allowed q.
Proof.
  intros q v H c. subst c. unfold keeps in H. unfold convert. cbv zeta. rewrite H.
  cbn [fst snd c_note c_stair q_cached q_allowed]. repeat split; reflexivity.
Qed.

Lemma memoryless_spec : forall q v, keeps q v = false ->
  snd (convert q v) = snd (convert (mkQuant conv_new (q_allowed q)) v) /\
  q_cached (fst (convert q v)) = snd (convert q v) /\ q_allowed (fst (convert q v)) = q_allowed q.
Proof.
  intros q v H. unfold keeps in H. unfold convert. cbv zeta. rewrite H.
  cbn [q_cached q_allowed]. rewrite in_window_fresh, andb_false_r.
  cbn [fst snd q_cached q_allowed]. repeat split; reflexivity.
Qed.

(** both branches at once *)
Lemma convert_cases : forall q v,
  q_cached (fst (convert q v)) = snd (convert q v) /\
  q_allowed (fst (convert q v)) = q_allowed q /\
  ( (keeps q v = true /\ c_note (snd (convert q v)) = c_note (q_cached q) /\
     c_stair (snd (convert q v)) = c_stair (q_cached q))
    \/ (keeps q v = false /\
        c_note (snd (convert q v)) = find_nearest_note (q_allowed q) (clamp_vin v) /\
        c_stair (snd (convert q v)) = stair_of (c_note (snd (convert q v)))) ).
Proof.
  intros q v. destruct (keeps q v) eqn:K.
  - destruct (keep_spec q v K) as [H1 [H2 [H3 H4]]]. cbv zeta in *.
    split; [exact H3|]. split; [exact H4|]. left. repeat split; assumption.
  - destruct (memoryless_spec q v K) as [H1 [H2 H3]].
    split; [exact H2|]. split; [exact H3|]. right. split; [reflexivity|].
    rewrite H1. unfold convert. cbn [q_cached q_allowed]. rewrite in_window_fresh, andb_false_r.
    cbn [snd c_note c_stair]. split; reflexivity.
Qed.

(** [keeps] only looks at the mask, the cached note and the cached stairstep *)
Lemma keeps_ext : forall q1 q2 v,
  q_allowed q1 = q_allowed q2 -> c_note (q_cached q1) = c_note (q_cached q2) ->
  c_stair (q_cached q1) = c_stair (q_cached q2) -> keeps q1 v = keeps q2 v.
Proof.
  intros q1 q2 v Ha Hn Hs. unfold keeps, in_window. cbv zeta. rewrite Ha, Hn, Hs. reflexivity.
Qed.

Lemma keeps_window : forall q v, keeps q v = true ->
  note_allowed (q_allowed q) (c_note (q_cached q)) = true /\
  in_window (q_cached q) (clamp_vin v) = true.
Proof.
  intros q v K. unfold keeps in K. apply andb_prop in K. destruct K as [G W].
  split; [|exact W]. unfold note_allowed. unfold note_new in G.
  destruct (Z.leb_spec (c_note (q_cached q) mod 12) 11) as [_|Hgt]; [exact G|].
  exfalso. pose proof (Z.mod_pos_bound (c_note (q_cached q)) 12 ltac:(lia)). lia.
Qed.

Lemma keeps_intro : forall q v,
  note_allowed (q_allowed q) (c_note (q_cached q)) = true ->
  in_window (q_cached q) (clamp_vin v) = true -> keeps q v = true.
Proof.
  intros q v G W. unfold keeps. rewrite W, andb_true_r. unfold note_allowed in G.
  unfold note_new.
  destruct (Z.leb_spec (c_note (q_cached q) mod 12) 11) as [_|Hgt]; [exact G|].
  exfalso. pose proof (Z.mod_pos_bound (c_note (q_cached q)) 12 ltac:(lia)). lia.
Qed.

(** * The cached conversion of a reachable quantizer *)

Lemma fnn_range : forall a v, valid_mask a -> 0 <= find_nearest_note a (clamp_vin v) <= 131.
Proof.
  intros a v Ha. destruct (nearest_correct a v Ha) as [_ [[Hin _] [_ E]]]. cbv zeta in *.
  rewrite E. apply in_all_notes in Hin. lia.
Qed.

Lemma convert_cached_ok : forall q v,
  valid_mask (q_allowed q) -> cached_ok (q_cached q) -> cached_ok (q_cached (fst (convert q v))).
Proof.
  intros q v Ha Hc. destruct (convert_cases q v) as [E [_ [[K [Hn Hs]]|[K [Hn Hs]]]]]; rewrite E.
  - destruct Hc as [Hc|[Hr Hst]].
    + apply keeps_window in K. destruct K as [_ W]. rewrite Hc, in_window_fresh in W. discriminate W.
    + right. rewrite Hn, Hs. split; assumption.
  - right. split; [|exact Hs]. rewrite Hn. now apply fnn_range.
Qed.

Lemma step_cached_ok : forall q o,
  valid_mask (q_allowed q) -> cached_ok (q_cached q) -> cached_ok (q_cached (quant_step q o)).
Proof.
  intros q [ns|ns|v] Ha Hc; cbn [quant_step].
  - exact Hc.
  - unfold quant_forbid. destruct (_ =? 0); exact Hc.
  - now apply convert_cached_ok.
Qed.

Lemma run_cached_ok : forall ops q,
  wf_ops ops -> valid_mask (q_allowed q) -> cached_ok (q_cached q) ->
  cached_ok (q_cached (fold_left quant_step ops q)).
Proof.
  intros ops. induction ops as [|o ops IH]; intros q Hwf Ha Hc.
  - exact Hc.
  - inversion Hwf as [|? ? Ho Hops]; subst. cbn [fold_left]. apply IH; [exact Hops| |].
    + now apply step_valid.
    + now apply step_cached_ok.
Qed.

Lemma cached_invariant : forall ops, wf_ops ops -> cached_ok (q_cached (qrun ops)).
Proof.
  intros ops Hwf. unfold qrun. apply run_cached_ok; [exact Hwf| |].
  - unfold valid_mask. cbn [quant_new q_allowed]. lia.
  - left. reflexivity.
Qed.

(** * The window bounds: a sweep over the 132 notes *)

(** [x] is finite, nonzero with a negative exponent and [|x - P/120| <= 2^-19] *)
Definition chk_val (x : f32) (P : Z) : bool :=
  match B2SF x with
  | S754_finite s m e =>
      (e <? 0) &&
      (Z.abs (120 * cond_Zopp s (Zpos m) - P * 2 ^ (- e)) * 524288 <=? 120 * 2 ^ (- e))
  | _ => false
  end.

Definition chk_note (N : Z) : bool :=
  chk_val (win_lo N) (10 * N - 1) && chk_val (win_hi N) (10 * N + 11).

Lemma chk_all : forallb chk_note all_notes = true.
Proof. vm_compute. reflexivity. Qed.

Lemma chk_val_sound : forall x P, chk_val x P = true ->
  fin x /\ (Rabs (R32 x - IZR P / 120) <= / 524288)%R.
Proof.
  intros x P H. unfold chk_val in H. destruct (B2SF x) as [| | |s m e] eqn:E; try discriminate H.
  apply andb_prop in H. destruct H as [He H]. apply Z.ltb_lt in He. apply Z.leb_le in H.
  split; [exact (fin_of_SF x s m e E)|].
  rewrite (R32_of_SF x s m e E).
  replace e with (- (- e)) at 1 by lia. rewrite bpow2_neg by lia.
  set (M := cond_Zopp s (Z.pos m)) in *. set (D := 2 ^ (- e)) in *.
  assert (HD : 0 < D) by (subst D; apply Z.pow_pos_nonneg; lia).
  apply IZR_lt in HD. apply IZR_le in H.
  rewrite !mult_IZR, abs_IZR, minus_IZR, !mult_IZR in H.
  set (a := IZR M) in *. set (d := IZR D) in *. set (p := IZR P) in *.
  set (t := (120 * a - p * d)%R) in *.
  assert (HB : (Rabs t <= 120 * d / 524288)%R) by lra.
  apply Rabs_le_inv in HB.
  assert (Hid : (0 < / (120 * d))%R) by (apply Rinv_0_lt_compat; lra).
  assert (EB : (120 * d / 524288 * / (120 * d) = / 524288)%R) by (field; lra).
  replace (a * / d - p / 120)%R with (t * / (120 * d))%R by (subst t; field; lra).
  apply Rabs_le. rewrite <- EB. split.
  - rewrite Ropp_mult_distr_l. apply Rmult_le_compat_r; lra.
  - apply Rmult_le_compat_r; lra.
Qed.

Lemma chk_note_all : forall N, 0 <= N <= 131 -> chk_note N = true.
Proof.
  intros N HN. pose proof chk_all as H. rewrite forallb_forall in H. apply H.
  apply in_all_notes. lia.
Qed.

Lemma window_fin : forall N, 0 <= N <= 131 -> fin (win_lo N) /\ fin (win_hi N).
Proof.
  intros N HN. pose proof (chk_note_all N HN) as H. unfold chk_note in H.
  apply andb_prop in H. destruct H as [H1 H2].
  split; [exact (proj1 (chk_val_sound _ _ H1))|exact (proj1 (chk_val_sound _ _ H2))].
Qed.

Lemma window_bounds : forall N, (0 <= N <= 131)%Z ->
  (Rabs (R32 (win_lo N) - (IZR N / 12 - / 120)) <= / 524288 /\ Rabs (R32 (win_hi N) - (IZR (N + 1) / 12 + / 120)) <= / 524288)%R.
Proof.
  intros N HN. pose proof (chk_note_all N HN) as H. unfold chk_note in H.
  apply andb_prop in H. destruct H as [H1 H2].
  apply chk_val_sound in H1. apply chk_val_sound in H2. destruct H1 as [_ H1]. destruct H2 as [_ H2].
  split.
  - replace (IZR N / 12 - / 120)%R with (IZR (10 * N - 1) / 120)%R; [exact H1|].
    rewrite minus_IZR, mult_IZR. field.
  - replace (IZR (N + 1) / 12 + / 120)%R with (IZR (10 * N + 11) / 120)%R; [exact H2|].
    rewrite !plus_IZR, mult_IZR. field.
Qed.

(** plain inequalities *)
Lemma window_ineq : forall N, 0 <= N <= 131 ->
  (IZR N / 12 - / 120 - / 524288 <= R32 (win_lo N) <= IZR N / 12 - / 120 + / 524288 /\ IZR N / 12 + / 12 + / 120 - / 524288 <= R32 (win_hi N) <= IZR N / 12 + / 12 + / 120 + / 524288)%R.
Proof.
  intros N HN. destruct (window_bounds N HN) as [H1 H2].
  apply Rabs_le_inv in H1. apply Rabs_le_inv in H2. rewrite plus_IZR in H2. lra.
Qed.

Lemma in_window_eq : forall c v,
  in_window c v = flt (fsub (c_stair c) HYST) v && flt v (fadd (fadd (c_stair c) SEMITONE) HYST).
Proof. intros c v. reflexivity. Qed.

Lemma in_window_stair : forall c N v, c_stair c = stair_of N ->
  in_window c v = flt (win_lo N) v && flt v (win_hi N).
Proof. intros c N v H. rewrite in_window_eq, H. reflexivity. Qed.

Lemma in_window_iff : forall c N v, (0 <= N <= 131)%Z -> c_stair c = stair_of N ->
  (in_window c v = true <-> (fin v /\ R32 (win_lo N) < R32 v < R32 (win_hi N))%R).
Proof.
  intros c N v HN Hs. rewrite (in_window_stair c N v Hs).
  destruct (window_fin N HN) as [Flo Fhi].
  destruct (f32_cases v) as [Ev|[[s Ev]|Fv]].
  - subst v. rewrite flt_nan_r. cbn [andb]. split; [discriminate|].
    intros [F _]. discriminate F.
  - subst v. rewrite flt_inf_l, flt_inf_r by assumption. split.
    + destruct s; discriminate.
    + intros [F _]. discriminate F.
  - rewrite andb_true_iff, (flt_true _ _ Flo Fv), (flt_true _ _ Fv Fhi). tauto.
Qed.

Lemma window_test : forall N v, (0 <= N <= 131)%Z ->
  in_window (mkConv N (stair_of N) f_0) v = true <->
  (fin v /\ R32 (win_lo N) < R32 v < R32 (win_hi N))%R.
Proof. intros N v HN. apply in_window_iff; [exact HN|reflexivity]. Qed.

(** * Facts about the search used below *)

Lemma cand_gap : forall R N, 0 <= R < 132 -> 0 <= N < 132 -> R < N -> HALF <= cand N - cand R.
Proof. intros R N HR HN. unfold cand. consts. dlia. Qed.

(** an allowed note at or below the input is never undercut *)
Lemma nearest_ge : forall a vin R N, nearest_spec a vin R -> 0 <= N < 132 ->
  note_allowed a N = true -> cand N <= vin -> N <= R.
Proof.
  intros a vin R N [InR [AlR S]] HN AlN Hc.
  destruct (Z.le_gt_cases N R) as [Hle|Hgt]; [exact Hle|exfalso].
  apply in_all_notes in InR.
  pose proof (cand_gap R N InR HN Hgt) as Hg. unfold HALF, HALF_STEP_IN_MICROVOLTS in Hg, S.
  destruct S as [[D _]|[_ M]].
  - unfold dist in D. lia.
  - destruct (M N) as [H|[H _]]; [apply in_all_notes; lia|exact AlN| |]; unfold dist in H; lia.
Qed.

Lemma cand_le_VMAX : forall N, 0 <= N <= 120 -> cand N <= 10000000.
Proof. intros N HN. unfold cand. consts. dlia. Qed.

(** note voltages over the reals *)
Lemma cand_real : forall N, 0 <= N ->
  (IZR (cand N) <= IZR N / 12 * 1000000 <= IZR (cand N) + 4)%R.
Proof.
  intros N HN. unfold cand. consts.
  pose proof (Z.div_mod N 12 ltac:(lia)) as E.
  pose proof (Z.mod_pos_bound N 12 ltac:(lia)) as Hr.
  set (r := N mod 12) in *. set (o := N / 12) in *. clearbody r o.
  rewrite plus_IZR, !mult_IZR. rewrite E. rewrite plus_IZR, mult_IZR.
  assert (H0 : (0 <= IZR r)%R) by (apply IZR_le; lia).
  assert (H1 : (IZR r <= 11)%R) by (apply IZR_le; lia).
  lra.
Qed.

(** ** microvolts: bounds by monotonicity of rounding and truncation *)

Lemma fmul_uv : forall x : f32, fin x -> (0 <= R32 x <= 10)%R ->
  to_u32 (fmul x (of_Z 1000000)) =
  Z.max 0 (Z.min U32_MAX (Ztrunc (rnd (R32 x * 1000000)))).
Proof.
  intros x Fx Bx.
  destruct (fin_R32_of_Z_small 1000000) as [Vc Fc]; [lia|].
  destruct (fmul_correct x (of_Z 1000000) Fx Fc) as [Vm Fm].
  { apply no_overflow with 10000000%R.
    - apply (fmt_int 10000000); lia.
    - rewrite MAXF_val; lra.
    - rewrite Vc. apply Rabs_le. lra. }
  rewrite to_u32_fin by exact Fm. rewrite Vm, Vc. reflexivity.
Qed.

Lemma vin_ge : forall (x : f32) c, fin x -> (0 <= R32 x <= 10)%R -> 0 <= c <= 10000000 ->
  (IZR c <= R32 x * 1000000)%R -> c <= vin_microvolts x.
Proof.
  intros x c Fx Bx Hc H. unfold vin_microvolts. rewrite OCT_val, (fmul_uv x Fx Bx).
  assert (H1 : (rnd (IZR c) <= rnd (R32 x * 1000000))%R) by (apply rnd_le; exact H).
  rewrite (rnd_id (IZR c)) in H1 by (apply fmt_int; lia).
  apply Ztrunc_le in H1. rewrite Ztrunc_IZR in H1. unfold U32_MAX. lia.
Qed.

Lemma vin_le : forall (x : f32) c, fin x -> (0 <= R32 x <= 10)%R -> 0 <= c <= 16777216 ->
  (R32 x * 1000000 <= IZR c)%R -> vin_microvolts x <= c.
Proof.
  intros x c Fx Bx Hc H. unfold vin_microvolts. rewrite OCT_val, (fmul_uv x Fx Bx).
  assert (H1 : (rnd (R32 x * 1000000) <= rnd (IZR c))%R) by (apply rnd_le; exact H).
  rewrite (rnd_id (IZR c)) in H1 by (apply fmt_int; lia).
  apply Ztrunc_le in H1. rewrite Ztrunc_IZR in H1. unfold U32_MAX. lia.
Qed.

(** ** the clamp *)

Lemma clamp_vin_le : forall y, fin y -> (0 <= R32 y)%R -> (R32 (clamp_vin y) <= R32 y)%R.
Proof.
  intros y Fy H. rewrite (clamp_vin_fin y Fy). unfold Rmin, Rmax.
  destruct (Rle_dec (R32 y) 0); destruct (Rle_dec _ 10); lra.
Qed.

(** * Monotonicity *)

(** the cached note is what [convert] reports (or would report) for input [x] *)
Definition justified (q : quant) (x : f32) : Prop :=
  keeps q x = true \/
  c_note (q_cached q) = find_nearest_note (q_allowed q) (clamp_vin x).

Lemma keeps_cached : forall q x, cached_ok (q_cached q) -> keeps q x = true ->
  let N := c_note (q_cached q) in
  0 <= N <= 131 /\ c_stair (q_cached q) = stair_of N /\ note_allowed (q_allowed q) N = true /\
  (R32 (win_lo N) < R32 (clamp_vin x) < R32 (win_hi N))%R.
Proof.
  intros q x Hc K N. apply keeps_window in K. destruct K as [Al W].
  destruct Hc as [Hc|[HN Hst]].
  - rewrite Hc, in_window_fresh in W. discriminate W.
  - split; [exact HN|]. split; [exact Hst|]. split; [exact Al|].
    now apply (in_window_iff (q_cached q) N (clamp_vin x) HN Hst).
Qed.

Lemma step_le : forall q x y, valid_mask (q_allowed q) -> cached_ok (q_cached q) ->
  justified q x -> fle x y = true -> c_note (q_cached q) <= c_note (snd (convert q y)).
Proof.
  intros q x y Ha Hc J Hxy.
  destruct (convert_cases q y) as [_ [_ [[_ [Hn _]]|[K [Hn _]]]]]; rewrite Hn; [lia|].
  destruct J as [Kx|Jx].
  2:{ rewrite Jx. now apply nearest_note_mono. }
  destruct (keeps_cached q x Hc Kx) as [HN [Hst [Al Wx]]]. cbv zeta in *.
  set (N := c_note (q_cached q)) in *. set (a := q_allowed q) in *.
  pose proof (clamp_vin_mono x y Hxy) as Hmono.
  destruct (clamp_vin_range y) as [Fc Bc].
  (* the clamped [y] is at or above the upper bound of the window *)
  assert (Hy : (R32 (win_hi N) <= R32 (clamp_vin y))%R).
  { destruct (Rlt_le_dec (R32 (clamp_vin y)) (R32 (win_hi N))) as [Hlt|Hge]; [exfalso|exact Hge].
    assert (W : in_window (q_cached q) (clamp_vin y) = true).
    { apply (in_window_iff (q_cached q) N (clamp_vin y) HN Hst). split; [exact Fc|]. lra. }
    rewrite (keeps_intro q y Al W) in K. discriminate K. }
  destruct (window_ineq N HN) as [_ [Hhi _]].
  assert (H120 : N <= 120).
  { destruct (Z_le_gt_dec N 120) as [H|H]; [exact H|exfalso].
    assert (HN1 : (121 <= IZR N)%R) by (apply IZR_le; lia). lra. }
  (* the input in microvolts is at least the note's voltage *)
  destruct (nearest_correct a y Ha) as [_ [S [_ E]]]. cbv zeta in *. rewrite E.
  apply (nearest_ge a (vin_microvolts (clamp_vin y))); [exact S|lia|exact Al|].
  pose proof (cand_real N ltac:(lia)) as [Hcr _].
  pose proof (cand_le_VMAX N ltac:(lia)) as Hc7.
  assert (Hc0 : 0 <= cand N) by (unfold cand; consts; dlia).
  apply vin_ge; [exact Fc|exact Bc|lia|].
  assert (HN0 : (0 <= IZR N)%R) by (apply IZR_le; lia).
  lra.
Qed.

Lemma justified_after : forall q y, justified (fst (convert q y)) y.
Proof.
  intros q y. destruct (convert_cases q y) as [E [Ea [[K [Hn Hs]]|[K [Hn Hs]]]]].
  - left. rewrite <- K. apply keeps_ext; [exact Ea|rewrite E; exact Hn|rewrite E; exact Hs].
  - right. rewrite E, Ea. exact Hn.
Qed.

Lemma monotone_from : forall vs q x,
  valid_mask (q_allowed q) -> cached_ok (q_cached q) -> justified q x ->
  fle_sorted (x :: vs) -> nondecreasing (c_note (q_cached q) :: convert_seq q vs).
Proof.
  induction vs as [|y rest IH]; intros q x Ha Hc J Hs.
  - exact I.
  - cbn [fle_sorted] in Hs. destruct Hs as [Hxy Hs].
    cbn [convert_seq]. destruct (convert q y) as [q' c'] eqn:E.
    assert (E1 : q' = fst (convert q y)) by (rewrite E; reflexivity).
    assert (E2 : c' = snd (convert q y)) by (rewrite E; reflexivity).
    assert (Hcq : q_cached q' = c').
    { rewrite E1, E2. apply convert_cases. }
    cbn [nondecreasing]. split.
    + rewrite E2. now apply (step_le q x y).
    + rewrite <- Hcq. apply (IH q' y).
      * rewrite E1, convert_keeps_mask. exact Ha.
      * rewrite E1. now apply convert_cached_ok.
      * rewrite E1. apply justified_after.
      * exact Hs.
Qed.

(** from every state with a valid scale and a sane cached record *)
Theorem monotone_gen : forall q vs,
  valid_mask (q_allowed q) -> cached_ok (q_cached q) -> fle_sorted vs ->
  nondecreasing (convert_seq q vs).
Proof.
  intros q [|x rest] Ha Hc Hs; [exact I|].
  cbn [convert_seq]. destruct (convert q x) as [q' c'] eqn:E.
  assert (E1 : q' = fst (convert q x)) by (rewrite E; reflexivity).
  assert (E2 : c' = snd (convert q x)) by (rewrite E; reflexivity).
  assert (Hcq : q_cached q' = c').
  { rewrite E1, E2. apply convert_cases. }
  rewrite <- Hcq. apply (monotone_from rest q' x).
  - rewrite E1, convert_keeps_mask. exact Ha.
  - rewrite E1. now apply convert_cached_ok.
  - rewrite E1. apply justified_after.
  - exact Hs.
Qed.

Theorem hysteresis_monotone : forall ops vs, wf_ops ops -> fle_sorted vs ->
  nondecreasing (convert_seq (qrun ops) vs).
Proof.
  intros ops vs Hwf Hs. apply monotone_gen; [|exact (cached_invariant ops Hwf)|exact Hs].
  exact (mask_invariant ops Hwf).
Qed.

(** * Noise around a boundary, chromatic scale *)

Lemma HYST_bounds : (/ 120 <= R32 HYST <= / 120 + / 1000000000)%R.
Proof. r32_const HYST. lra. Qed.

Lemma all_allowed : forall N, note_allowed 4095 N = true.
Proof.
  intros N. unfold note_allowed, bit_allowed. change 4095 with (Z.ones 12).
  apply Z.ones_spec_low. apply Z.mod_pos_bound. lia.
Qed.

Lemma valid_4095 : valid_mask 4095.
Proof. unfold valid_mask. lia. Qed.

(** the input is within the hysteresis width (minus 2^-18) of the boundary [k/12] *)
Definition near (k : Z) (x : f32) : Prop :=
  fin x /\ (Rabs (R32 x - IZR k / 12) <= R32 HYST - / 262144)%R.

(** the clamped input then lies strictly inside the overlap of the windows of [k-1], [k] *)
Lemma near_clamp : forall k x, 1 <= k <= 120 -> near k x ->
  (IZR k / 12 - / 120 + / 524288 < R32 (clamp_vin x) < IZR k / 12 + / 120 - / 524288)%R.
Proof.
  intros k x Hk [Fx H]. apply Rabs_le_inv in H. pose proof HYST_bounds as Hh.
  assert (H1 : (1 <= IZR k)%R) by (apply IZR_le; lia).
  assert (H2 : (IZR k <= 120)%R) by (apply IZR_le; lia).
  rewrite (clamp_vin_fin x Fx). unfold Rmin, Rmax.
  destruct (Rle_dec (R32 x) 0); destruct (Rle_dec _ 10); lra.
Qed.

Lemma near_in_window : forall k x c N, 1 <= k <= 120 -> near k x ->
  N = k - 1 \/ N = k -> c_stair c = stair_of N -> in_window c (clamp_vin x) = true.
Proof.
  intros k x c N Hk Hx HN Hst. pose proof (near_clamp k x Hk Hx) as B.
  assert (HN' : 0 <= N <= 131) by lia.
  apply (in_window_iff c N (clamp_vin x) HN' Hst).
  split; [apply clamp_vin_range|].
  destruct (window_ineq N HN') as [[_ Hlo] [Hhi _]].
  destruct HN as [E|E]; subst N; [rewrite minus_IZR in Hlo, Hhi|]; lra.
Qed.

Lemma near_window_inv : forall k x c N, 1 <= k <= 120 -> near k x ->
  0 <= N <= 131 -> c_stair c = stair_of N -> in_window c (clamp_vin x) = true ->
  N = k - 1 \/ N = k.
Proof.
  intros k x c N Hk Hx HN Hst W. pose proof (near_clamp k x Hk Hx) as B.
  apply (in_window_iff c N (clamp_vin x) HN Hst) in W. destruct W as [_ W].
  destruct (window_ineq N HN) as [[Hlo _] [_ Hhi]].
  destruct (Z_le_gt_dec N (k - 2)) as [H1|H1].
  - exfalso. apply IZR_le in H1. rewrite minus_IZR in H1. lra.
  - destruct (Z_le_gt_dec (k + 1) N) as [H2|H2]; [|lia].
    exfalso. apply IZR_le in H2. rewrite plus_IZR in H2. lra.
Qed.

(** the search with every note allowed: [k-1] or [k] *)
Lemma near_search : forall k x, 1 <= k <= 120 -> near k x ->
  let R := find_nearest_note 4095 (clamp_vin x) in R = k - 1 \/ R = k.
Proof.
  intros k x Hk Hx R. pose proof (near_clamp k x Hk Hx) as B.
  destruct (clamp_vin_range x) as [Fc Bc].
  destruct (nearest_correct 4095 x valid_4095) as [Hv [S [_ E]]]. cbv zeta in Hv, S, E.
  fold R in E. rewrite <- E in S. clear E.
  set (vin := vin_microvolts (clamp_vin x)) in *.
  pose proof (cand_real k ltac:(lia)) as [Hc1 Hc2].
  assert (Hck : 83333 <= cand k <= 10000000) by (unfold cand; consts; dlia).
  assert (Hlo : cand k - 8334 <= vin).
  { apply vin_ge; [exact Fc|exact Bc|lia|]. rewrite minus_IZR. lra. }
  assert (Hhi : vin <= cand k + 8338).
  { apply vin_le; [exact Fc|exact Bc|lia|]. rewrite plus_IZR. lra. }
  assert (IB : in_bucket 4095 vin k).
  { split; [apply in_all_notes; lia|]. split; [apply all_allowed|]. unfold dist. consts. lia. }
  destruct S as [InR [_ [[D Hmin]|[Hno _]]]]; [|exfalso; exact (Hno k IB)].
  apply in_all_notes in InR. pose proof (Hmin k IB) as Hle.
  destruct (Z_le_gt_dec R (k - 2)) as [H2|H2]; [exfalso|lia].
  pose proof (cand_gap (k - 1) k ltac:(lia) ltac:(lia) ltac:(lia)) as G1.
  pose proof (cand_gap R (k - 1) InR ltac:(lia) ltac:(lia)) as G2.
  unfold dist in D. consts. lia.
Qed.

(** once the cached note is [k-1] or [k] it is kept for every such input *)
Lemma noise_stable : forall k N vs q, 1 <= k <= 120 -> N = k - 1 \/ N = k ->
  q_allowed q = 4095 -> c_note (q_cached q) = N -> c_stair (q_cached q) = stair_of N ->
  (forall x, In x vs -> near k x) ->
  forall n, In n (convert_seq q vs) -> n = N.
Proof.
  intros k N vs. induction vs as [|x rest IH]; intros q Hk HN Ha Hn Hst Hvs n Hin.
  - destruct Hin.
  - cbn [convert_seq] in Hin. destruct (convert q x) as [q' c'] eqn:E.
    assert (E1 : q' = fst (convert q x)) by (rewrite E; reflexivity).
    assert (E2 : c' = snd (convert q x)) by (rewrite E; reflexivity).
    assert (K : keeps q x = true).
    { apply keeps_intro.
      - rewrite Ha. apply all_allowed.
      - apply (near_in_window k x _ N Hk); [apply Hvs; left; reflexivity|exact HN|exact Hst]. }
    destruct (keep_spec q x K) as [K1 [K2 [K3 K4]]]. cbv zeta in K1, K2, K3, K4.
    rewrite <- E1 in K3, K4. rewrite <- E2 in K1, K2, K3.
    destruct Hin as [Hin|Hin].
    + rewrite <- Hin, K1. exact Hn.
    + apply (IH q'); try assumption.
      * rewrite K4. exact Ha.
      * rewrite K3, K1. exact Hn.
      * rewrite K3, K2. exact Hst.
      * intros y Hy. apply Hvs. right. exact Hy.
Qed.

Lemma noise_one_change : forall ops k v vs, wf_ops ops ->
  q_allowed (qrun ops) = 4095%Z -> (1 <= k <= 120)%Z ->
  (forall x, In x (v :: vs) ->
     fin x /\ (Rabs (R32 x - IZR k / 12) <= R32 HYST - / 262144)%R) ->
  forall n, In n (convert_seq (qrun ops) (v :: vs)) ->
            n = hd 0%Z (convert_seq (qrun ops) (v :: vs)).
Proof.
  intros ops k v vs Hwf Ha Hk Hvs n Hin.
  pose proof (cached_invariant ops Hwf) as Hc.
  set (q := qrun ops) in *.
  cbn [convert_seq] in Hin |- *. destruct (convert q v) as [q' c'] eqn:E. cbn [hd].
  assert (E1 : q' = fst (convert q v)) by (rewrite E; reflexivity).
  assert (E2 : c' = snd (convert q v)) by (rewrite E; reflexivity).
  assert (Hv : near k v) by (apply Hvs; left; reflexivity).
  destruct (convert_cases q v) as [C1 [C2 C3]]. rewrite <- E1 in C1, C2. rewrite <- E2 in C1, C3.
  assert (HN : (c_note c' = k - 1 \/ c_note c' = k) /\ c_stair c' = stair_of (c_note c')).
  { destruct C3 as [[K [Hn Hs]]|[K [Hn Hs]]].
    - apply keeps_window in K. destruct K as [_ W].
      destruct Hc as [Hc|[HN Hst]].
      + rewrite Hc, in_window_fresh in W. discriminate W.
      + rewrite Hn, Hs. split; [|exact Hst].
        exact (near_window_inv k v _ _ Hk Hv HN Hst W).
    - split; [|exact Hs]. rewrite Hn, Ha. exact (near_search k v Hk Hv). }
  destruct HN as [HN Hst].
  destruct Hin as [Hin|Hin]; [symmetry; exact Hin|].
  apply (noise_stable k (c_note c') vs q' Hk HN).
  - rewrite C2. exact Ha.
  - rewrite C1. reflexivity.
  - rewrite C1. exact Hst.
  - intros x Hx. apply Hvs. right. exact Hx.
  - exact Hin.
Qed.
