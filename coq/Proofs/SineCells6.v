(** SineCells6: table cells 768 .. 895 of the sine table are within 0.0124 of the real
    sine (one call to [interval] per cell; see SineBase.v). *)
From Coq Require Import ZArith Reals.
From Interval Require Import Tactic.
From SU.Proofs Require Import SineBase.

Lemma sine_cells_6 : forall i, (768 <= i < 896)%Z -> scell_ok i.
Proof. cells_loop. Qed.
