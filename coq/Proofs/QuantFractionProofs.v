(** C19 review gap: the fraction range on the SEARCH path after history.

    [C19_chromatic_fraction] (Props/C19.v) speaks about the fresh quantizer [quant_new]
    only; [C19_window_fraction] about the keep path.  This file closes the remaining case
    and packages the record clauses of C19 as case-free statements:

    1. [chromatic_fraction_after_history]: chromatic scale, any history, note not kept:
       the record is the one of a fresh quantizer, hence the [0, 1)-semitone range;
    2. [chromatic_fraction_any]: chromatic scale, any history, any input, both paths;
    3. [record_consistent_any]: any reachable scale, any history, any input, both paths:
       stairstep = note / 12 and stairstep + fraction reproduces the clamped input;
    4. non-vacuity examples for 1. *)
From Coq Require Import ZArith Bool List Reals Lia Lra.
Import ListNotations.
From Flocq Require Import Core IEEE754.BinarySingleNaN.
From SU Require Import F32 F32Lemmas.
From SU.gen Require Import Consts.
From SU.Model Require Import Quantizer.
From SU.Spec Require Import QuantSpec.
From SU.Proofs Require Import QuantFloat QuantScan QuantProofs QuantHystProofs
  QuantRecordProofs QuantReal QuantExtraProofs QuantKillers.
Open Scope R_scope.

(** * 1. Chromatic scale, search path, arbitrary history *)

(** a quantizer without history on the chromatic scale is [quant_new] *)
Lemma fresh_chromatic : mkQuant conv_new 4095 = quant_new.
Proof. reflexivity. Qed.

(** no reachability needed: ANY state with the chromatic mask whose window test fails *)
Lemma chromatic_search_gen : forall q v,
  q_allowed q = 4095%Z -> keeps q v = false ->
  let c := snd (convert q v) in
  let c0 := snd (convert quant_new v) in
  c = c0 /\
  fin (c_frac c) /\ - / 100000 <= R32 (c_frac c) < / 12 + / 100000.
Proof.
  intros q v Hmask Hkeep c c0. subst c c0.
  destruct (memoryless_spec q v Hkeep) as [Hmem _].
  rewrite Hmask, fresh_chromatic in Hmem.
  split; [exact Hmem|].
  rewrite Hmem. exact (chromatic_fraction v).
Qed.

(** every reachable chromatic state, every f32 input (finite, infinite or NaN: the clamp
    makes it finite), note not kept: same note, stairstep and fraction as the fresh
    quantizer reports, and the conclusion of [C19_chromatic_fraction] *)
Theorem chromatic_fraction_after_history : forall ops v, wf_ops ops ->
  let q := qrun ops in
  q_allowed q = 4095%Z -> keeps q v = false ->
  let c := snd (convert q v) in
  let c0 := snd (convert quant_new v) in
  c_note c = c_note c0 /\ c_stair c = c_stair c0 /\ c_frac c = c_frac c0 /\
  fin (c_frac c) /\ - / 100000 <= R32 (c_frac c) < / 12 + / 100000.
Proof.
  intros ops v Hwf q Hmask Hkeep c c0.
  destruct (chromatic_search_gen q v Hmask Hkeep) as [Heq [Hfin Hrange]].
  fold c c0 in Heq. fold c in Hfin, Hrange.
  split; [rewrite Heq; reflexivity|].
  split; [rewrite Heq; reflexivity|].
  split; [rewrite Heq; reflexivity|].
  split; [exact Hfin|exact Hrange].
Qed.

(** * 2. Chromatic scale, both paths, one statement *)

Theorem chromatic_fraction_any : forall ops v, wf_ops ops ->
  let q := qrun ops in
  q_allowed q = 4095%Z ->
  let c := snd (convert q v) in
  fin (c_frac c) /\
  - / 120 - / 262144 <= R32 (c_frac c) <= / 12 + / 120 + / 262144 /\
  (keeps q v = false -> - / 100000 <= R32 (c_frac c) < / 12 + / 100000).
Proof.
  intros ops v Hwf q Hmask c.
  destruct (keeps q v) eqn:Hkeep.
  - destruct (window_fraction ops v Hwf Hkeep) as [Hfin Hrange].
    fold q c in Hfin, Hrange.
    split; [exact Hfin|]. split; [exact Hrange|].
    intros Hfalse. discriminate Hfalse.
  - destruct (chromatic_search_gen q v Hmask Hkeep) as [_ [Hfin Hrange]].
    fold c in Hfin, Hrange.
    split; [exact Hfin|]. split; [lra|].
    intros _. exact Hrange.
Qed.

(** * 3. Any scale, both paths: the record is consistent *)

(** the exact sum [s + (x - s)] with only the subtraction rounded: half an ulp of the
    larger operand *)
Lemma recompose_real_err : forall s x, 0 <= s -> 0 <= x ->
  Rabs (s + rnd (x - s) - x) <= / 2 * ulp radix2 fexp32 (Rmax (Rabs x) s).
Proof.
  intros s x Hs Hx.
  set (M := Rmax (Rabs x) s).
  assert (HxM : Rabs x <= M) by apply Rmax_l.
  assert (HsM : s <= M) by apply Rmax_r.
  rewrite (Rabs_pos_eq x Hx) in HxM.
  set (d := x - s).
  assert (Hd : Rabs d <= Rabs M).
  { rewrite (Rabs_pos_eq M) by lra. apply Rabs_le. unfold d. lra. }
  pose proof (error_le_half_ulp radix2 fexp32 (fun n => negb (Z.even n)) d) as E1.
  change (round radix2 fexp32 (Znearest (fun n => negb (Z.even n))) d) with (rnd d) in E1.
  assert (HU : ulp radix2 fexp32 d <= ulp radix2 fexp32 M).
  { apply ulp_le; auto with typeclass_instances. }
  replace (s + rnd d - x) with (rnd d - d) by (unfold d; ring).
  lra.
Qed.

(** any state with a non-empty 12-bit mask and a cached record that is the initial one or
    a real one; both paths of [convert] *)
Lemma record_consistent_gen : forall q v,
  valid_mask (q_allowed q) -> cached_ok (q_cached q) ->
  let c := snd (convert q v) in
  let v' := clamp_vin v in
  (0 <= c_note c <= 131)%Z /\ c_stair c = stair_of (c_note c) /\
  fin (c_stair c) /\ R32 (c_stair c) = rnd (IZR (c_note c) / 12) /\
  c_frac c = fsub v' (c_stair c) /\
  fin (c_frac c) /\ R32 (c_frac c) = rnd (R32 v' - R32 (c_stair c)) /\
  Rabs (R32 (c_stair c) + R32 (c_frac c) - R32 v')
    <= / 2 * ulp radix2 fexp32 (Rmax (Rabs (R32 v')) (R32 (c_stair c))) /\
  Rabs (R32 (c_stair c) + R32 (c_frac c) - R32 v') <= / 1048576 /\
  fin (fadd (c_stair c) (c_frac c)) /\
  Rabs (R32 (fadd (c_stair c) (c_frac c)) - R32 v')
    <= 2 * ulp radix2 fexp32 (Rmax (Rabs (R32 v')) (R32 (c_stair c))) /\
  (keeps q v = true -> c_note c = c_note (q_cached q)) /\
  (keeps q v = false -> c_note c = find_nearest_note (q_allowed q) v').
Proof.
  intros q v Hmask Hcached c v'. subst c.
  destruct (convert_shape q v Hmask Hcached) as [N [HN [E [_ [K1 K2]]]]].
  assert (Hkeepnote : keeps q v = true -> c_note (snd (convert q v)) = c_note (q_cached q)).
  { intros Hk. destruct (keep_spec q v Hk) as [Hn _]. exact Hn. }
  rewrite E in *. cbn [c_note c_stair c_frac] in *. fold v' in K2 |- *.
  destruct (stair_facts N HN) as [Fs [Vs Bs]].
  destruct (clamp_vin_range v) as [Fv' Bv']. fold v' in Fv', Bv'.
  assert (A : Rabs (R32 v' - R32 (stair_of N)) <= 11) by (apply Rabs_le; lra).
  destruct (fsub_correct v' (stair_of N) Fv' Fs) as [Vf Ff].
  { apply no_overflow with 11; [apply (fmt_int 11); lia|rewrite MAXF_val; lra|exact A]. }
  assert (Bv16 : -16 <= R32 v' <= 16) by lra.
  destruct (recompose_f32 (stair_of N) v' Fs Fv' Bs Bv16) as [Fa Ea].
  split; [exact HN|]. split; [reflexivity|]. split; [exact Fs|]. split; [exact Vs|].
  split; [reflexivity|]. split; [exact Ff|]. split; [exact Vf|].
  split.
  { rewrite Vf. apply recompose_real_err; lra. }
  split.
  { rewrite Vf. pose proof (rnd_abs_err _ _ A) as Herr. pose proof ETA_small as He.
    replace (R32 (stair_of N) + rnd (R32 v' - R32 (stair_of N)) - R32 v')
      with (rnd (R32 v' - R32 (stair_of N)) - (R32 v' - R32 (stair_of N))) by ring.
    eapply Rle_trans; [exact Herr|]. lra. }
  split; [exact Fa|]. split; [exact Ea|].
  split; [exact Hkeepnote|exact K2].
Qed.

(** every reachable state (hence every scale the API can set up), every input *)
Theorem record_consistent_any : forall ops v, wf_ops ops ->
  let q := qrun ops in
  let c := snd (convert q v) in
  let v' := clamp_vin v in
  (0 <= c_note c <= 131)%Z /\ c_stair c = stair_of (c_note c) /\
  fin (c_stair c) /\ R32 (c_stair c) = rnd (IZR (c_note c) / 12) /\
  c_frac c = fsub v' (c_stair c) /\
  fin (c_frac c) /\ R32 (c_frac c) = rnd (R32 v' - R32 (c_stair c)) /\
  Rabs (R32 (c_stair c) + R32 (c_frac c) - R32 v')
    <= / 2 * ulp radix2 fexp32 (Rmax (Rabs (R32 v')) (R32 (c_stair c))) /\
  Rabs (R32 (c_stair c) + R32 (c_frac c) - R32 v') <= / 1048576 /\
  fin (fadd (c_stair c) (c_frac c)) /\
  Rabs (R32 (fadd (c_stair c) (c_frac c)) - R32 v')
    <= 2 * ulp radix2 fexp32 (Rmax (Rabs (R32 v')) (R32 (c_stair c))) /\
  (keeps q v = true -> c_note c = c_note (q_cached q)) /\
  (keeps q v = false -> c_note c = find_nearest_note (q_allowed q) v').
Proof.
  intros ops v Hwf q.
  exact (record_consistent_gen q v (mask_invariant ops Hwf) (cached_inv ops Hwf)).
Qed.

(** * 4. Non-vacuity of [chromatic_fraction_after_history] *)

Open Scope Z_scope.

(** new quantizer, 0.5 V (note 6 is remembered), then 0.7 V: outside the window of note 6,
    so the search path runs with history; the record is note 8, stairstep 0x3f2aaaab
    (8/12 rounded), fraction 0x3d088880 (0.0333...), bit for bit what a fresh quantizer
    reports, and all premises of [chromatic_fraction_after_history] hold *)
Example ex_fraction_after_history :
  let ops := [QConvert v_0_5] in
  let q := qrun ops in
  let c := snd (convert q v_0_7) in
  let c0 := snd (convert quant_new v_0_7) in
  wf_ops ops /\ q_allowed q = 4095 /\ c_note (q_cached q) = 6 /\
  keeps q v_0_7 = false /\
  c_note c = 8 /\ to_bits (c_stair c) = Some 1059760811 /\
  to_bits (c_frac c) = Some 1023969408 /\
  c_note c0 = 8 /\ to_bits (c_stair c0) = Some 1059760811 /\
  to_bits (c_frac c0) = Some 1023969408 /\
  (fin (c_frac c) /\ - / 100000 <= R32 (c_frac c) < / 12 + / 100000)%R.
Proof.
  cbv zeta.
  assert (Hwf : wf_ops [QConvert v_0_5]) by exact (wf_convert_only [v_0_5]).
  assert (Hmask : q_allowed (qrun [QConvert v_0_5]) = 4095) by (vm_compute; reflexivity).
  assert (Hkeep : keeps (qrun [QConvert v_0_5]) v_0_7 = false) by (vm_compute; reflexivity).
  split; [exact Hwf|]. split; [exact Hmask|].
  split; [vm_compute; reflexivity|]. split; [exact Hkeep|].
  split; [vm_compute; reflexivity|]. split; [vm_compute; reflexivity|].
  split; [vm_compute; reflexivity|]. split; [vm_compute; reflexivity|].
  split; [vm_compute; reflexivity|]. split; [vm_compute; reflexivity|].
  destruct (chromatic_fraction_after_history [QConvert v_0_5] v_0_7 Hwf Hmask Hkeep)
    as [_ [_ [_ Hconcl]]].
  exact Hconcl.
Qed.

(** the chromatic scale reached again through scale edits (forbid D# and B, convert, allow
    them back): mask 4095, history note 6, search path *)
Example ex_fraction_after_edits :
  let ops := [QForbid [3; 200]; QConvert v_0_5; QAllow [3; 11]] in
  let q := qrun ops in
  let c := snd (convert q v_0_7) in
  wf_ops ops /\ q_allowed (qrun [QForbid [3; 200]]) = 2039 /\
  q_allowed q = 4095 /\ c_note (q_cached q) = 6 /\
  keeps q v_0_7 = false /\
  c_note c = 8 /\ to_bits (c_stair c) = Some 1059760811 /\
  to_bits (c_frac c) = Some 1023969408 /\
  (fin (c_frac c) /\ - / 100000 <= R32 (c_frac c) < / 12 + / 100000)%R.
Proof.
  cbv zeta.
  assert (Hwf : wf_ops [QForbid [3; 200]; QConvert v_0_5; QAllow [3; 11]]).
  { unfold wf_ops. repeat constructor; cbn; lia. }
  assert (Hmask : q_allowed (qrun [QForbid [3; 200]; QConvert v_0_5; QAllow [3; 11]]) = 4095)
    by (vm_compute; reflexivity).
  assert (Hkeep : keeps (qrun [QForbid [3; 200]; QConvert v_0_5; QAllow [3; 11]]) v_0_7 = false)
    by (vm_compute; reflexivity).
  split; [exact Hwf|]. split; [vm_compute; reflexivity|]. split; [exact Hmask|].
  split; [vm_compute; reflexivity|]. split; [exact Hkeep|].
  split; [vm_compute; reflexivity|]. split; [vm_compute; reflexivity|].
  split; [vm_compute; reflexivity|].
  destruct (chromatic_fraction_after_history _ v_0_7 Hwf Hmask Hkeep) as [_ [_ [_ Hconcl]]].
  exact Hconcl.
Qed.

(** non-finite inputs after history: NaN is clamped to +0.0 (note 0, fraction +0.0) and
    +infinity to 10 V (note 120, stairstep 0x41200000 = 10.0, fraction +0.0); both leave the
    window of note 6, so both take the search path *)
Example ex_fraction_after_history_nonfinite :
  let ops := [QConvert v_0_5] in
  let q := qrun ops in
  let cn := snd (convert q B754_nan) in
  let ci := snd (convert q (B754_infinity false)) in
  wf_ops ops /\ q_allowed q = 4095 /\
  keeps q B754_nan = false /\ keeps q (B754_infinity false) = false /\
  c_note cn = 0 /\ to_bits (c_stair cn) = Some 0 /\ to_bits (c_frac cn) = Some 0 /\
  c_note ci = 120 /\ to_bits (c_stair ci) = Some 1092616192 /\ to_bits (c_frac ci) = Some 0 /\
  (fin (c_frac cn) /\ - / 100000 <= R32 (c_frac cn) < / 12 + / 100000)%R /\
  (fin (c_frac ci) /\ - / 100000 <= R32 (c_frac ci) < / 12 + / 100000)%R.
Proof.
  cbv zeta.
  assert (Hwf : wf_ops [QConvert v_0_5]) by exact (wf_convert_only [v_0_5]).
  assert (Hmask : q_allowed (qrun [QConvert v_0_5]) = 4095) by (vm_compute; reflexivity).
  assert (Hkn : keeps (qrun [QConvert v_0_5]) B754_nan = false) by (vm_compute; reflexivity).
  assert (Hki : keeps (qrun [QConvert v_0_5]) (B754_infinity false) = false)
    by (vm_compute; reflexivity).
  split; [exact Hwf|]. split; [exact Hmask|]. split; [exact Hkn|]. split; [exact Hki|].
  split; [vm_compute; reflexivity|]. split; [vm_compute; reflexivity|].
  split; [vm_compute; reflexivity|]. split; [vm_compute; reflexivity|].
  split; [vm_compute; reflexivity|]. split; [vm_compute; reflexivity|].
  split.
  - destruct (chromatic_fraction_after_history _ B754_nan Hwf Hmask Hkn) as [_ [_ [_ H]]].
    exact H.
  - destruct (chromatic_fraction_after_history _ (B754_infinity false) Hwf Hmask Hki)
      as [_ [_ [_ H]]].
    exact H.
Qed.

Close Scope Z_scope.
