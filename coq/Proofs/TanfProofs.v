(** * TanfProofs: range, accuracy and monotonicity of the [tanf] port on (0, 0.7853985].

    Structure
    - tiny arguments ([x < 2^-12]): [tanf x = x], and [tan x] is [x] up to [x^3];
    - even branch ([2^-12 <= x < 13176795 * 2^-24], the binary32 successor of the switch
      point 0x3f490fda): the binary64 evaluation of the polynomial is followed operation by
      operation ([approx], relative error 29 * 2^-52 in total), the polynomial is compared
      with [tan] by [interval] (TanfPoly, relative error 2^-25), and the final conversion
      to binary32 is one rounding (2^-24);
    - odd branch: only six binary32 numbers lie between the switch point and [X_TOP];
      [tanf] is evaluated on each of them by [vm_compute] and compared with [tan] by
      [interval]. *)

From Coq Require Import ZArith Reals Lia Lra Bool Floats.SpecFloat.
From Flocq Require Import Core IEEE754.BinarySingleNaN.
From Interval Require Import Tactic.
From SU Require Import F32 F64 F32Lemmas.
From SU.Model Require Import Tanf.
From SU.Proofs Require Import TanfBase TanfPoly.

Open Scope R_scope.

Definition X_TOP : R := 0.7853985.

(** ** the constants of the port *)

Ltac r64_const c s m e k p :=
  split;
  [ rewrite (R64_of_SF c s m e ltac:(vm_compute; reflexivity));
    cbn [cond_Zopp Z.opp];
    change e with (- k)%Z; rewrite (bpow2_neg k) by lia;
    change (2 ^ k)%Z with p; lra
  | exact (fin64_of_SF c s m e ltac:(vm_compute; reflexivity)) ].

Lemma T0_val : R64 T0 = C0 /\ fin64 T0.
Proof. unfold C0. r64_const T0 false 6004764585806239%positive (-54)%Z 54%Z 18014398509481984%Z. Qed.
Lemma T1_val : R64 T1 = C1 /\ fin64 T1.
Proof. unfold C1. r64_const T1 false 4805953389698930%positive (-55)%Z 55%Z 36028797018963968%Z. Qed.
Lemma T2_val : R64 T2 = C2 /\ fin64 T2.
Proof. unfold C2. r64_const T2 false 7693047131691774%positive (-57)%Z 57%Z 144115188075855872%Z. Qed.
Lemma T3_val : R64 T3 = C3 /\ fin64 T3.
Proof. unfold C3. r64_const T3 false 7069806357132238%positive (-58)%Z 58%Z 288230376151711744%Z. Qed.
Lemma T4_val : R64 T4 = C4 /\ fin64 T4.
Proof. unfold C4. r64_const T4 false 6858401295168590%positive (-61)%Z 61%Z 2305843009213693952%Z. Qed.
Lemma T5_val : R64 T5 = C5 /\ fin64 T5.
Proof. unfold C5. r64_const T5 false 5456574480325581%positive (-59)%Z 59%Z 576460752303423488%Z. Qed.

Lemma approx_const : forall (T : f64) (C : R), R64 T = C /\ fin64 T -> 0 <= C -> approx T C C 0.
Proof.
  intros T C [V F] HC. repeat split; auto. now apply rel_exact.
Qed.

(** ** the binary64 evaluation as a function on the reals *)

Definition Kz (x : R) : R := rnd64 (x * x).
Definition Kr1 (x : R) : R := rnd64 (C4 + rnd64 (Kz x * C5)).
Definition Kt (x : R) : R := rnd64 (C2 + rnd64 (Kz x * C3)).
Definition Kw (x : R) : R := rnd64 (Kz x * Kz x).
Definition Ks (x : R) : R := rnd64 (Kz x * x).
Definition Ku (x : R) : R := rnd64 (C0 + rnd64 (Kz x * C1)).
Definition KT (x : R) : R :=
  rnd64 (rnd64 (x + rnd64 (Ks x * Ku x))
         + rnd64 (rnd64 (Ks x * Kw x) * rnd64 (Kt x + rnd64 (Kw x * Kr1 x)))).

Ltac side :=
  unfold TINY, C0, C1, C2, C3, C4, C5; try split; interval.

Ltac amul H1 H2 k :=
  refine (approx_mul _ _ _ _ _ _ _ _ k _ _ _ H1 H2 _ _ _); [lra|lra|lra|side|side|side].

Ltac aadd H1 H2 k :=
  refine (approx_add _ _ _ _ _ _ _ _ k _ _ _ _ _ H1 H2 _ _ _);
    [lra|lra|lra|lra|lra|side|side|side].

(** the even branch of [k_tanf]: no overflow, and the result is the binary32 rounding of
    a binary64 number within relative distance 29 * 2^-52 of [P x] *)
Lemma k_tanf_even : forall X : f64, fin64 X -> / 4096 <= R64 X <= 0.7853982 ->
  exists D : f64, k_tanf X false = f64_to_f32 D /\
    approx D (KT (R64 X)) (P (R64 X)) 29.
Proof.
  intros X FX HX.
  assert (AX : approx X (R64 X) (R64 X) 0) by (apply approx_exact; [exact FX|lra]).
  remember (R64 X) as x eqn:Ex.
  assert (A0 : approx T0 C0 C0 0) by (apply approx_const; [exact T0_val|unfold C0; lra]).
  assert (A1 : approx T1 C1 C1 0) by (apply approx_const; [exact T1_val|unfold C1; lra]).
  assert (A2 : approx T2 C2 C2 0) by (apply approx_const; [exact T2_val|unfold C2; lra]).
  assert (A3 : approx T3 C3 C3 0) by (apply approx_const; [exact T3_val|unfold C3; lra]).
  assert (A4 : approx T4 C4 C4 0) by (apply approx_const; [exact T4_val|unfold C4; lra]).
  assert (A5 : approx T5 C5 C5 0) by (apply approx_const; [exact T5_val|unfold C5; lra]).
  assert (Az : approx (dmul X X) (Kz x) (x * x) 2).
  { unfold Kz. amul AX AX 2. }
  assert (Az5 : approx (dmul (dmul X X) T5) (rnd64 (Kz x * C5)) ((x * x) * C5) 4).
  { amul Az A5 4. }
  assert (Ar1 : approx (dadd T4 (dmul (dmul X X) T5)) (Kr1 x) (C4 + (x * x) * C5) 5).
  { unfold Kr1. aadd A4 Az5 5. }
  assert (Az3 : approx (dmul (dmul X X) T3) (rnd64 (Kz x * C3)) ((x * x) * C3) 4).
  { amul Az A3 4. }
  assert (At : approx (dadd T2 (dmul (dmul X X) T3)) (Kt x) (C2 + (x * x) * C3) 5).
  { unfold Kt. aadd A2 Az3 5. }
  assert (Aw : approx (dmul (dmul X X) (dmul X X)) (Kw x) ((x * x) * (x * x)) 6).
  { unfold Kw. amul Az Az 6. }
  assert (As : approx (dmul (dmul X X) X) (Ks x) ((x * x) * x) 4).
  { unfold Ks. amul Az AX 4. }
  assert (Az1 : approx (dmul (dmul X X) T1) (rnd64 (Kz x * C1)) ((x * x) * C1) 4).
  { amul Az A1 4. }
  assert (Au : approx (dadd T0 (dmul (dmul X X) T1)) (Ku x) (C0 + (x * x) * C1) 5).
  { unfold Ku. aadd A0 Az1 5. }
  assert (Asu : approx (dmul (dmul (dmul X X) X) (dadd T0 (dmul (dmul X X) T1)))
                  (rnd64 (Ks x * Ku x)) (((x * x) * x) * (C0 + (x * x) * C1)) 11).
  { amul As Au 11. }
  assert (Axs : approx (dadd X (dmul (dmul (dmul X X) X) (dadd T0 (dmul (dmul X X) T1))))
                  (rnd64 (x + rnd64 (Ks x * Ku x)))
                  (x + ((x * x) * x) * (C0 + (x * x) * C1)) 12).
  { aadd AX Asu 12. }
  assert (Asw : approx (dmul (dmul (dmul X X) X) (dmul (dmul X X) (dmul X X)))
                  (rnd64 (Ks x * Kw x)) (((x * x) * x) * ((x * x) * (x * x))) 12).
  { amul As Aw 12. }
  assert (Awr : approx (dmul (dmul (dmul X X) (dmul X X)) (dadd T4 (dmul (dmul X X) T5)))
                  (rnd64 (Kw x * Kr1 x)) (((x * x) * (x * x)) * (C4 + (x * x) * C5)) 13).
  { amul Aw Ar1 13. }
  assert (Atw : approx (dadd (dadd T2 (dmul (dmul X X) T3))
                             (dmul (dmul (dmul X X) (dmul X X)) (dadd T4 (dmul (dmul X X) T5))))
                  (rnd64 (Kt x + rnd64 (Kw x * Kr1 x)))
                  ((C2 + (x * x) * C3) + ((x * x) * (x * x)) * (C4 + (x * x) * C5)) 14).
  { aadd At Awr 14. }
  assert (Apr : approx (dmul (dmul (dmul (dmul X X) X) (dmul (dmul X X) (dmul X X)))
                             (dadd (dadd T2 (dmul (dmul X X) T3))
                                (dmul (dmul (dmul X X) (dmul X X)) (dadd T4 (dmul (dmul X X) T5)))))
                  (rnd64 (rnd64 (Ks x * Kw x) * rnd64 (Kt x + rnd64 (Kw x * Kr1 x))))
                  ((((x * x) * x) * ((x * x) * (x * x)))
                   * ((C2 + (x * x) * C3) + ((x * x) * (x * x)) * (C4 + (x * x) * C5))) 28).
  { amul Asw Atw 28. }
  eexists. split.
  - unfold k_tanf. cbv beta iota zeta. reflexivity.
  - unfold KT, P. aadd Axs Apr 29.
Qed.

(** monotonicity of the binary64 evaluation on non-negative arguments *)
Lemma Kz_mono : forall x y, 0 <= x <= y -> 0 <= Kz x <= Kz y.
Proof.
  intros x y H. unfold Kz. split.
  - apply rnd64_ge_0. nra.
  - apply rnd64_le. nra.
Qed.

Lemma lin_mono : forall c0 c1 a b, 0 <= c0 -> 0 <= c1 -> 0 <= a <= b ->
  0 <= rnd64 (c0 + rnd64 (a * c1)) <= rnd64 (c0 + rnd64 (b * c1)).
Proof.
  intros c0 c1 a b H0 H1 H.
  assert (Ha : 0 <= rnd64 (a * c1)) by (apply rnd64_ge_0; nra).
  assert (Hab : rnd64 (a * c1) <= rnd64 (b * c1)) by (apply rnd64_le; nra).
  split.
  - apply rnd64_ge_0. lra.
  - apply rnd64_le. lra.
Qed.

Lemma mul_mono : forall a b c d, 0 <= a <= b -> 0 <= c <= d ->
  0 <= rnd64 (a * c) <= rnd64 (b * d).
Proof.
  intros a b c d H1 H2. split.
  - apply rnd64_ge_0. nra.
  - apply rnd64_le. nra.
Qed.

Lemma add_mono : forall a b c d, 0 <= a <= b -> 0 <= c <= d ->
  0 <= rnd64 (a + c) <= rnd64 (b + d).
Proof.
  intros a b c d H1 H2. split.
  - apply rnd64_ge_0. lra.
  - apply rnd64_le. lra.
Qed.

Lemma C_pos : 0 <= C0 /\ 0 <= C1 /\ 0 <= C2 /\ 0 <= C3 /\ 0 <= C4 /\ 0 <= C5.
Proof. unfold C0, C1, C2, C3, C4, C5. repeat split; lra. Qed.

Lemma KT_mono : forall x y, 0 <= x <= y -> 0 <= KT x <= KT y.
Proof.
  intros x y H.
  destruct C_pos as [P0 [P1 [P2 [P3 [P4 P5]]]]].
  assert (Hz := Kz_mono x y H).
  assert (Hr1 : 0 <= Kr1 x <= Kr1 y) by (apply lin_mono; assumption).
  assert (Ht : 0 <= Kt x <= Kt y) by (apply lin_mono; assumption).
  assert (Hu : 0 <= Ku x <= Ku y) by (apply lin_mono; assumption).
  assert (Hw : 0 <= Kw x <= Kw y) by (apply mul_mono; assumption).
  assert (Hs : 0 <= Ks x <= Ks y) by (apply mul_mono; assumption).
  unfold KT. apply add_mono.
  - apply add_mono; [exact H|]. apply mul_mono; assumption.
  - apply mul_mono.
    + apply mul_mono; assumption.
    + apply add_mono; [exact Ht|]. apply mul_mono; assumption.
Qed.

(** [KT x >= x] for a binary64 number [x >= 0] *)
Lemma KT_ge_id : forall x, fmt64 x -> 0 <= x -> x <= KT x.
Proof.
  intros x Fx Hx.
  destruct C_pos as [P0 [P1 [P2 [P3 [P4 P5]]]]].
  assert (Hz := Kz_mono x x ltac:(lra)).
  assert (Hr1 : 0 <= Kr1 x <= Kr1 x) by (apply lin_mono; assumption).
  assert (Ht : 0 <= Kt x <= Kt x) by (apply lin_mono; assumption).
  assert (Hu : 0 <= Ku x <= Ku x) by (apply lin_mono; assumption).
  assert (Hw : 0 <= Kw x <= Kw x) by (apply mul_mono; assumption).
  assert (Hxx : 0 <= x <= x) by lra.
  assert (Hs : 0 <= Ks x <= Ks x) by (apply mul_mono; assumption).
  assert (H1 := proj1 (mul_mono _ _ _ _ Hs Hu)).
  assert (H2 : x <= rnd64 (x + rnd64 (Ks x * Ku x))).
  { rewrite <- (rnd64_id x Fx) at 1. apply rnd64_le. lra. }
  assert (Hsw := mul_mono _ _ _ _ Hs Hw).
  assert (Hwr := mul_mono _ _ _ _ Hw Hr1).
  assert (Htw := add_mono _ _ _ _ Ht Hwr).
  assert (H3 := proj1 (mul_mono _ _ _ _ Hsw Htw)).
  unfold KT. rewrite <- (rnd64_id x Fx) at 1. apply rnd64_le. lra.
Qed.

(** ** the even branch of [tanf] *)

Lemma tanf_even_value : forall x : f32, fin x -> / 4096 <= R32 x <= 0.7853982 ->
  let r := KT (R32 x) in
  fin (k_tanf (f32_to_f64 x) false) /\
  R32 (k_tanf (f32_to_f64 x) false) = rnd r /\
  Rabs (r - P (R32 x)) <= 29 * E52 * P (R32 x).
Proof.
  intros x Fx Hx r.
  destruct (f32_to_f64_exact x Fx) as [V64 F64].
  destruct (k_tanf_even (f32_to_f64 x) F64) as [D [ED [FD [VD RD]]]].
  { rewrite V64. exact Hx. }
  rewrite V64 in VD, RD. fold r in VD, RD.
  assert (HP := P_tan (R32 x) Hx). assert (HT := tan_even_bounds (R32 x) Hx).
  unfold rel in RD.
  assert (HE : 29 * E52 <= / 1000000000) by (unfold E52; lra).
  assert (Hr : / 1048576 <= r <= 2).
  { apply Rabs_le_inv in HP. apply Rabs_le_inv in RD.
    assert (Hp : / 4097 <= P (R32 x) <= 1.001) by lra.
    assert (29 * E52 * P (R32 x) <= / 1000000000 * P (R32 x))
      by (apply Rmult_le_compat_r; lra).
    lra. }
  destruct (f64_to_f32_correct D FD) as [V F].
  { rewrite VD. apply (no_overflow 2);
      [apply (fmt_int 2); lia | rewrite MAXF_val; lra | apply Rabs_le; lra]. }
  rewrite ED. rewrite VD in V. repeat split; assumption.
Qed.

(** ** case analysis on the bit pattern *)

Lemma tanf_cases : forall x : f32, fin x -> 0 < R32 x <= X_TOP ->
  (R32 x < / 4096 /\ tanf x = x) \/
  (/ 4096 <= R32 x <= 13176794 / 16777216 /\ tanf x = k_tanf (f32_to_f64 x) false) \/
  (exists i : Z, (0 <= i <= 5)%Z /\ R32 x = IZR (13176795 + i) / 16777216).
Proof.
  intros x Fx [Hp Ht]. unfold X_TOP in Ht.
  destruct (to_bits_pos_fin x Fx Hp) as [b [Eb [Hl Hcmp]]].
  assert (H1 := Hcmp 8388608%Z (-35)%Z ltac:(lia) ltac:(lia)).
  assert (H2 := Hcmp 13176795%Z (-24)%Z ltac:(lia) ltac:(lia)).
  change (enc 8388608 (-35)) with 964689920%Z in H1.
  change (enc 13176795 (-24)) with 1061752795%Z in H2.
  replace (IZR 8388608 * bpow radix2 (-35)) with (/ 4096) in H1.
  2:{ change (-35)%Z with (- (35))%Z. rewrite (bpow2_neg 35) by lia.
      change (2 ^ 35)%Z with 34359738368%Z. lra. }
  replace (IZR 13176795 * bpow radix2 (-24)) with (13176795 / 16777216) in H2.
  2:{ change (-24)%Z with (- (24))%Z. rewrite (bpow2_neg 24) by lia.
      change (2 ^ 24)%Z with 16777216%Z. lra. }
  unfold tanf. rewrite Eb. cbv beta iota zeta. rewrite Hl.
  destruct (Z.leb_spec b 1061752794) as [L1|L1].
  - destruct (Z.ltb_spec b 964689920) as [L2|L2].
    + left. split; [apply H1; exact L2|reflexivity].
    + right; left. split; [|reflexivity]. split.
      * destruct (Rlt_or_le (R32 x) (/ 4096)) as [C|C]; [apply H1 in C; lia|exact C].
      * assert (Hlt : R32 x < 13176795 / 16777216) by (apply H2; lia).
        destruct (Rlt_or_le (R32 x) (/ 2)) as [C|C]; [lra|].
        destruct (fmt_binade_half (R32 x) (fmt_R32 x)) as [k Hk]; [lra|].
        rewrite Hk in Hlt. rewrite Hk.
        assert (Hk1 : (k < 13176795)%Z) by (apply lt_IZR; lra).
        assert (Hk2 : IZR k <= 13176794) by (apply IZR_le; lia).
        lra.
  - right; right.
    assert (Hge : 13176795 / 16777216 <= R32 x).
    { destruct (Rlt_or_le (R32 x) (13176795 / 16777216)) as [C|C]; [apply H2 in C; lia|exact C]. }
    destruct (fmt_binade_half (R32 x) (fmt_R32 x)) as [k Hk]; [lra|].
    rewrite Hk in Hge, Ht.
    assert (Hk1 : (13176795 <= k)%Z) by (apply le_IZR; lra).
    assert (Hk2 : (k < 13176801)%Z) by (apply lt_IZR; lra).
    exists (k - 13176795)%Z. split; [lia|].
    replace (13176795 + (k - 13176795))%Z with k by lia. exact Hk.
Qed.

(** a binary32 number with a known value is the corresponding closed constant *)
Lemma odd_point : forall (x c : f32) (m my : positive), fin x ->
  R32 x = IZR (Z.pos m) / 16777216 ->
  B2SF c = S754_finite false m (-24) ->
  B2SF (tanf c) = S754_finite false my (-23) ->
  fin (tanf x) /\ R32 (tanf x) = IZR (Z.pos my) / 8388608.
Proof.
  intros x c m my Fx Vx Hc Ht.
  assert (Vc : R32 c = IZR (Z.pos m) / 16777216).
  { rewrite (R32_of_SF c _ _ _ Hc). cbn [cond_Zopp].
    change (-24)%Z with (- (24))%Z. rewrite (bpow2_neg 24) by lia.
    change (2 ^ 24)%Z with 16777216%Z. reflexivity. }
  assert (Fc : fin c) by exact (fin_of_SF c _ _ _ Hc).
  assert (E : x = c).
  { apply R32_inj; try assumption.
    - rewrite Vx. assert (0 < IZR (Z.pos m)) by (apply (IZR_lt 0); lia).
      apply Rgt_not_eq. apply Rdiv_lt_0_compat; lra.
    - now rewrite Vc. }
  subst x. split.
  - exact (fin_of_SF _ _ _ _ Ht).
  - rewrite (R32_of_SF _ _ _ _ Ht). cbn [cond_Zopp].
    change (-23)%Z with (- (23))%Z. rewrite (bpow2_neg 23) by lia.
    change (2 ^ 23)%Z with 8388608%Z. reflexivity.
Qed.

(** the value at the last binary32 number of the even branch *)
Lemma even_top : rnd (KT (13176794 / 16777216)) = 16777214 / 16777216.
Proof.
  set (c := of_bits 1061752794).
  assert (Hc : B2SF c = S754_finite false 13176794 (-24)) by (vm_compute; reflexivity).
  assert (Vc : R32 c = 13176794 / 16777216).
  { rewrite (R32_of_SF c _ _ _ Hc). cbn [cond_Zopp].
    change (-24)%Z with (- (24))%Z. rewrite (bpow2_neg 24) by lia.
    change (2 ^ 24)%Z with 16777216%Z. reflexivity. }
  assert (Fc : fin c) by exact (fin_of_SF c _ _ _ Hc).
  destruct (tanf_even_value c Fc) as [_ [V _]]; [rewrite Vc; lra|].
  rewrite Vc in V. rewrite <- V.
  rewrite (R32_of_SF (k_tanf (f32_to_f64 c) false) false 16777214 (-24))
    by (vm_compute; reflexivity).
  cbn [cond_Zopp]. change (-24)%Z with (- (24))%Z. rewrite (bpow2_neg 24) by lia.
  change (2 ^ 24)%Z with 16777216%Z. reflexivity.
Qed.

(** the three regimes *)
Lemma tanf_struct : forall x : f32, fin x -> 0 < R32 x <= X_TOP ->
  (R32 x < / 4096 /\ tanf x = x) \/
  (/ 4096 <= R32 x <= 13176794 / 16777216 /\ fin (tanf x) /\
   R32 (tanf x) = rnd (KT (R32 x)) /\
   Rabs (KT (R32 x) - P (R32 x)) <= 29 * E52 * P (R32 x)) \/
  (exists i : Z, (0 <= i <= 5)%Z /\ R32 x = IZR (13176795 + i) / 16777216 /\
     fin (tanf x) /\ R32 (tanf x) = IZR (8388608 + i) / 8388608).
Proof.
  intros x Fx Hx.
  destruct (tanf_cases x Fx Hx) as [[H1 H2]|[[H1 H2]|[i [Hi Vx]]]].
  - left. split; assumption.
  - right; left. split; [exact H1|]. rewrite H2.
    apply tanf_even_value; [exact Fx|lra].
  - right; right. exists i. split; [exact Hi|]. split; [exact Vx|].
    assert (Ei : (i = 0 \/ i = 1 \/ i = 2 \/ i = 3 \/ i = 4 \/ i = 5)%Z) by lia.
    destruct Ei as [E|[E|[E|[E|[E|E]]]]]; subst i.
    + apply (odd_point x (of_bits 1061752795) 13176795 8388608 Fx Vx);
        vm_compute; reflexivity.
    + apply (odd_point x (of_bits 1061752796) 13176796 8388609 Fx Vx);
        vm_compute; reflexivity.
    + apply (odd_point x (of_bits 1061752797) 13176797 8388610 Fx Vx);
        vm_compute; reflexivity.
    + apply (odd_point x (of_bits 1061752798) 13176798 8388611 Fx Vx);
        vm_compute; reflexivity.
    + apply (odd_point x (of_bits 1061752799) 13176799 8388612 Fx Vx);
        vm_compute; reflexivity.
    + apply (odd_point x (of_bits 1061752800) 13176800 8388613 Fx Vx);
        vm_compute; reflexivity.
Qed.

(** ** accuracy (sharp form: relative 2^-23) and range *)

Lemma tanf_all : forall x : f32, fin x -> 0 < R32 x <= X_TOP ->
  fin (tanf x) /\ 0 < tan (R32 x) /\
  Rabs (R32 (tanf x) - tan (R32 x)) <= / 8388608 * tan (R32 x) /\
  R32 (tanf x) <= 1 + / 1048576.
Proof.
  intros x Fx Hx.
  destruct (tanf_struct x Fx Hx) as [[H1 H2]|[[H1 [F [V HR]]]|[i [Hi [Vx [F V]]]]]].
  - (* tiny *)
    rewrite H2. destruct (tan_small (R32 x)) as [T1 T2]; [lra|].
    split; [exact Fx|]. split; [lra|]. split; [|lra].
    apply Rle_trans with (1 := T2). lra.
  - (* even branch *)
    assert (Hx' : / 4096 <= R32 x <= 0.7853982) by lra.
    assert (HP := P_tan (R32 x) Hx'). assert (HT := tan_even_bounds (R32 x) Hx').
    set (r := KT (R32 x)) in *. set (p := P (R32 x)) in *. set (t := tan (R32 x)) in *.
    apply Rabs_le_inv in HP. apply Rabs_le_inv in HR.
    assert (HE : 0 <= 29 * E52 <= / 1000000000) by (unfold E52; lra).
    assert (Hp : / 4097 <= p <= 1.001) by lra.
    assert (HEp : 29 * E52 * p <= / 1000000000 * p) by (apply Rmult_le_compat_r; lra).
    assert (Hr : / 1048576 <= r <= 2) by lra.
    assert (Hrr := rnd_rel r). rewrite (Rabs_pos_eq r) in Hrr by lra.
    specialize (Hrr (proj1 Hr)). apply Rabs_le_inv in Hrr.
    rewrite V.
    split; [exact F|]. split; [lra|]. split.
    + apply Rabs_le. lra.
    + lra.
  - (* the six points of the odd branch *)
    rewrite V, Vx.
    destruct tan_odd_points as [Q0 [Q1 [Q2 [Q3 [Q4 Q5]]]]].
    split; [exact F|].
    assert (Ei : (i = 0 \/ i = 1 \/ i = 2 \/ i = 3 \/ i = 4 \/ i = 5)%Z) by lia.
    destruct Ei as [E|[E|[E|[E|[E|E]]]]]; subst i;
      match goal with
      | |- context [IZR (13176795 + ?j)] =>
          let a := eval vm_compute in (13176795 + j)%Z in
          let b := eval vm_compute in (8388608 + j)%Z in
          change (13176795 + j)%Z with a; change (8388608 + j)%Z with b
      end.
    + split; [|split; [exact Q0|lra]]. apply Rabs_le_inv in Q0. lra.
    + split; [|split; [exact Q1|lra]]. apply Rabs_le_inv in Q1. lra.
    + split; [|split; [exact Q2|lra]]. apply Rabs_le_inv in Q2. lra.
    + split; [|split; [exact Q3|lra]]. apply Rabs_le_inv in Q3. lra.
    + split; [|split; [exact Q4|lra]]. apply Rabs_le_inv in Q4. lra.
    + split; [|split; [exact Q5|lra]]. apply Rabs_le_inv in Q5. lra.
Qed.

Lemma tanf_accuracy_sharp : forall x : f32, fin x -> 0 < R32 x <= X_TOP ->
  Rabs (R32 (tanf x) - tan (R32 x)) <= / 8388608 * tan (R32 x).
Proof. intros x Fx Hx. apply (tanf_all x Fx Hx). Qed.

Lemma tanf_range : forall x : f32, fin x -> 0 < R32 x <= X_TOP ->
  fin (tanf x) /\ 0 < R32 (tanf x) <= 1 + / 1048576.
Proof.
  intros x Fx Hx. destruct (tanf_all x Fx Hx) as [F [Tp [A U]]].
  split; [exact F|]. split; [|exact U].
  apply Rabs_le_inv in A. lra.
Qed.

Lemma tanf_accuracy : forall x : f32, fin x -> 0 < R32 x <= X_TOP ->
  Rabs (R32 (tanf x) - tan (R32 x)) <= / 1048576 * tan (R32 x).
Proof.
  intros x Fx Hx. destruct (tanf_all x Fx Hx) as [F [Tp [A U]]].
  apply Rle_trans with (1 := A). apply Rmult_le_compat_r; lra.
Qed.

(** ** monotonicity *)

Lemma tanf_mono : forall x y : f32, fin x -> fin y -> 0 < R32 x <= R32 y -> R32 y <= X_TOP ->
  R32 (tanf x) <= R32 (tanf y).
Proof.
  intros x y Fx Fy [Hx0 Hxy] Hy.
  assert (Hx : 0 < R32 x <= X_TOP) by lra.
  assert (Hy' : 0 < R32 y <= X_TOP) by lra.
  destruct (tanf_struct x Fx Hx) as [[X1 X2]|[[X1 [XF [XV _]]]|[i [Hi [Xx [XF XV]]]]]];
  destruct (tanf_struct y Fy Hy') as [[Y1 Y2]|[[Y1 [YF [YV _]]]|[j [Hj [Yx [YF YV]]]]]].
  - rewrite X2, Y2. exact Hxy.
  - rewrite X2, YV.
    apply Rle_trans with (R32 y); [exact Hxy|].
    rewrite <- (rnd_id (R32 y) (fmt_R32 y)) at 1. apply rnd_le.
    apply KT_ge_id; [apply fmt_fmt64, fmt_R32|lra].
  - rewrite X2, YV.
    assert (0 <= IZR j) by (apply (IZR_le 0); lia).
    rewrite plus_IZR. lra.
  - exfalso. lra.
  - rewrite XV, YV. apply rnd_le. apply KT_mono. lra.
  - rewrite XV, YV.
    apply Rle_trans with (rnd (KT (13176794 / 16777216))).
    + apply rnd_le. apply KT_mono. lra.
    + rewrite even_top. assert (0 <= IZR j) by (apply (IZR_le 0); lia).
      rewrite plus_IZR. lra.
  - exfalso. assert (0 <= IZR i) by (apply (IZR_le 0); lia).
    rewrite plus_IZR in Xx. lra.
  - exfalso. assert (0 <= IZR i) by (apply (IZR_le 0); lia).
    rewrite plus_IZR in Xx. lra.
  - rewrite XV, YV. rewrite Xx, Yx in Hxy.
    assert (Hij : (i <= j)%Z).
    { assert (IZR (13176795 + i) <= IZR (13176795 + j)) by lra.
      apply le_IZR in H. lia. }
    apply IZR_le in Hij. rewrite !plus_IZR. lra.
Qed.
